//! Cuts the two `#[cfg(target_pointer_width = "16")]` helper functions (`take_u32`, `nth_u32`) out of the
//! CURRENT `src/graphics.rs` of the repository under test and compiles them into the harness (attribute
//! stripped), so that the code path that is never compiled on this host is still run differentially
//! against the model. They use only `u32` arithmetic and `Iterator` methods.
use std::env;
use std::fs;
use std::path::PathBuf;

fn main() {
    let repo = env::var("VERIF_REPO_SRC").unwrap_or_else(|_| "/repo".to_string());
    let path = PathBuf::from(&repo).join("src/graphics.rs");
    println!("cargo:rerun-if-changed={}", path.display());
    println!("cargo:rerun-if-env-changed=VERIF_REPO_SRC");
    let text = fs::read_to_string(&path).expect("graphics.rs");
    let marker = "#[cfg(target_pointer_width = \"16\")]";
    let mut out = String::from("// extracted by build.rs from src/graphics.rs\n");
    let mut found = 0;
    let mut rest = text.as_str();
    while let Some(pos) = rest.find(marker) {
        let after = &rest[pos + marker.len()..];
        // the item runs to the closing brace at nesting depth 0
        let start = after.find("fn ").expect("fn after cfg");
        let body_start = after[start..].find('{').expect("body") + start;
        let mut depth = 0i32;
        let mut end = body_start;
        for (i, ch) in after[body_start..].char_indices() {
            if ch == '{' {
                depth += 1;
            } else if ch == '}' {
                depth -= 1;
                if depth == 0 {
                    end = body_start + i + 1;
                    break;
                }
            }
        }
        let item = &after[start..end];
        // rename so that both variants can coexist with anything else
        let item = item.replacen("fn take_u32", "pub fn take_u32_16", 1).replacen("fn nth_u32", "pub fn nth_u32_16", 1);
        out.push_str(&item);
        out.push('\n');
        found += 1;
        rest = &after[end..];
    }
    out.push_str(&format!("pub const PTR16_ITEMS_FOUND: usize = {};\n", found));
    let dst = PathBuf::from(env::var("OUT_DIR").unwrap()).join("ptr16.rs");
    fs::write(dst, out).unwrap();
}
