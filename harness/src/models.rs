//! Colour helpers, external const-generic models, model dispatch.
use embedded_graphics_core::pixelcolor::{Rgb565, Rgb666, Rgb888};
use embedded_graphics_core::prelude::*;
use embedded_hal::delay::DelayNs;
use mipidsi::dcs::{
    BitsPerPixel, EnterNormalMode, ExitSleepMode, InterfaceExt, PixelFormat, SetAddressMode,
    SetDisplayOn, SetInvertMode, SetPixelFormat,
};
use mipidsi::interface::Interface;
use mipidsi::models::{Model, ModelInitError};
use mipidsi::options::ModelOptions;

/// colours travel through the harness as raw integers: r<<(g+b bits) | g<<(b bits) | b
pub trait HColor: RgbColor + Copy + 'static {
    const TAG: u8;
    fn from_rawz(v: u32) -> Self;
    fn to_rawz(self) -> u32;
}
impl HColor for Rgb565 {
    const TAG: u8 = 0;
    fn from_rawz(v: u32) -> Self {
        Rgb565::new(((v >> 11) & 31) as u8, ((v >> 5) & 63) as u8, (v & 31) as u8)
    }
    fn to_rawz(self) -> u32 {
        ((self.r() as u32) << 11) | ((self.g() as u32) << 5) | self.b() as u32
    }
}
impl HColor for Rgb666 {
    const TAG: u8 = 1;
    fn from_rawz(v: u32) -> Self {
        Rgb666::new(((v >> 12) & 63) as u8, ((v >> 6) & 63) as u8, (v & 63) as u8)
    }
    fn to_rawz(self) -> u32 {
        ((self.r() as u32) << 12) | ((self.g() as u32) << 6) | self.b() as u32
    }
}
impl HColor for Rgb888 {
    const TAG: u8 = 2;
    fn from_rawz(v: u32) -> Self {
        Rgb888::new(((v >> 16) & 255) as u8, ((v >> 8) & 255) as u8, (v & 255) as u8)
    }
    fn to_rawz(self) -> u32 {
        ((self.r() as u32) << 16) | ((self.g() as u32) << 8) | self.b() as u32
    }
}

/// External model with an arbitrary framebuffer (same body as tests/external.rs: an external crate
/// can only use the public dcs API). Sends and returns `SetAddressMode::from(options)`.
pub struct Ext565<const W: u16, const H: u16>;
pub struct Ext666<const W: u16, const H: u16>;

fn ext_init<C: RgbColor, DELAY: DelayNs, DI: Interface>(
    di: &mut DI,
    delay: &mut DELAY,
    options: &ModelOptions,
) -> Result<SetAddressMode, ModelInitError<DI::Error>> {
    let madctl = SetAddressMode::from(options);
    delay.delay_us(150_000);
    di.write_command(ExitSleepMode)?;
    delay.delay_us(10_000);
    di.write_command(madctl)?;
    di.write_command(SetInvertMode::new(options.invert_colors))?;
    let pf = PixelFormat::with_all(BitsPerPixel::from_rgb_color::<C>());
    di.write_command(SetPixelFormat::new(pf))?;
    delay.delay_us(10_000);
    di.write_command(EnterNormalMode)?;
    delay.delay_us(10_000);
    di.write_command(SetDisplayOn)?;
    delay.delay_us(120_000);
    Ok(madctl)
}

impl<const W: u16, const H: u16> Model for Ext565<W, H> {
    type ColorFormat = Rgb565;
    const FRAMEBUFFER_SIZE: (u16, u16) = (W, H);
    fn init<DELAY: DelayNs, DI: Interface>(
        &mut self,
        di: &mut DI,
        delay: &mut DELAY,
        options: &ModelOptions,
    ) -> Result<SetAddressMode, ModelInitError<DI::Error>> {
        ext_init::<Rgb565, _, _>(di, delay, options)
    }
}
impl<const W: u16, const H: u16> Model for Ext666<W, H> {
    type ColorFormat = Rgb666;
    const FRAMEBUFFER_SIZE: (u16, u16) = (W, H);
    fn init<DELAY: DelayNs, DI: Interface>(
        &mut self,
        di: &mut DI,
        delay: &mut DELAY,
        options: &ModelOptions,
    ) -> Result<SetAddressMode, ModelInitError<DI::Error>> {
        ext_init::<Rgb666, _, _>(di, delay, options)
    }
}

/// Built-in models, ids 0..; external models, ids 100.. (Rgb565) and 200.. (Rgb666).
/// `$go!(Type, value)` is expanded for the selected model.
#[macro_export]
macro_rules! dispatch_565 {
    ($id:expr, $go:ident) => {{
        use mipidsi::models::*;
        use $crate::models::Ext565;
        match $id {
            0 => $go!(GC9107, GC9107),
            1 => $go!(GC9A01, GC9A01),
            2 => $go!(ILI9341Rgb565, ILI9341Rgb565),
            4 => $go!(ILI9342CRgb565, ILI9342CRgb565),
            6 => $go!(ILI9486Rgb565, ILI9486Rgb565),
            8 => $go!(ILI9488Rgb565, ILI9488Rgb565),
            10 => $go!(RM67162, RM67162),
            11 => $go!(ST7735s, ST7735s),
            12 => $go!(ST7789, ST7789),
            13 => $go!(ST7796, ST7796),
            100 => $go!(Ext565<1, 1>, Ext565::<1, 1>),
            101 => $go!(Ext565<2, 1>, Ext565::<2, 1>),
            102 => $go!(Ext565<1, 3>, Ext565::<1, 3>),
            103 => $go!(Ext565<2, 5>, Ext565::<2, 5>),
            104 => $go!(Ext565<7, 3>, Ext565::<7, 3>),
            105 => $go!(Ext565<16, 16>, Ext565::<16, 16>),
            106 => $go!(Ext565<240, 320>, Ext565::<240, 320>),
            107 => $go!(Ext565<300, 200>, Ext565::<300, 200>),
            108 => $go!(Ext565<65535, 65535>, Ext565::<65535, 65535>),
            109 => $go!(Ext565<65535, 1>, Ext565::<65535, 1>),
            110 => $go!(Ext565<1, 65535>, Ext565::<1, 65535>),
            111 => $go!(Ext565<40000, 50000>, Ext565::<40000, 50000>),
            112 => $go!(Ext565<100, 60>, Ext565::<100, 60>),
            _ => None,
        }
    }};
}
#[macro_export]
macro_rules! dispatch_666 {
    ($id:expr, $go:ident) => {{
        use mipidsi::models::*;
        use $crate::models::Ext666;
        match $id {
            3 => $go!(ILI9341Rgb666, ILI9341Rgb666),
            5 => $go!(ILI9342CRgb666, ILI9342CRgb666),
            7 => $go!(ILI9486Rgb666, ILI9486Rgb666),
            9 => $go!(ILI9488Rgb666, ILI9488Rgb666),
            200 => $go!(Ext666<1, 1>, Ext666::<1, 1>),
            203 => $go!(Ext666<2, 5>, Ext666::<2, 5>),
            204 => $go!(Ext666<7, 3>, Ext666::<7, 3>),
            206 => $go!(Ext666<240, 320>, Ext666::<240, 320>),
            208 => $go!(Ext666<65535, 65535>, Ext666::<65535, 65535>),
            212 => $go!(Ext666<100, 60>, Ext666::<100, 60>),
            _ => None,
        }
    }};
}

/// (id, name, FW, FH, colour tag) of every model the harness can instantiate
pub fn model_table() -> Vec<(u32, &'static str, u16, u16, u8)> {
    let mut v = Vec::new();
    macro_rules! row {
        ($id:expr, $t:ty, $n:expr) => {
            v.push((
                $id,
                $n,
                <$t as Model>::FRAMEBUFFER_SIZE.0,
                <$t as Model>::FRAMEBUFFER_SIZE.1,
                <<$t as Model>::ColorFormat as HColor>::TAG,
            ))
        };
    }
    use mipidsi::models::*;
    row!(0, GC9107, "GC9107");
    row!(1, GC9A01, "GC9A01");
    row!(2, ILI9341Rgb565, "ILI9341Rgb565");
    row!(3, ILI9341Rgb666, "ILI9341Rgb666");
    row!(4, ILI9342CRgb565, "ILI9342CRgb565");
    row!(5, ILI9342CRgb666, "ILI9342CRgb666");
    row!(6, ILI9486Rgb565, "ILI9486Rgb565");
    row!(7, ILI9486Rgb666, "ILI9486Rgb666");
    row!(8, ILI9488Rgb565, "ILI9488Rgb565");
    row!(9, ILI9488Rgb666, "ILI9488Rgb666");
    row!(10, RM67162, "RM67162");
    row!(11, ST7735s, "ST7735s");
    row!(12, ST7789, "ST7789");
    row!(13, ST7796, "ST7796");
    v
}
