//! Scenarios `timg` / `timgp`: the real `TestImage::draw` on a minimal clipping `DrawTarget` (only
//! `draw_iter` is implemented, so the default `fill_contiguous` / `fill_solid` of embedded-graphics
//! run: the image must rely on nothing but the target's clipping).
use std::collections::HashMap;
use std::convert::Infallible;
use std::panic::{catch_unwind, AssertUnwindSafe};

use embedded_graphics_core::pixelcolor::{Rgb565, Rgb666, Rgb888};
use embedded_graphics_core::prelude::*;
use mipidsi::TestImage;

use crate::prog::Toks;

/// 0 = never painted, 1 white, 2 black, 3 red, 4 green, 5 blue, 6 anything else
fn classify<C: RgbColor>(c: C) -> u8 {
    if c == C::WHITE {
        1
    } else if c == C::BLACK {
        2
    } else if c == C::RED {
        3
    } else if c == C::GREEN {
        4
    } else if c == C::BLUE {
        5
    } else {
        6
    }
}

struct Target<C> {
    ox: i32,
    oy: i32,
    w: u32,
    h: u32,
    cells: Vec<u8>,
    probes: Option<HashMap<(i32, i32), u8>>,
    _c: std::marker::PhantomData<C>,
}

impl<C: RgbColor> Dimensions for Target<C> {
    fn bounding_box(&self) -> embedded_graphics_core::primitives::Rectangle {
        embedded_graphics_core::primitives::Rectangle::new(Point::new(self.ox, self.oy), Size::new(self.w, self.h))
    }
}

impl<C: RgbColor> DrawTarget for Target<C> {
    type Color = C;
    type Error = Infallible;
    fn draw_iter<I: IntoIterator<Item = Pixel<C>>>(&mut self, pixels: I) -> Result<(), Infallible> {
        for Pixel(p, c) in pixels {
            // cells are addressed relative to the target's own top-left corner
            let p = Point::new(p.x.wrapping_sub(self.ox), p.y.wrapping_sub(self.oy));
            if p.x >= 0 && p.y >= 0 && (p.x as i64) < self.w as i64 && (p.y as i64) < self.h as i64 {
                match self.probes.as_mut() {
                    Some(m) => {
                        if let Some(v) = m.get_mut(&(p.x, p.y)) {
                            *v = classify(c);
                        }
                    }
                    None => self.cells[(p.y as usize) * (self.w as usize) + p.x as usize] = classify(c),
                }
            }
        }
        Ok(())
    }
}

fn run<C: RgbColor>(w: u32, h: u32, probes: Option<Vec<(i32, i32)>>, ox: i32, oy: i32) -> String {
    let mut t: Target<C> = Target {
        ox,
        oy,
        w,
        h,
        cells: if probes.is_some() { Vec::new() } else { vec![0u8; (w as usize) * (h as usize)] },
        probes: probes.as_ref().map(|v| v.iter().map(|p| (*p, 0u8)).collect()),
        _c: std::marker::PhantomData,
    };
    let r = catch_unwind(AssertUnwindSafe(|| TestImage::<C>::new().draw(&mut t)));
    let res = match r {
        Ok(Ok(())) => "ROk",
        Ok(Err(_)) => "RBudget",
        Err(_) => "RPanic",
    };
    match probes {
        Some(ps) => {
            let m = t.probes.unwrap();
            let v: Vec<String> = ps.iter().map(|p| m[p].to_string()).collect();
            format!("({}, [{}])", res, v.join(";"))
        }
        None => {
            let rows: Vec<String> = (0..h as usize)
                .map(|y| {
                    let v: Vec<String> = (0..w as usize).map(|x| t.cells[y * w as usize + x].to_string()).collect();
                    format!("[{}]", v.join(";"))
                })
                .collect();
            format!("({}, [{}])", res, rows.join(";"))
        }
    }
}

/// `timg <colour type 0=565 1=666 2=888> <W> <H>` -> (res, raster rows)
pub fn timg(t: &mut Toks) -> String {
    let ct = t.n();
    let w = t.n() as u32;
    let h = t.n() as u32;
    // optional: top-left corner of the target's bounding box
    let (ox, oy) = if t.done() { (0, 0) } else { (t.n() as i32, t.n() as i32) };
    match ct {
        0 => run::<Rgb565>(w, h, None, ox, oy),
        1 => run::<Rgb666>(w, h, None, ox, oy),
        _ => run::<Rgb888>(w, h, None, ox, oy),
    }
}

/// `timgp <colour type> <W> <H> <n> (x y)*` -> (res, colours at the probe cells); for sizes whose raster
/// would not fit
pub fn timgp(t: &mut Toks) -> String {
    let ct = t.n();
    let w = t.n() as u32;
    let h = t.n() as u32;
    let n = t.n();
    let ps: Vec<(i32, i32)> = (0..n).map(|_| (t.n() as i32, t.n() as i32)).collect();
    match ct {
        0 => run::<Rgb565>(w, h, Some(ps), 0, 0),
        1 => run::<Rgb666>(w, h, Some(ps), 0, 0),
        _ => run::<Rgb888>(w, h, Some(ps), 0, 0),
    }
}
