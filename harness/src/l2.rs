//! Scenarios `spi`, `bus`, `par`: the transports below the `Interface` trait, driven directly through
//! their public API with recording / fault-injecting pins and SPI device.
use std::panic::{catch_unwind, AssertUnwindSafe};

use mipidsi::interface::{Generic16BitBus, Generic8BitBus, Interface, OutputBus, ParallelInterface, SpiInterface};

use crate::mocks::*;
use crate::prog::Toks;

fn fmt_l2(evs: &[Ev]) -> String {
    let v: Vec<String> = evs.iter().map(|e| e.l2()).collect();
    format!("[{}]", v.join("; "))
}

fn zl<T: std::fmt::Display>(v: &[T]) -> String {
    let s: Vec<String> = v.iter().map(|x| x.to_string()).collect();
    format!("[{}]", s.join(";"))
}

enum Call {
    Cmd(u8, Vec<u8>),
    Px(usize, Vec<u32>),      // N, count * N words
    Rep(usize, Vec<u32>, u32), // N, pixel, count
}

/// calls: `c <op> <n> args…` | `p <N> <count> words…` | `r <N> <count> words(N)…`, each optionally
/// preceded by `fail <k>` (the k-th low-level operation of that call fails)
fn parse_calls(t: &mut Toks) -> Vec<(Option<usize>, Call)> {
    let mut out = Vec::new();
    let mut pending = None;
    while !t.done() {
        match t.s() {
            "fail" => pending = Some(t.n() as usize),
            "c" => {
                let op = t.n() as u8;
                let n = t.n();
                let args = (0..n).map(|_| t.n() as u8).collect();
                out.push((pending.take(), Call::Cmd(op, args)));
            }
            "p" => {
                let n = t.n() as usize;
                let count = t.n() as usize;
                let ws = (0..count * n).map(|_| t.n() as u32).collect();
                out.push((pending.take(), Call::Px(n, ws)));
            }
            "r" => {
                let n = t.n() as usize;
                let count = t.n() as u32;
                let ws = (0..n).map(|_| t.n() as u32).collect();
                out.push((pending.take(), Call::Rep(n, ws, count)));
            }
            other => panic!("harness: unknown l2 call {}", other),
        }
    }
    out
}

fn arr<W: Copy + Default, const N: usize>(ws: &[W]) -> [W; N] {
    let mut a = [W::default(); N];
    a.copy_from_slice(&ws[..N]);
    a
}

trait FromU32: Copy + Default {
    fn from_u32(v: u32) -> Self;
}
impl FromU32 for u8 {
    fn from_u32(v: u32) -> Self {
        v as u8
    }
}
impl FromU32 for u16 {
    fn from_u32(v: u32) -> Self {
        v as u16
    }
}

fn do_call<DI>(di: &mut DI, call: &Call) -> Result<(), DI::Error>
where
    DI: Interface,
    DI::Word: FromU32,
{
    fn px<DI: Interface, const N: usize>(di: &mut DI, ws: &[u32]) -> Result<(), DI::Error>
    where
        DI::Word: FromU32,
    {
        let conv: Vec<DI::Word> = ws.iter().map(|v| DI::Word::from_u32(*v)).collect();
        // `filter` hides the exact size hint: the transport may not rely on it
        di.send_pixels(conv.chunks_exact(N).map(|c| arr::<DI::Word, N>(c)).filter(|_| true))
    }
    fn rep<DI: Interface, const N: usize>(di: &mut DI, ws: &[u32], count: u32) -> Result<(), DI::Error>
    where
        DI::Word: FromU32,
    {
        let conv: Vec<DI::Word> = ws.iter().map(|v| DI::Word::from_u32(*v)).collect();
        di.send_repeated_pixel(arr::<DI::Word, N>(&conv), count)
    }
    match call {
        Call::Cmd(op, args) => di.send_command(*op, args),
        Call::Px(n, ws) => match n {
            1 => px::<DI, 1>(di, ws),
            2 => px::<DI, 2>(di, ws),
            3 => px::<DI, 3>(di, ws),
            _ => px::<DI, 4>(di, ws),
        },
        Call::Rep(n, ws, count) => match n {
            1 => rep::<DI, 1>(di, ws, *count),
            2 => rep::<DI, 2>(di, ws, *count),
            3 => rep::<DI, 3>(di, ws, *count),
            _ => rep::<DI, 4>(di, ws, *count),
        },
    }
}

fn run_calls<DI>(di: &mut DI, log: &Shared, calls: &[(Option<usize>, Call)], budget: i64, diag: &mut String) -> String
where
    DI: Interface,
    DI::Word: FromU32,
    DI::Error: ErrTag,
{
    let mut outs = Vec::new();
    for (fail, call) in calls {
        {
            let mut l = log.borrow_mut();
            l.budget = budget;
            l.budget_hit = false;
            l.fail_at = fail.map(|k| l.ops + k);
        }
        let r = catch_unwind(AssertUnwindSafe(|| do_call(di, call)));
        log.borrow_mut().fail_at = None;
        let evs = take_events(log);
        let budget_hit = log.borrow().budget_hit;
        let (res, stop) = match r {
            _ if budget_hit => ("RBudget".to_string(), true),
            Ok(Ok(())) => ("ROk".to_string(), false),
            Ok(Err(e)) => (format!("RErr (EIf {})", e.tag()), false),
            Err(_) => {
                diag.push_str(&crate::last_panic());
                ("RPanic".to_string(), true)
            }
        };
        outs.push(format!("({}, {})", res, fmt_l2(&evs)));
        if stop {
            break;
        }
    }
    format!("[{}]", outs.join("; "))
}

/// `spi <buflen> <budget> calls…` -> `(per-call results, final buffer)`; the buffer starts as 0xA5…
pub fn spi(t: &mut Toks) -> String {
    let buflen = t.n() as usize;
    let budget = t.n();
    let calls = parse_calls(t);
    let log = new_log();
    let mut buffer = vec![0xA5u8; buflen];
    let mut diag = String::new();
    let outs = {
        let mut di = SpiInterface::new(MockSpi(log.clone()), MockPin(log.clone(), Role::Dc), &mut buffer);
        run_calls(&mut di, &log, &calls, budget, &mut diag)
    };
    format!("({}, {}) ### {}", outs, zl(&buffer), diag)
}

fn pin(log: &Shared, i: u8) -> MockPin {
    MockPin(log.clone(), Role::Data(i))
}
fn bus8(log: &Shared) -> Generic8BitBus<MockPin, MockPin, MockPin, MockPin, MockPin, MockPin, MockPin, MockPin> {
    Generic8BitBus::new((
        pin(log, 0), pin(log, 1), pin(log, 2), pin(log, 3), pin(log, 4), pin(log, 5), pin(log, 6), pin(log, 7),
    ))
}
#[allow(clippy::type_complexity)]
fn bus16(
    log: &Shared,
) -> Generic16BitBus<
    MockPin, MockPin, MockPin, MockPin, MockPin, MockPin, MockPin, MockPin,
    MockPin, MockPin, MockPin, MockPin, MockPin, MockPin, MockPin, MockPin,
> {
    Generic16BitBus::new((
        pin(log, 0), pin(log, 1), pin(log, 2), pin(log, 3), pin(log, 4), pin(log, 5), pin(log, 6), pin(log, 7),
        pin(log, 8), pin(log, 9), pin(log, 10), pin(log, 11), pin(log, 12), pin(log, 13), pin(log, 14), pin(log, 15),
    ))
}

/// `par <width 8|16> <budget> calls…` -> per-call results (L2 ops)
pub fn par(t: &mut Toks) -> String {
    let width = t.n();
    let budget = t.n();
    let calls = parse_calls(t);
    let log = new_log();
    let mut diag = String::new();
    let outs = if width == 8 {
        let mut di = ParallelInterface::new(bus8(&log), MockPin(log.clone(), Role::Dc), MockPin(log.clone(), Role::Wr));
        run_calls(&mut di, &log, &calls, budget, &mut diag)
    } else {
        let mut di = ParallelInterface::new(bus16(&log), MockPin(log.clone(), Role::Dc), MockPin(log.clone(), Role::Wr));
        run_calls(&mut di, &log, &calls, budget, &mut diag)
    };
    format!("{} ### {}", outs, diag)
}

/// `bus <width> (<value> <fail k or -1>)…` : OutputBus::set_value histories with injected pin failures
/// -> list of (ok, ops)
pub fn bus(t: &mut Toks) -> String {
    let width = t.n();
    let log = new_log();
    let mut outs = Vec::new();
    let mut b8 = bus8(&log);
    let mut b16 = bus16(&log);
    while !t.done() {
        let v = t.n() as u32;
        let fail = t.n();
        {
            let mut l = log.borrow_mut();
            l.budget = 1 << 30;
            l.fail_at = if fail >= 0 { Some(l.ops + fail as usize) } else { None };
        }
        let ok = if width == 8 { b8.set_value(v as u8).is_ok() } else { b16.set_value(v as u16).is_ok() };
        log.borrow_mut().fail_at = None;
        let evs = take_events(&log);
        outs.push(format!("({}, {})", ok, fmt_l2(&evs)));
    }
    format!("[{}]", outs.join("; "))
}
