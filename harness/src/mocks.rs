//! Recording / fault-injecting mocks: what a pin, an SPI device, a delay source and an `Interface`
//! *are* for the correspondence check. Every fallible operation goes through `Log::op`.
use std::cell::RefCell;
use std::rc::Rc;

use embedded_hal::delay::DelayNs;
use embedded_hal::digital::{self, OutputPin};
use embedded_hal::spi::{self, Operation, SpiDevice};
use mipidsi::interface::{Interface, InterfaceKind};

#[derive(Clone, Debug, PartialEq)]
pub enum Ev {
    Cmd(u8, Vec<u8>),
    Pixels(Vec<Vec<u32>>),
    Repeat(Vec<u32>, u32),
    Delay(u64),
    Rst(bool),
    Dc(bool),
    Spi(Vec<u8>),
    Pin(u8, bool),
    Wr(bool),
}

fn zl<T: std::fmt::Display>(v: &[T]) -> String {
    let mut s = String::from("[");
    for (i, x) in v.iter().enumerate() {
        if i > 0 {
            s.push(';');
        }
        s.push_str(&x.to_string());
    }
    s.push(']');
    s
}

impl Ev {
    /// Coq syntax, L1 constructor names (`event`)
    pub fn l1(&self) -> String {
        match self {
            Ev::Cmd(op, a) => format!("ECmd {} {}", op, zl(a)),
            Ev::Pixels(p) => {
                let inner: Vec<String> = p.iter().map(|w| zl(w)).collect();
                format!("EPixels [{}]", inner.join(";"))
            }
            Ev::Repeat(p, n) => format!("ERepeat {} {}", zl(p), n),
            Ev::Delay(ns) => format!("EDelay {}", ns),
            Ev::Rst(false) => "ERstLow".into(),
            Ev::Rst(true) => "ERstHigh".into(),
            other => panic!("L2 event in L1 trace: {:?}", other),
        }
    }
    /// Coq syntax, L2 constructor names (`l2op`)
    pub fn l2(&self) -> String {
        match self {
            Ev::Dc(b) => format!("ODc {}", b),
            Ev::Spi(v) => format!("OSpi {}", zl(v)),
            Ev::Pin(i, b) => format!("OPin {} {}", i, b),
            Ev::Wr(b) => format!("OWr {}", b),
            Ev::Rst(b) => format!("ORst {}", b),
            Ev::Delay(ns) => format!("ODelay {}", ns),
            other => panic!("L1 event in L2 trace: {:?}", other),
        }
    }
}

pub struct Log {
    pub ev: Vec<Ev>,
    /// number of fallible operations attempted so far
    pub ops: usize,
    /// absolute index (in `ops` numbering) of the operation that must fail
    pub fail_at: Option<usize>,
    /// remaining operation budget; exhaustion = presumed non-termination
    pub budget: i64,
    pub budget_hit: bool,
}

pub type Shared = Rc<RefCell<Log>>;

pub fn new_log() -> Shared {
    Rc::new(RefCell::new(Log {
        ev: Vec::new(),
        ops: 0,
        fail_at: None,
        budget: 1 << 40,
        budget_hit: false,
    }))
}

#[derive(Debug, Clone, Copy, PartialEq)]
pub struct MockErr;

impl digital::Error for MockErr {
    fn kind(&self) -> digital::ErrorKind {
        digital::ErrorKind::Other
    }
}
impl spi::Error for MockErr {
    fn kind(&self) -> spi::ErrorKind {
        spi::ErrorKind::Other
    }
}

/// one fallible low-level operation: logged (also when it fails: the failing op is the last entry)
pub fn op(log: &Shared, ev: Ev) -> Result<(), MockErr> {
    let mut l = log.borrow_mut();
    l.budget -= 1;
    if l.budget < 0 {
        l.budget_hit = true;
        return Err(MockErr);
    }
    let idx = l.ops;
    l.ops += 1;
    l.ev.push(ev);
    if l.fail_at == Some(idx) {
        return Err(MockErr);
    }
    Ok(())
}

pub fn take_events(log: &Shared) -> Vec<Ev> {
    std::mem::take(&mut log.borrow_mut().ev)
}

// ---------------------------------------------------------------- delay
pub struct MockDelay(pub Shared);
impl DelayNs for MockDelay {
    // only delay_ns: the default delay_us / delay_ms bodies of embedded-hal really run
    fn delay_ns(&mut self, ns: u32) {
        let mut l = self.0.borrow_mut();
        if let Some(Ev::Delay(prev)) = l.ev.last_mut() {
            *prev += ns as u64;
        } else {
            l.ev.push(Ev::Delay(ns as u64));
        }
    }
}

// ---------------------------------------------------------------- pins
#[derive(Clone, Copy)]
pub enum Role {
    Rst,
    Dc,
    Wr,
    Data(u8),
}
pub struct MockPin(pub Shared, pub Role);
impl digital::ErrorType for MockPin {
    type Error = MockErr;
}
impl MockPin {
    fn set(&mut self, high: bool) -> Result<(), MockErr> {
        let ev = match self.1 {
            Role::Rst => Ev::Rst(high),
            Role::Dc => Ev::Dc(high),
            Role::Wr => Ev::Wr(high),
            Role::Data(i) => Ev::Pin(i, high),
        };
        op(&self.0, ev)
    }
}
impl OutputPin for MockPin {
    fn set_low(&mut self) -> Result<(), MockErr> {
        self.set(false)
    }
    fn set_high(&mut self) -> Result<(), MockErr> {
        self.set(true)
    }
}

// ---------------------------------------------------------------- SPI device
pub struct MockSpi(pub Shared);
impl spi::ErrorType for MockSpi {
    type Error = MockErr;
}
impl SpiDevice for MockSpi {
    fn transaction(&mut self, operations: &mut [Operation<'_, u8>]) -> Result<(), MockErr> {
        for o in operations.iter() {
            match o {
                Operation::Write(b) => op(&self.0, Ev::Spi(b.to_vec()))?,
                _ => panic!("harness: unexpected SPI operation"),
            }
        }
        Ok(())
    }
}

// ---------------------------------------------------------------- recording Interface (L1)
pub const fn kind_of(k: u8) -> InterfaceKind {
    match k {
        0 => InterfaceKind::Serial4Line,
        1 => InterfaceKind::Parallel8Bit,
        _ => InterfaceKind::Parallel16Bit,
    }
}

pub struct Rec8<const K: u8>(pub Shared);
impl<const K: u8> Interface for Rec8<K> {
    type Word = u8;
    type Error = MockErr;
    const KIND: InterfaceKind = kind_of(K);
    fn send_command(&mut self, command: u8, args: &[u8]) -> Result<(), MockErr> {
        op(&self.0, Ev::Cmd(command, args.to_vec()))
    }
    fn send_pixels<const N: usize>(
        &mut self,
        pixels: impl IntoIterator<Item = [u8; N]>,
    ) -> Result<(), MockErr> {
        let v: Vec<Vec<u32>> = pixels
            .into_iter()
            .map(|a| a.iter().map(|w| *w as u32).collect())
            .collect();
        op(&self.0, Ev::Pixels(v))
    }
    fn send_repeated_pixel<const N: usize>(&mut self, pixel: [u8; N], count: u32) -> Result<(), MockErr> {
        op(&self.0, Ev::Repeat(pixel.iter().map(|w| *w as u32).collect(), count))
    }
}

pub struct Rec16<const K: u8>(pub Shared);
impl<const K: u8> Interface for Rec16<K> {
    type Word = u16;
    type Error = MockErr;
    const KIND: InterfaceKind = kind_of(K);
    fn send_command(&mut self, command: u8, args: &[u8]) -> Result<(), MockErr> {
        op(&self.0, Ev::Cmd(command, args.to_vec()))
    }
    fn send_pixels<const N: usize>(
        &mut self,
        pixels: impl IntoIterator<Item = [u16; N]>,
    ) -> Result<(), MockErr> {
        let v: Vec<Vec<u32>> = pixels
            .into_iter()
            .map(|a| a.iter().map(|w| *w as u32).collect())
            .collect();
        op(&self.0, Ev::Pixels(v))
    }
    fn send_repeated_pixel<const N: usize>(&mut self, pixel: [u16; N], count: u32) -> Result<(), MockErr> {
        op(&self.0, Ev::Repeat(pixel.iter().map(|w| *w as u32).collect(), count))
    }
}

// ---------------------------------------------------------------- error tags (Coq `ierr`)
pub trait ErrTag {
    fn tag(&self) -> &'static str;
}
impl ErrTag for MockErr {
    fn tag(&self) -> &'static str {
        "IfRec"
    }
}
impl<A, B> ErrTag for mipidsi::interface::SpiError<A, B> {
    fn tag(&self) -> &'static str {
        match self {
            mipidsi::interface::SpiError::Spi(_) => "SpiSpi",
            mipidsi::interface::SpiError::Dc(_) => "SpiDc",
        }
    }
}
impl<A, B, C> ErrTag for mipidsi::interface::ParallelError<A, B, C> {
    fn tag(&self) -> &'static str {
        match self {
            mipidsi::interface::ParallelError::Bus(_) => "ParBus",
            mipidsi::interface::ParallelError::Dc(_) => "ParDc",
            mipidsi::interface::ParallelError::Wr(_) => "ParWr",
        }
    }
}
