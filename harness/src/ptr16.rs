//! Scenario `ptr16`: the 16-bit-pointer variants of `take_u32` / `nth_u32`, extracted from the current
//! source by build.rs, next to what `Iterator::take` / `Iterator::nth` do on this host.
#[allow(dead_code, unused_mut, clippy::all)]
mod extracted {
    include!(concat!(env!("OUT_DIR"), "/ptr16.rs"));
}
use crate::prog::Toks;

fn zl(v: &[i64]) -> String {
    let s: Vec<String> = v.iter().map(|x| x.to_string()).collect();
    format!("[{}]", s.join(";"))
}

/// `ptr16 take <n> <len> items…` -> (found, taken list, what is left in the underlying iterator)
/// `ptr16 nth <n> <len> items…`  -> (found, item or -1, what is left)
pub fn ptr16(t: &mut Toks) -> String {
    let kind = t.s();
    let n = t.n() as u32;
    let len = t.n();
    let items: Vec<i64> = (0..len).map(|_| t.n()).collect();
    let found = extracted::PTR16_ITEMS_FOUND;
    match kind {
        "take" => {
            let mut it = items.iter().copied();
            let taken: Vec<i64> = extracted::take_u32_16(&mut it, n).collect();
            let left: Vec<i64> = it.collect();
            format!("({}, {}, {})", found, zl(&taken), zl(&left))
        }
        _ => {
            let mut it = items.iter().copied();
            let r = extracted::nth_u32_16(&mut it, n);
            let left: Vec<i64> = it.collect();
            format!("({}, {}, {})", found, zl(&[r.unwrap_or(-1)]), zl(&left))
        }
    }
}
