//! Scenarios `dcs`, `orient`, `angle`, `color`, `colorsum`: the pure public API of dcs / options / colour encoding.
use std::panic::{catch_unwind, AssertUnwindSafe};

use embedded_graphics_core::pixelcolor::{Rgb565, Rgb666};
use mipidsi::dcs::*;
use mipidsi::interface::InterfacePixelFormat;
use mipidsi::options::*;

use crate::mocks::*;
use crate::models::HColor;
use crate::prog::{rot_id, rot_of, Toks};

fn zl<T: std::fmt::Display>(v: &[T]) -> String {
    let s: Vec<String> = v.iter().map(|x| x.to_string()).collect();
    format!("[{}]", s.join(";"))
}

fn refresh(btt: bool, rtl: bool) -> RefreshOrder {
    RefreshOrder::new(
        if btt { VerticalRefreshOrder::BottomToTop } else { VerticalRefreshOrder::TopToBottom },
        if rtl { HorizontalRefreshOrder::RightToLeft } else { HorizontalRefreshOrder::LeftToRight },
    )
}
fn corder(bgr: bool) -> ColorOrder {
    if bgr { ColorOrder::Bgr } else { ColorOrder::Rgb }
}
fn bpp(k: i64) -> BitsPerPixel {
    match k {
        0 => BitsPerPixel::Three,
        1 => BitsPerPixel::Eight,
        2 => BitsPerPixel::Twelve,
        3 => BitsPerPixel::Sixteen,
        4 => BitsPerPixel::Eighteen,
        _ => BitsPerPixel::TwentyFour,
    }
}

fn encode<C: DcsCommand + Copy2>(c: C, buflen: usize) -> String {
    // fill_params_buf on a 0xEE pre-filled buffer of the requested length
    let mut buf = vec![0xEEu8; buflen];
    let instr = c.instruction();
    let r = catch_unwind(AssertUnwindSafe(|| c.fill_params_buf(&mut buf)));
    let direct = match r {
        Ok(n) => format!("(ROk, {}, {}, {})", instr, n, zl(&buf)),
        Err(_) => format!("(RPanic, {}, 0, [])", instr),
    };
    // write_command through a recording interface, directly and through the `&mut T` forwarding impl
    let log = new_log();
    let mut di = Rec8::<0>(log.clone());
    let r1 = di.write_command(c.dup());
    let ev1 = take_events(&log);
    let mut fw = &mut di;
    let r2 = InterfaceExt::write_command(&mut fw, c.dup());
    let ev2 = take_events(&log);
    let f = |e: &Vec<Ev>| {
        let v: Vec<String> = e.iter().map(|x| x.l1()).collect();
        format!("[{}]", v.join("; "))
    };
    format!("({}, {}, {}, {}, {})", direct, r1.is_ok(), f(&ev1), r2.is_ok(), f(&ev2))
}

/// command values are consumed by write_command; all command types are cheap to rebuild
pub trait Copy2 {
    fn dup(&self) -> Self;
}
macro_rules! dup_clone {
    ($($t:ty),*) => { $(impl Copy2 for $t { fn dup(&self) -> Self { self.clone() } })* };
}
dup_clone!(SetAddressMode, SetPixelFormat, SetColumnAddress, SetPageAddress, SetScrollArea, SetScrollStart, SetTearingEffect, SetInvertMode);
macro_rules! dup_unit {
    ($($t:ident),*) => { $(impl Copy2 for $t { fn dup(&self) -> Self { $t } })* };
}
dup_unit!(SoftReset, EnterSleepMode, ExitSleepMode, EnterPartialMode, EnterNormalMode, SetDisplayOff, SetDisplayOn, ExitIdleMode, EnterIdleMode, WriteMemoryStart);

/// `dcs <buflen> <cmd ...>`
pub fn dcs(t: &mut Toks) -> String {
    let buflen = t.n() as usize;
    let kind = t.s();
    match kind {
        "basic" => match t.n() {
            0 => encode(SoftReset, buflen),
            1 => encode(EnterSleepMode, buflen),
            2 => encode(ExitSleepMode, buflen),
            3 => encode(EnterPartialMode, buflen),
            4 => encode(EnterNormalMode, buflen),
            5 => encode(SetDisplayOff, buflen),
            6 => encode(SetDisplayOn, buflen),
            7 => encode(ExitIdleMode, buflen),
            8 => encode(EnterIdleMode, buflen),
            _ => encode(WriteMemoryStart, buflen),
        },
        // chain of setters starting from SetAddressMode::default()
        "madctl" => {
            let n = t.n();
            let mut m = SetAddressMode::default();
            for _ in 0..n {
                match t.s() {
                    "c" => m = m.with_color_order(corder(t.n() != 0)),
                    "o" => m = m.with_orientation(Orientation { rotation: rot_of(t.n()), mirrored: t.n() != 0 }),
                    _ => m = m.with_refresh_order(refresh(t.n() != 0, t.n() != 0)),
                }
            }
            encode(m, buflen)
        }
        "madnew" => {
            let m = SetAddressMode::new(
                corder(t.n() != 0),
                Orientation { rotation: rot_of(t.n()), mirrored: t.n() != 0 },
                refresh(t.n() != 0, t.n() != 0),
            );
            encode(m, buflen)
        }
        "madopts" => {
            let mut o = ModelOptions::with_all((1, 1), (0, 0));
            o.color_order = corder(t.n() != 0);
            o.orientation = Orientation { rotation: rot_of(t.n()), mirrored: t.n() != 0 };
            o.refresh_order = refresh(t.n() != 0, t.n() != 0);
            encode(SetAddressMode::from(&o), buflen)
        }
        "pf" => encode(SetPixelFormat::new(PixelFormat::new(bpp(t.n()), bpp(t.n()))), buflen),
        "pfall" => encode(SetPixelFormat::new(PixelFormat::with_all(bpp(t.n()))), buflen),
        "caset" => encode(SetColumnAddress::new(t.n() as u16, t.n() as u16), buflen),
        "raset" => encode(SetPageAddress::new(t.n() as u16, t.n() as u16), buflen),
        "vscrdef" => encode(SetScrollArea::new(t.n() as u16, t.n() as u16, t.n() as u16), buflen),
        "vscad" => encode(SetScrollStart::new(t.n() as u16), buflen),
        "te" => encode(
            SetTearingEffect::new(match t.n() {
                0 => TearingEffect::Off,
                1 => TearingEffect::Vertical,
                _ => TearingEffect::HorizontalAndVertical,
            }),
            buflen,
        ),
        "inv" => encode(
            SetInvertMode::new(if t.n() != 0 { ColorInversion::Inverted } else { ColorInversion::Normal }),
            buflen,
        ),
        // write_raw with an arbitrary instruction and parameter slice
        "raw" => {
            let instr = t.n() as u8;
            let n = t.n();
            let args: Vec<u8> = (0..n).map(|_| t.n() as u8).collect();
            let log = new_log();
            let mut di = Rec8::<0>(log.clone());
            let r1 = di.write_raw(instr, &args);
            let ev1 = take_events(&log);
            let mut fw = &mut di;
            let r2 = InterfaceExt::write_raw(&mut fw, instr, &args);
            let ev2 = take_events(&log);
            let f = |e: &Vec<Ev>| {
                let v: Vec<String> = e.iter().map(|x| x.l1()).collect();
                format!("[{}]", v.join("; "))
            };
            format!("((ROk, {}, 0, []), {}, {}, {}, {})", instr, r1.is_ok(), f(&ev1), r2.is_ok(), f(&ev2))
        }
        other => format!("UNKNOWN-DCS {}", other),
    }
}

/// `orient <rot> <mir> <n> ops...` ops: 0..3 rotate by Deg0..Deg270, 4 flip_horizontal, 5 flip_vertical.
/// Output: (res, rot, mir, madctl byte of SetAddressMode::new(Rgb, o, default))
pub fn orient(t: &mut Toks) -> String {
    let mut o = Orientation { rotation: rot_of(t.n()), mirrored: t.n() != 0 };
    let n = t.n();
    let ops: Vec<i64> = (0..n).map(|_| t.n()).collect();
    let mut m = SetAddressMode::new(ColorOrder::Rgb, o, RefreshOrder::default());
    let r = catch_unwind(AssertUnwindSafe(|| {
        for k in ops.iter() {
            o = match *k {
                0..=3 => o.rotate(rot_of(*k)),
                4 => o.flip_horizontal(),
                _ => o.flip_vertical(),
            };
            // the address mode is updated in place after every step, as a running display does it
            m = m.with_orientation(o);
        }
        o
    }));
    match r {
        Ok(o) => {
            let mut b = [0u8; 1];
            m.fill_params_buf(&mut b);
            format!("(ROk, {}, {}, {})", rot_id(o.rotation), o.mirrored, b[0])
        }
        Err(_) => "(RPanic, 0, false, 0)".to_string(),
    }
}

/// `angle <a>*` : Rotation::try_from_degree, then degree() -> list of option Z (rotation id, degree)
pub fn angle(t: &mut Toks) -> String {
    let mut out = Vec::new();
    while !t.done() {
        let a = t.n() as i32;
        let r = catch_unwind(|| Rotation::try_from_degree(a));
        out.push(match r {
            Ok(Ok(r)) => format!("Some ({}, {})", rot_id(r), r.degree()),
            Ok(Err(_)) => "None".to_string(),
            Err(_) => "Some ((-1), (-1))".to_string(),
        });
    }
    format!("[{}]", out.join("; "))
}

/// position-weighted checksum of Rotation::try_from_degree over [lo, hi] (thorough sweeps)
pub fn anglesum(t: &mut Toks) -> String {
    let lo = t.n();
    let hi = t.n();
    let m: u64 = 2305843009213693951; // 2^61 - 1
    let mut acc: u64 = 0;
    let mut a = lo;
    while a <= hi {
        let v: u64 = match Rotation::try_from_degree(a as i32) {
            Ok(r) => (rot_id(r) as u64) + 1,
            Err(_) => 0,
        };
        let pos = ((a - lo) as u64 + 1) % m;
        acc = (acc + ((pos as u128 * v as u128) % m as u128) as u64) % m;
        a += 1;
    }
    format!("{}", acc)
}

fn color_events<C: HColor + InterfacePixelFormat<u8>>(raws: &[u32], count: u32) -> String {
    let log = new_log();
    let mut di = Rec8::<0>(log.clone());
    let _ = C::send_pixels(&mut di, raws.iter().map(|v| C::from_rawz(*v)));
    for v in raws.iter().take(4) {
        let _ = C::send_repeated_pixel(&mut di, C::from_rawz(*v), count);
    }
    let v: Vec<String> = take_events(&log).iter().map(|x| x.l1()).collect();
    format!("[{}]", v.join("; "))
}
fn color_events16(raws: &[u32], count: u32) -> String {
    let log = new_log();
    let mut di = Rec16::<2>(log.clone());
    let _ = <Rgb565 as InterfacePixelFormat<u16>>::send_pixels(&mut di, raws.iter().map(|v| Rgb565::from_rawz(*v)));
    for v in raws.iter().take(4) {
        let _ = <Rgb565 as InterfacePixelFormat<u16>>::send_repeated_pixel(&mut di, Rgb565::from_rawz(*v), count);
    }
    let v: Vec<String> = take_events(&log).iter().map(|x| x.l1()).collect();
    format!("[{}]", v.join("; "))
}

/// `color <fmt 0=565/1=666> <word16> <count> raws...`: the events send_pixels(raws) and send_repeated_pixel
/// (first four raws, `count` each) produce on a recording interface
pub fn color(t: &mut Toks) -> String {
    let fmt = t.n();
    let w16 = t.n() != 0;
    let count = t.n() as u32;
    let mut raws = Vec::new();
    while !t.done() {
        raws.push(t.n() as u32);
    }
    match (fmt, w16) {
        (0, false) => color_events::<Rgb565>(&raws, count),
        (0, true) => color_events16(&raws, count),
        _ => color_events::<Rgb666>(&raws, count),
    }
}

/// `colorsum <fmt> <word16> <lo> <hi>`: checksum over all raw values in [lo, hi] of the words sent
pub fn colorsum(t: &mut Toks) -> String {
    let fmt = t.n();
    let w16 = t.n() != 0;
    let lo = t.n() as u32;
    let hi = t.n() as u32;
    let m: u128 = 2305843009213693951;
    let log = new_log();
    let raws: Vec<u32> = (lo..=hi).collect();
    match (fmt, w16) {
        (0, false) => {
            let mut di = Rec8::<0>(log.clone());
            let _ = <Rgb565 as InterfacePixelFormat<u8>>::send_pixels(&mut di, raws.iter().map(|v| Rgb565::from_rawz(*v)));
        }
        (0, true) => {
            let mut di = Rec16::<2>(log.clone());
            let _ = <Rgb565 as InterfacePixelFormat<u16>>::send_pixels(&mut di, raws.iter().map(|v| Rgb565::from_rawz(*v)));
        }
        _ => {
            let mut di = Rec8::<0>(log.clone());
            let _ = <Rgb666 as InterfacePixelFormat<u8>>::send_pixels(&mut di, raws.iter().map(|v| Rgb666::from_rawz(*v)));
        }
    }
    let mut acc: u128 = 0;
    let mut pos: u128 = 0;
    for e in take_events(&log) {
        if let Ev::Pixels(px) = e {
            for p in px {
                for w in p {
                    pos += 1;
                    acc = (acc + (pos % m) * (w as u128 + 1)) % m;
                }
            }
        }
    }
    format!("{}", acc)
}
