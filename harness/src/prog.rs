//! Scenario `prog`: Builder::init followed by a list of Display operations, on any model ×
//! interface; prints, in Coq syntax, the init result + events and per-op result + events + state.
use std::panic::{catch_unwind, AssertUnwindSafe};

use embedded_graphics_core::prelude::*;
use embedded_graphics_core::primitives::Rectangle;
use embedded_hal::digital::OutputPin;
use mipidsi::interface::{
    Generic16BitBus, Generic8BitBus, Interface, InterfacePixelFormat, ParallelInterface, SpiInterface,
};
use mipidsi::models::Model;
use mipidsi::options::{
    ColorInversion, ColorOrder, HorizontalRefreshOrder, Orientation, RefreshOrder, Rotation, TearingEffect,
    VerticalRefreshOrder,
};
use mipidsi::{Builder, ConfigurationError, Display, InitError, TestImage};

use crate::mocks::*;
use crate::models::HColor;
use crate::{dispatch_565, dispatch_666};

pub struct Toks<'a> {
    pub v: Vec<&'a str>,
    pub i: usize,
}
impl<'a> Toks<'a> {
    pub fn new(line: &'a str) -> Self {
        Toks { v: line.split_whitespace().collect(), i: 0 }
    }
    pub fn s(&mut self) -> &'a str {
        let t = self.v[self.i];
        self.i += 1;
        t
    }
    pub fn n(&mut self) -> i64 {
        self.s().parse::<i64>().expect("harness: integer expected")
    }
    pub fn done(&self) -> bool {
        self.i >= self.v.len()
    }
}

pub fn rot_of(r: i64) -> Rotation {
    match r {
        0 => Rotation::Deg0,
        1 => Rotation::Deg90,
        2 => Rotation::Deg180,
        _ => Rotation::Deg270,
    }
}
pub fn rot_id(r: Rotation) -> i64 {
    match r {
        Rotation::Deg0 => 0,
        Rotation::Deg90 => 1,
        Rotation::Deg180 => 2,
        Rotation::Deg270 => 3,
    }
}

pub struct Hdr {
    pub rst: bool,
    pub use_size: bool,
    pub w: u16,
    pub h: u16,
    pub ox: u16,
    pub oy: u16,
    pub rot: i64,
    pub mir: bool,
    pub bgr: bool,
    pub inv: bool,
    pub btt: bool,
    pub rtl: bool,
    pub init_fail: i64,
    pub budget: i64,
    pub l2: bool,
}

fn fmt_events(evs: &[Ev], l2: bool) -> String {
    let v: Vec<String> = evs.iter().map(|e| if l2 { e.l2() } else { e.l1() }).collect();
    format!("[{}]", v.join("; "))
}

fn cfg_err(ce: &ConfigurationError) -> &'static str {
    match ce {
        ConfigurationError::UnsupportedInterface => "UnsupportedInterface",
        ConfigurationError::InvalidDisplaySize => "InvalidDisplaySize",
        ConfigurationError::InvalidDisplayOffset => "InvalidDisplayOffset",
        _ => "UnknownCfgErr",
    }
}

fn state_str<DI, M, RST>(d: &Display<DI, M, RST>) -> String
where
    DI: Interface,
    M: Model,
    M::ColorFormat: InterfacePixelFormat<DI::Word>,
    RST: OutputPin,
{
    let o = d.orientation();
    let s = d.size();
    let bb = d.bounding_box();
    format!(
        "({}, {}, {}, {}, {}, {})",
        rot_id(o.rotation),
        o.mirrored,
        s.width,
        s.height,
        d.is_sleeping(),
        // bounding box must be the origin rectangle of that size
        bb.top_left.x == 0 && bb.top_left.y == 0 && bb.size == s
    )
}

fn ops_loop<DI, M, RST>(mut d: Display<DI, M, RST>, log: &Shared, t: &mut Toks, h: &Hdr, out: &mut Vec<String>, diag: &mut String)
where
    DI: Interface,
    DI::Error: ErrTag,
    M: Model,
    M::ColorFormat: HColor + InterfacePixelFormat<DI::Word>,
    RST: OutputPin,
{
    let mut delay = MockDelay(log.clone());
    let mut pending_fail: Option<usize> = None;
    while !t.done() {
        let name = t.s();
        if name == "fail" {
            pending_fail = Some(t.n() as usize);
            continue;
        }
        // parse arguments first (so that a panic inside the driver cannot desynchronise the parser)
        enum Op<C: PixelColor> {
            Sp(u16, u16, C),
            Sps(u16, u16, u16, u16, Vec<C>),
            Di(Vec<Pixel<C>>),
            Fc(Rectangle, Vec<C>),
            Fcg(Rectangle, u32),
            Fcm(Rectangle, u32, u32),
            Fs(Rectangle, C),
            Cl(C),
            So(Orientation),
            Sow(Vec<i64>),
            Vr(u16, u16),
            Vo(u16),
            Te(i64),
            Sl,
            Wk,
            Ti,
        }
        let c = |v: i64| M::ColorFormat::from_rawz(v as u32);
        let op: Op<M::ColorFormat> = match name {
            "sp" => Op::Sp(t.n() as u16, t.n() as u16, c(t.n())),
            "sps" => {
                let (a, b, e, f) = (t.n() as u16, t.n() as u16, t.n() as u16, t.n() as u16);
                let n = t.n();
                Op::Sps(a, b, e, f, (0..n).map(|_| c(t.n())).collect())
            }
            "di" => {
                let n = t.n();
                Op::Di((0..n).map(|_| Pixel(Point::new(t.n() as i32, t.n() as i32), c(t.n()))).collect())
            }
            "fc" => {
                let r = Rectangle::new(Point::new(t.n() as i32, t.n() as i32), Size::new(t.n() as u32, t.n() as u32));
                let n = t.n();
                Op::Fc(r, (0..n).map(|_| c(t.n())).collect())
            }
            "fcg" => {
                let r = Rectangle::new(Point::new(t.n() as i32, t.n() as i32), Size::new(t.n() as u32, t.n() as u32));
                Op::Fcg(r, t.n() as u32)
            }
            "fcm" => {
                let r = Rectangle::new(Point::new(t.n() as i32, t.n() as i32), Size::new(t.n() as u32, t.n() as u32));
                Op::Fcm(r, t.n() as u32, t.n() as u32)
            }
            "fs" => {
                let r = Rectangle::new(Point::new(t.n() as i32, t.n() as i32), Size::new(t.n() as u32, t.n() as u32));
                Op::Fs(r, c(t.n()))
            }
            "cl" => Op::Cl(c(t.n())),
            "so" => Op::So(Orientation { rotation: rot_of(t.n()), mirrored: t.n() != 0 }),
            // the current orientation extended by a word over {rotate 0/90/180/270, flip_horizontal, flip_vertical}
            "sow" => {
                let n = t.n();
                Op::Sow((0..n).map(|_| t.n()).collect())
            }
            "vr" => Op::Vr(t.n() as u16, t.n() as u16),
            "vo" => Op::Vo(t.n() as u16),
            "te" => Op::Te(t.n()),
            "sl" => Op::Sl,
            "wk" => Op::Wk,
            "ti" => Op::Ti,
            other => panic!("harness: unknown op {}", other),
        };
        {
            let mut l = log.borrow_mut();
            l.budget = h.budget;
            l.budget_hit = false;
            l.fail_at = pending_fail.map(|k| l.ops + k);
        }
        pending_fail = None;
        let r = catch_unwind(AssertUnwindSafe(|| -> Result<(), DI::Error> {
            match op {
                Op::Sp(x, y, col) => d.set_pixel(x, y, col),
                // `filter` hides the exact size hint, as a lazily computed colour stream would
                Op::Sps(a, b, e, f, cols) => d.set_pixels(a, b, e, f, cols.into_iter().filter(|_| true)),
                Op::Di(px) => d.draw_iter(px),
                Op::Fc(r, cols) => d.fill_contiguous(&r, cols.into_iter().filter(|_| true)),
                Op::Fcg(r, n) => d.fill_contiguous(&r, (0..n).map(|k| M::ColorFormat::from_rawz(k & 0xFFFF))),
                Op::Fcm(r, n, m) => d.fill_contiguous(&r, (0..n).map(|k| M::ColorFormat::from_rawz(k % m))),
                Op::Fs(r, col) => d.fill_solid(&r, col),
                Op::Cl(col) => d.clear(col),
                Op::So(o) => d.set_orientation(o),
                Op::Sow(w) => {
                    let mut o = d.orientation();
                    for k in w {
                        o = match k {
                            0..=3 => o.rotate(rot_of(k)),
                            4 => o.flip_horizontal(),
                            _ => o.flip_vertical(),
                        };
                    }
                    d.set_orientation(o)
                }
                Op::Vr(a, b) => d.set_vertical_scroll_region(a, b),
                Op::Vo(a) => d.set_vertical_scroll_offset(a),
                Op::Te(k) => d.set_tearing_effect(match k {
                    0 => TearingEffect::Off,
                    1 => TearingEffect::Vertical,
                    _ => TearingEffect::HorizontalAndVertical,
                }),
                Op::Sl => d.sleep(&mut delay),
                Op::Wk => d.wake(&mut delay),
                Op::Ti => TestImage::<M::ColorFormat>::new().draw(&mut d),
            }
        }));
        log.borrow_mut().fail_at = None;
        let evs = take_events(log);
        let budget_hit = log.borrow().budget_hit;
        let (res, stop) = match r {
            _ if budget_hit => ("RBudget".to_string(), true),
            Ok(Ok(())) => ("ROk".to_string(), false),
            Ok(Err(e)) => (format!("RErr (EIf {})", e.tag()), false),
            Err(_) => {
                diag.push_str(&crate::last_panic());
                ("RPanic".to_string(), true)
            }
        };
        out.push(format!("({}, {}, {})", res, fmt_events(&evs, h.l2), state_str(&d)));
        if stop {
            break;
        }
    }
}

fn finish_init<DI, M, RST>(
    r: Result<Result<Display<DI, M, RST>, InitError<DI::Error, RST::Error>>, Box<dyn std::any::Any + Send>>,
    log: &Shared,
    t: &mut Toks,
    h: &Hdr,
) -> String
where
    DI: Interface,
    DI::Error: ErrTag,
    M: Model,
    M::ColorFormat: HColor + InterfacePixelFormat<DI::Word>,
    RST: OutputPin,
{
    log.borrow_mut().fail_at = None;
    let evs = take_events(log);
    let budget_hit = log.borrow().budget_hit;
    let mut diag = String::new();
    let mut ops_out: Vec<String> = Vec::new();
    let (res, st) = match r {
        _ if budget_hit => ("RBudget".to_string(), "None".to_string()),
        Err(_) => {
            diag.push_str(&crate::last_panic());
            ("RPanic".to_string(), "None".to_string())
        }
        Ok(Err(e)) => (
            match e {
                InitError::Interface(ie) => format!("RErr (EInitInterface {})", ie.tag()),
                InitError::ResetPin(_) => "RErr EInitResetPin".to_string(),
                InitError::InvalidConfiguration(ce) => format!("RErr (ECfg {})", cfg_err(&ce)),
            },
            "None".to_string(),
        ),
        Ok(Ok(d)) => {
            let st = format!("Some {}", state_str(&d));
            ops_loop(d, log, t, h, &mut ops_out, &mut diag);
            ("ROk".to_string(), st)
        }
    };
    format!("({}, {}, {}, [{}]) ### {}", res, fmt_events(&evs, h.l2), st, ops_out.join("; "), diag)
}

fn run_with<DI, M>(model: M, di: DI, log: &Shared, t: &mut Toks, h: &Hdr) -> String
where
    DI: Interface,
    DI::Error: ErrTag,
    M: Model,
    M::ColorFormat: HColor + InterfacePixelFormat<DI::Word>,
{
    let mut delay = MockDelay(log.clone());
    let o = Orientation { rotation: rot_of(h.rot), mirrored: h.mir };
    let mut b = Builder::new(model, di)
        .orientation(o)
        .color_order(if h.bgr { ColorOrder::Bgr } else { ColorOrder::Rgb })
        .invert_colors(if h.inv { ColorInversion::Inverted } else { ColorInversion::Normal })
        .refresh_order(RefreshOrder::new(
            if h.btt { VerticalRefreshOrder::BottomToTop } else { VerticalRefreshOrder::TopToBottom },
            if h.rtl { HorizontalRefreshOrder::RightToLeft } else { HorizontalRefreshOrder::LeftToRight },
        ));
    if h.use_size {
        b = b.display_size(h.w, h.h).display_offset(h.ox, h.oy);
    }
    {
        let mut l = log.borrow_mut();
        l.budget = h.budget;
        l.fail_at = if h.init_fail >= 0 { Some(h.init_fail as usize) } else { None };
    }
    if h.rst {
        let b = b.reset_pin(MockPin(log.clone(), Role::Rst));
        let r = catch_unwind(AssertUnwindSafe(|| b.init(&mut delay)));
        finish_init(r, log, t, h)
    } else {
        let r = catch_unwind(AssertUnwindSafe(|| b.init(&mut delay)));
        finish_init(r, log, t, h)
    }
}

/// one Builder::init over a borrowed interface; `fail` = index (from now) of the fallible operation that fails, or -1
fn init_once<DI, M>(model: M, di: &mut DI, log: &Shared, h: &Hdr, fail: i64) -> (String, String)
where
    DI: Interface,
    DI::Error: ErrTag,
    M: Model,
    M::ColorFormat: HColor + InterfacePixelFormat<DI::Word>,
{
    let mut delay = MockDelay(log.clone());
    let o = Orientation { rotation: rot_of(h.rot), mirrored: h.mir };
    let mut b = Builder::new(model, di)
        .orientation(o)
        .color_order(if h.bgr { ColorOrder::Bgr } else { ColorOrder::Rgb })
        .invert_colors(if h.inv { ColorInversion::Inverted } else { ColorInversion::Normal })
        .refresh_order(RefreshOrder::new(
            if h.btt { VerticalRefreshOrder::BottomToTop } else { VerticalRefreshOrder::TopToBottom },
            if h.rtl { HorizontalRefreshOrder::RightToLeft } else { HorizontalRefreshOrder::LeftToRight },
        ));
    if h.use_size {
        b = b.display_size(h.w, h.h).display_offset(h.ox, h.oy);
    }
    {
        let mut l = log.borrow_mut();
        l.budget = h.budget;
        l.budget_hit = false;
        l.fail_at = if fail >= 0 { Some(l.ops + fail as usize) } else { None };
    }
    fn res_str<D, IE: ErrTag, PE>(r: Result<Result<D, InitError<IE, PE>>, Box<dyn std::any::Any + Send>>, budget_hit: bool) -> String {
        match r {
            _ if budget_hit => "RBudget".to_string(),
            Err(_) => "RPanic".to_string(),
            Ok(Err(InitError::Interface(ie))) => format!("RErr (EInitInterface {})", ie.tag()),
            Ok(Err(InitError::ResetPin(_))) => "RErr EInitResetPin".to_string(),
            Ok(Err(InitError::InvalidConfiguration(ce))) => format!("RErr (ECfg {})", cfg_err(&ce)),
            Ok(Ok(_)) => "ROk".to_string(),
        }
    }
    let res = if h.rst {
        let b = b.reset_pin(MockPin(log.clone(), Role::Rst));
        let r = catch_unwind(AssertUnwindSafe(|| b.init(&mut delay)));
        let hit = log.borrow().budget_hit;
        res_str(r, hit)
    } else {
        let r = catch_unwind(AssertUnwindSafe(|| b.init(&mut delay)));
        let hit = log.borrow().budget_hit;
        res_str(r, hit)
    };
    log.borrow_mut().fail_at = None;
    let evs = take_events(log);
    (res, fmt_events(&evs, h.l2))
}

/// scenario `reinit`: an initialisation that fails at its `init_fail`-th fallible operation, then a second one
/// (same model and options, no fault) over the SAME interface object
fn run_retry<DI, M>(m1: M, m2: M, mut di: DI, log: &Shared, h: &Hdr) -> String
where
    DI: Interface,
    DI::Error: ErrTag,
    M: Model,
    M::ColorFormat: HColor + InterfacePixelFormat<DI::Word>,
{
    let (r1, e1) = init_once(m1, &mut di, log, h, h.init_fail);
    let (r2, e2) = init_once(m2, &mut di, log, h, -1);
    format!("C17RO ({}) {} ({}) {} ### ", r1, e1, r2, e2)
}

fn data_pin(log: &Shared, i: u8) -> MockPin {
    MockPin(log.clone(), Role::Data(i))
}

/// `prog <model> <iface> <ifparam> <rst> <use_size> <w> <h> <ox> <oy> <rot> <mir> <bgr> <inv> <btt> <rtl>
///       <init_fail> <budget> ops...`
/// iface: 0 Rec8/Serial4Line, 1 Rec8/Parallel8Bit, 2 Rec16/Parallel16Bit, 3 SpiInterface (ifparam = buffer
/// length), 4 ParallelInterface<Generic8BitBus>, 5 ParallelInterface<Generic16BitBus>, 7 Rec8 with
/// KIND = Parallel16Bit
pub fn run(t: &mut Toks) -> String {
    run_inner(t, false)
}

/// `reinit <same header as prog>`: see `run_retry`
pub fn reinit(t: &mut Toks) -> String {
    run_inner(t, true)
}

fn run_inner(t: &mut Toks, retry: bool) -> String {
    let model = t.n();
    let iface = t.n();
    let ifparam = t.n();
    let h = Hdr {
        rst: t.n() != 0,
        use_size: t.n() != 0,
        w: t.n() as u16,
        h: t.n() as u16,
        ox: t.n() as u16,
        oy: t.n() as u16,
        rot: t.n(),
        mir: t.n() != 0,
        bgr: t.n() != 0,
        inv: t.n() != 0,
        btt: t.n() != 0,
        rtl: t.n() != 0,
        init_fail: t.n(),
        budget: t.n(),
        l2: iface >= 3 && iface <= 5,
    };
    let log = new_log();
    let mut buffer = vec![0xA5u8; if iface == 3 { ifparam as usize } else { 0 }];

    macro_rules! go8 {
        ($t:ty, $v:expr) => {
            match iface {
                0 => Some(if retry { run_retry::<_, $t>($v, $v, Rec8::<0>(log.clone()), &log, &h) } else { run_with::<_, $t>($v, Rec8::<0>(log.clone()), &log, t, &h) }),
                1 => Some(if retry { run_retry::<_, $t>($v, $v, Rec8::<1>(log.clone()), &log, &h) } else { run_with::<_, $t>($v, Rec8::<1>(log.clone()), &log, t, &h) }),
                7 => Some(if retry { run_retry::<_, $t>($v, $v, Rec8::<2>(log.clone()), &log, &h) } else { run_with::<_, $t>($v, Rec8::<2>(log.clone()), &log, t, &h) }),
                3 => {
                    let di = SpiInterface::new(MockSpi(log.clone()), MockPin(log.clone(), Role::Dc), &mut buffer);
                    Some(if retry { run_retry::<_, $t>($v, $v, di, &log, &h) } else { run_with::<_, $t>($v, di, &log, t, &h) })
                }
                4 => {
                    let bus = Generic8BitBus::new((
                        data_pin(&log, 0), data_pin(&log, 1), data_pin(&log, 2), data_pin(&log, 3),
                        data_pin(&log, 4), data_pin(&log, 5), data_pin(&log, 6), data_pin(&log, 7),
                    ));
                    let di = ParallelInterface::new(bus, MockPin(log.clone(), Role::Dc), MockPin(log.clone(), Role::Wr));
                    Some(if retry { run_retry::<_, $t>($v, $v, di, &log, &h) } else { run_with::<_, $t>($v, di, &log, t, &h) })
                }
                _ => None,
            }
        };
    }
    macro_rules! go16 {
        ($t:ty, $v:expr) => {
            match iface {
                2 => Some(if retry { run_retry::<_, $t>($v, $v, Rec16::<2>(log.clone()), &log, &h) } else { run_with::<_, $t>($v, Rec16::<2>(log.clone()), &log, t, &h) }),
                5 => {
                    let bus = Generic16BitBus::new((
                        data_pin(&log, 0), data_pin(&log, 1), data_pin(&log, 2), data_pin(&log, 3),
                        data_pin(&log, 4), data_pin(&log, 5), data_pin(&log, 6), data_pin(&log, 7),
                        data_pin(&log, 8), data_pin(&log, 9), data_pin(&log, 10), data_pin(&log, 11),
                        data_pin(&log, 12), data_pin(&log, 13), data_pin(&log, 14), data_pin(&log, 15),
                    ));
                    let di = ParallelInterface::new(bus, MockPin(log.clone(), Role::Dc), MockPin(log.clone(), Role::Wr));
                    Some(if retry { run_retry::<_, $t>($v, $v, di, &log, &h) } else { run_with::<_, $t>($v, di, &log, t, &h) })
                }
                _ => None,
            }
        };
    }
    let r: Option<String> = if iface == 2 || iface == 5 {
        dispatch_565!(model, go16)
    } else {
        match dispatch_565!(model, go8) {
            Some(s) => Some(s),
            None => dispatch_666!(model, go8),
        }
    };
    r.unwrap_or_else(|| "UNSUPPORTED".to_string())
}
