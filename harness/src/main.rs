//! Correspondence harness: runs the real almindor/mipidsi crate on cases read from stdin (one per
//! line) and prints one line per case: `<Coq term> ### <diagnostics>`.
mod l2;
mod misc;
mod mocks;
mod models;
mod prog;
mod ptr16;
mod timg;

use std::io::{BufRead, Write};
use std::sync::Mutex;

static LAST_PANIC: Mutex<String> = Mutex::new(String::new());

pub fn last_panic() -> String {
    LAST_PANIC.lock().map(|s| s.clone()).unwrap_or_default()
}

fn main() {
    std::panic::set_hook(Box::new(|info| {
        let loc = info.location().map(|l| format!("{}:{}", l.file(), l.line())).unwrap_or_default();
        let msg = if let Some(s) = info.payload().downcast_ref::<&str>() {
            s.to_string()
        } else if let Some(s) = info.payload().downcast_ref::<String>() {
            s.clone()
        } else {
            String::new()
        };
        if let Ok(mut g) = LAST_PANIC.lock() {
            *g = format!("panic at {}: {}", loc, msg);
        }
    }));
    let stdin = std::io::stdin();
    let stdout = std::io::stdout();
    let mut out = std::io::BufWriter::new(stdout.lock());
    for line in stdin.lock().lines() {
        let line = line.expect("stdin");
        let line = line.trim();
        if line.is_empty() {
            continue;
        }
        let mut t = prog::Toks::new(line);
        let kind = t.s();
        let res = match kind {
            "prog" => prog::run(&mut t),
            "reinit" => prog::reinit(&mut t),
            "dcs" => misc::dcs(&mut t),
            "orient" => misc::orient(&mut t),
            "angle" => misc::angle(&mut t),
            "anglesum" => misc::anglesum(&mut t),
            "color" => misc::color(&mut t),
            "colorsum" => misc::colorsum(&mut t),
            "timg" => timg::timg(&mut t),
            "timgp" => timg::timgp(&mut t),
            "ptr16" => ptr16::ptr16(&mut t),
            "spi" => l2::spi(&mut t),
            "par" => l2::par(&mut t),
            "bus" => l2::bus(&mut t),
            "models" => {
                let rows: Vec<String> = models::model_table()
                    .iter()
                    .map(|(id, n, w, h, c)| format!("{}:{}:{}:{}:{}", id, n, w, h, c))
                    .collect();
                rows.join(" ")
            }
            "profile" => format!(
                "{} {}",
                if cfg!(debug_assertions) { "debug" } else { "release" },
                if cfg!(feature = "batch") { "batch" } else { "nobatch" }
            ),
            other => format!("UNKNOWN-SCENARIO {}", other),
        };
        writeln!(out, "{}", res).unwrap();
    }
    out.flush().unwrap();
}
