"""C08 — every pixel burst is framed by a well-formed window that it does not overrun."""
import vlib
from props import c01, c02, c03, c04

RULE = ("the union of the C01 (in-bounds programs), C02 (out-of-bounds arguments), C03 (batcher flush shapes) and C04 (clipped "
        "contiguous fills) streams, re-checked on the implementation's trace with the framing recogniser (CASET RASET RAMWR PIX)* and the "
        "reference controller's anomaly flags (parameter count, start<=end, end inside the framebuffer under the current MV, pointer wrap); "
        "plus programs over the REAL transports (SPI, 8/16-bit parallel) on small panels whose pin-level logs are decoded in Coq, half of them "
        "with a FAULT injected into the first call: every later call must still decode to well-framed groups; non-trivial as in the originating stream")
TRUSTED = ["Oracle/Controller.v anomaly rules, Oracle/DrawSpec.v framing_ok"]
ASSUMPTIONS = ["set_pixel / set_pixels arguments in bounds with at most area colours (documented precondition of the low-level API)"]
PER_SHARD = 40
CASE_TYPE = "(lcase * lout)"
IMPORTS = "Require Import Corr.L2 Corr.DrawL."


def gen(rng, tier, info):
    sub = "quick"
    cases = []
    frac = 4 if tier == "quick" else 1
    for mod in (c01, c02, c03, c04):
        cs = mod.gen(rng.fork(mod.__name__), tier, info)
        for c in cs[::frac]:
            # only the Display programs at the Interface boundary (the other streams wrap their cases for their own checks)
            if isinstance(c.descr, dict) and c.line.startswith("prog") and c.descr.get("iface") not in (3, 4, 5):
                cases.append(drawgen.wrap_l(vlib.pcase(c.descr), False))
    # at pin level over the real transports, incl. a call that FAILS at some pin / bus operation followed by further
    # drawing calls: whatever the fault left behind, the later traffic must decode to well-framed groups
    for k in range(160 if tier == "quick" else 1600):
        pc, m, lw, lh, cmax = drawgen.l2_config(rng, info)
        ops = []
        for j in range(rng.range(2, 4)):
            op = drawgen.op_inbounds(rng, lw, lh, cmax) if rng.chance(3, 4) else c02.op_any(rng, lw, lh, cmax, True)
            fk = rng.choice([0, 1, 2, 3, 5, 8, 13, 21, 34, rng.range(0, 90)]) if (j == 0 and rng.chance(1, 2)) else -1
            ops.append((fk, op))
        pc["ops"] = ops
        pc["tags"] = ["iface%d" % pc["iface"]] + (["fault"] if ops[0][0] >= 0 else []) + ["op:" + op[0] for _, op in ops]
        pc["nontrivial"] = True
        cases.append(drawgen.wrap_l(vlib.pcase(pc), True))
    return cases


from props import drawgen
wrap_impl = drawgen.wrap_impl_l
shrink = drawgen.shrink_l
