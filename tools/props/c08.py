"""C08 — every pixel burst is framed by a well-formed window that it does not overrun."""
import vlib
from props import c01, c02, c03, c04

RULE = ("the union of the C01 (in-bounds programs), C02 (out-of-bounds arguments), C03 (batcher flush shapes) and C04 (clipped "
        "contiguous fills) streams, re-checked on the implementation's trace with the framing recogniser (CASET RASET RAMWR PIX)* and the "
        "reference controller's anomaly flags (parameter count, start<=end, end inside the framebuffer under the current MV, pointer wrap); "
        "non-trivial as in the originating stream")
TRUSTED = ["Oracle/Controller.v anomaly rules, Oracle/DrawSpec.v framing_ok"]
ASSUMPTIONS = ["set_pixel / set_pixels arguments in bounds with at most area colours (documented precondition of the low-level API)"]
PER_SHARD = 40


def gen(rng, tier, info):
    sub = "quick"
    cases = []
    frac = 4 if tier == "quick" else 1
    for mod in (c01, c02, c03, c04):
        cs = mod.gen(rng.fork(mod.__name__), tier, info)
        for c in cs[::frac]:
            # only the Display programs at the Interface boundary (the other streams wrap their cases for their own checks)
            if isinstance(c.descr, dict) and c.line.startswith("prog") and c.descr.get("iface") not in (3, 4, 5):
                cases.append(vlib.pcase(c.descr))
    return cases


def shrink(case):
    from props import drawgen
    return drawgen.shrink_prog(case)
