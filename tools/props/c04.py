"""C04 — fill_contiguous keeps colour k on point k under any clipping."""
import vlib
from props import drawgen, c02

RULE = ("fill_contiguous with rectangles inside / overlapping each of the 8 edge-corner combinations / enclosing / disjoint / zero width or "
        "height, stream lengths 0, 1, |A|-1, |A|, |A|+3, ending inside a skipped stretch; colours encode their own index (k*5+1 or k mod "
        "65536) so any shift is visible; small panels with non-zero offsets and built-in ones; the same logical rectangle filled before and after a set_orientation on off-centre windows; additionally the 16-bit-pointer variants of "
        "take_u32 / nth_u32, cut out of the current src/graphics.rs by the harness build script, run on random (list, n) against the "
        "model; non-trivial = rectangle is clipped on at least one side and the stream reaches a visible point")
TRUSTED = ["Oracle/Controller.v, Oracle/DrawSpec.v", "harness/build.rs extraction of the #[cfg(target_pointer_width = \"16\")] items"]
ASSUMPTIONS = ["rectangles valid for embedded-graphics with < 2^32 points; finite fused colour iterators (lists / ranges)"]
PER_SHARD = 30
CASE_TYPE = "(c4case * c4out)"
IMPORTS = "Require Import Model.Ptr16 Corr.L2 Corr.C04."


def rect_cases(rng, lw, lh):
    pats = []
    for dx in (-1, 0, 1):
        for dy in (-1, 0, 1):
            # dx=-1: sticks out left, 0: inside, 1: sticks out right
            w = rng.range(1, min(lw + 3, 12))
            h = rng.range(1, min(lh + 3, 12))
            x = -rng.range(1, 3) if dx < 0 else (lw - w + rng.range(1, 3) if dx > 0 else rng.range(0, max(0, lw - w)))
            y = -rng.range(1, 3) if dy < 0 else (lh - h + rng.range(1, 3) if dy > 0 else rng.range(0, max(0, lh - h)))
            pats.append((x, y, w, h))
    pats.append((-2, -3, lw + 5, lh + 4))
    pats.append((-1, 0, lw + 2, 1))
    pats.append((0, -1, 1, lh + 2))
    return pats


def gen(rng, tier, info, ifaces=(0, 1, 2, 7)):
    n = 700 if tier == "quick" else 7000
    cases = []
    small_models = [100, 101, 102, 103, 104, 105, 112, 203, 204, 212]
    for k in range(n):
        small = rng.chance(3, 4)
        pc, m, lw, lh, cmax = drawgen.config(rng, info, ifaces=ifaces, models=small_models if small else None)
        ops = []
        for _ in range(rng.range(1, 3)):
            r = rng.choice(rect_cases(rng, lw, lh)) if rng.chance(3, 4) else c02.any_rect(rng, lw, lh)
            area = r[2] * r[3]
            if area > 5000:
                nn = rng.choice([0, 1, 100, 3000])
                ops.append((-1, ("fcg", r, nn)))
                continue
            nn = rng.choice([0, 1, max(0, area - 1), area, area + 3, area // 2, area // 3, rng.range(0, area + 2)])
            if rng.chance(1, 2):
                ops.append((-1, ("fc", r, [(i * 5 + 1) % (cmax + 1) for i in range(nn)])))
            else:
                ops.append((-1, ("fcg", r, nn)))
        pc["ops"] = ops
        r0 = ops[0][1][1]
        clipped = r0[0] < 0 or r0[1] < 0 or r0[0] + r0[2] > lw or r0[1] + r0[3] > lh
        pc["tags"] = ["clipped" if clipped else "inside", pc["md"], "batch" if pc["batch"] else "nobatch"] + [op[0] for _, op in ops]
        pc["nontrivial"] = clipped
        c = vlib.pcase(pc)
        c.coq = "C4P (%s)" % c.coq
        cases.append(c)
    # the same logical rectangle filled twice with an orientation change in between, on windows that are not centred in
    # the framebuffer: the second fill must land where the NEW orientation puts it (whatever the driver remembers of
    # the first window)
    for k in range(60 if tier == "quick" else 600):
        pc, m, lw, lh, cmax = drawgen.config(rng, info, ifaces=ifaces, models=[103, 104, 105, 112, 204, 212, 12, 11])
        o = pc["opts"]
        if m["fw"] > 2 and m["fh"] > 2:
            o["w"], o["h"] = max(1, m["fw"] // 2), max(1, m["fh"] // 2)
            o["ox"], o["oy"] = rng.choice([0, 1, m["fw"] - o["w"]]), rng.choice([0, 1, m["fh"] - o["h"]])
        side = min(o["w"], o["h"])          # a rectangle that is inside under every orientation
        w, h = rng.range(1, min(side, 6)), rng.range(1, min(side, 6))
        r = (rng.range(0, side - w), rng.range(0, side - h), w, h)
        if rng.chance(1, 3):
            r = (-1, -1, w + 1, h + 1)
        nr, nm = rng.below(4), rng.below(2)
        cols = lambda a: [(i * 5 + a) % (cmax + 1) for i in range(r[2] * r[3])]
        pc["ops"] = [(-1, ("fc", r, cols(1))), (-1, ("so", nr, nm)), (-1, ("fc", r, cols(2)))]
        pc["tags"] = ["fill-reorient-fill", pc["md"]]
        pc["nontrivial"] = (nr, bool(nm)) != (o["rot"], bool(o["mir"]))
        c = vlib.pcase(pc)
        c.coq = "C4P (%s)" % c.coq
        cases.append(c)
    # rectangles clipped by 65536 columns or more per row (per-row skip counts beyond u16), stream long enough to
    # reach the second and third visible row
    for _ in range(12 if tier == "quick" else 60):
        pc, m, lw, lh, cmax = drawgen.config(rng, info, ifaces=ifaces, models=small_models)
        wide = 65536 + rng.choice([0, 1, 4464, rng.range(0, 9000)]) + lw
        x0 = rng.choice([-5, 0, -(wide - lw) // 2, -(wide - lw)])
        y0 = rng.range(-1, max(0, lh - 2))
        hh = rng.range(2, 3)
        # colour k mod 65521: an index shift by 65536 (a u16-truncated skip count) changes the colour
        pc["ops"] = [(-1, ("fcm", (x0, y0, wide, hh), wide * hh, 65521))]
        pc["tags"] = ["wide-rect"]
        pc["nontrivial"] = True
        c = vlib.pcase(pc)
        c.coq = "C4P (%s)" % c.coq
        cases.append(c)
    # clipped fills below the real transports (small panels, pin-level logs decoded in Coq)
    for _ in range(n // 6):
        pc, m, lw, lh, cmax = drawgen.l2_config(rng, info)
        r = rng.choice(rect_cases(rng, lw, lh))
        area = r[2] * r[3]
        nn = rng.choice([area, area + 3, max(0, area - 1), area // 2])
        pc["ops"] = [(-1, ("fc", r, [(i * 5 + 1) % (cmax + 1) for i in range(nn)]))]
        pc["tags"] = ["L2", "iface%d" % pc["iface"]]
        pc["nontrivial"] = True
        c = vlib.pcase(pc)
        c.coq = "C4L2 (%s)" % c.coq
        cases.append(c)
    # the 16-bit-pointer helper variants, extracted from the current source
    for _ in range(150 if tier == "quick" else 1500):
        ln = rng.choice([0, 1, 2, 5, rng.range(0, 40)])
        items = [rng.range(0, 999) for _ in range(ln)]
        nn = rng.choice([0, 1, max(0, ln - 1), ln, ln + 1, ln + 7, rng.range(0, ln + 3), 4294967295])
        v = rng.choice(["db", "rb"])
        if rng.chance(1, 2):
            line = "ptr16 take %d %d %s" % (nn, ln, " ".join(map(str, items)))
            coq = "C4Take %s %d %s" % ("Debug" if v[0] == "d" else "Release", nn, vlib.zl(items))
        else:
            nn = min(nn, 100000)      # the counted loop really runs n times
            line = "ptr16 nth %d %d %s" % (nn, ln, " ".join(map(str, items)))
            coq = "C4Nth %d %s" % (nn, vlib.zl(items))
        cases.append(vlib.Case(line.strip(), coq, v, tags=["ptr16"], nontrivial=ln > 0))
    return cases


def wrap_impl(case, impl):
    if case.line.startswith("ptr16"):
        inner = impl.strip()[1:-1]
        a, rest = inner.split(",", 1)
        b, c = rest.rsplit(", [", 1)
        return "C4H %s %s [%s" % (a.strip(), b.strip(), c.strip())
    return ("C4PO2 " if "L2" in case.tags else "C4PO ") + impl


def shrink(case):
    if case.line.startswith("ptr16"):
        return []
    out = drawgen.shrink_prog(case)
    for c in out:
        c.coq = ("C4L2 (%s)" if "L2" in case.tags else "C4P (%s)") % c.coq
        c.tags = list(case.tags)
    return out
