"""C11 — model initialisation programs the controller consistently with the options."""
import vlib
from props import initgen

PER_SHARD = 60
RULE = ("the real Builder::init of every built-in model (enumerated from the source: 14 on this tree) x the 3 interface kinds "
        "(Parallel16Bit both through a u16 recording interface, where the colour type allows it, and through a u8-word interface "
        "whose KIND is Parallel16Bit, so that Rgb666 models are covered too) x option sets x with / without reset pin, valid windows at "
        "the extremes; quick: 12 option sets per pairing (first, last, random), thorough: all 128; the recorded trace (reset pin, virtual "
        "clock, bus) must equal the denotation of the program the translator regenerated from the source and is judged by "
        "Oracle/InitSpec.v on its own (awake, on, MADCTL = encoding of the options, COLMOD, inversion, no pixel data, >= 120 ms after "
        "sleep-out, refusal before any model command); non-trivial = non-default option set")
TRUSTED = ["Oracle/Controller.v, Oracle/InitSpec.v (init_impl_ok)", "tools/rs2v.py (its output is what the theorems are about; cross-checked here)"]
ASSUMPTIONS = ["virtual time: the delay source is asked for >= 120 ms; that a real DelayNs waits at least that long is the embedded-hal contract"]


def gen(rng, tier, info):
    pcs = initgen.init_cases(rng, tier, info)
    cases = [vlib.pcase(pc) for pc in pcs]
    # the k-th Interface / reset-pin call of init fails: init must report it (no model may swallow an error and
    # hand out a display whose controller missed a command)
    for pc in pcs[:: max(1, len(pcs) // (250 if tier == "quick" else 2500))]:
        if "unsupported" in pc["tags"]:
            continue
        q = dict(pc)
        q["init_fail"] = rng.range(0, 75)
        q["tags"] = ["init-fault"]
        cases.append(vlib.pcase(q))
    return cases
