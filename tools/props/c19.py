"""C19 — the test image really diagnoses border, orientation and colour settings."""
import vlib
from props import drawgen

CASE_TYPE = "(t19case * t19out)"
IMPORTS = "Require Import Model.TestImage Corr.C19."
PER_SHARD = 24
PROPS_FILES = ["C19", "C19D"]      # C19D: the test image drawn through a real Display (composition with C01)
RULE = ("the real TestImage::draw (a) on a minimal clipping DrawTarget that implements only draw_iter (so embedded-graphics' default "
        "fill_contiguous / fill_solid run and the image can rely on nothing but clipping), whole raster compared with the Coq picture "
        "function and judged by the property's clauses (no panic; for >= 32x32: every pixel painted, white frame exactly one pixel, a "
        "red | green | blue strip, different from its 7 symmetric images); quick: W,H in 0..48 (all pairs near 0, near 32 and a third of the "
        "rest), thorough: all 97x97 sizes 0..96; the three colour types in rotation; (b) probes (corners, inset corners, marker, centre, "
        "random) on sizes sampled up to 4000 (thorough: 20000) incl. extreme aspect ratios 65535 x 33; (c) drawn through a real Display on "
        "panels >= 32x32 in all 8 orientations with offsets, read back from the reference controller's memory; non-trivial = both sides >= 32")
TRUSTED = ["Corr/C19.v raster_ok: the property's clauses as a boolean judge", "Oracle/Controller.v for the through-Display cases"]
ASSUMPTIONS = ["WHITE/BLACK/RED/GREEN/BLUE of the three embedded-graphics colour types are pairwise distinct (classified by the harness by equality with those constants)"]


def gen(rng, tier, info):
    cases = []
    top = 48 if tier == "quick" else 96
    for W in range(0, top + 1):
        for H in range(0, top + 1):
            if tier == "quick":
                near = (W <= 10 or 30 <= W <= 35) and (H <= 10 or 30 <= H <= 35)
                if not near and (W + 2 * H) % 3 != 0:
                    continue
            ct = (W + H) % 3
            cases.append(vlib.Case("timg %d %d %d" % (ct, W, H), "T19Raster %d %d %d" % (ct, W, H), rng.choice(["db", "rb"]),
                                   tags=["raster", "ge32" if W >= 32 and H >= 32 else "lt32", "ct%d" % ct], nontrivial=W >= 32 and H >= 32))
    # a target whose bounding box does not start at the origin (e.g. embedded-graphics' `clipped` / `translated`
    # adaptors): the picture must simply move with it
    for (W, H, ox, oy) in [(32, 32, 7, 3), (40, 33, -5, 11), (48, 36, 100, 200), (33, 47, -40, -40), (12, 9, 3, 3), (0, 5, 2, 2),
                           (64, 40, 1, 0)] + ([(rng.range(32, 60), rng.range(32, 60), rng.range(-50, 50), rng.range(-50, 50)) for _ in range(6)]):
        ct = rng.below(3)
        cases.append(vlib.Case("timg %d %d %d %d %d" % (ct, W, H, ox, oy), "T19Raster %d %d %d" % (ct, W, H), rng.choice(["db", "rb"]),
                               tags=["raster-offset-target"], nontrivial=W >= 32 and H >= 32))
    big = [(100, 37), (240, 320), (320, 240), (135, 240), (33, 200), (1000, 1000), (4000, 3000), (65535, 33), (33, 65535), (32, 32),
           (2, 70000), (70000, 3), (1999, 1237)]
    if tier == "thorough":
        big += [(20000, 20000), (65535, 700), (480, 320), (800, 480)]
    for _ in range(20 if tier == "quick" else 80):
        big.append((rng.range(32, 2500), rng.range(32, 2500)))
    for (W, H) in big:
        pts = [(0, 0), (W - 1, 0), (0, H - 1), (W - 1, H - 1), (1, 1), (5, 5), (W - 6, 5), (5, H - 6), (W - 6, H - 6),
               (W // 2, H // 2), (W // 2, H - 6), (5 + (W - 10) // 3, H - 6), (4, 4), (24, 5), (25, 5), (5, 24), (5, 25), (W, H), (-1, 0)]
        for _ in range(30):
            pts.append((rng.range(0, max(0, W - 1)), rng.range(0, max(0, H - 1))))
        ct = rng.below(3)
        line = "timgp %d %d %d %d %s" % (ct, W, H, len(pts), " ".join("%d %d" % p for p in pts))
        coq = "T19Probe %d %d %d [%s]" % (ct, W, H, ";".join("(%s,%s)" % (vlib.z(x), vlib.z(y)) for x, y in pts))
        cases.append(vlib.Case(line, coq, "rb", tags=["probe"], nontrivial=W >= 32 and H >= 32))
    # through a real Display
    for _ in range(24 if tier == "quick" else 160):
        pc, m, lw, lh, cmax = drawgen.config(rng, info, ifaces=(0, 1, 2, 7), models=[112, 212, 105, 107, 104, 0, 11, 1, 12, 2, 3, 10])
        o = pc["opts"]
        if m["fw"] >= 40 and m["fh"] >= 40:
            o["w"] = rng.range(32, min(m["fw"], 70))
            o["h"] = rng.range(32, min(m["fh"], 60))
            o["ox"] = rng.choice([0, m["fw"] - o["w"], rng.range(0, m["fw"] - o["w"])])
            o["oy"] = rng.choice([0, m["fh"] - o["h"], rng.range(0, m["fh"] - o["h"])])
        pc["batch"] = rng.chance(1, 2)
        c = vlib.pcase(pc)
        c.line = c.line + " ti"
        c.coq = "T19Display (%s)" % c.coq
        c.tags = ["display", "rot%d%s" % (o["rot"], "m" if o["mir"] else "")]
        c.nontrivial = o["w"] >= 32 and o["h"] >= 32
        cases.append(c)
    return cases


def wrap_impl(case, impl):
    if case.line.startswith("timgp"):
        inner = impl.strip()
        r, rest = inner[1:-1].split(",", 1)
        return "T19P %s %s" % (r.strip(), rest.strip())
    if case.line.startswith("timg"):
        inner = impl.strip()
        r, rest = inner[1:-1].split(",", 1)
        return "T19R %s %s" % (r.strip(), rest.strip())
    return "T19D " + impl
