"""C17 — reset comes first: a >= 10 us low pulse on the reset pin, or a software reset."""
import vlib
from props import initgen, drawgen

PER_SHARD = 60
CASE_TYPE = "(c17case * c17out)"
IMPORTS = "Require Import Corr.L2 Corr.DrawL."
RULE = ("the real Builder::init of every built-in model x interface kind x option sets, with and without reset pin, reset pin, delay "
        "source and bus recorded on one timeline; plus drawing / orientation / sleep programs after init to confirm the pin is never "
        "touched again; plus rejected configurations (nothing may happen); plus, below the real "
        "SpiInterface / ParallelInterface, an init whose k-th pin or bus operation fails (k = 0..3 and random up to 40) followed by a second init "
        "over the same transport object: the retried init, decoded from the pins as the first attempt left them, must again begin with the reset; non-trivial = reset pin configured or unsupported pairing")
TRUSTED = ["Oracle/InitSpec.v reset_first_ok"]
ASSUMPTIONS = ["virtual time for the 10 us pulse"]


def gen(rng, tier, info):
    pcs = initgen.init_cases(rng, tier, info, per_model_opts=6)
    for pc in pcs:
        pc["nontrivial"] = pc["rst"] or "unsupported" in pc["tags"]
    cases = [vlib.pcase(pc) for pc in pcs]
    # a failing reset pin: set_low (k = 0) or set_high (k = 1) fails -> InitError::ResetPin, and nothing may reach the bus
    for pc in pcs[:: max(1, len(pcs) // (120 if tier == "quick" else 1200))]:
        if not pc["rst"]:
            continue
        for k in (0, 1):
            q = dict(pc)
            q["init_fail"] = k
            q["tags"] = ["reset-pin-fault", "k=%d" % k]
            q["nontrivial"] = True
            cases.append(vlib.pcase(q))
    # programs after init: no reset-pin event may appear in any op trace (checked by the exact correspondence)
    for _ in range(60 if tier == "quick" else 600):
        pc, m, lw, lh, cmax = drawgen.config(rng, info, ifaces=(0, 1, 7))
        pc["rst"] = True
        pc["ops"] = [(-1, rng.choice([("cl", 0), ("so", rng.below(4), rng.below(2)), ("sl",), ("wk",), ("te", rng.below(3)),
                                      ("vo", 5), drawgen.op_inbounds(rng, lw, lh, cmax)])) for _ in range(rng.range(1, 4))]
        pc["tags"] = ["post-init-program"]
        cases.append(vlib.pcase(pc))
    cases = [drawgen.wrap_l(c, False) for c in cases]
    # the whole init below the real transports (SPI; 8/16-bit parallel with data pins idling low AND high): the first
    # thing the panel latches must still be the reset
    mt = info["models"]
    for mid in [i for i in sorted(mt.keys()) if i < 100]:
        m = mt[mid]
        for iface in (3, 4, 5):
            if drawgen.KIND_OF_IFACE[iface] not in m["kinds"] or (iface == 5 and m["color"] != "Rgb565"):
                continue
            for rst in (False, True):
                if tier == "quick" and rng.chance(1, 2):
                    continue
                f = rng.choice(initgen.all_flag_opts())
                w, h, ox, oy = drawgen.window(rng, m["fw"], m["fh"])
                pc = dict(md=rng.choice(["d", "r"]), batch=True, model=mid, iface=iface, ifparam=rng.choice([3, 4, 7, 64]) if iface == 3 else 0,
                          rst=rst, use_size=True, opts=dict(f, w=w, h=h, ox=ox, oy=oy), ops=[], tags=["iface%d" % iface, "rst" if rst else "norst"],
                          nontrivial=True)
                cases.append(drawgen.wrap_l(vlib.pcase(pc), True))
    for c in cases:
        c.coq = "C17L (%s)" % c.coq
    # an initialisation that fails at its k-th pin / bus operation and is then RETRIED over the same transport object
    # (`Builder::new(model, &mut di)`): the second attempt must again start with the reset, as the panel sees it
    for mid in [i for i in sorted(mt.keys()) if i < 100]:
        m = mt[mid]
        for iface in (3, 4, 5):
            if drawgen.KIND_OF_IFACE[iface] not in m["kinds"] or (iface == 5 and m["color"] != "Rgb565"):
                continue
            for rst in (False, True):
                ks = [0, 1, 2, 3] + [rng.range(4, 40) for _ in range(2 if tier == "quick" else 12)]
                for k in ks:
                    if tier == "quick" and k >= 2 and rng.chance(1, 2):
                        continue
                    f = rng.choice(initgen.all_flag_opts())
                    w, h, ox, oy = drawgen.window(rng, m["fw"], m["fh"])
                    pc = dict(md=rng.choice(["d", "r"]), batch=True, model=mid, iface=iface, ifparam=rng.choice([3, 4, 7, 64]) if iface == 3 else 0,
                              rst=rst, use_size=True, opts=dict(f, w=w, h=h, ox=ox, oy=oy), ops=[], init_fail=k,
                              tags=["retry", "iface%d" % iface, "rst" if rst else "norst", "k=%d" % min(k, 4)], nontrivial=True)
                    c = vlib.pcase(pc)
                    c.line = "reinit" + c.line[len("prog"):]
                    c.coq = "C17R (%s)" % c.coq
                    cases.append(c)
    return cases


def wrap_impl(case, impl):
    if case.line.startswith("reinit"):
        return impl          # already a C17RO term
    return "C17LO (%s)" % drawgen.wrap_impl_l(case, impl)
