"""drawgen.py — shared generators for Display programs (configurations, drawing ops, streams)."""
import vlib

KIND_OF_IFACE = {0: "Serial4Line", 1: "Parallel8Bit", 2: "Parallel16Bit", 7: "Parallel16Bit",
                 3: "Serial4Line", 4: "Parallel8Bit", 5: "Parallel16Bit"}


def pick_iface(rng, m, allowed=(0, 1, 2, 7)):
    cands = [i for i in allowed if KIND_OF_IFACE[i] in m["kinds"] and not (i in (2, 5) and m["color"] != "Rgb565")]
    return rng.choice(cands) if cands else None


def window(rng, FW, FH):
    """(w, h, ox, oy) accepted by init, biased to the extremes"""
    mode = rng.below(8)
    if mode == 0:
        return FW, FH, 0, 0
    if mode == 1:
        w, h = 1, 1
    elif mode == 2:
        w, h = rng.range(1, min(FW, 8)), rng.range(1, min(FH, 8))
    elif mode == 3:
        w, h = FW, rng.range(1, FH)
    elif mode == 4:
        w, h = rng.range(1, FW), FH
    else:
        w, h = rng.range(1, FW), rng.range(1, FH)
    ox = rng.choice([0, FW - w, rng.range(0, FW - w)])
    oy = rng.choice([0, FH - h, rng.range(0, FH - h)])
    return w, h, ox, oy


def config(rng, info, ifaces=(0, 1, 2, 7), small=False, models=None):
    mt = info["models"]
    ids = models or sorted(mt.keys())
    while True:
        mid = rng.choice(ids)
        m = mt[mid]
        if small and m["fw"] * m["fh"] > 200000 and rng.chance(3, 4):
            continue
        iface = pick_iface(rng, m, ifaces)
        if iface is None:
            continue
        break
    w, h, ox, oy = window(rng, m["fw"], m["fh"])
    rot = rng.below(4)
    opts = dict(w=w, h=h, ox=ox, oy=oy, rot=rot, mir=rng.chance(1, 2), bgr=rng.chance(1, 2), inv=rng.chance(1, 3),
                btt=rng.chance(1, 3), rtl=rng.chance(1, 3))
    pc = dict(md=rng.choice(["d", "r"]), batch=rng.chance(2, 3), model=mid, iface=iface, ifparam=0, rst=rng.chance(1, 2),
              use_size=True, opts=opts, ops=[])
    if iface == 3:
        bpp = 2 if m["color"] == "Rgb565" else 3
        pc["ifparam"] = rng.choice([bpp, bpp + 1, 2 * bpp - 1, 2 * bpp, 2 * bpp + 1, 7, 64, 512])
    lw, lh = (w, h) if rot in (0, 2) else (h, w)
    cmax = 65535 if m["color"] == "Rgb565" else 262143
    return pc, m, lw, lh, cmax


def color(rng, cmax):
    return rng.choice([0, cmax, 31, rng.range(0, cmax), rng.range(0, cmax)])


def edge_coord(rng, n):
    """coordinate in [0, n) hugging the edges"""
    return rng.choice([0, n - 1, n // 2, rng.range(0, n - 1), min(n - 1, 1), max(0, n - 2)])


def inbounds_rect(rng, lw, lh, max_area):
    x0 = edge_coord(rng, lw)
    y0 = edge_coord(rng, lh)
    mw = lw - x0
    mh = lh - y0
    w = rng.choice([1, mw, rng.range(1, mw)])
    w = min(w, max_area)
    h = rng.choice([1, mh, rng.range(1, mh)])
    h = max(1, min(h, max_area // w))
    if rng.chance(1, 2):
        x0 = lw - w if rng.chance(1, 2) else x0
        y0 = lh - h if rng.chance(1, 2) else y0
    return x0, y0, w, h


def op_inbounds(rng, lw, lh, cmax):
    k = rng.below(7)
    if k == 0:
        return ("sp", edge_coord(rng, lw), edge_coord(rng, lh), color(rng, cmax))
    if k == 1:
        x, y, w, h = inbounds_rect(rng, lw, lh, 120)
        n = w * h
        n = rng.choice([n, n, max(0, n - 1), n // 2])
        return ("sps", x, y, x + w - 1, y + h - 1, [color(rng, cmax) for _ in range(n)])
    if k == 2:
        return ("di", stream_inbounds(rng, lw, lh, cmax, rng.range(0, 80)))
    if k == 3:
        x, y, w, h = inbounds_rect(rng, lw, lh, 150)
        n = rng.choice([w * h, w * h + 3, max(0, w * h - 1), w * h // 2, 0])
        return ("fc", (x, y, w, h), [(i * 7 + 1) % (cmax + 1) for i in range(n)])
    if k == 4:
        x, y, w, h = inbounds_rect(rng, lw, lh, 10 ** 12)
        return ("fs", (x, y, w, h), color(rng, cmax))
    if k == 5:
        return ("cl", color(rng, cmax))
    x, y, w, h = inbounds_rect(rng, lw, lh, 200)
    return ("fcg", (x, y, w, h), rng.choice([w * h, w * h + 5, w * h // 2]))


def stream_inbounds(rng, lw, lh, cmax, n):
    """pixel stream made of runs, columns, scattered points and repeats, all in bounds"""
    ps = []
    while len(ps) < n:
        shape = rng.below(6)
        if shape == 0:      # left-to-right run
            y = edge_coord(rng, lh)
            x = edge_coord(rng, lw)
            ln = rng.choice([1, 2, 49, 50, 51, 101, rng.range(1, 60)])
            for i in range(ln):
                if x + i < lw:
                    ps.append((x + i, y, color(rng, cmax)))
        elif shape == 1:    # block of equal rows
            x, y, w, h = inbounds_rect(rng, lw, lh, rng.choice([99, 100, 101, 30, 150]))
            for j in range(h):
                for i in range(w):
                    ps.append((x + i, y + j, color(rng, cmax)))
        elif shape == 2:    # vertical run
            x = edge_coord(rng, lw)
            y = edge_coord(rng, lh)
            for j in range(rng.range(1, 8)):
                if y + j < lh:
                    ps.append((x, y + j, color(rng, cmax)))
        elif shape == 3:    # right-to-left run
            y = edge_coord(rng, lh)
            x = edge_coord(rng, lw)
            for i in range(rng.range(1, 8)):
                if x - i >= 0:
                    ps.append((x - i, y, color(rng, cmax)))
        elif shape == 4:    # repeated position
            x, y = edge_coord(rng, lw), edge_coord(rng, lh)
            for _ in range(rng.range(2, 4)):
                ps.append((x, y, color(rng, cmax)))
        else:
            ps.append((edge_coord(rng, lw), edge_coord(rng, lh), color(rng, cmax)))
    return ps[:max(n, 0)] if n else []


# ---- shrinking of program cases: drop ops, drop pixels
def shrink_prog(case):
    pc = case.descr
    if not isinstance(pc, dict):
        return []
    out = []
    ops = pc["ops"]
    for i in range(len(ops)):
        q = dict(pc)
        q["ops"] = ops[:i] + ops[i + 1:]
        out.append(q)
    for i, (f, op) in enumerate(ops):
        if op[0] == "di" and len(op[1]) > 1:
            n = len(op[1])
            for part in (op[1][:n // 2], op[1][n // 2:], op[1][1:], op[1][:-1]):
                q = dict(pc)
                q["ops"] = ops[:i] + [(f, ("di", part))] + ops[i + 1:]
                out.append(q)
        if op[0] in ("fc", "sps") and len(op[-1]) > 1:
            q = dict(pc)
            lst = op[-1][:len(op[-1]) // 2]
            q["ops"] = ops[:i] + [(f, op[:-1] + (lst,))] + ops[i + 1:]
            out.append(q)
    return [vlib.pcase(fix_sow(q)) for q in out]


def fix_sow(pc):
    """recompute what each `sow` (orientation extended by a word) results in, after ops were dropped"""
    cur = (pc["opts"]["rot"], bool(pc["opts"]["mir"]))
    ops = []
    for f, op in pc["ops"]:
        if op[0] == "so" and f < 0:
            cur = (op[1], bool(op[2]))
        elif op[0] == "sow":
            r, m = cur
            for x in op[1]:
                r, m = vlib.compose_orient(r, m, x)
            op = ("sow", op[1], r, m)
            if f < 0:
                cur = (r, m)
        ops.append((f, op))
    q = dict(pc)
    q["ops"] = ops
    return q


# ---- cases at the Interface boundary (L1) or below the real transports (L2), for Corr/DrawL.v
SMALL_L2 = [100, 101, 102, 103, 104, 105, 203, 204]


def l2_config(rng, info):
    """small panel over the real SpiInterface (buffer lengths around the pixel size, not multiples of it) or a parallel bus"""
    pc, m, lw, lh, cmax = config(rng, info, ifaces=(3, 3, 4, 5), models=SMALL_L2)
    if pc["iface"] == 3:
        bpp = 2 if m["color"] == "Rgb565" else 3
        pc["ifparam"] = rng.choice([bpp, bpp + 1, 2 * bpp - 1, 2 * bpp, 2 * bpp + 1, 7, 64])
    return pc, m, lw, lh, cmax


def wrap_l(case, l2):
    case.coq = ("L2 (%s)" if l2 else "L1 (%s)") % case.coq
    if l2 and "L2" not in case.tags:
        case.tags = ["L2"] + list(case.tags)
    return case


def wrap_impl_l(case, impl):
    return ("LO2 " if "L2" in case.tags else "LO1 ") + impl


def shrink_l(case):
    out = shrink_prog(case)
    l2 = "L2" in case.tags
    for c in out:
        c.tags = list(case.tags)
        wrap_l(c, l2)
    return out
