"""C02 — out-of-bounds drawing is discarded: no panic, no write outside the panel window."""
import vlib
from props import drawgen

RULE = ("DrawTarget calls with arbitrary coordinates: draw_iter streams mixing in-bounds pixels with coordinates from the pool "
        "{-1, w, w+1, h, 255, 256, 32767, 32768, 65534, 65535, 65536, 65536+small, i32::MIN, i32::MIN+1, i32::MAX-1, i32::MAX}; "
        "fill_solid / fill_contiguous / clear with rectangles straddling each edge and corner, enclosing the display, disjoint, "
        "zero-sized and at the i32 extremes (valid embedded-graphics rectangles, < 2^32 points); debug and release, batch on and off; "
        "small and built-in panels, windows with non-zero offset; non-trivial = the call contains at least one out-of-bounds element")
TRUSTED = ["Oracle/Controller.v, Oracle/DrawSpec.v"]
ASSUMPTIONS = ["rectangles valid for embedded-graphics: top_left + size representable in i32 (its own arithmetic panics otherwise)"]
PER_SHARD = 40
CASE_TYPE = "(lcase * lout)"
IMPORTS = "Require Import Corr.L2 Corr.DrawL."
I32MIN, I32MAX = -2**31, 2**31 - 1


def oob_coord(rng, n):
    return rng.choice([-1, -2, n, n + 1, 255, 256, 32767, 32768, 65534, 65535, 65536, 65536 + rng.range(0, max(0, n)), 65536 + n,
                       131072 + rng.range(0, 3), I32MIN, I32MIN + 1, I32MAX - 1, I32MAX, -65536, -65535, rng.range(-70000, 70000)])


def oob_stream(rng, lw, lh, cmax, n):
    ps = []
    while len(ps) < n:
        k = rng.below(10)
        if k < 4:
            ps += drawgen.stream_inbounds(rng, lw, lh, cmax, rng.range(1, 12))
        elif k < 6:
            ps.append((oob_coord(rng, lw), drawgen.edge_coord(rng, lh), drawgen.color(rng, cmax)))
        elif k < 8:
            ps.append((drawgen.edge_coord(rng, lw), oob_coord(rng, lh), drawgen.color(rng, cmax)))
        elif k == 8:
            ps.append((oob_coord(rng, lw), oob_coord(rng, lh), drawgen.color(rng, cmax)))
        else:
            # a run that crosses the right edge
            y = drawgen.edge_coord(rng, lh)
            for i in range(-2, 4):
                ps.append((lw - 2 + i, y, drawgen.color(rng, cmax)))
    return ps[:n]


def any_rect(rng, lw, lh, max_area=None):
    """(x, y, w, h) valid for embedded-graphics, anywhere relative to the display"""
    k = rng.below(12)
    if k == 0:
        return (rng.range(-3, lw + 2), rng.range(-3, lh + 2), 0, rng.range(0, 5))
    if k == 1:
        return (rng.range(-3, lw + 2), rng.range(-3, lh + 2), rng.range(0, 5), 0)
    if k == 2:      # enclosing
        a, b = rng.range(1, 6), rng.range(1, 6)
        return (-a, -b, lw + a + rng.range(0, 5), lh + b + rng.range(0, 5))
    if k == 3:      # disjoint
        return rng.choice([(lw, 0, 3, 3), (0, lh, 3, 3), (-5, 0, 5, 3), (0, -5, 3, 5), (lw + 7, lh + 7, 2, 2), (-9, -9, 4, 4)])
    if k == 4:      # i32 extremes
        return rng.choice([(I32MIN, I32MIN, 5, 5), (I32MAX - 5, I32MAX - 5, 5, 5), (I32MIN, 0, 2, 2), (0, I32MAX - 3, 2, 3),
                           (I32MIN, -1, 70000, 3), (-1, I32MIN, 3, 60000)])
    if k == 5:      # huge, covers everything (fill_solid only: < 2^32 points)
        return (-30000, -30000, 65535, 65535)
    # straddling an edge / corner or inside
    x0 = rng.range(-4, lw + 1)
    y0 = rng.range(-4, lh + 1)
    w = rng.range(1, min(lw + 6, 40))
    h = rng.range(1, min(lh + 6, 40))
    return (x0, y0, w, h)


def op_any(rng, lw, lh, cmax, small):
    k = rng.below(6)
    if k <= 1:
        return ("di", oob_stream(rng, lw, lh, cmax, rng.range(1, 60)))
    if k == 2:
        return ("fs", any_rect(rng, lw, lh), drawgen.color(rng, cmax))
    if k == 3:
        return ("cl", drawgen.color(rng, cmax))
    r = any_rect(rng, lw, lh)
    area = r[2] * r[3]
    if area > 6000 or not small:
        # keep the stream the driver has to pull short
        if area > 6000:
            n = rng.choice([0, 1, 50, 2000])
            return ("fcg", r, n) if r[2] * r[3] < 2**32 else ("fs", r, 1)
    n = rng.choice([area, area + 3, max(0, area - 1), area // 2, 0, min(area, 7)])
    if k == 4:
        return ("fc", r, [(i * 5 + 1) % (cmax + 1) for i in range(n)])
    return ("fcg", r, n)


def has_oob(op, lw, lh):
    if op[0] == "di":
        return any(not (0 <= x < lw and 0 <= y < lh) for x, y, _ in op[1])
    if op[0] in ("fs", "fc", "fcg"):
        x, y, w, h = op[1]
        return x < 0 or y < 0 or x + w > lw or y + h > lh or w == 0 or h == 0
    return False


def gen(rng, tier, info, ifaces=(0, 1, 2, 7)):
    n = 800 if tier == "quick" else 8000
    cases = []
    small_models = [100, 101, 102, 103, 104, 105, 112, 203, 204, 212]
    for k in range(n):
        small = rng.chance(2, 3)
        pc, m, lw, lh, cmax = drawgen.config(rng, info, ifaces=ifaces, models=small_models if small else None)
        nops = rng.range(1, 4)
        o = pc["opts"]
        ops = []
        if rng.chance(1, 3):
            # a run-time orientation change first: clipping and window offsets must follow it
            r2, m2 = rng.below(4), rng.below(2)
            ops.append((-1, ("so", r2, m2)))
            lw, lh = (o["w"], o["h"]) if r2 in (0, 2) else (o["h"], o["w"])
        pc["ops"] = ops + [(-1, op_any(rng, lw, lh, cmax, small)) for _ in range(nops)]
        pc["tags"] = ["rot%d%s" % (o["rot"], "m" if o["mir"] else ""), "batch" if pc["batch"] else "nobatch", pc["md"]] + \
                     ["op:" + op[0] for _, op in pc["ops"]]
        pc["nontrivial"] = any(has_oob(op, lw, lh) for _, op in pc["ops"])
        cases.append(drawgen.wrap_l(vlib.pcase(pc), False))
    # the same kind of calls below the real transports (small panels; pin-level logs decoded in Coq)
    for k in range(n // 5):
        pc, m, lw, lh, cmax = drawgen.l2_config(rng, info)
        pc["ops"] = [(-1, op_any(rng, lw, lh, cmax, True)) for _ in range(rng.range(1, 3))]
        pc["tags"] = ["iface%d" % pc["iface"]] + ["op:" + op[0] for _, op in pc["ops"]]
        pc["nontrivial"] = any(has_oob(op, lw, lh) for _, op in pc["ops"])
        cases.append(drawgen.wrap_l(vlib.pcase(pc), True))
    return cases


wrap_impl = drawgen.wrap_impl_l
shrink = drawgen.shrink_l
