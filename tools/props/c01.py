"""C01 — drawn pixels land at the oriented, offset panel position (every entry point)."""
import vlib
from props import drawgen

RULE = ("random programs (1-6 ops) of in-bounds set_pixel / set_pixels / draw_iter / fill_contiguous / fill_solid / clear on built-in "
        "and const-generic external models (1x1 .. 65535x65535), windows at the extremes (full, 1x1, touching each edge), all 8 "
        "orientations, both colour formats, 8- and 16-bit word interfaces, batch on/off, debug/release; the implementation's trace is "
        "decoded by the reference controller and the write history compared with the specification list; non-trivial = at least one op "
        "writes a pixel and the window is not the whole framebuffer in default orientation")
TRUSTED = ["Oracle/Controller.v (reference MIPI-DCS controller) and Oracle/DrawSpec.v (per-op expected writes)"]
ASSUMPTIONS = ["drawing arguments of set_pixel/set_pixels in bounds, colour count <= rectangle area (documented precondition)"]
PER_SHARD = 40


def gen(rng, tier, info, ifaces=(0, 1, 2, 7)):
    n = 600 if tier == "quick" else 6000
    cases = []
    for k in range(n):
        pc, m, lw, lh, cmax = drawgen.config(rng, info, ifaces=ifaces)
        nops = rng.range(1, 6)
        pc["ops"] = [(-1, drawgen.op_inbounds(rng, lw, lh, cmax)) for _ in range(nops)]
        o = pc["opts"]
        pc["tags"] = ["rot%d%s" % (o["rot"], "m" if o["mir"] else ""), "iface%d" % pc["iface"], "batch" if pc["batch"] else "nobatch",
                      pc["md"], "model:" + ("ext" if pc["model"] >= 100 else "builtin"), m["color"]] + ["op:" + op[0] for _, op in pc["ops"]]
        pc["nontrivial"] = not (o["w"] == m["fw"] and o["h"] == m["fh"] and o["rot"] == 0 and not o["mir"])
        cases.append(vlib.pcase(pc))
    return cases


def shrink(case):
    return drawgen.shrink_prog(case)
