"""C01 — drawn pixels land at the oriented, offset panel position (every entry point)."""
import vlib
from props import drawgen

RULE = ("random programs (1-6 ops) of in-bounds set_pixel / set_pixels / draw_iter / fill_contiguous / fill_solid / clear on built-in "
        "and const-generic external models (1x1 .. 65535x65535), windows at the extremes (full, 1x1, touching each edge), all 8 "
        "orientations, both colour formats, 8- and 16-bit word interfaces, batch on/off, debug/release; the implementation's trace is "
        "decoded by the reference controller and the write history compared with the specification list; a quarter as many programs again on small panels over the REAL transports (SpiInterface with buffer lengths bpp, bpp+1, 2bpp-1, 2bpp, 2bpp+1, 7, 64; ParallelInterface on 8- and 16-bit buses) whose pin-level logs are decoded in Coq and whose final picture is compared; non-trivial = at least one op "
        "writes a pixel and the window is not the whole framebuffer in default orientation")
TRUSTED = ["Oracle/Controller.v (reference MIPI-DCS controller) and Oracle/DrawSpec.v (per-op expected writes)"]
ASSUMPTIONS = ["drawing arguments of set_pixel/set_pixels in bounds, colour count <= rectangle area (documented precondition)"]
PER_SHARD = 40
PROPS_FILES = ["C01", "C01T", "C01E"]      # C01T: pin level (all transports); C01E: from power-on, every generated model
CASE_TYPE = "(c1case * c1out)"
IMPORTS = "Require Import Corr.L2 Corr.C01."
SMALL = [100, 101, 102, 103, 104, 105, 203, 204]


def gen(rng, tier, info, ifaces=(0, 1, 2, 7)):
    n = 600 if tier == "quick" else 6000
    cases = []
    for k in range(n):
        pc, m, lw, lh, cmax = drawgen.config(rng, info, ifaces=ifaces)
        nops = rng.range(1, 6)
        pc["ops"] = [(-1, drawgen.op_inbounds(rng, lw, lh, cmax)) for _ in range(nops)]
        o = pc["opts"]
        pc["tags"] = ["rot%d%s" % (o["rot"], "m" if o["mir"] else ""), "iface%d" % pc["iface"], "batch" if pc["batch"] else "nobatch",
                      pc["md"], "model:" + ("ext" if pc["model"] >= 100 else "builtin"), m["color"]] + ["op:" + op[0] for _, op in pc["ops"]]
        pc["nontrivial"] = not (o["w"] == m["fw"] and o["h"] == m["fh"] and o["rot"] == 0 and not o["mir"])
        c = vlib.pcase(pc)
        c.coq = "C1L1 (%s)" % c.coq
        cases.append(c)
    # the same kind of programs below the real transports (SPI with any buffer length >= one pixel, 8- and 16-bit
    # parallel): pin-level logs, decoded by the Coq decoder and the reference controller; small panels
    for k in range(n // 4):
        pc, m, lw, lh, cmax = drawgen.config(rng, info, ifaces=(3, 4, 5), models=SMALL)
        if pc["iface"] == 3:
            bpp = 2 if m["color"] == "Rgb565" else 3
            pc["ifparam"] = rng.choice([bpp, bpp + 1, 2 * bpp - 1, 2 * bpp, 2 * bpp + 1, 7, 64])
        pc["ops"] = [(-1, drawgen.op_inbounds(rng, lw, lh, cmax)) for _ in range(rng.range(1, 4))]
        o = pc["opts"]
        pc["tags"] = ["L2", "iface%d" % pc["iface"], "rot%d%s" % (o["rot"], "m" if o["mir"] else "")] + ["op:" + op[0] for _, op in pc["ops"]]
        pc["nontrivial"] = True
        c = vlib.pcase(pc)
        c.coq = "C1L2 (%s)" % c.coq
        cases.append(c)
    return cases


def wrap_impl(case, impl):
    return ("C1O2 " if "L2" in case.tags else "C1O1 ") + impl


def shrink(case):
    out = drawgen.shrink_prog(case)
    l2 = "L2" in case.tags
    for c in out:
        c.coq = ("C1L2 (%s)" if l2 else "C1L1 (%s)") % c.coq
        c.tags = list(case.tags)
    return out
