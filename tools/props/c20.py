"""C20 — batching and buffering actually reduce bus overhead, never below correctness."""
import vlib
from props import drawgen, c06

CASE_TYPE = "(c20case * c20out)"
IMPORTS = "Require Import Corr.C06 Corr.C20."
PER_SHARD = 30
RULE = ("Display programs whose FIRST operation is a calibration draw_iter of one long left-to-right run (the row capacity is measured as the "
        "largest burst it produces, not assumed), followed by draw_iter streams built from runs of length {1, 2, cap-1, cap, cap+1, 2cap+1, "
        "random}, stacked rows, right-to-left and vertical runs, interleaved out-of-bounds pixels, and by rectangle fills / clear; the number "
        "of RAMWR commands per call is compared with the maximal-run decomposition computed in Coq; plus SPI bursts (C06 stream) for the "
        "transaction bound; non-trivial = contains a run longer than the capacity or a fill")
TRUSTED = ["Corr/C20.v oracle (runs, ceil_div, max_burst)"]
ASSUMPTIONS = ["overhead is counted in window set-ups and SPI transactions, not in time"]


def gen(rng, tier, info):
    n = 300 if tier == "quick" else 3000
    cases = []
    models = [2, 12, 107, 106, 6, 11]      # wide enough for long runs
    for _ in range(n):
        pc, m, lw, lh, cmax = drawgen.config(rng, info, ifaces=(0, 1), models=models)
        # full-size window in a horizontal orientation keeps the logical width large
        o = pc["opts"]
        o["w"], o["h"], o["ox"], o["oy"] = m["fw"], m["fh"], 0, 0
        lw, lh = (o["w"], o["h"]) if o["rot"] in (0, 2) else (o["h"], o["w"])
        cal = [(i, 0, drawgen.color(rng, cmax)) for i in range(min(lw, 230))]
        ops = [(-1, ("di", cal))]
        nontriv = False
        for _ in range(rng.range(1, 3)):
            k = rng.below(5)
            if k <= 2:
                ps = []
                for _ in range(rng.range(1, 5)):
                    y = drawgen.edge_coord(rng, lh)
                    x = rng.range(0, max(0, lw - 1))
                    ln = rng.choice([1, 2, 49, 50, 51, 101, 120, rng.range(1, 130)])
                    shape = rng.below(6)
                    if shape <= 2:
                        run = [(x + i, y, drawgen.color(rng, cmax)) for i in range(ln) if x + i < lw + (2 if shape == 2 else 0)]
                        nontriv = nontriv or ln > 50
                    elif shape == 3:
                        run = [(x - i, y, drawgen.color(rng, cmax)) for i in range(min(ln, 8)) if x - i >= 0]
                    elif shape == 4:
                        w = rng.choice([3, 10, 50, 51])
                        run = [(x + i, y + j, 7) for j in range(3) for i in range(w) if x + i < lw and y + j < lh]
                    else:
                        run = [(x, y + j, 3) for j in range(min(ln, 6)) if y + j < lh]
                    ps += run
                ops.append((-1, ("di", ps)))
            elif k == 3:
                x, y, w, h = drawgen.inbounds_rect(rng, lw, lh, 200)
                from props import c04
                rc = rng.choice(c04.rect_cases(rng, min(lw, 40), min(lh, 40)))      # overhanging each edge / corner
                ops.append((-1, rng.choice([("fs", (x - 2, y - 2, w + 1, h + 1), 5), ("fcg", (x, y, w, h), w * h), ("fs", (lw, 0, 3, 3), 1),
                                            ("fcg", rc, rc[2] * rc[3]), ("fcg", (-2, y, w + 2, h), (w + 2) * h)])))
                nontriv = True
            else:
                ops.append((-1, ("cl", drawgen.color(rng, cmax))))
                nontriv = True
        # the same fill / clear twice in a row (and with an orientation change in between): EACH call needs its own
        # window set-up, whatever the previous call addressed
        if ops[-1][1][0] in ("fs", "fcg", "cl") and rng.chance(1, 2):
            if rng.chance(1, 3):
                ops.append((-1, ("so", o["rot"], int(o["mir"]))))
            ops.append(ops[-1] if ops[-1][1][0] != "so" else ops[-2])
        pc["ops"] = ops
        pc["tags"] = ["batch" if pc["batch"] else "nobatch"] + ["op:" + op[0] for _, op in ops]
        pc["nontrivial"] = nontriv
        c = vlib.pcase(pc)
        c.coq = "C20P (%s)" % c.coq
        cases.append(c)
    for c in c06.gen(rng.fork("spi"), "quick", info)[: (200 if tier == "quick" else 1500)]:
        c.coq = "C20S (%s)" % c.coq
        c.tags = ["spi"] + c.tags
        cases.append(c)
    return cases


def wrap_impl(case, impl):
    return ("C20SO " if case.line.startswith("spi") else "C20PO ") + impl
