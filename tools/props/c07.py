"""C07 — parallel transport: values latched at each write strobe are the words sent."""
import vlib
from vlib import zl, b, z

CASE_TYPE = "(parcase * parout)"
IMPORTS = "Require Import Model.Parallel."
PER_SHARD = 100
RULE = ("(a) ParallelInterface over Generic8BitBus / Generic16BitBus through Interface::{send_command, send_pixels, send_repeated_pixel} "
        "with recording data, DC and WR pins: word histories over an alphabet that forces repeats and single-bit changes "
        "{0, 1, 0x80, 0xFF, 0x8000, 0xFFFF, random}, pixels with equal and unequal words, repeat counts {0,1,2,3,7,50}; optionally the k-th "
        "low-level operation of a call fails (every source: data pin, DC, WR), with both physical effects of the failed write, followed by "
        "fault-free calls; the recorded pin log is sampled at the rising edges of WR by the Coq sampler (from all-low and all-high initial "
        "pin levels). (b) OutputBus::set_value histories with injected single-pin failures. non-trivial = contains equal consecutive words, "
        "an all-same-word repeat, or a fault")
TRUSTED = ["Corr/C07.v oracle: sample_par / latch_of_event (Model/Parallel.v) are the specification of what the panel latches"]
ASSUMPTIONS = ["set-up / hold timing of the 8080 bus is not modelled: a latched value is the pin levels at the instant of the WR rising edge",
               "a failed pin write either changes the level or does not (both are explored); nothing else is assumed of a failing pin"]


def word(rng, w):
    mx = (1 << w) - 1
    return rng.choice([0, 1, 0x80, 0xFF, mx, mx >> 1, 1 << (w - 1), rng.range(0, mx), rng.range(0, mx)]) & mx


def gen(rng, tier, info):
    n_cases = 1200 if tier == "quick" else 12000
    cases = []
    # repeats whose strobe count does not fit the mock's budget (and, for N > 1, whose word count exceeds 2^32)
    for count in [2**31, 2**31 + 1, 2**32 - 1, 3 * 2**30, 2**31 - 1, 1500000000, 100000]:
        for (w, p) in [(8, [5, 5]), (8, [0, 0, 0]), (16, [40000])]:
            for v in ["db", "rb"]:
                budget = 3000
                line = "par %d %d r %d %d %s" % (w, budget, len(p), count, " ".join(map(str, p)))
                coq = "ParHuge %d %s %s %d %d" % (w, "Debug" if v[0] == "d" else "Release", zl(p), count, budget)
                cases.append(vlib.Case(line, coq, v, tags=["huge-repeat", "words>=2^32" if count * len(p) >= 2**32 else "words<2^32"], nontrivial=True))
    for i in range(n_cases):
        w = rng.choice([8, 16])
        if i % 3 == 2:
            # bus-level history
            h_r, h_c, tags = [], [], ["bus%d" % w]
            prev = None
            nontriv = False
            for _ in range(rng.range(2, 9)):
                v = prev if (prev is not None and rng.chance(1, 4)) else word(rng, w)
                if prev is not None and rng.chance(1, 5):
                    v = prev ^ (1 << rng.below(w))
                fail = rng.range(0, w - 1) if rng.chance(1, 4) else -1
                eff = rng.chance(1, 2)
                nontriv = nontriv or fail >= 0 or v == prev
                h_r.append("%d %d" % (v, fail))
                h_c.append("(%d, %s, %s)" % (v, z(fail), b(eff)))
                prev = v
            cases.append(vlib.Case("bus %d %s" % (w, " ".join(h_r)), "BusHist %d [%s]" % (w, "; ".join(h_c)),
                                   rng.choice(["db", "rb"]), tags=tags + (["fault"] if any("-1" not in x.split()[1] for x in h_r) else []), nontrivial=nontriv))
            continue
        n = rng.choice([2, 3]) if w == 8 else 1
        calls_r, calls_c, tags = [], [], ["par%d" % w]
        nontriv = False
        for j in range(rng.range(1, 5)):
            k = 0 if j == 0 else rng.below(3)
            fail = -1
            if rng.chance(1, 6):
                fail = rng.range(0, 30)
            eff = rng.chance(1, 2)
            pre = ("fail %d " % fail) if fail >= 0 else ""
            if k == 0:
                op = rng.choice([0x2C, 0x2A, 0x00, 0xFF, rng.range(0, 255)])
                args = [rng.choice([0, 0xFF, op, rng.range(0, 255)]) for _ in range(rng.range(0, 5))]
                calls_r.append(pre + "c %d %d %s" % (op, len(args), " ".join(map(str, args))))
                calls_c.append("(%s, %s, PCmd %d %s)" % (z(fail), b(eff), op, zl(args)))
                tags.append("cmd")
            elif k == 1:
                cnt = rng.range(0, 6)
                px = []
                for _ in range(cnt):
                    if rng.chance(1, 3) and px:
                        px.append(list(px[-1]))
                    elif rng.chance(1, 3):
                        x = word(rng, w)
                        px.append([x] * n)
                    else:
                        px.append([word(rng, w) for _ in range(n)])
                calls_r.append(pre + "p %d %d %s" % (n, cnt, " ".join(str(x) for p in px for x in p)))
                calls_c.append("(%s, %s, PPx [%s])" % (z(fail), b(eff), ";".join(zl(p) for p in px)))
                tags.append("px")
                nontriv = nontriv or cnt >= 2
            else:
                cnt = rng.choice([0, 1, 2, 3, 7, 50])
                if rng.chance(1, 2):
                    x = word(rng, w)
                    p = [x] * n
                    tags.append("rep-same")
                    nontriv = True
                else:
                    p = [word(rng, w) for _ in range(n)]
                    tags.append("rep")
                calls_r.append(pre + "r %d %d %s" % (n, cnt, " ".join(map(str, p))))
                calls_c.append("(%s, %s, PRep %s %d)" % (z(fail), b(eff), zl(p), cnt))
            if fail >= 0:
                tags.append("fault")
                nontriv = True
        v = rng.choice(["db", "rb", "dn", "rn"])
        md = "Debug" if v[0] == "d" else "Release"
        line = "par %d %d %s" % (w, 100000, " ".join(calls_r))
        coq = "ParCalls %d %s [%s]" % (w, md, "; ".join(calls_c))
        cases.append(vlib.Case(line.strip(), coq, v, tags=tags, nontrivial=nontriv))
    return cases


def wrap_impl(case, impl):
    return ("BusOut " if case.line.startswith("bus") else "ParOut ") + impl
