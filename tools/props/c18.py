"""C18 — DCS command types serialise to their MIPI opcode and big-endian parameters."""
import vlib
from vlib import b

CASE_TYPE = "(dcase * dout)"
PER_SHARD = 250
RULE = ("every public command type through DcsCommand::instruction / fill_params_buf on 0xEE-prefilled buffers of length "
        "n-1 (must panic), n and 16, and through write_command / write_raw on a recording Interface directly and via the "
        "&mut T forwarding impl; all enum variants (10 basic, 36 pixel formats, 3 tearing, 2 invert), SetAddressMode::new and From<&ModelOptions> on all 2x8x4 inputs and every chain of <= 2 with_* setters (longer chains: C14); u16 arguments from boundaries {0,1,255,256,257,0x7FFF,0x8000,0xFF00,0xFFFE,0xFFFF} x random; "
        "raw instruction/parameter slices of length 0..20; non-trivial = has at least one parameter byte")
TRUSTED = ["Corr/Dcs.v spec_wire: opcode and big-endian layout written independently of the model's encoders",
           "committed MIPI-DCS opcode table in Proofs/DcsP.v (mipi_opcode)"]
ASSUMPTIONS = []

BPP = ["Three", "Eight", "Twelve", "Sixteen", "Eighteen", "TwentyFour"]
BASIC = ["SoftReset", "EnterSleepMode", "ExitSleepMode", "EnterPartialMode", "EnterNormalMode", "SetDisplayOff",
         "SetDisplayOn", "ExitIdleMode", "EnterIdleMode", "WriteMemoryStart"]
EDGE = [0, 1, 255, 256, 257, 0x7FFF, 0x8000, 0xFF00, 0xFFFE, 0xFFFF]


def u16(rng):
    return rng.choice(EDGE) if rng.chance(1, 2) else rng.range(0, 65535)


def gen(rng, tier, info):
    n_rand = 1200 if tier == "quick" else 12000
    cases = []

    def add(line_cmd, coq_cmd, nparams, tag):
        for buflen in sorted(set([max(0, nparams - 1), nparams, 16])):
            if nparams == 0 and buflen == 0 and False:
                continue
            line = "dcs %d %s" % (buflen, line_cmd)
            coq = "(%d, %s)" % (buflen, coq_cmd)
            cases.append(vlib.Case(line, coq, rng.choice(["db", "rb", "dn", "rn"]), tags=[tag, "buf=%s" % ("short" if buflen < nparams else "exact" if buflen == nparams else "16")],
                                   nontrivial=nparams > 0))

    for i, nme in enumerate(BASIC):
        add("basic %d" % i, "DCmd %s" % nme, 0, "basic")
    for i, x in enumerate(BPP):
        for j, y in enumerate(BPP):
            add("pf %d %d" % (i, j), "DCmd (SetPixelFormat %s %s)" % (x, y), 1, "pixel-format")
        add("pfall %d" % i, "DCmd (SetPixelFormat %s %s)" % (x, x), 1, "pixel-format")
    for k, t in enumerate(["TeOff", "TeVertical", "TeHV"]):
        add("te %d" % k, "DCmd (SetTearingEffect %s)" % t, 0 if k == 0 else 1, "tearing")
    for k in (0, 1):
        add("inv %d" % k, "DCmd (SetInvertMode %s)" % b(k), 0, "invert")
    # SetAddressMode through each of its constructors (all 2 x 8 x 4 inputs) and every chain of <= 2 setters
    from vlib import coq_orient
    from props import c14
    for kind, ctor in (("madnew", "DMadNew"), ("madopts", "DMadOpts")):
        for bgr in (0, 1):
            for r in range(4):
                for m in (0, 1):
                    for v in (0, 1):
                        for h in (0, 1):
                            add("%s %d %d %d %d %d" % (kind, bgr, r, m, v, h),
                                "%s %s %s %s %s" % (ctor, b(bgr), coq_orient(r, m), b(v), b(h)), 1, "address-mode")
    import itertools
    S = c14.setters()
    for n in (0, 1, 2):
        for chain in itertools.product(S, repeat=n):
            add(("madctl %d %s" % (n, " ".join(c14.rust_setter(x) for x in chain))).strip(),
                "DMadChain [%s]" % "; ".join(c14.coq_setter(x) for x in chain), 1, "address-mode-chain")
    for k in range(n_rand):
        which = rng.below(5)
        if which == 0:
            s, e = u16(rng), u16(rng)
            add("caset %d %d" % (s, e), "DCmd (SetColumnAddress %d %d)" % (s, e), 4, "caset")
        elif which == 1:
            s, e = u16(rng), u16(rng)
            add("raset %d %d" % (s, e), "DCmd (SetPageAddress %d %d)" % (s, e), 4, "raset")
        elif which == 2:
            t, v, bb = u16(rng), u16(rng), u16(rng)
            add("vscrdef %d %d %d" % (t, v, bb), "DCmd (SetScrollArea %d %d %d)" % (t, v, bb), 6, "vscrdef")
        elif which == 3:
            o = u16(rng)
            add("vscad %d" % o, "DCmd (SetScrollStart %d)" % o, 2, "vscad")
        else:
            op = rng.range(0, 255)
            n = rng.choice([0, 1, 2, 15, 16, 17, 20, rng.range(0, 20)])
            args = [rng.range(0, 255) for _ in range(n)]
            line = "dcs 0 raw %d %d %s" % (op, n, " ".join(map(str, args)))
            coq = "(0, DRaw %d %s)" % (op, vlib.zl(args))
            cases.append(vlib.Case(line.strip(), coq, rng.choice(["db", "rb"]), tags=["raw", "rawlen>16" if n > 16 else "rawlen<=16"], nontrivial=n > 0))
    return cases
