"""C03 — batched draw_iter is equivalent to setting the pixels one by one, in order."""
import vlib
from props import drawgen, c02

RULE = ("draw_iter streams aimed at the batcher's flush points: runs of length 1, 2, cap-1, cap, cap+1, 2cap+1 (cap = the row capacity "
        "read from the source), stacks of equal rows whose total is block_cap-1/=/+1, rows that change start column or length, repeated "
        "positions, right-to-left and vertical runs, a trailing single pixel, interleaved out-of-bounds pixels; the decoded write history "
        "of the real batched traffic must equal the per-pixel specification list (order-sensitive); batch on and off, debug and release; "
        "non-trivial = stream has >= 2 rows and at least one capacity or shape flush")
TRUSTED = ["Oracle/Controller.v, Oracle/DrawSpec.v"]
ASSUMPTIONS = ["finite, side-effect-free pixel iterators (lists)"]
PER_SHARD = 30
CASE_TYPE = "(lcase * lout)"
IMPORTS = "Require Import Corr.L2 Corr.DrawL."


def shaped_stream(rng, lw, lh, cmax, rowcap, blockcap):
    ps = []
    nontriv = False
    segs = rng.range(1, 5)
    for _ in range(segs):
        k = rng.below(9)
        if k == 0:      # long run around the row capacity
            ln = rng.choice([rowcap - 1, rowcap, rowcap + 1, 2 * rowcap, 2 * rowcap + 1])
            y = drawgen.edge_coord(rng, lh)
            x0 = 0 if lw >= ln else 0
            for i in range(min(ln, lw)):
                ps.append((x0 + i, y, drawgen.color(rng, cmax)))
            nontriv = nontriv or lw > rowcap
        elif k == 1:    # stack of equal rows around the block capacity
            w = rng.choice([1, 2, 3, 7, 10, 25, 33, 50])
            w = min(w, lw)
            rows = rng.choice([blockcap // w - 1, blockcap // w, blockcap // w + 1, 2, 3])
            rows = max(1, min(rows, lh))
            x0 = rng.range(0, lw - w)
            y0 = rng.range(0, lh - rows)
            for j in range(rows):
                for i in range(w):
                    ps.append((x0 + i, y0 + j, drawgen.color(rng, cmax)))
            nontriv = nontriv or rows >= 2
        elif k == 2:    # rows that change start column or length
            y0 = rng.range(0, max(0, lh - 4))
            for j in range(min(4, lh)):
                w = rng.range(1, min(lw, 6))
                x0 = rng.range(0, lw - w)
                for i in range(w):
                    ps.append((x0 + i, y0 + j, drawgen.color(rng, cmax)))
            nontriv = True
        elif k == 3:
            ps += drawgen.stream_inbounds(rng, lw, lh, cmax, rng.range(1, 20))
        elif k == 4:    # overwrite of an earlier position (order matters)
            if ps:
                x, y, _ = rng.choice(ps)
                ps.append((x, y, drawgen.color(rng, cmax)))
                ps.append((x, y, drawgen.color(rng, cmax)))
        elif k == 5:
            ps += c02.oob_stream(rng, lw, lh, cmax, rng.range(1, 8))
        elif k == 6:    # same row again (not adjacent vertically)
            y = drawgen.edge_coord(rng, lh)
            w = rng.range(1, min(lw, 5))
            for _ in range(2):
                for i in range(w):
                    ps.append((i, y, drawgen.color(rng, cmax)))
        elif k == 7:    # rows going upwards
            w = rng.range(1, min(lw, 4))
            for j in range(min(3, lh)):
                for i in range(w):
                    ps.append((i, lh - 1 - j, drawgen.color(rng, cmax)))
            nontriv = True
        else:
            ps.append((drawgen.edge_coord(rng, lw), drawgen.edge_coord(rng, lh), drawgen.color(rng, cmax)))
    if rng.chance(1, 2):
        ps.append((drawgen.edge_coord(rng, lw), drawgen.edge_coord(rng, lh), drawgen.color(rng, cmax)))
    return ps, nontriv


def gen(rng, tier, info, ifaces=(0, 1, 2, 7)):
    n = 700 if tier == "quick" else 7000
    consts = info["consts"] or {}
    rowcap = consts.get("MAX_ROW_SIZE", 50)
    blockcap = consts.get("MAX_BLOCK_SIZE", 100)
    cases = []
    for k in range(n):
        pc, m, lw, lh, cmax = drawgen.config(rng, info, ifaces=ifaces)
        pc["batch"] = rng.chance(4, 5)
        ps, nontriv = shaped_stream(rng, lw, lh, cmax, rowcap, blockcap)
        pc["ops"] = [(-1, ("di", ps))]
        if rng.chance(1, 4):
            ps2, _ = shaped_stream(rng, lw, lh, cmax, rowcap, blockcap)
            pc["ops"].append((-1, ("di", ps2)))
        pc["tags"] = ["batch" if pc["batch"] else "nobatch", pc["md"], "len<=50" if len(ps) <= 50 else "len<=200" if len(ps) <= 200 else "len>200"]
        pc["nontrivial"] = nontriv and len(ps) >= 2
        cases.append(drawgen.wrap_l(vlib.pcase(pc), False))
    # batched streams all the way down to the pins: runs and blocks longer than one SPI buffer load (buffers that are
    # not a multiple of the pixel size), parallel buses; the decoded final picture must be the per-pixel one
    for k in range(n // 5):
        pc, m, lw, lh, cmax = drawgen.l2_config(rng, info)
        pc["batch"] = rng.chance(4, 5)
        ps, nontriv = shaped_stream(rng, lw, lh, cmax, rowcap, blockcap)
        if rng.chance(1, 2):       # a full-width run per row: longer than a small SPI buffer holds
            y = drawgen.edge_coord(rng, lh)
            ps += [(i, y, drawgen.color(rng, cmax)) for i in range(lw)]
            if lh > 1:
                ps += [(i, (y + 1) % lh, drawgen.color(rng, cmax)) for i in range(lw)]
        pc["ops"] = [(-1, ("di", ps))]
        pc["tags"] = ["iface%d" % pc["iface"], "batch" if pc["batch"] else "nobatch"]
        pc["nontrivial"] = len(ps) >= 3
        cases.append(drawgen.wrap_l(vlib.pcase(pc), True))
    return cases


wrap_impl = drawgen.wrap_impl_l
shrink = drawgen.shrink_l
