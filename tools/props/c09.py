"""C09 — init accepts exactly the windows that fit, and rejects before touching hardware."""
import vlib

RULE = ("Builder::init on built-in and const-generic external models (1x1 .. 65535x65535), width/height/offsets drawn "
        "per dimension from {0,1,2,F/2,F-1,F,F+1,65535-F,65534,65535,random}, with and without reset pin, debug and "
        "release builds; a case is non-trivial when it is not the all-default configuration; distinct = distinct harness input line")
TRUSTED = ["harness mocks count every reset-pin / delay / interface call in one timeline"]
ASSUMPTIONS = ["u16 option values (the builder API cannot express anything else)"]


def pool(rng, F):
    p = [0, 1, 2, F // 2, F - 1, F, F + 1, 65535 - F, 65534, 65535, rng.range(0, 65535), rng.range(0, min(65535, 2 * F))]
    return [min(65535, max(0, v)) for v in p]


def gen(rng, tier, info):
    n = 2000 if tier == "quick" else 20000
    mt = info["models"]
    ids = sorted(mt.keys())
    cases = []
    for k in range(n):
        mid = rng.choice(ids)
        m = mt[mid]
        FW, FH = m["fw"], m["fh"]
        mode = rng.below(10)
        if mode < 6:
            w = rng.choice(pool(rng, FW)); h = rng.choice(pool(rng, FH))
            ox = rng.choice(pool(rng, FW)); oy = rng.choice(pool(rng, FH))
        elif mode < 8:
            # mostly valid: window inside the framebuffer, sometimes touching the edge
            w = rng.range(1, FW); h = rng.range(1, FH)
            ox = rng.choice([0, FW - w, rng.range(0, FW - w), min(65535, FW - w + 1)])
            oy = rng.choice([0, FH - h, rng.range(0, FH - h), min(65535, FH - h + 1)])
        else:
            w, h, ox, oy = FW, FH, 0, 0
        iface = 0 if "Serial4Line" in m["kinds"] else 1
        use_size = not (mode >= 8 and rng.chance(1, 2))
        pc = dict(md=rng.choice(["d", "r"]), batch=True, model=mid, iface=iface, rst=rng.chance(1, 2), use_size=use_size,
                  opts=dict(w=w, h=h, ox=ox, oy=oy, rot=rng.below(4), mir=rng.chance(1, 2), bgr=False, inv=False, btt=False, rtl=False),
                  ops=[], nontrivial=not (w == FW and h == FH and ox == 0 and oy == 0))
        fits = w != 0 and h != 0 and w <= FW and h <= FH and ox + w <= FW and oy + h <= FH
        pc["tags"] = ["fits" if fits else ("size-bad" if (w == 0 or h == 0 or w > FW or h > FH) else "offset-bad"),
                      "rst" if pc["rst"] else "norst", "model:" + ("ext" if mid >= 100 else "builtin"),
                      "sum>=65536" if (ox + w > 65535 or oy + h > 65535) else "sum<65536"]
        cases.append(vlib.pcase(pc))
    return cases
