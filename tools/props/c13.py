"""C13 — sleep state tracking and 120 ms sleep-in/out spacing over any history."""
import vlib
from props import drawgen

RULE = ("random histories (length <= 40) over {sleep, wake, set_pixel, draw_iter, fill_solid, clear, set_orientation, scroll region/offset, "
        "tearing effect} after init of every built-in model (and external ones), including repeated sleep or wake, and one sleep/wake call in five "
        "FAILING at its Interface call (the flag must then not move: 'last successful'); is_sleeping() is compared "
        "after every op with the reference controller's sleep state decoded from the commands actually sent; every 0x10/0x11 must be "
        "followed inside its call by >= 120 ms of virtual delay (embedded-hal's default delay_us/delay_ms bodies really run); non-trivial = "
        "history contains >= 2 sleep/wake ops")
PROPS_FILES = ["C13", "C01E"]      # C01E holds C13E_init_then_history (init of every generated model, then any history)
TRUSTED = ["Oracle/Controller.v sleep rules (0x10/0x11, 120 ms spacing on the virtual clock)"]
ASSUMPTIONS = ["virtual time: the sum of requested delays; a real DelayNs waits at least what it is asked (embedded-hal contract)"]
PER_SHARD = 30


def gen(rng, tier, info):
    n = 600 if tier == "quick" else 6000
    cases = []
    for k in range(n):
        pc, m, lw, lh, cmax = drawgen.config(rng, info)
        ops = []
        nsl = 0
        rot, mir = pc["opts"]["rot"], pc["opts"]["mir"]
        for _ in range(rng.range(1, 40 if rng.chance(1, 4) else 12)):
            c = rng.below(12)
            w, h = pc["opts"]["w"], pc["opts"]["h"]
            llw, llh = (w, h) if rot in (0, 2) else (h, w)
            # one sleep / wake call in five fails at its (only) Interface call: the flag must not move
            fk = 0 if rng.chance(1, 5) else -1
            if c < 3:
                ops.append((fk, ("sl",))); nsl += 1
            elif c < 6:
                ops.append((fk, ("wk",))); nsl += 1
            elif c == 6:
                ops.append((-1, ("sp", drawgen.edge_coord(rng, llw), drawgen.edge_coord(rng, llh), drawgen.color(rng, cmax))))
            elif c == 7:
                ops.append((-1, ("di", drawgen.stream_inbounds(rng, llw, llh, cmax, rng.range(0, 10)))))
            elif c == 8:
                ops.append((-1, ("cl", drawgen.color(rng, cmax))))
            elif c == 9:
                rot, mir = rng.below(4), rng.chance(1, 2)
                ops.append((-1, ("so", rot, int(mir))))
            elif c == 10:
                ops.append((-1, ("vr", rng.range(0, 20), rng.range(0, 20))) if rng.chance(1, 2) else (-1, ("vo", rng.range(0, 300))))
            else:
                ops.append((-1, ("te", rng.below(3))))
        pc["ops"] = ops
        pc["tags"] = (["fault"] if any(f >= 0 for f, _ in ops) else []) + [pc["md"], "model:%d" % pc["model"] if pc["model"] < 100 else "model:ext", "slops%d" % min(nsl, 5)]
        pc["nontrivial"] = nsl >= 2
        cases.append(vlib.pcase(pc))
    # a fault at the k-th call of Builder::init (incl. the sleep-out command of every model): init must fail, not hand
    # out a display that reports "awake" for a controller that never received sleep-out
    from props import initgen
    pcs = initgen.init_cases(rng, "quick", info, per_model_opts=2, ext=False)
    for pc in pcs:
        if "unsupported" in pc["tags"]:
            continue
        for k in ([rng.range(0, 12), rng.range(0, 70)] if tier == "quick" else list(range(0, 75, 2))):
            q = dict(pc)
            q["init_fail"] = k
            q["tags"] = ["init-fault"]
            q["nontrivial"] = True
            cases.append(vlib.pcase(q))
    return cases


def shrink(case):
    return drawgen.shrink_prog(case)
