"""C12 — a failing pin or bus operation is reported, stops the call, wedges nothing."""
import re
import vlib
from props import drawgen, initgen

CASE_TYPE = "(pcase * pout2)"
IMPORTS = "Require Import Corr.L2."
PER_SHARD = 24
RULE = ("real Display objects over the real transports (SpiInterface with recording SPI device / DC pin; ParallelInterface over "
        "Generic8BitBus / Generic16BitBus with recording data, DC, WR pins; recording reset pin): (a) Builder::init of every built-in model "
        "with the k-th low-level operation failing — k chosen after a fault-free probe run has counted the operations of that init "
        "(quick: first, last, a few in between; thorough: every k for every model on SPI, a sample on the parallel buses); (b) programs on small "
        "panels in which one or more calls (set_pixel(s), draw_iter, fill_*, clear, set_orientation, scroll, tearing, sleep, wake) fail at their "
        "k-th operation — incl. pixel-heavy calls over SPI buffers of one or two pixels and the parallel buses with the fault position drawn from a probe run's operation count (first, last, last-1, random; thorough: every position) — followed by a fault-free clear(c) whose pin-level log is decoded by the reference controller: the whole panel window "
        "must show c and nothing outside it may be written; non-trivial = the injected fault actually hit an operation")
TRUSTED = ["Corr/L2.v (composition of the driver model with the transport models; pin-level decoder)", "Corr/C12.v oracle"]
ASSUMPTIONS = ["a failing operation returns Err; its physical effect on the panel is taken as 'not received' for the decoded picture (electrical behaviour of a "
               "half-finished transfer is outside any executable model); a failed pin write may or may not have changed the level (both covered by C07)"]

SMALL = [100, 101, 102, 103, 104, 105]


def count_fallible(impl):
    """number of fallible L2 ops in the init log of a pout2 term"""
    m = re.match(r"\(\s*\w+(?: \([^)]*\))?, \[(.*?)\], (?:None|Some)", impl, re.S)
    if not m:
        return 0
    body = m.group(1)
    if not body.strip():
        return 0
    return len([x for x in body.split(";") if x.strip() and not x.strip().startswith("ODelay")]) if "[" not in body else \
        len(re.findall(r"\b(ODc|OSpi|OPin|OWr|ORst)\b", body))


def spi_buf(rng, color):
    n = 2 if color == "Rgb565" else 3
    return rng.choice([n, n + 1, 2 * n + 1, 7, 64])


def gen(rng, tier, info):
    mt = info["models"]
    cases = []
    # ---- (a) init faults
    probes = []
    for mid in [i for i in sorted(mt.keys()) if i < 100]:
        m = mt[mid]
        for iface in (3, 4, 5):
            kind = drawgen.KIND_OF_IFACE[iface]
            if kind not in m["kinds"] or (iface == 5 and m["color"] != "Rgb565"):
                continue
            for rst in (False, True):
                f = rng.choice(initgen.all_flag_opts())
                w, h, ox, oy = drawgen.window(rng, m["fw"], m["fh"])
                pc = dict(md=rng.choice(["d", "r"]), batch=True, model=mid, iface=iface, ifparam=spi_buf(rng, m["color"]) if iface == 3 else 0,
                          rst=rst, use_size=True, opts=dict(f, w=w, h=h, ox=ox, oy=oy), ops=[], tags=["init-probe", "iface%d" % iface],
                          nontrivial=False)
                probes.append(pc)
    probe_cases = [vlib.pcase(pc) for pc in probes]
    vlib.run_cases_on_harness(probe_cases)
    for pc, c in zip(probes, probe_cases):
        n = count_fallible(c.impl or "")
        if n == 0:
            continue
        if tier == "thorough" and pc["iface"] == 3:
            ks = list(range(n))
        elif tier == "thorough":
            ks = sorted(set([0, 1, n - 1, n - 2] + [rng.below(n) for _ in range(40)]))
        else:
            ks = sorted(set([0, n - 1] + [rng.below(n) for _ in range(2)]))
        for k in ks:
            q = dict(pc)
            q["init_fail"] = k
            q["tags"] = ["init-fault", "iface%d" % pc["iface"], "rst" if pc["rst"] else "norst", "k=first" if k == 0 else "k=last" if k == n - 1 else "k=mid"]
            q["nontrivial"] = True
            cases.append(vlib.pcase(q))
        # one k beyond the end: the init must simply succeed
        q = dict(pc)
        q["init_fail"] = n + 3
        q["tags"] = ["init-fault-beyond"]
        cases.append(vlib.pcase(q))
    # ---- (b0) every (thorough) / several (quick) fault positions of pixel-heavy calls over transports that need many
    # low-level operations per call (SPI buffers of one or two pixels; parallel buses), then a clear
    from props import c10
    tprobes = []
    for _ in range(36 if tier == "quick" else 240):
        pc, m, lw, lh, cmax = drawgen.config(rng, info, ifaces=(3, 4, 4, 5, 5), models=SMALL)
        if pc["iface"] == 3:
            bpp = 2 if m["color"] == "Rgb565" else 3
            pc["ifparam"] = rng.choice([bpp, bpp + 1, 2 * bpp, 2 * bpp + 1])
        kind = rng.below(5)
        if kind == 0:
            x, y, w, h = drawgen.inbounds_rect(rng, lw, lh, 12)
            op = ("sps", x, y, x + w - 1, y + h - 1, [drawgen.color(rng, cmax) for _ in range(w * h)])
        elif kind == 1:
            x, y, w, h = drawgen.inbounds_rect(rng, lw, lh, 12)
            op = ("fc", (x, y, w, h), [(i * 7 + 1) % (cmax + 1) for i in range(w * h)])
        elif kind == 2:
            op = ("di", drawgen.stream_inbounds(rng, lw, lh, cmax, rng.range(3, 12)))
        elif kind == 3:
            x, y, w, h = drawgen.inbounds_rect(rng, lw, lh, 40)
            # colours whose bus words are all equal take the strobe-only fast path of the parallel transport
            op = ("fs", (x, y, w, h), rng.choice([0, cmax, drawgen.color(rng, cmax)]))
        else:
            op = ("cl", rng.choice([0, cmax, drawgen.color(rng, cmax)]))
        pc["ops"] = [(-1, op), (-1, ("cl", drawgen.color(rng, cmax)))]
        pc["tags"] = ["call-probe"]
        pc["nontrivial"] = False
        tprobes.append(pc)
    tcases = [vlib.pcase(pc) for pc in tprobes]
    vlib.run_cases_on_harness(tcases)
    for pc, c in zip(tprobes, tcases):
        parts = c10.split_ops(c.impl or "") or []
        if not parts:
            continue
        nops = len(re.findall(r"\b(ODc|OSpi|OPin|OWr|ORst)\b", parts[0]))
        if nops == 0:
            continue
        fill = pc["ops"][0][1][0] in ("fs", "cl")
        if tier == "thorough" and nops <= 400:
            ks = list(range(nops))
        elif fill and pc["iface"] in (4, 5):
            # every operation of a short fill, a dense sample of a long one (the strobe loop)
            ks = list(range(nops)) if nops <= 60 else sorted(set([0, nops - 1, nops - 2] + [rng.below(nops) for _ in range(24)]))
        else:
            ks = sorted(set([0, nops - 1, max(0, nops - 2)] + [rng.below(nops) for _ in range(5)]))
        for k in ks:
            q = dict(pc)
            q["ops"] = [(k, pc["ops"][0][1]), pc["ops"][1]]
            q["tags"] = ["call-fault", "iface%d" % pc["iface"], "op:" + pc["ops"][0][1][0], "k=last" if k == nops - 1 else "k=first" if k == 0 else "k=mid"]
            q["nontrivial"] = True
            cases.append(vlib.pcase(q))
    # ---- (b) faults in Display calls, then a clear
    n_prog = 260 if tier == "quick" else 2600
    for _ in range(n_prog):
        pc, m, lw, lh, cmax = drawgen.config(rng, info, ifaces=(3, 4, 5), models=SMALL)
        if pc["iface"] == 3:
            pc["ifparam"] = spi_buf(rng, m["color"])
        ops = []
        o = pc["opts"]
        cur = (o["rot"], o["mir"])
        hit = False
        for _ in range(rng.range(1, 4)):
            kind = rng.below(10)
            llw, llh = (o["w"], o["h"]) if cur[0] in (0, 2) else (o["h"], o["w"])
            if kind <= 3:
                op = drawgen.op_inbounds(rng, llw, llh, cmax)
            elif kind == 4:
                op = ("so", rng.below(4), rng.below(2))
            elif kind == 5:
                op = ("vr", rng.range(0, 40), rng.range(0, 40))
            elif kind == 6:
                op = ("vo", rng.range(0, 65535))
            elif kind == 7:
                op = ("te", rng.below(3))
            elif kind == 8:
                op = ("sl",)
            else:
                op = ("wk",)
            k = rng.choice([-1, 0, 1, 2, 3, 5, 8, 13, 21, 34, 55, rng.range(0, 120)])
            ops.append((k, op))
            hit = hit or k >= 0
            if op[0] == "so" and k < 0:
                cur = (op[1], bool(op[2]))
        ops.append((-1, ("cl", drawgen.color(rng, cmax))))
        pc["ops"] = ops
        pc["tags"] = ["prog-fault", "iface%d" % pc["iface"]] + ["op:" + op[0] + (":fault" if k >= 0 else "") for k, op in ops]
        pc["nontrivial"] = hit
        cases.append(vlib.pcase(pc))
    return cases
