"""C05 — every colour value is encoded on the bus as the announced pixel format requires."""
import vlib
from vlib import b, zl
from props import initgen

CASE_TYPE = "(c5case * c5out)"
IMPORTS = "Require Import Corr.Init."
PER_SHARD = 40
RULE = ("InterfacePixelFormat::{send_pixels, send_repeated_pixel} for Rgb565 on u8 and u16 words and Rgb666 on u8 words, through a "
        "recording interface: boundary values (single-bit components, all-ones, byte-boundary straddling greens) plus random values "
        "compared word by word; position-weighted checksums over whole raw ranges computed on both sides (quick: all 65,536 Rgb565 "
        "values on both bus widths and a 32k window of Rgb666; thorough: all 262,144 Rgb666 values too); COLMOD taken from the real "
        "init trace of every built-in model; non-trivial = value with at least two non-zero components")
TRUSTED = ["Corr/C05.v spec_words: MIPI-DCS 16/18 bpp layouts written with shifts and masks, independently of the model"]
ASSUMPTIONS = ["raw value <-> (r,g,b): embedded-graphics RawU16/RawU24 storage order, exercised through Rgb565::new / Rgb666::new in the harness"]


def gen(rng, tier, info):
    cases = []
    for fmt, w16, cmax, bits in ((0, False, 65535, (5, 6, 5)), (0, True, 65535, (5, 6, 5)), (1, False, 262143, (6, 6, 6))):
        edge = [0, cmax]
        rb, gb, bb = bits
        for i in range(rb):
            edge.append(1 << (gb + bb + i))
        for i in range(gb):
            edge.append(1 << (bb + i))
        for i in range(bb):
            edge.append(1 << i)
        edge += [(1 << bb) - 1, ((1 << gb) - 1) << bb, ((1 << rb) - 1) << (gb + bb), 0x0100 if fmt == 0 else 0x1040, 0x00FF, 0x8001]
        n = 64 if tier == "quick" else 640
        for k in range(n):
            raws = [rng.choice(edge) if rng.chance(1, 3) else rng.range(0, cmax) for _ in range(64)]
            count = rng.choice([0, 1, 2, 3, 100, 65536, 4294967295])
            line = "color %d %d %d %s" % (fmt, int(w16), count, " ".join(map(str, raws)))
            coq = "C5Color %d %s %d %s" % (fmt, b(w16), count, zl(raws))
            cases.append(vlib.Case(line, coq, rng.choice(["db", "rb"]), tags=["fmt%d%s" % (fmt, "w16" if w16 else "w8")], nontrivial=True))
        ranges = []
        step = 8192
        hi_all = cmax if (fmt == 0 or tier == "thorough") else 32767
        lo = 0
        while lo <= hi_all:
            ranges.append((lo, min(hi_all, lo + step - 1)))
            lo += step
        if fmt == 1 and tier != "thorough":
            ranges.append((262144 - 8192, 262143))
        for lo, hi in ranges:
            cases.append(vlib.Case("colorsum %d %d %d %d" % (fmt, int(w16), lo, hi), "C5Sum %d %s %d %d" % (fmt, b(w16), lo, hi), "rb",
                                   tags=["sum-fmt%d%s" % (fmt, "w16" if w16 else "w8")], nontrivial=True))
    # COLMOD announced by every built-in model on every interface kind it supports
    for pc in initgen.init_cases(rng, "quick", info, per_model_opts=2, ext=False):
        if "unsupported" in pc["tags"]:
            continue
        c = vlib.pcase(pc)
        c.coq = "C5Init (%s)" % c.coq
        c.tags = ["init-colmod"]
        cases.append(c)
    return cases


def wrap_impl(case, impl):
    if case.line.startswith("colorsum"):
        return "C5Z " + impl
    if case.line.startswith("color"):
        return "C5Ev " + impl
    return "C5P " + impl
