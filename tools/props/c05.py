"""C05 — every colour value is encoded on the bus as the announced pixel format requires."""
import vlib
from vlib import b, zl
from props import initgen

CASE_TYPE = "(c5case * c5out)"
IMPORTS = "Require Import Corr.Init Model.Spi Model.Parallel."
PER_SHARD = 40
RULE = ("InterfacePixelFormat::{send_pixels, send_repeated_pixel} for Rgb565 on u8 and u16 words and Rgb666 on u8 words, through a "
        "recording interface: boundary values (single-bit components, all-ones, byte-boundary straddling greens) plus random values "
        "compared word by word; position-weighted checksums over whole raw ranges computed on both sides (quick: all 65,536 Rgb565 "
        "values on both bus widths and a 32k window of Rgb666; thorough: all 262,144 Rgb666 values too); COLMOD taken from the real "
        "init trace of every built-in model; the encoded words of a colour as a solid fill and as a per-pixel stream through the REAL SpiInterface (buffers not a multiple of the pixel size, fills larger than the buffer) and ParallelInterface (incl. colours whose outer words are equal and middle word differs), judged by the wire / strobe oracles of C06 / C07; non-trivial = value with at least two non-zero components")
TRUSTED = ["Corr/C05.v spec_words: MIPI-DCS 16/18 bpp layouts written with shifts and masks, independently of the model"]
ASSUMPTIONS = ["raw value <-> (r,g,b): embedded-graphics RawU16/RawU24 storage order, exercised through Rgb565::new / Rgb666::new in the harness"]


def gen(rng, tier, info):
    cases = []
    for fmt, w16, cmax, bits in ((0, False, 65535, (5, 6, 5)), (0, True, 65535, (5, 6, 5)), (1, False, 262143, (6, 6, 6))):
        edge = [0, cmax]
        rb, gb, bb = bits
        for i in range(rb):
            edge.append(1 << (gb + bb + i))
        for i in range(gb):
            edge.append(1 << (bb + i))
        for i in range(bb):
            edge.append(1 << i)
        edge += [(1 << bb) - 1, ((1 << gb) - 1) << bb, ((1 << rb) - 1) << (gb + bb), 0x0100 if fmt == 0 else 0x1040, 0x00FF, 0x8001]
        n = 64 if tier == "quick" else 640
        for k in range(n):
            raws = [rng.choice(edge) if rng.chance(1, 3) else rng.range(0, cmax) for _ in range(64)]
            count = rng.choice([0, 1, 2, 3, 100, 65536, 4294967295])
            line = "color %d %d %d %s" % (fmt, int(w16), count, " ".join(map(str, raws)))
            coq = "C5Color %d %s %d %s" % (fmt, b(w16), count, zl(raws))
            cases.append(vlib.Case(line, coq, rng.choice(["db", "rb"]), tags=["fmt%d%s" % (fmt, "w16" if w16 else "w8")], nontrivial=True))
        ranges = []
        step = 8192
        hi_all = cmax if (fmt == 0 or tier == "thorough") else 32767
        lo = 0
        while lo <= hi_all:
            ranges.append((lo, min(hi_all, lo + step - 1)))
            lo += step
        if fmt == 1 and tier != "thorough":
            ranges.append((262144 - 8192, 262143))
        for lo, hi in ranges:
            cases.append(vlib.Case("colorsum %d %d %d %d" % (fmt, int(w16), lo, hi), "C5Sum %d %s %d %d" % (fmt, b(w16), lo, hi), "rb",
                                   tags=["sum-fmt%d%s" % (fmt, "w16" if w16 else "w8")], nontrivial=True))
    # the encoded words through the REAL transports: a solid fill (send_repeated_pixel) and the same colour as a per-pixel
    # stream must put the same, correctly ordered words on the SPI wire / at the WR strobes
    def enc(fmt, w16, raw):
        if fmt == 0:
            return [raw] if w16 else [raw >> 8, raw & 255]
        return [((raw >> 12) & 63) << 2, ((raw >> 6) & 63) << 2, (raw & 63) << 2]
    for _ in range(120 if tier == "quick" else 1200):
        fmt = rng.below(2)
        cmax = 65535 if fmt == 0 else 262143
        raw = rng.choice([0, cmax, 0xF81F if fmt == 0 else 0x3F03F, 0x07E0 if fmt == 0 else 0x00FC0, rng.range(0, cmax), rng.range(0, cmax)])
        if rng.chance(1, 2):
            bpp = 2 if fmt == 0 else 3
            px = enc(fmt, False, raw)
            buflen = rng.choice([bpp, bpp + 1, 2 * bpp + 1, 7, 64, 61, 512, 511])
            cap = buflen // bpp
            count = rng.choice([1, cap, cap + 1, 2 * cap + 1, 3 * cap, rng.range(1, 3 * cap + 2)])
            # the stream between the two fills: the same colour throughout, or starting with it and continuing with others
            # (whatever the stream leaves in the transfer buffer must not leak into the second fill)
            if rng.chance(1, 2):
                stream = [px] * count
            else:
                stream = [px] + [enc(fmt, False, rng.range(0, cmax)) for _ in range(rng.choice([1, 2, cap, cap + 1, 2 * cap]))]
            count2 = count if rng.chance(1, 2) else rng.range(1, count)
            flat = lambda l: " ".join(" ".join(map(str, q)) for q in l)
            calls_r = ["c 44 0", "r %d %d %s" % (bpp, count, " ".join(map(str, px))),
                       "c 44 0", "p %d %d %s" % (bpp, len(stream), flat(stream)),
                       "c 44 0", "r %d %d %s" % (bpp, count2, " ".join(map(str, px)))]
            calls_c = ["SCmd 44 []", "SRep %d %s %d" % (bpp, zl(px), count), "SCmd 44 []",
                       "SPx %d [%s]" % (bpp, ";".join(zl(q) for q in stream)), "SCmd 44 []", "SRep %d %s %d" % (bpp, zl(px), count2)]
            line = "spi %d 50000 %s" % (buflen, " ".join(calls_r))
            coq = "C5Spi {| Corr.C06.sc_buflen := %d; Corr.C06.sc_calls := [%s] |}" % (buflen, "; ".join("Corr.C06." + c for c in calls_c))
            cases.append(vlib.Case(line, coq, rng.choice(["db", "rb"]), tags=["spi-fill-vs-stream", "fmt%d" % fmt], nontrivial=count > cap))
        else:
            w16 = fmt == 0 and rng.chance(1, 2)
            px = enc(fmt, w16, raw)
            w = 16 if w16 else 8
            count = rng.choice([1, 2, 3, 7, 40])
            v = rng.choice(["db", "rb"])
            # every third case: a data-pin (or strobe) write FAILS during the first fill; the colour sent afterwards must
            # still reach the pins correctly encoded
            fk = rng.range(2, 3 + w) if rng.chance(1, 3) else -1
            eff = rng.chance(1, 2)
            pre = ("fail %d " % fk) if fk >= 0 else ""
            calls_r = ["c 44 0", pre + "r %d %d %s" % (len(px), count, " ".join(map(str, px))),
                       "c 44 0", "r %d %d %s" % (len(px), count, " ".join(map(str, px))),
                       "c 44 0", "p %d %d %s" % (len(px), count, " ".join(" ".join(map(str, px)) for _ in range(count)))]
            calls_c = ["((-1), false, Corr.C07.PCmd 44 [])", "(%s, %s, Corr.C07.PRep %s %d)" % (vlib.z(fk), b(eff), zl(px), count),
                       "((-1), false, Corr.C07.PCmd 44 [])", "((-1), false, Corr.C07.PRep %s %d)" % (zl(px), count),
                       "((-1), false, Corr.C07.PCmd 44 [])", "((-1), false, Corr.C07.PPx [%s])" % ";".join(zl(px) for _ in range(count))]
            line = "par %d 100000 %s" % (w, " ".join(calls_r))
            coq = "C5Par (Corr.C07.ParCalls %d %s [%s])" % (w, "Debug" if v[0] == "d" else "Release", "; ".join(calls_c))
            cases.append(vlib.Case(line, coq, v, tags=["par-fill-vs-stream", "fmt%d" % fmt, "same-outer" if len(px) == 3 and px[0] == px[2] != px[1] else "other"], nontrivial=True))
    # COLMOD announced by every built-in model on every interface kind it supports
    for pc in initgen.init_cases(rng, "quick", info, per_model_opts=2, ext=False):
        if "unsupported" in pc["tags"]:
            continue
        c = vlib.pcase(pc)
        c.coq = "C5Init (%s)" % c.coq
        c.tags = ["init-colmod"]
        cases.append(c)
    return cases


def wrap_impl(case, impl):
    if case.line.startswith("spi"):
        return "C5S " + impl
    if case.line.startswith("par"):
        return "C5Pa (Corr.C07.ParOut " + impl + ")"
    if case.line.startswith("colorsum"):
        return "C5Z " + impl
    if case.line.startswith("color"):
        return "C5Ev " + impl
    return "C5P " + impl
