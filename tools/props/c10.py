"""C10 — after set_orientation the display behaves as if built with that orientation."""
import vlib
from props import drawgen, c02

RULE = ("all 8x8 (built-with, set-to) pairs plus random longer orientation sequences on non-square offset windows, each followed by a "
        "drawing program (in- and out-of-bounds, fills, clear); reported orientation / size / bounding box, controller MADCTL and the "
        "decoded write history are compared with the specification for the LAST orientation set (calls that FAIL at the bus — one in six in the random sequences — must leave everything as it was); additionally the per-op traces after the "
        "last set_orientation are compared with those of a twin display built directly with that orientation; non-trivial = the last "
        "orientation differs from the built one")
TRUSTED = ["Oracle/Controller.v, Oracle/DrawSpec.v"]
ASSUMPTIONS = []
PER_SHARD = 40


def gen(rng, tier, info):
    n = 500 if tier == "quick" else 4000
    cases = []
    pairs = [(a, am, b, bm) for a in range(4) for am in (0, 1) for b in range(4) for bm in (0, 1)]
    models = [2, 3, 12, 11, 103, 104, 112, 107, 212, 6, 10, 108]
    for k in range(n):
        pc, m, lw, lh, cmax = drawgen.config(rng, info, models=models)
        if k < len(pairs):
            a, am, b, bm = pairs[k]
            seq = [(b, bm)]
        else:
            a, am = rng.below(4), rng.below(2)
            seq = [(rng.below(4), rng.below(2)) for _ in range(rng.range(1, 5))]
        pc["opts"]["rot"], pc["opts"]["mir"] = a, bool(am)
        ops = []
        if rng.chance(1, 3):
            ops.append((-1, ("cl", 0)))
        for (r, mm) in seq:
            if k >= len(pairs) and rng.chance(1, 6):
                # this call fails at the bus: nothing the display reports or does afterwards may have moved
                ops.append((0, ("so", rng.below(4), rng.below(2))))
            ops.append((-1, ("so", r, mm)))
            if rng.chance(1, 3):
                w, h = pc["opts"]["w"], pc["opts"]["h"]
                llw, llh = (w, h) if r in (0, 2) else (h, w)
                ops.append((-1, drawgen.op_inbounds(rng, llw, llh, cmax)))
        r, mm = seq[-1]
        w, h = pc["opts"]["w"], pc["opts"]["h"]
        llw, llh = (w, h) if r in (0, 2) else (h, w)
        tail = []
        for _ in range(rng.range(1, 4)):
            tail.append((-1, drawgen.op_inbounds(rng, llw, llh, cmax) if rng.chance(2, 3) else c02.op_any(rng, llw, llh, cmax, True)))
        pc["ops"] = ops + tail
        pc["tags"] = ["from%d%d" % (a, am), "to%d%d" % (r, mm), "seq%d" % len(seq), pc["md"]]
        pc["nontrivial"] = (a, am) != (r, mm)
        c = vlib.pcase(pc)
        c.twin_tail = len(tail)
        cases.append(c)
        # the twin: same options, built with the final orientation, only the tail
        tw = dict(pc)
        tw["opts"] = dict(pc["opts"], rot=r, mir=bool(mm))
        tw["ops"] = tail
        tw["tags"] = ["twin"]
        tw["nontrivial"] = False
        t = vlib.pcase(tw)
        t.twin_of = len(cases) - 1
        cases.append(t)
    return cases


def split_ops(impl):
    """text of each op result in a pout term (top-level elements of the last list)"""
    depth = 0
    i = impl.rfind("), [")
    # find the start of the op list: it is the last top-level component of the 4-tuple
    # parse by bracket matching from the end
    end = impl.rstrip().rstrip(")").rstrip()
    if not end.endswith("]"):
        return None
    j = len(end) - 1
    depth = 0
    while j >= 0:
        if end[j] == "]":
            depth += 1
        elif end[j] == "[":
            depth -= 1
            if depth == 0:
                break
        j -= 1
    body = end[j + 1:-1]
    items = []
    depth = 0
    cur = ""
    for ch in body:
        if ch in "([":
            depth += 1
        elif ch in ")]":
            depth -= 1
        if ch == ";" and depth == 0:
            items.append(cur.strip())
            cur = ""
        else:
            cur += ch
    if cur.strip():
        items.append(cur.strip())
    return items


def extra(info, cases, vlib_mod):
    """twin comparison: the tail of each sequence case vs the twin built with the last orientation"""
    viol = []
    compared = 0
    for i, c in enumerate(cases):
        if hasattr(c, "twin_of") and c.impl and cases[c.twin_of].impl:
            orig = cases[c.twin_of]
            a = split_ops(orig.impl)
            b = split_ops(c.impl)
            if a is None or b is None:
                continue
            n = orig.twin_tail
            compared += 1
            if a[len(a) - n:] != b[len(b) - n:] and len(a) >= n:
                viol.append(dict(kind="twin-mismatch", sequence_case=orig.line[:500], twin_case=c.line[:500],
                                 sequence_tail=a[len(a) - n:][:3], twin_tail=b[:3]))
    return dict(twin_pairs_compared=compared, twin_mismatches=len(viol)), [], viol


def shrink(case):
    return drawgen.shrink_prog(case)
