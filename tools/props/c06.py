"""C06 — SPI transport delivers exactly the bytes to send, in order, and terminates."""
import vlib
from vlib import zl

CASE_TYPE = "(scase * sout)"
IMPORTS = "Require Import Model.Spi."
PER_SHARD = 120
RULE = ("SpiInterface driven through Interface::{send_command, send_pixels, send_repeated_pixel} with recording SPI device and DC pin; "
        "staging buffer pre-filled with 0xA5 (a stale byte on the wire is recognisable), lengths {N, N+1, 2N-1, 2N, 2N+1, 7, 64, 512} "
        "for N in 1..4 bytes per pixel; pixel counts {0, 1, cap-1, cap, cap+1, 2cap, 2cap+1, 3cap+2, random}; repeat counts the same "
        "(0 included); parameter lengths 0..17; every mock operation draws on a budget whose exhaustion is reported as RBudget "
        "(presumed non-termination); non-trivial = the case contains a pixel burst or repeat with count >= cap or count = 0")
TRUSTED = ["Corr/C06.v oracle: wire_of_event (Model/Spi.v) is the specification of the bytes and DC levels"]
ASSUMPTIONS = ["bus timing / chip-select behaviour are not modelled: a transaction is a byte list written at one DC level",
               "buffers of 2^32 pixels or more are excluded ((len / N) as u32 truncates; see C06_spi_repeat_huge_buffer_diverges)"]


def counts(rng, cap):
    return rng.choice([0, 1, max(0, cap - 1), cap, cap + 1, 2 * cap, 2 * cap + 1, 3 * cap + 2, rng.range(0, 3 * cap + 2), rng.range(0, 12)])


def gen(rng, tier, info):
    n_cases = 1500 if tier == "quick" else 15000
    cases = []
    for _ in range(n_cases):
        n = rng.choice([2, 3, 2, 3, 1, 4])
        buflen = rng.choice([n, n + 1, 2 * n - 1, 2 * n, 2 * n + 1, 7, 64, 512] if n <= 7 else [n])
        buflen = max(buflen, n)
        if buflen >= 64 and rng.chance(2, 3):
            buflen = rng.choice([n, n + 1, 2 * n + 1, 7, 3 * n])
            buflen = max(buflen, n)
        cap = buflen // n
        calls_r, calls_c, tags = [], [], []
        nontriv = False
        # a small per-case pixel alphabet: the same pixel recurs across calls (fill, image starting with that pixel, fill
        # again), which is what a stale staging buffer or a wrongly kept cache needs in order to show
        alpha = [[rng.choice([0xA5, rng.range(0, 255)]) for _ in range(n)] for _ in range(rng.range(1, 3))]
        def pick_px():
            return list(rng.choice(alpha)) if rng.chance(3, 4) else [rng.range(0, 255) for _ in range(n)]
        ncalls = rng.range(1, 7)
        # the first call is a command: it defines the DC level
        for i in range(ncalls):
            k = 0 if i == 0 else rng.below(3)
            if k == 0:
                op = rng.range(0, 255)
                na = rng.choice([0, 1, 2, 4, 6, 16, 17, rng.range(0, 17)])
                args = [rng.range(0, 255) for _ in range(na)]
                calls_r.append("c %d %d %s" % (op, na, " ".join(map(str, args))))
                calls_c.append("SCmd %d %s" % (op, zl(args)))
                tags.append("cmd")
            elif k == 1:
                cnt = counts(rng, cap)
                px = [pick_px() for _ in range(cnt)]
                calls_r.append("p %d %d %s" % (n, cnt, " ".join(str(b) for p in px for b in p)))
                calls_c.append("SPx %d [%s]" % (n, ";".join(zl(p) for p in px)))
                tags.append("px:%s" % ("0" if cnt == 0 else "<cap" if cnt < cap else "=k*cap" if cnt % cap == 0 else ">cap"))
                nontriv = nontriv or cnt >= cap or cnt == 0
            else:
                cnt = counts(rng, cap)
                p = pick_px()
                calls_r.append("r %d %d %s" % (n, cnt, " ".join(map(str, p))))
                calls_c.append("SRep %d %s %d" % (n, zl(p), cnt))
                tags.append("rep:%s" % ("0" if cnt == 0 else "<cap" if cnt < cap else "=k*cap" if cnt % cap == 0 else ">cap"))
                nontriv = nontriv or cnt >= cap or cnt == 0
        line = "spi %d %d %s" % (buflen, 20000, " ".join(calls_r))
        coq = "{| sc_buflen := %d; sc_calls := [%s] |}" % (buflen, "; ".join(calls_c))
        cases.append(vlib.Case(line.strip(), coq, rng.choice(["db", "rb", "dn", "rn"]), tags=tags + ["N=%d" % n, "buf=%d" % buflen], nontrivial=nontriv))
    return cases
