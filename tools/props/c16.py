"""C16 — vertical scroll set-up always spans the framebuffer height and never panics."""
import vlib
from props import drawgen

RULE = ("set_vertical_scroll_region(top, bottom) with both arguments from {0,1,FH-1,FH,FH+1,32767,32768,65535-FH,65534,65535} x random, and "
        "set_vertical_scroll_offset over boundary + random u16, on every built-in framebuffer height plus heights 1, 3, 5, 60, 200, 50000, "
        "65535 (external models), in all 8 orientations, debug and release, at the Interface boundary and (one case in four) below the real SpiInterface with 2..7-byte buffers / ParallelInterface, parameters decoded from the pin log; non-trivial = top+bottom > FH or >= 65536 or an offset >= 256")
TRUSTED = ["Corr/Draw.v scroll_ok: decoded VSCRDEF parameters t+s+b = FH, pass-through when the sum fits"]
ASSUMPTIONS = []
PER_SHARD = 60
CASE_TYPE = "(lcase * lout)"
IMPORTS = "Require Import Corr.DrawL."


def gen(rng, tier, info):
    n = 1500 if tier == "quick" else 15000
    cases = []
    for k in range(n):
        # one case in four below the real transports (SPI buffers of 2..7 bytes — shorter than the six VSCRDEF
        # parameter bytes — and both parallel buses): the parameters are read back from the decoded pin log
        l2 = k % 4 == 3
        pc, m, lw, lh, cmax = drawgen.l2_config(rng, info) if l2 else drawgen.config(rng, info)
        FH = m["fh"]
        pool = [0, 1, FH - 1, FH, FH + 1, 32767, 32768, 65535 - FH, 65534, 65535, FH // 2, rng.range(0, 65535), rng.range(0, FH)]
        pool = [min(65535, max(0, v)) for v in pool]
        ops = []
        nt = False
        for _ in range(rng.range(1, 3)):
            if rng.chance(3, 4):
                t, b = rng.choice(pool), rng.choice(pool)
                ops.append((-1, ("vr", t, b)))
                nt = nt or t + b > FH
            else:
                v = rng.choice([0, 1, 255, 256, 65535, rng.range(0, 65535)])
                ops.append((-1, ("vo", v)))
                nt = nt or v >= 256
        pc["ops"] = ops
        pc["tags"] = [pc["md"], "FH=%d" % FH] + ["sum>65535" if (op[0] == "vr" and op[1] + op[2] > 65535) else "sum>FH" if (op[0] == "vr" and op[1] + op[2] > FH) else op[0] for _, op in ops]
        pc["nontrivial"] = nt
        cases.append(drawgen.wrap_l(vlib.pcase(pc), l2))
    return cases


wrap_impl = drawgen.wrap_impl_l
shrink = drawgen.shrink_l
