"""C15 — orientation operations compose like rectangle symmetries; angle parsing is total."""
import itertools
import vlib
from vlib import coq_orient, z

CASE_TYPE = "(ocase * oout)"
PER_SHARD = 150
RULE = ("exhaustive: 8 start orientations x every word of length <= 3 over {rotate 0/90/180/270, flip_horizontal, "
        "flip_vertical} (8 x 259 words; the group closes at length 2), plus random words up to length 12; angles: every multiple of "
        "90 within +-3600 and its +-1 neighbours, i32::MIN/MAX and neighbours, random i32 (quick 10k, thorough 10^5), and "
        "position-weighted checksums of try_from_degree over whole ranges (quick +-70000, thorough additionally 10^6-wide "
        "windows at both ends of i32); plus Displays (non-square panels, off-centre windows) whose current orientation is extended by random "
        "words through the public API and set at run time, with pixel streams along and beyond both logical edges before and after: "
        "decoded write history, confinement, reported state and controller address mode against the geometric specification; non-trivial = word length >= 2 / angle outside [0,270]")
TRUSTED = ["Oracle/Spec.v spec_apply_gen: expected orientation decided by geometry on a 2x3 panel (unique among the 8)"]
ASSUMPTIONS = []
OPS = ["ORot D0", "ORot D90", "ORot D180", "ORot D270", "OFlipH", "OFlipV"]


def wrap_impl(case, impl):
    k = case.tags[0]
    if k == "word":
        inner = impl.strip()
        if inner.startswith("(") and inner.endswith(")"):
            parts = [p.strip() for p in inner[1:-1].split(",")]
            if len(parts) == 4:
                return "OWordOut %s %s %s %s" % (parts[0], parts[1], parts[2], parts[3])
        return "BAD " + impl
    if k == "display":
        return "OProgOut " + impl
    if k == "angles":
        return "OAnglesOut " + impl
    return "OSumOut " + impl


def word_case(rng, r, m, word):
    line = "orient %d %d %d %s" % (r, int(m), len(word), " ".join(str(x) for x in word))
    coq = "OWord %s [%s]" % (coq_orient(r, m), "; ".join(OPS[x] for x in word))
    return vlib.Case(line.strip(), coq, rng.choice(["db", "rb"]), tags=["word", "len%d" % min(len(word), 4)], nontrivial=len(word) >= 2)


def gen(rng, tier, info):
    cases = []
    for r in range(4):
        for m in (0, 1):
            for n in range(0, 4):
                for word in itertools.product(range(6), repeat=n):
                    cases.append(word_case(rng, r, m, word))
    for _ in range(300 if tier == "quick" else 3000):
        n = rng.range(4, 12)
        cases.append(word_case(rng, rng.below(4), rng.below(2), [rng.below(6) for _ in range(n)]))
    # a Display whose orientation is extended by words at run time (Display::orientation() composed through the public
    # API, then set_orientation), drawn on before and after: non-square panels, windows that are not centred in the
    # framebuffer, pixel streams running along BOTH logical edges and beyond them
    from props import drawgen, c02
    models = [12, 11, 2, 0, 103, 104, 112, 107, 204, 212]
    for k in range(400 if tier == "quick" else 4000):
        pc, m, lw, lh, cmax = drawgen.config(rng, info, models=models, small=True)
        o = pc["opts"]
        if k % 3 == 0 and m["fw"] > 2 and m["fh"] > 2:      # decidedly off-centre window
            o["w"], o["h"] = max(1, m["fw"] // 2), max(1, (2 * m["fh"]) // 3)
            o["ox"], o["oy"] = rng.choice([0, m["fw"] - o["w"]]), rng.choice([0, m["fh"] - o["h"]])
        cur = (o["rot"], o["mir"])

        def edge_stream(cur):
            w, h = (o["w"], o["h"]) if cur[0] in (0, 2) else (o["h"], o["w"])
            ps = []
            for x in sorted(set([0, 1, w // 2, w - 2, w - 1, w, w + 1, h - 1, h, h + 1, max(w, h) - 1, max(w, h)])):
                if x >= 0:
                    ps.append((x, 0, drawgen.color(rng, cmax)))
                    ps.append((x, h - 1, drawgen.color(rng, cmax)))
                    ps.append((0, x, drawgen.color(rng, cmax)))
                    ps.append((w - 1, x, drawgen.color(rng, cmax)))
            return ("di", ps), w, h
        ops = []
        if rng.chance(1, 2):
            ops.append((-1, edge_stream(cur)[0]))
        nwords = rng.range(1, 3)
        for _ in range(nwords):
            w = [rng.below(6) for _ in range(rng.range(1, 4))]
            r2, m2 = cur
            for x in w:
                r2, m2 = vlib.compose_orient(r2, m2, x)
            ops.append((-1, ("sow", w, r2, m2)))
            cur = (r2, m2)
            op, llw, llh = edge_stream(cur)
            kind = rng.below(4)
            ops.append((-1, op if kind <= 1 else drawgen.op_inbounds(rng, llw, llh, cmax) if kind == 2 else c02.op_any(rng, llw, llh, cmax, True)))
        pc["ops"] = ops
        pc["tags"] = ["display", "words%d" % nwords, "offset-window" if (o["ox"], o["oy"]) != (m["fw"] - o["w"] - o["ox"], m["fh"] - o["h"] - o["oy"]) else "centred"]
        pc["nontrivial"] = True
        c = vlib.pcase(pc)
        c.coq = "OProg (%s)" % c.coq
        cases.append(c)
    # angles
    angles = []
    for k in range(-40, 41):
        angles += [90 * k - 1, 90 * k, 90 * k + 1]
    I32MIN, I32MAX = -2**31, 2**31 - 1
    angles += [I32MIN, I32MIN + 1, I32MIN + 2, I32MAX, I32MAX - 1, I32MAX - 37, 2147483610, -2147483610, 2147483520, -2147483520]
    for _ in range(10000 if tier == "quick" else 100000):
        mode = rng.below(4)
        if mode == 0:
            a = rng.range(I32MIN, I32MAX)
        elif mode == 1:
            a = 90 * rng.range(I32MIN // 90 + 1, I32MAX // 90)
        elif mode == 2:
            a = 90 * rng.range(I32MIN // 90 + 1, I32MAX // 90) + rng.choice([-1, 1, 45, 30])
        else:
            a = rng.range(-100000, 100000)
        angles.append(max(I32MIN, min(I32MAX, a)))
    for k in range(0, len(angles), 250):
        chunk = angles[k:k + 250]
        line = "angle " + " ".join(str(a) for a in chunk)
        coq = "OAngles [%s]" % ";".join(z(a) for a in chunk)
        cases.append(vlib.Case(line, coq, rng.choice(["db", "rb"]), tags=["angles"], nontrivial=True))
    ranges = [(-70000, 70000)]
    if tier == "thorough":
        ranges += [(I32MIN, I32MIN + 1000000), (I32MAX - 1000000, I32MAX), (-1000000, 1000000)]
    for lo, hi in ranges:
        step = 50000
        a = lo
        while a <= hi:
            bnd = min(hi, a + step - 1)
            cases.append(vlib.Case("anglesum %d %d" % (a, bnd), "OAngleSum %s %s" % (z(a), z(bnd)), "rb", tags=["anglesum"], nontrivial=True))
            a = bnd + 1
    return cases


def shrink(case):
    if case.tags and case.tags[0] == "display":
        from props import drawgen
        out = drawgen.shrink_prog(case)
        for c in out:
            c.coq = "OProg (%s)" % c.coq
            c.tags = list(case.tags)
        return out
    return []
