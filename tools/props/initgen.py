"""initgen.py — Builder::init configurations: every built-in model x interface kind x option set x reset pin."""
import itertools
import vlib
from props import drawgen

KIND_IFACES = {"Serial4Line": [0], "Parallel8Bit": [1], "Parallel16Bit": [2, 7]}


def all_flag_opts():
    out = []
    for bgr, rot, mir, inv, btt, rtl in itertools.product((0, 1), range(4), (0, 1), (0, 1), (0, 1), (0, 1)):
        out.append(dict(bgr=bool(bgr), rot=rot, mir=bool(mir), inv=bool(inv), btt=bool(btt), rtl=bool(rtl)))
    return out


def init_cases(rng, tier, info, per_model_opts=12, ext=True):
    """list of pcase dicts (no ops): all builtin models x 3 kinds x opts x rst"""
    mt = info["models"]
    flags = all_flag_opts()
    out = []
    ids = [i for i in sorted(mt.keys()) if i < 100]
    for mid in ids:
        m = mt[mid]
        for kind, ifaces in KIND_IFACES.items():
            for iface in ifaces:
                if iface == 2 and m["color"] != "Rgb565":
                    continue
                if tier == "thorough":
                    sel = flags
                else:
                    sel = [flags[0], flags[-1]] + [rng.choice(flags) for _ in range(per_model_opts - 2)]
                for f in sel:
                    for rst in (False, True):
                        w, h, ox, oy = drawgen.window(rng, m["fw"], m["fh"])
                        o = dict(f, w=w, h=h, ox=ox, oy=oy)
                        pc = dict(md=rng.choice(["d", "r"]), batch=rng.chance(1, 2), model=mid, iface=iface, ifparam=0, rst=rst,
                                  use_size=True, opts=o, ops=[],
                                  tags=["model:%s" % m["name"], kind, "supported" if kind in m["kinds"] else "unsupported",
                                        "rst" if rst else "norst"],
                                  nontrivial=not (f == flags[0]))
                        out.append(pc)
    if ext:
        for mid in [100, 103, 108, 112, 203, 212]:
            if mid not in mt:
                continue
            m = mt[mid]
            for iface in (0, 1, 7):
                for rst in (False, True):
                    f = rng.choice(flags)
                    w, h, ox, oy = drawgen.window(rng, m["fw"], m["fh"])
                    out.append(dict(md=rng.choice(["d", "r"]), batch=True, model=mid, iface=iface, ifparam=0, rst=rst, use_size=True,
                                    opts=dict(f, w=w, h=h, ox=ox, oy=oy), ops=[], tags=["model:ext", "rst" if rst else "norst"], nontrivial=True))
    return out
