"""C14 — address-mode byte is the exact MIPI encoding. Exhaustive correspondence."""
import itertools
import vlib
from vlib import b, coq_orient

CASE_TYPE = "(dcase * dout)"
PER_SHARD = 250
RULE = ("exhaustive: SetAddressMode::new and From<&ModelOptions> for all 2x8x4 inputs, and every chain of "
        "with_color_order/with_orientation/with_refresh_order of length <= 3 from default() (14+196+2744 chains; every "
        "reachable byte occurs as a start byte); fill_params_buf on 0xEE-prefilled buffers of length 1 and 16, write_command "
        "directly and through the &mut T forwarding impl; non-trivial = chain touches >= 2 distinct fields or a non-default input")
TRUSTED = ["Oracle/Spec.v spec_madctl: MIPI-DCS bit assignment B7..B2 written as arithmetic"]
ASSUMPTIONS = ["SetAddressMode values are only constructible through new/default/with_* (private field)"]


def setters():
    s = []
    for c in (0, 1):
        s.append(("c", c))
    for r in range(4):
        for m in (0, 1):
            s.append(("o", r, m))
    for v in (0, 1):
        for h in (0, 1):
            s.append(("r", v, h))
    return s


def coq_setter(s):
    if s[0] == "c":
        return "SColor %s" % b(s[1])
    if s[0] == "o":
        return "SOrient %s" % coq_orient(s[1], s[2])
    return "SRefresh %s %s" % (b(s[1]), b(s[2]))


def rust_setter(s):
    return " ".join(str(x) for x in s)


def gen(rng, tier, info):
    cases = []
    for kind, ctor in (("madnew", "DMadNew"), ("madopts", "DMadOpts")):
        for bgr in (0, 1):
            for r in range(4):
                for m in (0, 1):
                    for v in (0, 1):
                        for h in (0, 1):
                            buflen = 16 if (bgr + r + m + v + h) % 2 == 0 else 1
                            line = "dcs %d %s %d %d %d %d %d" % (buflen, kind, bgr, r, m, v, h)
                            coq = "(%d, %s %s %s %s %s)" % (buflen, ctor, b(bgr), coq_orient(r, m), b(v), b(h))
                            cases.append(vlib.Case(line, coq, rng.choice(["db", "rb"]), tags=[kind],
                                                   nontrivial=(bgr + r + m + v + h) > 0))
    S = setters()
    for n in (0, 1, 2, 3):
        for chain in itertools.product(S, repeat=n):
            buflen = 16
            line = "dcs %d madctl %d %s" % (buflen, n, " ".join(rust_setter(s) for s in chain))
            coq = "(%d, DMadChain [%s])" % (buflen, "; ".join(coq_setter(s) for s in chain))
            cases.append(vlib.Case(line.strip(), coq, "db" if (len(cases) % 2 == 0) else "rb", tags=["chain%d" % n],
                                   nontrivial=len(set(s[0] for s in chain)) >= 2))
    # a zero-length buffer must panic (index out of bounds), not write
    cases.append(vlib.Case("dcs 0 madnew 1 1 0 0 0", "(0, DMadNew true %s false false)" % coq_orient(1, 0), "db", tags=["short-buffer"]))
    return cases
