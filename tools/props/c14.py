"""C14 — address-mode byte is the exact MIPI encoding. Exhaustive correspondence."""
import itertools
import vlib
from vlib import b, coq_orient

CASE_TYPE = "(c14case * c14out)"
PER_SHARD = 250
RULE = ("exhaustive: SetAddressMode::new and From<&ModelOptions> for all 2x8x4 inputs, and every chain of "
        "with_color_order/with_orientation/with_refresh_order of length <= 3 from default() (14+196+2744 chains; every "
        "reachable byte occurs as a start byte); fill_params_buf on 0xEE-prefilled buffers of length 1 and 16, write_command "
        "directly and through the &mut T forwarding impl; plus Displays built with every (colour order, refresh order, orientation) "
        "and re-oriented at run time by set_orientation (absolute, and by words over rotate/flip; one call in eight fails at the bus): "
        "the address mode held by the reference controller after init and after every call is compared with the bit assignment; non-trivial = chain touches >= 2 distinct fields or a non-default input")
TRUSTED = ["Oracle/Spec.v spec_madctl: MIPI-DCS bit assignment B7..B2 written as arithmetic"]
ASSUMPTIONS = ["SetAddressMode values are only constructible through new/default/with_* (private field)"]


def setters():
    s = []
    for c in (0, 1):
        s.append(("c", c))
    for r in range(4):
        for m in (0, 1):
            s.append(("o", r, m))
    for v in (0, 1):
        for h in (0, 1):
            s.append(("r", v, h))
    return s


def coq_setter(s):
    if s[0] == "c":
        return "SColor %s" % b(s[1])
    if s[0] == "o":
        return "SOrient %s" % coq_orient(s[1], s[2])
    return "SRefresh %s %s" % (b(s[1]), b(s[2]))


def rust_setter(s):
    return " ".join(str(x) for x in s)


def gen(rng, tier, info):
    cases = []
    for kind, ctor in (("madnew", "DMadNew"), ("madopts", "DMadOpts")):
        for bgr in (0, 1):
            for r in range(4):
                for m in (0, 1):
                    for v in (0, 1):
                        for h in (0, 1):
                            buflen = 16 if (bgr + r + m + v + h) % 2 == 0 else 1
                            line = "dcs %d %s %d %d %d %d %d" % (buflen, kind, bgr, r, m, v, h)
                            coq = "(%d, %s %s %s %s %s)" % (buflen, ctor, b(bgr), coq_orient(r, m), b(v), b(h))
                            cases.append(vlib.Case(line, coq, rng.choice(["db", "rb"]), tags=[kind],
                                                   nontrivial=(bgr + r + m + v + h) > 0))
    S = setters()
    for n in (0, 1, 2, 3):
        for chain in itertools.product(S, repeat=n):
            buflen = 16
            line = "dcs %d madctl %d %s" % (buflen, n, " ".join(rust_setter(s) for s in chain))
            coq = "(%d, DMadChain [%s])" % (buflen, "; ".join(coq_setter(s) for s in chain))
            cases.append(vlib.Case(line.strip(), coq, "db" if (len(cases) % 2 == 0) else "rb", tags=["chain%d" % n],
                                   nontrivial=len(set(s[0] for s in chain)) >= 2))
    # a zero-length buffer must panic (index out of bounds), not write
    cases.append(vlib.Case("dcs 0 madnew 1 1 0 0 0", "(0, DMadNew true %s false false)" % coq_orient(1, 0), "db", tags=["short-buffer"]))
    for c in cases:
        c.coq = "C14D %s" % c.coq
    # the byte a Display sends: at init and after every runtime orientation change, for every (colour order, refresh order)
    # it was configured with — "changing one input on an existing value changes only that input's bits"
    from props import drawgen
    k = 0
    for bgr in (0, 1):
        for btt in (0, 1):
            for rtl in (0, 1):
                for a in range(8):
                    for reps in range(2 if tier == "quick" else 6):
                        pc, m, lw, lh, cmax = drawgen.config(rng, info, small=True)
                        o = pc["opts"]
                        o["bgr"], o["btt"], o["rtl"] = bool(bgr), bool(btt), bool(rtl)
                        o["rot"], o["mir"] = a % 4, bool(a // 4)
                        ops = []
                        cur = (o["rot"], o["mir"])
                        for _ in range(rng.range(1, 4)):
                            if rng.chance(1, 2):
                                nr, nm = rng.below(4), bool(rng.below(2))
                                ops.append((0 if rng.chance(1, 8) else -1, ("so", nr, int(nm))))
                                if ops[-1][0] < 0:
                                    cur = (nr, nm)
                            else:
                                w = [rng.below(6) for _ in range(rng.range(1, 3))]
                                r2, m2 = cur
                                for x in w:
                                    r2, m2 = vlib.compose_orient(r2, m2, x)
                                ops.append((-1, ("sow", w, r2, m2)))
                                cur = (r2, m2)
                        pc["ops"] = ops
                        pc["tags"] = ["display", "bgr%d-btt%d-rtl%d" % (bgr, btt, rtl)]
                        pc["nontrivial"] = bool(btt or rtl or bgr)
                        c = vlib.pcase(pc)
                        c.coq = "C14P (%s)" % c.coq
                        cases.append(c)
    return cases


def wrap_impl(case, impl):
    return ("C14PO " if case.line.startswith("prog") else "C14DO ") + impl


def shrink(case):
    from props import drawgen
    out = drawgen.shrink_prog(case)
    for c in out:
        c.coq = "C14P (%s)" % c.coq
        c.tags = list(case.tags)
    return out
