#!/usr/bin/env python3
"""Regenerates MANIFEST.json from the table below (one entry per claimed property)."""
import json
import os

ROOT = os.path.dirname(os.path.dirname(os.path.abspath(__file__)))
ALL = ["C%02d" % i for i in range(1, 21)]
BASE_NOTE = ("Trusted: Coq 8.16.1 kernel incl. its VM (vm_compute; no native_compute); no axioms (Print Assumptions closed, checked "
             "every run); tools/rs2v.py (fail-closed translator), tools/check.py+vlib.py, the Rust harness and its mocks; ")
CLAIMED = {
    "C01": dict(
        text="Coq theorems: for every configuration Builder::init accepts, all 8 orientations, both build profiles, batch on/off, and EVERY finite "
             "program of drawing calls (set_pixel(s) in bounds; draw_iter / fill_contiguous / fill_solid / clear with arbitrary arguments) interleaved "
             "with set_orientation, the write history the reference MIPI-DCS controller decodes from the driver's traffic equals — as an ordered "
             "list — the specification 'rotate clockwise, mirror, shift' of each drawn pixel (induction over programs; central geometric lemma "
             "by lia per orientation; last-write-wins and 'no other cell changes' are corollaries); C01T: the pin-level decoder inverts the SPI and "
             "8/16-bit parallel transports on every driver trace, so the memory decoded from the PINS is the specified picture (all transports); "
             "C01E: the same from power-on through Builder::init of every generated built-in model x supported kind x option set. Correspondence: random programs on built-in and external models 1x1..65535x65535, traces decoded by the same controller.",
        note="hand-written model of Display / DrawTarget (src/lib.rs, src/graphics.rs, src/batch.rs); Oracle/Controller.v and Oracle/DrawSpec.v are the specification.",
        tech="machine-checked proof in Coq (induction over programs, lia per orientation) + differential correspondence", ref="DESIGN.md §5 C01"),
    "C02": dict(
        text="Coq theorems: DrawTarget calls with arbitrary i32 coordinates / any valid rectangle never panic or error in either build profile, every "
             "written cell lies inside the configured panel window, the controller flags no window outside the framebuffer, out-of-bounds pixels are "
             "discarded (the call equals the call on the filtered input), invisible rectangles emit nothing (intersection characterised as interval "
             "clipping for all valid rectangles). Correspondence: coordinate pool incl. i32 extremes, rectangles straddling every edge, debug + release, batch on/off.",
        note="model after the fix: commit for F4 (draw_iter filters by bounding box); embedded-graphics Rectangle modelled from its source (Model/Rect.v).",
        tech="machine-checked proof in Coq + differential correspondence", ref="DESIGN.md §5 C02"),
    "C03": dict(
        text="Coq theorems: RowIterator / BlockIterator modelled branch by branch; for any in-range pixel list the emitted blocks flatten back to the "
             "input stream (nothing dropped incl. the trailing partial batch, duplicated, recoloured or reordered), every block is a well-formed "
             "rectangle within capacity, no expect() can fire, Debug = Release; hence the controller's write history after batched draw_iter equals "
             "that of set_pixel one by one, in order (induction over streams with two nested accumulators). Correspondence: stream shapes aimed at the flush points.",
        note="hand-written model of src/batch.rs (Model/Batch.v), capacities regenerated from the source (Gen/Consts.v); heapless::Vec push/extend semantics modelled.",
        tech="machine-checked proof in Coq (induction with accumulator invariants) + differential correspondence", ref="DESIGN.md §5 C03"),
    "C04": dict(
        text="Coq theorems: for every valid rectangle with < 2^32 points, any display size, any colour-stream length: no u32 overflow in the skip "
             "arithmetic, the colours handed to the controller are exactly those of the visible points row by row (take/skip iterator = row slices of "
             "the stream), colour k stays on point k, surplus ignored, short streams just end; decoded placement = specification. The 16-bit-pointer "
             "helper variants are exercised by the correspondence (source-extracted). Correspondence: rectangles in all edge/corner positions, index-encoding colour streams.",
        note="hand-written model of fill_contiguous / TakeSkip (src/graphics.rs); iterator laziness abstracted to lists (bus-trace equivalent).",
        tech="machine-checked proof in Coq (list induction, nia) + differential correspondence", ref="DESIGN.md §5 C04"),
    "C08": dict(
        text="Coq theorems: every drawing call of every well-formed program emits only (CASET RASET RAMWR PIX)* groups, each burst carries at most "
             "(fills: exactly) as many pixels as its window holds, windows are well-formed and inside the framebuffer under the current MV, so the "
             "reference controller flags no anomaly (no pointer wrap); one window per fill. Correspondence: the union of the C01-C04 streams re-judged by the framing recogniser.",
        note="framing grammar and controller anomalies in Oracle/DrawSpec.v / Oracle/Controller.v.",
        tech="machine-checked proof in Coq + differential correspondence", ref="DESIGN.md §5 C08"),
    "C05": dict(
        text="Coq theorems quantified over the colour components (lia with div/mod equations): Rgb565 -> two bytes most-significant first / one "
             "16-bit word, Rgb666 -> three left-aligned bytes, each decoding back to the drawn colour; every raw value is such a composition; "
             "additional exhaustive kernel sweeps of all 65,536 / 262,144 raw values against shift-and-mask checkers; COLMOD byte of the colour type "
             "= the byte the generated init programs announce; a solid fill puts the same bytes on the SPI wire as the per-pixel stream. "
             "Correspondence: boundary + random values word by word, whole-range checksums, COLMOD from real init traces.",
        note="hand-written model of src/interface.rs conversions (Model/Color.v); raw <-> (r,g,b) storage order of embedded-graphics is exercised, not proved.",
        tech="machine-checked proof in Coq (lia over div/mod, finite kernel sweeps) + differential correspondence", ref="DESIGN.md §5 C05"),
    "C06": dict(
        text="Coq theorems about an explicit-buffer model of SpiInterface, for every buffer length >= one pixel, every stale content, every "
             "pixel count and u32 repeat count incl. 0: the concatenated writes are exactly the bytes to send, termination (fuel never exhausted), "
             "write sizes and exact transaction counts, DC low exactly for instruction bytes over any L1 trace (induction). Correspondence on the "
             "real SpiInterface with recording SPI device / DC pin and an operation budget; the wire oracle runs on the implementation's log.",
        note="hand-written model of src/interface/spi.rs (Model/Spi.v); bus timing / CS not modelled; buffers of >= 2^32 pixels excluded (as u32 truncation, proved to diverge).",
        tech="machine-checked proof in Coq (induction on fuel / traces, nia) + differential correspondence", ref="DESIGN.md §5 C06"),
    "C07": dict(
        text="Coq theorems: the bus cache invariant (last = Some v -> pins show v) is preserved by set_value over ANY history with ANY single-pin "
             "failure and either physical effect (induction over histories); every word sent by send_command / send_pixels / send_repeated_pixel "
             "(incl. cache hits and the strobe-only fast path) is what the Coq sampler reads at the WR rising edge, DC low exactly at the "
             "instruction, for every L1 trace on 8- and 16-bit buses; exact strobe counts. Correspondence on the real ParallelInterface and "
             "Generic{8,16}BitBus with recording / failing pins.",
        note="hand-written model of src/interface/parallel.rs (Model/Parallel.v); set-up/hold timing not modelled.",
        tech="machine-checked proof in Coq (bit-level lemmas, induction over histories and traces) + differential correspondence with fault injection", ref="DESIGN.md §5 C07"),
    "C10": dict(
        text="Coq theorems: for every finite sequence of orientations on a display built with any options, every call returns Ok and sends the "
             "encoding of the same options with only the orientation replaced (colour/refresh bits preserved: 512-case kernel check), and the "
             "resulting driver state IS the state of a display freshly built with the last orientation (induction), so every later program "
             "produces identical traffic; the controller's MADCTL equals the cached one. Correspondence: all 8x8 transitions, random sequences, "
             "twin displays, decoded pictures.",
        note="hand-written model of Display::set_orientation (src/lib.rs) after the fix: commit for F1.",
        tech="machine-checked proof in Coq (induction over orientation sequences) + differential correspondence", ref="DESIGN.md §5 C10"),
    "C11": dict(
        text="Coq theorems over the init programs REGENERATED from src/models/*.rs on every run: for every model x interface kind x 128 option "
             "sets x reset pin (finite kernel computation lifted to all option records) the reference controller ends awake, on, MADCTL = encoding "
             "of the options = the value returned to Display, COLMOD of the colour type, inversion as chosen, no pixel data, >= 120 ms after the "
             "last sleep-out; unsupported kinds are refused before any model command; the baseline support matrix stays supported. Correspondence: "
             "real Builder::init traces equal the generated programs' denotation and pass the same checker.",
        note="tools/rs2v.py translates the init bodies (fail-closed); Oracle/Controller.v + Oracle/InitSpec.v are the specification; virtual time.",
        tech="machine-checked proof in Coq over a translator-regenerated model (vm_compute + forallb_forall) + differential correspondence", ref="DESIGN.md §5 C11"),
    "C12": dict(
        text="Coq theorems: the fault model (Model/Fault.v: a faulted call is the fault-free operation sequence of the proved transport models cut "
             "after the k-th fallible pin / bus operation) is tied to the transports by an annotation-soundness theorem; for every call and every k the "
             "log ends with the failing operation, the error variant names its source, the driver state (orientation, size, cached MADCTL, sleep flag) "
             "is unchanged, never a panic; after a fault on the parallel bus the cache invariant of C07 still holds for BOTH physical effects of the "
             "failed write, so every later trace is latched correctly; SPI needs no recovery (C06 holds for any buffer content); a following clear(c) "
             "leaves c on the whole panel window (all 8 orientations); generated init programs drop no error. Correspondence = fault enumeration on "
             "real Display objects over the real transports: every init position (thorough) / sampled (quick), faulted calls followed by a clear "
             "whose pin-level log is decoded by the reference controller.",
        note="the electrical effect of a half-finished transfer is outside any executable model (labelled partial): the failing operation is taken as not received; "
             "hand-written composition of driver and transport models (Model/Fault.v, Corr/L2.v).",
        tech="machine-checked proof in Coq + fault enumeration by differential correspondence on the real transports", ref="DESIGN.md §5 C12"),
    "C19": dict(
        text="Coq theorems about a model of TestImage::draw against an abstract clipping target whose constants and glyph bitmaps are REGENERATED from "
             "src/test_image.rs on every run: for all 0 <= W,H < 2^31 no arithmetic site panics and every rectangle is valid; for all W,H >= 32 every pixel "
             "is painted, the outer ring is white and the next ring black, the bar area is red | green | blue in that order with white/black only "
             "inside the glyph boxes and the marker, and seven explicit witness cells separate the picture from each of its rotated / mirrored images "
             "(lia over the rectangle arithmetic, not a sweep); C19D: drawn through a Display in any valid configuration and orientation, every logical pixel's colour "
             "lands in the framebuffer cell the orientation prescribes and nothing outside the panel window is touched (composition with C01), so the "
             "diagnostic properties hold on the physical panel. Correspondence: the real draw on a draw_iter-only clipping target for all sizes 0..48 "
             "(thorough 0..96), probes up to 65535 x 33, three colour types, and through a real Display read back from the reference controller.",
        note="embedded-graphics Rectangle / Size arithmetic modelled from its source incl. debug_assert sites; colour constants' distinctness is exercised, not proved.",
        tech="machine-checked proof in Coq (lia over saturating rectangle arithmetic) over translator-regenerated constants + differential correspondence", ref="DESIGN.md §5 C19"),
    "C20": dict(
        text="Coq theorems: fill_solid / fill_contiguous / clear emit exactly one window set-up when something is visible and none otherwise; with batching "
             "the number of window set-ups of draw_iter equals the number of blocks <= rows = the greedy decomposition of the in-bounds stream into "
             "maximal left-to-right runs each cut at the row capacity (exact equality for the row stage, by induction), <= one per in-bounds pixel; "
             "the generated capacity is >= 2; SPI bursts use exactly pixels/cap + 1 <= bytes/usable + 1 transactions. Correspondence: the capacity is "
             "MEASURED on a calibration run of the real driver, RAMWR counts compared with the run decomposition computed in Coq; SPI transaction counts.",
        note="overhead counted in window set-ups and transactions, not time.",
        tech="machine-checked proof in Coq (induction over streams) + differential correspondence with measured capacity", ref="DESIGN.md §5 C20"),
    "C13": dict(
        text="Coq theorems: over every finite history of Display operations (sleep, wake, all drawing calls with arbitrary arguments, "
             "set_orientation, scroll, tearing) is_sleeping equals the reference controller's sleep state and the last sleep/wake call "
             "(induction over histories); sleep/wake emit the command followed by 120 ms inside the call; no other operation can emit a "
             "sleep/reset/page command; the controller never sees two sleep commands < 120 ms apart; init of every generated model establishes "
             "the invariant. Correspondence: random histories on real displays with a virtual clock.",
        note="hand-written model of Display::sleep / wake (src/lib.rs); virtual, not wall-clock, time.",
        tech="machine-checked proof in Coq (invariant by induction over histories) + differential correspondence", ref="DESIGN.md §5 C13"),
    "C16": dict(
        text="Coq theorems for all (top, bottom) in u16 x u16, every framebuffer height 1..65535, both build profiles, any driver state: exactly "
             "one command 0x33 whose three big-endian areas sum to the framebuffer height, top/bottom unchanged when they fit, all-fixed "
             "fallback otherwise, no panic / wrap (lia); scroll offset passed through big-endian; the reference controller decodes these values. "
             "Correspondence: boundary grid + random pairs, debug and release, at the Interface boundary and below the real SPI (2..7-byte buffers) / "
             "parallel transports with the parameters decoded from the pin log.",
        note="hand-written model of Display::set_vertical_scroll_region / _offset (src/lib.rs) after the fix: commit for F3.",
        tech="machine-checked proof in Coq (lia over Z) + differential correspondence", ref="DESIGN.md §5 C16"),
    "C17": dict(
        text="Coq theorems over the regenerated init programs: with a reset pin the trace is low, >= 10 us, high, then only bus traffic (no further "
             "pin edge, no software reset); without, software reset is the first bus event, exactly once; refusal sends nothing but the reset. "
             "Correspondence: real init runs with reset pin, delay source and bus on one timeline, plus post-init programs, pin-level runs over the "
             "real transports, and an init retried over the same transport object after a faulted first attempt.",
        note="Builder::init reset prefix hand-modelled (src/builder.rs:177-189), model programs translated; virtual time for the 10 us pulse.",
        tech="machine-checked proof in Coq over a translator-regenerated model + differential correspondence", ref="DESIGN.md §5 C17"),
    "C09": dict(
        text="Coq theorems C09_iff / C09_taxonomy / C09_no_panic / C09_no_side_effect over all u16 sizes, offsets and framebuffer sizes in both "
             "build profiles (lia), tied to the code by differential execution of Builder::init (model run by vm_compute) and by running the "
             "specification oracle on the implementation's own results.",
        note="hand-written model of Builder::init's validation prefix (src/builder.rs:154-175).",
        tech="machine-checked proof in Coq (lia over Z) + differential correspondence model/implementation", ref="DESIGN.md §5 C09"),
    "C14": dict(
        text="Coq theorems: bit-for-bit MIPI encoding for all 2x8x4 inputs; each setter touches only its field on every one of the 256 bytes "
             "(finite sweep by kernel computation lifted with forallb_forall); for setter sequences of ANY length the last value per field wins and "
             "the result is order-independent (induction). Correspondence is exhaustive over the API-reachable space (all chains <= 3).",
        note="hand-written model of src/dcs/set_address_mode.rs and MemoryMapping::from_orientation; spec_madctl is the reading of MIPI-DCS.",
        tech="machine-checked proof in Coq (finite kernel computation + induction) + exhaustive differential correspondence", ref="DESIGN.md §5 C14"),
    "C15": dict(
        text="Coq theorems: rotating / flipping an orientation shows the pre-rotated / pre-mirrored picture (geometric identities over all sizes, "
             "offsets, points, by lia per orientation); closure of words of any length (induction), group laws; try_from_degree characterised for "
             "EVERY integer angle (so all 2^32 i32 values) with no overflow. Correspondence: exhaustive words <= 3, random long words, boundary + "
             "random angles, range checksums; oracle decides the expected orientation by geometry alone; plus Displays whose orientation is extended "
             "by words at run time, picture decoded from the bus against spec_cell.",
        note="hand-written model of src/options/orientation.rs; spec_cell (rotate cw, mirror, shift) is the specification of 'shows'.",
        tech="machine-checked proof in Coq (lia, case analysis, induction over words) + differential correspondence", ref="DESIGN.md §5 C15"),
    "C18": dict(
        text="Coq theorems: every command type's opcode equals the committed MIPI-DCS table and the table the translator reads from the current "
             "source; fill_params_buf writes exactly the parameter bytes at the front of any sufficiently long buffer and nothing beyond (list "
             "induction), panics on a short one; 16-bit parameters are big-endian and decode back for all u16; write_command / write_raw emit "
             "exactly opcode + bytes. Correspondence over all enum variants, boundary + random u16 arguments, raw slices up to 20 bytes.",
        note="hand-written model of src/dcs.rs and src/dcs/*.rs; opcode table regenerated from source each run (Gen/Consts.v).",
        tech="machine-checked proof in Coq (list induction, lia) + translator-regenerated opcode table + differential correspondence", ref="DESIGN.md §5 C18"),
}


def main():
    extra = os.path.join(ROOT, "tools", "manifest_extra.json")
    claimed = dict(CLAIMED)
    if os.path.exists(extra):
        claimed.update(json.load(open(extra)))
    checks = []
    for pid in ALL:
        if pid not in claimed:
            continue
        c = claimed[pid]
        checks.append({
            "property_id": pid,
            "quick_cmd": "./check %s --tier quick" % pid,
            "thorough_cmd": "./check %s --tier thorough" % pid,
            "evidence_file": "/verif/evidence/%s.json" % pid,
            "replay_cmd_template": "./check %s --replay {path}" % pid,
            "engine": "coq-model",
            "level_claimed": {"category": "proof", "text": c["text"], "design_ref": c["ref"]},
            "level_note": BASE_NOTE + c["note"],
            "technique": c["tech"],
        })
    m = {
        "version": 1,
        "setup_cmd": "./setup.sh",
        "hooks": {"guard": "mipidsi_verif",
                  "enable": "RUSTFLAGS='--cfg mipidsi_verif' (reserved; no hook is needed: everything modelled is observable through public API)",
                  "baseline_off_cmd": "cd /repo && cargo test --workspace --no-fail-fast --offline",
                  "source_commits": [], "add_only": True},
        "engines": [{"name": "coq-model", "path": "/verif/coq", "serves_properties": sorted(claimed.keys()),
                     "kind_free_text": "Coq 8.16.1 development (model, oracle, proofs) + Python orchestrator + Rust correspondence harness"}],
        "checks": checks,
        "notes": "See DESIGN.md. Each check: translator -> make Props/Cxx.vo -> Print Assumptions -> harness on the current tree -> Coq-evaluated correspondence + oracle.",
        "not_applicable": [{"property_id": p, "reason": "not yet claimed: model/theorems under construction (DESIGN.md §10 build order); the technique applies"}
                           for p in ALL if p not in claimed],
    }
    with open(os.path.join(ROOT, "MANIFEST.json"), "w") as f:
        json.dump(m, f, indent=1)
        f.write("\n")


if __name__ == "__main__":
    main()
