#!/usr/bin/env python3
"""Regenerates MANIFEST.json from the table below (one entry per claimed property)."""
import json
import os

ROOT = os.path.dirname(os.path.dirname(os.path.abspath(__file__)))
ALL = ["C%02d" % i for i in range(1, 21)]
BASE_NOTE = ("Trusted: Coq 8.16.1 kernel incl. its VM (vm_compute; no native_compute); no axioms (Print Assumptions closed, checked "
             "every run); tools/rs2v.py (fail-closed translator), tools/check.py+vlib.py, the Rust harness and its mocks; ")
CLAIMED = {
    "C09": dict(
        text="Coq theorems C09_iff / C09_taxonomy / C09_no_panic / C09_no_side_effect over all u16 sizes, offsets and framebuffer sizes in both "
             "build profiles (lia), tied to the code by differential execution of Builder::init (model run by vm_compute) and by running the "
             "specification oracle on the implementation's own results.",
        note="hand-written model of Builder::init's validation prefix (src/builder.rs:154-175).",
        tech="machine-checked proof in Coq (lia over Z) + differential correspondence model/implementation", ref="DESIGN.md §5 C09"),
    "C14": dict(
        text="Coq theorems: bit-for-bit MIPI encoding for all 2x8x4 inputs; each setter touches only its field on every one of the 256 bytes "
             "(finite sweep by kernel computation lifted with forallb_forall); for setter sequences of ANY length the last value per field wins and "
             "the result is order-independent (induction). Correspondence is exhaustive over the API-reachable space (all chains <= 3).",
        note="hand-written model of src/dcs/set_address_mode.rs and MemoryMapping::from_orientation; spec_madctl is the reading of MIPI-DCS.",
        tech="machine-checked proof in Coq (finite kernel computation + induction) + exhaustive differential correspondence", ref="DESIGN.md §5 C14"),
    "C15": dict(
        text="Coq theorems: rotating / flipping an orientation shows the pre-rotated / pre-mirrored picture (geometric identities over all sizes, "
             "offsets, points, by lia per orientation); closure of words of any length (induction), group laws; try_from_degree characterised for "
             "EVERY integer angle (so all 2^32 i32 values) with no overflow. Correspondence: exhaustive words <= 3, random long words, boundary + "
             "random angles, range checksums; oracle decides the expected orientation by geometry alone.",
        note="hand-written model of src/options/orientation.rs; spec_cell (rotate cw, mirror, shift) is the specification of 'shows'.",
        tech="machine-checked proof in Coq (lia, case analysis, induction over words) + differential correspondence", ref="DESIGN.md §5 C15"),
    "C18": dict(
        text="Coq theorems: every command type's opcode equals the committed MIPI-DCS table and the table the translator reads from the current "
             "source; fill_params_buf writes exactly the parameter bytes at the front of any sufficiently long buffer and nothing beyond (list "
             "induction), panics on a short one; 16-bit parameters are big-endian and decode back for all u16; write_command / write_raw emit "
             "exactly opcode + bytes. Correspondence over all enum variants, boundary + random u16 arguments, raw slices up to 20 bytes.",
        note="hand-written model of src/dcs.rs and src/dcs/*.rs; opcode table regenerated from source each run (Gen/Consts.v).",
        tech="machine-checked proof in Coq (list induction, lia) + translator-regenerated opcode table + differential correspondence", ref="DESIGN.md §5 C18"),
}


def main():
    extra = os.path.join(ROOT, "tools", "manifest_extra.json")
    claimed = dict(CLAIMED)
    if os.path.exists(extra):
        claimed.update(json.load(open(extra)))
    checks = []
    for pid in ALL:
        if pid not in claimed:
            continue
        c = claimed[pid]
        checks.append({
            "property_id": pid,
            "quick_cmd": "./check %s --tier quick" % pid,
            "thorough_cmd": "./check %s --tier thorough" % pid,
            "evidence_file": "/verif/evidence/%s.json" % pid,
            "replay_cmd_template": "./check %s --replay {path}" % pid,
            "engine": "coq-model",
            "level_claimed": {"category": "proof", "text": c["text"], "design_ref": c["ref"]},
            "level_note": BASE_NOTE + c["note"],
            "technique": c["tech"],
        })
    m = {
        "version": 1,
        "setup_cmd": "./setup.sh",
        "hooks": {"guard": "mipidsi_verif",
                  "enable": "RUSTFLAGS='--cfg mipidsi_verif' (reserved; no hook is needed: everything modelled is observable through public API)",
                  "baseline_off_cmd": "cd /repo && cargo test --workspace --no-fail-fast --offline",
                  "source_commits": [], "add_only": True},
        "engines": [{"name": "coq-model", "path": "/verif/coq", "serves_properties": sorted(claimed.keys()),
                     "kind_free_text": "Coq 8.16.1 development (model, oracle, proofs) + Python orchestrator + Rust correspondence harness"}],
        "checks": checks,
        "notes": "See DESIGN.md. Each check: translator -> make Props/Cxx.vo -> Print Assumptions -> harness on the current tree -> Coq-evaluated correspondence + oracle.",
        "not_applicable": [{"property_id": p, "reason": "not yet claimed: model/theorems under construction (DESIGN.md §10 build order); the technique applies"}
                           for p in ALL if p not in claimed],
    }
    with open(os.path.join(ROOT, "MANIFEST.json"), "w") as f:
        json.dump(m, f, indent=1)
        f.write("\n")


if __name__ == "__main__":
    main()
