#!/usr/bin/env python3
"""mutants.py — run the registered checks against the seeded changes kept under /verif/seeded/.

  tools/mutants.py list
  tools/mutants.py run <seeded-id> [--checks C01,C08 | --all] [--tier quick]
  tools/mutants.py confirm <seeded-id>        (demo fails with the patch, passes without; suite stays green)
  tools/mutants.py table                      (markdown table from seeded/*/result.json)

`run` applies seeded/<id>/patch.diff to /repo (git apply), runs the checks, and ALWAYS restores /repo
(git checkout -- . ; removal of untracked files the patch created) before returning."""
import json
import os
import re
import subprocess
import sys
import time

ROOT = os.path.dirname(os.path.dirname(os.path.abspath(__file__)))
SEEDED = os.path.join(ROOT, os.environ.get("MUT_DIR", "seeded"))     # MUT_DIR=refactors for the behaviour-preserving rewrites
REPO = "/repo"
ALL = ["C%02d" % i for i in range(1, 21)]


def sh(cmd, cwd=None, timeout=3600, env=None):
    e = dict(os.environ)
    e["CARGO_NET_OFFLINE"] = "true"
    if env:
        e.update(env)
    p = subprocess.run(cmd, cwd=cwd, shell=isinstance(cmd, str), capture_output=True, text=True, timeout=timeout, env=e)
    return p.returncode, p.stdout + p.stderr


def repo_clean():
    rc, out = sh("git status --porcelain", cwd=REPO)
    return out.strip() == ""


def restore():
    sh("git checkout -- .", cwd=REPO)
    sh("git clean -fdq -- src tests", cwd=REPO)


def claimed():
    m = json.load(open(os.path.join(ROOT, "MANIFEST.json")))
    return [c["property_id"] for c in m["checks"]]


def run(mid, checks, tier):
    d = os.path.join(SEEDED, mid)
    meta = json.load(open(os.path.join(d, "meta.json")))
    if not repo_clean():
        print("refusing: /repo has local changes")
        return 2
    res = {}
    rc, out = sh(["git", "apply", os.path.join(d, "patch.diff")], cwd=REPO)
    if rc != 0:
        print("patch does not apply:", out)
        return 2
    try:
        for c in checks:
            t0 = time.time()
            rc, out = sh(["./check", c, "--tier", tier], cwd=ROOT, timeout=5400)
            viol = [l for l in out.split("\n") if l.startswith("VIOLATION")]
            replay = None
            detail = ""
            if viol:
                m = re.search(r"replay=(\S+)", viol[0])
                if m and os.path.exists(m.group(1)):
                    rp = json.load(open(m.group(1)))
                    replay = os.path.join(d, "replay-%s.json" % c)
                    json.dump(rp, open(replay, "w"), indent=1)
                    if "case" in rp:
                        detail = rp["case"].get("harness_line", "")[:300]
                    elif "broken" in rp:
                        detail = "; ".join(b["kind"] for b in rp["broken"])
            res[c] = dict(exit=rc, violation=viol[0] if viol else None, no_failing_input=bool(viol and "no-failing-input-found" in viol[0]),
                          replay=replay, detail=detail, seconds=round(time.time() - t0, 1))
            print("  %s on %s: exit %d %s (%.0fs)" % (c, mid, rc, (viol[0][:120] if viol else ""), time.time() - t0), flush=True)
    finally:
        restore()
    assert repo_clean(), "/repo not restored"
    path = os.path.join(d, "result.json")
    old = json.load(open(path)) if os.path.exists(path) else {}
    old.update(res)
    json.dump(old, open(path, "w"), indent=1)
    target = meta.get("property")
    caught = [c for c, r in old.items() if r["exit"] != 0]
    print("%s (breaks %s): caught by %s" % (mid, target, ", ".join(caught) or "NOTHING"))
    return 0


def prun(ids, jobs, tier, all_checks=False, only=None):
    """the same as `run` for many seeded changes at once: worker k owns the scratch worktree /tmp/pm_<k> of /repo's HEAD
    and runs the checks against it (VERIF_REPO), so /repo itself is never touched; worktrees and private build
    directories are removed at the end"""
    import threading
    import queue
    import shutil
    q = queue.Queue()
    for mid in ids:
        q.put(mid)
    lock = threading.Lock()

    def worker(k):
        wt = "/tmp/pm_%d" % k
        sh(["git", "worktree", "remove", "--force", wt], cwd=REPO)
        rc, out = sh(["git", "worktree", "add", "-q", "--detach", wt, "HEAD"], cwd=REPO)
        if rc != 0:
            print(out)
            return
        import hashlib
        alt = os.path.join(ROOT, ".build", "alt-" + hashlib.sha1(wt.encode()).hexdigest()[:10])
        shutil.rmtree(alt, ignore_errors=True)
        os.makedirs(alt)
        # warm start: third-party crates and the compiled Coq tree of the clean run
        for tdir in ("target-b", "target-n"):
            if os.path.isdir(os.path.join(ROOT, ".build", tdir)):
                sh(["cp", "-a", os.path.join(ROOT, ".build", tdir), os.path.join(alt, tdir)])
        sh(["cp", "-a", os.path.join(ROOT, "coq"), os.path.join(alt, "coq")])
        try:
            while True:
                try:
                    mid = q.get_nowait()
                except queue.Empty:
                    break
                d = os.path.join(SEEDED, mid)
                meta = json.load(open(os.path.join(d, "meta.json")))
                checks = only if only else claimed() if all_checks else [meta["property"]]
                rc, out = sh(["git", "apply", os.path.join(d, "patch.diff")], cwd=wt)
                if rc != 0:
                    print("patch does not apply:", mid, out)
                    continue
                res = {}
                try:
                    for c in checks:
                        t0 = time.time()
                        rc, out = sh(["./check", c, "--tier", tier], cwd=ROOT, timeout=7200, env={"VERIF_REPO": wt})
                        viol = [l for l in out.split("\n") if l.startswith("VIOLATION")]
                        replay = None
                        detail = ""
                        if viol:
                            m = re.search(r"replay=(\S+)", viol[0])
                            if m and os.path.exists(m.group(1)):
                                rp = json.load(open(m.group(1)))
                                replay = os.path.join(d, "replay-%s.json" % c)
                                json.dump(rp, open(replay, "w"), indent=1)
                                if "case" in rp:
                                    detail = rp["case"].get("harness_line", "")[:300]
                                elif "broken" in rp:
                                    detail = "; ".join(b["kind"] for b in rp["broken"])
                        res[c] = dict(exit=rc, violation=viol[0] if viol else None, no_failing_input=bool(viol and "no-failing-input-found" in viol[0]),
                                      replay=replay, detail=detail, seconds=round(time.time() - t0, 1))
                        with lock:
                            print("  %s on %s: exit %d %s (%.0fs)" % (c, mid, rc, (viol[0][:120] if viol else ""), time.time() - t0), flush=True)
                finally:
                    sh("git checkout -- . && git clean -fdq -- src tests", cwd=wt)
                path = os.path.join(d, "result.json")
                old = json.load(open(path)) if os.path.exists(path) else {}
                old.update(res)
                json.dump(old, open(path, "w"), indent=1)
                with lock:
                    print("%s (breaks %s): reported by %s" % (mid, meta.get("property"), ", ".join(c for c, r in old.items() if r["exit"] != 0) or "NOTHING"), flush=True)
        finally:
            sh(["git", "worktree", "remove", "--force", wt], cwd=REPO)
            shutil.rmtree(alt, ignore_errors=True)

    ts = [threading.Thread(target=worker, args=(k,)) for k in range(jobs)]
    for t in ts:
        t.start()
    for t in ts:
        t.join()
    return 0


def confirm(mid):
    """demo fails with the patch and passes without it; the existing suite passes with it (in a scratch worktree)"""
    d = os.path.join(SEEDED, mid)
    wt = "/tmp/confirm_" + mid
    sh(["git", "worktree", "remove", "--force", wt], cwd=REPO)
    rc, out = sh(["git", "worktree", "add", "-q", wt, "HEAD"], cwd=REPO)
    if rc != 0:
        print(out)
        return 2
    try:
        os.makedirs(os.path.join(wt, "tests"), exist_ok=True)
        demo = os.path.join(wt, "tests", "demo_%s.rs" % mid.replace("-", "_"))
        open(demo, "w").write(open(os.path.join(d, "demo.rs")).read())
        name = os.path.basename(demo)[:-3]
        env = {"CARGO_TARGET_DIR": "/tmp/confirm_target_" + mid}
        rc0, out0 = sh(["cargo", "test", "--offline", "--test", name], cwd=wt, env=env)
        rc, out = sh(["git", "apply", os.path.join(d, "patch.diff")], cwd=wt)
        if rc != 0:
            print("patch does not apply", out)
            return 2
        rc1, out1 = sh(["cargo", "test", "--offline", "--test", name], cwd=wt, env=env)
        os.remove(demo)
        rc2, out2 = sh(["cargo", "test", "--workspace", "--offline"], cwd=wt, env=env)
        rc3, out3 = sh(["cargo", "build", "--offline", "--no-default-features"], cwd=wt, env=env)
        ok = rc0 == 0 and rc1 != 0 and rc2 == 0 and rc3 == 0
        conf = dict(demo_passes_without=rc0 == 0, demo_fails_with=rc1 != 0, suite_passes_with=rc2 == 0, builds_no_default_features=rc3 == 0)
        meta = json.load(open(os.path.join(d, "meta.json")))
        meta["confirmed_by_me"] = conf
        json.dump(meta, open(os.path.join(d, "meta.json"), "w"), indent=1)
        print(mid, "CONFIRMED" if ok else "NOT CONFIRMED", conf)
        if not ok:
            print((out0 if rc0 != 0 else out1 if rc1 == 0 else out2 if rc2 != 0 else out3)[-1500:])
        return 0 if ok else 1
    finally:
        sh(["git", "worktree", "remove", "--force", wt], cwd=REPO)
        sh(["rm", "-rf", "/tmp/confirm_target_" + mid])


def table():
    rows = []
    for mid in sorted(os.listdir(SEEDED)):
        d = os.path.join(SEEDED, mid)
        if not os.path.exists(os.path.join(d, "meta.json")):
            continue
        meta = json.load(open(os.path.join(d, "meta.json")))
        res = json.load(open(os.path.join(d, "result.json"))) if os.path.exists(os.path.join(d, "result.json")) else {}
        caught = []
        for c, r in sorted(res.items()):
            if r["exit"] != 0:
                caught.append(c + ("*" if r.get("no_failing_input") else ""))
        silent = [c for c, r in sorted(res.items()) if r["exit"] == 0]
        rows.append("| %s | %s | %s | %s | %s |" % (mid, meta.get("property"), meta.get("summary", "")[:110].replace("|", "/"),
                                                  ", ".join(caught) or "**none**", ", ".join(silent)))
    print("| seeded change | breaks | what was changed | caught by (* = no-failing-input-found) | silent checks that were run |")
    print("|---|---|---|---|---|")
    print("\n".join(rows))


def main():
    a = sys.argv[1:]
    if not a or a[0] == "list":
        for mid in sorted(os.listdir(SEEDED)):
            print(mid)
        return 0
    if a[0] == "table":
        table()
        return 0
    if a[0] == "confirm":
        return confirm(a[1])
    if a[0] == "prun":
        # tools/mutants.py prun <jobs> [--all] id id ...   (ids may be prefixes such as C01)
        jobs = int(a[1])
        allc = "--all" in a
        only = None
        if "--checks" in a:
            i = a.index("--checks")
            only = a[i + 1].split(",")
            a = a[:i] + a[i + 2:]
        want = [x for x in a[2:] if not x.startswith("--")]
        ids = [m for m in sorted(os.listdir(SEEDED)) if os.path.exists(os.path.join(SEEDED, m, "meta.json")) and (not want or any(m.startswith(w) for w in want))]
        return prun(ids, jobs, "quick", allc, only)
    if a[0] == "run":
        mid = a[1]
        tier = "quick"
        checks = None
        i = 2
        while i < len(a):
            if a[i] == "--checks":
                checks = a[i + 1].split(",")
                i += 2
            elif a[i] == "--all":
                checks = claimed()
                i += 1
            elif a[i] == "--tier":
                tier = a[i + 1]
                i += 2
            else:
                i += 1
        if checks is None:
            meta = json.load(open(os.path.join(SEEDED, mid, "meta.json")))
            checks = [meta["property"]]
        return run(mid, checks, tier)
    return 1


if __name__ == "__main__":
    sys.exit(main())
