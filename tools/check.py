#!/usr/bin/env python3
"""check.py — decide one property:  ./check Cxx [--tier quick|thorough] [--replay file]

 1. tie:    regenerate coq/Gen/*.v from the repository's current source (translator, fail-closed)
 2. proof:  make Props/Cxx.vo (+ Corr/Cxx.vo); Print Assumptions of every theorem must be closed;
            no Admitted / Axiom / ... anywhere in the development
 3. corr:   run the property's case stream on the real crate (harness, debug+release, batch on/off) and
            on the Coq model (vm_compute); compare through the property's observation
 4. oracle: run the Coq boolean checker of the property on the implementation's own traces
Exit 0 iff everything holds; otherwise `VIOLATION property=<id> replay=<path>` (with the suffix
` no-failing-input-found` when only a proof obligation or the correspondence broke)."""
import argparse
import collections
import importlib
import json
import os
import re
import sys
import time

sys.path.insert(0, os.path.dirname(os.path.abspath(__file__)))
import vlib
from vlib import log

FORBIDDEN = re.compile(r"\b(Admitted|admit|Axiom|Axioms|Parameter|Parameters|Conjecture|Hypothesis|Variable|Variables|bypass_check|Unset\s+Guard|Unset\s+Positivity|Unset\s+Universe|type-in-type|Admit\s+Obligations)\b")


def strip_comments(s):
    out = []
    depth = 0
    i = 0
    while i < len(s):
        if s.startswith("(*", i):
            depth += 1
            i += 2
        elif s.startswith("*)", i) and depth > 0:
            depth -= 1
            i += 2
        else:
            if depth == 0:
                out.append(s[i])
            i += 1
    return "".join(out)


def scan_forbidden():
    """no Admitted/admit/Axiom/Parameter/... in the development. `Variable`/`Hypothesis` are allowed
    only inside a Section (checked by a simple section-depth count)."""
    bad = []
    for d in vlib.QDIRS:
        dd = os.path.join(vlib.COQ_WORK, d)
        if not os.path.isdir(dd):
            continue
        for fn in sorted(os.listdir(dd)):
            if not fn.endswith(".v"):
                continue
            text = strip_comments(open(os.path.join(dd, fn)).read())
            depth = 0
            for ln, line in enumerate(text.split("\n"), 1):
                if re.match(r"\s*Section\s+\w+", line):
                    depth += 1
                if re.match(r"\s*End\s+\w+", line) and depth > 0:
                    depth -= 1
                for m in FORBIDDEN.finditer(line):
                    w = m.group(1)
                    if w in ("Variable", "Variables", "Hypothesis") and depth > 0:
                        continue
                    bad.append("%s/%s:%d: %s" % (d, fn, ln, w))
    return bad


def check_proofs(prop, files=None):
    """returns dict(ok, obligations, discharged, theorems, detail). `files`: the statement files of the property
    (default Props/<prop>.v)"""
    res = dict(ok=False, obligations=0, discharged=0, theorems=[], detail="")
    files = files or [prop]
    text = ""
    for fn in files:
        props_v = os.path.join(vlib.COQ_WORK, "Props", fn + ".v")
        if not os.path.exists(props_v):
            res["detail"] = "no Props/%s.v" % fn
            return res
        text += strip_comments(open(props_v).read()) + "\n"
    thms, exs, mods = [], [], []
    for line in text.split("\n"):
        m = re.match(r"\s*Module\s+(\w+)\s*\.", line)
        if m:
            mods.append(m.group(1))
            continue
        m = re.match(r"\s*End\s+(\w+)\s*\.", line)
        if m and mods and mods[-1] == m.group(1):
            mods.pop()
            continue
        m = re.match(r"\s*(Theorem|Example)\s+(\w+)", line)
        if m:
            (thms if m.group(1) == "Theorem" else exs).append(".".join(mods + [m.group(2)]))
    res["theorems"] = thms
    res["obligations"] = len(thms)
    bad = scan_forbidden()
    if bad:
        res["detail"] = "forbidden constructs: " + "; ".join(bad[:10])
        return res
    ok, out = vlib.coq_make(["Props/%s.vo" % fn for fn in files])
    if not ok:
        m = re.search(r"File \"([^\"]+)\", line (\d+).*?\n(Error:.*?)(?:\n\n|\Z)", out, re.S)
        res["detail"] = "make Props/%s.vo failed: %s" % (prop, (m.group(0) if m else out[-1500:]))
        res["failed_file"] = m.group(1) if m else None
        return res
    # Print Assumptions for every theorem and example
    ad = os.path.join(vlib.BUILD, "assum")
    os.makedirs(ad, exist_ok=True)
    path = os.path.join(ad, "A_%s.v" % prop)
    with open(path, "w") as f:
        for fn in files:
            f.write("Require Import Props.%s.\n" % fn)
        for t in thms + exs:
            f.write("Print Assumptions %s.\n" % t)
    rc, out, err = vlib.coqc_file(path)
    if rc != 0:
        res["detail"] = "Print Assumptions run failed: " + (out + err)[-800:]
        return res
    closed = out.count("Closed under the global context")
    res["assumptions"] = out.strip()
    if "Axioms:" in out or closed != len(thms) + len(exs):
        res["detail"] = "assumptions not closed: " + out[-1500:]
        res["discharged"] = max(0, min(len(thms), closed - len(exs)))
        return res
    res["discharged"] = len(thms)
    res["ok"] = True
    return res


def run_coqchk(prop, files=None):
    """thorough tier: re-check the compiled closure of Props/Cxx.vo with the independent checker and list its axioms"""
    rc, out, err = vlib.run(["coqchk", "-o", "-silent"] + vlib.qflags() + ["Props." + fn for fn in (files or [prop])], cwd=vlib.COQ_WORK, timeout=3000)
    text = out + err
    m = re.search(r"\* Axioms:\s*(.*?)\n\s*\n", text, re.S)
    axioms = (m.group(1).strip() if m else "?")
    ok = rc == 0 and axioms == "<none>" and "type-in-type: <none>" in text and "unsafe (co)fixpoints: <none>" in text \
        and "positivity is assumed: <none>" in text
    return ok, axioms, text[-1200:]


# which generated parts the THEOREMS of a property are about
PART_DEPS = {
    "C01": {"models"}, "C05": {"models"}, "C11": {"models"}, "C12": {"models"}, "C13": {"models"}, "C17": {"models"},
    "C18": {"opcodes"}, "C19": {"test_image"}, "C03": {"capacities"}, "C20": {"capacities"},
}
# the correspondence stream that covers a generated part exhaustively: (property module, tier)
FALLBACK_VALIDATOR = {"models": ("C11", "thorough"), "opcodes": ("C18", "quick"), "test_image": ("C19", "quick"),
                      "capacities": ("C20", "quick")}


def run_fallback_validator(part, seed, info):
    """exhaustive correspondence of one generated part with the current source. Returns (n_cases, failing cases)"""
    vprop, vtier = FALLBACK_VALIDATOR[part]
    vmod = importlib.import_module("props." + vprop.lower())
    ok, out = vlib.coq_make(["Corr/%s.vo" % vprop])
    if not ok:
        return 0, [("build", out[-800:])]
    vcases = vmod.gen(vlib.Rng(seed).fork(vprop), vtier, info)
    vlib.run_cases_on_harness(vcases)
    if hasattr(vmod, "wrap_impl"):
        for c in vcases:
            if c.impl is not None:
                c.impl = vmod.wrap_impl(c, c.impl)
    fails, errs = vlib.eval_shards(vprop + "-fallback", "Corr." + vprop, vcases, imports=getattr(vmod, "IMPORTS", ""),
                                   per_shard=getattr(vmod, "PER_SHARD", 60), case_type=getattr(vmod, "CASE_TYPE", "(pcase * pout)"))
    bad = [(vcases[i].line[:300], code) for i, code in sorted(fails.items()) if code != 0]
    return len(vcases), bad


def load_known():
    path = os.path.join(vlib.ROOT, "known_findings.txt")
    known = collections.defaultdict(dict)
    if os.path.exists(path):
        for line in open(path):
            line = line.strip()
            m = re.match(r"finding:\s+property=(\w+)\s+class=(\d+)\s+(.*)", line)
            if m:
                known[m.group(1)][int(m.group(2))] = m.group(3)
    return known


def write_replay(prop, seed, tier, kind, body):
    d = os.path.join(vlib.OUT, "replays")
    os.makedirs(d, exist_ok=True)
    path = os.path.join(d, "%s-%s-%d.json" % (prop, kind, seed))
    obj = dict(property=prop, seed=seed, tier=tier, kind=kind)
    obj.update(body)
    obj["how_to_replay"] = "./check %s --replay %s" % (prop, path)
    vlib.write_json(path, obj)
    return path


def describe_case(c, code=None, model_out=None):
    d = dict(variant=c.variant, harness_line=c.line, coq_case=c.coq, impl_output=c.impl, diagnostics=c.diag)
    if code is not None:
        d["code"] = code
        d["reason"] = reason_text(code)
    if model_out is not None:
        d["model_output"] = model_out
    return d


def reason_text(code):
    if code < 0:
        return "case could not be evaluated"
    r = []
    if code & 1:
        r.append("model and implementation differ on the property's observation")
    if code & 2:
        r.append("the property's oracle rejects the implementation's trace")
    if code >= 16:
        r.append("known-finding class %d" % (code // 16))
    return "; ".join(r)


def main():
    ap = argparse.ArgumentParser()
    ap.add_argument("prop")
    ap.add_argument("--tier", default=os.environ.get("VERIF_TIER", "quick"))
    ap.add_argument("--replay", default=None)
    args = ap.parse_args()
    prop = args.prop.upper()
    tier = args.tier if args.tier in ("quick", "thorough") else "quick"
    try:
        seed = int(os.environ.get("VERIF_SEED", "1"))
    except ValueError:
        seed = 1
    t0 = time.time()
    mod = importlib.import_module("props." + prop.lower())

    problems = []       # (kind, text) that break the tie / proof without a failing input
    # ---- 1. tie: translator
    vlib.sync_coq_work()
    tr_ok, tr_msg, models, consts, tr_failed = vlib.translate()
    fallback_parts = []
    if not tr_ok:
        if models is None:
            problems.append(("translator", "tools/rs2v.py could not translate the current source: " + tr_msg))
        else:
            # some part of the source no longer has the shape the translator understands; the committed baseline
            # translation of that part is in Gen/ now. Only properties whose theorems are ABOUT that part are
            # concerned (PART_DEPS); for them the tie is re-established — or a failing input found — by the
            # exhaustive correspondence of that part with the current source (FALLBACK_VALIDATOR).
            needed = sorted(set(tr_failed) & PART_DEPS.get(prop, set()))
            fallback_parts = needed
            if needed:
                log("translator: part(s) %s of the source did not translate (%s); falling back to the baseline translation "
                    "and to exhaustive correspondence for them" % (", ".join(needed), tr_msg[:300]))
            tr_ok = True
    # ---- 2. proofs
    proof = check_proofs(prop, getattr(mod, "PROPS_FILES", None)) if tr_ok else dict(ok=False, obligations=0, discharged=0, theorems=[], detail="Gen/*.v not regenerated")
    if not proof["ok"]:
        problems.append(("proof", proof["detail"]))
    chk_info = None
    if tier == "thorough" and proof["ok"]:
        ok_chk, axioms, tail = run_coqchk(prop, getattr(mod, "PROPS_FILES", None))
        chk_info = dict(coqchk_ok=ok_chk, coqchk_axioms=axioms)
        if not ok_chk:
            problems.append(("coqchk", "coqchk -o on Props.%s: axioms = %s\n%s" % (prop, axioms, tail)))
    corr_ok_build, corr_out = vlib.coq_make(["Corr/%s.vo" % prop])
    if not corr_ok_build:
        problems.append(("model-build", "make Corr/%s.vo failed: %s" % (prop, corr_out[-1500:])))
    # ---- 3. harness
    h_ok, h_out = vlib.build_harness()
    if not h_ok:
        problems.append(("harness-build", "the harness does not build against the current tree: " + h_out[-2500:]))

    info = dict(models=vlib.model_table(models), consts=consts, tier=tier, seed=seed, raw_models=models)
    fallback_cov = {}
    if fallback_parts and h_ok:
        for part in fallback_parts:
            try:
                n_v, bad = run_fallback_validator(part, seed, info)
            except Exception as e:
                n_v, bad = 0, [("crash", repr(e))]
            fallback_cov[part] = dict(validator=FALLBACK_VALIDATOR[part][0], cases=n_v, failing=len(bad), translator_error=tr_failed.get(part, "")[:300])
            if bad:
                problems.append(("translator", "part %s of the source did not translate (%s) and the exhaustive correspondence of that part "
                                 "with the current source fails on %d of %d cases, e.g. %s" % (part, tr_failed.get(part, "")[:200], len(bad), n_v, bad[0][0])))
            else:
                log("translator fallback: part %s re-validated against the current source on %d cases (exhaustive correspondence): tie re-established" % (part, n_v))
    elif fallback_parts:
        problems.append(("translator", "parts %s did not translate and the harness does not build" % fallback_parts))
    cases = []
    failures, errors = {}, []
    extra_cov = {}
    if args.replay:
        rp = json.load(open(args.replay))
        if "case" in rp and rp["case"].get("harness_line"):
            c = vlib.Case(rp["case"]["harness_line"], rp["case"]["coq_case"], rp["case"]["variant"])
            cases = [c]
        else:
            log("replay file names a broken obligation, not an input: re-running the whole check")
    if not cases and not args.replay or (args.replay and not cases):
        cases = mod.gen(vlib.Rng(seed).fork(prop), tier, info)
    t_prep = time.time() - t0
    t_h0 = time.time()
    if h_ok and corr_ok_build:
        try:
            vlib.run_cases_on_harness(cases)
        except RuntimeError as e:
            problems.append(("harness-run", str(e)))
        if hasattr(mod, "wrap_impl"):
            for c in cases:
                if c.impl is not None:
                    c.impl = mod.wrap_impl(c, c.impl)
        if all(c.impl is not None for c in cases):
            failures, errors = vlib.eval_shards(prop, "Corr." + prop, cases, imports=getattr(mod, "IMPORTS", ""),
                                                per_shard=getattr(mod, "PER_SHARD", 60), case_type=getattr(mod, "CASE_TYPE", "(pcase * pout)"))
    t_eval = time.time() - t_h0
    if hasattr(mod, "extra"):
        try:
            extra_cov, extra_problems, extra_viol = mod.extra(info, cases, vlib)
        except Exception as e:  # an auxiliary sweep that crashes breaks the check, visibly
            extra_cov, extra_problems, extra_viol = {}, [("extra", "auxiliary sweep crashed: %r" % (e,))], []
        problems += extra_problems
    else:
        extra_viol = []

    # ---- 4. verdict
    known = load_known().get(prop, {})
    oracle_viol, corr_viol, evalfail, known_hits = [], [], [], collections.OrderedDict()
    for i, code in sorted(failures.items()):
        if code < 0:
            evalfail.append(i)
            continue
        cls = code // 16
        if cls and cls in known:
            known_hits.setdefault(cls, []).append(i)
            continue
        if code & 2:
            oracle_viol.append(i)
        elif code & 1:
            corr_viol.append(i)
    for cls, idxs in known_hits.items():
        log("KNOWN-FINDING: property=%s %s (%d cases, e.g. %s)" % (prop, known[cls], len(idxs), cases[idxs[0]].line[:160]))

    violations = 0
    exit_code = 0
    if oracle_viol or extra_viol:
        violations = len(oracle_viol) + len(extra_viol)
        if oracle_viol:
            i = min(oracle_viol, key=lambda j: len(cases[j].line))
            if hasattr(mod, "shrink"):
                try:
                    c2, code2 = shrink_case(prop, mod, cases[i], failures[i])
                except Exception:
                    c2, code2 = cases[i], failures[i]
            else:
                c2, code2 = cases[i], failures[i]
            mo = vlib.coq_eval_term(prop, "Corr." + prop, "Corr.%s.model_out (%s)" % (prop, c2.coq), imports=getattr(mod, "IMPORTS", ""))
            body = dict(case=describe_case(c2, code2, mo), failing_cases=len(oracle_viol),
                        other_failing=[cases[j].line[:300] for j in oracle_viol[:5]])
        else:
            body = dict(finding=extra_viol[0], failing_cases=len(extra_viol))
        path = write_replay(prop, seed, tier, "failing-input", body)
        log("VIOLATION property=%s replay=%s" % (prop, path))
        exit_code = 1
    elif problems or corr_viol or evalfail:
        violations = 1
        body = dict(broken=[dict(kind=k, detail=t) for k, t in problems])
        if corr_viol:
            i = min(corr_viol, key=lambda j: len(cases[j].line))
            mo = vlib.coq_eval_term(prop, "Corr." + prop, "Corr.%s.model_out (%s)" % (prop, cases[i].coq), imports=getattr(mod, "IMPORTS", ""))
            body["broken"].append(dict(kind="correspondence", detail="model and implementation differ on %d cases; the oracle accepts the implementation's traces" % len(corr_viol)))
            body["case"] = describe_case(cases[i], failures[i], mo)
        if evalfail:
            body["broken"].append(dict(kind="evaluation", detail="; ".join(errors[:3])))
            if "case" not in body:
                body["case"] = describe_case(cases[evalfail[0]], -1)
        body["searched"] = "%d cases run on the implementation and checked by the property's oracle: none fails" % len(cases)
        path = write_replay(prop, seed, tier, "broken-obligation", body)
        log("VIOLATION property=%s replay=%s no-failing-input-found" % (prop, path))
        for k, t in problems[:4]:
            log("  broken: %s: %s" % (k, t[:600]))
        exit_code = 1

    # ---- 5. evidence
    keys = set()
    nontriv = set()
    tags = collections.Counter()
    outcomes = collections.Counter()
    for c in cases:
        keys.add(c.key())
        if c.nontrivial:
            nontriv.add(c.key())
        for t in c.tags:
            tags[t] += 1
        if c.impl:
            m = re.match(r"\(?\s*(ROk|RErr \(?[A-Za-z ]+\)?\)?|RPanic|RBudget)", c.impl)
            outcomes[(m.group(1) if m else "other").replace("(", "").replace(")", "")] += 1
    samples = []
    for c in cases[:: max(1, len(cases) // 4)][:4]:
        samples.append(dict(variant=c.variant, harness_line=c.line[:600], impl_output=(c.impl or "")[:900]))
    cov = dict(
        obligations=proof["obligations"], discharged=proof["discharged"],
        checker_cmd="cd coq && make Props/%s.vo  (coqc 8.16.1, full .vo build) + Print Assumptions on every theorem" % prop,
        trusted_base=getattr(mod, "TRUSTED", []) + [
            "Coq 8.16.1 kernel incl. vm_compute (no native_compute); axioms: none (Print Assumptions closed)",
            "tools/rs2v.py translator, tools/check.py + tools/vlib.py correspondence machinery, harness mocks",
        ],
        theorems=proof["theorems"],
        evaluations=len(cases), distinct_nontrivial=len(nontriv), distinct=len(keys),
        traces_validated_against_impl=len([c for c in cases if c.impl is not None]) - len(evalfail),
        rule=getattr(mod, "RULE", ""),
        input_distribution=dict(tags.most_common(40)), impl_outcomes=dict(outcomes),
        correspondence_mismatches=len(corr_viol), oracle_rejections=len(oracle_viol),
        known_finding_cases=sum(len(v) for v in known_hits.values()),
        translator=tr_msg, samples=samples or [dict(note="no cases")],
    )
    cov["phase_seconds"] = dict(prepare=round(t_prep, 1), harness_and_coq_eval=round(t_eval, 1))
    cov.update(extra_cov or {})
    if chk_info:
        cov.update(chk_info)
    if fallback_cov:
        cov["translator_fallback"] = fallback_cov
    if tr_failed and not fallback_parts:
        cov["translator_parts_not_translated_but_unrelated_to_this_property"] = sorted(tr_failed)
    ev = dict(property_id=prop, tier=tier, seed=seed, level="proof", coverage=cov,
              assumptions=getattr(mod, "ASSUMPTIONS", []), wall_s=round(time.time() - t0, 2), violations=violations)
    os.makedirs(os.path.join(vlib.OUT, "evidence"), exist_ok=True)
    vlib.write_json(os.path.join(vlib.OUT, "evidence", prop + ".json"), ev)
    log("%s %s tier=%s seed=%d: theorems %d/%d, cases %d (distinct non-trivial %d), corr-mismatch %d, oracle-reject %d, %.1fs"
        % ("OK" if exit_code == 0 else "FAIL", prop, tier, seed, proof["discharged"], proof["obligations"], len(cases),
           len(nontriv), len(corr_viol), len(oracle_viol), time.time() - t0))
    sys.exit(exit_code)


def shrink_case(prop, mod, case, code):
    """greedy shrinking: the property module proposes smaller cases; keep one that still fails the oracle"""
    cur, cur_code = case, code
    for _ in range(40):
        cands = mod.shrink(cur)
        if not cands:
            break
        cands = cands[:48]
        vlib.run_cases_on_harness(cands)
        if hasattr(mod, "wrap_impl"):
            for c in cands:
                if c.impl is not None:
                    c.impl = mod.wrap_impl(c, c.impl)
        fails, _ = vlib.eval_shards(prop, "Corr." + prop, cands, imports=getattr(mod, "IMPORTS", ""), per_shard=4, case_type=getattr(mod, "CASE_TYPE", "(pcase * pout)"),
                                    workdir=os.path.join(vlib.BUILD, "cases", prop + "-shrink"))
        nxt = None
        for i, c in enumerate(cands):
            cd = fails.get(i, 0)
            if cd > 0 and (cd & 2):
                nxt = (c, cd)
                break
        if nxt is None:
            break
        cur, cur_code = nxt
    return cur, cur_code


if __name__ == "__main__":
    main()
