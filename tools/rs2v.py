#!/usr/bin/env python3
"""rs2v.py — fail-closed translator for the *data-like* parts of almindor/mipidsi.

Reads <repo>/src and writes coq/Gen/Models.v and coq/Gen/Consts.v:
  * every `impl Model for X` in src/models/*.rs: FRAMEBUFFER_SIZE, ColorFormat, and the init body as a
    straight-line program (calls to ili934x::init_common / ili948x::init_common / super::ST7789.init are
    inlined, so a gate inside a callee is kept where it executes);
  * every dcs_basic_command!(Name, 0xNN) and every literal `fn instruction` in src/dcs/*.rs;
  * MAX_ROW_SIZE / MAX_BLOCK_SIZE (src/batch.rs); BORDER_WIDTH, BORDER_PADDING, TOP_LEFT_MARKER_SIZE and the
    three glyph bitmaps (src/test_image.rs).
Anything it does not recognise raises TranslateError: the run then reports a broken tie, never a
silently skipped statement.
"""
import os
import re
import sys


class TranslateError(Exception):
    pass


# ------------------------------------------------------------------ tokenizer
TOKEN_RE = re.compile(r"""
    (?P<ws>\s+)
  | (?P<lc>//[^\n]*)
  | (?P<bc>/\*.*?\*/)
  | (?P<str>"(?:[^"\\]|\\.)*")
  | (?P<num>0[xX][0-9a-fA-F_]+|0[bB][01_]+|[0-9][0-9_]*)
  | (?P<id>[A-Za-z_][A-Za-z0-9_]*)
  | (?P<op>::|->|=>|==|!=|<=|>=|&&|\|\||[{}()\[\];,.<>=!&|?:+\-*/#'%^@$~])
""", re.X | re.S)


def tokenize(src, path):
    toks = []
    pos = 0
    while pos < len(src):
        m = TOKEN_RE.match(src, pos)
        if not m:
            raise TranslateError(f"{path}: cannot tokenize at offset {pos}: {src[pos:pos+30]!r}")
        pos = m.end()
        k = m.lastgroup
        if k in ("ws", "lc", "bc"):
            continue
        toks.append((k, m.group(k)))
    return toks


def num(tok):
    s = tok.replace("_", "")
    if s.lower().startswith("0x"):
        return int(s, 16)
    if s.lower().startswith("0b"):
        return int(s, 2)
    return int(s)


class P:
    """token cursor"""

    def __init__(self, toks, path):
        self.t = toks
        self.i = 0
        self.path = path

    def peek(self, k=0):
        return self.t[self.i + k][1] if self.i + k < len(self.t) else None

    def kind(self, k=0):
        return self.t[self.i + k][0] if self.i + k < len(self.t) else None

    def next(self):
        v = self.peek()
        if v is None:
            raise TranslateError(f"{self.path}: unexpected end of input")
        self.i += 1
        return v

    def expect(self, *vals):
        for v in vals:
            got = self.next()
            if got != v:
                ctx = " ".join(x[1] for x in self.t[max(0, self.i - 8):self.i + 4])
                raise TranslateError(f"{self.path}: expected {v!r}, got {got!r} near: {ctx}")

    def accept(self, *vals):
        for k, v in enumerate(vals):
            if self.peek(k) != v:
                return False
        self.i += len(vals)
        return True

    def ctx(self):
        return " ".join(x[1] for x in self.t[max(0, self.i - 6):self.i + 10])


def find_matching(toks, i, open_, close):
    depth = 0
    while i < len(toks):
        if toks[i][1] == open_:
            depth += 1
        elif toks[i][1] == close:
            depth -= 1
            if depth == 0:
                return i
        i += 1
    raise TranslateError("unbalanced " + open_)


KINDS = ("Serial4Line", "Parallel8Bit", "Parallel16Bit")
BASIC_CMDS = ("SoftReset", "EnterSleepMode", "ExitSleepMode", "EnterPartialMode", "EnterNormalMode",
              "SetDisplayOff", "SetDisplayOn", "ExitIdleMode", "EnterIdleMode", "WriteMemoryStart")
BPPS = ("Three", "Eight", "Twelve", "Sixteen", "Eighteen", "TwentyFour")


# ------------------------------------------------------------------ init bodies
def parse_path(p):
    """a::b::C  -> list of segments (generic args `::<...>` skipped and returned separately)"""
    segs = [p.next()]
    while p.peek() == "::":
        p.next()
        if p.peek() == "<":
            # turbofish: collect raw
            depth = 0
            raw = []
            while True:
                t = p.next()
                raw.append(t)
                if t == "<":
                    depth += 1
                elif t == ">":
                    depth -= 1
                    if depth == 0:
                        break
            segs.append("".join(raw))
        else:
            segs.append(p.next())
    return segs


def parse_pf_expr(p, env):
    """PixelFormat expression -> ('pf_color',) | ('pf', dpi, dbi) | via variable"""
    if p.kind() == "id" and p.peek() in env.get("pf", {}) and p.peek(1) in (")", ","):
        return env["pf"][p.next()]
    segs = parse_path(p)
    if segs[-2:] == ["PixelFormat", "with_all"]:
        p.expect("(")
        b = parse_bpp_expr(p)
        p.expect(")")
        return ("pf_color",) if b == ("color",) else ("pf", b[1], b[1])
    if segs[-2:] == ["PixelFormat", "new"]:
        p.expect("(")
        a = parse_bpp_expr(p)
        p.expect(",")
        b = parse_bpp_expr(p)
        p.expect(")")
        if a == ("color",) and b == ("color",):
            return ("pf_color",)
        if a[0] == "lit" and b[0] == "lit":
            return ("pf", a[1], b[1])
        raise TranslateError(f"{p.path}: mixed PixelFormat::new arguments")
    raise TranslateError(f"{p.path}: unrecognised PixelFormat expression near: {p.ctx()}")


def parse_bpp_expr(p):
    segs = parse_path(p)
    if len(segs) >= 3 and segs[-3] == "BitsPerPixel" and segs[-2] == "from_rgb_color" and segs[-1] == "<Self::ColorFormat>":
        p.expect("(", ")")
        return ("color",)
    if len(segs) >= 2 and segs[-2] == "BitsPerPixel" and segs[-1] in BPPS:
        return ("lit", segs[-1])
    raise TranslateError(f"{p.path}: unrecognised BitsPerPixel expression {segs}")


def parse_cmd_expr(p, env):
    """argument of write_command(...)"""
    if p.kind() == "id" and p.peek() in env.get("madctl", set()) and p.peek(1) == ")":
        p.next()
        return ("ICmdMadctl",)
    segs = parse_path(p)
    name = segs[-1]
    if name in BASIC_CMDS and len(segs) == 1:
        return ("ICmdBasic", name)
    if segs[-2:] == ["SetInvertMode", "new"]:
        p.expect("(", "options", ".", "invert_colors", ")")
        return ("ICmdInvert",)
    if segs[-2:] == ["SetPixelFormat", "new"]:
        p.expect("(")
        pf = parse_pf_expr(p, env)
        p.expect(")")
        return ("ICmdPixelFormat", pf)
    raise TranslateError(f"{p.path}: unrecognised command expression {segs} near: {p.ctx()}")


def parse_gate(p):
    # if ! matches ! ( DI :: KIND , A | B ) { return Err ( ModelInitError :: InvalidConfiguration ( ConfigurationError :: UnsupportedInterface , ) , ) ; }
    p.expect("if", "!", "matches", "!", "(", "DI", "::", "KIND", ",")
    kinds = []
    while True:
        segs = parse_path(p)
        if segs[-1] not in KINDS or (len(segs) > 1 and segs[-2] != "InterfaceKind"):
            raise TranslateError(f"{p.path}: unknown interface kind {segs}")
        kinds.append(segs[-1])
        if p.accept("|"):
            continue
        break
    p.accept(",")
    p.expect(")", "{", "return", "Err", "(")
    segs = parse_path(p)
    if segs[-2:] != ["ModelInitError", "InvalidConfiguration"]:
        raise TranslateError(f"{p.path}: gate returns {segs}")
    p.expect("(")
    segs = parse_path(p)
    if segs[-2:] != ["ConfigurationError", "UnsupportedInterface"]:
        raise TranslateError(f"{p.path}: gate returns {segs}")
    p.accept(",")
    p.expect(")")
    p.accept(",")
    p.expect(")", ";", "}")
    return ("IGate", kinds)


def parse_body(p, end, funcs, self_color_known, depth=0):
    """statements until token index `end` (exclusive). Returns list of stmts; the last is a return."""
    env = {"madctl": set(), "pf": {}}
    if "pixel_format" in funcs.get("__params__", ()):
        env["pf"]["pixel_format"] = ("pf_param",)
    out = []
    while p.i < end:
        t = p.peek()
        if t == "if":
            out.append(parse_gate(p))
        elif t == "let":
            p.next()
            name = p.next()
            p.expect("=")
            # let madctl = SetAddressMode::from(options);
            save = p.i
            segs = parse_path(p)
            if segs == ["SetAddressMode", "from"]:
                p.expect("(")
                p.accept("&")
                p.expect("options", ")", ";")
                env["madctl"].add(name)
            elif segs[0] == "PixelFormat":
                p.i = save
                env["pf"][name] = parse_pf_expr(p, env)
                p.expect(";")
            else:
                raise TranslateError(f"{p.path}: unrecognised let binding `{name}` = {segs}")
        elif t == "delay":
            p.expect("delay", ".")
            fn = p.next()
            if fn not in ("delay_us", "delay_ms", "delay_ns"):
                raise TranslateError(f"{p.path}: unknown delay method {fn}")
            p.expect("(")
            if p.kind() != "num":
                raise TranslateError(f"{p.path}: non-literal delay argument near: {p.ctx()}")
            n = num(p.next())
            p.expect(")", ";")
            scale = {"delay_ns": 1, "delay_us": 1000, "delay_ms": 1000000}[fn]
            out.append(("IDelay", n * scale))
        elif t == "di":
            p.expect("di", ".")
            fn = p.next()
            if fn == "write_command":
                p.expect("(")
                c = parse_cmd_expr(p, env)
                p.expect(")")
            elif fn == "write_raw":
                p.expect("(")
                if p.kind() != "num":
                    raise TranslateError(f"{p.path}: non-literal opcode near: {p.ctx()}")
                op = num(p.next())
                p.expect(",", "&", "[")
                args = []
                while p.peek() != "]":
                    if p.kind() != "num":
                        raise TranslateError(f"{p.path}: non-literal raw parameter near: {p.ctx()}")
                    args.append(num(p.next()))
                    p.accept(",")
                p.expect("]")
                p.accept(",")
                p.expect(")")
                c = ("IRaw", op, args)
            else:
                raise TranslateError(f"{p.path}: unknown interface method {fn}")
            if p.accept("?"):
                p.expect(";")
                out.append(c)
            else:
                p.expect(";")
                out.append(("INoProp", c))
        elif t == "Ok":
            p.expect("Ok", "(")
            v = p.next()
            if v not in env["madctl"]:
                raise TranslateError(f"{p.path}: init returns `{v}`, which is not SetAddressMode::from(options)")
            p.expect(")")
            if p.i != end:
                raise TranslateError(f"{p.path}: statements after the returned value")
            out.append(("IRetMadctl",))
        else:
            # tail call: ili934x::init_common(di, delay, options, pf).map_err(Into::into)
            #            ili948x::init_common(di, delay, options, pf)
            #            super::ST7789.init(di, delay, options)
            segs = parse_path(p)
            if segs[-2:] in (["ili934x", "init_common"], ["ili948x", "init_common"]):
                p.expect("(", "di", ",", "delay", ",", "options", ",")
                pf = parse_pf_expr(p, env)
                p.expect(")")
                if p.accept(".", "map_err", "(", "Into", "::", "into", ")"):
                    pass
                if p.i != end:
                    raise TranslateError(f"{p.path}: statements after tail call near: {p.ctx()}")
                callee = funcs[segs[-2] + "::init_common"]
                out.extend(subst_pf(callee, pf))
            elif len(segs) == 2 and segs[0] == "super" and p.peek() == ".":
                p.expect(".", "init", "(", "di", ",", "delay", ",", "options", ")")
                if p.i != end:
                    raise TranslateError(f"{p.path}: statements after tail call near: {p.ctx()}")
                out.append(("ICallModel", segs[1]))
            else:
                raise TranslateError(f"{p.path}: unrecognised statement near: {p.ctx()}")
    if not out or out[-1][0] not in ("IRetMadctl", "ICallModel"):
        raise TranslateError(f"{p.path}: init body does not end in a recognised return")
    return out


def subst_pf(stmts, pf):
    res = []
    for s in stmts:
        if s[0] == "ICmdPixelFormat" and s[1] == ("pf_param",):
            res.append(("ICmdPixelFormat", pf))
        elif s[0] == "INoProp" and s[1][0] == "ICmdPixelFormat" and s[1][1] == ("pf_param",):
            res.append(("INoProp", ("ICmdPixelFormat", pf)))
        else:
            res.append(s)
    return res


def fn_body_range(toks, start):
    """toks[start] is `fn`; returns (name, params_tokens, body_start, body_end) with body inside braces"""
    name = toks[start + 1][1]
    i = start + 2
    # skip generics
    if toks[i][1] == "<":
        i = find_matching(toks, i, "<", ">") + 1
    pe = find_matching(toks, i, "(", ")")
    params = [t[1] for t in toks[i + 1:pe]]
    j = pe + 1
    while toks[j][1] != "{":
        if toks[j][1] == ";":
            return name, params, None, None
        j += 1
    be = find_matching(toks, j, "{", "}")
    return name, params, j + 1, be


def parse_common(path, modname):
    src = open(path).read()
    toks = tokenize(src, path)
    for i, (k, v) in enumerate(toks):
        if v == "fn" and toks[i + 1][1] == "init_common":
            name, params, bs, be = fn_body_range(toks, i)
            p = P(toks, path)
            p.i = bs
            return parse_body(p, be, {"__params__": params}, None)
    raise TranslateError(f"{path}: no init_common")


def parse_models(repo):
    mdir = os.path.join(repo, "src", "models")
    funcs = {}
    for mod in ("ili934x", "ili948x"):
        f = os.path.join(mdir, mod + ".rs")
        if os.path.exists(f):
            funcs[mod + "::init_common"] = parse_common(f, mod)
    models = []
    for fn in sorted(os.listdir(mdir)):
        if not fn.endswith(".rs"):
            continue
        path = os.path.join(mdir, fn)
        toks = tokenize(open(path).read(), path)
        i = 0
        while i < len(toks):
            if toks[i][1] == "impl" and toks[i + 1][1] == "Model" and toks[i + 2][1] == "for":
                name = toks[i + 3][1]
                bs = i + 4
                if toks[bs][1] != "{":
                    raise TranslateError(f"{path}: generic impl Model for {name} not supported")
                be = find_matching(toks, bs, "{", "}")
                color = fb = body = None
                j = bs + 1
                while j < be:
                    v = toks[j][1]
                    if v == "type" and toks[j + 1][1] == "ColorFormat":
                        color = toks[j + 3][1]
                        if color not in ("Rgb565", "Rgb666"):
                            raise TranslateError(f"{path}: {name}: unsupported colour format {color}")
                        j += 4
                    elif v == "const" and toks[j + 1][1] == "FRAMEBUFFER_SIZE":
                        k = j
                        while toks[k][1] != "=":
                            k += 1
                        if not (toks[k + 1][1] == "(" and toks[k + 2][0] == "num" and toks[k + 3][1] == ","
                                and toks[k + 4][0] == "num" and toks[k + 5][1] == ")"):
                            raise TranslateError(f"{path}: {name}: non-literal FRAMEBUFFER_SIZE")
                        fb = (num(toks[k + 2][1]), num(toks[k + 4][1]))
                        j = k + 6
                    elif v == "fn":
                        fname, params, fs, fe = fn_body_range(toks, j)
                        if fname != "init":
                            raise TranslateError(f"{path}: {name}: unexpected fn {fname} in impl Model")
                        p = P(toks, path)
                        p.i = fs
                        body = parse_body(p, fe, funcs, color)
                        j = fe + 1
                    else:
                        j += 1
                if color is None or fb is None or body is None:
                    raise TranslateError(f"{path}: {name}: incomplete impl Model")
                models.append({"name": name, "color": color, "fb": fb, "body": body, "file": fn})
                i = be
            i += 1
    names = [m["name"] for m in models]
    if len(set(names)) != len(names):
        raise TranslateError("duplicate model names")
    # inline model-to-model delegation (super::ST7789.init) — at most a few levels
    byname = {m["name"]: m for m in models}

    def flat(m, seen):
        res = []
        for s in m["body"]:
            if s[0] == "ICallModel":
                if s[1] not in byname or s[1] in seen:
                    raise TranslateError(f"{m['name']}: bad delegation to {s[1]}")
                callee = byname[s[1]]
                if callee["color"] != m["color"]:
                    raise TranslateError(f"{m['name']}: delegates to a model with another colour format")
                res.extend(flat(callee, seen | {s[1]}))
            else:
                res.append(s)
        return res

    for m in models:
        m["flat"] = flat(m, {m["name"]})
    return models


# ------------------------------------------------------------------ constants
def parse_opcodes(repo):
    c = {}
    # opcodes
    dcs_src = open(os.path.join(repo, "src", "dcs.rs")).read()
    toks = tokenize(dcs_src, "src/dcs.rs")
    basic = []
    i = 0
    while i < len(toks):
        if toks[i][1] == "dcs_basic_command" and toks[i + 1][1] == "!":
            e = find_matching(toks, i + 2, "(", ")")
            inner = [t for t in toks[i + 3:e]]
            # skip attributes  # [ doc = "..." ]
            k = 0
            while k < len(inner) and inner[k][1] == "#":
                kk = k + 1
                d = 0
                while True:
                    if inner[kk][1] == "[":
                        d += 1
                    elif inner[kk][1] == "]":
                        d -= 1
                        if d == 0:
                            break
                    kk += 1
                k = kk + 1
            rest = inner[k:]
            if not (len(rest) >= 3 and rest[0][0] == "id" and rest[1][1] == "," and rest[2][0] == "num"):
                raise TranslateError("src/dcs.rs: unrecognised dcs_basic_command! invocation")
            basic.append((rest[0][1], num(rest[2][1])))
            i = e
        i += 1
    c["basic"] = basic
    typed = []
    ddir = os.path.join(repo, "src", "dcs")
    for fn in sorted(os.listdir(ddir)):
        if not fn.endswith(".rs") or fn == "macros.rs":
            continue
        path = os.path.join(ddir, fn)
        toks = tokenize(open(path).read(), path)
        i = 0
        while i < len(toks):
            if toks[i][1] == "impl" and toks[i + 1][1] == "DcsCommand" and toks[i + 2][1] == "for":
                tname = toks[i + 3][1]
                be = find_matching(toks, i + 4, "{", "}")
                j = i + 4
                ops = None
                while j < be:
                    if toks[j][1] == "fn" and toks[j + 1][1] == "instruction":
                        _, _, fs, fe = fn_body_range(toks, j)
                        body = toks[fs:fe]
                        if len(body) == 1 and body[0][0] == "num":
                            ops = [num(body[0][1])]
                        elif body and body[0][1] == "match":
                            ops = []
                            arms = []
                            k = 0
                            while k < len(body):
                                if body[k][1] == "=>":
                                    if body[k + 1][0] != "num":
                                        raise TranslateError(f"{path}: non-literal opcode arm")
                                    # arm label = last identifier before =>
                                    arms.append((body[k - 1][1], num(body[k + 1][1])))
                                k += 1
                            ops = arms
                        else:
                            raise TranslateError(f"{path}: unrecognised instruction() body for {tname}")
                        j = fe
                    j += 1
                if ops is None:
                    raise TranslateError(f"{path}: no instruction() for {tname}")
                typed.append((tname, ops))
                i = be
            i += 1
    c["typed"] = typed
    return c


def _const_of(repo, path, name):
    src = open(os.path.join(repo, path)).read()
    m = re.search(r"const\s+" + name + r"\s*:\s*\w+\s*=\s*([0-9_xXa-fA-F]+)\s*;", src)
    if not m:
        raise TranslateError(f"{path}: constant {name} not found as a literal")
    return num(m.group(1))


def parse_capacities(repo):
    c = {}
    bpath = os.path.join("src", "batch.rs")
    if os.path.exists(os.path.join(repo, bpath)):
        c["MAX_ROW_SIZE"] = _const_of(repo, bpath, "MAX_ROW_SIZE")
        c["MAX_BLOCK_SIZE"] = _const_of(repo, bpath, "MAX_BLOCK_SIZE")
    return c


def parse_test_image(repo):
    c = {}

    def const_of(path, name):
        src = open(os.path.join(repo, path)).read()
        m = re.search(r"const\s+" + name + r"\s*:\s*\w+\s*=\s*([0-9_xXa-fA-F]+)\s*;", src)
        if not m:
            raise TranslateError(f"{path}: constant {name} not found as a literal")
        return num(m.group(1))

    tpath = os.path.join("src", "test_image.rs")
    for n in ("BORDER_WIDTH", "BORDER_PADDING", "TOP_LEFT_MARKER_SIZE"):
        c[n] = const_of(tpath, n)
    tsrc = open(os.path.join(repo, tpath)).read()
    for g in ("R", "G", "B"):
        m = re.search(r"const\s+" + g + r"\s*:\s*&\[u8\]\s*=\s*&\[(.*?)\];", tsrc, re.S)
        if not m:
            raise TranslateError(f"{tpath}: glyph {g} not found")
        body = re.sub(r"//[^\n]*", "", m.group(1))
        vals = [num(x) for x in re.findall(r"[0-9][0-9_xXa-fA-F]*", body)]
        c["GLYPH_" + g] = vals
    return c


def parse_consts(repo):
    c = {}
    c.update(parse_opcodes(repo))
    c.update(parse_capacities(repo))
    c.update(parse_test_image(repo))
    return c


PARTS = {"models": None, "opcodes": parse_opcodes, "capacities": parse_capacities, "test_image": parse_test_image}


# ------------------------------------------------------------------ Coq printers
def zlist(v):
    return "[" + "; ".join(str(x) for x in v) + "]"


def coq_pf(pf):
    if pf == ("pf_color",):
        return "PfFromColor"
    if pf[0] == "pf":
        return f"(PfLit {pf[1]} {pf[2]})"
    raise TranslateError(f"unresolved pixel format {pf}")


def coq_stmt(s):
    k = s[0]
    if k == "IGate":
        return "IGate [" + "; ".join(s[1]) + "]"
    if k == "IDelay":
        return f"IDelay {s[1]}"
    if k == "ICmdBasic":
        return f"ICmd {s[1]}"
    if k == "ICmdMadctl":
        return "ICmdMadctl"
    if k == "ICmdInvert":
        return "ICmdInvert"
    if k == "ICmdPixelFormat":
        return f"ICmdPixelFormat {coq_pf(s[1])}"
    if k == "IRaw":
        return f"IRaw {s[1]} {zlist(s[2])}"
    if k == "INoProp":
        return f"INoProp ({coq_stmt(s[1])})"
    if k == "IRetMadctl":
        return "IRetMadctl"
    raise TranslateError(f"cannot print {s}")


def emit(repo, outdir, baseline=None, failed=None):
    """translate `repo` into outdir/{Models,Consts}.v. Each part (models, opcodes, capacities, test_image) fails
    closed on its own; with `baseline` (a source snapshot that translates) a failed part is taken from there and
    recorded in the dict `failed` (part -> error text). Without `baseline` any failure raises."""
    def part(name, fn):
        try:
            return fn(repo)
        except TranslateError as e:
            if baseline is None or failed is None:
                raise
            failed[name] = str(e)
            return fn(baseline)
        except Exception as e:  # anything unexpected in a parser is a translation failure too
            if baseline is None or failed is None:
                raise TranslateError("translator crashed in part %s: %r" % (name, e))
            failed[name] = "translator crashed: %r" % (e,)
            return fn(baseline)
    models = part("models", parse_models)
    consts = {}
    consts.update(part("opcodes", parse_opcodes))
    consts.update(part("capacities", parse_capacities))
    consts.update(part("test_image", parse_test_image))
    os.makedirs(outdir, exist_ok=True)
    L = []
    L.append("(* GENERATED by tools/rs2v.py from src/models/*.rs — do not edit. *)")
    L.append("Require Import Model.Base Model.Orient Model.Dcs Model.InitLang.")
    L.append("From Coq Require Import String.")
    L.append("Open Scope string_scope.")
    L.append("Open Scope Z_scope.")
    L.append("")
    for m in models:
        L.append(f"Definition prog_{m['name']} : list istmt := [")
        L.append(";\n".join("  " + coq_stmt(s) for s in m["flat"]))
        L.append("].")
        L.append("")
    L.append("Definition gen_models : list model_def := [")
    rows = []
    for m in models:
        rows.append(f"  {{| m_name := \"{m['name']}\"; m_fw := {m['fb'][0]}; m_fh := {m['fb'][1]}; "
                    f"m_color := C{m['color']}; m_prog := prog_{m['name']} |}}")
    L.append(";\n".join(rows))
    L.append("].")
    write_if_changed(os.path.join(outdir, "Models.v"), "\n".join(L) + "\n")

    C = []
    C.append("(* GENERATED by tools/rs2v.py from src/dcs*.rs, src/batch.rs, src/test_image.rs — do not edit. *)")
    C.append("From Coq Require Import ZArith List String.")
    C.append("Import ListNotations.")
    C.append("Open Scope string_scope.")
    C.append("Open Scope Z_scope.")
    C.append("")
    C.append("Definition gen_basic_opcodes : list (string * Z) := [")
    C.append(";\n".join(f"  (\"{n}\", {v})" for n, v in consts["basic"]))
    C.append("].")
    C.append("Definition gen_typed_opcodes : list (string * list (string * Z)) := [")
    rows = []
    for n, ops in consts["typed"]:
        if ops and isinstance(ops[0], tuple):
            rows.append(f"  (\"{n}\", [" + "; ".join(f"(\"{a}\", {v})" for a, v in ops) + "])")
        else:
            rows.append(f"  (\"{n}\", [(\"\", {ops[0]})])")
    C.append(";\n".join(rows))
    C.append("].")
    for n in ("MAX_ROW_SIZE", "MAX_BLOCK_SIZE", "BORDER_WIDTH", "BORDER_PADDING", "TOP_LEFT_MARKER_SIZE"):
        if n in consts:
            C.append(f"Definition gen_{n} : Z := {consts[n]}.")
    for g in ("R", "G", "B"):
        C.append(f"Definition gen_GLYPH_{g} : list Z := {zlist(consts['GLYPH_' + g])}.")
    write_if_changed(os.path.join(outdir, "Consts.v"), "\n".join(C) + "\n")
    return models, consts


def write_if_changed(path, text):
    if os.path.exists(path) and open(path).read() == text:
        return False
    with open(path, "w") as f:
        f.write(text)
    return True


if __name__ == "__main__":
    repo = sys.argv[1] if len(sys.argv) > 1 else "/repo"
    out = sys.argv[2] if len(sys.argv) > 2 else os.path.join(os.path.dirname(os.path.abspath(__file__)), "..", "coq", "Gen")
    try:
        models, consts = emit(repo, out)
    except TranslateError as e:
        print("TRANSLATE-ERROR: " + str(e))
        sys.exit(2)
    print(f"translated {len(models)} models: " + " ".join(m["name"] for m in models))
