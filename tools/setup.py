#!/usr/bin/env python3
"""setup: regenerate Gen/*.v, full Coq build, build the four harness variants. Offline."""
import os
import sys
sys.path.insert(0, os.path.dirname(os.path.abspath(__file__)))
import vlib

vlib.sync_coq_work()
ok, msg, _, _, _ = vlib.translate()
print("translator:", msg)
if not ok:
    sys.exit(1)
ok, out = vlib.coq_make([])
print(out[-3000:] if not ok else "coq: full build ok")
if not ok:
    sys.exit(1)
ok, out = vlib.build_harness()
print(out[-3000:] if not ok else "harness: 4 variants built")
sys.exit(0 if ok else 1)
