"""vlib.py — shared helpers for the /verif orchestrator: paths, PRNG, builds, running the harness,
evaluating case shards inside Coq, printing cases in Rust-line and Coq-term form."""
import concurrent.futures
import fcntl
import hashlib
import json
import os
import re
import subprocess
import sys
import time

ROOT = os.path.dirname(os.path.dirname(os.path.abspath(__file__)))
REPO = os.environ.get("VERIF_REPO", "/repo")
BUILD = os.path.join(ROOT, ".build") if REPO == "/repo" else os.path.join(
    ROOT, ".build", "alt-" + hashlib.sha1(REPO.encode()).hexdigest()[:10])
# replays and evidence of a run against a scratch copy (VERIF_REPO set) stay in that run's private build directory:
# the committed evidence describes /repo only
OUT = ROOT if REPO == "/repo" else BUILD
COQ = os.path.join(ROOT, "coq")
# with VERIF_REPO set, a private copy of the Coq tree is used so that Gen/*.v of /repo is not disturbed
COQ_WORK = COQ if REPO == "/repo" else os.path.join(BUILD, "coq")
HARNESS = os.path.join(ROOT, "harness")
QDIRS = ["Model", "Gen", "Oracle", "Proofs", "Props", "Corr"]
NPROC = min(16, os.cpu_count() or 4)


def log(msg):
    print(msg, flush=True)


# ------------------------------------------------------------------ PRNG (splitmix64)
class Rng:
    def __init__(self, seed):
        self.s = seed & 0xFFFFFFFFFFFFFFFF

    def next(self):
        self.s = (self.s + 0x9E3779B97F4A7C15) & 0xFFFFFFFFFFFFFFFF
        z = self.s
        z = ((z ^ (z >> 30)) * 0xBF58476D1CE4E5B9) & 0xFFFFFFFFFFFFFFFF
        z = ((z ^ (z >> 27)) * 0x94D049BB133111EB) & 0xFFFFFFFFFFFFFFFF
        return z ^ (z >> 31)

    def below(self, n):
        return self.next() % n if n > 0 else 0

    def range(self, lo, hi):
        """inclusive"""
        return lo + self.below(hi - lo + 1)

    def choice(self, xs):
        return xs[self.below(len(xs))]

    def chance(self, num, den):
        return self.below(den) < num

    def fork(self, tag):
        h = int.from_bytes(hashlib.sha256((str(self.s) + ":" + tag).encode()).digest()[:8], "big")
        return Rng(h)


# ------------------------------------------------------------------ locking / subprocess
class Lock:
    def __init__(self, name):
        os.makedirs(BUILD, exist_ok=True)
        self.path = os.path.join(BUILD, name + ".lock")

    def __enter__(self):
        self.f = open(self.path, "w")
        fcntl.flock(self.f, fcntl.LOCK_EX)
        return self

    def __exit__(self, *a):
        fcntl.flock(self.f, fcntl.LOCK_UN)
        self.f.close()


def _big_stack():
    """coqc parses large list literals recursively: lift the soft stack limit to the hard one"""
    try:
        import resource
        soft, hard = resource.getrlimit(resource.RLIMIT_STACK)
        resource.setrlimit(resource.RLIMIT_STACK, (hard, hard))
    except Exception:
        pass


def run(cmd, cwd=None, timeout=1800, env=None, stdin=None):
    e = dict(os.environ)
    e["CARGO_NET_OFFLINE"] = "true"
    if env:
        e.update(env)
    try:
        p = subprocess.run(cmd, cwd=cwd, env=e, input=stdin, capture_output=True, text=True, timeout=timeout, preexec_fn=_big_stack)
        return p.returncode, p.stdout, p.stderr
    except subprocess.TimeoutExpired as ex:
        return 124, (ex.stdout or b"").decode() if isinstance(ex.stdout, bytes) else (ex.stdout or ""), "TIMEOUT"


# ------------------------------------------------------------------ Coq build
def qflags(base=None):
    base = base or COQ_WORK
    out = []
    for d in QDIRS:
        out += ["-Q", os.path.join(base, d), d]
    return out


def sync_coq_work():
    if COQ_WORK == COQ:
        return
    os.makedirs(COQ_WORK, exist_ok=True)
    run(["rsync", "-a", "--delete", "--exclude", "*.vo", "--exclude", "*.vok", "--exclude", "*.vos",
         "--exclude", "*.glob", "--exclude", ".*.aux", "--exclude", "Gen/", "--exclude", "Makefile*",
         "--exclude", ".Makefile.d", COQ + "/", COQ_WORK + "/"])
    os.makedirs(os.path.join(COQ_WORK, "Gen"), exist_ok=True)


BASELINE_SRC = os.path.join(ROOT, "tools", "gen_baseline", "src_snapshot")


def translate():
    """regenerate Gen/*.v from the repository under test. Returns (ok, message, models, consts, failed_parts).
    Each part of the translation (models, opcodes, capacities, test_image) fails closed on its own; a failed part is
    taken from the committed baseline snapshot (the translation of the pinned, repaired tree) so that the
    correspondence and the oracles can still run, and is reported in failed_parts."""
    sys.path.insert(0, os.path.join(ROOT, "tools"))
    import rs2v
    failed = {}
    try:
        models, consts = rs2v.emit(REPO, os.path.join(COQ_WORK, "Gen"), baseline=BASELINE_SRC, failed=failed)
    except rs2v.TranslateError as e:
        return False, str(e), None, None, {"all": str(e)}
    except Exception as e:  # fail closed on anything unexpected
        return False, "translator crashed: %r" % (e,), None, None, {"all": repr(e)}
    if failed:
        return False, "; ".join("%s: %s" % kv for kv in sorted(failed.items())), models, consts, failed
    return True, "translated %d models" % len(models), models, consts, {}


def use_baseline_gen():
    """copy the committed baseline translation into Gen/ (used only when the translator fails on the current source)"""
    src = os.path.join(ROOT, "tools", "gen_baseline")
    dst = os.path.join(COQ_WORK, "Gen")
    os.makedirs(dst, exist_ok=True)
    for fn in ("Models.v", "Consts.v"):
        text = open(os.path.join(src, fn)).read()
        path = os.path.join(dst, fn)
        if not os.path.exists(path) or open(path).read() != text:
            open(path, "w").write(text)


def baseline_models():
    """model table of the pinned tree (for the case generators when the current source does not translate)"""
    sys.path.insert(0, os.path.join(ROOT, "tools"))
    import rs2v
    try:
        import tempfile
        with tempfile.TemporaryDirectory() as td:
            return rs2v.emit(os.path.join(ROOT, "tools", "gen_baseline", "src_snapshot"), td)
    except Exception:
        return None


def write_coqproject():
    lines = ["-Q %s %s" % (d, d) for d in QDIRS]
    for d in QDIRS:
        dd = os.path.join(COQ_WORK, d)
        if os.path.isdir(dd):
            for fn in sorted(os.listdir(dd)):
                if fn.endswith(".v") and not fn.startswith("."):
                    lines.append("%s/%s" % (d, fn))
    text = "\n".join(lines) + "\n"
    path = os.path.join(COQ_WORK, "_CoqProject")
    if not os.path.exists(path) or open(path).read() != text:
        with open(path, "w") as f:
            f.write(text)


def coq_make(targets, timeout=3000):
    """make the given .vo targets (all if empty). Returns (ok, output)."""
    with Lock("coq"):
        write_coqproject()
        if (not os.path.exists(os.path.join(COQ_WORK, "Makefile"))
                or os.path.getmtime(os.path.join(COQ_WORK, "Makefile")) < os.path.getmtime(os.path.join(COQ_WORK, "_CoqProject"))):
            rc, out, err = run(["coq_makefile", "-f", "_CoqProject", "-o", "Makefile"], cwd=COQ_WORK)
            if rc != 0:
                return False, out + err
        rc, out, err = run(["make", "-j%d" % NPROC] + targets, cwd=COQ_WORK, timeout=timeout)
        return rc == 0, out + err


def coqc_file(path, timeout=900):
    rc, out, err = run(["coqc", "-noglob"] + qflags() + [path], cwd=os.path.dirname(path), timeout=timeout)
    return rc, out, err


# ------------------------------------------------------------------ harness build / run
VARIANTS = {"db": ("debug", True), "dn": ("debug", False), "rb": ("release", True), "rn": ("release", False)}


def harness_bin(variant):
    prof, batch = VARIANTS[variant]
    return os.path.join(BUILD, "target-" + ("b" if batch else "n"), prof, "mipidsi-verif-harness")


def build_harness(variants=("db", "dn", "rb", "rn")):
    """(re)build the harness against the repository's current working tree. Returns (ok, output)."""
    with Lock("cargo"):
        tmpl = open(os.path.join(HARNESS, "Cargo.toml.in")).read().replace("@REPO@", REPO)
        hdir = HARNESS
        if REPO != "/repo":
            hdir = os.path.join(BUILD, "harness")
            os.makedirs(hdir, exist_ok=True)
            run(["rsync", "-a", "--delete", "--exclude", "target*", "--exclude", "Cargo.toml", "--exclude", "Cargo.lock",
                 HARNESS + "/", hdir + "/"])
        ct = os.path.join(hdir, "Cargo.toml")
        if not os.path.exists(ct) or open(ct).read() != tmpl:
            open(ct, "w").write(tmpl)
        lock_src = os.path.join(REPO, "Cargo.lock")
        lock_dst = os.path.join(hdir, "Cargo.lock")
        if not os.path.exists(lock_dst) and os.path.exists(lock_src):
            open(lock_dst, "w").write(open(lock_src).read())

        def one(v):
            prof, batch = VARIANTS[v]
            cmd = ["cargo", "build", "--offline", "--quiet"]
            if prof == "release":
                cmd.append("--release")
            if batch:
                cmd += ["--features", "batch"]
            env = {"CARGO_TARGET_DIR": os.path.join(BUILD, "target-" + ("b" if batch else "n")),
                   "VERIF_REPO_SRC": REPO}
            # debug and release of one feature set share a target dir: serialise them per dir
            return v, run(cmd, cwd=hdir, env=env, timeout=2400)

        outs = []
        ok = True
        groups = {}
        for v in variants:
            groups.setdefault(VARIANTS[v][1], []).append(v)

        def grp(vs):
            return [one(v) for v in vs]

        with concurrent.futures.ThreadPoolExecutor(max_workers=2) as ex:
            for res in ex.map(grp, groups.values()):
                for v, (rc, out, err) in res:
                    if rc != 0:
                        ok = False
                        outs.append("[%s] rc=%d\n%s\n%s" % (v, rc, out[-4000:], err[-6000:]))
        return ok, "\n".join(outs)


def run_harness(variant, lines, timeout=1800):
    """feed case lines to one harness binary; returns list of (coq_term, diagnostics)"""
    if not lines:
        return []
    rc, out, err = run([harness_bin(variant)], stdin="\n".join(lines) + "\n", timeout=timeout)
    res = out.split("\n")
    if res and res[-1] == "":
        res.pop()
    if rc != 0 or len(res) != len(lines):
        raise RuntimeError("harness %s failed: rc=%s, %d outputs for %d cases\n%s" % (variant, rc, len(res), len(lines), err[-2000:]))
    outp = []
    for r in res:
        if " ### " in r:
            a, b = r.split(" ### ", 1)
        elif r.endswith(" ###"):
            a, b = r[:-4], ""
        else:
            a, b = r, ""
        outp.append((a.strip(), b.strip()))
    return outp


def run_cases_on_harness(cases):
    """cases: list of Case; fills case.impl / case.diag"""
    by = {}
    for i, c in enumerate(cases):
        by.setdefault(c.variant, []).append(i)

    def one(item):
        v, idxs = item
        # split big groups so that several processes work in parallel
        chunks = [idxs[k:k + 400] for k in range(0, len(idxs), 400)]
        res = {}
        for ch in chunks:
            outs = run_harness(v, [cases[i].line for i in ch])
            for i, o in zip(ch, outs):
                res[i] = o
        return res

    with concurrent.futures.ThreadPoolExecutor(max_workers=NPROC) as ex:
        for res in ex.map(one, by.items()):
            for i, (term, diag) in res.items():
                cases[i].impl = term
                cases[i].diag = diag


class Case:
    def __init__(self, line, coq, variant, tags=(), nontrivial=True, descr=None):
        self.line = line          # input line for the harness
        self.coq = coq            # the same case as a Coq term
        self.variant = variant    # db / dn / rb / rn
        self.tags = list(tags)
        self.nontrivial = nontrivial
        self.descr = descr
        self.impl = None
        self.diag = ""

    def key(self):
        return hashlib.sha1((self.variant + "|" + self.line).encode()).hexdigest()


# ------------------------------------------------------------------ Coq evaluation of case shards
HEADER = """Require Import Model.Base Model.Orient Model.Dcs Model.Events Model.Builder Model.Rect Model.Batch Model.Display Model.InitLang Corr.Common.
Open Scope Z_scope.
"""


def safe_impl(term):
    """the implementation's output is pasted into a Coq file: accept only the expected alphabet"""
    return bool(re.fullmatch(r"[A-Za-z0-9_ ;,.\[\]\(\)\-]*", term)) and len(term) > 0


def eval_shards(prop, corr_module, cases, imports="", per_shard=60, check_name="check", workdir=None, case_type="(pcase * pout)"):
    """returns (failures: dict index -> code, errors: list of text) — code -1 = could not be evaluated"""
    wd = workdir or os.path.join(BUILD, "cases", prop)
    os.makedirs(wd, exist_ok=True)
    for f in os.listdir(wd):
        if f.startswith("s") and (f.endswith(".v") or f.endswith(".vo") or f.endswith(".out")):
            os.remove(os.path.join(wd, f))
    failures = {}
    errors = []
    shards = []
    ok_idx = []
    for i, c in enumerate(cases):
        if c.impl is None or not safe_impl(c.impl):
            failures[i] = -1
            errors.append("case %d: implementation output is not a well-formed term: %r" % (i, (c.impl or "")[:200]))
        else:
            ok_idx.append(i)
    # balance by size
    cur, cur_size = [], 0
    for i in ok_idx:
        sz = len(cases[i].coq) + len(cases[i].impl)
        if cur and (len(cur) >= per_shard or cur_size + sz > 400000):
            shards.append(cur)
            cur, cur_size = [], 0
        cur.append(i)
        cur_size += sz
    if cur:
        shards.append(cur)

    def write_and_run(k, idxs):
        path = os.path.join(wd, "s%d.v" % k)
        with open(path, "w") as f:
            f.write(HEADER)
            f.write("Require Import %s.\n%s\n" % (corr_module, imports))
            f.write("Definition cs : list %s := [\n" % case_type)
            f.write(";\n".join("(%s,\n %s)" % (cases[i].coq, cases[i].impl) for i in idxs))
            f.write("\n].\n")
            f.write("Eval vm_compute in (run_checks %s.%s cs).\n" % (corr_module, check_name))
        rc, out, err = coqc_file(path)
        return k, idxs, rc, out, err

    def parse(out):
        m = re.search(r"=\s*(\[.*?\])\s*:\s*list", out, re.S)
        if not m:
            return None
        return [(int(a), int(b)) for a, b in re.findall(r"\((\d+),\s*(\d+)\)", m.group(1))]

    with concurrent.futures.ThreadPoolExecutor(max_workers=NPROC) as ex:
        futs = [ex.submit(write_and_run, k, idxs) for k, idxs in enumerate(shards)]
        redo = []
        for fu in futs:
            k, idxs, rc, out, err = fu.result()
            res = parse(out) if rc == 0 else None
            if res is None:
                redo.append((k, idxs, (out + err)[-1500:]))
            else:
                for local, codev in res:
                    failures[idxs[local]] = codev
        # a shard that does not evaluate is re-run case by case to isolate the culprit
        single = []
        budget = 64
        for k, idxs, msg in redo:
            budget -= len(idxs)
            if len(idxs) == 1 or budget < 0:
                for i in idxs:
                    failures[i] = -1
                errors.append("cases %s: Coq evaluation failed: %s" % (idxs[:3], msg))
            else:
                for j, i in enumerate(idxs):
                    single.append(ex.submit(write_and_run, 100000 + k * 1000 + j, [i]))
        for fu in single:
            k, idxs, rc, out, err = fu.result()
            res = parse(out) if rc == 0 else None
            if res is None:
                failures[idxs[0]] = -1
                errors.append("case %d: Coq evaluation failed: %s" % (idxs[0], (out + err)[-1500:]))
            else:
                for local, codev in res:
                    failures[idxs[local]] = codev
    return failures, errors


def coq_eval_term(prop, corr_module, term, imports="", name="q"):
    wd = os.path.join(BUILD, "cases", prop)
    os.makedirs(wd, exist_ok=True)
    path = os.path.join(wd, name + ".v")
    with open(path, "w") as f:
        f.write(HEADER)
        f.write("Require Import %s.\n%s\n" % (corr_module, imports))
        f.write("Eval vm_compute in (%s).\n" % term)
    rc, out, err = coqc_file(path)
    return (out if rc == 0 else out + err).strip()


# ------------------------------------------------------------------ printers
def z(n):
    return str(n) if n >= 0 else "(%d)" % n


def b(x):
    return "true" if x else "false"


def zl(xs):
    return "[" + ";".join(z(x) for x in xs) + "]"


ROTS = ["D0", "D90", "D180", "D270"]


def coq_orient(rot, mir):
    return "{| rotn := %s; mir := %s |}" % (ROTS[rot], b(mir))


def compose_orient(r, m, k):
    """Orientation::rotate (k = 0..3 quarter turns) / flip_horizontal (4) / flip_vertical (5), as rectangle symmetries"""
    if k <= 3:
        return (r + k) % 4, m
    vert = r in (1, 3)
    if (k == 4) == vert:          # flip across the axis that is vertical on the panel: half turn + mirror
        return (r + 2) % 4, not m
    return r, not m


def coq_opts(o):
    return ("{| o_bgr := %s; o_orient := %s; o_inv := %s; o_btt := %s; o_rtl := %s; o_w := %d; o_h := %d; o_ox := %d; o_oy := %d |}"
            % (b(o["bgr"]), coq_orient(o["rot"], o["mir"]), b(o["inv"]), b(o["btt"]), b(o["rtl"]), o["w"], o["h"], o["ox"], o["oy"]))


def coq_rect(r):
    return "{| rx := %s; ry := %s; rw := %s; rh := %s |}" % (z(r[0]), z(r[1]), z(r[2]), z(r[3]))


TE = ["TeOff", "TeVertical", "TeHV"]


def coq_pop(op):
    k = op[0]
    if k == "sp":
        return "PSetPixel %d %d %d" % (op[1], op[2], op[3])
    if k == "sps":
        return "PSetPixels %d %d %d %d %s" % (op[1], op[2], op[3], op[4], zl(op[5]))
    if k == "di":
        return "PDrawIter [" + ";".join("(%s,%s,%s)" % (z(x), z(y), z(c)) for x, y, c in op[1]) + "]"
    if k == "fc":
        return "PFillContig %s %s" % (coq_rect(op[1]), zl(op[2]))
    if k == "fcg":
        return "PFillContigGen %s %d" % (coq_rect(op[1]), op[2])
    if k == "fcm":
        return "PFillContig %s (mod_colors %d %d)" % (coq_rect(op[1]), op[3], op[2])
    if k == "fs":
        return "PFillSolid %s %d" % (coq_rect(op[1]), op[2])
    if k == "cl":
        return "PClear %d" % op[1]
    if k == "so":
        return "PSetOrient %s" % coq_orient(op[1], op[2])
    if k == "sow":        # (word, resulting rot, resulting mir): the model is given the composed orientation
        return "PSetOrient %s" % coq_orient(op[2], op[3])
    if k == "vr":
        return "PScrollRegion %d %d" % (op[1], op[2])
    if k == "vo":
        return "PScrollOffset %d" % op[1]
    if k == "te":
        return "PTearing %s" % TE[op[1]]
    if k == "sl":
        return "PSleep"
    if k == "wk":
        return "PWake"
    raise ValueError(op)


def rust_pop(op):
    k = op[0]
    if k == "sp":
        return "sp %d %d %d" % (op[1], op[2], op[3])
    if k == "sps":
        return "sps %d %d %d %d %d %s" % (op[1], op[2], op[3], op[4], len(op[5]), " ".join(map(str, op[5])))
    if k == "di":
        return "di %d %s" % (len(op[1]), " ".join("%d %d %d" % p for p in op[1]))
    if k == "fc":
        return "fc %d %d %d %d %d %s" % (op[1][0], op[1][1], op[1][2], op[1][3], len(op[2]), " ".join(map(str, op[2])))
    if k == "fcg":
        return "fcg %d %d %d %d %d" % (op[1][0], op[1][1], op[1][2], op[1][3], op[2])
    if k == "fcm":
        return "fcm %d %d %d %d %d %d" % (op[1][0], op[1][1], op[1][2], op[1][3], op[2], op[3])
    if k == "fs":
        return "fs %d %d %d %d %d" % (op[1][0], op[1][1], op[1][2], op[1][3], op[2])
    if k in ("cl", "vo", "te"):
        return "%s %d" % (k, op[1])
    if k in ("so", "vr"):
        return "%s %d %d" % (k, op[1], op[2])
    if k in ("sl", "wk"):
        return k
    if k == "sow":
        return "sow %d %s" % (len(op[1]), " ".join(map(str, op[1])))
    raise ValueError(op)


def pcase(pc):
    """pc: dict -> Case for the `prog` scenario"""
    o = pc["opts"]
    variant = pc["md"] + ("b" if pc["batch"] else "n")
    ops_r = []
    ops_c = []
    for fail, op in pc["ops"]:
        if fail >= 0:
            ops_r.append("fail %d" % fail)
        ops_r.append(rust_pop(op))
        ops_c.append("(%s, %s)" % (z(fail), coq_pop(op)))
    line = "prog %d %d %d %d %d %d %d %d %d %d %d %d %d %d %d %d %d %s" % (
        pc["model"], pc["iface"], pc.get("ifparam", 0), int(pc["rst"]), int(pc.get("use_size", True)),
        o["w"], o["h"], o["ox"], o["oy"], o["rot"], int(o["mir"]), int(o["bgr"]), int(o["inv"]),
        int(o["btt"]), int(o["rtl"]), pc.get("init_fail", -1), pc.get("budget", 200000), " ".join(ops_r))
    coq = ("{| pc_md := %s; pc_batch := %s; pc_model := %d; pc_iface := %d; pc_ifparam := %d; pc_rst := %s; pc_opts := %s; pc_init_fail := %s; pc_ops := [%s] |}"
           % ("Debug" if pc["md"] == "d" else "Release", b(pc["batch"]), pc["model"], pc["iface"], pc.get("ifparam", 0),
              b(pc["rst"]), coq_opts(o), z(pc.get("init_fail", -1)), "; ".join(ops_c)))
    return Case(line.strip(), coq, variant, tags=pc.get("tags", ()), nontrivial=pc.get("nontrivial", True), descr=pc)


# model tables (ids as in harness/src/models.rs and coq/Corr/Common.v)
BUILTIN_IDS = ["GC9107", "GC9A01", "ILI9341Rgb565", "ILI9341Rgb666", "ILI9342CRgb565", "ILI9342CRgb666",
               "ILI9486Rgb565", "ILI9486Rgb666", "ILI9488Rgb565", "ILI9488Rgb666", "RM67162", "ST7735s",
               "ST7789", "ST7796"]
EXT_SIZES = [(1, 1), (2, 1), (1, 3), (2, 5), (7, 3), (16, 16), (240, 320), (300, 200), (65535, 65535),
             (65535, 1), (1, 65535), (40000, 50000), (100, 60)]
EXT666 = [0, 3, 4, 6, 8, 12]


def model_table(models):
    """id -> dict(name, fw, fh, color, kinds)"""
    t = {}
    if models:
        byname = {m["name"]: m for m in models}
        for i, n in enumerate(BUILTIN_IDS):
            if n in byname:
                m = byname[n]
                gates = [s[1] for s in m["flat"] if s[0] == "IGate"]
                kinds = set(("Serial4Line", "Parallel8Bit", "Parallel16Bit"))
                for g in gates:
                    kinds &= set(g)
                t[i] = dict(name=n, fw=m["fb"][0], fh=m["fb"][1], color=m["color"], kinds=kinds)
    for k, (w, h) in enumerate(EXT_SIZES):
        t[100 + k] = dict(name="Ext565<%d,%d>" % (w, h), fw=w, fh=h, color="Rgb565",
                          kinds=set(("Serial4Line", "Parallel8Bit", "Parallel16Bit")))
        if k in EXT666:
            t[200 + k] = dict(name="Ext666<%d,%d>" % (w, h), fw=w, fh=h, color="Rgb666",
                              kinds=set(("Serial4Line", "Parallel8Bit", "Parallel16Bit")))
    return t


def write_json(path, obj):
    os.makedirs(os.path.dirname(path), exist_ok=True)
    tmp = path + ".tmp"
    with open(tmp, "w") as f:
        json.dump(obj, f, indent=1, sort_keys=False)
        f.write("\n")
    os.replace(tmp, path)
