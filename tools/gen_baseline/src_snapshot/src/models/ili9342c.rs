use embedded_graphics_core::pixelcolor::{Rgb565, Rgb666};
use embedded_hal::delay::DelayNs;

use crate::{
    dcs::{BitsPerPixel, PixelFormat, SetAddressMode},
    interface::{Interface, InterfaceKind},
    models::{ili934x, Model, ModelInitError},
    options::ModelOptions,
    ConfigurationError,
};

/// ILI9342C display in Rgb565 color mode.
pub struct ILI9342CRgb565;

/// ILI9342C display in Rgb666 color mode.
pub struct ILI9342CRgb666;

impl Model for ILI9342CRgb565 {
    type ColorFormat = Rgb565;
    const FRAMEBUFFER_SIZE: (u16, u16) = (320, 240);

    fn init<DELAY, DI>(
        &mut self,
        di: &mut DI,
        delay: &mut DELAY,
        options: &ModelOptions,
    ) -> Result<SetAddressMode, ModelInitError<DI::Error>>
    where
        DELAY: DelayNs,
        DI: Interface,
    {
        if !matches!(
            DI::KIND,
            InterfaceKind::Serial4Line | InterfaceKind::Parallel8Bit | InterfaceKind::Parallel16Bit
        ) {
            return Err(ModelInitError::InvalidConfiguration(
                ConfigurationError::UnsupportedInterface,
            ));
        }

        let pf = PixelFormat::with_all(BitsPerPixel::from_rgb_color::<Self::ColorFormat>());
        ili934x::init_common(di, delay, options, pf).map_err(Into::into)
    }
}

impl Model for ILI9342CRgb666 {
    type ColorFormat = Rgb666;
    const FRAMEBUFFER_SIZE: (u16, u16) = (320, 240);

    fn init<DELAY, DI>(
        &mut self,
        di: &mut DI,
        delay: &mut DELAY,
        options: &ModelOptions,
    ) -> Result<SetAddressMode, ModelInitError<DI::Error>>
    where
        DELAY: DelayNs,
        DI: Interface,
    {
        if !matches!(
            DI::KIND,
            InterfaceKind::Serial4Line | InterfaceKind::Parallel8Bit | InterfaceKind::Parallel16Bit
        ) {
            return Err(ModelInitError::InvalidConfiguration(
                ConfigurationError::UnsupportedInterface,
            ));
        }

        let pf = PixelFormat::with_all(BitsPerPixel::from_rgb_color::<Self::ColorFormat>());
        ili934x::init_common(di, delay, options, pf).map_err(Into::into)
    }
}
