use embedded_graphics_core::pixelcolor::Rgb565;
use embedded_hal::delay::DelayNs;

use crate::{
    dcs::{
        BitsPerPixel, EnterNormalMode, ExitSleepMode, InterfaceExt, PixelFormat, SetAddressMode,
        SetDisplayOn, SetInvertMode, SetPixelFormat,
    },
    interface::{Interface, InterfaceKind},
    models::{Model, ModelInitError},
    options::ModelOptions,
    ConfigurationError,
};

/// ST7789 display in Rgb565 color mode.
pub struct ST7789;

impl Model for ST7789 {
    type ColorFormat = Rgb565;
    const FRAMEBUFFER_SIZE: (u16, u16) = (240, 320);

    fn init<DELAY, DI>(
        &mut self,
        di: &mut DI,
        delay: &mut DELAY,
        options: &ModelOptions,
    ) -> Result<SetAddressMode, ModelInitError<DI::Error>>
    where
        DELAY: DelayNs,
        DI: Interface,
    {
        if !matches!(
            DI::KIND,
            InterfaceKind::Serial4Line | InterfaceKind::Parallel8Bit | InterfaceKind::Parallel16Bit
        ) {
            return Err(ModelInitError::InvalidConfiguration(
                ConfigurationError::UnsupportedInterface,
            ));
        }

        let madctl = SetAddressMode::from(options);

        delay.delay_us(150_000);

        di.write_command(ExitSleepMode)?;
        delay.delay_us(10_000);

        // set hw scroll area based on framebuffer size
        di.write_command(madctl)?;

        di.write_command(SetInvertMode::new(options.invert_colors))?;

        let pf = PixelFormat::with_all(BitsPerPixel::from_rgb_color::<Self::ColorFormat>());
        di.write_command(SetPixelFormat::new(pf))?;
        delay.delay_us(10_000);
        di.write_command(EnterNormalMode)?;
        delay.delay_us(10_000);
        di.write_command(SetDisplayOn)?;

        // DISPON requires some time otherwise we risk SPI data issues
        delay.delay_us(120_000);

        Ok(madctl)
    }
}
