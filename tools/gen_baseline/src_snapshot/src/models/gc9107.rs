use embedded_graphics_core::pixelcolor::Rgb565;
use embedded_hal::delay::DelayNs;

use crate::{
    dcs::{
        BitsPerPixel, ExitSleepMode, InterfaceExt, PixelFormat, SetAddressMode, SetDisplayOn,
        SetInvertMode, SetPixelFormat,
    },
    interface::{Interface, InterfaceKind},
    models::{Model, ModelInitError},
    options::ModelOptions,
    ConfigurationError,
};

/// GC9107 display in Rgb565 color mode.
pub struct GC9107;

impl Model for GC9107 {
    type ColorFormat = Rgb565;
    const FRAMEBUFFER_SIZE: (u16, u16) = (128, 160);

    fn init<DELAY, DI>(
        &mut self,
        di: &mut DI,
        delay: &mut DELAY,
        options: &ModelOptions,
    ) -> Result<SetAddressMode, ModelInitError<DI::Error>>
    where
        DELAY: DelayNs,
        DI: Interface,
    {
        if !matches!(
            DI::KIND,
            InterfaceKind::Serial4Line | InterfaceKind::Parallel8Bit
        ) {
            return Err(ModelInitError::InvalidConfiguration(
                ConfigurationError::UnsupportedInterface,
            ));
        }

        delay.delay_ms(200);

        di.write_raw(0xFE, &[])?;
        delay.delay_ms(5);
        di.write_raw(0xEF, &[])?;
        delay.delay_ms(5);

        di.write_raw(0xB0, &[0xC0])?;
        di.write_raw(0xB2, &[0x2F])?;
        di.write_raw(0xB3, &[0x03])?;
        di.write_raw(0xB6, &[0x19])?;
        di.write_raw(0xB7, &[0x01])?;

        let madctl = SetAddressMode::from(options);
        di.write_command(madctl)?;

        di.write_raw(0xAC, &[0xCB])?;
        di.write_raw(0xAB, &[0x0E])?;

        di.write_raw(0xB4, &[0x04])?;

        di.write_raw(0xA8, &[0x19])?;

        let pf = PixelFormat::with_all(BitsPerPixel::from_rgb_color::<Self::ColorFormat>());
        di.write_command(SetPixelFormat::new(pf))?;

        di.write_raw(0xB8, &[0x08])?;

        di.write_raw(0xE8, &[0x24])?;

        di.write_raw(0xE9, &[0x48])?;

        di.write_raw(0xEA, &[0x22])?;

        di.write_raw(0xC6, &[0x30])?;
        di.write_raw(0xC7, &[0x18])?;

        di.write_raw(
            0xF0,
            &[
                0x01, 0x2b, 0x23, 0x3c, 0xb7, 0x12, 0x17, 0x60, 0x00, 0x06, 0x0c, 0x17, 0x12, 0x1f,
            ],
        )?;

        di.write_raw(
            0xF1,
            &[
                0x05, 0x2e, 0x2d, 0x44, 0xd6, 0x15, 0x17, 0xa0, 0x02, 0x0d, 0x0d, 0x1a, 0x18, 0x1f,
            ],
        )?;

        di.write_command(SetInvertMode::new(options.invert_colors))?;

        di.write_command(ExitSleepMode)?; // turn off sleep
        delay.delay_ms(120);

        di.write_command(SetDisplayOn)?; // turn on display

        Ok(madctl)
    }
}
