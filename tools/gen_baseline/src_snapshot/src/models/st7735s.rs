use embedded_graphics_core::pixelcolor::Rgb565;
use embedded_hal::delay::DelayNs;

use crate::{
    dcs::{
        BitsPerPixel, ExitSleepMode, InterfaceExt, PixelFormat, SetAddressMode, SetDisplayOn,
        SetInvertMode, SetPixelFormat,
    },
    interface::{Interface, InterfaceKind},
    models::{Model, ModelInitError},
    options::ModelOptions,
    ConfigurationError,
};

/// ST7735s display in Rgb565 color mode.
pub struct ST7735s;

impl Model for ST7735s {
    type ColorFormat = Rgb565;
    const FRAMEBUFFER_SIZE: (u16, u16) = (132, 162);

    fn init<DELAY, DI>(
        &mut self,
        di: &mut DI,
        delay: &mut DELAY,
        options: &ModelOptions,
    ) -> Result<SetAddressMode, ModelInitError<DI::Error>>
    where
        DELAY: DelayNs,
        DI: Interface,
    {
        if !matches!(
            DI::KIND,
            InterfaceKind::Serial4Line | InterfaceKind::Parallel8Bit | InterfaceKind::Parallel16Bit
        ) {
            return Err(ModelInitError::InvalidConfiguration(
                ConfigurationError::UnsupportedInterface,
            ));
        }

        let madctl = SetAddressMode::from(options);

        delay.delay_us(200_000);

        di.write_command(ExitSleepMode)?; // turn off sleep
        delay.delay_us(120_000);

        di.write_command(SetInvertMode::new(options.invert_colors))?; // set color inversion
        di.write_raw(0xB1, &[0x05, 0x3A, 0x3A])?; // set frame rate
        di.write_raw(0xB2, &[0x05, 0x3A, 0x3A])?; // set frame rate
        di.write_raw(0xB3, &[0x05, 0x3A, 0x3A, 0x05, 0x3A, 0x3A])?; // set frame rate
        di.write_raw(0xB4, &[0b0000_0011])?; // set inversion control
        di.write_raw(0xC0, &[0x62, 0x02, 0x04])?; // set power control 1
        di.write_raw(0xC1, &[0xC0])?; // set power control 2
        di.write_raw(0xC2, &[0x0D, 0x00])?; // set power control 3
        di.write_raw(0xC3, &[0x8D, 0x6A])?; // set power control 4
        di.write_raw(0xC4, &[0x8D, 0xEE])?; // set power control 5
        di.write_raw(0xC5, &[0x0E])?; // set VCOM control 1
        di.write_raw(
            0xE0,
            &[
                0x10, 0x0E, 0x02, 0x03, 0x0E, 0x07, 0x02, 0x07, 0x0A, 0x12, 0x27, 0x37, 0x00, 0x0D,
                0x0E, 0x10,
            ],
        )?; // set GAMMA +Polarity characteristics
        di.write_raw(
            0xE1,
            &[
                0x10, 0x0E, 0x03, 0x03, 0x0F, 0x06, 0x02, 0x08, 0x0A, 0x13, 0x26, 0x36, 0x00, 0x0D,
                0x0E, 0x10,
            ],
        )?; // set GAMMA -Polarity characteristics

        let pf = PixelFormat::with_all(BitsPerPixel::from_rgb_color::<Self::ColorFormat>());
        di.write_command(SetPixelFormat::new(pf))?; // set interface pixel format, 16bit pixel into frame memory

        di.write_command(madctl)?; // set memory data access control, Top -> Bottom, RGB, Left -> Right
        di.write_command(SetDisplayOn)?; // turn on display

        Ok(madctl)
    }
}
