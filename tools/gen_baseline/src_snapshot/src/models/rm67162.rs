use embedded_graphics_core::pixelcolor::Rgb565;
use embedded_hal::delay::DelayNs;

use crate::{
    dcs::{
        BitsPerPixel, ExitSleepMode, InterfaceExt, PixelFormat, SetAddressMode, SetDisplayOn,
        SetInvertMode, SetPixelFormat,
    },
    interface::{Interface, InterfaceKind},
    models::{Model, ModelInitError},
    options::ModelOptions,
    ConfigurationError,
};

/// RM67162 AMOLED display driver implementation
///
/// Supports:
/// - 16-bit RGB565 color
/// - 240x536 resolution
///
/// This driver was developed for the Lilygo T-Display-S3 AMOLED display (v2).
/// The initialization sequence is based on Lilygo's Arduino example code.
///
/// Currently only tested with 240x536 resolution displays.
/// While it may work with other display sizes, this is untested and could lead to unexpected behavior.
/// If you encounter issues with different display sizes, please report them.
///
pub struct RM67162;

impl Model for RM67162 {
    type ColorFormat = Rgb565;
    const FRAMEBUFFER_SIZE: (u16, u16) = (240, 536);

    fn init<DELAY, DI>(
        &mut self,
        di: &mut DI,
        delay: &mut DELAY,
        options: &ModelOptions,
    ) -> Result<SetAddressMode, ModelInitError<DI::Error>>
    where
        DELAY: DelayNs,
        DI: Interface,
    {
        if !matches!(
            DI::KIND,
            InterfaceKind::Serial4Line | InterfaceKind::Parallel8Bit
        ) {
            return Err(ModelInitError::InvalidConfiguration(
                ConfigurationError::UnsupportedInterface,
            ));
        }

        let madctl = SetAddressMode::from(options);

        di.write_raw(0xFE, &[0x04])?;
        di.write_raw(0x6A, &[0x00])?;
        di.write_raw(0xFE, &[0x05])?;
        di.write_raw(0xFE, &[0x07])?;
        di.write_raw(0x07, &[0x4F])?;
        di.write_raw(0xFE, &[0x01])?;
        di.write_raw(0x2A, &[0x02])?;
        di.write_raw(0x2B, &[0x73])?;
        di.write_raw(0xFE, &[0x0A])?;
        di.write_raw(0x29, &[0x10])?;
        di.write_raw(0xFE, &[0x00])?;
        di.write_raw(0x51, &[0xaf])?; // Set brightness
        di.write_raw(0x53, &[0x20])?;
        di.write_raw(0x35, &[0x00])?;

        let pf = PixelFormat::with_all(BitsPerPixel::from_rgb_color::<Self::ColorFormat>());
        di.write_command(SetPixelFormat::new(pf))?;

        di.write_raw(0xC4, &[0x80])?; // enable SRAM access via SPI

        di.write_command(madctl)?;

        di.write_command(SetInvertMode::new(options.invert_colors))?;

        di.write_command(ExitSleepMode)?;
        delay.delay_us(120_000);

        di.write_command(SetDisplayOn)?;

        Ok(madctl)
    }
}
