use embedded_graphics_core::pixelcolor::Rgb565;
use embedded_hal::delay::DelayNs;

use crate::{
    dcs::SetAddressMode,
    interface::{Interface, InterfaceKind},
    models::{Model, ModelInitError},
    options::ModelOptions,
    ConfigurationError,
};

/// ST7796 display in Rgb565 color mode.
pub struct ST7796;

impl Model for ST7796 {
    type ColorFormat = Rgb565;
    const FRAMEBUFFER_SIZE: (u16, u16) = (320, 480);

    fn init<DELAY, DI>(
        &mut self,
        di: &mut DI,
        delay: &mut DELAY,
        options: &ModelOptions,
    ) -> Result<SetAddressMode, ModelInitError<DI::Error>>
    where
        DELAY: DelayNs,
        DI: Interface,
    {
        if !matches!(
            DI::KIND,
            InterfaceKind::Serial4Line | InterfaceKind::Parallel8Bit | InterfaceKind::Parallel16Bit
        ) {
            return Err(ModelInitError::InvalidConfiguration(
                ConfigurationError::UnsupportedInterface,
            ));
        }

        super::ST7789.init(di, delay, options)
    }
}
