use embedded_graphics_core::pixelcolor::Rgb565;
use embedded_hal::delay::DelayNs;

use crate::{
    dcs::{
        BitsPerPixel, ExitSleepMode, InterfaceExt, PixelFormat, SetAddressMode, SetDisplayOn,
        SetInvertMode, SetPixelFormat,
    },
    interface::{Interface, InterfaceKind},
    models::{Model, ModelInitError},
    options::ModelOptions,
    ConfigurationError,
};

/// GC9A01 display in Rgb565 color mode.
pub struct GC9A01;

impl Model for GC9A01 {
    type ColorFormat = Rgb565;
    const FRAMEBUFFER_SIZE: (u16, u16) = (240, 240);

    fn init<DELAY, DI>(
        &mut self,
        di: &mut DI,
        delay: &mut DELAY,
        options: &ModelOptions,
    ) -> Result<SetAddressMode, ModelInitError<DI::Error>>
    where
        DELAY: DelayNs,
        DI: Interface,
    {
        if !matches!(
            DI::KIND,
            InterfaceKind::Serial4Line | InterfaceKind::Parallel8Bit | InterfaceKind::Parallel16Bit
        ) {
            return Err(ModelInitError::InvalidConfiguration(
                ConfigurationError::UnsupportedInterface,
            ));
        }

        let madctl = SetAddressMode::from(options);

        delay.delay_us(200_000);

        di.write_raw(0xEF, &[])?; // inter register enable 2
        di.write_raw(0xEB, &[0x14])?;
        di.write_raw(0xFE, &[])?; // inter register enable 1
        di.write_raw(0xEF, &[])?; // inter register enable 2
        di.write_raw(0xEB, &[0x14])?;

        di.write_raw(0x84, &[0x40])?;
        di.write_raw(0x85, &[0xFF])?;
        di.write_raw(0x86, &[0xFF])?;
        di.write_raw(0x87, &[0xFF])?;
        di.write_raw(0x88, &[0x0A])?;
        di.write_raw(0x89, &[0x21])?;
        di.write_raw(0x8A, &[0x00])?;
        di.write_raw(0x8B, &[0x80])?;
        di.write_raw(0x8C, &[0x01])?;
        di.write_raw(0x8D, &[0x01])?;
        di.write_raw(0x8E, &[0xFF])?;
        di.write_raw(0x8F, &[0xFF])?;

        di.write_raw(0xB6, &[0x00, 0x20])?; // display function control

        di.write_command(madctl)?; // set memory data access control, Top -> Bottom, RGB, Left -> Right

        let pf = PixelFormat::with_all(BitsPerPixel::from_rgb_color::<Self::ColorFormat>());
        di.write_command(SetPixelFormat::new(pf))?; // set interface pixel format, 16bit pixel into frame memory

        di.write_raw(0x90, &[0x08, 0x08, 0x08, 0x08])?;
        di.write_raw(0xBD, &[0x06])?;
        di.write_raw(0xBC, &[0x00])?;
        di.write_raw(0xFF, &[0x60, 0x01, 0x04])?;

        di.write_raw(0xC3, &[0x13])?; // power control 2
        di.write_raw(0xC4, &[0x13])?; // power control 3
        di.write_raw(0xC9, &[0x22])?; // power control 4

        di.write_raw(0xBE, &[0x11])?;
        di.write_raw(0xE1, &[0x10, 0x0E])?;
        di.write_raw(0xDF, &[0x20, 0x0c, 0x02])?;

        di.write_raw(0xF0, &[0x45, 0x09, 0x08, 0x08, 0x26, 0x2A])?; // gamma 1
        di.write_raw(0xF1, &[0x43, 0x70, 0x72, 0x36, 0x37, 0x6f])?; // gamma 2
        di.write_raw(0xF2, &[0x45, 0x09, 0x08, 0x08, 0x26, 0x2A])?; // gamma 3
        di.write_raw(0xF3, &[0x43, 0x70, 0x72, 0x36, 0x37, 0x6f])?; // gamma 4

        di.write_raw(0xED, &[0x18, 0x0B])?;
        di.write_raw(0xAE, &[0x77])?;
        di.write_raw(0xCD, &[0x63])?;

        di.write_raw(
            0x70,
            &[0x07, 0x07, 0x04, 0x0E, 0x0F, 0x09, 0x07, 0x08, 0x03],
        )?;

        di.write_raw(0xE8, &[0x34])?; // framerate

        di.write_raw(
            0x62,
            &[
                0x18, 0x0D, 0x71, 0xED, 0x70, 0x70, 0x18, 0x0F, 0x71, 0xEF, 0x70, 0x70,
            ],
        )?;
        di.write_raw(
            0x63,
            &[
                0x18, 0x11, 0x71, 0xF1, 0x70, 0x70, 0x18, 0x13, 0x71, 0xF3, 0x70, 0x70,
            ],
        )?;
        di.write_raw(0x64, &[0x28, 0x29, 0xF1, 0x01, 0xF1, 0x00, 0x07])?;
        di.write_raw(
            0x66,
            &[0x3C, 0x00, 0xCD, 0x67, 0x45, 0x45, 0x10, 0x00, 0x00, 0x00],
        )?;
        di.write_raw(
            0x67,
            &[0x00, 0x3C, 0x00, 0x00, 0x00, 0x01, 0x54, 0x10, 0x32, 0x98],
        )?;

        di.write_raw(0x74, &[0x10, 0x85, 0x80, 0x00, 0x00, 0x4E, 0x00])?;
        di.write_raw(0x98, &[0x3e, 0x07])?;

        di.write_command(SetInvertMode::new(options.invert_colors))?; // set color inversion

        di.write_command(ExitSleepMode)?; // turn off sleep
        delay.delay_us(120_000);

        di.write_command(SetDisplayOn)?; // turn on display

        Ok(madctl)
    }
}
