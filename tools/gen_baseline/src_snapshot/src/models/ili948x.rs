use embedded_hal::delay::DelayNs;

use crate::{
    dcs::{
        EnterNormalMode, ExitSleepMode, InterfaceExt, PixelFormat, SetAddressMode, SetDisplayOn,
        SetInvertMode, SetPixelFormat,
    },
    interface::Interface,
    models::ModelInitError,
    options::ModelOptions,
};

/// Common init for all ILI948x models and color formats.
pub fn init_common<DELAY, DI>(
    di: &mut DI,
    delay: &mut DELAY,
    options: &ModelOptions,
    pixel_format: PixelFormat,
) -> Result<SetAddressMode, ModelInitError<DI::Error>>
where
    DELAY: DelayNs,
    DI: Interface,
{
    let madctl = SetAddressMode::from(options);
    di.write_command(ExitSleepMode)?; // turn off sleep
    di.write_command(SetPixelFormat::new(pixel_format))?; // pixel format
    di.write_command(madctl)?; // left -> right, bottom -> top RGB
                               // dcs.write_command(Instruction::VCMOFSET, &[0x00, 0x48, 0x00, 0x48])?; //VCOM  Control 1 [00 40 00 40]
                               // dcs.write_command(Instruction::INVCO, &[0x0])?; //Inversion Control [00]
    di.write_command(SetInvertMode::new(options.invert_colors))?;

    // optional gamma setup
    // dcs.write_raw(Instruction::PGC, &[0x00, 0x2C, 0x2C, 0x0B, 0x0C, 0x04, 0x4C, 0x64, 0x36, 0x03, 0x0E, 0x01, 0x10, 0x01, 0x00])?; // Positive Gamma Control
    // dcs.write_raw(Instruction::NGC, &[0x0F, 0x37, 0x37, 0x0C, 0x0F, 0x05, 0x50, 0x32, 0x36, 0x04, 0x0B, 0x00, 0x19, 0x14, 0x0F])?; // Negative Gamma Control

    di.write_raw(0xB6, &[0b0000_0010, 0x02, 0x3B])?; // DFC
    di.write_command(EnterNormalMode)?; // turn to normal mode
    di.write_command(SetDisplayOn)?; // turn on display

    // DISPON requires some time otherwise we risk SPI data issues
    delay.delay_us(120_000);

    Ok(madctl)
}
