use embedded_hal::delay::DelayNs;

use crate::{
    dcs::{
        EnterNormalMode, ExitSleepMode, InterfaceExt, PixelFormat, SetAddressMode, SetDisplayOn,
        SetInvertMode, SetPixelFormat,
    },
    interface::Interface,
    options::ModelOptions,
};

/// Common init for all ILI934x controllers and color formats.
pub fn init_common<DELAY, DI>(
    di: &mut DI,
    delay: &mut DELAY,
    options: &ModelOptions,
    pixel_format: PixelFormat,
) -> Result<SetAddressMode, DI::Error>
where
    DELAY: DelayNs,
    DI: Interface,
{
    let madctl = SetAddressMode::from(options);

    // 15.4:  It is necessary to wait 5msec after releasing RESX before sending commands.
    // 8.2.2: It will be necessary to wait 5msec before sending new command following software reset.
    delay.delay_us(5_000);

    di.write_command(madctl)?;
    di.write_raw(0xB4, &[0x0])?;
    di.write_command(SetInvertMode::new(options.invert_colors))?;
    di.write_command(SetPixelFormat::new(pixel_format))?;

    di.write_command(EnterNormalMode)?;

    // 8.2.12: It will be necessary to wait 120msec after sending Sleep In command (when in Sleep Out mode)
    //          before Sleep Out command can be sent.
    // The reset might have implicitly called the Sleep In command if the controller is reinitialized.
    delay.delay_us(120_000);

    di.write_command(ExitSleepMode)?;

    // 8.2.12: It takes 120msec to become Sleep Out mode after SLPOUT command issued.
    // 13.2 Power ON Sequence: Delay should be 60ms + 80ms
    delay.delay_us(140_000);

    di.write_command(SetDisplayOn)?;

    Ok(madctl)
}
