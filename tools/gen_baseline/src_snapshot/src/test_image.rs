use core::marker::PhantomData;

use embedded_graphics_core::{
    geometry::{AnchorPoint, AnchorX},
    prelude::*,
    primitives::Rectangle,
};

/// Test image.
///
/// The test image can be used to check if the display is working and to
/// identify the correct orientation and color settings.
///
/// # Expected output
///
#[doc = include_str!("../assets/test_image.svg")]
///
/// Note that the gray border around the image above is only added to make the
/// white border visible on the light rustdoc theme and will not be visible when
/// the test image is drawn.
///
/// - There should be a one pixel white border around the display.  
///   Modify the [display size](crate::Builder::display_size) and [display
///   offset](crate::Builder::display_offset) settings, if at least one
///   edge of the white border isn't drawn or if there is a gap between the
///   white border and the edge of the display.
/// - A white triangle should be drawn in the top left corner and the RGB label text should not be mirrored.  
///   Modify the [orientation](crate::Builder::orientation) setting to
///   rotate and mirror the display until the test image is displayed correctly.
///   Note that the white triangle might not be visible on displays with rounded
///   corners.
/// - The colored bars should match the labels.  
///   Use the [color inversion](crate::Builder::invert_colors) and [color
///   order](crate::Builder::color_order) settings until the colored bars
///   and labels match.
#[derive(Default)]
pub struct TestImage<C: RgbColor> {
    color_type: PhantomData<C>,
}

impl<C: RgbColor> TestImage<C> {
    /// Creates a new test image
    pub const fn new() -> Self {
        Self {
            color_type: PhantomData,
        }
    }
}

const BORDER_WIDTH: u32 = 1;
const BORDER_PADDING: u32 = 4;
const TOP_LEFT_MARKER_SIZE: u32 = 20;

impl<C: RgbColor> Drawable for TestImage<C> {
    type Color = C;
    type Output = ();

    fn draw<D>(&self, target: &mut D) -> Result<Self::Output, D::Error>
    where
        D: DrawTarget<Color = Self::Color>,
    {
        draw_border(target, BORDER_WIDTH)?;

        let color_bar_area = target
            .bounding_box()
            .offset(-i32::try_from(BORDER_WIDTH + BORDER_PADDING).unwrap());
        draw_color_bars(target, &color_bar_area)?;

        draw_top_left_marker(target, &color_bar_area, TOP_LEFT_MARKER_SIZE)?;

        Ok(())
    }
}

/// Draws a white border around the draw target.
fn draw_border<D>(target: &mut D, width: u32) -> Result<(), D::Error>
where
    D: DrawTarget,
    D::Color: RgbColor,
{
    let bounding_box = target.bounding_box();
    let inner_box = bounding_box.offset(-i32::try_from(width).unwrap());

    target.fill_contiguous(
        &bounding_box,
        bounding_box.points().map(|p| {
            if inner_box.contains(p) {
                D::Color::BLACK
            } else {
                D::Color::WHITE
            }
        }),
    )
}

/// Draws RGB color bars and labels.
fn draw_color_bars<D>(target: &mut D, area: &Rectangle) -> Result<(), D::Error>
where
    D: DrawTarget,
    D::Color: RgbColor,
{
    target.fill_solid(area, RgbColor::GREEN)?;
    Character::new(G, area.center()).draw(target)?;

    let rect = area.resized_width(area.size.width / 3, AnchorX::Left);
    target.fill_solid(&rect, RgbColor::RED)?;
    Character::new(R, rect.center()).draw(target)?;

    let rect = area.resized_width(area.size.width / 3, AnchorX::Right);
    target.fill_solid(&rect, RgbColor::BLUE)?;
    Character::new(B, rect.center()).draw(target)?;

    Ok(())
}

// Draws a triangular marker in the top left corner.
fn draw_top_left_marker<D>(target: &mut D, area: &Rectangle, size: u32) -> Result<(), D::Error>
where
    D: DrawTarget,
    D::Color: RgbColor,
{
    let mut rect = area.resized(Size::new(size, 1), AnchorPoint::TopLeft);

    while rect.size.width > 0 {
        target.fill_solid(&rect, D::Color::WHITE)?;

        rect.top_left.y += 1;
        rect.size.width -= 1;
    }

    Ok(())
}

const R: &[u8] = &[
    0, 0, 0, 0, 0, 0, 0, 0, 0, //
    0, 0, 0, 0, 0, 0, 0, 0, 0, //
    0, 0, 1, 1, 1, 1, 0, 0, 0, //
    0, 0, 1, 0, 0, 0, 1, 0, 0, //
    0, 0, 1, 0, 0, 0, 1, 0, 0, //
    0, 0, 1, 1, 1, 1, 0, 0, 0, //
    0, 0, 1, 0, 1, 0, 0, 0, 0, //
    0, 0, 1, 0, 0, 1, 0, 0, 0, //
    0, 0, 1, 0, 0, 0, 1, 0, 0, //
    0, 0, 0, 0, 0, 0, 0, 0, 0, //
    0, 0, 0, 0, 0, 0, 0, 0, 0, //
];

const G: &[u8] = &[
    0, 0, 0, 0, 0, 0, 0, 0, 0, //
    0, 0, 0, 0, 0, 0, 0, 0, 0, //
    0, 0, 0, 1, 1, 1, 1, 0, 0, //
    0, 0, 1, 0, 0, 0, 0, 0, 0, //
    0, 0, 1, 0, 0, 0, 0, 0, 0, //
    0, 0, 1, 0, 1, 1, 1, 0, 0, //
    0, 0, 1, 0, 0, 0, 1, 0, 0, //
    0, 0, 1, 0, 0, 0, 1, 0, 0, //
    0, 0, 0, 1, 1, 1, 1, 0, 0, //
    0, 0, 0, 0, 0, 0, 0, 0, 0, //
    0, 0, 0, 0, 0, 0, 0, 0, 0, //
];

const B: &[u8] = &[
    0, 0, 0, 0, 0, 0, 0, 0, 0, //
    0, 0, 0, 0, 0, 0, 0, 0, 0, //
    0, 0, 1, 1, 1, 1, 0, 0, 0, //
    0, 0, 1, 0, 0, 0, 1, 0, 0, //
    0, 0, 1, 0, 0, 0, 1, 0, 0, //
    0, 0, 1, 1, 1, 1, 0, 0, 0, //
    0, 0, 1, 0, 0, 0, 1, 0, 0, //
    0, 0, 1, 0, 0, 0, 1, 0, 0, //
    0, 0, 1, 1, 1, 1, 0, 0, 0, //
    0, 0, 0, 0, 0, 0, 0, 0, 0, //
    0, 0, 0, 0, 0, 0, 0, 0, 0, //
];

struct Character<C> {
    data: &'static [u8],
    center: Point,
    color_type: PhantomData<C>,
}

impl<C> Character<C> {
    fn new(data: &'static [u8], center: Point) -> Self {
        Self {
            data,
            center,
            color_type: PhantomData,
        }
    }
}

impl<C: RgbColor> Drawable for Character<C> {
    type Color = C;
    type Output = ();

    fn draw<D>(&self, target: &mut D) -> Result<(), D::Error>
    where
        D: DrawTarget<Color = Self::Color>,
    {
        let rect = Rectangle::with_center(self.center, Size::new(9, 11));

        target.fill_contiguous(
            &rect,
            self.data.iter().map(|d| {
                if *d == 0 {
                    RgbColor::BLACK
                } else {
                    RgbColor::WHITE
                }
            }),
        )
    }
}
