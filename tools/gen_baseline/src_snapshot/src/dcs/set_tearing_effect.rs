use crate::options::TearingEffect;

use super::DcsCommand;

/// Set Tearing Effect
#[derive(Debug, Clone, Copy, PartialEq, Eq)]
pub struct SetTearingEffect(TearingEffect);

impl SetTearingEffect {
    /// Construct a new SetTearingEffect DCS with the given value
    pub fn new(tearing_effect: TearingEffect) -> Self {
        SetTearingEffect(tearing_effect)
    }
}

impl DcsCommand for SetTearingEffect {
    fn instruction(&self) -> u8 {
        match self.0 {
            TearingEffect::Off => 0x34,
            TearingEffect::Vertical => 0x35,
            TearingEffect::HorizontalAndVertical => 0x35,
        }
    }

    fn fill_params_buf(&self, buffer: &mut [u8]) -> usize {
        match self.0 {
            TearingEffect::Off => 0,
            TearingEffect::Vertical => {
                buffer[0] = 0x0;
                1
            }
            TearingEffect::HorizontalAndVertical => {
                buffer[0] = 0x1;
                1
            }
        }
    }
}

#[cfg(test)]
mod tests {
    use super::*;

    #[test]
    fn set_tearing_effect_both_fills_param_properly() {
        let ste = SetTearingEffect(TearingEffect::HorizontalAndVertical);

        let mut buffer = [0u8; 1];
        assert_eq!(ste.instruction(), 0x35);
        assert_eq!(ste.fill_params_buf(&mut buffer), 1);
        assert_eq!(buffer, [0x1]);
    }

    #[test]
    fn set_tearing_effect_off_fills_param_properly() {
        let ste = SetTearingEffect(TearingEffect::Off);

        let mut buffer = [0u8; 0];
        assert_eq!(ste.instruction(), 0x34);
        assert_eq!(ste.fill_params_buf(&mut buffer), 0);
    }
}
