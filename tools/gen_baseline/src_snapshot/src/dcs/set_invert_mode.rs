use crate::options::ColorInversion;

use super::DcsCommand;

/// Set Invert Mode
#[derive(Debug, Clone, Copy, PartialEq, Eq)]
pub struct SetInvertMode(ColorInversion);

impl SetInvertMode {
    /// Construct a new SetInvertMode DCS with the given value
    pub fn new(color_inversion: ColorInversion) -> Self {
        SetInvertMode(color_inversion)
    }
}

impl DcsCommand for SetInvertMode {
    fn instruction(&self) -> u8 {
        match self.0 {
            ColorInversion::Normal => 0x20,
            ColorInversion::Inverted => 0x21,
        }
    }

    fn fill_params_buf(&self, _buffer: &mut [u8]) -> usize {
        0
    }
}

#[cfg(test)]
mod tests {
    use super::*;

    #[test]
    fn set_invert_mode_chooses_correct_instruction() {
        let ste = SetInvertMode(ColorInversion::Inverted);

        let mut buffer = [0u8; 0];
        assert_eq!(ste.instruction(), 0x21);
        assert_eq!(ste.fill_params_buf(&mut buffer), 0);
    }
}
