//! Module for the CASET address window instruction constructors

use super::DcsCommand;

/// Set Column Address
#[derive(Debug, Clone, PartialEq, Eq)]
pub struct SetColumnAddress {
    start_column: u16,
    end_column: u16,
}

impl SetColumnAddress {
    /// Creates a new Set Column Address command.
    pub const fn new(start_column: u16, end_column: u16) -> Self {
        Self {
            start_column,
            end_column,
        }
    }
}

impl DcsCommand for SetColumnAddress {
    fn instruction(&self) -> u8 {
        0x2A
    }

    fn fill_params_buf(&self, buffer: &mut [u8]) -> usize {
        buffer[0..2].copy_from_slice(&self.start_column.to_be_bytes());
        buffer[2..4].copy_from_slice(&self.end_column.to_be_bytes());

        4
    }
}

#[cfg(test)]
mod tests {
    use super::*;

    #[test]
    fn caset_fills_data_properly() {
        let caset = SetColumnAddress::new(0, 320);

        let mut buffer = [0u8; 4];
        assert_eq!(caset.fill_params_buf(&mut buffer), 4);
        assert_eq!(buffer, [0, 0, 0x1, 0x40]);
    }
}
