//! Module for the VSCAD visual scroll offset instruction constructors

use super::DcsCommand;

/// Set Scroll Start
#[derive(Debug, Clone, PartialEq, Eq)]
pub struct SetScrollStart(u16);

impl SetScrollStart {
    /// Creates a new Set Scroll Start command.
    pub const fn new(offset: u16) -> Self {
        Self(offset)
    }
}

impl DcsCommand for SetScrollStart {
    fn instruction(&self) -> u8 {
        0x37
    }

    fn fill_params_buf(&self, buffer: &mut [u8]) -> usize {
        let bytes = self.0.to_be_bytes();
        buffer[0] = bytes[0];
        buffer[1] = bytes[1];

        2
    }
}

#[cfg(test)]
mod tests {
    use super::*;

    #[test]
    fn vscad_fills_offset_properly() {
        let vscad = SetScrollStart::new(320);

        let mut buffer = [0u8; 2];
        assert_eq!(vscad.fill_params_buf(&mut buffer), 2);
        assert_eq!(buffer, [0x1, 0x40]);
    }
}
