//! Module for the VSCRDEF visual scroll definition instruction constructors

use super::DcsCommand;

/// Set Scroll Area
#[derive(Debug, Clone, PartialEq, Eq)]
pub struct SetScrollArea {
    tfa: u16,
    vsa: u16,
    bfa: u16,
}

impl SetScrollArea {
    /// Creates a new Set Scroll Area command.
    ///
    /// VSA should default to the display's height (or width) framebuffer size.
    pub const fn new(tfa: u16, vsa: u16, bfa: u16) -> Self {
        Self { tfa, vsa, bfa }
    }
}

impl DcsCommand for SetScrollArea {
    fn instruction(&self) -> u8 {
        0x33
    }

    fn fill_params_buf(&self, buffer: &mut [u8]) -> usize {
        let tfa_bytes = self.tfa.to_be_bytes();
        let vsa_bytes = self.vsa.to_be_bytes();
        let bfa_bytes = self.bfa.to_be_bytes();

        buffer[0] = tfa_bytes[0];
        buffer[1] = tfa_bytes[1];
        buffer[2] = vsa_bytes[0];
        buffer[3] = vsa_bytes[1];
        buffer[4] = bfa_bytes[0];
        buffer[5] = bfa_bytes[1];

        6
    }
}

#[cfg(test)]
mod tests {
    use super::*;

    #[test]
    fn vscrdef_fills_buffer_properly() {
        let vscrdef = SetScrollArea::new(0, 320, 0);

        let mut buffer = [0u8; 6];
        assert_eq!(vscrdef.fill_params_buf(&mut buffer), 6);
        assert_eq!(buffer, [0, 0, 0x1, 0x40, 0, 0]);
    }
}
