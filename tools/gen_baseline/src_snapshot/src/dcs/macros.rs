macro_rules! dcs_basic_command {
    (
        #[doc = $tt:tt]
        $instr_name:ident,
        $instr:expr
    ) => {
        #[doc = $tt]
        pub struct $instr_name;

        impl DcsCommand for $instr_name {
            fn instruction(&self) -> u8 {
                $instr
            }

            fn fill_params_buf(&self, _buffer: &mut [u8]) -> usize {
                0
            }
        }
    };
}
