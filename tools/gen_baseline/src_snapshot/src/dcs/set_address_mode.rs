//! Module for the MADCTL instruction constructors

use crate::options::{
    ColorOrder, HorizontalRefreshOrder, MemoryMapping, ModelOptions, Orientation, RefreshOrder,
    VerticalRefreshOrder,
};

use super::DcsCommand;

/// Set Address Mode
#[derive(Debug, Default, Clone, Copy, PartialEq, Eq)]
pub struct SetAddressMode(u8);

impl SetAddressMode {
    /// Creates a new Set Address Mode command.
    pub const fn new(
        color_order: ColorOrder,
        orientation: Orientation,
        refresh_order: RefreshOrder,
    ) -> Self {
        Self(0)
            .with_color_order(color_order)
            .with_orientation(orientation)
            .with_refresh_order(refresh_order)
    }

    /// Returns this Madctl with [ColorOrder] set to new value
    #[must_use]
    pub const fn with_color_order(self, color_order: ColorOrder) -> Self {
        let mut result = self;
        match color_order {
            ColorOrder::Rgb => result.0 &= 0b1111_0111,
            ColorOrder::Bgr => result.0 |= 0b0000_1000,
        }

        result
    }

    /// Returns this Madctl with [Orientation] set to new value
    #[must_use]
    pub const fn with_orientation(self, orientation: Orientation) -> Self {
        let mut result = self.0;
        result &= 0b0001_1111;

        let mapping = MemoryMapping::from_orientation(orientation);
        if mapping.reverse_rows {
            result |= 1 << 7;
        }
        if mapping.reverse_columns {
            result |= 1 << 6;
        }
        if mapping.swap_rows_and_columns {
            result |= 1 << 5;
        }

        Self(result)
    }

    /// Returns this Madctl with [RefreshOrder] set to new value
    #[must_use]
    pub const fn with_refresh_order(self, refresh_order: RefreshOrder) -> Self {
        let mut result = self;
        let value = match (refresh_order.vertical, refresh_order.horizontal) {
            (VerticalRefreshOrder::TopToBottom, HorizontalRefreshOrder::LeftToRight) => 0b0000_0000,
            (VerticalRefreshOrder::TopToBottom, HorizontalRefreshOrder::RightToLeft) => 0b0000_0100,
            (VerticalRefreshOrder::BottomToTop, HorizontalRefreshOrder::LeftToRight) => 0b0001_0000,
            (VerticalRefreshOrder::BottomToTop, HorizontalRefreshOrder::RightToLeft) => 0b0001_0100,
        };

        result.0 = (result.0 & 0b1110_1011) | value;

        result
    }
}

impl DcsCommand for SetAddressMode {
    fn instruction(&self) -> u8 {
        0x36
    }

    fn fill_params_buf(&self, buffer: &mut [u8]) -> usize {
        buffer[0] = self.0;
        1
    }
}

impl From<&ModelOptions> for SetAddressMode {
    fn from(options: &ModelOptions) -> Self {
        Self::default()
            .with_color_order(options.color_order)
            .with_orientation(options.orientation)
            .with_refresh_order(options.refresh_order)
    }
}

#[cfg(test)]
mod tests {
    use crate::options::Rotation;

    use super::*;

    #[test]
    fn madctl_bit_operations() {
        let madctl = SetAddressMode::default()
            .with_color_order(ColorOrder::Bgr)
            .with_refresh_order(RefreshOrder::new(
                VerticalRefreshOrder::BottomToTop,
                HorizontalRefreshOrder::RightToLeft,
            ))
            .with_orientation(Orientation::default().rotate(Rotation::Deg270));

        let mut bytes = [0u8];
        assert_eq!(madctl.fill_params_buf(&mut bytes), 1);
        assert_eq!(bytes, [0b1011_1100u8]);

        let madctl = madctl.with_orientation(Orientation::default());
        assert_eq!(madctl.fill_params_buf(&mut bytes), 1);
        assert_eq!(bytes, [0b0001_1100u8]);

        let madctl = madctl.with_color_order(ColorOrder::Rgb);
        assert_eq!(madctl.fill_params_buf(&mut bytes), 1);
        assert_eq!(bytes, [0b0001_0100u8]);

        let madctl = madctl.with_refresh_order(RefreshOrder::default());
        assert_eq!(madctl.fill_params_buf(&mut bytes), 1);
        assert_eq!(bytes, [0b0000_0000u8]);
    }
}
