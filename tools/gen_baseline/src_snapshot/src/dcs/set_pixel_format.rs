//! Module for the COLMOD instruction constructors

use super::DcsCommand;

/// Set Pixel Format
#[derive(Debug, Clone, Copy, PartialEq, Eq)]
pub struct SetPixelFormat(PixelFormat);

impl SetPixelFormat {
    /// Creates a new Set Pixel Format command.
    pub const fn new(pixel_format: PixelFormat) -> Self {
        Self(pixel_format)
    }
}

impl DcsCommand for SetPixelFormat {
    fn instruction(&self) -> u8 {
        0x3A
    }

    fn fill_params_buf(&self, buffer: &mut [u8]) -> usize {
        buffer[0] = self.0.as_u8();
        1
    }
}

///
/// Bits per pixel for DBI and DPI fields of [PixelFormat]
///
#[derive(Debug, Clone, Copy, PartialEq, Eq)]
#[repr(u8)]
pub enum BitsPerPixel {
    /// 3 bits per pixel.
    Three = 0b001,
    /// 8 bits per pixel.
    Eight = 0b010,
    /// 12 bits per pixel.
    Twelve = 0b011,
    /// 16 bits per pixel.
    Sixteen = 0b101,
    /// 18 bits per pixel.
    Eighteen = 0b110,
    /// 24 bits per pixel.
    TwentyFour = 0b111,
}

///
/// Defines pixel format as combination of DPI and DBI
///
#[derive(Debug, Clone, Copy, PartialEq, Eq)]
pub struct PixelFormat {
    dpi: BitsPerPixel,
    dbi: BitsPerPixel,
}

impl PixelFormat {
    ///
    /// Construct a new [PixelFormat] with given [BitsPerPixel] values
    /// for DPI and DBI fields
    ///
    pub const fn new(dpi: BitsPerPixel, dbi: BitsPerPixel) -> Self {
        Self { dpi, dbi }
    }

    ///
    /// Construct a new [PixelFormat] with same [BitsPerPixel] value
    /// for both DPI and DBI fields
    ///
    pub const fn with_all(bpp: BitsPerPixel) -> Self {
        Self { dpi: bpp, dbi: bpp }
    }

    ///
    /// Returns the corresponding u8 containing both DPI and DBI bits
    ///
    pub fn as_u8(&self) -> u8 {
        (self.dpi as u8) << 4 | (self.dbi as u8)
    }
}

#[cfg(test)]
mod tests {
    use super::*;

    #[test]
    fn colmod_rgb565_is_16bit() {
        let colmod = SetPixelFormat::new(PixelFormat::new(
            BitsPerPixel::Sixteen,
            BitsPerPixel::Sixteen,
        ));

        let mut bytes = [0u8];
        assert_eq!(colmod.fill_params_buf(&mut bytes), 1);
        assert_eq!(bytes, [0b0101_0101u8]);
    }

    #[test]
    fn colmod_rgb666_is_18bit() {
        let colmod = SetPixelFormat::new(PixelFormat::new(
            BitsPerPixel::Eighteen,
            BitsPerPixel::Eighteen,
        ));

        let mut bytes = [0u8];
        assert_eq!(colmod.fill_params_buf(&mut bytes), 1);
        assert_eq!(bytes, [0b0110_0110u8]);
    }

    #[test]
    fn colmod_rgb888_is_24bit() {
        let colmod = SetPixelFormat::new(PixelFormat::new(
            BitsPerPixel::Eighteen,
            BitsPerPixel::TwentyFour,
        ));

        let mut bytes = [0u8];
        assert_eq!(colmod.fill_params_buf(&mut bytes), 1);
        assert_eq!(bytes, [0b0110_0111u8]);
    }

    #[test]
    fn test_pixel_format_as_u8() {
        let pf = PixelFormat::new(BitsPerPixel::Sixteen, BitsPerPixel::TwentyFour);
        assert_eq!(pf.as_u8(), 0b0101_0111);
    }
}
