//! Module for the RASET address window instruction constructors

use super::DcsCommand;

/// Set Page Address
#[derive(Debug, Clone, PartialEq, Eq)]
pub struct SetPageAddress {
    start_row: u16,
    end_row: u16,
}

impl SetPageAddress {
    /// Creates a new Set Page Address command.
    pub const fn new(start_row: u16, end_row: u16) -> Self {
        Self { start_row, end_row }
    }
}

impl DcsCommand for SetPageAddress {
    fn instruction(&self) -> u8 {
        0x2B
    }

    fn fill_params_buf(&self, buffer: &mut [u8]) -> usize {
        buffer[0..2].copy_from_slice(&self.start_row.to_be_bytes());
        buffer[2..4].copy_from_slice(&self.end_row.to_be_bytes());

        4
    }
}

#[cfg(test)]
mod tests {
    use super::*;

    #[test]
    fn raset_fills_data_properly() {
        let raset = SetPageAddress::new(0, 320);

        let mut buffer = [0u8; 4];
        assert_eq!(raset.fill_params_buf(&mut buffer), 4);
        assert_eq!(buffer, [0, 0, 0x1, 0x40]);
    }
}
