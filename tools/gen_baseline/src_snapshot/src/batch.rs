//! Original code from: [this repo](https://github.com/lupyuen/piet-embedded/blob/master/piet-embedded-graphics/src/batch.rs)
//! Batch the pixels to be rendered into Pixel Rows and Pixel Blocks (contiguous Pixel Rows).
//! This enables the pixels to be rendered efficiently as Pixel Blocks, which may be transmitted in a single Non-Blocking SPI request.
use crate::{
    interface::{Interface, InterfacePixelFormat},
    models::Model,
    Display,
};
use embedded_graphics_core::prelude::*;
use embedded_hal::digital::OutputPin;

pub trait DrawBatch<DI, M, I>
where
    DI: Interface,
    M: Model,
    M::ColorFormat: InterfacePixelFormat<DI::Word>,
    I: IntoIterator<Item = Pixel<M::ColorFormat>>,
{
    fn draw_batch(&mut self, item_pixels: I) -> Result<(), DI::Error>;
}

impl<DI, M, RST, I> DrawBatch<DI, M, I> for Display<DI, M, RST>
where
    DI: Interface,
    M: Model,
    M::ColorFormat: InterfacePixelFormat<DI::Word>,
    I: IntoIterator<Item = Pixel<M::ColorFormat>>,
    RST: OutputPin,
{
    fn draw_batch(&mut self, item_pixels: I) -> Result<(), DI::Error> {
        //  Get the pixels for the item to be rendered.
        let pixels = item_pixels.into_iter();
        //  Batch the pixels into Pixel Rows.
        let rows = to_rows(pixels);
        //  Batch the Pixel Rows into Pixel Blocks.
        let blocks = to_blocks(rows);
        //  For each Pixel Block...
        for PixelBlock {
            x_left,
            x_right,
            y_top,
            y_bottom,
            colors,
            ..
        } in blocks
        {
            //  Render the Pixel Block.
            self.set_pixels(x_left, y_top, x_right, y_bottom, colors)?;

            //  Dump out the Pixel Blocks for the square in test_display()
            /* if x_left >= 60 && x_left <= 150 && x_right >= 60 && x_right <= 150 && y_top >= 60 && y_top <= 150 && y_bottom >= 60 && y_bottom <= 150 {
                console::print("pixel block ("); console::printint(x_left as i32); console::print(", "); console::printint(y_top as i32); ////
                console::print("), ("); console::printint(x_right as i32); console::print(", "); console::printint(y_bottom as i32); console::print(")\n"); ////
            } */
        }
        Ok(())
    }
}

/// Max number of pixels per Pixel Row
const MAX_ROW_SIZE: usize = 50;
/// Max number of pixels per Pixel Block
const MAX_BLOCK_SIZE: usize = 100;

/// Consecutive color words for a Pixel Row
type RowColors<C> = heapless::Vec<C, MAX_ROW_SIZE>;
/// Consecutive color words for a Pixel Block
type BlockColors<C> = heapless::Vec<C, MAX_BLOCK_SIZE>;

/// Iterator for each Pixel Row in the pixel data. A Pixel Row consists of contiguous pixels on the same row.
#[derive(Debug, Clone)]
pub struct RowIterator<C, P>
where
    C: PixelColor,
    P: Iterator<Item = Pixel<C>>,
{
    /// Pixels to be batched into rows
    pixels: P,
    /// Start column number
    x_left: u16,
    /// End column number
    x_right: u16,
    /// Row number
    y: u16,
    /// List of pixel colours for the entire row
    colors: RowColors<C>,
    /// True if this is the first pixel for the row
    first_pixel: bool,
}

/// Iterator for each Pixel Block in the pixel data. A Pixel Block consists of contiguous Pixel Rows with the same start and end column number.
#[derive(Debug, Clone)]
pub struct BlockIterator<C, R>
where
    C: PixelColor,
    R: Iterator<Item = PixelRow<C>>,
{
    /// Pixel Rows to be batched into blocks
    rows: R,
    /// Start column number
    x_left: u16,
    /// End column number
    x_right: u16,
    /// Start row number
    y_top: u16,
    /// End row number
    y_bottom: u16,
    /// List of pixel colours for the entire block, row by row
    colors: BlockColors<C>,
    /// True if this is the first row for the block
    first_row: bool,
}

/// A row of contiguous pixels
pub struct PixelRow<C>
where
    C: PixelColor,
{
    /// Start column number
    pub x_left: u16,
    /// End column number
    pub x_right: u16,
    /// Row number
    pub y: u16,
    /// List of pixel colours for the entire row
    pub colors: RowColors<C>,
}

/// A block of contiguous pixel rows with the same start and end column number
pub struct PixelBlock<C>
where
    C: PixelColor,
{
    /// Start column number
    pub x_left: u16,
    /// End column number
    pub x_right: u16,
    /// Start row number
    pub y_top: u16,
    /// End row number
    pub y_bottom: u16,
    /// List of pixel colours for the entire block, row by row
    pub colors: BlockColors<C>,
}

/// Batch the pixels into Pixel Rows, which are contiguous pixels on the same row.
/// P can be any Pixel Iterator (e.g. a rectangle).
fn to_rows<C, P>(pixels: P) -> RowIterator<C, P>
where
    C: PixelColor,
    P: Iterator<Item = Pixel<C>>,
{
    RowIterator::<C, P> {
        pixels,
        x_left: 0,
        x_right: 0,
        y: 0,
        colors: RowColors::new(),
        first_pixel: true,
    }
}

/// Batch the Pixel Rows into Pixel Blocks, which are contiguous Pixel Rows with the same start and end column number
/// R can be any Pixel Row Iterator.
fn to_blocks<C, R>(rows: R) -> BlockIterator<C, R>
where
    C: PixelColor,
    R: Iterator<Item = PixelRow<C>>,
{
    BlockIterator::<C, R> {
        rows,
        x_left: 0,
        x_right: 0,
        y_top: 0,
        y_bottom: 0,
        colors: BlockColors::new(),
        first_row: true,
    }
}

/// Implement the Iterator for Pixel Rows.
/// P can be any Pixel Iterator (e.g. a rectangle).
impl<C, P> Iterator for RowIterator<C, P>
where
    C: PixelColor,
    P: Iterator<Item = Pixel<C>>,
{
    /// This Iterator returns Pixel Rows
    type Item = PixelRow<C>;

    /// Return the next Pixel Row of contiguous pixels on the same row
    fn next(&mut self) -> Option<Self::Item> {
        //  Loop over all pixels until we have composed a Pixel Row, or we have run out of pixels.
        loop {
            //  Get the next pixel.
            let next_pixel = self.pixels.next();
            match next_pixel {
                None => {
                    //  If no more pixels...
                    if self.first_pixel {
                        return None; //  No pixels to group
                    }
                    //  Else return previous pixels as row.
                    let row = PixelRow {
                        x_left: self.x_left,
                        x_right: self.x_right,
                        y: self.y,
                        colors: self.colors.clone(),
                    };
                    self.colors.clear();
                    self.first_pixel = true;
                    return Some(row);
                }
                Some(Pixel(coord, color)) => {
                    if coord.x < 0 || coord.y < 0 {
                        continue;
                    }
                    //  If there is a pixel...
                    let x = coord.x as u16;
                    let y = coord.y as u16;
                    //  Save the first pixel as the row start and handle next pixel.
                    if self.first_pixel {
                        self.first_pixel = false;
                        self.x_left = x;
                        self.x_right = x;
                        self.y = y;
                        self.colors.clear();
                        if self.colors.push(color).is_err() {
                            return None;
                        }
                        continue;
                    }
                    //  If this pixel is adjacent to the previous pixel, add to the row.
                    if x == self.x_right.wrapping_add(1)
                        && y == self.y
                        && self.colors.push(color).is_ok()
                    {
                        // Don't add pixel if too many pixels in the row.
                        self.x_right = x;
                        continue;
                    }
                    //  Else return previous pixels as row.
                    let row = PixelRow {
                        x_left: self.x_left,
                        x_right: self.x_right,
                        y: self.y,
                        colors: self.colors.clone(),
                    };
                    self.x_left = x;
                    self.x_right = x;
                    self.y = y;
                    self.colors.clear();
                    if self.colors.push(color).is_err() {
                        return None;
                    }
                    return Some(row);
                }
            }
        }
    }
}

/// Implement the Iterator for Pixel Blocks.
/// R can be any Pixel Row Iterator.
impl<C, R> Iterator for BlockIterator<C, R>
where
    C: PixelColor,
    R: Iterator<Item = PixelRow<C>>,
{
    /// This Iterator returns Pixel Blocks
    type Item = PixelBlock<C>;

    /// Return the next Pixel Block of contiguous Pixel Rows with the same start and end column number
    fn next(&mut self) -> Option<Self::Item> {
        //  Loop over all Pixel Rows until we have composed a Pixel Block, or we have run out of Pixel Rows.
        loop {
            //  Get the next Pixel Row.
            let next_row = self.rows.next();
            match next_row {
                None => {
                    //  If no more Pixel Rows...
                    if self.first_row {
                        return None; //  No rows to group
                    }
                    //  Else return previous rows as block.
                    let row = PixelBlock {
                        x_left: self.x_left,
                        x_right: self.x_right,
                        y_top: self.y_top,
                        y_bottom: self.y_bottom,
                        colors: self.colors.clone(),
                    };
                    self.colors.clear();
                    self.first_row = true;
                    return Some(row);
                }
                Some(PixelRow {
                    x_left,
                    x_right,
                    y,
                    colors,
                    ..
                }) => {
                    //  If there is a Pixel Row...
                    //  Save the first row as the block start and handle next block.
                    if self.first_row {
                        self.first_row = false;
                        self.x_left = x_left;
                        self.x_right = x_right;
                        self.y_top = y;
                        self.y_bottom = y;
                        self.colors.clear();
                        self.colors.extend_from_slice(&colors).expect("never");
                        continue;
                    }
                    //  If this row is adjacent to the previous row and same size, add to the block.
                    if y == self.y_bottom + 1 && x_left == self.x_left && x_right == self.x_right {
                        //  Don't add row if too many pixels in the block.
                        if self.colors.extend_from_slice(&colors).is_ok() {
                            self.y_bottom = y;
                            continue;
                        }
                    }
                    //  Else return previous rows as block.
                    let row = PixelBlock {
                        x_left: self.x_left,
                        x_right: self.x_right,
                        y_top: self.y_top,
                        y_bottom: self.y_bottom,
                        colors: self.colors.clone(),
                    };
                    self.x_left = x_left;
                    self.x_right = x_right;
                    self.y_top = y;
                    self.y_bottom = y;
                    self.colors.clear();
                    self.colors.extend_from_slice(&colors).expect("never");
                    return Some(row);
                }
            }
        }
    }
}
