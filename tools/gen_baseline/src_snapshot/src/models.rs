//! Display models.

use crate::{dcs::SetAddressMode, interface::Interface, options::ModelOptions, ConfigurationError};
use embedded_graphics_core::prelude::RgbColor;
use embedded_hal::delay::DelayNs;

// existing model implementations
mod gc9107;
mod gc9a01;
mod ili9341;
mod ili9342c;
mod ili934x;
mod ili9486;
mod ili9488;
mod ili948x;
mod rm67162;
mod st7735s;
mod st7789;
mod st7796;

pub use gc9107::*;
pub use gc9a01::*;
pub use ili9341::*;
pub use ili9342c::*;
pub use ili9486::*;
pub use ili9488::*;
pub use rm67162::*;
pub use st7735s::*;
pub use st7789::*;
pub use st7796::*;

/// Display model.
pub trait Model {
    /// The color format.
    type ColorFormat: RgbColor;

    /// The framebuffer size in pixels.
    const FRAMEBUFFER_SIZE: (u16, u16);

    /// Initializes the display for this model with MADCTL from [crate::Display]
    /// and returns the value of MADCTL set by init
    fn init<DELAY, DI>(
        &mut self,
        di: &mut DI,
        delay: &mut DELAY,
        options: &ModelOptions,
    ) -> Result<SetAddressMode, ModelInitError<DI::Error>>
    where
        DELAY: DelayNs,
        DI: Interface;
}

/// Error returned by [`Model::init`].
///
/// This error type is used internally by implementations of the [`Model`]
/// trait.
pub enum ModelInitError<DiError> {
    /// Error caused by the display interface.
    Interface(DiError),

    /// Invalid configuration error.
    ///
    /// This error is returned when the configuration passed to the builder is
    /// invalid. For example, when the combination of bit depth and interface
    /// kind isn't supported by the selected model.
    InvalidConfiguration(ConfigurationError),
}

impl<DiError> From<DiError> for ModelInitError<DiError> {
    fn from(value: DiError) -> Self {
        Self::Interface(value)
    }
}

#[cfg(test)]
mod tests {
    use embedded_graphics::pixelcolor::Rgb565;

    use crate::{
        Builder,
        _mock::{MockDelay, MockDisplayInterface},
        interface::InterfaceKind,
        ConfigurationError, InitError,
    };

    use super::*;

    struct OnlyOneKindModel(InterfaceKind);

    impl Model for OnlyOneKindModel {
        type ColorFormat = Rgb565;

        const FRAMEBUFFER_SIZE: (u16, u16) = (16, 16);

        fn init<DELAY, DI>(
            &mut self,
            _di: &mut DI,
            _delay: &mut DELAY,
            _options: &ModelOptions,
        ) -> Result<SetAddressMode, ModelInitError<DI::Error>>
        where
            DELAY: DelayNs,
            DI: Interface,
        {
            if DI::KIND != self.0 {
                return Err(ModelInitError::InvalidConfiguration(
                    ConfigurationError::UnsupportedInterface,
                ));
            }

            Ok(SetAddressMode::default())
        }
    }

    #[test]
    fn test_assert_interface_kind_serial() {
        Builder::new(
            OnlyOneKindModel(InterfaceKind::Serial4Line),
            MockDisplayInterface,
        )
        .init(&mut MockDelay)
        .unwrap();
    }

    #[test]
    fn test_assert_interface_kind_parallel() {
        assert!(matches!(
            Builder::new(
                OnlyOneKindModel(InterfaceKind::Parallel8Bit),
                MockDisplayInterface,
            )
            .init(&mut MockDelay),
            Err(InitError::InvalidConfiguration(
                ConfigurationError::UnsupportedInterface
            ))
        ));
    }
}
