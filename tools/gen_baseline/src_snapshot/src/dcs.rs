//! MIPI DCS commands.

use crate::interface::Interface;

#[macro_use]
mod macros;

mod set_address_mode;
pub use set_address_mode::*;
mod set_pixel_format;
pub use set_pixel_format::*;
mod set_column_address;
pub use set_column_address::*;
mod set_page_address;
pub use set_page_address::*;
mod set_scroll_area;
pub use set_scroll_area::*;
mod set_scroll_start;
pub use set_scroll_start::*;
mod set_tearing_effect;
pub use set_tearing_effect::*;
mod set_invert_mode;
pub use set_invert_mode::*;

/// Common trait for DCS commands.
///
/// The methods in this traits are used to convert a DCS command into bytes.
pub trait DcsCommand {
    /// Returns the instruction code.
    fn instruction(&self) -> u8;

    /// Fills the given buffer with the command parameters.
    fn fill_params_buf(&self, buffer: &mut [u8]) -> usize;
}

/// An extension trait for [`Interface`] with support for writing DCS commands.
///
/// Commands which are part of the manufacturer independent user command set can be sent to the
/// display by using the [`write_command`](Self::write_command) method with one of the command types
/// in this module.
///
/// All other commands, which do not have an associated type in this module, can be sent using
/// the [`write_raw`](Self::write_raw) method.
pub trait InterfaceExt: Interface {
    /// Sends a DCS command to the display interface.
    fn write_command(&mut self, command: impl DcsCommand) -> Result<(), Self::Error> {
        let mut param_bytes: [u8; 16] = [0; 16];
        let n = command.fill_params_buf(&mut param_bytes);
        self.write_raw(command.instruction(), &param_bytes[..n])
    }

    /// Sends a raw command with the given `instruction` to the display interface.
    ///
    /// The `param_bytes` slice can contain the instruction parameters, which are sent as data after
    /// the instruction code was sent. If no parameters are required an empty slice can be passed to
    /// this method.
    ///
    /// This method is intended to be used for sending commands which are not part of the MIPI DCS
    /// user command set. Use [`write_command`](Self::write_command) for commands in the user
    /// command set.
    fn write_raw(&mut self, instruction: u8, param_bytes: &[u8]) -> Result<(), Self::Error> {
        self.send_command(instruction, param_bytes)
    }
}

impl<T: Interface> InterfaceExt for T {}

// DCS commands that don't use any parameters

dcs_basic_command!(
    /// Software Reset
    SoftReset,
    0x01
);

dcs_basic_command!(
    /// Enter Sleep Mode
    EnterSleepMode,
    0x10
);
dcs_basic_command!(
    /// Exit Sleep Mode
    ExitSleepMode,
    0x11
);
dcs_basic_command!(
    /// Enter Partial Mode
    EnterPartialMode,
    0x12
);
dcs_basic_command!(
    /// Enter Normal Mode
    EnterNormalMode,
    0x13
);
dcs_basic_command!(
    /// Turn Display Off
    SetDisplayOff,
    0x28
);

dcs_basic_command!(
    /// Turn Display On
    SetDisplayOn,
    0x29
);
dcs_basic_command!(
    /// Exit Idle Mode
    ExitIdleMode,
    0x38
);
dcs_basic_command!(
    /// Enter Idle Mode
    EnterIdleMode,
    0x39
);
// dcs_basic_command!(
//     /// Turn off Color Invert Mode
//     ExitInvertMode,
//     0x21
// );
// dcs_basic_command!(
//     /// Turn on Color Invert Mode
//     EnterInvertMode,
//     0x20
// );
dcs_basic_command!(
    /// Initiate Framebuffer Memory Write
    WriteMemoryStart,
    0x2C
);
