#!/bin/sh
cd "$(dirname "$0")" && exec python3 tools/setup.py
