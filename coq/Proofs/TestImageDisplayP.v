(* TestImageDisplayP.v — C19 composed with C01: TestImage::draw performed through a real Display.
   The calls `ti_ops lw lh` (Model/TestImage.v), converted to driver operations, form a well-formed
   drawing program; by `exec_draw_program` (Proofs/ProgramP.v) the reference controller's write history
   grows by exactly the specification entries of those calls; reading the history "last writer wins"
   gives, at the physical cell `cell (panel_of o) (o_orient o) x y`, the encoded colour
   `ti_pixel lw lh x y` — for every valid configuration, each of the 8 orientations, any encoder, any
   build profile, batching on or off. Hence on logical sizes of at least 32 x 32 the diagnostic
   properties of C19 hold on the physical panel. *)
Require Import Model.Base Model.Orient Model.Dcs Model.Events Model.Builder Model.Rect Model.Batch
               Model.Display Model.InitLang Model.Color Model.TestImage.
Require Import Gen.Consts.
Require Import Oracle.Spec Oracle.Controller Oracle.DrawSpec.
Require Import Proofs.WindowP Proofs.DrawP Proofs.OrientStateP Proofs.ProgramP Proofs.TestImageP
               Proofs.ColorP.
Open Scope list_scope.
Open Scope Z_scope.

(* ------------------------------------------------------------------------------------------ *)
(* 0. the conversion of a TestImage call into a driver operation (same text as in Corr/C19.v)   *)
(* ------------------------------------------------------------------------------------------ *)
Definition raw_of (col : colorfmt) (c : tcolor) : Z :=
  match col, c with
  | CRgb565, TWhite => 0xFFFF | CRgb565, TBlack => 0 | CRgb565, TRed => 0xF800 | CRgb565, TGreen => 0x07E0 | CRgb565, TBlue => 0x001F
  | CRgb666, TWhite => 0x3FFFF | CRgb666, TBlack => 0 | CRgb666, TRed => 0x3F000 | CRgb666, TGreen => 0x00FC0 | CRgb666, TBlue => 0x0003F
  end.
Definition pop_of_tiop (col : colorfmt) (op : tiop) : pop :=
  match op with
  | TFillContig r cs => PFillContig r (map (raw_of col) cs)
  | TFillContigF r f => PFillContig r (map (fun q => raw_of col (f q)) (points r))
  | TFillSolid r c => PFillSolid r (raw_of col c)
  end.

(* ------------------------------------------------------------------------------------------ *)
(* 1. list facts                                                                                *)
(* ------------------------------------------------------------------------------------------ *)
Lemma tid_nth_error_nil {A} (n : nat) : nth_error (@nil A) n = None.
Proof. destruct n; reflexivity. Qed.

Lemma tid_nth_error_map {A B} (g : A -> B) : forall (l : list A) (n : nat),
  nth_error (map g l) n = option_map g (nth_error l n).
Proof.
  induction l as [|a l IH]; intros n; destruct n as [|n]; cbn [map nth_error option_map]; try reflexivity.
  apply IH.
Qed.

Lemma tid_nth_error_firstn {A} : forall (n k : nat) (l : list A),
  (k < n)%nat -> nth_error (firstn n l) k = nth_error l k.
Proof.
  induction n as [|n IH]; intros k l Hk; [lia|].
  destruct l as [|a l]; [reflexivity|]. destruct k as [|k]; [reflexivity|].
  cbn [firstn nth_error]. apply IH. lia.
Qed.

Lemma tid_nth_error_firstn_ge {A} : forall (n k : nat) (l : list A),
  (n <= k)%nat -> nth_error (firstn n l) k = None.
Proof.
  intros n k l Hk. apply nth_error_None. pose proof (firstn_le_length n l) as Hl.
  rewrite firstn_length. lia.
Qed.

Lemma tid_nth_error_skipn {A} : forall (n k : nat) (l : list A),
  nth_error (skipn n l) k = nth_error l (n + k).
Proof.
  induction n as [|n IH]; intros k l; [reflexivity|].
  destruct l as [|a l]; [cbn [skipn Nat.add]; rewrite !tid_nth_error_nil; reflexivity|].
  cbn [skipn Nat.add nth_error]. apply IH.
Qed.

(* ------------------------------------------------------------------------------------------ *)
(* 2. "last writer wins" on a write list, scanned oldest first                                  *)
(* ------------------------------------------------------------------------------------------ *)
(* words of the LAST entry of `ws` that covers the physical cell (cx, cy) *)
Fixpoint hit (ws : list wr) (cx cy : Z) : option (list Z) :=
  match ws with
  | [] => None
  | w :: r =>
      match hit r cx cy with
      | Some v => Some v
      | None => if covers w cx cy then Some (wr_words w) else None
      end
  end.

Lemma hit_app (a b : list wr) (cx cy : Z) :
  hit (a ++ b) cx cy = match hit b cx cy with Some v => Some v | None => hit a cx cy end.
Proof.
  induction a as [|w a IH]; cbn [app hit].
  - destruct (hit b cx cy); reflexivity.
  - rewrite IH. destruct (hit b cx cy); reflexivity.
Qed.

Lemma tid_find_app {A} (f : A -> bool) (a b : list A) :
  find f (a ++ b) = match find f a with Some v => Some v | None => find f b end.
Proof.
  induction a as [|x a IH]; [reflexivity|]. cbn [app find]. destruct (f x); [reflexivity|exact IH].
Qed.

Lemma last_write_hit (ws : list wr) (cx cy : Z) : forall before : option (list Z),
  last_write ws cx cy before = match hit ws cx cy with Some v => Some v | None => before end.
Proof.
  unfold last_write. induction ws as [|w ws IH]; intros before; [reflexivity|].
  cbn [rev hit]. rewrite tid_find_app.
  pose proof (IH None) as IH0. specialize (IH before).
  destruct (find (fun w0 => covers w0 cx cy) (rev ws)) as [w1|] eqn:Ef;
    destruct (hit ws cx cy) as [v|] eqn:Eh; try discriminate IH0.
  - exact IH.
  - cbn [find]. destruct (covers w cx cy); reflexivity.
Qed.

(* ------------------------------------------------------------------------------------------ *)
(* 3. which specification entries cover the cell of a logical point                             *)
(* ------------------------------------------------------------------------------------------ *)
Lemma tid_bool_eq (a b : bool) : (a = true <-> b = true) -> a = b.
Proof. destruct a, b; intros [H1 H2]; try reflexivity; [symmetry; apply H1|apply H2]; reflexivity. Qed.

Section Geometry.
Variable enc : Z -> list Z.
Variable p : panel.
Variable o : orient.
Variables x y cx cy : Z.
Hypothesis Hcell : cell p o x y = (cx, cy).

(* a one-pixel entry covers the cell iff it is the entry of this very point: `cell` is injective *)
Lemma covers_px (x' y' c : Z) : covers (px enc p o x' y' c) cx cy = (x =? x') && (y =? y').
Proof.
  unfold px. destruct (cell p o x' y') as [ax ay] eqn:Ec'. cbn [covers].
  apply tid_bool_eq. rewrite !andb_true_iff, !Z.eqb_eq. split.
  - intros [Ex Ey]. subst ax ay. rewrite <- Hcell in Ec'.
    destruct (cell_injective_any p o x' y' x y Ec') as [E1 E2]. split; symmetry; assumption.
  - intros [Ex Ey]. subst x' y'. rewrite Hcell in Ec'. inversion Ec'. split; reflexivity.
Qed.

Lemma words_px (x' y' c : Z) : wr_words (px enc p o x' y' c) = enc c.
Proof. unfold px. destruct (cell p o x' y') as [ax ay]. reflexivity. Qed.

(* the physical rectangle spanned by the cells of two opposite logical corners covers the cell iff the
   logical point lies in the logical rectangle: the cell map is a signed permutation plus a shift *)
Lemma covers_prect (x0 y0 x1 y1 c : Z) : x0 <= x1 -> y0 <= y1 ->
  covers (prect enc p o x0 y0 x1 y1 c) cx cy = (x0 <=? x) && (x <=? x1) && (y0 <=? y) && (y <=? y1).
Proof.
  intros Hx Hy. unfold prect.
  destruct (cell p o x0 y0) as [ax ay] eqn:Ea. destruct (cell p o x1 y1) as [bx by_] eqn:Eb.
  cbn [covers]. apply tid_bool_eq. rewrite !andb_true_iff, !Z.leb_le.
  revert Hcell Ea Eb. unfold cell, spec_cell, rot_cw.
  destruct o as [[] []]; cbn [rotn mir]; intros E1 E2 E3; inversion E1; inversion E2; inversion E3; lia.
Qed.

Lemma words_prect (x0 y0 x1 y1 c : Z) : wr_words (prect enc p o x0 y0 x1 y1 c) = enc c.
Proof.
  unfold prect. destruct (cell p o x0 y0) as [ax ay]. destruct (cell p o x1 y1) as [bx by_]. reflexivity.
Qed.

(* one row of a contiguous fill: colour i of the row's slice goes to (x0 + i, yy) *)
Lemma hit_zip_row (yy : Z) : forall (n : nat) (x0 : Z) (cs : list Z),
  hit (fst (zip_row enc p o x0 yy n cs)) cx cy =
  if (yy =? y) && (x0 <=? x) then option_map enc (nth_error (firstn n cs) (Z.to_nat (x - x0))) else None.
Proof.
  induction n as [|n IH]; intros x0 cs.
  - cbn [zip_row fst hit firstn]. rewrite tid_nth_error_nil. destruct ((yy =? y) && (x0 <=? x)); reflexivity.
  - destruct cs as [|c cs].
    + cbn [zip_row fst hit firstn]. rewrite tid_nth_error_nil. destruct ((yy =? y) && (x0 <=? x)); reflexivity.
    + cbn [zip_row]. specialize (IH (x0 + 1) cs).
      destruct (zip_row enc p o (x0 + 1) yy n cs) as [ws rest]. cbn [fst] in IH |- *.
      cbn [hit]. rewrite IH, covers_px, words_px. cbn [firstn].
      destruct (Z.eqb_spec yy y) as [Ey|Ey]; cbn [andb].
      * subst yy. rewrite Z.eqb_refl, andb_true_r.
        destruct (Z.leb_spec (x0 + 1) x) as [H1|H1].
        -- rewrite (proj2 (Z.leb_le x0 x)) by lia.
           replace (Z.to_nat (x - x0)) with (S (Z.to_nat (x - (x0 + 1)))) by lia. cbn [nth_error].
           destruct (option_map enc (nth_error (firstn n cs) (Z.to_nat (x - (x0 + 1))))); [reflexivity|].
           rewrite (proj2 (Z.eqb_neq x x0)) by lia. reflexivity.
        -- destruct (Z.eqb_spec x x0) as [Ex|Ex].
           ++ subst x0. rewrite Z.leb_refl, Z.sub_diag. reflexivity.
           ++ rewrite (proj2 (Z.leb_gt x0 x)) by lia. reflexivity.
      * rewrite (proj2 (Z.eqb_neq y yy)) by lia. rewrite andb_false_r. reflexivity.
Qed.
End Geometry.

Section Fills.
Variable enc : Z -> list Z.
Variable p : panel.
Variable o : orient.
Variables x y cx cy : Z.
Hypothesis Hcell : cell p o x y = (cx, cy).
Hypothesis Hx : 0 <= x < lw_of p o.
Hypothesis Hy : 0 <= y < lh_of p o.

(* the rows yy .. yy + n - 1 of a contiguous fill *)
Lemma hit_contig_rows (r : rect) (vx0 vx1 : Z) (cs : list Z) : forall (n : nat) (yy : Z),
  hit (contig_rows enc p o r vx0 vx1 yy n cs) cx cy =
  if (yy <=? y) && (y <? yy + Z.of_nat n) && (vx0 <=? x)
  then option_map enc (nth_error (firstn (Z.to_nat (vx1 - vx0)) (skipnZ ((y - ry r) * rw r + (vx0 - rx r)) cs))
                                 (Z.to_nat (x - vx0)))
  else None.
Proof.
  induction n as [|n IH]; intros yy.
  - cbn [contig_rows hit]. replace (yy + Z.of_nat 0) with yy by lia.
    destruct (Z.leb_spec yy y) as [H1|H1]; destruct (Z.ltb_spec y yy) as [H2|H2]; try lia; reflexivity.
  - cbn [contig_rows]. rewrite hit_app, IH, (hit_zip_row enc p o x y cx cy Hcell).
    destruct (Z.eqb_spec yy y) as [Ey|Ey].
    + subst yy. rewrite (proj2 (Z.leb_gt (y + 1) y)) by lia. cbn [andb].
      rewrite Z.leb_refl, (proj2 (Z.ltb_lt y (y + Z.of_nat (S n)))) by lia. cbn [andb].
      rewrite firstn_firstn, Nat.min_id. reflexivity.
    + cbn [andb].
      destruct (Z.leb_spec (yy + 1) y) as [H1|H1].
      * rewrite (proj2 (Z.leb_le yy y)) by lia.
        replace (yy + 1 + Z.of_nat n) with (yy + Z.of_nat (S n)) by lia.
        destruct ((y <? yy + Z.of_nat (S n)) && (vx0 <=? x)) eqn:E; cbn [andb]; rewrite E; [|reflexivity].
        destruct (option_map enc _); reflexivity.
      * cbn [andb]. rewrite (proj2 (Z.leb_gt yy y)) by lia. reflexivity.
Qed.

(* fill_contiguous(r, cs): the point receives colour number (y - ry) * rw + (x - rx) of the stream *)
Lemma hit_fill_contig (r : rect) (cs : list Z) :
  hit (spec_fill_contig enc p o r cs) cx cy =
  if in_rect r x y then option_map enc (nth_error cs (Z.to_nat ((y - ry r) * rw r + (x - rx r)))) else None.
Proof.
  unfold spec_fill_contig, clip_lo, clip_hi.
  set (vx0 := Z.max (rx r) 0). set (vx1 := Z.min (rx r + rw r) (lw_of p o)).
  set (vy0 := Z.max (ry r) 0). set (vy1 := Z.min (ry r + rh r) (lh_of p o)).
  destruct (in_rect r x y) eqn:Ein.
  - apply in_rect_spec in Ein. destruct Ein as [Hrx Hry].
    rewrite (proj2 (Z.ltb_lt vx0 vx1)) by (unfold vx0, vx1; lia).
    rewrite (proj2 (Z.ltb_lt vy0 vy1)) by (unfold vy0, vy1; lia). cbn [andb].
    rewrite hit_contig_rows.
    rewrite (proj2 (Z.leb_le vy0 y)) by (unfold vy0; lia).
    rewrite (proj2 (Z.ltb_lt y (vy0 + Z.of_nat (Z.to_nat (vy1 - vy0))))) by (unfold vy0, vy1; lia).
    rewrite (proj2 (Z.leb_le vx0 x)) by (unfold vx0; lia). cbn [andb].
    f_equal.
    assert (Hk0 : 0 <= (y - ry r) * rw r + (vx0 - rx r)) by (unfold vx0; nia).
    rewrite tid_nth_error_firstn by (unfold vx0, vx1; lia).
    rewrite skipnZ_skipn, tid_nth_error_skipn, firstnZ_firstn.
    replace (Z.to_nat ((y - ry r) * rw r + (vx0 - rx r)) + Z.to_nat (x - vx0))%nat
      with (Z.to_nat ((y - ry r) * rw r + (x - rx r))) by (unfold vx0 in *; lia).
    apply tid_nth_error_firstn.
    assert (Hk : (y - ry r) * rw r + (x - rx r) < rw r * rh r) by nia.
    assert (Hk1 : 0 <= (y - ry r) * rw r + (x - rx r)) by nia. lia.
  - apply in_rect_nspec in Ein.
    destruct ((vx0 <? vx1) && (vy0 <? vy1)) eqn:Evis; [|reflexivity].
    apply andb_true_iff in Evis. destruct Evis as [E1 E2]. apply Z.ltb_lt in E1, E2.
    rewrite hit_contig_rows.
    destruct (Z.leb_spec vy0 y) as [H1|H1]; [|reflexivity].
    destruct (Z.ltb_spec y (vy0 + Z.of_nat (Z.to_nat (vy1 - vy0)))) as [H2|H2]; [|reflexivity].
    destruct (Z.leb_spec vx0 x) as [H3|H3]; [|reflexivity]. cbn [andb].
    rewrite tid_nth_error_firstn_ge; [reflexivity|]. unfold vx0, vx1, vy0, vy1 in *. lia.
Qed.

(* fill_solid(r, c) *)
Lemma hit_fill_solid (r : rect) (c : Z) :
  hit (spec_fill_solid enc p o r c) cx cy = if in_rect r x y then Some (enc c) else None.
Proof.
  unfold spec_fill_solid, clip_lo, clip_hi.
  set (vx0 := Z.max (rx r) 0). set (vx1 := Z.min (rx r + rw r) (lw_of p o)).
  set (vy0 := Z.max (ry r) 0). set (vy1 := Z.min (ry r + rh r) (lh_of p o)).
  destruct ((vx0 <? vx1) && (vy0 <? vy1)) eqn:Evis.
  - apply andb_true_iff in Evis. destruct Evis as [E1 E2]. apply Z.ltb_lt in E1, E2.
    cbn [hit]. rewrite (covers_prect enc p o x y cx cy Hcell) by lia. rewrite words_prect.
    replace (in_rect r x y) with ((vx0 <=? x) && (x <=? vx1 - 1) && (vy0 <=? y) && (y <=? vy1 - 1)); [reflexivity|].
    apply tid_bool_eq. rewrite in_rect_spec, !andb_true_iff, !Z.leb_le. unfold vx0, vx1, vy0, vy1. lia.
  - cbn [hit]. destruct (in_rect r x y) eqn:Ein; [|reflexivity].
    apply in_rect_spec in Ein. apply andb_false_iff in Evis.
    destruct Evis as [E|E]; apply Z.ltb_ge in E; unfold vx0, vx1, vy0, vy1 in E; lia.
Qed.
End Fills.

(* ------------------------------------------------------------------------------------------ *)
(* 4. one TestImage call, then the whole call list                                              *)
(* ------------------------------------------------------------------------------------------ *)
Section Calls.
Variable enc : Z -> list Z.
Variable col : colorfmt.
Variable p : panel.
Variable o : orient.
Variables x y cx cy : Z.
Hypothesis Hcell : cell p o x y = (cx, cy).
Hypothesis Hx : 0 <= x < lw_of p o.
Hypothesis Hy : 0 <= y < lh_of p o.

(* the specification entries of one call cover the cell of (x, y) exactly when the call paints (x, y)
   on a clipping target, and then with the encoding of the same colour *)
Lemma hit_tiop (op : tiop) :
  hit (spec_op_writes enc p o (pop_of_tiop col op)) cx cy =
  option_map (fun tc => enc (raw_of col tc)) (op_pixel op x y).
Proof.
  destruct op as [r cs|r f|r c]; cbn [pop_of_tiop spec_op_writes op_pixel].
  - rewrite (hit_fill_contig enc p o x y cx cy Hcell Hx Hy).
    destruct (in_rect r x y) eqn:Ein; [|reflexivity]. cbv zeta.
    rewrite tid_nth_error_map.
    destruct (Z.ltb_spec ((y - ry r) * rw r + (x - rx r)) (Z.of_nat (List.length cs))) as [Hk|Hk].
    + destruct (nth_error cs (Z.to_nat ((y - ry r) * rw r + (x - rx r)))); reflexivity.
    + apply in_rect_spec in Ein.
      assert (Hk0 : 0 <= (y - ry r) * rw r + (x - rx r)) by nia.
      rewrite (proj2 (nth_error_None cs (Z.to_nat ((y - ry r) * rw r + (x - rx r))))) by lia. reflexivity.
  - rewrite (hit_fill_contig enc p o x y cx cy Hcell Hx Hy).
    destruct (in_rect r x y) eqn:Ein; [|reflexivity].
    rewrite tid_nth_error_map, (points_nth r x y Ein). reflexivity.
  - rewrite (hit_fill_solid enc p o x y cx cy Hcell Hx Hy).
    destruct (in_rect r x y); reflexivity.
Qed.

Lemma spec_op_orient_tiop (op : tiop) : spec_op_orient o (pop_of_tiop col op) = o.
Proof. destruct op; reflexivity. Qed.

(* both sides are "last writer wins" over the same call list *)
Lemma hit_tiops : forall ops : list tiop,
  hit (spec_prog_writes enc p o (map (pop_of_tiop col) ops)) cx cy =
  option_map (fun tc => enc (raw_of col tc)) (pixel_of ops x y).
Proof.
  induction ops as [|op ops IH]; [reflexivity|].
  cbn [map spec_prog_writes pixel_of]. rewrite spec_op_orient_tiop, hit_app, IH, hit_tiop.
  destruct (pixel_of ops x y); reflexivity.
Qed.
End Calls.

(* ------------------------------------------------------------------------------------------ *)
(* 5. the converted call list is a well-formed drawing program                                  *)
(* ------------------------------------------------------------------------------------------ *)
(* fill_contiguous areas must have fewer than 2^32 points *)
Definition area_ok (op : tiop) : Prop :=
  match op with
  | TFillSolid _ _ => True
  | _ => rw (op_rect op) * rh (op_rect op) < 2 ^ 32
  end.

Lemma marker_list_area n : forall r, Forall area_ok (marker_list n r).
Proof. induction n as [|n IH]; intros r; cbn [marker_list]; constructor; [exact I|apply IH]. Qed.

Lemma g_box_size r : rw (g_box r) = 9 /\ rh (g_box r) = 11.
Proof. unfold g_box. rewrite center_eq, with_center_eq. split; reflexivity. Qed.

Lemma g_ops_area lw lh : 0 <= lw <= 65535 -> 0 <= lh <= 65535 -> Forall area_ok (g_ops lw lh).
Proof.
  intros Hw Hh. unfold g_ops. apply Forall_app; split; [|apply Forall_app; split].
  - constructor; [|constructor]. unfold area_ok. cbn [op_rect ti_bb rw rh].
    assert (Hm : lw * lh <= 65535 * 65535) by (apply Z.mul_le_mono_nonneg; lia).
    change (2 ^ 32) with 4294967296. lia.
  - unfold g_bars.
    repeat (constructor; [first [exact I | unfold area_ok; cbn [op_rect];
      destruct (g_box_size (g_area lw lh)) as [E1 E2];
      destruct (g_box_size (g_red (g_area lw lh))) as [E3 E4];
      destruct (g_box_size (g_blue (g_area lw lh))) as [E5 E6];
      rewrite ?E1, ?E2, ?E3, ?E4, ?E5, ?E6; reflexivity]|]).
    constructor.
  - apply marker_list_area.
Qed.

Lemma prog_wf_of_tiops (o : opts) (col : colorfmt) : forall ops : list tiop,
  Forall op_valid ops -> Forall area_ok ops -> prog_wf o (map (pop_of_tiop col) ops).
Proof.
  induction ops as [|op ops IH]; intros Hv Ha; [exact I|].
  inversion Hv as [|op0 ops0 Hv1 Hv2]; subst op0 ops0.
  inversion Ha as [|op0 ops0 Ha1 Ha2]; subst op0 ops0.
  cbn [map prog_wf]. split.
  - unfold op_wf. destruct (lsize o) as [lw lh]. unfold op_valid in Hv1.
    destruct op as [r cs|r f|r c]; cbn [pop_of_tiop op_rect area_ok] in *.
    + split; assumption.
    + split; assumption.
    + exact Hv1.
  - replace (match pop_of_tiop col op with PSetOrient x => set_orient o x | _ => o end) with o
      by (destruct op; reflexivity).
    exact (IH Hv2 Ha2).
Qed.

Lemma op_post_tiops (col : colorfmt) : forall (ops : list tiop) (st : dstate),
  fold_left op_post (map (pop_of_tiop col) ops) st = st.
Proof.
  induction ops as [|op ops IH]; intros st; [reflexivity|].
  cbn [map fold_left]. replace (op_post st (pop_of_tiop col op)) with st by (destruct op; reflexivity).
  apply IH.
Qed.

(* 1. every TestImage call is a fill_contiguous / fill_solid with a valid rectangle of fewer than 2^32
      points (the largest is the bounding box, lw * lh <= 65535^2); no call changes the orientation *)
Theorem ti_prog_wf (c : ctx) (col : colorfmt) (o : opts) (lw lh : Z) (ops : list tiop) :
  valid_cfg c o -> lsize o = (lw, lh) -> ti_ops lw lh = Ok ops ->
  prog_wf o (map (pop_of_tiop col) ops).
Proof.
  intros Hv Hls Hops.
  destruct (valid_cfg_lsize c o lw lh Hv Hls) as [Hlw Hlh].
  assert (HW : 0 <= lw < 2 ^ 31) by (change (2 ^ 31) with 2147483648; lia).
  assert (HH : 0 <= lh < 2 ^ 31) by (change (2 ^ 31) with 2147483648; lia).
  rewrite (ti_ops_ok lw lh HW HH) in Hops. inversion Hops; subst ops.
  apply prog_wf_of_tiops; [apply g_ops_valid; assumption|apply g_ops_area; lia].
Qed.

(* ------------------------------------------------------------------------------------------ *)
(* 6. TestImage through a Display                                                               *)
(* ------------------------------------------------------------------------------------------ *)
(* content of the framebuffer cell that logical point (x, y) is mapped to *)
Definition at_cell (k : ctl) (o : opts) (x y : Z) : option (list Z) :=
  let '(cx, cy) := cell (panel_of o) (o_orient o) x y in mem k cx cy.

(* the logical point whose cell is the physical cell (cx, cy): the inverse of `cell` *)
Definition uncell (o : opts) (cx cy : Z) : Z * Z :=
  let px0 := cx - o_ox o in
  let py := cy - o_oy o in
  let px := if mir (o_orient o) then o_w o - 1 - px0 else px0 in
  match rotn (o_orient o) with
  | D0 => (px, py)
  | D90 => (py, o_w o - 1 - px)
  | D180 => (o_w o - 1 - px, o_h o - 1 - py)
  | D270 => (o_h o - 1 - py, px)
  end.

(* every cell of the panel window is the cell of exactly one in-bounds logical point *)
Lemma cell_uncell (o : opts) (cx cy : Z) :
  o_ox o <= cx < o_ox o + o_w o -> o_oy o <= cy < o_oy o + o_h o ->
  let '(x, y) := uncell o cx cy in
  0 <= x < fst (lsize o) /\ 0 <= y < snd (lsize o) /\ cell (panel_of o) (o_orient o) x y = (cx, cy).
Proof.
  unfold uncell, cell, panel_of, spec_cell, rot_cw, lsize. cbn [p_w p_h p_ox p_oy].
  destruct (o_orient o) as [[] []]; cbn [rotn mir is_horizontal fst snd]; intros Hcx Hcy;
    (split; [lia|]); (split; [lia|]); f_equal; lia.
Qed.

Section Through.
Variable c : ctx.
Variable col : colorfmt.
Variable st : dstate.
Variable k : ctl.
Variables lw lh : Z.
Variable ops : list tiop.
Hypothesis Hv : valid_cfg c (d_opts st).
Hypothesis Hmad : madctl_ok st.
Hypothesis Hm : ctl_matches c (d_opts st) k.
Hypothesis Hcap : (1 <= c_rowcap c)%nat.
Hypothesis Hcb : (c_rowcap c <= c_blockcap c)%nat.
Hypothesis Hls : lsize (d_opts st) = (lw, lh).
Hypothesis Hops : ti_ops lw lh = Ok ops.

Let o := d_opts st.
Let prog := map (pop_of_tiop col) ops.
Let k' := ctl_run k (exec_trace c st prog).

Lemma ti_prog_wf_here : prog_wf (d_opts st) prog.
Proof. exact (ti_prog_wf c col (d_opts st) lw lh ops Hv Hls Hops). Qed.

(* 2. every call returns Ok; the controller's write history grows by exactly the specification entries
      of the calls; it flags nothing; the driver state is unchanged *)
Theorem ti_through_display_writes :
  exec_all_ok c st prog = true /\
  writes k' = writes k ++ spec_prog_writes (c_enc c) (panel_of o) (o_orient o) prog /\
  k_flags k' = k_flags k /\
  snd (exec c st prog) = st.
Proof.
  pose proof (exec_draw_program c prog st k Hv Hmad Hm Hcap Hcb ti_prog_wf_here) as H. cbv zeta in H.
  destruct H as (Hok & Hw & Hf & Hst & _).
  split; [exact Hok|]. split; [exact Hw|]. split; [exact Hf|].
  rewrite Hst. apply op_post_tiops.
Qed.

(* 3. the picture in the framebuffer: the cell of every logical pixel holds the encoded colour of the
      TestImage picture there (or its old content where the picture leaves a pixel unpainted, which
      happens on small targets only); nothing outside the panel window is touched *)
Theorem ti_through_display_picture :
  (forall x y, 0 <= x < lw -> 0 <= y < lh ->
     let '(cx, cy) := cell (panel_of o) (o_orient o) x y in
     mem k' cx cy = match ti_pixel lw lh x y with
                    | Some tc => Some (c_enc c (raw_of col tc))
                    | None => mem k cx cy
                    end) /\
  (forall cx cy, ~ (o_ox o <= cx < o_ox o + o_w o /\ o_oy o <= cy < o_oy o + o_h o) ->
     mem k' cx cy = mem k cx cy).
Proof.
  split.
  - intros x y Hx Hy.
    destruct (cell (panel_of o) (o_orient o) x y) as [cx cy] eqn:Hcell.
    destruct (mem_last_write_wins c prog st k cx cy Hv Hmad Hm Hcap Hcb ti_prog_wf_here) as [E _].
    fold o in E. fold k' in E. rewrite E, last_write_hit.
    destruct (lsize_panel o) as [Elw Elh]. unfold o in Elw, Elh. rewrite Hls in Elw, Elh.
    cbn [fst snd] in Elw, Elh.
    unfold prog.
    rewrite (hit_tiops (c_enc c) col (panel_of o) (o_orient o) x y cx cy Hcell)
      by (unfold o; rewrite ?Elw, ?Elh; assumption).
    unfold ti_pixel, in_target.
    rewrite (proj2 (Z.leb_le 0 x)), (proj2 (Z.ltb_lt x lw)), (proj2 (Z.leb_le 0 y)), (proj2 (Z.ltb_lt y lh))
      by lia.
    cbn [andb]. rewrite Hops.
    destruct (pixel_of ops x y); reflexivity.
  - intros cx cy Hout.
    exact (proj2 (mem_last_write_wins c prog st k cx cy Hv Hmad Hm Hcap Hcb ti_prog_wf_here) Hout).
Qed.

Lemma ti_at_cell x y : 0 <= x < lw -> 0 <= y < lh ->
  at_cell k' o x y = match ti_pixel lw lh x y with
                     | Some tc => Some (c_enc c (raw_of col tc))
                     | None => at_cell k o x y
                     end.
Proof.
  intros Hx Hy. pose proof (proj1 ti_through_display_picture x y Hx Hy) as H. unfold at_cell.
  destruct (cell (panel_of o) (o_orient o) x y) as [cx cy]. exact H.
Qed.

(* 4. on logical sizes of at least 32 x 32 the diagnostic properties hold on the physical panel *)
Theorem ti_on_panel_diagnostic : 32 <= lw -> 32 <= lh ->
  let w3 := (lw - 10) / 3 in
  let shows x y tc := at_cell k' o x y = Some (c_enc c (raw_of col tc)) in
  (* every logical pixel's cell is painted, with the picture's colour *)
  (forall x y, 0 <= x < lw -> 0 <= y < lh -> exists tc, ti_pixel lw lh x y = Some tc /\ shows x y tc) /\
  (* every cell of the panel window is painted with one of the five colours *)
  (forall cx cy, o_ox o <= cx < o_ox o + o_w o -> o_oy o <= cy < o_oy o + o_h o ->
     exists tc, mem k' cx cy = Some (c_enc c (raw_of col tc))) /\
  (* the white frame, one pixel wide, and the black ring inside it *)
  (forall x y, 0 <= x < lw -> 0 <= y < lh -> x = 0 \/ x = lw - 1 \/ y = 0 \/ y = lh - 1 -> shows x y TWhite) /\
  (forall x y, (1 <= x <= lw - 2 /\ (y = 1 \/ y = lh - 2)) \/ (1 <= y <= lh - 2 /\ (x = 1 \/ x = lw - 2)) ->
     shows x y TBlack) /\
  (* the bottom row of the bar area is an undisturbed red | green | blue strip *)
  (forall x, 5 <= x <= lw - 6 ->
     shows x (lh - 6) (if x <? 5 + w3 then TRed else if x <? lw - 5 - w3 then TGreen else TBlue)) /\
  (5 < 5 + w3 /\ 5 + w3 < lw - 5 - w3 /\ lw - 5 - w3 <= lw - 6) /\
  (* the four inset corners: white marker, blue, red, blue *)
  shows 5 5 TWhite /\ shows (lw - 6) 5 TBlue /\ shows 5 (lh - 6) TRed /\ shows (lw - 6) (lh - 6) TBlue.
Proof.
  intros H32w H32h. cbv zeta.
  destruct (valid_cfg_lsize c (d_opts st) lw lh Hv Hls) as [Hlw Hlh].
  assert (HW : 32 <= lw < 2 ^ 31) by (change (2 ^ 31) with 2147483648; lia).
  assert (HH : 32 <= lh < 2 ^ 31) by (change (2 ^ 31) with 2147483648; lia).
  assert (Hshow : forall x y tc, 0 <= x < lw -> 0 <= y < lh -> ti_pixel lw lh x y = Some tc ->
                  at_cell k' o x y = Some (c_enc c (raw_of col tc))).
  { intros x y tc Hx Hy E. rewrite (ti_at_cell x y Hx Hy), E. reflexivity. }
  assert (Hcov : forall x y, 0 <= x < lw -> 0 <= y < lh ->
                 exists tc, ti_pixel lw lh x y = Some tc /\ at_cell k' o x y = Some (c_enc c (raw_of col tc))).
  { intros x y Hx Hy. pose proof (ti_covered lw lh HW HH x y Hx Hy) as Hc.
    destruct (ti_pixel lw lh x y) as [tc|] eqn:E; [|contradiction].
    exists tc. split; [reflexivity|]. apply Hshow; assumption. }
  destruct (ti_frame lw lh HW HH) as [Hwhite Hblack].
  destruct (ti_bars lw lh HW HH) as (_ & _ & Hord & Hrow & _ & _ & _).
  split; [exact Hcov|].
  split.
  { intros cx cy Hcx Hcy. pose proof (cell_uncell o cx cy Hcx Hcy) as Hu.
    destruct (uncell o cx cy) as [x y]. destruct Hu as (Hx & Hy & Hcell).
    unfold o in Hx, Hy. rewrite Hls in Hx, Hy. cbn [fst snd] in Hx, Hy.
    destruct (Hcov x y Hx Hy) as (tc & _ & Hs). exists tc.
    unfold at_cell in Hs. rewrite Hcell in Hs. exact Hs. }
  split; [intros x y Hx Hy He; apply Hshow; try assumption; apply Hwhite; assumption|].
  split.
  { intros x y Hr. apply Hshow; [destruct Hr as [(Hr & _)|(_ & [He|He])]; lia
                                |destruct Hr as [(_ & [He|He])|(Hr & _)]; lia
                                |apply Hblack; exact Hr]. }
  split; [intros x Hx; apply Hshow; [lia|lia|apply Hrow; exact Hx]|].
  split; [exact Hord|].
  split; [apply Hshow; [lia|lia|apply ti_cell_marker; assumption]|].
  split; [apply Hshow; [lia|lia|apply ti_cell_top_right; assumption]|].
  split; [apply Hshow; [lia|lia|apply ti_cell_bottom_left; assumption]|].
  apply Hshow; [lia|lia|apply ti_cell_bottom_right; assumption].
Qed.
End Through.

(* the statements do not depend on the build profile or on the `batch` feature: `c` is arbitrary, and
   the hypotheses on it mention only the framebuffer size and the batcher's capacities *)
Theorem ti_through_display_any_profile (c : ctx) (col : colorfmt) (st : dstate) (k : ctl)
        (lw lh : Z) (ops : list tiop) (m : mode) (b : bool) :
  valid_cfg c (d_opts st) -> madctl_ok st -> ctl_matches c (d_opts st) k ->
  (1 <= c_rowcap c)%nat -> (c_rowcap c <= c_blockcap c)%nat ->
  lsize (d_opts st) = (lw, lh) -> ti_ops lw lh = Ok ops ->
  let c' := with_batch (with_mode c m) b in
  let o := d_opts st in
  let k' := ctl_run k (exec_trace c' st (map (pop_of_tiop col) ops)) in
  exec_all_ok c' st (map (pop_of_tiop col) ops) = true /\ k_flags k' = k_flags k /\
  (forall x y, 0 <= x < lw -> 0 <= y < lh ->
     at_cell k' o x y = match ti_pixel lw lh x y with
                        | Some tc => Some (c_enc c (raw_of col tc))
                        | None => at_cell k o x y
                        end) /\
  (forall cx cy, ~ (o_ox o <= cx < o_ox o + o_w o /\ o_oy o <= cy < o_oy o + o_h o) ->
     mem k' cx cy = mem k cx cy).
Proof.
  intros Hv Hmad Hm Hcap Hcb Hls Hops. cbv zeta.
  assert (Hv' : valid_cfg (with_batch (with_mode c m) b) (d_opts st)) by exact Hv.
  assert (Hm' : ctl_matches (with_batch (with_mode c m) b) (d_opts st) k) by exact Hm.
  pose proof (ti_through_display_writes (with_batch (with_mode c m) b) col st k lw lh ops
                Hv' Hmad Hm' Hcap Hcb Hls Hops) as (Hok & _ & Hf & _).
  split; [exact Hok|]. split; [exact Hf|]. split.
  - intros x y Hx Hy.
    exact (ti_at_cell (with_batch (with_mode c m) b) col st k lw lh ops Hv' Hmad Hm' Hcap Hcb Hls Hops x y Hx Hy).
  - exact (proj2 (ti_through_display_picture (with_batch (with_mode c m) b) col st k lw lh ops
                    Hv' Hmad Hm' Hcap Hcb Hls Hops)).
Qed.

(* ------------------------------------------------------------------------------------------ *)
(* 7. decoding the stored words returns the drawn colour (C05 composed with C01)                *)
(* ------------------------------------------------------------------------------------------ *)
(* what a MIPI-DCS controller reads back from the words, for the announced format and bus width *)
Definition dec_of (col : colorfmt) (word16 : bool) : list Z -> option (Z * Z * Z) :=
  match col, word16 with
  | CRgb565, false => dec565_8
  | CRgb565, true => dec565_16
  | CRgb666, _ => dec666_8
  end.

(* RgbColor::{WHITE, BLACK, RED, GREEN, BLUE} as components, 5-6-5 or 6-6-6 bits *)
Definition rgb_of (col : colorfmt) (tc : tcolor) : Z * Z * Z :=
  match col, tc with
  | CRgb565, TWhite => (31, 63, 31) | CRgb565, TBlack => (0, 0, 0) | CRgb565, TRed => (31, 0, 0)
  | CRgb565, TGreen => (0, 63, 0) | CRgb565, TBlue => (0, 0, 31)
  | CRgb666, TWhite => (63, 63, 63) | CRgb666, TBlack => (0, 0, 0) | CRgb666, TRed => (63, 0, 0)
  | CRgb666, TGreen => (0, 63, 0) | CRgb666, TBlue => (0, 0, 63)
  end.

Lemma raw_of_components (col : colorfmt) (tc : tcolor) :
  raw_of col tc = let '(r, g, b) := rgb_of col tc in
                  match col with CRgb565 => raw565 r g b | CRgb666 => raw666 r g b end.
Proof. destruct col, tc; reflexivity. Qed.

Lemma ti_colour_decodes (col : colorfmt) (w16 : bool) (tc : tcolor) :
  dec_of col w16 (enc_of col w16 (raw_of col tc)) = Some (rgb_of col tc).
Proof. destruct col, w16, tc; vm_compute; reflexivity. Qed.

(* distinct TestImage colours stay distinct in the framebuffer *)
Lemma ti_colour_words_injective (col : colorfmt) (w16 : bool) (a b : tcolor) :
  enc_of col w16 (raw_of col a) = enc_of col w16 (raw_of col b) -> a = b.
Proof. destruct col, w16, a, b; vm_compute; intros E; try reflexivity; discriminate E. Qed.

(* set_pixel(x, y, raw): afterwards the cell of (x, y) holds the encoder's words for raw, and a
   controller decoding them for the announced format reads back the drawn components *)
Theorem drawn_colour_decodes (c : ctx) (st : dstate) (k : ctl) (x y raw : Z) :
  valid_cfg c (d_opts st) -> ctl_matches c (d_opts st) k ->
  0 <= x < fst (lsize (d_opts st)) -> 0 <= y < snd (lsize (d_opts st)) ->
  let o := d_opts st in
  let k' := ctl_run k (fst (fst (step c st (PSetPixel x y raw)))) in
  snd (fst (step c st (PSetPixel x y raw))) = ROk /\
  at_cell k' o x y = Some (c_enc c raw) /\
  (c_enc c = enc565_8 -> forall r g b, 0 <= r < 32 -> 0 <= g < 64 -> 0 <= b < 32 -> raw = raw565 r g b ->
     at_cell k' o x y = Some (enc565_8 raw) /\ dec565_8 (enc565_8 raw) = Some (r, g, b)) /\
  (c_enc c = enc565_16 -> forall r g b, 0 <= r < 32 -> 0 <= g < 64 -> 0 <= b < 32 -> raw = raw565 r g b ->
     at_cell k' o x y = Some (enc565_16 raw) /\ dec565_16 (enc565_16 raw) = Some (r, g, b)) /\
  (c_enc c = enc666_8 -> forall r g b, 0 <= r < 64 -> 0 <= g < 64 -> 0 <= b < 64 -> raw = raw666 r g b ->
     at_cell k' o x y = Some (enc666_8 raw) /\ dec666_8 (enc666_8 raw) = Some (r, g, b)).
Proof.
  intros Hv Hm Hx Hy. cbv zeta.
  pose proof (set_pixel_decode c st (d_opts st) k x y raw eq_refl Hv Hm Hx Hy) as H.
  destruct (win_off c (d_opts st)) as [dx dy]. cbv zeta in H. destruct H as (Est & _ & _ & Hw & _).
  rewrite Est. cbn [fst snd].
  assert (Hcell : at_cell (ctl_run k [ECmd 0x2A (be16 (x + dx) ++ be16 (x + dx));
                                      ECmd 0x2B (be16 (y + dy) ++ be16 (y + dy));
                                      ECmd 0x2C []; EPixels [c_enc c raw]]) (d_opts st) x y
                  = Some (c_enc c raw)).
  { unfold at_cell.
    destruct (cell (panel_of (d_opts st)) (o_orient (d_opts st)) x y) as [cx cy] eqn:Ec.
    rewrite (mem_after_writes k _ _ cx cy Hw), last_write_hit. cbn [hit].
    rewrite (covers_px (c_enc c) _ _ x y cx cy Ec), !Z.eqb_refl, words_px. reflexivity. }
  split; [reflexivity|]. split; [exact Hcell|].
  split; [|split].
  - intros Henc r g b Hr Hg Hb Eraw. split; [rewrite <- Henc; exact Hcell|].
    subst raw. exact (proj2 (proj2 (proj2 (proj2 (proj2 (proj2 (proj2 (rgb565_bytes r g b Hr Hg Hb)))))))).
  - intros Henc r g b Hr Hg Hb Eraw. split; [rewrite <- Henc; exact Hcell|].
    subst raw. exact (proj2 (proj2 (rgb565_word r g b Hr Hg Hb))).
  - intros Henc r g b Hr Hg Hb Eraw. split; [rewrite <- Henc; exact Hcell|].
    subst raw. exact (proj2 (proj2 (proj2 (proj2 (proj2 (rgb666_bytes r g b Hr Hg Hb)))))).
Qed.

(* the same for the TestImage picture: a controller decoding the cell of a painted logical pixel, for
   the announced format, reads back the components of the picture's colour *)
Theorem ti_panel_decodes (c : ctx) (col : colorfmt) (w16 : bool) (st : dstate) (k : ctl)
        (lw lh : Z) (ops : list tiop) :
  valid_cfg c (d_opts st) -> madctl_ok st -> ctl_matches c (d_opts st) k ->
  (1 <= c_rowcap c)%nat -> (c_rowcap c <= c_blockcap c)%nat ->
  lsize (d_opts st) = (lw, lh) -> ti_ops lw lh = Ok ops -> c_enc c = enc_of col w16 ->
  let o := d_opts st in
  let k' := ctl_run k (exec_trace c st (map (pop_of_tiop col) ops)) in
  forall x y tc, 0 <= x < lw -> 0 <= y < lh -> ti_pixel lw lh x y = Some tc ->
    exists ws, at_cell k' o x y = Some ws /\ dec_of col w16 ws = Some (rgb_of col tc).
Proof.
  intros Hv Hmad Hm Hcap Hcb Hls Hops Henc. cbv zeta. intros x y tc Hx Hy E.
  exists (enc_of col w16 (raw_of col tc)). split; [|apply ti_colour_decodes].
  rewrite (ti_at_cell c col st k lw lh ops Hv Hmad Hm Hcap Hcb Hls Hops x y Hx Hy), E, Henc. reflexivity.
Qed.

Print Assumptions ti_prog_wf.
Print Assumptions ti_through_display_writes.
Print Assumptions ti_through_display_picture.
Print Assumptions ti_on_panel_diagnostic.
Print Assumptions ti_through_display_any_profile.
Print Assumptions drawn_colour_decodes.
Print Assumptions ti_panel_decodes.
