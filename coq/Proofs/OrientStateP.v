(* OrientStateP.v — Display::set_orientation over any history (C10): the state after any sequence of
   orientation changes is the state of a display built with the last orientation. *)
Require Import Model.Base Model.Orient Model.Dcs Model.Events Model.Builder Model.Rect Model.Batch Model.Display.
Require Import Oracle.Controller Proofs.DcsP Proofs.CtlP.
Open Scope Z_scope.

(* the state Builder::init produces for options o when Model::init returns SetAddressMode::from(options) *)
Definition fresh_state (o : opts) : dstate :=
  {| d_opts := o; d_madctl := madctl_of_opts o; d_sleeping := false |}.

(* the cached MADCTL is the encoding of the stored options *)
Definition madctl_ok (st : dstate) : Prop := d_madctl st = madctl_of_opts (d_opts st).

Lemma builder_init_state md FW FH rst o t st :
  builder_init md FW FH rst o (t, Ok (madctl_of_opts o)) = (reset_events rst ++ t, Ok st) -> st = fresh_state o.
Proof.
  unfold builder_init. destruct (init_check md FW FH (o_w o) (o_h o) (o_ox o) (o_oy o)); try discriminate.
  cbn [bind]. intros E. inversion E. reflexivity.
Qed.

(* replacing the orientation bits of the encoding of o gives the encoding of o with the new orientation:
   colour-order and refresh-order bits are preserved (512 cases) *)
Lemma with_orientation_of_opts o x :
  with_orientation (madctl_of_opts o) x = madctl_of_opts (set_orient o x).
Proof.
  unfold madctl_of_opts, set_orient; cbn [o_bgr o_orient o_btt o_rtl].
  destruct (o_bgr o), (o_orient o) as [[] []], (o_btt o), (o_rtl o), x as [[] []]; reflexivity.
Qed.

Lemma step_set_orient c st x :
  step c st (PSetOrient x) =
  ([ECmd 0x36 [with_orientation (d_madctl st) x]], ROk,
   {| d_opts := set_orient (d_opts st) x; d_madctl := with_orientation (d_madctl st) x; d_sleeping := d_sleeping st |}).
Proof. unfold step. rewrite write_command_spec. reflexivity. Qed.

Lemma step_set_orient_ok c st x : madctl_ok st ->
  step c st (PSetOrient x) =
  ([ECmd 0x36 [madctl_of_opts (set_orient (d_opts st) x)]], ROk,
   {| d_opts := set_orient (d_opts st) x; d_madctl := madctl_of_opts (set_orient (d_opts st) x);
      d_sleeping := d_sleeping st |}).
Proof. intros H. rewrite step_set_orient, H, with_orientation_of_opts. reflexivity. Qed.

Lemma set_orient_twice o x y : set_orient (set_orient o x) y = set_orient o y.
Proof. reflexivity. Qed.

Lemma last_indep {A} (l : list A) : forall y d d', last (y :: l) d = last (y :: l) d'.
Proof. induction l as [|z l IH]; intros y d d'; [reflexivity|]. change (last (z :: l) d = last (z :: l) d'). apply IH. Qed.

(* any finite sequence of orientations *)
Lemma exec_orients c : forall os st, madctl_ok st ->
  let o := d_opts st in
  let lasto := last os (o_orient o) in
  exec c st (map PSetOrient os) =
  (map (fun x => ([ECmd 0x36 [madctl_of_opts (set_orient o x)]], ROk)) os,
   match os with
   | [] => st
   | _ => {| d_opts := set_orient o lasto; d_madctl := madctl_of_opts (set_orient o lasto); d_sleeping := d_sleeping st |}
   end).
Proof.
  induction os as [|x os IH]; intros st H; [reflexivity|].
  cbn [map exec]. rewrite (step_set_orient_ok c st x H).
  set (st1 := {| d_opts := set_orient (d_opts st) x; d_madctl := madctl_of_opts (set_orient (d_opts st) x);
                 d_sleeping := d_sleeping st |}).
  assert (H1 : madctl_ok st1) by reflexivity.
  specialize (IH st1 H1). cbn zeta in IH. rewrite IH. cbn [d_opts st1 d_sleeping].
  destruct os as [|y os']; [reflexivity|].
  cbn [d_opts st1 d_sleeping].
  change (last (x :: y :: os') (o_orient (d_opts st))) with (last (y :: os') (o_orient (d_opts st))).
  rewrite (last_indep os' y (o_orient (set_orient (d_opts st) x)) (o_orient (d_opts st))).
  reflexivity.
Qed.

(* the state after the sequence is the state of a display freshly built with the last orientation *)
Lemma exec_orients_fresh c os o : os <> [] ->
  snd (exec c (fresh_state o) (map PSetOrient os)) = fresh_state (set_orient o (last os (o_orient o))).
Proof.
  intros Hne. rewrite exec_orients by reflexivity. destruct os; [congruence|]. reflexivity.
Qed.

(* ... hence every later program behaves identically on both displays *)
Lemma exec_after_orients c os o p : os <> [] ->
  exec c (snd (exec c (fresh_state o) (map PSetOrient os))) p =
  exec c (fresh_state (set_orient o (last os (o_orient o)))) p.
Proof. intros H. rewrite exec_orients_fresh by exact H. reflexivity. Qed.

(* reported orientation and size *)
Lemma fresh_state_reports o x :
  o_orient (d_opts (fresh_state (set_orient o x))) = x /\
  lsize (d_opts (fresh_state (set_orient o x))) = (if is_horizontal (rotn x) then (o_w o, o_h o) else (o_h o, o_w o)) /\
  d_madctl (fresh_state (set_orient o x)) = madctl_new (o_bgr o) x (o_btt o) (o_rtl o).
Proof. repeat split. Qed.

(* the controller holds the same byte: the last 0x36 parameter of the trace *)
Lemma ctl_madctl k b : k_page k = false -> k_madctl (ctl_run k [ECmd 0x36 [b]]) = b /\ k_page (ctl_run k [ECmd 0x36 [b]]) = false.
Proof. intros H. cbn [ctl_run fold_left ctl_step]. unfold command. rewrite H. cbn. split; [reflexivity | exact H]. Qed.

Lemma ctl_run_app k a b : ctl_run k (a ++ b) = ctl_run (ctl_run k a) b.
Proof. unfold ctl_run. apply fold_left_app. Qed.

Lemma ctl_after_orients c : forall os st k, madctl_ok st -> k_page k = false -> os <> [] ->
  let k' := ctl_run k (exec_trace c st (map PSetOrient os)) in
  k_madctl k' = d_madctl (snd (exec c st (map PSetOrient os))) /\ k_page k' = false.
Proof.
  induction os as [|x os IH]; intros st k H Hpg Hne; [congruence|].
  unfold exec_trace. cbn [map exec]. rewrite (step_set_orient_ok c st x H).
  set (st1 := {| d_opts := set_orient (d_opts st) x; d_madctl := madctl_of_opts (set_orient (d_opts st) x);
                 d_sleeping := d_sleeping st |}).
  destruct (exec c st1 (map PSetOrient os)) as [l stf] eqn:E. cbn [fst snd map concat].
  change ([ECmd 54 [madctl_of_opts (set_orient (d_opts st) x)]] ++ concat (map fst l))
    with ([ECmd 0x36 [madctl_of_opts (set_orient (d_opts st) x)]] ++ concat (map fst l)).
  rewrite ctl_run_app.
  destruct (ctl_madctl k (madctl_of_opts (set_orient (d_opts st) x)) Hpg) as [Hm Hp].
  destruct os as [|y os'].
  - cbn in E. inversion E; subst. cbn [map concat]. cbn [ctl_run fold_left] in *. split; [exact Hm | exact Hp].
  - assert (H1 : madctl_ok st1) by reflexivity.
    specialize (IH st1 _ H1 Hp ltac:(discriminate)). unfold exec_trace in IH. rewrite E in IH. cbn [fst snd] in IH.
    exact IH.
Qed.
