(* CtlP.v — how the reference controller decodes one window + pixel burst. *)
Require Import Model.Base Model.Orient Model.Dcs Model.Events.
Require Import Oracle.Controller Proofs.DcsP.
Open Scope Z_scope.

(* ---- host-side enumeration of a burst: row-major over the window, as far as the data lasts ---- *)
Fixpoint host_row (c p : Z) (n : nat) (wss : list (list Z)) : list (Z * Z * list Z) * list (list Z) :=
  match n, wss with
  | S n', ws :: r => let '(l, rest) := host_row (c + 1) p n' r in ((c, p, ws) :: l, rest)
  | _, _ => ([], wss)
  end.
Fixpoint host_rows (sc p : Z) (w rows : nat) (wss : list (list Z)) : list (Z * Z * list Z) :=
  match rows with
  | O => []
  | S r' =>
      match wss with
      | [] => []
      | _ => let '(l, rest) := host_row sc p w wss in l ++ host_rows sc (p + 1) w r' rest
      end
  end.

Definition to_wr (fw fh m : Z) (e : Z * Z * list Z) : wr :=
  let '(c, p, ws) := e in let '(x, y) := phys fw fh m c p in WPx x y ws.

(* ---- record plumbing ---- *)
Lemma with_ptr_fields k a b s :
  k_fw (with_ptr k a b s) = k_fw k /\ k_fh (with_ptr k a b s) = k_fh k /\
  k_madctl (with_ptr k a b s) = k_madctl k /\ k_sc (with_ptr k a b s) = k_sc k /\
  k_ec (with_ptr k a b s) = k_ec k /\ k_sp (with_ptr k a b s) = k_sp k /\ k_ep (with_ptr k a b s) = k_ep k /\
  k_ptr (with_ptr k a b s) = a /\ k_wrev (with_ptr k a b s) = b /\ k_flags (with_ptr k a b s) = k_flags k /\
  k_ramwr_seen (with_ptr k a b s) = s /\ k_page (with_ptr k a b s) = k_page k.
Proof. repeat split. Qed.

Lemma with_ptr_twice k a b s a' b' s' : with_ptr (with_ptr k a b s) a' b' s' = with_ptr k a' b' s'.
Proof. reflexivity. Qed.

Lemma with_ptr_trans k k1 q1 e s1 q2 l2 :
  k1 = with_ptr k q1 (e :: k_wrev k) s1 -> s1 = k_ramwr_seen k ->
  with_ptr k1 q2 (l2 ++ k_wrev k1) (k_ramwr_seen k1) = with_ptr k q2 ((l2 ++ [e]) ++ k_wrev k) (k_ramwr_seen k).
Proof. intros -> ->. unfold with_ptr; cbn. rewrite <- app_assoc. reflexivity. Qed.

(* one pixel strictly inside a row *)
Lemma write_px_inner k c p ws :
  k_ptr k = Some (c, p, false) -> c < k_ec k ->
  write_px k ws = with_ptr k (Some (c + 1, p, false))
                           (to_wr (k_fw k) (k_fh k) (k_madctl k) (c, p, ws) :: k_wrev k) (k_ramwr_seen k).
Proof.
  intros Hp Hc. unfold write_px, to_wr. rewrite Hp.
  destruct (phys (k_fw k) (k_fh k) (k_madctl k) c p) as [x y].
  apply Z.ltb_lt in Hc. rewrite Hc. reflexivity.
Qed.

(* the last pixel of a row that is not the last row *)
Lemma write_px_eol k c p ws :
  k_ptr k = Some (c, p, false) -> c = k_ec k -> p < k_ep k ->
  write_px k ws = with_ptr k (Some (k_sc k, p + 1, false))
                           (to_wr (k_fw k) (k_fh k) (k_madctl k) (c, p, ws) :: k_wrev k) (k_ramwr_seen k).
Proof.
  intros Hp Hc Hpp. unfold write_px, to_wr. rewrite Hp.
  destruct (phys (k_fw k) (k_fh k) (k_madctl k) c p) as [x y].
  assert (E : (c <? k_ec k) = false) by (apply Z.ltb_ge; lia). rewrite E.
  apply Z.ltb_lt in Hpp. rewrite Hpp. reflexivity.
Qed.

(* the very last pixel of the window: the pointer wraps, nothing is flagged yet *)
Lemma write_px_last k c p ws :
  k_ptr k = Some (c, p, false) -> c = k_ec k -> p = k_ep k ->
  write_px k ws = with_ptr k (Some (k_sc k, k_sp k, true))
                           (to_wr (k_fw k) (k_fh k) (k_madctl k) (c, p, ws) :: k_wrev k) (k_ramwr_seen k).
Proof.
  intros Hp Hc Hpp. unfold write_px, to_wr. rewrite Hp.
  destruct (phys (k_fw k) (k_fh k) (k_madctl k) c p) as [x y].
  assert (E : (c <? k_ec k) = false) by (apply Z.ltb_ge; lia). rewrite E.
  assert (E2 : (p <? k_ep k) = false) by (apply Z.ltb_ge; lia). rewrite E2. reflexivity.
Qed.

(* the pointer after a burst *)
Definition ptr_ok (k : ctl) (q : option (Z * Z * bool)) : Prop :=
  match q with
  | Some (c, p, false) => k_sc k <= c <= k_ec k /\ k_sp k <= p <= k_ep k
  | Some (_, _, true) => True
  | None => False
  end.

(* part of one row: n pixels starting at column c, all inside the row *)
Lemma write_row k : forall n c p wss,
  k_ptr k = Some (c, p, false) -> c + Z.of_nat n - 1 <= k_ec k -> (n <= length wss)%nat ->
  k_sp k <= p <= k_ep k -> k_sc k <= c ->
  exists q,
    fold_left write_px (firstn n wss) k =
      with_ptr k q (rev (map (to_wr (k_fw k) (k_fh k) (k_madctl k)) (fst (host_row c p n wss))) ++ k_wrev k) (k_ramwr_seen k)
    /\ snd (host_row c p n wss) = skipn n wss
    /\ (n = 0%nat -> q = Some (c, p, false))
    /\ (n <> 0%nat -> c + Z.of_nat n - 1 < k_ec k -> q = Some (c + Z.of_nat n, p, false))
    /\ (n <> 0%nat -> c + Z.of_nat n - 1 = k_ec k -> p < k_ep k -> q = Some (k_sc k, p + 1, false))
    /\ (n <> 0%nat -> c + Z.of_nat n - 1 = k_ec k -> p = k_ep k -> q = Some (k_sc k, k_sp k, true)).
Proof.
  intros n. revert k. induction n as [|n IH]; intros k c p wss Hp Hc Hlen Hpp Hsc.
  - exists (Some (c, p, false)). cbn [firstn fold_left host_row fst snd map rev app skipn].
    split; [destruct k; cbn in *; subst; reflexivity|]. repeat split; try reflexivity; intros; congruence.
  - destruct wss as [|ws wss]; [cbn in Hlen; lia|]. cbn [length] in Hlen.
    cbn [firstn fold_left host_row].
    destruct (host_row (c + 1) p n wss) as [l rest] eqn:EH. cbn [fst snd map rev skipn].
    destruct (Z_lt_ge_dec c (k_ec k)) as [Hin|Hend].
    + (* the pixel is strictly inside the row *)
      rewrite (write_px_inner k c p ws Hp Hin).
      set (k1 := with_ptr k (Some (c + 1, p, false)) (to_wr (k_fw k) (k_fh k) (k_madctl k) (c, p, ws) :: k_wrev k) (k_ramwr_seen k)).
      assert (Hp1 : k_ptr k1 = Some (c + 1, p, false)) by reflexivity.
      assert (Hc1 : c + 1 + Z.of_nat n - 1 <= k_ec k1) by (change (k_ec k1) with (k_ec k); lia).
      assert (Hl1 : (n <= length wss)%nat) by lia.
      assert (Hpp1 : k_sp k1 <= p <= k_ep k1) by exact Hpp.
      assert (Hsc1 : k_sc k1 <= c + 1) by (change (k_sc k1) with (k_sc k); lia).
      destruct (IH k1 (c + 1) p wss Hp1 Hc1 Hl1 Hpp1 Hsc1) as (q & E & Es & Q0 & Q1 & Q2 & Q3).
      rewrite EH in E, Es. cbn [fst snd] in E, Es.
      change (k_ec k1) with (k_ec k) in *. change (k_ep k1) with (k_ep k) in *.
      change (k_sc k1) with (k_sc k) in *. change (k_sp k1) with (k_sp k) in *.
      exists q. split.
      { rewrite E. change (k_fw k1) with (k_fw k). change (k_fh k1) with (k_fh k).
        change (k_madctl k1) with (k_madctl k). cbn [map rev].
        apply (with_ptr_trans k k1 (Some (c + 1, p, false)) _ (k_ramwr_seen k)); reflexivity. }
      split; [exact Es|]. split; [intros; congruence|].
      destruct n as [|n'].
      * (* this was the only pixel *)
        rewrite (Q0 eq_refl). repeat split; intros; try lia.
      * assert (Hn : S n' <> 0%nat) by congruence.
        split; [intros _ H; rewrite (Q1 Hn) by lia; do 3 f_equal; lia|].
        split; [intros _ H1 H2; apply (Q2 Hn); lia|].
        intros _ H1 H2; apply (Q3 Hn); lia.
    + (* the pixel is the last one of the row, so it is the last one of this part *)
      assert (n = 0%nat) by lia. subst n. cbn in EH. inversion EH; subst l rest; clear EH.
      cbn [firstn fold_left map rev app].
      destruct (Z_lt_ge_dec p (k_ep k)) as [Hrow|Hlast].
      * rewrite (write_px_eol k c p ws Hp ltac:(lia) Hrow).
        exists (Some (k_sc k, p + 1, false)). split; [reflexivity|]. split; [reflexivity|].
        repeat split; intros; try lia; try congruence.
      * rewrite (write_px_last k c p ws Hp ltac:(lia) ltac:(lia)).
        exists (Some (k_sc k, k_sp k, true)). split; [reflexivity|]. split; [reflexivity|].
        repeat split; intros; try lia; try congruence.
Qed.

Lemma with_ptr_trans_l k k1 q1 l1 s1 q2 l2 :
  k1 = with_ptr k q1 (l1 ++ k_wrev k) s1 -> s1 = k_ramwr_seen k ->
  with_ptr k1 q2 (l2 ++ k_wrev k1) (k_ramwr_seen k1) = with_ptr k q2 ((l2 ++ l1) ++ k_wrev k) (k_ramwr_seen k).
Proof. intros -> ->. unfold with_ptr; cbn. rewrite <- app_assoc. reflexivity. Qed.

Lemma host_row_short c p : forall n wss, (length wss <= n)%nat ->
  host_row c p n wss = (fst (host_row c p (length wss) wss), []).
Proof.
  intros n wss. revert c n. induction wss as [|ws wss IH]; intros c n H.
  - destruct n; reflexivity.
  - destruct n as [|n]; [cbn in H; lia|]. cbn [length] in *. cbn [host_row].
    rewrite (IH (c + 1) n) by lia.
    destruct (host_row (c + 1) p (length wss) wss) as [l r]. reflexivity.
Qed.

Lemma host_rows_nil sc p w rows : host_rows sc p w rows [] = [].
Proof. destruct rows; reflexivity. Qed.

Lemma host_row_length c p : forall n wss, (n <= length wss)%nat -> length (fst (host_row c p n wss)) = n.
Proof.
  intros n. revert c. induction n as [|n IH]; intros c wss H; [reflexivity|].
  destruct wss as [|ws wss]; [cbn in H; lia|]. cbn [host_row length] in *.
  specialize (IH (c + 1) wss ltac:(lia)). destruct (host_row (c + 1) p n wss); cbn in *. lia.
Qed.

(* a whole burst: as many rows as the data lasts, never more than the window holds *)
Lemma write_rows : forall rows k p wss,
  k_ptr k = Some (k_sc k, p, false) -> k_sc k <= k_ec k -> k_sp k <= p ->
  p + Z.of_nat rows - 1 = k_ep k ->
  (length wss <= Z.to_nat (k_ec k - k_sc k + 1) * rows)%nat ->
  exists q,
    fold_left write_px wss k =
      with_ptr k q (rev (map (to_wr (k_fw k) (k_fh k) (k_madctl k))
                             (host_rows (k_sc k) p (Z.to_nat (k_ec k - k_sc k + 1)) rows wss)) ++ k_wrev k)
               (k_ramwr_seen k).
Proof.
  induction rows as [|r IH]; intros k p wss Hp Hw Hsp Hep Hlen.
  - rewrite Nat.mul_0_r in Hlen. destruct wss; [|cbn in Hlen; lia].
    exists (k_ptr k). cbn. destruct k; reflexivity.
  - destruct wss as [|ws0 wss0] eqn:EW.
    { exists (k_ptr k). cbn. destruct k; reflexivity. }
    rewrite <- EW in *. assert (Hne : wss <> []) by (rewrite EW; discriminate).
    set (w := Z.to_nat (k_ec k - k_sc k + 1)) in *.
    assert (Hwpos : (1 <= w)%nat) by (unfold w; lia).
    cbn [host_rows]. rewrite EW. rewrite <- EW.
    destruct (le_lt_dec w (length wss)) as [Hfull|Hpart].
    + (* a complete row, then the rest *)
      assert (A1 : k_sc k + Z.of_nat w - 1 <= k_ec k) by (unfold w; lia).
      assert (A2 : k_sp k <= p <= k_ep k) by lia.
      assert (A3 : k_sc k <= k_sc k) by lia.
      destruct (write_row k w (k_sc k) p wss Hp A1 Hfull A2 A3) as (q & E & Es & _ & _ & Q2 & Q3).
      replace (fold_left write_px wss k) with (fold_left write_px (firstn w wss ++ skipn w wss) k)
        by (rewrite firstn_skipn; reflexivity).
      rewrite fold_left_app, E.
      destruct (host_row (k_sc k) p w wss) as [l rest] eqn:EH. cbn [fst snd] in *. subst rest.
      destruct r as [|r'].
      * (* that was the last row: nothing may follow *)
        assert (Hnil : skipn w wss = []).
        { apply length_zero_iff_nil. rewrite skipn_length. lia. }
        rewrite Hnil, host_rows_nil, app_nil_r. cbn [fold_left]. exists q. reflexivity.
      * set (k1 := with_ptr k q (rev (map (to_wr (k_fw k) (k_fh k) (k_madctl k)) l) ++ k_wrev k) (k_ramwr_seen k)).
        assert (Hq : q = Some (k_sc k, p + 1, false)) by (apply Q2; unfold w; lia).
        destruct (IH k1 (p + 1) (skipn w wss)) as (q2 & E2).
        { subst k1. cbn. exact Hq. }
        { exact Hw. }
        { change (k_sp k1) with (k_sp k). lia. }
        { change (k_ep k1) with (k_ep k). lia. }
        { change (k_ec k1) with (k_ec k). change (k_sc k1) with (k_sc k). fold w.
          rewrite skipn_length. nia. }
        exists q2. rewrite E2.
        change (k_ec k1) with (k_ec k). change (k_sc k1) with (k_sc k). fold w.
        change (k_fw k1) with (k_fw k). change (k_fh k1) with (k_fh k). change (k_madctl k1) with (k_madctl k).
        rewrite map_app, rev_app_distr.
        apply (with_ptr_trans_l k k1 q _ (k_ramwr_seen k)); reflexivity.
    + (* the data ends inside this row *)
      rewrite (host_row_short (k_sc k) p w wss) by lia.
      rewrite host_rows_nil, app_nil_r.
      assert (A1 : k_sc k + Z.of_nat (length wss) - 1 <= k_ec k) by (unfold w in *; lia).
      assert (A2 : k_sp k <= p <= k_ep k) by lia.
      assert (A3 : k_sc k <= k_sc k) by lia.
      destruct (write_row k (length wss) (k_sc k) p wss Hp A1 (le_n _) A2 A3) as (q & E & _).
      rewrite firstn_all in E. exists q. exact E.
Qed.

(* ---- the registers a drawing call must leave alone ---- *)
Definition same_regs (k k' : ctl) : Prop :=
  k_fw k' = k_fw k /\ k_fh k' = k_fh k /\ k_madctl k' = k_madctl k /\ k_colmod k' = k_colmod k /\
  k_asleep k' = k_asleep k /\ k_on k' = k_on k /\ k_inverted k' = k_inverted k /\ k_te k' = k_te k /\
  k_flags k' = k_flags k /\ k_clock k' = k_clock k /\ k_last_slp k' = k_last_slp k /\
  k_page k' = k_page k /\ k_vscr k' = k_vscr k /\ k_vstart k' = k_vstart k /\ k_resets k' = k_resets k /\
  k_opaque k' = k_opaque k.

Lemma same_regs_refl k : same_regs k k.
Proof. unfold same_regs; repeat split. Qed.
Lemma same_regs_trans a b c : same_regs a b -> same_regs b c -> same_regs a c.
Proof. unfold same_regs; intuition congruence. Qed.

Lemma command_caset k args : k_page k = false -> command k 0x2A args = window_cmd k 0x2A args.
Proof. intros H. unfold command. rewrite H. reflexivity. Qed.
Lemma command_raset k args : k_page k = false -> command k 0x2B args = window_cmd k 0x2B args.
Proof. intros H. unfold command. rewrite H. reflexivity. Qed.
Lemma command_ramwr k : k_page k = false ->
  command k 0x2C [] = with_ptr k (Some (k_sc k, k_sp k, false)) (k_wrev k) true.
Proof. intros H. unfold command. rewrite H. reflexivity. Qed.

Lemma be16_de s : 0 <= s <= 65535 -> 256 * (s / 256) + s mod 256 = s.
Proof. intros H. Z.div_mod_to_equations. lia. Qed.

Lemma window_cmd_col k s e :
  0 <= s -> s <= e -> e <= 65535 -> e < col_extent k ->
  window_cmd k 0x2A (be16 s ++ be16 e) = with_window k s e (k_sp k) (k_ep k).
Proof.
  intros H0 H1 H2 H3. unfold window_cmd, be16. cbn [app].
  rewrite !be16_de by lia.
  assert (E1 : (e <? s) = false) by (apply Z.ltb_ge; lia). rewrite E1.
  change (0x2A =? 0x2A) with true. cbn match.
  assert (E2 : (col_extent k <=? e) = false) by (apply Z.leb_gt; lia). rewrite E2. reflexivity.
Qed.

Lemma window_cmd_page k s e :
  0 <= s -> s <= e -> e <= 65535 -> e < page_extent k ->
  window_cmd k 0x2B (be16 s ++ be16 e) = with_window k (k_sc k) (k_ec k) s e.
Proof.
  intros H0 H1 H2 H3. unfold window_cmd, be16. cbn [app].
  rewrite !be16_de by lia.
  assert (E1 : (e <? s) = false) by (apply Z.ltb_ge; lia). rewrite E1.
  change (0x2B =? 0x2A) with false. cbn match.
  assert (E2 : (page_extent k <=? e) = false) by (apply Z.leb_gt; lia). rewrite E2. reflexivity.
Qed.

(* CASET, RASET, RAMWR, then a pixel burst no longer than the window *)
Lemma ctl_window_pixels k sx ex sy ey wss :
  k_page k = false ->
  0 <= sx -> sx <= ex -> ex <= 65535 -> ex < col_extent k ->
  0 <= sy -> sy <= ey -> ey <= 65535 -> ey < page_extent k ->
  (length wss <= Z.to_nat (ex - sx + 1) * Z.to_nat (ey - sy + 1))%nat ->
  let k' := ctl_run k [ECmd 0x2A (be16 sx ++ be16 ex); ECmd 0x2B (be16 sy ++ be16 ey); ECmd 0x2C []; EPixels wss] in
  same_regs k k' /\
  writes k' = writes k ++ map (to_wr (k_fw k) (k_fh k) (k_madctl k))
                              (host_rows sx sy (Z.to_nat (ex - sx + 1)) (Z.to_nat (ey - sy + 1)) wss).
Proof.
  intros Hpg H1 H2 H3 H4 H5 H6 H7 H8 Hlen. cbn [ctl_run fold_left ctl_step].
  rewrite command_caset by exact Hpg. rewrite window_cmd_col by assumption.
  set (k1 := with_window k sx ex (k_sp k) (k_ep k)).
  rewrite (command_raset k1) by exact Hpg.
  rewrite (window_cmd_page k1) by assumption.
  set (k2 := with_window k1 (k_sc k1) (k_ec k1) sy ey).
  rewrite (command_ramwr k2) by exact Hpg.
  set (k3 := with_ptr k2 (Some (k_sc k2, k_sp k2, false)) (k_wrev k2) true).
  destruct (write_rows (Z.to_nat (ey - sy + 1)) k3 sy wss) as (q & E).
  { reflexivity. } { cbn. lia. } { cbn. lia. } { cbn. lia. } { cbn. exact Hlen. }
  rewrite E. split.
  - unfold same_regs. cbn. repeat split.
  - unfold writes. cbn [k_wrev with_ptr]. rewrite rev_app_distr, rev_involutive. reflexivity.
Qed.

(* CASET, RASET, RAMWR, then the same pixel exactly window-area times *)
Lemma ctl_window_repeat k sx ex sy ey ws :
  k_page k = false ->
  0 <= sx -> sx <= ex -> ex <= 65535 -> ex < col_extent k ->
  0 <= sy -> sy <= ey -> ey <= 65535 -> ey < page_extent k ->
  let k' := ctl_run k [ECmd 0x2A (be16 sx ++ be16 ex); ECmd 0x2B (be16 sy ++ be16 ey); ECmd 0x2C [];
                       ERepeat ws ((ex - sx + 1) * (ey - sy + 1))] in
  same_regs k k' /\
  writes k' = writes k ++
    [let '(xa, ya) := phys (k_fw k) (k_fh k) (k_madctl k) sx sy in
     let '(xb, yb) := phys (k_fw k) (k_fh k) (k_madctl k) ex ey in
     WRect (Z.min xa xb) (Z.min ya yb) (Z.max xa xb) (Z.max ya yb) ws].
Proof.
  intros Hpg H1 H2 H3 H4 H5 H6 H7 H8. cbn [ctl_run fold_left ctl_step].
  rewrite command_caset by exact Hpg. rewrite window_cmd_col by assumption.
  set (k1 := with_window k sx ex (k_sp k) (k_ep k)).
  rewrite (command_raset k1) by exact Hpg.
  rewrite (window_cmd_page k1) by assumption.
  set (k2 := with_window k1 (k_sc k1) (k_ec k1) sy ey).
  rewrite (command_ramwr k2) by exact Hpg.
  unfold write_repeat. cbn [k_ptr with_ptr k_sc k_sp k_ec k_ep k2 k1 with_window window_area].
  assert (E0 : ((ex - sx + 1) * (ey - sy + 1) =? 0) = false) by (apply Z.eqb_neq; nia). rewrite E0.
  rewrite !Z.eqb_refl. cbn [andb negb].
  assert (E1 : (sx <=? ex) = true) by (apply Z.leb_le; lia).
  assert (E2 : (sy <=? ey) = true) by (apply Z.leb_le; lia). rewrite E1, E2. cbn [andb].
  split.
  - unfold same_regs. cbn. destruct (phys _ _ _ sx sy), (phys _ _ _ ex ey). cbn. repeat split.
  - unfold writes. cbn. destruct (phys _ _ _ sx sy), (phys _ _ _ ex ey). cbn. reflexivity.
Qed.
