Require Import Model.Base Model.Orient Model.Dcs Model.Events Proofs.Finite.
Open Scope Z_scope.

(* ------------------------------------------------------------------ C14: MADCTL encoding *)
Definition bit (b : Z) (i : Z) : bool := Z.testbit b i.

Definition madctl_bits_ok (bgr : bool) (o : orient) (btt rtl : bool) : bool :=
  let m := madctl_new bgr o btt rtl in
  let mp := from_orient o in
  Bool.eqb (bit m 7) (rev_rows mp) && Bool.eqb (bit m 6) (rev_cols mp) && Bool.eqb (bit m 5) (swap mp) &&
  Bool.eqb (bit m 4) btt && Bool.eqb (bit m 3) bgr && Bool.eqb (bit m 2) rtl &&
  negb (bit m 1) && negb (bit m 0) && (0 <=? m) && (m <? 256).

Lemma madctl_encoding bgr o btt rtl :
  let m := madctl_new bgr o btt rtl in
  let mp := from_orient o in
  bit m 7 = rev_rows mp /\ bit m 6 = rev_cols mp /\ bit m 5 = swap mp /\
  bit m 4 = btt /\ bit m 3 = bgr /\ bit m 2 = rtl /\ bit m 1 = false /\ bit m 0 = false /\
  0 <= m < 256.
Proof.
  destruct bgr, o as [[] []], btt, rtl; vm_compute; repeat split; congruence.
Qed.

Lemma madctl_of_opts_is_new o :
  madctl_of_opts o = madctl_new (o_bgr o) (o_orient o) (o_btt o) (o_rtl o).
Proof. reflexivity. Qed.

(* field masks *)
Definition M_ORIENT := 0xE0.
Definition M_REFRESH := 0x14.
Definition M_COLOR := 0x08.
Definition M_REST := 0x03.

Definition color_only_b (b : Z) : bool :=
  forallb (fun c =>
    (Z.land (with_color_order b c) (0xFF - M_COLOR) =? Z.land b (0xFF - M_COLOR)) &&
    Bool.eqb (bit (with_color_order b c) 3) c &&
    (0 <=? with_color_order b c) && (with_color_order b c <? 256)) bools.
Definition orient_only_b (b : Z) : bool :=
  forallb (fun o =>
    (Z.land (with_orientation b o) (0xFF - M_ORIENT) =? Z.land b (0xFF - M_ORIENT)) &&
    (Z.land (with_orientation b o) M_ORIENT =? Z.land (with_orientation 0 o) M_ORIENT) &&
    (0 <=? with_orientation b o) && (with_orientation b o <? 256)) all_orients.
Definition refresh_only_b (b : Z) : bool :=
  forallb (fun btt => forallb (fun rtl =>
    (Z.land (with_refresh_order b btt rtl) (0xFF - M_REFRESH) =? Z.land b (0xFF - M_REFRESH)) &&
    (Z.land (with_refresh_order b btt rtl) M_REFRESH =? refresh_value btt rtl) &&
    (0 <=? with_refresh_order b btt rtl) && (with_refresh_order b btt rtl <? 256)) bools) bools.

Lemma setters_sweep : forallb (fun b => color_only_b b && orient_only_b b && refresh_only_b b) bytes = true.
Proof. vm_compute. reflexivity. Qed.

Definition byte (b : Z) := 0 <= b < 256.

Lemma color_only b c : byte b ->
  Z.land (with_color_order b c) (0xFF - M_COLOR) = Z.land b (0xFF - M_COLOR) /\
  bit (with_color_order b c) 3 = c /\ byte (with_color_order b c).
Proof.
  intros Hb. pose proof (forall_bytes _ setters_sweep b Hb) as H.
  apply andb_prop in H as [H _]. apply andb_prop in H as [H _].
  unfold color_only_b in H. rewrite forallb_forall in H. specialize (H c (in_bools c)).
  repeat (apply andb_prop in H as [H ?]).
  apply Z.eqb_eq in H. apply eqb_prop in H2. unfold byte. split; [exact H|]. split; [exact H2|]. lia.
Qed.

Lemma orient_only b o : byte b ->
  Z.land (with_orientation b o) (0xFF - M_ORIENT) = Z.land b (0xFF - M_ORIENT) /\
  Z.land (with_orientation b o) M_ORIENT = Z.land (with_orientation 0 o) M_ORIENT /\
  byte (with_orientation b o).
Proof.
  intros Hb. pose proof (forall_bytes _ setters_sweep b Hb) as H.
  apply andb_prop in H as [H _]. apply andb_prop in H as [_ H].
  unfold orient_only_b in H. rewrite forallb_forall in H. specialize (H o (all_orients_complete o)).
  repeat (apply andb_prop in H as [H ?]).
  apply Z.eqb_eq in H, H2. unfold byte. split; [exact H|]. split; [exact H2|]. lia.
Qed.

Lemma refresh_only b btt rtl : byte b ->
  Z.land (with_refresh_order b btt rtl) (0xFF - M_REFRESH) = Z.land b (0xFF - M_REFRESH) /\
  Z.land (with_refresh_order b btt rtl) M_REFRESH = refresh_value btt rtl /\
  byte (with_refresh_order b btt rtl).
Proof.
  intros Hb. pose proof (forall_bytes _ setters_sweep b Hb) as H.
  apply andb_prop in H as [_ H].
  unfold refresh_only_b in H. rewrite forallb_forall in H. specialize (H btt (in_bools btt)).
  rewrite forallb_forall in H. specialize (H rtl (in_bools rtl)).
  repeat (apply andb_prop in H as [H ?]).
  apply Z.eqb_eq in H, H2. unfold byte. split; [exact H|]. split; [exact H2|]. lia.
Qed.

(* any sequence of setters *)

(* the fields of a byte *)
Definition f_color (b : Z) := bit b 3.
Definition f_orient (b : Z) := Z.land b M_ORIENT.
Definition f_refresh (b : Z) := Z.land b M_REFRESH.
Definition f_rest (b : Z) := Z.land b M_REST.

(* a byte is determined by its four fields *)
Lemma byte_fields_sweep :
  forallb (fun b => b =? Z.lor (Z.lor (f_orient b) (f_refresh b)) (Z.lor (if f_color b then M_COLOR else 0) (f_rest b))) bytes = true.
Proof. vm_compute. reflexivity. Qed.
Lemma byte_fields b : byte b ->
  b = Z.lor (Z.lor (f_orient b) (f_refresh b)) (Z.lor (if f_color b then M_COLOR else 0) (f_rest b)).
Proof. intros Hb. apply Z.eqb_eq. exact (forall_bytes _ byte_fields_sweep b Hb). Qed.

(* how one setter acts on the fields: computed for all 256 bytes and all setter arguments *)
Definition all_setters : list setter :=
  map SColor bools ++ map SOrient all_orients ++ flat_map (fun v => map (SRefresh v) bools) bools.
Lemma all_setters_complete s : In s all_setters.
Proof.
  destruct s as [c | o | v h]; unfold all_setters; rewrite !in_app_iff.
  - left. apply in_map, in_bools.
  - right; left. apply in_map, all_orients_complete.
  - right; right. apply in_flat_map. exists v. split; [apply in_bools | apply in_map, in_bools].
Qed.

Definition step_fields_b (b : Z) (s : setter) : bool :=
  let b' := apply_setter b s in
  (0 <=? b') && (b' <? 256) && (f_rest b' =? f_rest b) &&
  match s with
  | SColor c => Bool.eqb (f_color b') c && (f_orient b' =? f_orient b) && (f_refresh b' =? f_refresh b)
  | SOrient o => Bool.eqb (f_color b') (f_color b) && (f_orient b' =? f_orient (with_orientation 0 o)) && (f_refresh b' =? f_refresh b)
  | SRefresh v h => Bool.eqb (f_color b') (f_color b) && (f_orient b' =? f_orient b) && (f_refresh b' =? refresh_value v h)
  end.
Lemma step_fields_sweep : forallb (fun b => forallb (step_fields_b b) all_setters) bytes = true.
Proof. vm_compute. reflexivity. Qed.

Definition upd_color (s : setter) (x : bool) := match s with SColor c => c | _ => x end.
Definition upd_orient (s : setter) (x : Z) := match s with SOrient o => f_orient (with_orientation 0 o) | _ => x end.
Definition upd_refresh (s : setter) (x : Z) := match s with SRefresh v h => refresh_value v h | _ => x end.

Lemma step_fields b s : byte b ->
  let b' := apply_setter b s in
  byte b' /\ f_rest b' = f_rest b /\ f_color b' = upd_color s (f_color b) /\
  f_orient b' = upd_orient s (f_orient b) /\ f_refresh b' = upd_refresh s (f_refresh b).
Proof.
  intros Hb. pose proof (forall_bytes _ step_fields_sweep b Hb) as H.
  rewrite forallb_forall in H. specialize (H s (all_setters_complete s)).
  unfold step_fields_b in H. cbn zeta.
  destruct s; cbn [upd_color upd_orient upd_refresh];
    repeat match goal with X : (_ && _) = true |- _ => apply andb_prop in X as [? ?] end;
    repeat match goal with
           | X : (_ =? _) = true |- _ => apply Z.eqb_eq in X
           | X : Bool.eqb _ _ = true |- _ => apply eqb_prop in X
           | X : (_ <=? _) = true |- _ => apply Z.leb_le in X
           | X : (_ <? _) = true |- _ => apply Z.ltb_lt in X
           end; unfold byte; repeat split; try assumption; try lia.
Qed.

(* the last value given for each field wins; the other fields keep their value: any length *)
Lemma setters_sequence l : forall b, byte b ->
  let r := apply_setters b l in
  byte r /\ f_rest r = f_rest b /\
  f_color r = fold_left (fun x s => upd_color s x) l (f_color b) /\
  f_orient r = fold_left (fun x s => upd_orient s x) l (f_orient b) /\
  f_refresh r = fold_left (fun x s => upd_refresh s x) l (f_refresh b).
Proof.
  induction l as [|s l IH]; intros b Hb; cbn [apply_setters fold_left].
  - repeat split; try reflexivity; apply Hb.
  - destruct (step_fields b s Hb) as (Hb' & Hr & Hc & Ho & Hf).
    specialize (IH (apply_setter b s) Hb'). cbn zeta in IH. unfold apply_setters in IH.
    destruct IH as (I1 & I2 & I3 & I4 & I5).
    cbn zeta. unfold apply_setters. cbn [fold_left].
    split; [exact I1|]. split; [congruence|].
    split; [rewrite I3, Hc; reflexivity|].
    split; [rewrite I4, Ho; reflexivity | rewrite I5, Hf; reflexivity].
Qed.

(* two setter lists that give the same last value per field give the same byte: order-independence *)
Lemma setters_order_independent l1 l2 b : byte b ->
  fold_left (fun x s => upd_color s x) l1 (f_color b) = fold_left (fun x s => upd_color s x) l2 (f_color b) ->
  fold_left (fun x s => upd_orient s x) l1 (f_orient b) = fold_left (fun x s => upd_orient s x) l2 (f_orient b) ->
  fold_left (fun x s => upd_refresh s x) l1 (f_refresh b) = fold_left (fun x s => upd_refresh s x) l2 (f_refresh b) ->
  apply_setters b l1 = apply_setters b l2.
Proof.
  intros Hb E1 E2 E3.
  destruct (setters_sequence l1 b Hb) as (B1 & R1 & C1 & O1 & F1).
  destruct (setters_sequence l2 b Hb) as (B2 & R2 & C2 & O2 & F2).
  cbn zeta in *.
  assert (HC : f_color (apply_setters b l1) = f_color (apply_setters b l2)) by congruence.
  assert (HO : f_orient (apply_setters b l1) = f_orient (apply_setters b l2)) by congruence.
  assert (HF : f_refresh (apply_setters b l1) = f_refresh (apply_setters b l2)) by congruence.
  assert (HR : f_rest (apply_setters b l1) = f_rest (apply_setters b l2)) by congruence.
  etransitivity; [apply (byte_fields _ B1)|].
  etransitivity; [|symmetry; apply (byte_fields _ B2)].
  rewrite HC, HO, HF, HR. reflexivity.
Qed.

(* ------------------------------------------------------------------ C18: encoders *)
Lemma upd_app pre h t v : upd (pre ++ h :: t) (length pre) v = Ok (pre ++ v :: t).
Proof. induction pre as [|p pre IH]; cbn; [reflexivity | rewrite IH; reflexivity]. Qed.

Lemma upd_end pre v : upd pre (length pre) v = Panic.
Proof. induction pre as [|p pre IH]; cbn; [reflexivity | rewrite IH; reflexivity]. Qed.

Lemma upds_app vs : forall pre l, (length vs <= length l)%nat ->
  upds (pre ++ l) (length pre) vs = Ok (pre ++ vs ++ skipn (length vs) l).
Proof.
  induction vs as [|v vs IH]; intros pre l H; cbn [upds length] in *.
  - reflexivity.
  - destruct l as [|h t]; [cbn in H; lia|]. cbn [length] in H.
    rewrite upd_app. cbn [bind].
    replace (pre ++ v :: t) with ((pre ++ [v]) ++ t) by (rewrite <- app_assoc; reflexivity).
    replace (S (length pre)) with (length (pre ++ [v])) by (rewrite app_length; cbn; lia).
    rewrite IH by lia. rewrite <- app_assoc. reflexivity.
Qed.

Lemma upds_short_app vs : forall pre l, (length l < length vs)%nat ->
  upds (pre ++ l) (length pre) vs = Panic.
Proof.
  induction vs as [|v vs IH]; intros pre l H; cbn [upds length] in *; [lia|].
  destruct l as [|h t].
  - rewrite app_nil_r, upd_end. reflexivity.
  - cbn [length] in H. rewrite upd_app. cbn [bind].
    replace (pre ++ v :: t) with ((pre ++ [v]) ++ t) by (rewrite <- app_assoc; reflexivity).
    replace (S (length pre)) with (length (pre ++ [v])) by (rewrite app_length; cbn; lia).
    apply IH. lia.
Qed.

(* fill_params_buf: exactly the parameter bytes at the front, nothing beyond them touched *)
Lemma fill_params_spec c buf : (length (params c) <= length buf)%nat ->
  fill_params_buf c buf = Ok (Z.of_nat (length (params c)), params c ++ skipn (length (params c)) buf).
Proof.
  intros H. unfold fill_params_buf. pose proof (upds_app (params c) [] buf H) as E. cbn [app length] in E. rewrite E. reflexivity.
Qed.
Lemma fill_params_short c buf : (length buf < length (params c))%nat -> fill_params_buf c buf = Panic.
Proof. intros H. unfold fill_params_buf. pose proof (upds_short_app (params c) [] buf H) as E. cbn [app length] in E. rewrite E. reflexivity. Qed.

Lemma params_le_6 c : (length (params c) <= 6)%nat.
Proof. destruct c as [| | | | | | | | | | | | | | | |[]|]; cbn; lia. Qed.

Lemma write_command_spec c : write_command c = Ok (ECmd (instruction c) (params c)).
Proof.
  unfold write_command. pose proof (params_le_6 c) as H6.
  rewrite fill_params_spec by (rewrite repeat_length; lia). cbn [bind].
  rewrite Nat2Z.id. rewrite firstn_app, Nat.sub_diag, firstn_all. cbn. rewrite app_nil_r. reflexivity.
Qed.

(* big-endian 16-bit parameters *)
Lemma be16_roundtrip v : 0 <= v <= 65535 ->
  be16 v = [v / 256; v mod 256] /\ de16 (v / 256) (v mod 256) = v /\ 0 <= v / 256 <= 255 /\ 0 <= v mod 256 <= 255.
Proof.
  intros H. unfold be16, de16. split; [reflexivity|]. Z.div_mod_to_equations. lia.
Qed.

(* the MIPI-DCS opcode table (DCS 1.x, user command set), committed independently of the source *)
Inductive meaning :=
| M_soft_reset | M_enter_sleep_mode | M_exit_sleep_mode | M_enter_partial_mode | M_enter_normal_mode
| M_exit_invert_mode | M_enter_invert_mode | M_set_display_off | M_set_display_on
| M_set_column_address | M_set_page_address | M_write_memory_start | M_set_scroll_area
| M_set_tear_off | M_set_tear_on | M_set_address_mode | M_set_scroll_start | M_exit_idle_mode
| M_enter_idle_mode | M_set_pixel_format.

Definition mipi_opcode (m : meaning) : Z :=
  match m with
  | M_soft_reset => 0x01 | M_enter_sleep_mode => 0x10 | M_exit_sleep_mode => 0x11
  | M_enter_partial_mode => 0x12 | M_enter_normal_mode => 0x13
  | M_exit_invert_mode => 0x20 | M_enter_invert_mode => 0x21
  | M_set_display_off => 0x28 | M_set_display_on => 0x29
  | M_set_column_address => 0x2A | M_set_page_address => 0x2B | M_write_memory_start => 0x2C
  | M_set_scroll_area => 0x33 | M_set_tear_off => 0x34 | M_set_tear_on => 0x35
  | M_set_address_mode => 0x36 | M_set_scroll_start => 0x37
  | M_exit_idle_mode => 0x38 | M_enter_idle_mode => 0x39 | M_set_pixel_format => 0x3A
  end.

Definition meaning_of (c : dcs) : meaning :=
  match c with
  | SoftReset => M_soft_reset | EnterSleepMode => M_enter_sleep_mode | ExitSleepMode => M_exit_sleep_mode
  | EnterPartialMode => M_enter_partial_mode | EnterNormalMode => M_enter_normal_mode
  | SetDisplayOff => M_set_display_off | SetDisplayOn => M_set_display_on
  | ExitIdleMode => M_exit_idle_mode | EnterIdleMode => M_enter_idle_mode
  | WriteMemoryStart => M_write_memory_start
  | SetAddressMode _ => M_set_address_mode | SetPixelFormat _ _ => M_set_pixel_format
  | SetColumnAddress _ _ => M_set_column_address | SetPageAddress _ _ => M_set_page_address
  | SetScrollArea _ _ _ => M_set_scroll_area | SetScrollStart _ => M_set_scroll_start
  | SetTearingEffect TeOff => M_set_tear_off | SetTearingEffect _ => M_set_tear_on
  | SetInvertMode false => M_exit_invert_mode | SetInvertMode true => M_enter_invert_mode
  end.

Lemma instruction_is_mipi c : instruction c = mipi_opcode (meaning_of c).
Proof. destruct c as [| | | | | | | | | | | | | | | |[]|[]]; reflexivity. Qed.

