Require Import Model.Base Model.Orient Model.Dcs Proofs.DcsP.
Require Import Gen.Consts.
From Coq Require Import String.
Open Scope Z_scope.

(* the hand-written opcode table equals the one the translator reads from the current source *)
Definition model_basic_opcodes : list (string * Z) :=
  [("SoftReset", instruction SoftReset); ("EnterSleepMode", instruction EnterSleepMode);
   ("ExitSleepMode", instruction ExitSleepMode); ("EnterPartialMode", instruction EnterPartialMode);
   ("EnterNormalMode", instruction EnterNormalMode); ("SetDisplayOff", instruction SetDisplayOff);
   ("SetDisplayOn", instruction SetDisplayOn); ("ExitIdleMode", instruction ExitIdleMode);
   ("EnterIdleMode", instruction EnterIdleMode); ("WriteMemoryStart", instruction WriteMemoryStart)]%string.
Definition model_typed_opcodes : list (string * list (string * Z)) :=
  [("SetAddressMode", [("", instruction (SetAddressMode 0))]);
   ("SetColumnAddress", [("", instruction (SetColumnAddress 0 0))]);
   ("SetInvertMode", [("Normal", instruction (SetInvertMode false)); ("Inverted", instruction (SetInvertMode true))]);
   ("SetPageAddress", [("", instruction (SetPageAddress 0 0))]);
   ("SetPixelFormat", [("", instruction (SetPixelFormat Three Three))]);
   ("SetScrollArea", [("", instruction (SetScrollArea 0 0 0))]);
   ("SetScrollStart", [("", instruction (SetScrollStart 0))]);
   ("SetTearingEffect", [("Off", instruction (SetTearingEffect TeOff)); ("Vertical", instruction (SetTearingEffect TeVertical));
                         ("HorizontalAndVertical", instruction (SetTearingEffect TeHV))])]%string.

Lemma opcodes_match_source :
  model_basic_opcodes = gen_basic_opcodes /\ model_typed_opcodes = gen_typed_opcodes.
Proof. split; reflexivity. Qed.
