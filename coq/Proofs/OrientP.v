Require Import Model.Base Model.Orient Oracle.Spec.
Open Scope Z_scope.

(* ---- Rotation::rotate is total; rotations add modulo 360 ---- *)
Lemma rotate_rot_ok a b : exists r, rotate_rot a b = Ok r /\ degree r = (degree a + degree b) mod 360.
Proof. destruct a, b; vm_compute; eexists; split; reflexivity. Qed.

Lemma rotate_rot_never_panics a b : rotate_rot a b <> Panic.
Proof. destruct (rotate_rot_ok a b) as (r & E & _). congruence. Qed.

(* the i32 sum formed inside rotate() is at most 540: no overflow in either profile *)
Lemma rotate_sum_small a b : 0 <= degree a + degree b <= 540.
Proof. destruct a, b; cbn; lia. Qed.

(* ---- words over the six generators stay inside the eight orientations, never panic ---- *)

Lemma apply_oop_ok o p : exists o', apply_oop o p = Ok o'.
Proof. destruct o as [[] []], p as [[]| |]; vm_compute; eexists; reflexivity. Qed.

Lemma apply_word_ok w : forall o, exists o', apply_word o w = Ok o'.
Proof.
  induction w as [|p w IH]; intros o; cbn [apply_word].
  - eexists; reflexivity.
  - destruct (apply_oop_ok o p) as (o' & E). rewrite E. cbn [bind]. apply IH.
Qed.

(* group laws *)
Lemma four_quarter_turns o :
  apply_word o [ORot D90; ORot D90; ORot D90; ORot D90] = Ok o.
Proof. destruct o as [[] []]; reflexivity. Qed.
Lemma flip_h_involutive o : apply_word o [OFlipH; OFlipH] = Ok o.
Proof. destruct o as [[] []]; reflexivity. Qed.
Lemma flip_v_involutive o : apply_word o [OFlipV; OFlipV] = Ok o.
Proof. destruct o as [[] []]; reflexivity. Qed.
Lemma flip_h_then_v_is_half_turn o : apply_word o [OFlipH; OFlipV] = apply_word o [ORot D180].
Proof. destruct o as [[] []]; reflexivity. Qed.
Lemma rotations_add o a b :
  exists r, rotate_rot a b = Ok r /\ apply_word o [ORot a; ORot b] = apply_word o [ORot r].
Proof. destruct o as [[] []], a, b; vm_compute; eexists; split; reflexivity. Qed.
Lemma rotate_zero o : apply_word o [ORot D0] = Ok o.
Proof. destruct o as [[] []]; reflexivity. Qed.

(* ---- angle parsing, for every integer angle (in particular all 2^32 i32 values) ---- *)
Lemma try_from_degree_spec a :
  (forall r, try_from_degree a = Some r -> degree r = a mod 360 /\ a mod 90 = 0) /\
  (a mod 90 = 0 -> exists r, try_from_degree a = Some r).
Proof.
  unfold try_from_degree, rem_euclid.
  set (b := if (a <? 0) || (a >? 270) then a mod 360 else a).
  assert (Hb : b mod 360 = a mod 360 /\ (0 <= a <= 270 -> b = a) /\ (a < 0 \/ a > 270 -> b = a mod 360)).
  { unfold b. destruct (a <? 0) eqn:E1; [apply Z.ltb_lt in E1|apply Z.ltb_ge in E1]; cbn [orb].
    - rewrite Z.mod_mod by lia. repeat split; try lia.
    - destruct (a >? 270) eqn:E2; [apply Z.gtb_lt in E2|rewrite Z.gtb_ltb in E2; apply Z.ltb_ge in E2].
      + rewrite Z.mod_mod by lia. repeat split; try lia.
      + repeat split; lia. }
  destruct Hb as (Hm & Hin & Hout).
  assert (Hrange : 0 <= b < 360).
  { destruct (Z_lt_ge_dec a 0); [rewrite Hout by lia; apply Z.mod_pos_bound; lia|].
    destruct (Z_gt_le_dec a 270); [rewrite Hout by lia; apply Z.mod_pos_bound; lia|]. rewrite Hin by lia. lia. }
  assert (Hb90 : b mod 90 = a mod 90).
  { clear - Hm. Z.div_mod_to_equations. lia. }
  split.
  - intros r.
    destruct (b =? 0) eqn:E0; [apply Z.eqb_eq in E0; intros [= <-]; cbn [degree]; rewrite <- Hm, <- Hb90, E0; split; reflexivity|].
    destruct (b =? 90) eqn:E1; [apply Z.eqb_eq in E1; intros [= <-]; cbn [degree]; rewrite <- Hm, <- Hb90, E1; split; reflexivity|].
    destruct (b =? 180) eqn:E2; [apply Z.eqb_eq in E2; intros [= <-]; cbn [degree]; rewrite <- Hm, <- Hb90, E2; split; reflexivity|].
    destruct (b =? 270) eqn:E3; [apply Z.eqb_eq in E3; intros [= <-]; cbn [degree]; rewrite <- Hm, <- Hb90, E3; split; reflexivity|].
    discriminate.
  - intros H90. rewrite <- Hb90 in H90.
    assert (Hc : b = 0 \/ b = 90 \/ b = 180 \/ b = 270) by (clear - H90 Hrange; Z.div_mod_to_equations; lia).
    destruct Hc as [E|[E|[E|E]]]; rewrite E; cbn; eexists; reflexivity.
Qed.

(* rem_euclid on i32 with modulus 360 stays in [0, 360): representable, cannot overflow *)
Lemma rem_euclid_360_in_range a : 0 <= rem_euclid a 360 < 360.
Proof. unfold rem_euclid. apply Z.mod_pos_bound. lia. Qed.

(* ---- geometry: what the composed orientation shows ---- *)
Definition lsz (w h : Z) (o : orient) : Z * Z := if is_horizontal (rotn o) then (w, h) else (h, w).

(* rotating the orientation by r shows the image pre-rotated clockwise by r *)
Lemma rotate_geom w h ox oy o r o' x y :
  o_rotate o r = Ok o' ->
  spec_cell w h ox oy o' x y =
  let '(lw, lh) := lsz w h o in
  let '(x', y') := rot_cw lw lh r x y in spec_cell w h ox oy o x' y'.
Proof.
  destruct o as [[] []], r; intros E; vm_compute in E; injection E as <-;
    unfold spec_cell, rot_cw, lsz; cbn [rotn mir is_horizontal fst snd]; f_equal; lia.
Qed.

Lemma flip_horizontal_geom w h ox oy o o' x y :
  flip_horizontal o = Ok o' ->
  spec_cell w h ox oy o' x y = spec_cell w h ox oy o (fst (lsz w h o) - 1 - x) y.
Proof.
  destruct o as [[] []]; intros E; vm_compute in E; injection E as <-;
    unfold spec_cell, rot_cw, lsz; cbn [rotn mir is_horizontal fst snd]; f_equal; lia.
Qed.

Lemma flip_vertical_geom w h ox oy o o' x y :
  flip_vertical o = Ok o' ->
  spec_cell w h ox oy o' x y = spec_cell w h ox oy o x (snd (lsz w h o) - 1 - y).
Proof.
  destruct o as [[] []]; intros E; vm_compute in E; injection E as <-;
    unfold spec_cell, rot_cw, lsz; cbn [rotn mir is_horizontal fst snd]; f_equal; lia.
Qed.
