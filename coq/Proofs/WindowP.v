(* WindowP.v — the address window: orientation-adjusted offset, no u16 overflow, and the cell a
   MIPI-DCS controller addresses through it is the rotated / mirrored / shifted logical point. *)
Require Import Model.Base Model.Orient Model.Dcs Model.Events Model.Builder Model.Rect Model.Batch Model.Display.
Require Import Oracle.Spec Oracle.Controller Proofs.DcsP.
Open Scope Z_scope.

(* exactly what C09 proves Builder::init accepts *)
Definition valid_cfg (c : ctx) (o : opts) : Prop :=
  1 <= o_w o /\ 1 <= o_h o /\ 0 <= o_ox o /\ 0 <= o_oy o /\
  o_ox o + o_w o <= c_fw c /\ c_fw c <= 65535 /\ o_oy o + o_h o <= c_fh c /\ c_fh c <= 65535.

(* the offset the driver adds, as a plain function *)
Definition win_off (c : ctx) (o : opts) : Z * Z :=
  let m := from_orient (o_orient o) in
  let ox1 := if rev_cols m then c_fw c - (o_w o + o_ox o) else o_ox o in
  let oy1 := if rev_rows m then c_fh c - (o_h o + o_oy o) else o_oy o in
  if swap m then (oy1, ox1) else (ox1, oy1).

Lemma chk16 md z : 0 <= z <= 65535 -> chk_u md 16 z = Ok z.
Proof. intros H. apply chk_u_in, in_u_spec. change (2 ^ 16) with 65536. lia. Qed.

Lemma window_offset_ok c o : valid_cfg c o -> window_offset c o = Ok (win_off c o).
Proof.
  intros (Hw & Hh & Hox & Hoy & HW & HFW & HH & HFH).
  unfold window_offset, win_off, add_u, sub_u.
  destruct (rev_cols (from_orient (o_orient o))), (rev_rows (from_orient (o_orient o)));
    rewrite ?chk16 by lia; cbn [bind]; rewrite ?chk16 by lia; cbn [bind]; rewrite ?chk16 by lia; reflexivity.
Qed.

(* the window stays inside what the controller can address under this orientation *)
Lemma win_off_bounds c o : valid_cfg c o ->
  let '(dx, dy) := win_off c o in
  let '(lw, lh) := lsize o in
  0 <= dx /\ 0 <= dy /\
  dx + lw <= (if swap (from_orient (o_orient o)) then c_fh c else c_fw c) /\
  dy + lh <= (if swap (from_orient (o_orient o)) then c_fw c else c_fh c).
Proof.
  intros (Hw & Hh & Hox & Hoy & HW & HFW & HH & HFH).
  unfold win_off, lsize. destruct (o_orient o) as [[] []]; cbn; lia.
Qed.

Lemma set_address_window_ok c o sx sy ex ey :
  valid_cfg c o ->
  0 <= sx <= ex -> ex < fst (lsize o) -> 0 <= sy <= ey -> ey < snd (lsize o) ->
  let '(dx, dy) := win_off c o in
  set_address_window c o sx sy ex ey =
  ([ECmd 0x2A (be16 (sx + dx) ++ be16 (ex + dx)); ECmd 0x2B (be16 (sy + dy) ++ be16 (ey + dy))], Ok tt).
Proof.
  intros Hv Hx Hex Hy Hey.
  pose proof (win_off_bounds c o Hv) as Hb.
  unfold set_address_window. rewrite (window_offset_ok c o Hv).
  destruct (win_off c o) as [dx dy]. destruct (lsize o) as [lw lh]. cbn [fst snd] in *.
  destruct Hb as (Hdx & Hdy & Hbx & Hby).
  destruct Hv as (Hw & Hh & Hox & Hoy & HW & HFW & HH & HFH).
  assert (Hcx : dx + lw <= 65535) by (destruct (swap _); lia).
  assert (Hcy : dy + lh <= 65535) by (destruct (swap _); lia).
  unfold wlift, add_u. cbn [wbind fst snd].
  rewrite !chk16 by lia. cbn [wbind app].
  rewrite !write_command_spec. cbn [wemit wbind app instruction params]. reflexivity.
Qed.

(* the three MADCTL bits the controller reads, for the byte the driver computes *)
Lemma madctl_new_bits bgr o btt rtl :
  let m := madctl_new bgr o btt rtl in
  my m = rev_rows (from_orient o) /\ mx m = rev_cols (from_orient o) /\ mv m = swap (from_orient o).
Proof.
  destruct (madctl_encoding bgr o btt rtl) as (H7 & H6 & H5 & _). unfold my, mx, mv. cbn zeta.
  unfold bit in *. auto.
Qed.

(* central lemma: column/page (x+dx, y+dy) is decoded by the controller as the cell obtained by
   rotating the logical point clockwise, mirroring, shifting — for all sizes, offsets, orientations *)
Lemma window_cell c o m x y :
  my m = rev_rows (from_orient (o_orient o)) -> mx m = rev_cols (from_orient (o_orient o)) ->
  mv m = swap (from_orient (o_orient o)) ->
  let '(dx, dy) := win_off c o in
  phys (c_fw c) (c_fh c) m (x + dx) (y + dy) = spec_cell (o_w o) (o_h o) (o_ox o) (o_oy o) (o_orient o) x y.
Proof.
  intros Hy Hx Hv. unfold phys, win_off, spec_cell, rot_cw. rewrite Hy, Hx, Hv.
  destruct (o_orient o) as [[] []]; cbn; f_equal; lia.
Qed.

(* the geometry table of the specification is the one the code uses *)
Lemma spec_bits_match o :
  spec_my o = rev_rows (from_orient o) /\ spec_mx o = rev_cols (from_orient o) /\ spec_mv o = swap (from_orient o).
Proof. destruct o as [[] []]; cbn; auto. Qed.

Lemma spec_madctl_is_new bgr o btt rtl : spec_madctl bgr o btt rtl = madctl_new bgr o btt rtl.
Proof. destruct bgr, o as [[] []], btt, rtl; reflexivity. Qed.
