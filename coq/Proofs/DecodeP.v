(* DecodeP.v — the pin-level decoder of Oracle/Decode.v inverts the transports (Model/Spi.v,
   Model/Parallel.v) on the driver's traffic, and the reference controller shows the same picture for a
   trace and for its decoded ("normalised": repeats seen as streams) form. Together with
   Proofs/ProgramP.v this lifts property C01 from the `Interface` boundary (L1) to the pins (L2). *)
Require Import Model.Base Model.Orient Model.Dcs Model.Events Model.Builder Model.Rect Model.Batch Model.Display
               Model.Spi Model.Parallel.
Require Import Oracle.Spec Oracle.Controller Oracle.DrawSpec Oracle.Decode.
Require Import Proofs.DcsP Proofs.WindowP Proofs.CtlP Proofs.DrawP Proofs.ClipP Proofs.BatchP Proofs.OrientStateP
               Proofs.ProgramP Proofs.SpiP Proofs.ParallelP.
Open Scope list_scope.
Open Scope Z_scope.

(* ============================================================================================== *)
(* 1. the decoder inverts `items_of` on framed traffic                                            *)
(* ============================================================================================== *)

Lemma concat_fixed_length (n : nat) (px : list (list Z)) :
  Forall (fun p => length p = n) px -> length (concat px) = (length px * n)%nat.
Proof.
  intros H. induction H as [|p l Hp Hl IH].
  - reflexivity.
  - cbn [concat length]. rewrite app_length, IH, Hp. lia.
Qed.

Lemma skipn_exact_app {A} (k : nat) (l r : list A) : length l = k -> skipn k (l ++ r) = r.
Proof.
  intros H. rewrite skipn_app, H, Nat.sub_diag. cbn [skipn]. subst k. rewrite skipn_all. reflexivity.
Qed.

(* pixels of n >= 1 words each, concatenated, are cut back into the same pixels *)
Lemma chunks_concat_fuel (n : nat) : (1 <= n)%nat ->
  forall px : list (list Z), Forall (fun p => length p = n) px ->
  forall fuel : nat, (length px < fuel)%nat -> chunks n fuel (concat px) = px.
Proof.
  intros Hn px Hpx. induction Hpx as [|p l Hp Hl IH]; intros fuel Hfuel.
  - destruct fuel as [|f]; [cbn [length] in Hfuel; lia|]. reflexivity.
  - destruct fuel as [|f]; [cbn [length] in Hfuel; lia|]. cbn [length] in Hfuel.
    destruct p as [|a p']; [cbn [length] in Hp; lia|].
    cbn [concat]. change ((a :: p') ++ concat l) with (a :: (p' ++ concat l)).
    cbn [chunks]. change (a :: (p' ++ concat l)) with ((a :: p') ++ concat l).
    rewrite (firstn_exact_app n (a :: p') (concat l) Hp).
    rewrite (skipn_exact_app n (a :: p') (concat l) Hp).
    rewrite IH by lia. reflexivity.
Qed.

Theorem chunks_concat : forall (n : nat) (px : list (list Z)),
  (1 <= n)%nat -> Forall (fun p => length p = n) px ->
  chunks n (S (length (concat px))) (concat px) = px.
Proof.
  intros n px Hn Hpx. apply chunks_concat_fuel; [exact Hn | exact Hpx|].
  rewrite (concat_fixed_length n px Hpx). nia.
Qed.

Lemma Forall_repeat {A} (P : A -> Prop) (x : A) (k : nat) : P x -> Forall P (repeat x k).
Proof. intros H. induction k as [|k IH]; cbn [repeat]; constructor; assumption. Qed.

Theorem chunks_concat_repeat : forall (n : nat) (p : list Z) (k : nat),
  (1 <= n)%nat -> length p = n ->
  chunks n (S (length (concat (repeat p k)))) (concat (repeat p k)) = repeat p k.
Proof.
  intros n p k Hn Hp. apply chunks_concat; [exact Hn|]. apply Forall_repeat. exact Hp.
Qed.

(* DC-high items inside a command accumulate as its parameters, newest first *)
Lemma decode_params (n : nat) (op : Z) (orphan : list Z) (l : list Z) : forall (ra : list Z) (rest : list witem),
  decode_items n (Some (op, ra)) orphan (map (WByte true) l ++ rest) =
  decode_items n (Some (op, rev l ++ ra)) orphan rest.
Proof.
  induction l as [|v l IH]; intros ra rest.
  - reflexivity.
  - cbn [map app decode_items rev]. rewrite IH, <- app_assoc. reflexivity.
Qed.

Lemma items_of_cons (e : event) (t : list event) : items_of (e :: t) = items_of_event e ++ items_of t.
Proof. reflexivity. Qed.

Lemma items_of_app (a b : list event) : items_of (a ++ b) = items_of a ++ items_of b.
Proof. unfold items_of. apply flat_map_app. Qed.

(* framed traffic never continues an open command: whatever follows closes it *)
Lemma decode_close (n : nat) (op : Z) (ra : list Z) (t : list event) :
  framed n t ->
  decode_items n (Some (op, ra)) [] (items_of t) =
  flush n (Some (op, ra)) ++ decode_items n None [] (items_of t).
Proof.
  intros Hfr. destruct Hfr as [|op' args t Hop Ht|px t Hpx Ht|p c t Hp Hc Ht|ns t Ht|b t Ht].
  - cbn [items_of flat_map decode_items flush]. rewrite !app_nil_r. reflexivity.
  - rewrite items_of_cons. cbn [items_of_event app decode_items flush]. reflexivity.
  - rewrite items_of_cons. cbn [items_of_event app decode_items flush]. reflexivity.
  - rewrite items_of_cons. cbn [items_of_event app decode_items flush]. reflexivity.
  - rewrite items_of_cons. cbn [items_of_event app decode_items flush]. reflexivity.
  - rewrite items_of_cons. destruct b; cbn [items_of_event app decode_items flush]; reflexivity.
Qed.

Lemma flush_cmd (n : nat) (op : Z) (args : list Z) :
  op <> 0x2C -> flush n (Some (op, rev args)) = [ECmd op args].
Proof.
  intros Hop. unfold flush. rewrite rev_involutive.
  destruct (Z.eqb_spec op 0x2C) as [E|_]; [contradiction | reflexivity].
Qed.

Lemma flush_ramwr (n : nat) (px : list (list Z)) :
  (1 <= n)%nat -> Forall (fun p => length p = n) px ->
  flush n (Some (0x2C, rev (concat px))) = [ECmd 0x2C []; EPixels px].
Proof.
  intros Hn Hpx. unfold flush. rewrite rev_involutive.
  change (0x2C =? 0x2C) with true. cbv iota.
  rewrite (chunks_concat n px Hn Hpx). reflexivity.
Qed.

Theorem decode_items_of : forall (n : nat) (t : list event),
  (1 <= n)%nat -> framed n t -> decode_items n None [] (items_of t) = normalise t.
Proof.
  intros n t Hn Hfr.
  induction Hfr as [|op args t Hop Ht IH|px t Hpx Ht IH|p c t Hp Hc Ht IH|ns t Ht IH|b t Ht IH].
  - reflexivity.
  - rewrite items_of_cons. cbn [items_of_event app decode_items flush].
    rewrite decode_params, app_nil_r, (decode_close n op (rev args) t Ht), (flush_cmd n op args Hop), IH.
    reflexivity.
  - rewrite !items_of_cons. cbn [items_of_event map app decode_items flush].
    rewrite decode_params, app_nil_r, (decode_close n _ _ t Ht), (flush_ramwr n px Hn Hpx), IH.
    reflexivity.
  - rewrite !items_of_cons. cbn [items_of_event map app decode_items flush].
    rewrite decode_params, app_nil_r, (decode_close n _ _ t Ht).
    rewrite (flush_ramwr n (repeat p (Z.to_nat c)) Hn (Forall_repeat _ p _ Hp)), IH.
    reflexivity.
  - rewrite items_of_cons. cbn [items_of_event app decode_items flush]. rewrite IH. reflexivity.
  - rewrite items_of_cons. destruct b; cbn [items_of_event app decode_items flush]; rewrite IH; reflexivity.
Qed.

(* ============================================================================================== *)
(* 2. SPI: the wire items of a run are the items of the trace                                     *)
(* ============================================================================================== *)

Lemma wire_spi_app (dc : bool) (a b : list l2op) :
  wire_spi dc (a ++ b) = wire_spi dc a ++ wire_spi (dc_after dc a) b.
Proof.
  revert dc. induction a as [|o a IH]; intros dc.
  - reflexivity.
  - destruct o as [h|bs|i h|h|h|ns]; cbn [app wire_spi dc_after]; try apply IH.
    + rewrite IH, app_assoc. reflexivity.
    + rewrite IH. reflexivity.
    + rewrite IH. reflexivity.
Qed.

Lemma all_spi_wire_items (dc : bool) (ops : list l2op) :
  all_spi ops -> wire_spi dc ops = map (WByte dc) (concat (spi_writes ops)).
Proof.
  intros H. induction H as [|o ops Ho Hops IH].
  - reflexivity.
  - destruct o as [b|bs|i b|b|b|ns]; try contradiction.
    cbn [wire_spi]. rewrite spi_writes_cons_spi. cbn [concat].
    rewrite map_app, IH. reflexivity.
Qed.

Lemma spi_event_items (n : Z) (buf : list Z) (e : event) :
  1 <= n -> n <= Z.of_nat (length buf) -> Z.of_nat (length buf) / n < 2 ^ 32 ->
  event_pixels_wf n e ->
  exists ops buf',
    spi_event true n buf e = (ops, buf', Ok tt) /\
    length buf' = length buf /\
    (forall dc, (dc = true \/ exists op args, e = ECmd op args) ->
       wire_spi dc ops = items_of_event e /\ (dc_after dc ops = true \/ dc_after dc ops = dc)).
Proof.
  intros Hn Hlen Hcap Hwf.
  destruct e as [op args|px|p c|ns| |]; cbn [spi_event items_of_event].
  - exists [ODc false; OSpi [op]; ODc true; OSpi args], buf.
    split; [reflexivity|]. split; [reflexivity|].
    intros dc _. split; [|left; reflexivity].
    cbn [wire_spi map app]. rewrite app_nil_r. reflexivity.
  - cbn [event_pixels_wf] in Hwf.
    pose proof (spi_pixels_spec n buf px Hn Hlen Hwf) as H.
    cbv zeta in H.
    destruct (spi_send_pixels n buf px) as [[ops b2] r].
    destruct H as (Hr & Hcat & Hall & _ & Hb2 & _).
    exists ops, b2. subst r.
    split; [reflexivity|]. split; [exact Hb2|].
    intros dc [Hdc|(op & args & Habs)]; [|discriminate Habs].
    subst dc. split; [|left; apply (all_spi_dc_after true ops Hall)].
    rewrite (all_spi_wire_items true ops Hall), Hcat. reflexivity.
  - cbn [event_pixels_wf] in Hwf. destruct Hwf as [Hpix Hc].
    pose proof (spi_repeat_spec n buf p c Hn Hlen Hpix Hc Hcap) as H.
    cbv zeta in H.
    destruct (spi_send_repeated true n buf p c) as [[ops b2] r].
    destruct H as (Hr & Hcat & Hall & _ & Hb2 & _).
    exists ops, b2. subst r.
    split; [reflexivity|]. split; [exact Hb2|].
    intros dc [Hdc|(op & args & Habs)]; [|discriminate Habs].
    subst dc. split; [|left; apply (all_spi_dc_after true ops Hall)].
    rewrite (all_spi_wire_items true ops Hall), Hcat. reflexivity.
  - exists [ODelay ns], buf. split; [reflexivity|]. split; [reflexivity|].
    intros dc _. split; [reflexivity | right; reflexivity].
  - exists [ORst false], buf. split; [reflexivity|]. split; [reflexivity|].
    intros dc _. split; [reflexivity | right; reflexivity].
  - exists [ORst true], buf. split; [reflexivity|]. split; [reflexivity|].
    intros dc _. split; [reflexivity | right; reflexivity].
Qed.

Lemma spi_run_items (n : Z) :
  1 <= n ->
  forall (t : list event) (buf : list Z) (dc0 : bool),
  n <= Z.of_nat (length buf) -> Z.of_nat (length buf) / n < 2 ^ 32 ->
  Forall (event_pixels_wf n) t ->
  (dc0 = true \/ exists op args t', t = ECmd op args :: t') ->
  exists ops buf',
    spi_run true n buf t = (ops, buf', Ok tt) /\
    wire_spi dc0 ops = items_of t /\
    length buf' = length buf.
Proof.
  intros Hn t.
  induction t as [|e t IH]; intros buf dc0 Hlen Hcap Hwf Hdc.
  - exists [], buf. split; [reflexivity|]. split; reflexivity.
  - inversion Hwf as [|e' t' He Ht]; subst e' t'.
    destruct (spi_event_items n buf e Hn Hlen Hcap He) as (ops1 & b1 & Hev & Hb1 & Hw1).
    assert (Hdc1 : dc0 = true \/ exists op args, e = ECmd op args).
    { destruct Hdc as [Hd|(op & args & t' & Heq)]; [left; exact Hd|].
      right. exists op, args. congruence. }
    destruct (Hw1 dc0 Hdc1) as [Hwire1 Hafter1].
    (* DC is high after the event: set by a command, or it was high and the event left it alone *)
    assert (Hhigh : dc_after dc0 ops1 = true).
    { destruct Hafter1 as [E|E]; [exact E|].
      destruct Hdc1 as [Hd|(op & args & He')]; [rewrite E; exact Hd|].
      subst e. cbn [spi_event spi_send_command] in Hev. injection Hev as <- _. reflexivity. }
    destruct (IH b1 true) as (ops2 & b2 & Hrun & Hwire2 & Hb2).
    { rewrite Hb1. exact Hlen. }
    { rewrite Hb1. exact Hcap. }
    { exact Ht. }
    { left. reflexivity. }
    exists (ops1 ++ ops2), b2.
    split.
    { cbn [spi_run]. rewrite Hev, Hrun. reflexivity. }
    split.
    { rewrite wire_spi_app, Hhigh, Hwire1, Hwire2, items_of_cons. reflexivity. }
    rewrite Hb2. exact Hb1.
Qed.

(* the delays and reset edges are kept: compare spi_run_wire, which sees the bytes only *)
Theorem wire_spi_run : forall n buf t dc0,
  1 <= n -> n <= Z.of_nat (length buf) -> Z.of_nat (length buf) / n < 2 ^ 32 ->
  Forall (event_pixels_wf n) t ->
  (dc0 = true \/ exists op args t', t = ECmd op args :: t') ->
  let '(ops, _, r) := spi_run true n buf t in
  r = Ok tt /\ wire_spi dc0 ops = items_of t.
Proof.
  intros n buf t dc0 Hn Hlen Hcap Hwf Hdc.
  destruct (spi_run_items n Hn t buf dc0 Hlen Hcap Hwf Hdc) as (ops & b2 & Hrun & Hwire & _).
  rewrite Hrun. split; [reflexivity | exact Hwire].
Qed.

(* ============================================================================================== *)
(* 3. parallel bus: the items at the pins are the items of the trace                              *)
(* ============================================================================================== *)

Definition to_item (s : bool * Z) : witem := WByte (fst s) (snd s).

(* operations that are neither a delay nor a reset edge *)
Definition quiet_op (o : l2op) : Prop := match o with ODelay _ | ORst _ => False | _ => True end.

Lemma wire_par_app (a : list l2op) : forall (st : lines) (b : list l2op),
  wire_par st (a ++ b) = wire_par st a ++ wire_par (lines_after st a) b.
Proof.
  induction a as [|o a IH]; intros st b; [reflexivity|].
  rewrite lines_after_cons. cbn [app wire_par]. rewrite IH, <- app_assoc. reflexivity.
Qed.

(* without delays and reset edges, the items are the latched samples *)
Lemma wire_par_quiet (ops : list l2op) : Forall quiet_op ops ->
  forall st : lines, wire_par st ops = map to_item (sample_par st ops).
Proof.
  intros H. induction H as [|o ops Ho Hops IH]; intros st; [reflexivity|].
  cbn [wire_par sample_par]. rewrite map_app, IH.
  destruct o as [h|bs|i h|h|h|ns]; try contradiction; try reflexivity.
  destruct h; [|reflexivity]. destruct (l_wr st); reflexivity.
Qed.

Lemma quiet_pin_ops (n : nat) : forall i v ch, Forall quiet_op (pin_ops n i v ch).
Proof.
  induction n as [|n IH]; intros i v ch; cbn [pin_ops]; [constructor|].
  apply Forall_app. split; [|apply IH].
  destruct (Z.testbit ch i); constructor; [exact I | constructor].
Qed.

Lemma quiet_set_value (w : nat) (last : option Z) (v : Z) : Forall quiet_op (fst (bus_set_value w last v)).
Proof.
  unfold bus_set_value. destruct last as [old|].
  - destruct (old =? v); cbn [fst]; [constructor | apply quiet_pin_ops].
  - cbn [fst]. apply quiet_pin_ops.
Qed.

Lemma quiet_send_word (w : nat) (last : option Z) (word : Z) : Forall quiet_op (fst (par_send_word w last word)).
Proof.
  unfold par_send_word. pose proof (quiet_set_value w last word) as H.
  destruct (bus_set_value w last word) as [ops l']. cbn [fst] in *.
  constructor; [exact I|]. apply Forall_app. split; [exact H|]. constructor; [exact I | constructor].
Qed.

Lemma quiet_send_words (w : nat) (ws : list Z) : forall last : option Z,
  Forall quiet_op (fst (par_send_words w last ws)).
Proof.
  induction ws as [|x r IH]; intros last; cbn [par_send_words]; [constructor|].
  pose proof (quiet_send_word w last x) as H1.
  destruct (par_send_word w last x) as [o1 l1]. specialize (IH l1).
  destruct (par_send_words w l1 r) as [o2 l2]. cbn [fst] in *.
  apply Forall_app. split; assumption.
Qed.

Lemma quiet_strobes (k : nat) : Forall quiet_op (concat (repeat [OWr false; OWr true] k)).
Proof.
  induction k as [|k IH]; cbn [repeat concat app]; [constructor|].
  constructor; [exact I|]. constructor; [exact I | exact IH].
Qed.

Lemma quiet_bus_event (md : mode) (w : nat) (last : option Z) (e : event) :
  is_bus_event e = true -> Forall quiet_op (fst (fst (par_event true md w last e))).
Proof.
  destruct e as [op args|px|p c|ns| |]; cbn [is_bus_event par_event]; intros Hb; try discriminate Hb.
  - unfold par_send_command.
    pose proof (quiet_send_word w last op) as H1.
    destruct (par_send_word w last op) as [o1 l1].
    pose proof (quiet_send_words w args l1) as H2.
    destruct (par_send_words w l1 args) as [o2 l2]. cbn [fst] in *.
    constructor; [exact I|]. apply Forall_app. split; [exact H1|]. constructor; [exact I | exact H2].
  - unfold par_send_pixels.
    pose proof (quiet_send_words w (concat px) last) as H.
    destruct (par_send_words w last (concat px)) as [o l]. exact H.
  - unfold par_send_repeated. cbv zeta.
    destruct ((c =? 0) || (Z.of_nat (length p) =? 0)); [constructor|].
    destruct (is_same p) as [word|].
    + pose proof (quiet_send_word w last word) as H1.
      destruct (par_send_word w last word) as [o1 l1]. cbn [fst] in *.
      apply Forall_app. split; [exact H1 | apply quiet_strobes].
    + unfold par_send_pixels.
      pose proof (quiet_send_words w (concat (concat (repeat [p] (Z.to_nat c)))) last) as H.
      destruct (par_send_words w last (concat (concat (repeat [p] (Z.to_nat c))))) as [o l]. exact H.
Qed.

Lemma map_to_item_pair (d : bool) (l : list Z) : map to_item (map (pair d) l) = map (WByte d) l.
Proof. rewrite map_map. reflexivity. Qed.

Lemma items_of_latch (e : event) : is_bus_event e = true -> map to_item (latch_of_event e) = items_of_event e.
Proof.
  destruct e as [op args|px|p c|ns| |]; cbn [is_bus_event latch_of_event items_of_event]; intros Hb;
    try discriminate Hb.
  - cbn [map to_item fst snd]. rewrite map_to_item_pair. reflexivity.
  - apply map_to_item_pair.
  - apply map_to_item_pair.
Qed.

Lemma par_event_items (w : nat) (md : mode) (last : option Z) (e : event) (st : lines)
      (ops : list l2op) (l' : option Z) (r : outcome unit) :
  (8 <= w)%nat -> words_in_range w e -> bus_inv w (last, l_pins st) ->
  (l_dc st = true \/ exists op args, e = ECmd op args) ->
  par_event true md w last e = (ops, l', r) ->
  r = Ok tt /\ wire_par st ops = items_of_event e /\
  bus_inv w (l', l_pins (lines_after st ops)) /\ l_dc (lines_after st ops) = true.
Proof.
  intros Hw He Hinv Hdc E.
  destruct (par_event_lines w md last e st ops l' r Hw He Hinv Hdc E) as (R & S & I1 & D1).
  split; [exact R|]. split; [|split; [exact I1 | exact D1]].
  destruct (is_bus_event e) eqn:Hb.
  - pose proof (quiet_bus_event md w last e Hb) as Hq. rewrite E in Hq. cbn [fst] in Hq.
    rewrite (wire_par_quiet ops Hq st), S. apply items_of_latch. exact Hb.
  - destruct e as [op args|px|p c|ns| |]; try discriminate Hb;
      cbn [par_event] in E; injection E as <- _ _; reflexivity.
Qed.

Lemma par_run_items (w : nat) (md : mode) (t : list event) : forall (last : option Z) (st : lines)
      (ops : list l2op) (l' : option Z) (r : outcome unit),
  (8 <= w)%nat -> Forall (words_in_range w) t -> bus_inv w (last, l_pins st) ->
  (l_dc st = true \/ exists op args t', t = ECmd op args :: t') ->
  par_run true md w last t = (ops, l', r) ->
  r = Ok tt /\ wire_par st ops = items_of t /\ bus_inv w (l', l_pins (lines_after st ops)).
Proof.
  induction t as [|e t IH]; intros last st ops l' r Hw Hall Hinv Hdc; cbn [par_run].
  - intros E. injection E as <- <- <-. rewrite lines_after_nil. auto.
  - inversion Hall as [|e' t' He Ht]; subst e' t'.
    assert (Hdc' : l_dc st = true \/ exists op args, e = ECmd op args).
    { destruct Hdc as [Hdc|(op & args & t' & Habs)]; [left; exact Hdc | right].
      injection Habs as -> _. exists op, args. reflexivity. }
    destruct (par_event true md w last e) as [[o1 l1] r1] eqn:E1.
    destruct (par_event_items w md last e st o1 l1 r1 Hw He Hinv Hdc' E1) as (R1 & S1 & I1 & D1).
    subst r1.
    destruct (par_run true md w l1 t) as [[o2 l2] r2] eqn:E2.
    destruct (IH l1 (lines_after st o1) o2 l2 r2 Hw Ht I1 (or_introl D1) E2) as (R2 & S2 & I2).
    intros E. injection E as <- <- <-.
    rewrite wire_par_app, lines_after_app, S1, S2, items_of_cons.
    split; [exact R2|]. split; [reflexivity | exact I2].
Qed.

Theorem wire_par_run : forall (w : nat) (md : mode) (t : list event) (last : option Z) (st : lines),
  (8 <= w)%nat -> Forall (words_in_range w) t -> bus_inv w (last, l_pins st) ->
  (l_dc st = true \/ exists op args t', t = ECmd op args :: t') ->
  let '(ops, l', r) := par_run true md w last t in
  r = Ok tt /\ wire_par st ops = items_of t /\ bus_inv w (l', l_pins (lines_after st ops)).
Proof.
  intros w md t last st Hw Hall Hinv Hdc.
  destruct (par_run true md w last t) as [[ops l'] r] eqn:E.
  exact (par_run_items w md t last st ops l' r Hw Hall Hinv Hdc E).
Qed.

Corollary wire_par_run_8 : forall (md : mode) (t : list event) (last : option Z) (st : lines),
  Forall (words_in_range 8) t -> bus_inv 8 (last, l_pins st) ->
  (l_dc st = true \/ exists op args t', t = ECmd op args :: t') ->
  let '(ops, l', r) := par_run true md 8 last t in
  r = Ok tt /\ wire_par st ops = items_of t /\ bus_inv 8 (l', l_pins (lines_after st ops)).
Proof. intros md t last st. apply wire_par_run. lia. Qed.

Corollary wire_par_run_16 : forall (md : mode) (t : list event) (last : option Z) (st : lines),
  Forall (words_in_range 16) t -> bus_inv 16 (last, l_pins st) ->
  (l_dc st = true \/ exists op args t', t = ECmd op args :: t') ->
  let '(ops, l', r) := par_run true md 16 last t in
  r = Ok tt /\ wire_par st ops = items_of t /\ bus_inv 16 (l', l_pins (lines_after st ops)).
Proof. intros md t last st. apply wire_par_run. lia. Qed.

(* ============================================================================================== *)
(* 4. composition: decoding the pin-level log of a run gives back the (normalised) trace          *)
(* ============================================================================================== *)

Theorem decode_spi_transparent : forall n buf t dc0,
  1 <= n -> n <= Z.of_nat (length buf) -> Z.of_nat (length buf) / n < 2 ^ 32 ->
  Forall (event_pixels_wf n) t ->
  (dc0 = true \/ exists op args t', t = ECmd op args :: t') ->
  framed (Z.to_nat n) t ->
  let '(ops, _, r) := spi_run true n buf t in
  r = Ok tt /\ decode_items (Z.to_nat n) None [] (wire_spi dc0 ops) = normalise t.
Proof.
  intros n buf t dc0 Hn Hlen Hcap Hwf Hdc Hfr.
  pose proof (wire_spi_run n buf t dc0 Hn Hlen Hcap Hwf Hdc) as H.
  destruct (spi_run true n buf t) as [[ops b2] r]. destruct H as [Hr Hw].
  split; [exact Hr|]. rewrite Hw. apply decode_items_of; [lia | exact Hfr].
Qed.

Theorem decode_par_transparent : forall (w : nat) (md : mode) (n : nat) (t : list event) (last : option Z) (st : lines),
  (8 <= w)%nat -> (1 <= n)%nat -> Forall (words_in_range w) t -> bus_inv w (last, l_pins st) ->
  (l_dc st = true \/ exists op args t', t = ECmd op args :: t') ->
  framed n t ->
  let '(ops, _, r) := par_run true md w last t in
  r = Ok tt /\ decode_items n None [] (wire_par st ops) = normalise t.
Proof.
  intros w md n t last st Hw Hn Hall Hinv Hdc Hfr.
  pose proof (wire_par_run w md t last st Hw Hall Hinv Hdc) as H.
  destruct (par_run true md w last t) as [[ops l'] r]. destruct H as (Hr & Hwire & _).
  split; [exact Hr|]. rewrite Hwire. apply decode_items_of; [exact Hn | exact Hfr].
Qed.

(* 8-bit bus: n bus words (bytes) per pixel *)
Corollary decode_par_transparent_8 : forall (md : mode) (n : nat) (t : list event) (last : option Z) (st : lines),
  (1 <= n)%nat -> Forall (words_in_range 8) t -> bus_inv 8 (last, l_pins st) ->
  (l_dc st = true \/ exists op args t', t = ECmd op args :: t') ->
  framed n t ->
  let '(ops, _, r) := par_run true md 8 last t in
  r = Ok tt /\ decode_items n None [] (wire_par st ops) = normalise t.
Proof. intros md n t last st. apply decode_par_transparent. lia. Qed.

(* 16-bit bus: one bus word per pixel *)
Corollary decode_par_transparent_16 : forall (md : mode) (t : list event) (last : option Z) (st : lines),
  Forall (words_in_range 16) t -> bus_inv 16 (last, l_pins st) ->
  (l_dc st = true \/ exists op args t', t = ECmd op args :: t') ->
  framed 1 t ->
  let '(ops, _, r) := par_run true md 16 last t in
  r = Ok tt /\ decode_items 1 None [] (wire_par st ops) = normalise t.
Proof. intros md t last st. apply decode_par_transparent; lia. Qed.

(* ============================================================================================== *)
(* 5. the picture is the same for a trace and for its normalised form                             *)
(* ============================================================================================== *)

(* ---- controller states that differ in the write history only, and show the same picture ---- *)
Definition set_wrev (k : ctl) (l : list wr) : ctl :=
  {| k_fw := k_fw k; k_fh := k_fh k; k_madctl := k_madctl k; k_colmod := k_colmod k; k_asleep := k_asleep k;
     k_on := k_on k; k_inverted := k_inverted k; k_te := k_te k; k_sc := k_sc k; k_ec := k_ec k; k_sp := k_sp k;
     k_ep := k_ep k; k_ptr := k_ptr k; k_vscr := k_vscr k; k_vstart := k_vstart k; k_wrev := l;
     k_flags := k_flags k; k_clock := k_clock k; k_last_slp := k_last_slp k;
     k_ramwr_seen := k_ramwr_seen k; k_page := k_page k; k_resets := k_resets k; k_opaque := k_opaque k |}.

(* every register, flag and counter equal; the write histories give every cell the same content *)
Definition keq (a b : ctl) : Prop :=
  a = set_wrev b (k_wrev a) /\ forall x y, mem a x y = mem b x y.

Lemma set_wrev_id k : set_wrev k (k_wrev k) = k.
Proof. destruct k; reflexivity. Qed.

Lemma keq_refl k : keq k k.
Proof. split; [symmetry; apply set_wrev_id | reflexivity]. Qed.

Lemma keq_trans a b c : keq a b -> keq b c -> keq a c.
Proof.
  intros [E1 M1] [E2 M2]. split.
  - rewrite E1 at 1. rewrite E2. reflexivity.
  - intros x y. rewrite M1. apply M2.
Qed.

Lemma keq_flags a b : keq a b -> k_flags a = k_flags b.
Proof. intros [E _]. rewrite E. reflexivity. Qed.

(* a transition is parametric in the history: it conses the same entries whatever the history is *)
Definition wpar (f : ctl -> ctl) : Prop :=
  forall k, exists D, forall l, f (set_wrev k l) = set_wrev (f k) (D ++ l).

Lemma wpar_plain (f : ctl -> ctl) : (forall k l, f (set_wrev k l) = set_wrev (f k) l) -> wpar f.
Proof. intros H k. exists []. intros l. apply H. Qed.

Lemma wpar_comp (f g : ctl -> ctl) : wpar f -> wpar g -> wpar (fun k => g (f k)).
Proof.
  intros Hf Hg k. destruct (Hf k) as [Df HDf]. destruct (Hg (f k)) as [Dg HDg].
  exists (Dg ++ Df). intros l. rewrite HDf, HDg, app_assoc. reflexivity.
Qed.

Lemma wpar_fold {A} (F : ctl -> A -> ctl) (l : list A) :
  (forall a, wpar (fun k => F k a)) -> wpar (fun k => fold_left F l k).
Proof.
  intros HF. induction l as [|a l IH].
  - apply wpar_plain. reflexivity.
  - cbn [fold_left]. exact (wpar_comp (fun k => F k a) (fun k => fold_left F l k) (HF a) IH).
Qed.

Lemma wpar_keq (f : ctl -> ctl) : wpar f -> forall a b, keq a b -> keq (f a) (f b).
Proof.
  intros Hf a b [E M]. destruct (Hf b) as [D HD].
  assert (Ea : f a = set_wrev (f b) (D ++ k_wrev a)) by (rewrite E at 1; apply HD).
  assert (Eb : f b = set_wrev (f b) (D ++ k_wrev b)) by (rewrite <- HD, set_wrev_id; reflexivity).
  split.
  - rewrite Ea. reflexivity.
  - intros x y. unfold mem. rewrite Ea. rewrite Eb at 2. cbn [k_wrev set_wrev].
    rewrite !mem_rev_app. destruct (find (fun w => covers w x y) D); [reflexivity|]. apply M.
Qed.

(* ---- every controller transition is parametric ---- *)
Lemma sleep_cmd_wrev k b l : sleep_cmd (set_wrev k l) b = set_wrev (sleep_cmd k b) l.
Proof.
  unfold sleep_cmd.
  change (k_last_slp (set_wrev k l)) with (k_last_slp k). change (k_clock (set_wrev k l)) with (k_clock k).
  destruct (k_last_slp k) as [t|]; [destruct (k_clock k - t <? SLEEP_NS)|]; reflexivity.
Qed.

Lemma window_cmd_wrev k op args l : window_cmd (set_wrev k l) op args = set_wrev (window_cmd k op args) l.
Proof.
  unfold window_cmd.
  destruct args as [|a [|b [|c [|d [|e r]]]]]; try reflexivity.
  cbv zeta.
  change (col_extent (set_wrev k l)) with (col_extent k). change (page_extent (set_wrev k l)) with (page_extent k).
  destruct (256 * c + d <? 256 * a + b); destruct (op =? 0x2A);
    match goal with |- context [?x <=? ?y] => destruct (x <=? y) end; reflexivity.
Qed.

Ltac split_head :=
  match goal with
  | |- (if ?c then _ else _) = set_wrev (if ?c then _ else _) _ => destruct c
  | |- (match ?a with [] => _ | _ :: _ => _ end) = set_wrev (match ?a with [] => _ | _ :: _ => _ end) _ => destruct a
  end.

Lemma command_wrev k op args l : command (set_wrev k l) op args = set_wrev (command k op args) l.
Proof.
  unfold command. change (k_page (set_wrev k l)) with (k_page k).
  repeat split_head; try reflexivity; first [apply sleep_cmd_wrev | apply window_cmd_wrev].
Qed.

Lemma write_px_wpar ws : wpar (fun k => write_px k ws).
Proof.
  intros k. cbv beta.
  destruct (k_ptr k) as [[[c p] wrapped]|] eqn:Ep.
  - destruct (phys (k_fw k) (k_fh k) (k_madctl k) c p) as [x y] eqn:Eph.
    exists [WPx x y ws]. intros l. unfold write_px. cbn [k_ptr set_wrev]. rewrite Ep.
    cbn [k_fw k_fh k_madctl set_wrev]. rewrite Eph.
    cbn [k_ec k_ep k_sc k_sp set_wrev].
    destruct wrapped; destruct (c <? k_ec k); try destruct (p <? k_ep k); reflexivity.
  - exists []. intros l. unfold write_px. cbn [k_ptr set_wrev]. rewrite Ep. reflexivity.
Qed.

Lemma fold_seq_repeat ws (n : nat) : forall (a : nat) (k : ctl),
  fold_left (fun k' (_ : nat) => write_px k' ws) (seq a n) k = fold_left write_px (repeat ws n) k.
Proof.
  induction n as [|n IH]; intros a k; [reflexivity|]. cbn [seq repeat fold_left]. apply IH.
Qed.

Lemma write_repeat_wpar ws c : wpar (fun k => write_repeat k ws c).
Proof.
  intros k. cbv beta.
  destruct (k_ptr k) as [[[c0 p0] wrapped]|] eqn:Ep.
  - destruct (c =? 0) eqn:E0.
    { exists []. intros l. unfold write_repeat. cbn [k_ptr set_wrev]. rewrite Ep, E0. reflexivity. }
    destruct ((c0 =? k_sc k) && (p0 =? k_sp k) && negb wrapped && (c =? window_area k)
              && (k_sc k <=? k_ec k) && (k_sp k <=? k_ep k)) eqn:Ew.
    + destruct (phys (k_fw k) (k_fh k) (k_madctl k) (k_sc k) (k_sp k)) as [xa ya] eqn:Ea.
      destruct (phys (k_fw k) (k_fh k) (k_madctl k) (k_ec k) (k_ep k)) as [xb yb] eqn:Eb.
      exists [WRect (Z.min xa xb) (Z.min ya yb) (Z.max xa xb) (Z.max ya yb) ws]. intros l.
      unfold write_repeat. cbn [k_ptr set_wrev]. rewrite Ep, E0.
      change (window_area (set_wrev k l)) with (window_area k).
      cbn [k_sc k_sp k_ec k_ep k_fw k_fh k_madctl set_wrev]. rewrite Ew, Ea, Eb. reflexivity.
    + destruct (c <=? 4096) eqn:E4.
      * destruct (wpar_fold (fun k' (_ : nat) => write_px k' ws) (seq 0 (Z.to_nat c))
                            (fun _ => write_px_wpar ws) k) as [D HD].
        exists D. intros l. unfold write_repeat. cbn [k_ptr set_wrev]. rewrite Ep, E0.
        change (window_area (set_wrev k l)) with (window_area k).
        cbn [k_sc k_sp k_ec k_ep set_wrev]. rewrite Ew, E4. apply HD.
      * exists []. intros l. unfold write_repeat. cbn [k_ptr set_wrev]. rewrite Ep, E0.
        change (window_area (set_wrev k l)) with (window_area k).
        cbn [k_sc k_sp k_ec k_ep set_wrev]. rewrite Ew, E4. reflexivity.
  - exists []. intros l. unfold write_repeat. cbn [k_ptr set_wrev]. rewrite Ep. destruct (c =? 0); reflexivity.
Qed.


Lemma ctl_step_wpar (e : event) : wpar (fun k => ctl_step k e).
Proof.
  destruct e as [op args|px|ws c|ns| |]; cbn [ctl_step].
  - apply wpar_plain. intros k l. apply command_wrev.
  - apply (wpar_fold write_px px). intros ws. apply write_px_wpar.
  - apply write_repeat_wpar.
  - apply wpar_plain. reflexivity.
  - apply wpar_plain. reflexivity.
  - apply wpar_plain. reflexivity.
Qed.

(* the controller cannot tell two such states apart, now or later *)
Theorem ctl_step_keq : forall (e : event) (a b : ctl), keq a b -> keq (ctl_step a e) (ctl_step b e).
Proof. intros e. exact (wpar_keq (fun k => ctl_step k e) (ctl_step_wpar e)). Qed.

Theorem ctl_run_keq : forall (t : list event) (a b : ctl), keq a b -> keq (ctl_run a t) (ctl_run b t).
Proof.
  induction t as [|e t IH]; intros a b H; [exact H|].
  cbn [ctl_run fold_left]. apply IH. apply ctl_step_keq. exact H.
Qed.

(* ---- anomaly flags are only ever added ---- *)
Definition fsuf (k k' : ctl) : Prop := exists F, k_flags k' = F ++ k_flags k.

Lemma fsuf_refl k : fsuf k k.
Proof. exists []. reflexivity. Qed.

Lemma fsuf_same k k' : k_flags k' = k_flags k -> fsuf k k'.
Proof. intros H. exists []. exact H. Qed.

Lemma fsuf_trans a b c : fsuf a b -> fsuf b c -> fsuf a c.
Proof. intros [F1 H1] [F2 H2]. exists (F2 ++ F1). rewrite H2, H1, app_assoc. reflexivity. Qed.

Lemma fsuf_flag k a : fsuf k (flag k a).
Proof. exists [a]. reflexivity. Qed.

(* if nothing was added over two steps, nothing was added in the first *)
Lemma fsuf_squeeze a b c : fsuf a b -> fsuf b c -> k_flags c = k_flags a ->
  k_flags b = k_flags a /\ k_flags c = k_flags b.
Proof.
  intros [F1 H1] [F2 H2] E. rewrite H2, H1 in E.
  assert (HL : length (F2 ++ F1 ++ k_flags a) = length (k_flags a)) by (rewrite E; reflexivity).
  rewrite !app_length in HL.
  destruct F1 as [|x F1]; [|cbn [length] in HL; lia].
  destruct F2 as [|y F2]; [|cbn [length] in HL; lia].
  rewrite H2, H1. split; reflexivity.
Qed.

Lemma flag_changes k a : k_flags (flag k a) <> k_flags k.
Proof.
  cbn [k_flags flag]. intros E.
  assert (HL : length (a :: k_flags k) = length (k_flags k)) by (rewrite E; reflexivity).
  cbn [length] in HL. lia.
Qed.

Lemma sleep_cmd_fsuf k b : fsuf k (sleep_cmd k b).
Proof.
  unfold sleep_cmd. destruct (k_last_slp k) as [t|]; [destruct (k_clock k - t <? SLEEP_NS)|];
    first [exists []; reflexivity | eexists [_]; reflexivity].
Qed.

Lemma window_cmd_fsuf k op args : fsuf k (window_cmd k op args).
Proof.
  unfold window_cmd.
  destruct args as [|a [|b [|c [|d [|e r]]]]]; try (eexists [_]; reflexivity).
  cbv zeta.
  destruct (256 * c + d <? 256 * a + b); destruct (op =? 0x2A);
    match goal with |- context [?x <=? ?y] => destruct (x <=? y) end;
    first [exists []; reflexivity | eexists [_]; reflexivity | eexists [_; _]; reflexivity].
Qed.

Ltac split_fsuf :=
  match goal with
  | |- fsuf _ (if ?c then _ else _) => destruct c
  | |- fsuf _ (match ?a with [] => _ | _ :: _ => _ end) => destruct a
  end.

Lemma command_fsuf k op args : fsuf k (command k op args).
Proof.
  unfold command.
  repeat split_fsuf;
    first [exists []; reflexivity | eexists [_]; reflexivity | apply sleep_cmd_fsuf | apply window_cmd_fsuf].
Qed.

Lemma write_px_fsuf k ws : fsuf k (write_px k ws).
Proof.
  unfold write_px. destruct (k_ptr k) as [[[c p] wrapped]|]; [|apply fsuf_flag].
  destruct (phys (k_fw k) (k_fh k) (k_madctl k) c p) as [x y].
  destruct wrapped; destruct (c <? k_ec k); try destruct (p <? k_ep k);
    first [exists []; reflexivity | eexists [_]; reflexivity].
Qed.

Lemma fold_fsuf {A} (F : ctl -> A -> ctl) (l : list A) :
  (forall k a, fsuf k (F k a)) -> forall k, fsuf k (fold_left F l k).
Proof.
  intros HF. induction l as [|a l IH]; intros k; [apply fsuf_refl|].
  cbn [fold_left]. exact (fsuf_trans _ _ _ (HF k a) (IH (F k a))).
Qed.

Lemma write_repeat_fsuf k ws c : fsuf k (write_repeat k ws c).
Proof.
  unfold write_repeat. destruct (k_ptr k) as [[[c0 p0] wrapped]|].
  - destruct (c =? 0); [apply fsuf_refl|].
    match goal with |- fsuf _ (if ?b then _ else _) => destruct b end.
    + destruct (phys (k_fw k) (k_fh k) (k_madctl k) (k_sc k) (k_sp k)) as [xa ya].
      destruct (phys (k_fw k) (k_fh k) (k_madctl k) (k_ec k) (k_ep k)) as [xb yb].
      exists []. reflexivity.
    + destruct (c <=? 4096); [|apply fsuf_flag].
      apply (fold_fsuf (fun k' (_ : nat) => write_px k' ws)). intros k' _. apply write_px_fsuf.
  - destruct (c =? 0); [apply fsuf_refl | apply fsuf_flag].
Qed.

Theorem ctl_step_fsuf : forall (k : ctl) (e : event), fsuf k (ctl_step k e).
Proof.
  intros k e. destruct e as [op args|px|ws c|ns| |]; cbn [ctl_step].
  - apply command_fsuf.
  - apply (fold_fsuf write_px). intros k' ws. apply write_px_fsuf.
  - apply write_repeat_fsuf.
  - exists []. reflexivity.
  - exists []. reflexivity.
  - apply fsuf_refl.
Qed.

Theorem ctl_run_fsuf : forall (t : list event) (k : ctl), fsuf k (ctl_run k t).
Proof. intros t k. apply (fold_fsuf ctl_step). exact ctl_step_fsuf. Qed.


(* ---- geometry: `phys` maps a host window onto the rectangle spanned by the images of its corners ---- *)
Lemma phys_in_rect fw fh m sc sp ec ep c p :
  sc <= c <= ec -> sp <= p <= ep ->
  Z.min (fst (phys fw fh m sc sp)) (fst (phys fw fh m ec ep)) <= fst (phys fw fh m c p)
    <= Z.max (fst (phys fw fh m sc sp)) (fst (phys fw fh m ec ep)) /\
  Z.min (snd (phys fw fh m sc sp)) (snd (phys fw fh m ec ep)) <= snd (phys fw fh m c p)
    <= Z.max (snd (phys fw fh m sc sp)) (snd (phys fw fh m ec ep)).
Proof.
  intros Hc Hp. unfold phys. destruct (mv m), (mx m), (my m); cbn [fst snd]; lia.
Qed.

Lemma phys_onto_rect fw fh m sc sp ec ep x y :
  sc <= ec -> sp <= ep ->
  Z.min (fst (phys fw fh m sc sp)) (fst (phys fw fh m ec ep)) <= x
    <= Z.max (fst (phys fw fh m sc sp)) (fst (phys fw fh m ec ep)) ->
  Z.min (snd (phys fw fh m sc sp)) (snd (phys fw fh m ec ep)) <= y
    <= Z.max (snd (phys fw fh m sc sp)) (snd (phys fw fh m ec ep)) ->
  exists c p, sc <= c <= ec /\ sp <= p <= ep /\ phys fw fh m c p = (x, y).
Proof.
  intros Hc Hp. unfold phys.
  set (ux := if mx m then fw - 1 - x else x). set (uy := if my m then fh - 1 - y else y).
  intros Hx Hy.
  exists (if mv m then uy else ux), (if mv m then ux else uy). subst ux uy.
  destruct (mv m), (mx m), (my m); cbn [fst snd] in *;
    (split; [lia|]; split; [lia|]; f_equal; lia).
Qed.

Lemma phys_injective fw fh m c1 p1 c2 p2 : phys fw fh m c1 p1 = phys fw fh m c2 p2 -> c1 = c2 /\ p1 = p2.
Proof.
  unfold phys. destruct (mv m), (mx m), (my m); intros E; injection E as E1 E2; lia.
Qed.

(* ---- a whole window streamed pixel by pixel ---- *)
Lemma host_row_repeat_In (ws : list Z) (p : Z) (n : nat) : forall (c : Z) (e : Z * Z * list Z),
  In e (fst (host_row c p n (repeat ws n))) <-> exists c', c <= c' < c + Z.of_nat n /\ e = (c', p, ws).
Proof.
  induction n as [|n IH]; intros c e.
  - cbn [repeat host_row fst In]. split; [contradiction | intros (c' & H & _); lia].
  - cbn [repeat host_row]. specialize (IH (c + 1) e).
    destruct (host_row (c + 1) p n (repeat ws n)) as [l rest]. cbn [fst In] in *.
    rewrite IH. split.
    + intros [E|(c' & H & E)]; [exists c; split; [lia | symmetry; exact E] | exists c'; split; [lia | exact E]].
    + intros (c' & H & E). destruct (Z.eq_dec c' c) as [Ec|Ec]; [left; subst c'; symmetry; exact E|].
      right. exists c'. split; [lia | exact E].
Qed.

Lemma stream_window_rows (ws : list Z) : forall (rows : nat) (k : ctl) (p : Z),
  k_ptr k = Some (k_sc k, p, false) -> k_sc k <= k_ec k -> k_sp k <= p ->
  p + Z.of_nat rows - 1 = k_ep k -> (1 <= rows)%nat ->
  exists L,
    fold_left write_px (repeat ws (rows * Z.to_nat (k_ec k - k_sc k + 1))) k
      = with_ptr k (Some (k_sc k, k_sp k, true)) (L ++ k_wrev k) (k_ramwr_seen k) /\
    forall e, In e L <->
      exists c' p', k_sc k <= c' <= k_ec k /\ p <= p' <= k_ep k /\
                    e = to_wr (k_fw k) (k_fh k) (k_madctl k) (c', p', ws).
Proof.
  induction rows as [|r IH]; intros k p Hptr Hw Hsp Hep Hrows; [lia|].
  set (w := Z.to_nat (k_ec k - k_sc k + 1)) in *.
  assert (Hwpos : (1 <= w)%nat) by (unfold w; lia).
  change (S r * w)%nat with (w + r * w)%nat. rewrite repeat_app, fold_left_app.
  assert (A1 : k_sc k + Z.of_nat w - 1 <= k_ec k) by (unfold w; lia).
  assert (A2 : (w <= length (repeat ws w))%nat) by (rewrite repeat_length; lia).
  assert (A3 : k_sp k <= p <= k_ep k) by lia.
  destruct (write_row k w (k_sc k) p (repeat ws w) Hptr A1 A2 A3 (Z.le_refl _))
    as (q & E & _ & _ & _ & Q2 & Q3).
  rewrite <- (repeat_length ws w) in E at 1. rewrite firstn_all in E.
  set (L1 := rev (map (to_wr (k_fw k) (k_fh k) (k_madctl k)) (fst (host_row (k_sc k) p w (repeat ws w))))) in *.
  assert (HL1 : forall e, In e L1 <->
            exists c', k_sc k <= c' <= k_ec k /\ e = to_wr (k_fw k) (k_fh k) (k_madctl k) (c', p, ws)).
  { intros e. unfold L1. rewrite <- in_rev, in_map_iff. split.
    - intros (tr & Etr & Hin). apply host_row_repeat_In in Hin. destruct Hin as (c' & Hc' & ->).
      exists c'. split; [unfold w in Hc'; lia | symmetry; exact Etr].
    - intros (c' & Hc' & ->). exists (c', p, ws). split; [reflexivity|].
      apply host_row_repeat_In. exists c'. split; [unfold w; lia | reflexivity]. }
  rewrite E.
  destruct r as [|r'].
  - (* the last row *)
    assert (Hq : q = Some (k_sc k, k_sp k, true)) by (apply Q3; unfold w; lia).
    subst q. cbn [Nat.mul repeat fold_left]. exists L1. split; [reflexivity|].
    intros e. rewrite HL1. split.
    + intros (c' & Hc' & ->). exists c', p. split; [exact Hc'|]. split; [lia | reflexivity].
    + intros (c' & p' & Hc' & Hp' & ->). assert (p' = p) by lia. subst p'. exists c'. split; [exact Hc' | reflexivity].
  - assert (Hq : q = Some (k_sc k, p + 1, false)) by (apply Q2; unfold w; lia).
    subst q.
    set (k1 := with_ptr k (Some (k_sc k, p + 1, false)) (L1 ++ k_wrev k) (k_ramwr_seen k)).
    destruct (IH k1 (p + 1)) as (L2 & E2 & HL2).
    { reflexivity. }
    { exact Hw. }
    { change (k_sp k1) with (k_sp k). lia. }
    { change (k_ep k1) with (k_ep k). lia. }
    { lia. }
    change (k_ec k1) with (k_ec k) in E2, HL2. change (k_sc k1) with (k_sc k) in E2, HL2.
    change (k_sp k1) with (k_sp k) in E2. change (k_ep k1) with (k_ep k) in HL2.
    change (k_fw k1) with (k_fw k) in HL2. change (k_fh k1) with (k_fh k) in HL2.
    change (k_madctl k1) with (k_madctl k) in HL2.
    fold w in E2. rewrite E2.
    exists (L2 ++ L1). split.
    { apply (with_ptr_trans_l k k1 (Some (k_sc k, p + 1, false)) L1 (k_ramwr_seen k)); reflexivity. }
    intros e. rewrite in_app_iff, HL2, HL1. split.
    + intros [(c' & p' & Hc' & Hp' & ->)|(c' & Hc' & ->)].
      * exists c', p'. split; [exact Hc'|]. split; [lia | reflexivity].
      * exists c', p. split; [exact Hc'|]. split; [lia | reflexivity].
    + intros (c' & p' & Hc' & Hp' & ->). destruct (Z.eq_dec p' p) as [Ep|Ep].
      * right. subst p'. exists c'. split; [exact Hc' | reflexivity].
      * left. exists c', p'. split; [exact Hc'|]. split; [lia | reflexivity].
Qed.

(* entries of one colour covering exactly the cells of a rectangle read like the rectangle *)
Lemma mem_rev_cells_as_rect (L W : list wr) (x0 y0 x1 y1 : Z) (ws : list Z) :
  (forall e, In e L -> exists cx cy, e = WPx cx cy ws /\ x0 <= cx <= x1 /\ y0 <= cy <= y1) ->
  (forall cx cy, x0 <= cx <= x1 -> y0 <= cy <= y1 -> In (WPx cx cy ws) L) ->
  forall x y, mem_rev (L ++ W) x y = mem_rev (WRect x0 y0 x1 y1 ws :: W) x y.
Proof.
  intros Hin Hall x y. rewrite mem_rev_app. cbn [mem_rev].
  destruct (find (fun w => covers w x y) L) as [e|] eqn:Ef.
  - apply find_some in Ef. destruct Ef as [He Hc].
    destruct (Hin e He) as (cx & cy & -> & Hx & Hy). cbn [covers] in Hc.
    apply andb_true_iff in Hc. destruct Hc as [Ex Ey]. apply Z.eqb_eq in Ex, Ey. subst cx cy.
    cbn [wr_words].
    rewrite (proj2 (Z.leb_le x0 x)), (proj2 (Z.leb_le x x1)), (proj2 (Z.leb_le y0 y)), (proj2 (Z.leb_le y y1)) by lia.
    reflexivity.
  - destruct ((x0 <=? x) && (x <=? x1) && (y0 <=? y) && (y <=? y1)) eqn:Er; [|reflexivity].
    rewrite !andb_true_iff, !Z.leb_le in Er.
    pose proof (find_none _ _ Ef (WPx x y ws) (Hall x y ltac:(lia) ltac:(lia))) as Hn.
    cbn [covers] in Hn. rewrite !Z.eqb_refl in Hn. discriminate Hn.
Qed.

(* ---- the core: the repeat decoded as one rectangle, or as a stream of equal pixels ---- *)
Lemma list_neq_cons {A} (a : A) (l : list A) : a :: l <> l.
Proof.
  intros E. assert (HL : length (a :: l) = length l) by (rewrite E; reflexivity). cbn [length] in HL. lia.
Qed.

Theorem write_repeat_as_stream : forall (k : ctl) (ws : list Z) (c : Z),
  k_flags (write_repeat k ws c) = k_flags k ->
  keq (fold_left write_px (repeat ws (Z.to_nat c)) k) (write_repeat k ws c).
Proof.
  intros k ws c Hfl. unfold write_repeat in *.
  destruct (k_ptr k) as [[[c0 p0] wrapped]|] eqn:Ep.
  - destruct (Z.eqb_spec c 0) as [E0|E0]; [subst c; apply keq_refl|].
    destruct ((c0 =? k_sc k) && (p0 =? k_sp k) && negb wrapped && (c =? window_area k)
              && (k_sc k <=? k_ec k) && (k_sp k <=? k_ep k)) eqn:Ew.
    + (* the window case *)
      rewrite !andb_true_iff, !Z.eqb_eq, !Z.leb_le, negb_true_iff in Ew.
      destruct Ew as (((((Ec0 & Ep0) & Ewr) & Ec) & Hw) & Hh). subst c0 p0 wrapped.
      clear Hfl.
      destruct (phys (k_fw k) (k_fh k) (k_madctl k) (k_sc k) (k_sp k)) as [xa ya] eqn:Ea.
      destruct (phys (k_fw k) (k_fh k) (k_madctl k) (k_ec k) (k_ep k)) as [xb yb] eqn:Eb.
      destruct (stream_window_rows ws (Z.to_nat (k_ep k - k_sp k + 1)) k (k_sp k) Ep Hw (Z.le_refl _))
        as (L & EL & HL); [lia | lia |].
      replace (Z.to_nat c) with (Z.to_nat (k_ep k - k_sp k + 1) * Z.to_nat (k_ec k - k_sc k + 1))%nat
        by (rewrite Ec; unfold window_area; rewrite Z2Nat.inj_mul by lia; apply Nat.mul_comm).
      rewrite EL. split; [reflexivity|].
      intros x y. unfold mem. cbn [k_wrev with_ptr].
      apply mem_rev_cells_as_rect.
      * intros e He. apply HL in He. destruct He as (c' & p' & Hc' & Hp' & ->).
        pose proof (phys_in_rect (k_fw k) (k_fh k) (k_madctl k) (k_sc k) (k_sp k) (k_ec k) (k_ep k) c' p' Hc' Hp') as Hr.
        rewrite Ea, Eb in Hr. cbn [fst snd] in Hr. unfold to_wr.
        destruct (phys (k_fw k) (k_fh k) (k_madctl k) c' p') as [cx cy]. cbn [fst snd] in Hr.
        exists cx, cy. split; [reflexivity | exact Hr].
      * intros cx cy Hx Hy.
        destruct (phys_onto_rect (k_fw k) (k_fh k) (k_madctl k) (k_sc k) (k_sp k) (k_ec k) (k_ep k) cx cy Hw Hh)
          as (c' & p' & Hc' & Hp' & Eph).
        { rewrite Ea, Eb. exact Hx. } { rewrite Ea, Eb. exact Hy. }
        apply HL. exists c', p'. split; [exact Hc'|]. split; [exact Hp'|].
        unfold to_wr. rewrite Eph. reflexivity.
    + destruct (c <=? 4096).
      * rewrite fold_seq_repeat. apply keq_refl.
      * exfalso. exact (list_neq_cons _ _ Hfl).
  - destruct (Z.eqb_spec c 0) as [E0|E0]; [subst c; apply keq_refl|].
    exfalso. exact (list_neq_cons _ _ Hfl).
Qed.

(* ---- any trace the controller accepts without raising an anomaly shows the same picture when its
        repeats are replaced by streams ---- *)
Lemma normalise_run_keq : forall (t : list event) (k1 k : ctl),
  keq k1 k -> k_flags (ctl_run k t) = k_flags k ->
  keq (ctl_run k1 (normalise t)) (ctl_run k t).
Proof.
  induction t as [|e t IH]; intros k1 k Hk Hfl; [exact Hk|].
  cbn [normalise map ctl_run fold_left] in *. fold (normalise t). fold (ctl_run (ctl_step k e) t) in Hfl.
  fold (ctl_run (ctl_step k e) t). fold (ctl_run (ctl_step k1 (normalise_event e)) (normalise t)).
  destruct (fsuf_squeeze k (ctl_step k e) (ctl_run (ctl_step k e) t)
                         (ctl_step_fsuf k e) (ctl_run_fsuf t (ctl_step k e)) Hfl) as [Hstep Hrest].
  apply IH; [|exact Hrest].
  destruct e as [op args|px|ws c|ns| |]; try (apply ctl_step_keq; exact Hk).
  cbn [normalise_event].
  apply (keq_trans _ (ctl_step k (EPixels (repeat ws (Z.to_nat c))))).
  - apply ctl_step_keq. exact Hk.
  - cbn [ctl_step] in *. apply write_repeat_as_stream. exact Hstep.
Qed.

Theorem normalise_unflagged : forall (t : list event) (k : ctl),
  k_flags (ctl_run k t) = k_flags k ->
  keq (ctl_run k (normalise t)) (ctl_run k t).
Proof. intros t k. apply normalise_run_keq. apply keq_refl. Qed.

Corollary normalise_unflagged_mem : forall (t : list event) (k : ctl),
  k_flags (ctl_run k t) = k_flags k ->
  (forall x y, mem (ctl_run k (normalise t)) x y = mem (ctl_run k t) x y) /\
  k_flags (ctl_run k (normalise t)) = k_flags k.
Proof.
  intros t k Hfl. pose proof (normalise_unflagged t k Hfl) as H. split.
  - exact (proj2 H).
  - rewrite (keq_flags _ _ H). exact Hfl.
Qed.


(* ---- the two statements in the form of Proofs/CtlP.v: one window, one whole-window repeat ---- *)
Theorem repeat_as_stream_mem : forall (k : ctl) (sx ex sy ey : Z) (ws : list Z),
  k_page k = false ->
  0 <= sx -> sx <= ex -> ex <= 65535 -> ex < col_extent k ->
  0 <= sy -> sy <= ey -> ey <= 65535 -> ey < page_extent k ->
  let k3 := ctl_run k [ECmd 0x2A (be16 sx ++ be16 ex); ECmd 0x2B (be16 sy ++ be16 ey); ECmd 0x2C []] in
  let c := (ex - sx + 1) * (ey - sy + 1) in
  (forall x y, mem (ctl_run k3 [ERepeat ws c]) x y = mem (ctl_run k3 [EPixels (repeat ws (Z.to_nat c))]) x y) /\
  k_flags (ctl_run k3 [ERepeat ws c]) = k_flags k /\
  k_flags (ctl_run k3 [EPixels (repeat ws (Z.to_nat c))]) = k_flags k.
Proof.
  intros k sx ex sy ey ws Hpg H1 H2 H3 H4 H5 H6 H7 H8. cbv zeta.
  set (c := (ex - sx + 1) * (ey - sy + 1)).
  set (pre := [ECmd 0x2A (be16 sx ++ be16 ex); ECmd 0x2B (be16 sy ++ be16 ey); ECmd 0x2C []]).
  pose proof (ctl_window_repeat k sx ex sy ey ws Hpg H1 H2 H3 H4 H5 H6 H7 H8) as Hr. cbv zeta in Hr.
  destruct Hr as [Hs _]. apply same_regs_flags in Hs.
  assert (Hs' : k_flags (ctl_run k (pre ++ [ERepeat ws c])) = k_flags k) by exact Hs.
  destruct (normalise_unflagged_mem (pre ++ [ERepeat ws c]) k Hs') as [Hmem Hfl].
  change (normalise (pre ++ [ERepeat ws c])) with (pre ++ [EPixels (repeat ws (Z.to_nat c))]) in Hmem, Hfl.
  rewrite <- !ctl_run_app.
  split; [intros x y; symmetry; apply Hmem|]. split; [exact Hs' | exact Hfl].
Qed.

(* ---- whole drawing programs ---- *)
Theorem normalise_same_picture : forall (c : ctx) (ops : list pop) (st : dstate) (k : ctl),
  valid_cfg c (d_opts st) -> madctl_ok st -> ctl_matches c (d_opts st) k ->
  (1 <= c_rowcap c)%nat -> (c_rowcap c <= c_blockcap c)%nat -> prog_wf (d_opts st) ops ->
  let t := exec_trace c st ops in
  (forall x y, mem (ctl_run k (normalise t)) x y = mem (ctl_run k t) x y) /\
  k_flags (ctl_run k (normalise t)) = k_flags k.
Proof.
  intros c ops st k Hv Hmad Hm Hcap Hcb Hwf. cbv zeta.
  pose proof (exec_draw_program c ops st k Hv Hmad Hm Hcap Hcb Hwf) as H. cbv zeta in H.
  destruct H as (_ & _ & Hfl & _).
  exact (normalise_unflagged_mem _ k Hfl).
Qed.

(* ============================================================================================== *)
(* 6. the picture at pin level is the picture at the Interface boundary                           *)
(* ============================================================================================== *)

(* any L1 trace the controller accepts without anomaly, over SPI *)
Theorem pin_level_mem_spi : forall (t : list event) (k : ctl) (n : Z) (buf : list Z) (dc0 : bool),
  k_flags (ctl_run k t) = k_flags k ->
  1 <= n -> n <= Z.of_nat (length buf) -> Z.of_nat (length buf) / n < 2 ^ 32 ->
  Forall (event_pixels_wf n) t -> framed (Z.to_nat n) t ->
  (dc0 = true \/ exists op args t', t = ECmd op args :: t') ->
  let '(l2, _, r) := spi_run true n buf t in
  r = Ok tt /\
  let k' := ctl_run k (decode_items (Z.to_nat n) None [] (wire_spi dc0 l2)) in
  (forall x y, mem k' x y = mem (ctl_run k t) x y) /\ k_flags k' = k_flags k.
Proof.
  intros t k n buf dc0 Hfl Hn Hlen Hcap Hwf Hfr Hdc.
  pose proof (decode_spi_transparent n buf t dc0 Hn Hlen Hcap Hwf Hdc Hfr) as H.
  destruct (spi_run true n buf t) as [[l2 b2] r]. destruct H as [Hr Hdec].
  split; [exact Hr|]. cbv zeta. rewrite Hdec. exact (normalise_unflagged_mem t k Hfl).
Qed.

(* ... and over the parallel bus *)
Theorem pin_level_mem_par : forall (t : list event) (k : ctl) (w : nat) (md : mode) (n : nat)
                                   (last : option Z) (st : lines),
  k_flags (ctl_run k t) = k_flags k ->
  (8 <= w)%nat -> (1 <= n)%nat -> Forall (words_in_range w) t -> bus_inv w (last, l_pins st) ->
  (l_dc st = true \/ exists op args t', t = ECmd op args :: t') ->
  framed n t ->
  let '(l2, _, r) := par_run true md w last t in
  r = Ok tt /\
  let k' := ctl_run k (decode_items n None [] (wire_par st l2)) in
  (forall x y, mem k' x y = mem (ctl_run k t) x y) /\ k_flags k' = k_flags k.
Proof.
  intros t k w md n last st Hfl Hw Hn Hall Hinv Hdc Hfr.
  pose proof (decode_par_transparent w md n t last st Hw Hn Hall Hinv Hdc Hfr) as H.
  destruct (par_run true md w last t) as [[l2 l'] r]. destruct H as [Hr Hdec].
  split; [exact Hr|]. cbv zeta. rewrite Hdec. exact (normalise_unflagged_mem t k Hfl).
Qed.


(* ============================================================================================== *)
(* 7. the traffic of a well-formed drawing program satisfies the hypotheses of both transports    *)
(* ============================================================================================== *)

(* a pixel event carrying encoded colours; a repeat count fits u32 *)
Definition pix_ok (c : ctx) (e : event) : Prop :=
  match e with
  | EPixels px => Forall (fun p => exists col, p = c_enc c col) px
  | ERepeat p n => (exists col, p = c_enc c col) /\ 0 <= n < 2 ^ 32
  | _ => False
  end.

(* (CASET RASET RAMWR PIX | MADCTL)* with 16-bit window coordinates *)
Inductive driver_trace (c : ctx) : list event -> Prop :=
| dt_nil : driver_trace c []
| dt_burst v1 v2 v3 v4 e t :
    0 <= v1 <= 65535 -> 0 <= v2 <= 65535 -> 0 <= v3 <= 65535 -> 0 <= v4 <= 65535 -> pix_ok c e ->
    driver_trace c t ->
    driver_trace c (ECmd 0x2A (be16 v1 ++ be16 v2) :: ECmd 0x2B (be16 v3 ++ be16 v4) :: ECmd 0x2C [] :: e :: t)
| dt_madctl m t : 0 <= m < 256 -> driver_trace c t -> driver_trace c (ECmd 0x36 [m] :: t).

Lemma driver_trace_app c a b : driver_trace c a -> driver_trace c b -> driver_trace c (a ++ b).
Proof.
  intros Ha Hb. induction Ha as [|v1 v2 v3 v4 e t H1 H2 H3 H4 He Ht IH|m t Hm Ht IH].
  - exact Hb.
  - cbn [app]. apply dt_burst; assumption.
  - cbn [app]. apply dt_madctl; assumption.
Qed.

Definition wdt (c : ctx) (w : W unit) : Prop := snd w = Ok tt /\ driver_trace c (fst w).

Lemma wdt_ret c : wdt c (wret tt).
Proof. split; [reflexivity | constructor]. Qed.

Lemma wdt_bind c w1 w2 : wdt c w1 -> wdt c w2 -> wdt c (wbind w1 (fun _ => w2)).
Proof.
  intros [R1 T1] [R2 T2]. destruct w1 as [t1 r1]. destruct w2 as [t2 r2]. cbn [fst snd] in *. subst r1 r2.
  split; [reflexivity|]. cbn [wbind fst]. apply driver_trace_app; assumption.
Qed.

Lemma burst_driver_trace c o sx sy ex ey e :
  valid_cfg c o -> 0 <= sx <= ex -> ex < fst (lsize o) -> 0 <= sy <= ey -> ey < snd (lsize o) -> pix_ok c e ->
  driver_trace c (burst c o sx sy ex ey e).
Proof.
  intros Hv Hx Hex Hy Hey He.
  pose proof (win_off_bounds c o Hv) as Hb. unfold burst.
  destruct (win_off c o) as [dx dy]. destruct (lsize o) as [lw lh]. cbn [fst snd] in *.
  destruct Hb as (Hdx & Hdy & Hbx & Hby).
  destruct Hv as (Hw & Hh & Hox & Hoy & HW & HFW & HH & HFH).
  assert (Hcx : dx + lw <= 65535) by (destruct (swap _); lia).
  assert (Hcy : dy + lh <= 65535) by (destruct (swap _); lia).
  apply dt_burst; try lia; [exact He | constructor].
Qed.

Lemma pix_ok_pixels c cs : pix_ok c (EPixels (map (c_enc c) cs)).
Proof.
  cbn [pix_ok]. apply Forall_forall. intros p Hp. apply in_map_iff in Hp.
  destruct Hp as (col & E & _). exists col. symmetry. exact E.
Qed.

Lemma wdt_set_pixels c o sx sy ex ey cs :
  valid_cfg c o -> 0 <= sx <= ex -> ex < fst (lsize o) -> 0 <= sy <= ey -> ey < snd (lsize o) ->
  wdt c (set_pixels c o sx sy ex ey cs).
Proof.
  intros Hv Hx Hex Hy Hey. rewrite (set_pixels_trace c o sx sy ex ey cs Hv Hx Hex Hy Hey).
  split; [reflexivity|]. cbn [fst]. apply burst_driver_trace; try assumption. apply pix_ok_pixels.
Qed.

Lemma wdt_fill_window c o sx sy ex ey col :
  valid_cfg c o -> 0 <= sx <= ex -> ex < fst (lsize o) -> 0 <= sy <= ey -> ey < snd (lsize o) ->
  wdt c (wdo _ <- set_address_window c o sx sy ex ey;
         wdo _ <- wemit (write_command WriteMemoryStart);
         ([ERepeat (c_enc c col) ((ex - sx + 1) * (ey - sy + 1))], Ok tt)).
Proof.
  intros Hv Hx Hex Hy Hey.
  assert (Hpix : pix_ok c (ERepeat (c_enc c col) ((ex - sx + 1) * (ey - sy + 1)))).
  { destruct (lsize o) as [lw lh] eqn:Hls. destruct (valid_cfg_lsize c o lw lh Hv Hls) as [Hlw Hlh].
    cbn [fst snd] in *. cbn [pix_ok]. split; [exists col; reflexivity|].
    change (2 ^ 32) with 4294967296. nia. }
  pose proof (burst_driver_trace c o sx sy ex ey _ Hv Hx Hex Hy Hey Hpix) as Hdt.
  pose proof (set_address_window_ok c o sx sy ex ey Hv Hx Hex Hy Hey) as Hw.
  unfold burst in Hdt. destruct (win_off c o) as [dx dy]. cbn [fst snd] in Hdt.
  rewrite Hw, write_command_spec. cbn [wemit wbind app instruction params].
  split; [reflexivity | exact Hdt].
Qed.

Lemma wdt_draw_each c o : valid_cfg c o ->
  forall ps : list pixel, Forall (pixel_inside (fst (lsize o)) (snd (lsize o))) ps -> wdt c (draw_each c o ps).
Proof.
  intros Hv. destruct (lsize o) as [lw lh] eqn:Hls.
  destruct (valid_cfg_lsize c o lw lh Hv Hls) as [Hlw Hlh]. cbn [fst snd].
  induction ps as [|[[x y] col] ps IH]; intros Hin.
  - apply wdt_ret.
  - inversion Hin as [|q0 ps0 Hq Hps]; subst q0 ps0. destruct Hq as [Hx Hy].
    cbn [draw_each]. rewrite !cast16 by lia.
    apply wdt_bind; [|exact (IH Hps)].
    apply (wdt_set_pixels c o x y x y [col] Hv); rewrite ?Hls; cbn [fst snd]; lia.
Qed.

Lemma wdt_draw_blocks c o (bcap : nat) : valid_cfg c o ->
  forall bs : list pblock,
    Forall (block_ok bcap) bs -> Forall (block_inside (fst (lsize o)) (snd (lsize o))) bs ->
    wdt c (draw_blocks c o bs).
Proof.
  intros Hv. induction bs as [|b bs IH]; intros Hok Hin.
  - apply wdt_ret.
  - inversion Hok as [|b0 bs0 Hb Hbs]; subst b0 bs0.
    inversion Hin as [|b0 bs0 Ib Ibs]; subst b0 bs0.
    destruct Hb as (Bl & Bc & Bx0 & Bx1 & Bx2 & By0 & By1 & By2). destruct Ib as (Ix0 & Ix1 & Iy0 & Iy1).
    cbn [draw_blocks]. apply wdt_bind; [|exact (IH Hbs Ibs)].
    apply (wdt_set_pixels c o (bxl b) (byt b) (bxr b) (byb b) (bcs b) Hv); lia.
Qed.

Lemma wdt_draw_iter c o (ps : list pixel) :
  valid_cfg c o -> (1 <= c_rowcap c)%nat -> (c_rowcap c <= c_blockcap c)%nat -> wdt c (draw_iter c o ps).
Proof.
  intros Hv Hcap Hcb.
  set (fs := filter (in_bbox o) ps).
  assert (Hin : Forall (pixel_inside (fst (lsize o)) (snd (lsize o))) fs).
  { apply Forall_forall. intros q Hq. apply filter_In in Hq. apply in_bbox_inside. exact (proj2 Hq). }
  unfold draw_iter. fold fs. destruct (c_batch c) eqn:Eb.
  - destruct (lsize o) as [lw lh] eqn:Hls.
    destruct (valid_cfg_lsize c o lw lh Hv Hls) as [Hlw Hlh]. cbn [fst snd] in Hin.
    assert (Hr : Forall in_range fs).
    { apply Forall_forall. intros [[x y] col] Hq.
      pose proof (proj1 (Forall_forall _ _) Hin _ Hq) as Hq'. unfold pixel_inside in Hq'.
      unfold in_range. lia. }
    destruct (batch_flatten (c_md c) (c_rowcap c) (c_blockcap c) fs Hcap Hcb Hr) as (bs & Hbs & Hpix & Hok).
    destruct (blocks_inside (c_md c) (c_rowcap c) (c_blockcap c) fs lw lh Hcap Hcb Hr Hin) as (bs' & Hbs' & Hbin).
    rewrite Hbs in Hbs'. injection Hbs' as Ebs. subst bs'. rewrite Hbs.
    apply wdt_bind; [|apply wdt_ret].
    apply (wdt_draw_blocks c o (c_blockcap c) Hv bs Hok). rewrite Hls. exact Hbin.
  - exact (wdt_draw_each c o Hv fs Hin).
Qed.

Lemma wdt_fill_solid c o (r : rect) (col : Z) : valid_cfg c o -> rect_valid r -> wdt c (fill_solid c o r col).
Proof.
  intros Hv Hr. destruct (lsize o) as [lw lh] eqn:Hls.
  destruct (valid_cfg_lsize c o lw lh Hv Hls) as [Hlw Hlh].
  rewrite (fill_solid_clip c o r lw lh col Hr Hlw Hlh Hls).
  destruct (visible r lw lh) eqn:Hvis; [|apply wdt_ret].
  pose proof (visible_bounds r lw lh Hvis) as Hb.
  replace ((vx1 r lw - vx0 r) * (vy1 r lh - vy0 r))
    with ((vx1 r lw - 1 - vx0 r + 1) * (vy1 r lh - 1 - vy0 r + 1)) by ring.
  apply wdt_fill_window; [exact Hv| | | |]; rewrite ?Hls; cbn [fst snd]; lia.
Qed.

Lemma wdt_fill_contig c o (r : rect) (cs : list Z) :
  valid_cfg c o -> rect_valid r -> rw r * rh r < 2 ^ 32 -> wdt c (fill_contiguous c o r cs).
Proof.
  intros Hv Hr Harea. destruct (lsize o) as [lw lh] eqn:Hls.
  destruct (valid_cfg_lsize c o lw lh Hv Hls) as [Hlw Hlh].
  rewrite (fill_contiguous_clip c o r lw lh cs Hr Hlw Hlh Hls Harea).
  destruct (visible r lw lh) eqn:Hvis; [|apply wdt_ret].
  pose proof (visible_bounds r lw lh Hvis) as Hb.
  apply wdt_set_pixels; [exact Hv| | | |]; rewrite ?Hls; cbn [fst snd]; lia.
Qed.

Lemma op_driver_trace c o op :
  valid_cfg c o -> (1 <= c_rowcap c)%nat -> (c_rowcap c <= c_blockcap c)%nat ->
  op_wf o op -> is_draw op = true -> wdt c (op_w c o op).
Proof.
  intros Hv Hcap Hcb Hwf Hd. unfold op_wf in Hwf.
  destruct (lsize o) as [lw lh] eqn:Hls.
  destruct (valid_cfg_lsize c o lw lh Hv Hls) as [Hlw Hlh].
  destruct op as [x y col|sx sy ex ey cs|ps|r cs|r n|r col|col|x|t b|off|t| |]; try discriminate Hd;
    cbn [op_w].
  - apply wdt_set_pixels; [exact Hv| | | |]; rewrite ?Hls; cbn [fst snd]; lia.
  - destruct Hwf as (H1 & H2 & H3 & H4 & H5).
    apply wdt_set_pixels; [exact Hv| | | |]; rewrite ?Hls; cbn [fst snd]; lia.
  - apply wdt_draw_iter; assumption.
  - destruct Hwf as [Hr Ha]. apply wdt_fill_contig; assumption.
  - destruct Hwf as (Hr & Ha & _). apply wdt_fill_contig; assumption.
  - apply wdt_fill_solid; assumption.
  - unfold clear. rewrite (bounding_box_lsize o lw lh Hls).
    apply wdt_fill_solid; [exact Hv | apply rect_valid_bbox; assumption].
Qed.

Lemma madctl_of_opts_range o : 0 <= madctl_of_opts o < 256.
Proof.
  unfold madctl_of_opts.
  destruct (o_bgr o), (o_orient o) as [[] []], (o_btt o), (o_rtl o);
    (split; [apply Z.leb_le | apply Z.ltb_lt]; vm_compute; reflexivity).
Qed.

Theorem exec_driver_trace c : forall ops st,
  valid_cfg c (d_opts st) -> madctl_ok st ->
  (1 <= c_rowcap c)%nat -> (c_rowcap c <= c_blockcap c)%nat -> prog_wf (d_opts st) ops ->
  driver_trace c (exec_trace c st ops).
Proof.
  induction ops as [|op ops IH]; intros st Hv Hmad Hcap Hcb Hwf; [constructor|].
  destruct Hwf as [Hop Hrest]. rewrite exec_trace_cons.
  pose proof (step_draw_decode c st (ctl_for c (d_opts st)) op Hv Hmad (ctl_for_matches _ _) Hcap Hcb Hop) as HA.
  cbv zeta in HA. destruct HA as (_ & Hst & _ & _ & _ & Hv1 & Hmad1 & _).
  destruct (op_post_facts st op) as (Eo & _).
  assert (Hwf1 : prog_wf (d_opts (snd (step c st op))) ops) by (rewrite Hst, Eo; exact Hrest).
  apply driver_trace_app; [|exact (IH _ Hv1 Hmad1 Hcap Hcb Hwf1)].
  destruct (is_draw op) eqn:Hd.
  - rewrite (step_draw c st op Hd). cbn [fst].
    exact (proj2 (op_driver_trace c (d_opts st) op Hv Hcap Hcb Hop Hd)).
  - destruct op as [x y col|sx sy ex ey cs|ps|r cs|r n|r col|col|x|t b|off|t| |]; try discriminate Hd;
      try (unfold op_wf in Hop; destruct (lsize (d_opts st)); contradiction).
    rewrite (step_set_orient_ok c st x Hmad). cbn [fst].
    apply dt_madctl; [apply madctl_of_opts_range | constructor].
Qed.

(* ---- what a driver trace gives each transport ---- *)
Lemma driver_trace_head c t : driver_trace c t -> t = [] \/ exists op args t', t = ECmd op args :: t'.
Proof.
  intros H. destruct H as [|v1 v2 v3 v4 e t H1 H2 H3 H4 He Ht|m t Hm Ht]; [left; reflexivity| |];
    right; eexists; eexists; eexists; reflexivity.
Qed.

Lemma driver_trace_framed c (n : nat) t :
  (forall col, length (c_enc c col) = n) -> driver_trace c t -> framed n t.
Proof.
  intros Henc H. induction H as [|v1 v2 v3 v4 e t H1 H2 H3 H4 He Ht IH|m t Hm Ht IH].
  - constructor.
  - apply fr_cmd; [discriminate|]. apply fr_cmd; [discriminate|].
    destruct e as [op args|px|p cnt|ns| |]; cbn [pix_ok] in He; try contradiction.
    + apply fr_px; [|exact IH]. apply Forall_forall. intros p Hp.
      destruct (proj1 (Forall_forall _ _) He p Hp) as (col & ->). apply Henc.
    + destruct He as [(col & ->) Hc]. apply fr_rep; [apply Henc | lia | exact IH].
  - apply fr_cmd; [discriminate | exact IH].
Qed.

Lemma driver_trace_pixels_wf c (n : Z) t :
  (forall col, Z.of_nat (length (c_enc c col)) = n) -> driver_trace c t -> Forall (event_pixels_wf n) t.
Proof.
  intros Henc H. induction H as [|v1 v2 v3 v4 e t H1 H2 H3 H4 He Ht IH|m t Hm Ht IH].
  - constructor.
  - constructor; [exact I|]. constructor; [exact I|]. constructor; [exact I|]. constructor; [|exact IH].
    destruct e as [op args|px|p cnt|ns| |]; cbn [pix_ok] in He; try contradiction; cbn [event_pixels_wf].
    + apply Forall_forall. intros p Hp.
      destruct (proj1 (Forall_forall _ _) He p Hp) as (col & ->). apply Henc.
    + destruct He as [(col & ->) Hc]. split; [apply Henc | exact Hc].
  - constructor; [exact I | exact IH].
Qed.

Lemma be16_range v : 0 <= v <= 65535 -> Forall (fun a => 0 <= a < 256) (be16 v).
Proof.
  intros Hv. unfold be16. constructor; [|constructor; [|constructor]].
  - split; [apply Z.div_pos; lia | apply Z.div_lt_upper_bound; lia].
  - apply Z.mod_pos_bound. lia.
Qed.

Lemma driver_trace_in_range c (w : nat) t :
  (forall col, Forall (fun x => 0 <= x < 2 ^ Z.of_nat w) (c_enc c col)) ->
  driver_trace c t -> Forall (words_in_range w) t.
Proof.
  intros Henc H. induction H as [|v1 v2 v3 v4 e t H1 H2 H3 H4 He Ht IH|m t Hm Ht IH].
  - constructor.
  - constructor; [cbn [words_in_range]; split; [lia | apply Forall_app; split; apply be16_range; assumption]|].
    constructor; [cbn [words_in_range]; split; [lia | apply Forall_app; split; apply be16_range; assumption]|].
    constructor; [cbn [words_in_range]; split; [lia | constructor]|].
    constructor; [|exact IH].
    destruct e as [op args|px|p cnt|ns| |]; cbn [pix_ok] in He; try contradiction; cbn [words_in_range].
    + apply Forall_forall. intros p Hp.
      destruct (proj1 (Forall_forall _ _) He p Hp) as (col & ->). apply Henc.
    + destruct He as [(col & ->) Hc]. split; [apply Henc | exact Hc].
  - constructor; [|exact IH]. cbn [words_in_range]. split; [lia|]. constructor; [exact Hm | constructor].
Qed.


(* ============================================================================================== *)
(* 8. C01 at pin level, for every transport                                                       *)
(* ============================================================================================== *)

(* empty or command-headed traffic: the initial DC level does not matter *)
Lemma decode_spi_transparent_any_dc : forall c n buf t dc0,
  driver_trace c t ->
  1 <= n -> n <= Z.of_nat (length buf) -> Z.of_nat (length buf) / n < 2 ^ 32 ->
  Forall (event_pixels_wf n) t -> framed (Z.to_nat n) t ->
  let '(ops, _, r) := spi_run true n buf t in
  r = Ok tt /\ decode_items (Z.to_nat n) None [] (wire_spi dc0 ops) = normalise t.
Proof.
  intros c n buf t dc0 Hdt Hn Hlen Hcap Hwf Hfr.
  destruct (driver_trace_head c t Hdt) as [->|Hcmd].
  - cbn [spi_run]. split; reflexivity.
  - apply decode_spi_transparent; try assumption. right. exact Hcmd.
Qed.

Lemma decode_par_transparent_any_dc : forall c (w : nat) (md : mode) (n : nat) t (last : option Z) (st : lines),
  driver_trace c t ->
  (8 <= w)%nat -> (1 <= n)%nat -> Forall (words_in_range w) t -> bus_inv w (last, l_pins st) -> framed n t ->
  let '(ops, _, r) := par_run true md w last t in
  r = Ok tt /\ decode_items n None [] (wire_par st ops) = normalise t.
Proof.
  intros c w md n t last st Hdt Hw Hn Hall Hinv Hfr.
  destruct (driver_trace_head c t Hdt) as [->|Hcmd].
  - cbn [par_run]. split; reflexivity.
  - apply decode_par_transparent; try assumption. right. exact Hcmd.
Qed.

(* SPI: n bytes per pixel, any staging buffer holding at least one pixel, any stale content, any DC level *)
Theorem pin_level_picture_spi : forall (c : ctx) (ops : list pop) (st : dstate) (k : ctl)
                                       (n : Z) (buf : list Z) (dc0 : bool),
  valid_cfg c (d_opts st) -> madctl_ok st -> ctl_matches c (d_opts st) k ->
  (1 <= c_rowcap c)%nat -> (c_rowcap c <= c_blockcap c)%nat -> prog_wf (d_opts st) ops ->
  (forall col, Z.of_nat (length (c_enc c col)) = n) ->
  1 <= n -> n <= Z.of_nat (length buf) -> Z.of_nat (length buf) / n < 2 ^ 32 ->
  let o := d_opts st in
  let t := exec_trace c st ops in
  let '(l2, _, r) := spi_run true n buf t in
  r = Ok tt /\
  let k' := ctl_run k (decode_items (Z.to_nat n) None [] (wire_spi dc0 l2)) in
  (forall x y,
     mem k' x y = mem (ctl_run k t) x y /\
     mem k' x y = last_write (spec_prog_writes (c_enc c) (panel_of o) (o_orient o) ops) x y (mem k x y)) /\
  k_flags k' = k_flags k.
Proof.
  intros c ops st k n buf dc0 Hv Hmad Hm Hcap Hcb Hwf Henc Hn Hlen Hcap32. cbv zeta.
  pose proof (exec_driver_trace c ops st Hv Hmad Hcap Hcb Hwf) as Hdt.
  assert (Henc' : forall col, length (c_enc c col) = Z.to_nat n) by (intros col; rewrite <- (Henc col); lia).
  pose proof (decode_spi_transparent_any_dc c n buf _ dc0 Hdt Hn Hlen Hcap32
                (driver_trace_pixels_wf c n _ Henc Hdt) (driver_trace_framed c (Z.to_nat n) _ Henc' Hdt)) as H.
  destruct (spi_run true n buf (exec_trace c st ops)) as [[l2 b2] r]. destruct H as [Hr Hdec].
  split; [exact Hr|]. rewrite Hdec.
  destruct (normalise_same_picture c ops st k Hv Hmad Hm Hcap Hcb Hwf) as [Hmem Hfl].
  split; [|exact Hfl]. intros x y. split; [apply Hmem|]. rewrite Hmem.
  exact (proj1 (mem_last_write_wins c ops st k x y Hv Hmad Hm Hcap Hcb Hwf)).
Qed.

(* parallel bus of width w >= 8, n bus words per pixel, any cache state consistent with the pins *)
Theorem pin_level_picture_par : forall (c : ctx) (ops : list pop) (st : dstate) (k : ctl)
                                       (w : nat) (md : mode) (n : nat) (last : option Z) (lst : lines),
  valid_cfg c (d_opts st) -> madctl_ok st -> ctl_matches c (d_opts st) k ->
  (1 <= c_rowcap c)%nat -> (c_rowcap c <= c_blockcap c)%nat -> prog_wf (d_opts st) ops ->
  (8 <= w)%nat -> (1 <= n)%nat ->
  (forall col, length (c_enc c col) = n) ->
  (forall col, Forall (fun x => 0 <= x < 2 ^ Z.of_nat w) (c_enc c col)) ->
  bus_inv w (last, l_pins lst) ->
  let o := d_opts st in
  let t := exec_trace c st ops in
  let '(l2, _, r) := par_run true md w last t in
  r = Ok tt /\
  let k' := ctl_run k (decode_items n None [] (wire_par lst l2)) in
  (forall x y,
     mem k' x y = mem (ctl_run k t) x y /\
     mem k' x y = last_write (spec_prog_writes (c_enc c) (panel_of o) (o_orient o) ops) x y (mem k x y)) /\
  k_flags k' = k_flags k.
Proof.
  intros c ops st k w md n last lst Hv Hmad Hm Hcap Hcb Hwf Hw Hn Henc Hrng Hinv. cbv zeta.
  pose proof (exec_driver_trace c ops st Hv Hmad Hcap Hcb Hwf) as Hdt.
  pose proof (decode_par_transparent_any_dc c w md n _ last lst Hdt Hw Hn
                (driver_trace_in_range c w _ Hrng Hdt) Hinv (driver_trace_framed c n _ Henc Hdt)) as H.
  destruct (par_run true md w last (exec_trace c st ops)) as [[l2 l'] r]. destruct H as [Hr Hdec].
  split; [exact Hr|]. rewrite Hdec.
  destruct (normalise_same_picture c ops st k Hv Hmad Hm Hcap Hcb Hwf) as [Hmem Hfl].
  split; [|exact Hfl]. intros x y. split; [apply Hmem|]. rewrite Hmem.
  exact (proj1 (mem_last_write_wins c ops st k x y Hv Hmad Hm Hcap Hcb Hwf)).
Qed.

Corollary pin_level_picture_par_8 : forall (c : ctx) (ops : list pop) (st : dstate) (k : ctl)
                                           (md : mode) (n : nat) (last : option Z) (lst : lines),
  valid_cfg c (d_opts st) -> madctl_ok st -> ctl_matches c (d_opts st) k ->
  (1 <= c_rowcap c)%nat -> (c_rowcap c <= c_blockcap c)%nat -> prog_wf (d_opts st) ops ->
  (1 <= n)%nat ->
  (forall col, length (c_enc c col) = n) ->
  (forall col, Forall (fun x => 0 <= x < 2 ^ Z.of_nat 8) (c_enc c col)) ->
  bus_inv 8 (last, l_pins lst) ->
  let o := d_opts st in
  let t := exec_trace c st ops in
  let '(l2, _, r) := par_run true md 8 last t in
  r = Ok tt /\
  let k' := ctl_run k (decode_items n None [] (wire_par lst l2)) in
  (forall x y,
     mem k' x y = mem (ctl_run k t) x y /\
     mem k' x y = last_write (spec_prog_writes (c_enc c) (panel_of o) (o_orient o) ops) x y (mem k x y)) /\
  k_flags k' = k_flags k.
Proof.
  intros c ops st k md n last lst Hv Hmad Hm Hcap Hcb Hwf.
  apply (pin_level_picture_par c ops st k 8 md n last lst Hv Hmad Hm Hcap Hcb Hwf). lia.
Qed.

Corollary pin_level_picture_par_16 : forall (c : ctx) (ops : list pop) (st : dstate) (k : ctl)
                                            (md : mode) (last : option Z) (lst : lines),
  valid_cfg c (d_opts st) -> madctl_ok st -> ctl_matches c (d_opts st) k ->
  (1 <= c_rowcap c)%nat -> (c_rowcap c <= c_blockcap c)%nat -> prog_wf (d_opts st) ops ->
  (forall col, length (c_enc c col) = 1%nat) ->
  (forall col, Forall (fun x => 0 <= x < 2 ^ Z.of_nat 16) (c_enc c col)) ->
  bus_inv 16 (last, l_pins lst) ->
  let o := d_opts st in
  let t := exec_trace c st ops in
  let '(l2, _, r) := par_run true md 16 last t in
  r = Ok tt /\
  let k' := ctl_run k (decode_items 1 None [] (wire_par lst l2)) in
  (forall x y,
     mem k' x y = mem (ctl_run k t) x y /\
     mem k' x y = last_write (spec_prog_writes (c_enc c) (panel_of o) (o_orient o) ops) x y (mem k x y)) /\
  k_flags k' = k_flags k.
Proof.
  intros c ops st k md last lst Hv Hmad Hm Hcap Hcb Hwf.
  apply (pin_level_picture_par c ops st k 16 md 1 last lst Hv Hmad Hm Hcap Hcb Hwf); lia.
Qed.


(* the three facts the transports ask of the traffic, in one statement *)
Theorem exec_traffic_wf : forall (c : ctx) (ops : list pop) (st : dstate),
  valid_cfg c (d_opts st) -> madctl_ok st ->
  (1 <= c_rowcap c)%nat -> (c_rowcap c <= c_blockcap c)%nat -> prog_wf (d_opts st) ops ->
  let t := exec_trace c st ops in
  (t = [] \/ exists op args t', t = ECmd op args :: t') /\
  (forall n : nat, (forall col, length (c_enc c col) = n) -> framed n t) /\
  (forall n : Z, (forall col, Z.of_nat (length (c_enc c col)) = n) -> Forall (event_pixels_wf n) t) /\
  (forall w : nat, (forall col, Forall (fun x => 0 <= x < 2 ^ Z.of_nat w) (c_enc c col)) ->
                   Forall (words_in_range w) t).
Proof.
  intros c ops st Hv Hmad Hcap Hcb Hwf. cbv zeta.
  pose proof (exec_driver_trace c ops st Hv Hmad Hcap Hcb Hwf) as Hdt.
  split; [exact (driver_trace_head c _ Hdt)|].
  split; [intros n Henc; exact (driver_trace_framed c n _ Henc Hdt)|].
  split; [intros n Henc; exact (driver_trace_pixels_wf c n _ Henc Hdt)|].
  intros w Hrng. exact (driver_trace_in_range c w _ Hrng Hdt).
Qed.

Print Assumptions decode_items_of.
Print Assumptions wire_spi_run.
Print Assumptions wire_par_run.
Print Assumptions decode_spi_transparent.
Print Assumptions decode_par_transparent.
Print Assumptions write_repeat_as_stream.
Print Assumptions normalise_unflagged_mem.
Print Assumptions repeat_as_stream_mem.
Print Assumptions normalise_same_picture.
Print Assumptions exec_traffic_wf.
Print Assumptions pin_level_picture_spi.
Print Assumptions pin_level_picture_par.
