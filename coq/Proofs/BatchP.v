(* BatchP.v — the pixel batcher (src/batch.rs: RowIterator, BlockIterator): the emitted rows and
   blocks flatten back to exactly the input pixel stream, every row / block is a well-formed
   rectangle within capacity, neither `expect("never")` nor the `y_bottom + 1` overflow fires,
   Debug and Release agree, blocks stay inside the bounding box of the input, and the number of
   rows is the sum over maximal left-to-right runs of ceil(run / cap). *)
Require Import Model.Base Model.Batch.
Open Scope Z_scope.

(* ---------------------------------------------------------------- specification side *)

(* pixels a row / block stands for, in the order the controller will receive them *)
Fixpoint row_pixels_from (x y : Z) (cs : list Z) : list pixel :=
  match cs with [] => [] | c :: cs' => (x, y, c) :: row_pixels_from (x + 1) y cs' end.
Definition row_pixels (r : prow) : list pixel := row_pixels_from (rxl r) (ryy r) (rcs r).

(* a block is `rows` rows of width `w` starting at (xl, y): row-major *)
Fixpoint block_pixels_from (xl y : Z) (w : nat) (rows : nat) (cs : list Z) : list pixel :=
  match rows with
  | O => []
  | S r' => row_pixels_from xl y (firstn w cs) ++ block_pixels_from xl (y + 1) w r' (skipn w cs)
  end.
Definition block_pixels (b : pblock) : list pixel :=
  block_pixels_from (bxl b) (byt b) (Z.to_nat (bxr b - bxl b + 1)) (Z.to_nat (byb b - byt b + 1)) (bcs b).

Definition in_range (p : pixel) : Prop := let '(x, y, _) := p in 0 <= x <= 65534 /\ 0 <= y <= 65534.

Definition row_ok (cap : nat) (r : prow) : Prop :=
  Z.of_nat (length (rcs r)) = rxr r - rxl r + 1 /\ (1 <= length (rcs r) <= cap)%nat /\
  0 <= rxl r /\ rxr r <= 65534 /\ 0 <= ryy r <= 65534.

Definition block_ok (bcap : nat) (b : pblock) : Prop :=
  Z.of_nat (length (bcs b)) = (bxr b - bxl b + 1) * (byb b - byt b + 1) /\ (1 <= length (bcs b) <= bcap)%nat /\
  0 <= bxl b /\ bxl b <= bxr b /\ bxr b <= 65534 /\ 0 <= byt b /\ byt b <= byb b /\ byb b <= 65534.

(* inside a logical display of lw x lh *)
Definition pixel_inside (lw lh : Z) (p : pixel) : Prop := let '(x, y, _) := p in 0 <= x < lw /\ 0 <= y < lh.
Definition block_inside (lw lh : Z) (b : pblock) : Prop :=
  0 <= bxl b /\ bxr b < lw /\ 0 <= byt b /\ byb b < lh.

(* maximal left-to-right runs of the input *)
Fixpoint run_lengths_go (prev : option (Z * Z)) (cur : nat) (ps : list pixel) : list nat :=
  match ps with
  | [] => match prev with None => [] | Some _ => [cur] end
  | (x, y, _) :: ps' =>
      match prev with
      | None => run_lengths_go (Some (x, y)) 1 ps'
      | Some (px, py) => if (x =? px + 1) && (y =? py) then run_lengths_go (Some (x, y)) (S cur) ps'
                         else cur :: run_lengths_go (Some (x, y)) 1 ps'
      end
  end.
Definition run_lengths (ps : list pixel) : list nat := run_lengths_go None 0 ps.
Definition ceil_div (a b : nat) : nat := (a + b - 1) / b.

(* ---------------------------------------------------------------- machine-integer facts *)

Lemma cast_u16_id z : 0 <= z <= 65534 -> cast_u 16 z = z.
Proof. intros Hz. unfold cast_u. apply Z.mod_small. change (2 ^ 16) with 65536. lia. Qed.

Lemma wadd1_u16_id z : 0 <= z <= 65534 -> wadd1_u16 z = z + 1.
Proof. intros Hz. unfold wadd1_u16. apply Z.mod_small. lia. Qed.

Lemma add_u16_succ md z : 0 <= z <= 65534 -> add_u md 16 z 1 = Ok (z + 1).
Proof.
  intros Hz. unfold add_u. apply chk_u_in, in_u_spec. change (2 ^ 16) with 65536. lia.
Qed.

(* ---------------------------------------------------------------- rows *)

Lemma row_pixels_from_app x y a b :
  row_pixels_from x y (a ++ b) = row_pixels_from x y a ++ row_pixels_from (x + Z.of_nat (length a)) y b.
Proof.
  revert x; induction a as [|c a IH]; intros x.
  - cbn [row_pixels_from app length]. f_equal. lia.
  - cbn [row_pixels_from app length]. rewrite IH. do 3 f_equal. lia.
Qed.

Lemma row_pixels_from_length x y cs : length (row_pixels_from x y cs) = length cs.
Proof.
  revert x; induction cs as [|c cs IH]; intros x; cbn [row_pixels_from length]; [reflexivity|].
  rewrite IH. reflexivity.
Qed.

Definition fresh_row (x y c : Z) : prow := {| rxl := x; rxr := x; ryy := y; rcs := [c] |}.
Definition ext_row (r : prow) (x c : Z) : prow :=
  {| rxl := rxl r; rxr := x; ryy := ryy r; rcs := rcs r ++ [c] |}.
Definition row_cond (cap : nat) (r : prow) (x y : Z) : bool :=
  (x =? wadd1_u16 (rxr r)) && (y =? ryy r) && (length (rcs r) <? cap)%nat.

(* for an in-range pixel: the negative-coordinate branch is dead, the casts are the identity,
   `stop` is never raised *)
Lemma row_step_inrange cap acc x y c :
  (1 <= cap)%nat -> in_range (x, y, c) ->
  row_step cap acc (x, y, c) =
    match acc with
    | None => (Some (fresh_row x y c), [], false)
    | Some r => if row_cond cap r x y then (Some (ext_row r x c), [], false)
                else (Some (fresh_row x y c), [r], false)
    end.
Proof.
  intros Hcap Hr. destruct Hr as [Hx Hy]. unfold row_step, row_cond, fresh_row, ext_row.
  replace ((x <? 0) || (y <? 0)) with false
    by (symmetry; apply orb_false_iff; split; apply Z.ltb_ge; lia).
  rewrite !cast_u16_id by lia.
  replace (0 <? cap)%nat with true by (symmetry; apply Nat.ltb_lt; lia).
  reflexivity.
Qed.

Lemma rows_go_cons cap acc x y c ps :
  (1 <= cap)%nat -> in_range (x, y, c) ->
  rows_go cap acc (@cons pixel (x, y, c) ps) =
    match acc with
    | None => rows_go cap (Some (fresh_row x y c)) ps
    | Some r => if row_cond cap r x y then rows_go cap (Some (ext_row r x c)) ps
                else r :: rows_go cap (Some (fresh_row x y c)) ps
    end.
Proof.
  intros Hcap Hr. cbn [rows_go]. rewrite (row_step_inrange cap acc x y c Hcap Hr).
  destruct acc as [r|]; [destruct (row_cond cap r x y)|]; reflexivity.
Qed.

Lemma row_cond_true cap r x y :
  0 <= rxr r <= 65534 -> row_cond cap r x y = true ->
  x = rxr r + 1 /\ y = ryy r /\ (length (rcs r) < cap)%nat.
Proof.
  intros Hxr E. unfold row_cond in E.
  apply andb_true_iff in E. destruct E as [E E3]. apply andb_true_iff in E. destruct E as [E1 E2].
  apply Z.eqb_eq in E1. apply Z.eqb_eq in E2. apply Nat.ltb_lt in E3.
  rewrite wadd1_u16_id in E1 by lia. auto.
Qed.

Lemma row_cond_false cap r x y :
  0 <= rxr r <= 65534 -> row_cond cap r x y = false ->
  ((x =? rxr r + 1) && (y =? ryy r) = false) \/ (cap <= length (rcs r))%nat.
Proof.
  intros Hxr E. unfold row_cond in E. rewrite wadd1_u16_id in E by lia.
  apply andb_false_iff in E. destruct E as [E|E]; [left; exact E|right].
  apply Nat.ltb_ge in E. exact E.
Qed.

Lemma row_ok_rxr cap r : row_ok cap r -> 0 <= rxr r <= 65534.
Proof. intros (Hl & Hc & Hx0 & Hx1 & Hy). lia. Qed.

Lemma fresh_row_ok cap x y c : (1 <= cap)%nat -> in_range (x, y, c) -> row_ok cap (fresh_row x y c).
Proof.
  intros Hcap Hr. destruct Hr as [Hx Hy]. unfold row_ok, fresh_row. cbn [rcs rxl rxr ryy length].
  lia.
Qed.

Lemma ext_row_ok cap r x y c :
  row_ok cap r -> row_cond cap r x y = true -> in_range (x, y, c) -> row_ok cap (ext_row r x c).
Proof.
  intros Hok E Hr. destruct Hr as [Hx Hy].
  destruct (row_cond_true cap r x y (row_ok_rxr cap r Hok) E) as (E1 & E2 & E3).
  destruct Hok as (Hl & Hc & Hx0 & Hx1 & Hy').
  unfold row_ok, ext_row. cbn [rcs rxl rxr ryy]. rewrite app_length. cbn [length]. lia.
Qed.

Lemma ext_row_pixels cap r x y c :
  row_ok cap r -> row_cond cap r x y = true ->
  row_pixels (ext_row r x c) = row_pixels r ++ [(x, y, c)].
Proof.
  intros Hok E.
  destruct (row_cond_true cap r x y (row_ok_rxr cap r Hok) E) as (E1 & E2 & E3).
  destruct Hok as (Hl & Hc & Hx0 & Hx1 & Hy').
  unfold row_pixels, ext_row. cbn [rcs rxl rxr ryy]. rewrite row_pixels_from_app.
  cbn [row_pixels_from]. replace (rxl r + Z.of_nat (length (rcs r))) with x by lia.
  rewrite E2. reflexivity.
Qed.

Definition orow_ok (cap : nat) (acc : option prow) : Prop :=
  match acc with None => True | Some r => row_ok cap r end.
Definition orow_pixels (acc : option prow) : list pixel :=
  match acc with None => [] | Some r => row_pixels r end.

Lemma rows_go_flatten cap acc ps :
  (1 <= cap)%nat -> Forall in_range ps -> orow_ok cap acc ->
  concat (map row_pixels (rows_go cap acc ps)) = orow_pixels acc ++ ps
  /\ Forall (row_ok cap) (rows_go cap acc ps).
Proof.
  intros Hcap. revert acc. induction ps as [|[[x y] c] ps IH]; intros acc Hps Hacc.
  - destruct acc as [r|]; cbn [rows_go map concat orow_pixels]; rewrite ?app_nil_r; auto.
  - inversion Hps as [|p0 ps0 Hp Hps']; subst p0 ps0.
    rewrite (rows_go_cons cap acc x y c ps Hcap Hp).
    pose proof (fresh_row_ok cap x y c Hcap Hp) as Hfresh.
    destruct acc as [r|].
    + cbn [orow_ok orow_pixels] in *.
      destruct (row_cond cap r x y) eqn:E.
      * destruct (IH (Some (ext_row r x c)) Hps' (ext_row_ok cap r x y c Hacc E Hp)) as [IH1 IH2].
        split; [|exact IH2]. rewrite IH1. cbn [orow_pixels].
        rewrite (ext_row_pixels cap r x y c Hacc E). rewrite <- app_assoc. reflexivity.
      * destruct (IH (Some (fresh_row x y c)) Hps' Hfresh) as [IH1 IH2].
        split; [|constructor; assumption].
        cbn [map concat]. rewrite IH1. reflexivity.
    + destruct (IH (Some (fresh_row x y c)) Hps' Hfresh) as [IH1 IH2].
      split; [|exact IH2]. rewrite IH1. reflexivity.
Qed.

(* 1. no pixel dropped, duplicated, reordered or recoloured; every row well-formed *)
Theorem rows_flatten cap ps :
  (1 <= cap)%nat -> Forall in_range ps ->
  concat (map row_pixels (rows_of cap ps)) = ps /\ Forall (row_ok cap) (rows_of cap ps).
Proof. intros Hcap Hps. exact (rows_go_flatten cap None ps Hcap Hps I). Qed.

(* ---------------------------------------------------------------- blocks *)

Lemma block_pixels_from_snoc rows : forall xl y w cs cs',
  length cs = (rows * w)%nat -> length cs' = w ->
  block_pixels_from xl y w (S rows) (cs ++ cs') =
    block_pixels_from xl y w rows cs ++ row_pixels_from xl (y + Z.of_nat rows) cs'.
Proof.
  induction rows as [|n IH]; intros xl y w cs cs' Hcs Hcs'.
  - destruct cs as [|c0 cs0]; [|cbn [length] in Hcs; lia].
    cbn [block_pixels_from app]. rewrite firstn_all2 by lia. rewrite app_nil_r.
    f_equal. cbn [Z.of_nat]. lia.
  - assert (Hw : (w <= length cs)%nat) by lia.
    change (block_pixels_from xl y w (S (S n)) (cs ++ cs')) with
      (row_pixels_from xl y (firstn w (cs ++ cs')) ++
       block_pixels_from xl (y + 1) w (S n) (skipn w (cs ++ cs'))).
    rewrite firstn_app, skipn_app.
    replace (w - length cs)%nat with O by lia.
    cbn [firstn skipn]. rewrite app_nil_r.
    rewrite IH by (rewrite ?skipn_length; lia).
    cbn [block_pixels_from]. rewrite <- app_assoc. do 3 f_equal. lia.
Qed.

Lemma block_pixels_from_one xl y cs : block_pixels_from xl y (length cs) 1 cs = row_pixels_from xl y cs.
Proof. cbn [block_pixels_from]. rewrite firstn_all. apply app_nil_r. Qed.

Definition fresh_block (r : prow) : pblock :=
  {| bxl := rxl r; bxr := rxr r; byt := ryy r; byb := ryy r; bcs := rcs r |}.
Definition ext_block (b : pblock) (r : prow) : pblock :=
  {| bxl := bxl b; bxr := bxr b; byt := byt b; byb := ryy r; bcs := bcs b ++ rcs r |}.
Definition block_cond (bcap : nat) (b : pblock) (r : prow) : bool :=
  (ryy r =? byb b + 1) && (rxl r =? bxl b) && (rxr r =? bxr b)
  && (length (bcs b) + length (rcs r) <=? bcap)%nat.

(* BlockIterator::next for one row, without the machine arithmetic and without the panics *)
Definition bstep (bcap : nat) (acc : option pblock) (r : prow) : option pblock * list pblock :=
  match acc with
  | None => (Some (fresh_block r), [])
  | Some b => if block_cond bcap b r then (Some (ext_block b r), []) else (Some (fresh_block r), [b])
  end.

Fixpoint bgo (bcap : nat) (acc : option pblock) (rs : list prow) : list pblock :=
  match rs with
  | [] => match acc with None => [] | Some b => [b] end
  | r :: rs' => let '(acc', out) := bstep bcap acc r in out ++ bgo bcap acc' rs'
  end.

Definition oblock_ok (bcap : nat) (acc : option pblock) : Prop :=
  match acc with None => True | Some b => block_ok bcap b end.
Definition oblock_pixels (acc : option pblock) : list pixel :=
  match acc with None => [] | Some b => block_pixels b end.

(* neither expect("never") nor the u16 overflow of y_bottom + 1 fires, in either profile *)
Lemma block_step_eq md cap bcap acc r :
  (cap <= bcap)%nat -> row_ok cap r -> oblock_ok bcap acc ->
  block_step md bcap acc r = Ok (bstep bcap acc r).
Proof.
  intros Hcb (Hl & Hc & Hx0 & Hx1 & Hy) Hacc. unfold block_step, bstep, block_cond.
  assert (Hfit : (length (rcs r) <=? bcap)%nat = true) by (apply Nat.leb_le; lia).
  destruct acc as [b|].
  - destruct Hacc as (Bl & Bc & Bx0 & Bx1 & Bx2 & By0 & By1 & By2).
    rewrite add_u16_succ by lia. cbn [bind]. rewrite Hfit.
    destruct ((ryy r =? byb b + 1) && (rxl r =? bxl b) && (rxr r =? bxr b)
              && (length (bcs b) + length (rcs r) <=? bcap)%nat); reflexivity.
  - rewrite Hfit. reflexivity.
Qed.

Lemma fresh_block_ok cap bcap r : (cap <= bcap)%nat -> row_ok cap r -> block_ok bcap (fresh_block r).
Proof.
  intros Hcb (Hl & Hc & Hx0 & Hx1 & Hy). unfold block_ok, fresh_block. cbn [bxl bxr byt byb bcs].
  replace (ryy r - ryy r + 1) with 1 by lia. lia.
Qed.

Lemma fresh_block_pixels cap r : row_ok cap r -> block_pixels (fresh_block r) = row_pixels r.
Proof.
  intros (Hl & Hc & Hx0 & Hx1 & Hy). unfold block_pixels, fresh_block, row_pixels.
  cbn [bxl bxr byt byb bcs].
  replace (ryy r - ryy r + 1) with 1 by lia. change (Z.to_nat 1) with 1%nat.
  replace (Z.to_nat (rxr r - rxl r + 1)) with (length (rcs r)) by lia.
  apply block_pixels_from_one.
Qed.

Lemma block_cond_true bcap b r :
  block_cond bcap b r = true ->
  ryy r = byb b + 1 /\ rxl r = bxl b /\ rxr r = bxr b /\ (length (bcs b) + length (rcs r) <= bcap)%nat.
Proof.
  intros E. unfold block_cond in E.
  apply andb_true_iff in E. destruct E as [E E4]. apply andb_true_iff in E. destruct E as [E E3].
  apply andb_true_iff in E. destruct E as [E1 E2].
  apply Z.eqb_eq in E1. apply Z.eqb_eq in E2. apply Z.eqb_eq in E3. apply Nat.leb_le in E4. auto.
Qed.

Lemma ext_block_ok cap bcap b r :
  row_ok cap r -> block_ok bcap b -> block_cond bcap b r = true -> block_ok bcap (ext_block b r).
Proof.
  intros (Hl & Hc & Hx0 & Hx1 & Hy) (Bl & Bc & Bx0 & Bx1 & Bx2 & By0 & By1 & By2) E.
  destruct (block_cond_true bcap b r E) as (E1 & E2 & E3 & E4).
  unfold block_ok, ext_block. cbn [bxl bxr byt byb bcs]. rewrite app_length.
  rewrite Nat2Z.inj_add, Bl, Hl, E1, E2, E3.
  split; [ring|]. lia.
Qed.

Lemma ext_block_pixels cap bcap b r :
  row_ok cap r -> block_ok bcap b -> block_cond bcap b r = true ->
  block_pixels (ext_block b r) = block_pixels b ++ row_pixels r.
Proof.
  intros (Hl & Hc & Hx0 & Hx1 & Hy) (Bl & Bc & Bx0 & Bx1 & Bx2 & By0 & By1 & By2) E.
  destruct (block_cond_true bcap b r E) as (E1 & E2 & E3 & E4).
  unfold block_pixels, ext_block, row_pixels. cbn [bxl bxr byt byb bcs].
  replace (Z.to_nat (ryy r - byt b + 1)) with (S (Z.to_nat (byb b - byt b + 1))) by lia.
  rewrite block_pixels_from_snoc.
  - rewrite Z2Nat.id by lia. rewrite E2. do 2 f_equal. lia.
  - apply Nat2Z.inj. rewrite Nat2Z.inj_mul, !Z2Nat.id by lia. rewrite Bl. ring.
  - lia.
Qed.

Lemma bstep_inv cap bcap acc r acc' out :
  (cap <= bcap)%nat -> row_ok cap r -> oblock_ok bcap acc -> bstep bcap acc r = (acc', out) ->
  oblock_ok bcap acc' /\ Forall (block_ok bcap) out /\
  concat (map block_pixels out) ++ oblock_pixels acc' = oblock_pixels acc ++ row_pixels r.
Proof.
  intros Hcb Hr Hacc E. unfold bstep in E.
  pose proof (fresh_block_ok cap bcap r Hcb Hr) as Hfresh.
  pose proof (fresh_block_pixels cap r Hr) as Hfp.
  destruct acc as [b|].
  - cbn [oblock_ok oblock_pixels] in *. destruct (block_cond bcap b r) eqn:Ec.
    + inversion E; subst acc' out. cbn [oblock_ok oblock_pixels map concat app].
      split; [exact (ext_block_ok cap bcap b r Hr Hacc Ec)|]. split; [constructor|].
      exact (ext_block_pixels cap bcap b r Hr Hacc Ec).
    + inversion E; subst acc' out. cbn [oblock_ok oblock_pixels map concat app].
      split; [exact Hfresh|]. split; [constructor; [exact Hacc|constructor]|].
      rewrite app_nil_r, Hfp. reflexivity.
  - inversion E; subst acc' out. cbn [oblock_ok oblock_pixels map concat app].
    split; [exact Hfresh|]. split; [constructor|]. exact Hfp.
Qed.

Lemma blocks_go_bgo md cap bcap rs : forall acc,
  (cap <= bcap)%nat -> Forall (row_ok cap) rs -> oblock_ok bcap acc ->
  blocks_go md bcap acc rs = (bgo bcap acc rs, Ok tt).
Proof.
  induction rs as [|r rs IH]; intros acc Hcb Hrs Hacc.
  - reflexivity.
  - inversion Hrs as [|r0 rs0 Hr Hrs']; subst r0 rs0.
    cbn [blocks_go bgo]. rewrite (block_step_eq md cap bcap acc r Hcb Hr Hacc).
    destruct (bstep bcap acc r) as [acc' out] eqn:E.
    destruct (bstep_inv cap bcap acc r acc' out Hcb Hr Hacc E) as (Hacc' & _ & _).
    rewrite (IH acc' Hcb Hrs' Hacc'). reflexivity.
Qed.

Lemma bgo_flatten cap bcap rs : forall acc,
  (cap <= bcap)%nat -> Forall (row_ok cap) rs -> oblock_ok bcap acc ->
  concat (map block_pixels (bgo bcap acc rs)) = oblock_pixels acc ++ concat (map row_pixels rs)
  /\ Forall (block_ok bcap) (bgo bcap acc rs).
Proof.
  induction rs as [|r rs IH]; intros acc Hcb Hrs Hacc.
  - destruct acc as [b|]; cbn [bgo map concat oblock_pixels]; rewrite ?app_nil_r; auto.
  - inversion Hrs as [|r0 rs0 Hr Hrs']; subst r0 rs0.
    cbn [bgo]. destruct (bstep bcap acc r) as [acc' out] eqn:E.
    destruct (bstep_inv cap bcap acc r acc' out Hcb Hr Hacc E) as (Hacc' & Hout & Hpix).
    destruct (IH acc' Hcb Hrs' Hacc') as [IH1 IH2].
    split.
    + rewrite map_app, concat_app, IH1. cbn [map concat].
      rewrite app_assoc, Hpix, <- app_assoc. reflexivity.
    + apply Forall_app. split; assumption.
Qed.

(* 2. blocks flatten back to the rows; never panics; every block a full rectangle *)
Theorem blocks_flatten md cap bcap rs :
  (cap <= bcap)%nat -> Forall (row_ok cap) rs ->
  exists bs, blocks_of md bcap rs = (bs, Ok tt) /\
    concat (map block_pixels bs) = concat (map row_pixels rs) /\ Forall (block_ok bcap) bs.
Proof.
  intros Hcb Hrs. exists (bgo bcap None rs). unfold blocks_of.
  split; [exact (blocks_go_bgo md cap bcap rs None Hcb Hrs I)|].
  exact (bgo_flatten cap bcap rs None Hcb Hrs I).
Qed.

Theorem blocks_mode_indep cap bcap rs :
  (cap <= bcap)%nat -> Forall (row_ok cap) rs ->
  blocks_of Debug bcap rs = blocks_of Release bcap rs.
Proof.
  intros Hcb Hrs. unfold blocks_of.
  rewrite (blocks_go_bgo Debug cap bcap rs None Hcb Hrs I).
  rewrite (blocks_go_bgo Release cap bcap rs None Hcb Hrs I). reflexivity.
Qed.

(* 3. composition *)
Theorem batch_flatten md cap bcap ps :
  (1 <= cap)%nat -> (cap <= bcap)%nat -> Forall in_range ps ->
  exists bs, blocks_of md bcap (rows_of cap ps) = (bs, Ok tt) /\
    concat (map block_pixels bs) = ps /\ Forall (block_ok bcap) bs.
Proof.
  intros Hcap Hcb Hps. destruct (rows_flatten cap ps Hcap Hps) as [Hflat Hrows].
  destruct (blocks_flatten md cap bcap (rows_of cap ps) Hcb Hrows) as (bs & Hbs & Hpix & Hok).
  exists bs. split; [exact Hbs|]. split; [|exact Hok]. rewrite Hpix. exact Hflat.
Qed.

Theorem batch_mode_indep cap bcap ps :
  (1 <= cap)%nat -> (cap <= bcap)%nat -> Forall in_range ps ->
  blocks_of Debug bcap (rows_of cap ps) = blocks_of Release bcap (rows_of cap ps).
Proof.
  intros Hcap Hcb Hps. destruct (rows_flatten cap ps Hcap Hps) as [_ Hrows].
  exact (blocks_mode_indep cap bcap (rows_of cap ps) Hcb Hrows).
Qed.

(* ---------------------------------------------------------------- containment *)

Lemma row_pixels_from_In cs : forall x y i,
  (i < length cs)%nat -> exists c, In (x + Z.of_nat i, y, c) (row_pixels_from x y cs).
Proof.
  induction cs as [|c0 cs IH]; intros x y i Hi; [cbn [length] in Hi; lia|].
  destruct i as [|i'].
  - exists c0. cbn [row_pixels_from]. left. f_equal. f_equal. cbn [Z.of_nat]. lia.
  - cbn [length] in Hi. destruct (IH (x + 1) y i') as [c Hc]; [lia|].
    exists c. cbn [row_pixels_from]. right.
    replace (x + Z.of_nat (S i')) with (x + 1 + Z.of_nat i') by lia. exact Hc.
Qed.

Lemma block_pixels_from_In rows : forall xl y w cs i j,
  length cs = (rows * w)%nat -> (i < w)%nat -> (j < rows)%nat ->
  exists c, In (xl + Z.of_nat i, y + Z.of_nat j, c) (block_pixels_from xl y w rows cs).
Proof.
  induction rows as [|n IH]; intros xl y w cs i j Hcs Hi Hj; [lia|].
  assert (Hw : (w <= length cs)%nat) by lia.
  cbn [block_pixels_from]. destruct j as [|j'].
  - destruct (row_pixels_from_In (firstn w cs) xl y i) as [c Hc].
    { rewrite firstn_length_le by exact Hw. exact Hi. }
    exists c. apply in_or_app. left.
    replace (y + Z.of_nat 0) with y by (cbn [Z.of_nat]; lia). exact Hc.
  - destruct (IH xl (y + 1) w (skipn w cs) i j') as [c Hc].
    { rewrite skipn_length. lia. }
    { exact Hi. }
    { lia. }
    exists c. apply in_or_app. right.
    replace (y + Z.of_nat (S j')) with (y + 1 + Z.of_nat j') by lia. exact Hc.
Qed.

(* the corners of a well-formed block are positions of pixels it stands for *)
Lemma block_corners bcap b :
  block_ok bcap b ->
  exists c0 c1, In (bxl b, byt b, c0) (block_pixels b) /\ In (bxr b, byb b, c1) (block_pixels b).
Proof.
  intros (Bl & Bc & Bx0 & Bx1 & Bx2 & By0 & By1 & By2). unfold block_pixels.
  set (w := Z.to_nat (bxr b - bxl b + 1)). set (h := Z.to_nat (byb b - byt b + 1)).
  assert (Hlen : length (bcs b) = (h * w)%nat).
  { apply Nat2Z.inj. rewrite Nat2Z.inj_mul. unfold w, h. rewrite !Z2Nat.id by lia. rewrite Bl. ring. }
  destruct (block_pixels_from_In h (bxl b) (byt b) w (bcs b) 0 0 Hlen) as [c0 H0]; [lia|lia|].
  destruct (block_pixels_from_In h (bxl b) (byt b) w (bcs b) (w - 1) (h - 1) Hlen) as [c1 H1]; [lia|lia|].
  exists c0, c1. split.
  - replace (bxl b + Z.of_nat 0) with (bxl b) in H0 by (cbn [Z.of_nat]; lia).
    replace (byt b + Z.of_nat 0) with (byt b) in H0 by (cbn [Z.of_nat]; lia). exact H0.
  - replace (bxl b + Z.of_nat (w - 1)) with (bxr b) in H1 by lia.
    replace (byt b + Z.of_nat (h - 1)) with (byb b) in H1 by lia. exact H1.
Qed.

(* 4. every pixel of every emitted block is an input pixel (position and colour) *)
Theorem blocks_pixels_in md cap bcap ps b p :
  (1 <= cap)%nat -> (cap <= bcap)%nat -> Forall in_range ps ->
  In b (fst (blocks_of md bcap (rows_of cap ps))) -> In p (block_pixels b) -> In p ps.
Proof.
  intros Hcap Hcb Hps Hb Hp.
  destruct (batch_flatten md cap bcap ps Hcap Hcb Hps) as (bs & Hbs & Hpix & _).
  rewrite Hbs in Hb. cbn [fst] in Hb. rewrite <- Hpix. apply in_concat.
  exists (block_pixels b). split; [apply in_map; exact Hb|exact Hp].
Qed.

Theorem blocks_inside md cap bcap ps lw lh :
  (1 <= cap)%nat -> (cap <= bcap)%nat -> Forall in_range ps -> Forall (pixel_inside lw lh) ps ->
  exists bs, blocks_of md bcap (rows_of cap ps) = (bs, Ok tt) /\ Forall (block_inside lw lh) bs.
Proof.
  intros Hcap Hcb Hps Hin.
  destruct (batch_flatten md cap bcap ps Hcap Hcb Hps) as (bs & Hbs & Hpix & Hok).
  exists bs. split; [exact Hbs|]. apply Forall_forall. intros b Hb.
  pose proof (proj1 (Forall_forall _ _) Hok b Hb) as Hbok.
  destruct (block_corners bcap b Hbok) as (c0 & c1 & H0 & H1).
  assert (Hsub : forall p, In p (block_pixels b) -> pixel_inside lw lh p).
  { intros p Hp. apply (proj1 (Forall_forall _ _) Hin). rewrite <- Hpix. apply in_concat.
    exists (block_pixels b). split; [apply in_map; exact Hb|exact Hp]. }
  pose proof (Hsub _ H0) as [Hx0 Hy0]. pose proof (Hsub _ H1) as [Hx1 Hy1].
  unfold block_inside. lia.
Qed.

(* ---------------------------------------------------------------- counting *)

Definition olen {A} (o : option A) : nat := match o with None => O | Some _ => 1%nat end.

Lemma rows_go_count_le cap ps : (1 <= cap)%nat -> forall acc,
  Forall in_range ps -> (length (rows_go cap acc ps) <= olen acc + length ps)%nat.
Proof.
  intros Hcap. induction ps as [|[[x y] c] ps IH]; intros acc Hps.
  - destruct acc as [r|]; cbn [rows_go length olen]; lia.
  - inversion Hps as [|p0 ps0 Hp Hps']; subst p0 ps0.
    rewrite (rows_go_cons cap acc x y c ps Hcap Hp).
    destruct acc as [r|]; [destruct (row_cond cap r x y)|].
    + specialize (IH (Some (ext_row r x c)) Hps'). cbn [olen length] in *. lia.
    + specialize (IH (Some (fresh_row x y c)) Hps'). cbn [olen length] in *. lia.
    + specialize (IH (Some (fresh_row x y c)) Hps'). cbn [olen length] in *. lia.
Qed.

(* 5a. batching never increases the number of transactions *)
Theorem rows_count_le cap ps :
  (1 <= cap)%nat -> Forall in_range ps -> (length (rows_of cap ps) <= length ps)%nat.
Proof. intros Hcap Hps. exact (rows_go_count_le cap ps Hcap None Hps). Qed.

Lemma block_step_count md bcap acc r acc' out :
  block_step md bcap acc r = Ok (acc', out) -> (length out + olen acc' <= olen acc + 1)%nat.
Proof.
  unfold block_step. destruct acc as [b|].
  - destruct (add_u md 16 (byb b) 1) as [nb|e| |]; cbn [bind]; try discriminate.
    destruct ((ryy r =? nb) && (rxl r =? bxl b) && (rxr r =? bxr b)
              && (length (bcs b) + length (rcs r) <=? bcap)%nat).
    + intros E. inversion E; subst acc' out. cbn [length olen]. lia.
    + destruct (length (rcs r) <=? bcap)%nat; [|discriminate].
      intros E. inversion E; subst acc' out. cbn [length olen]. lia.
  - destruct (length (rcs r) <=? bcap)%nat; [|discriminate].
    intros E. inversion E; subst acc' out. cbn [length olen]. lia.
Qed.

Lemma blocks_go_count_le md bcap rs : forall acc,
  (length (fst (blocks_go md bcap acc rs)) <= olen acc + length rs)%nat.
Proof.
  induction rs as [|r rs IH]; intros acc.
  - destruct acc as [b|]; cbn [blocks_go fst length olen]; lia.
  - cbn [blocks_go]. destruct (block_step md bcap acc r) as [[acc' out]|e| |] eqn:E;
      try (cbn [fst length]; lia).
    pose proof (block_step_count md bcap acc r acc' out E) as Hc.
    specialize (IH acc'). destruct (blocks_go md bcap acc' rs) as [bs o].
    cbn [fst] in *. rewrite app_length. cbn [length]. lia.
Qed.

(* holds unconditionally (also for ill-formed rows and when the iterator panics) *)
Theorem blocks_count_le md bcap rs :
  (length (fst (blocks_of md bcap rs)) <= length rs)%nat.
Proof. exact (blocks_go_count_le md bcap rs None). Qed.

Theorem batch_count_le md cap bcap ps :
  (1 <= cap)%nat -> Forall in_range ps ->
  (length (fst (blocks_of md bcap (rows_of cap ps))) <= length ps)%nat.
Proof.
  intros Hcap Hps. pose proof (blocks_count_le md bcap (rows_of cap ps)) as H1.
  pose proof (rows_count_le cap ps Hcap Hps) as H2. lia.
Qed.

(* 5b. a run is cut only at the row capacity *)
Lemma ceil_div_step q cap k :
  (1 <= k <= cap)%nat -> ceil_div (q * cap + k) cap = S q.
Proof.
  intros Hk. unfold ceil_div.
  replace (q * cap + k + cap - 1)%nat with (S q * cap + (k - 1))%nat by lia.
  rewrite Nat.div_add_l by lia. rewrite Nat.div_small by lia. lia.
Qed.

Definition row_inv (cap : nat) (r : prow) : Prop :=
  0 <= rxr r <= 65534 /\ (1 <= length (rcs r) <= cap)%nat.

Lemma rows_go_count_runs cap ps : (1 <= cap)%nat -> forall r q,
  Forall in_range ps -> row_inv cap r ->
  (length (rows_go cap (Some r) ps) + q)%nat =
  list_sum (map (fun l => ceil_div l cap)
                (run_lengths_go (Some (rxr r, ryy r)) (q * cap + length (rcs r)) ps)).
Proof.
  intros Hcap. induction ps as [|[[x y] c] ps IH]; intros r q Hps [Hxr Hk].
  - cbn [rows_go run_lengths_go map list_sum fold_right length]. rewrite ceil_div_step by exact Hk. lia.
  - inversion Hps as [|p0 ps0 Hp Hps']; subst p0 ps0.
    rewrite (rows_go_cons cap (Some r) x y c ps Hcap Hp). cbn [run_lengths_go].
    assert (Hfresh : row_inv cap (fresh_row x y c)).
    { destruct Hp as [Hx Hy]. unfold row_inv, fresh_row. cbn [rxr rcs length]. lia. }
    destruct ((x =? rxr r + 1) && (y =? ryy r)) eqn:Eadj; destruct (row_cond cap r x y) eqn:E.
    + (* adjacent, room left: the row grows *)
      destruct (row_cond_true cap r x y Hxr E) as (E1 & E2 & E3). subst y.
      assert (Hext : row_inv cap (ext_row r x c)).
      { destruct Hp as [Hx Hy]. unfold row_inv, ext_row. cbn [rxr rcs]. rewrite app_length.
        cbn [length]. lia. }
      specialize (IH (ext_row r x c) q Hps' Hext). cbn [ext_row rxr ryy rcs] in IH.
      rewrite app_length in IH. cbn [length] in IH.
      replace (q * cap + (length (rcs r) + 1))%nat with (S (q * cap + length (rcs r))) in IH by lia.
      exact IH.
    + (* adjacent, row full: cut at capacity, the run goes on *)
      destruct (row_cond_false cap r x y Hxr E) as [Hn|Hfull]; [congruence|].
      specialize (IH (fresh_row x y c) (S q) Hps' Hfresh). cbn [fresh_row rxr ryy rcs length] in IH.
      replace (S (q * cap + length (rcs r))) with (S q * cap + 1)%nat by lia.
      cbn [length]. lia.
    + (* impossible: the model extends only adjacent pixels *)
      destruct (row_cond_true cap r x y Hxr E) as (E1 & E2 & E3).
      apply andb_false_iff in Eadj. destruct Eadj as [Eadj|Eadj];
        [apply Z.eqb_neq in Eadj|apply Z.eqb_neq in Eadj]; contradiction.
    + (* not adjacent: the run ends, and so does the row *)
      specialize (IH (fresh_row x y c) O Hps' Hfresh). cbn [fresh_row rxr ryy rcs length] in IH.
      cbn [Nat.mul Nat.add] in IH. unfold list_sum in *. cbn [map fold_right length].
      rewrite ceil_div_step by exact Hk. lia.
Qed.

Theorem rows_count_runs cap ps :
  (1 <= cap)%nat -> Forall in_range ps ->
  length (rows_of cap ps) = list_sum (map (fun l => ceil_div l cap) (run_lengths ps)).
Proof.
  intros Hcap Hps. unfold rows_of, run_lengths. destruct ps as [|[[x y] c] ps]; [reflexivity|].
  inversion Hps as [|p0 ps0 Hp Hps']; subst p0 ps0.
  rewrite (rows_go_cons cap None x y c ps Hcap Hp). cbn [run_lengths_go].
  assert (Hfresh : row_inv cap (fresh_row x y c)).
  { destruct Hp as [Hx Hy]. unfold row_inv, fresh_row. cbn [rxr rcs length]. lia. }
  pose proof (rows_go_count_runs cap ps Hcap (fresh_row x y c) O Hps' Hfresh) as H.
  cbn [fresh_row rxr ryy rcs length Nat.mul Nat.add] in H. lia.
Qed.

(* ---------------------------------------------------------------- instance: the crate's constants *)

Corollary batch_flatten_50_100 md ps :
  Forall in_range ps ->
  exists bs, blocks_of md 100 (rows_of 50 ps) = (bs, Ok tt) /\
    concat (map block_pixels bs) = ps /\ Forall (block_ok 100) bs.
Proof. intros Hps. apply batch_flatten; [lia|lia|exact Hps]. Qed.

Print Assumptions rows_flatten.
Print Assumptions blocks_flatten.
Print Assumptions blocks_mode_indep.
Print Assumptions batch_flatten.
Print Assumptions batch_mode_indep.
Print Assumptions blocks_pixels_in.
Print Assumptions blocks_inside.
Print Assumptions rows_count_le.
Print Assumptions blocks_count_le.
Print Assumptions batch_count_le.
Print Assumptions rows_count_runs.
Print Assumptions batch_flatten_50_100.
