(* InitP.v — Builder::init / Model::init over every built-in model, interface kind and option set
   (C11, C13 init clause, C17). The finite sweep `init_sweep gen_models` of Oracle/InitSpec.v is
   evaluated by the kernel and lifted here to universally quantified statements in Prop form. *)
Require Import Model.Base Model.Orient Model.Dcs Model.Events Model.Builder Model.InitLang.
Require Import Oracle.Spec Oracle.Controller Oracle.InitSpec Gen.Models.
Require Import Proofs.DcsP Proofs.WindowP Proofs.OrientStateP.
From Coq Require Import String.
Open Scope Z_scope.
Open Scope list_scope.   (* Gen.Models leaves string_scope open: keep ++ on lists *)

(* ------------------------------------------------------------------ small list / bool facts *)
Lemma existsb_false_forall {A} (f : A -> bool) (l : list A) :
  existsb f l = false -> forall x, In x l -> f x = false.
Proof.
  intros H x Hin. destruct (f x) eqn:E; [|reflexivity].
  assert (Hex : existsb f l = true) by (apply existsb_exists; exists x; split; [exact Hin | exact E]).
  rewrite Hex in H. discriminate H.
Qed.

Lemma all_bools_complete b : In b all_bools.
Proof. destruct b; cbn; tauto. Qed.

Lemma all_kinds_complete k : In k all_kinds.
Proof. destruct k; cbn; tauto. Qed.

Lemma find_model_some name : forall ms m, find_model name ms = Some m -> In m ms.
Proof.
  induction ms as [|m0 ms IH]; intros m H; [discriminate H|].
  cbn [find_model] in H. destruct (String.eqb name (m_name m0)).
  - inversion H; subst. left. reflexivity.
  - right. apply IH. exact H.
Qed.

(* ------------------------------------------------------------------ 1. only five options are read *)
Lemma madctl_of_opts_norm o : madctl_of_opts (norm_opts o) = madctl_of_opts o.
Proof. reflexivity. Qed.

Lemma stmt_event_norm col o s : stmt_event col o s = stmt_event col (norm_opts o) s.
Proof. destruct s as [ks|ns|c| | |[|a b]|op args|s'|]; reflexivity. Qed.

Lemma run_init_norm k col o : forall p, run_init k col o p = run_init k col (norm_opts o) p.
Proof.
  induction p as [|s p IH]; [reflexivity|].
  destruct s as [ks|ns|c| | |pf|op args|s'|]; cbn [run_init];
    rewrite <- ?(stmt_event_norm col o), <- ?IH; reflexivity.
Qed.

Lemma norm_opts_in o : In (norm_opts o) all_flag_opts.
Proof.
  unfold all_flag_opts, norm_opts.
  apply in_flat_map. exists (o_bgr o). split; [apply all_bools_complete|].
  apply in_flat_map. exists (o_orient o). split; [apply all_orients_complete|].
  apply in_flat_map. exists (o_inv o). split; [apply all_bools_complete|].
  apply in_flat_map. exists (o_btt o). split; [apply all_bools_complete|].
  apply in_map_iff. exists (o_rtl o). split; [reflexivity | apply all_bools_complete].
Qed.

Lemma init_final_ok_norm fw fh col o t ret :
  init_final_ok fw fh col o t ret = init_final_ok fw fh col (norm_opts o) t ret.
Proof. reflexivity. Qed.

Lemma init_case_ok_norm m k o rst : init_case_ok m k o rst = init_case_ok m k (norm_opts o) rst.
Proof.
  unfold init_case_ok. rewrite <- (run_init_norm k (m_color m) o (m_prog m)).
  destruct (run_init k (m_color m) o (m_prog m)) as [t0 r]. reflexivity.
Qed.

(* Model::init can only return SetAddressMode::from(options) *)
Lemma run_init_ret k col o : forall p b, snd (run_init k col o p) = Ok b -> b = madctl_of_opts o.
Proof.
  induction p as [|s p IH]; intros b H; [discriminate H|].
  destruct s as [ks|ns|c| | |pf|op args|s'|]; cbn [run_init] in H;
    try (destruct (stmt_event col o _) as [[e|]|e| |];
         [ destruct (run_init k col o p) as [t r]; cbn [snd] in *; apply IH; exact H
         | apply IH; exact H | discriminate H | discriminate H | discriminate H ]).
  - destruct (kind_in k ks); [apply IH; exact H | discriminate H].
  - destruct (run_init k col o p) as [t r]. cbn [snd] in *. apply IH. exact H.
  - cbn [snd] in H. inversion H. reflexivity.
Qed.

(* ------------------------------------------------------------------ 2. the kernel computations *)
Lemma init_sweep_gen : init_sweep gen_models = true.
Proof. vm_compute. reflexivity. Qed.

Lemma matrix_gen : matrix_ok gen_models = true.
Proof. vm_compute. reflexivity. Qed.

Lemma dims_gen : model_dims_ok gen_models = true.
Proof. vm_compute. reflexivity. Qed.

Lemma gen_models_length : List.length gen_models = 14%nat.
Proof. reflexivity. Qed.

(* ------------------------------------------------------------------ 3. every case *)
Lemma init_sweep_spec ms : init_sweep ms = true ->
  forall m k o rst, In m ms -> In o all_flag_opts -> init_case_ok m k o rst = true.
Proof.
  unfold init_sweep. intros H m k o rst Hm Ho.
  rewrite forallb_forall in H. specialize (H m Hm).
  rewrite forallb_forall in H. specialize (H k (all_kinds_complete k)).
  rewrite forallb_forall in H. specialize (H o Ho).
  rewrite forallb_forall in H. exact (H rst (all_bools_complete rst)).
Qed.

Lemma init_case_all m k o rst : In m gen_models -> init_case_ok m k (norm_opts o) rst = true.
Proof.
  intros Hm. exact (init_sweep_spec gen_models init_sweep_gen m k (norm_opts o) rst Hm (norm_opts_in o)).
Qed.

Lemma init_case_any m k o rst : In m gen_models -> init_case_ok m k o rst = true.
Proof. intros Hm. rewrite init_case_ok_norm. apply init_case_all. exact Hm. Qed.

(* the four conjuncts of init_case_ok, on fst / snd of the run *)
Lemma init_case_split m k o rst : In m gen_models ->
  let t0 := fst (run_init k (m_color m) o (m_prog m)) in
  let r := snd (run_init k (m_color m) o (m_prog m)) in
  reset_first_ok rst (reset_events rst ++ t0) = true /\
  propagates (m_prog m) = true /\ gate_first (m_prog m) = true /\
  (if supported (m_prog m) k then
     match r with Ok b => init_final_ok (m_fw m) (m_fh m) (m_color m) o (reset_events rst ++ t0) b | _ => false end
   else match r, t0 with Err (ECfg UnsupportedInterface), [] => true | _, _ => false end) = true.
Proof.
  intros Hm. pose proof (init_case_any m k o rst Hm) as H. unfold init_case_ok in H.
  destruct (run_init k (m_color m) o (m_prog m)) as [t0 r]. cbn [fst snd].
  rewrite !andb_true_iff in H. destruct H as [[[H1 H2] H3] H4]. auto.
Qed.

(* ------------------------------------------------------------------ 4. Prop-level consequences *)
Definition slp_inv (k : ctl) : Prop :=
  k_page k = false /\ k_flags k = [] /\
  match k_last_slp k with Some ts => SLEEP_NS <= k_clock k - ts | None => True end.

(* init_final_ok spelled out *)
Lemma init_final_ok_spec fw fh col o t ret : init_final_ok fw fh col o t ret = true ->
  let K := ctl_run (power_on fw fh) t in
  k_asleep K = false /\ k_on K = true /\
  k_madctl K = spec_madctl (o_bgr o) (o_orient o) (o_btt o) (o_rtl o) /\
  ret = k_madctl K /\
  k_colmod K = Some (colmod_of col) /\
  k_inverted K = o_inv o /\
  k_wrev K = [] /\ k_ramwr_seen K = false /\ existsb is_pixdata t = false /\
  k_flags K = [] /\ k_page K = false /\
  (exists ts, k_last_slp K = Some ts /\ SLEEP_NS <= k_clock K - ts) /\
  k_resets K = 1.
Proof.
  intros H K. unfold init_final_ok in H. fold K in H.
  rewrite !andb_true_iff in H.
  destruct H as [[[[[[[[[[[[H1 H2] H3] H4] H5] H6] H7] H8] H9] H10] H11] H12] H13].
  rewrite negb_true_iff in H1, H8, H9, H11.
  rewrite Z.eqb_eq in H3, H4, H13.
  apply Bool.eqb_prop in H6.
  repeat split; try assumption.
  - destruct (k_colmod K) as [b|]; [|discriminate H5]. rewrite Z.eqb_eq in H5. rewrite H5. reflexivity.
  - destruct (k_wrev K); [reflexivity | discriminate H7].
  - destruct (k_flags K); [reflexivity | discriminate H10].
  - destruct (k_last_slp K) as [ts|]; [|discriminate H12]. rewrite Z.leb_le in H12.
    exists ts. split; [reflexivity | exact H12].
Qed.

(* (a) a supported interface kind *)
Theorem init_supported_spec m k o rst :
  In m gen_models -> supported (m_prog m) k = true ->
  let t0 := fst (run_init k (m_color m) o (m_prog m)) in
  let r := snd (run_init k (m_color m) o (m_prog m)) in
  let t := reset_events rst ++ t0 in
  let K := ctl_run (power_on (m_fw m) (m_fh m)) t in
  r = Ok (madctl_of_opts o) /\
  k_asleep K = false /\ k_on K = true /\
  k_madctl K = madctl_of_opts o /\
  k_madctl K = spec_madctl (o_bgr o) (o_orient o) (o_btt o) (o_rtl o) /\
  k_colmod K = Some (colmod_of (m_color m)) /\
  k_inverted K = o_inv o /\
  k_wrev K = [] /\ k_ramwr_seen K = false /\ existsb is_pixdata t = false /\
  k_flags K = [] /\ k_page K = false /\
  (exists ts, k_last_slp K = Some ts /\ SLEEP_NS <= k_clock K - ts) /\
  k_resets K = 1.
Proof.
  intros Hm Hs t0 r t K.
  destruct (init_case_split m k o rst Hm) as [_ [_ [_ H4]]]. fold t0 r in H4. rewrite Hs in H4.
  destruct r as [b| | |] eqn:Er; try discriminate H4.
  pose proof (run_init_ret k (m_color m) o (m_prog m) b Er) as Hb.
  apply init_final_ok_spec in H4. fold t K in H4. cbv zeta in H4.
  destruct H4 as [A1 [A2 [A3 [A4 [A5 [A6 [A7 [A8 [A9 [A10 [A11 [A12 A13]]]]]]]]]]]].
  assert (Hmad : k_madctl K = madctl_of_opts o) by (rewrite <- A4; exact Hb).
  split; [rewrite Hb; reflexivity|].
  repeat (split; [assumption|]). assumption.
Qed.

(* (b) an interface kind the model cannot drive *)
Theorem init_unsupported_spec m k o :
  In m gen_models -> supported (m_prog m) k = false ->
  run_init k (m_color m) o (m_prog m) = ([], Err (ECfg UnsupportedInterface)) /\
  gate_first (m_prog m) = true.
Proof.
  intros Hm Hs.
  destruct (init_case_split m k o false Hm) as [_ [_ [H3 H4]]]. rewrite Hs in H4.
  split; [|exact H3].
  destruct (run_init k (m_color m) o (m_prog m)) as [t0 r]. cbn [fst snd] in H4.
  destruct r as [b|[[]|e| |e]| |]; try discriminate H4.
  destruct t0; [reflexivity | discriminate H4].
Qed.

(* (c) reset first *)
Lemma reset_first_ok_spec rst t : reset_first_ok rst t = true ->
  (rst = true ->
     exists d rest, t = ERstLow :: EDelay d :: ERstHigh :: rest /\ 10000 <= d /\
       forall e, In e rest -> is_rst e = false /\ is_softreset e = false) /\
  (rst = false ->
     exists rest, t = ECmd 0x01 [] :: rest /\
       forall e, In e rest -> is_softreset e = false /\ is_rst e = false).
Proof.
  intros H. destruct rst; (split; intros Hr; [|]); try discriminate Hr; cbn [reset_first_ok] in H.
  - destruct t as [|e1 t]; [discriminate H|]. destruct e1; try discriminate H.
    destruct t as [|e2 t]; [discriminate H|]. destruct e2 as [| | |d| |]; try discriminate H.
    destruct t as [|e3 t]; [discriminate H|]. destruct e3; try discriminate H.
    rewrite !andb_true_iff, !negb_true_iff, Z.leb_le in H. destruct H as [[Hd Hr1] Hs1].
    exists d, t. split; [reflexivity|]. split; [exact Hd|].
    intros e He. split; [exact (existsb_false_forall _ _ Hr1 e He) | exact (existsb_false_forall _ _ Hs1 e He)].
  - destruct t as [|e1 t]; [discriminate H|]. destruct e1 as [op args| | | | |]; try discriminate H.
    destruct args as [|a args]; [|discriminate H].
    rewrite !andb_true_iff, !negb_true_iff, Z.eqb_eq in H. destruct H as [[Hop Hs1] Hr1].
    exists t. split; [rewrite Hop; reflexivity|].
    intros e He. split; [exact (existsb_false_forall _ _ Hs1 e He) | exact (existsb_false_forall _ _ Hr1 e He)].
Qed.

Theorem init_reset_first m k o rst :
  In m gen_models ->
  let t0 := fst (run_init k (m_color m) o (m_prog m)) in
  let t := reset_events rst ++ t0 in
  reset_first_ok rst t = true /\
  (rst = true ->
     exists d rest, t = ERstLow :: EDelay d :: ERstHigh :: rest /\ 10000 <= d /\
       forall e, In e rest -> is_rst e = false /\ is_softreset e = false) /\
  (rst = false ->
     exists rest, t = ECmd 0x01 [] :: rest /\
       forall e, In e rest -> is_softreset e = false /\ is_rst e = false).
Proof.
  intros Hm t0 t. destruct (init_case_split m k o rst Hm) as [H1 _]. fold t0 t in H1.
  split; [exact H1 | exact (reset_first_ok_spec rst t H1)].
Qed.

(* the model's own events never touch the reset pin or send a software reset: everything
   model-specific comes after the (single) reset *)
Theorem init_model_events_after_reset m k o :
  In m gen_models ->
  forall e, In e (fst (run_init k (m_color m) o (m_prog m))) -> is_rst e = false /\ is_softreset e = false.
Proof.
  intros Hm e He.
  destruct (init_reset_first m k o false Hm) as [_ [_ H]]. destruct (H eq_refl) as [rest [Et Hall]].
  cbn [reset_events app] in Et. inversion Et as [Er]. rewrite <- Er in Hall.
  destruct (Hall e He) as [Hs Hr]. split; [exact Hr | exact Hs].
Qed.

(* (d) no fallible call's result is dropped *)
Theorem init_propagates m : In m gen_models -> propagates (m_prog m) = true.
Proof.
  intros Hm. destruct (init_case_split m Serial4Line (mk_opts false orient_new false false false) false Hm)
    as [_ [H2 _]]. exact H2.
Qed.

Theorem init_gate_first m : In m gen_models -> gate_first (m_prog m) = true.
Proof.
  intros Hm. destruct (init_case_split m Serial4Line (mk_opts false orient_new false false false) false Hm)
    as [_ [_ [H3 _]]]. exact H3.
Qed.

(* (e) every pairing supported today stays supported *)
Theorem matrix_stays name ks :
  In (name, ks) baseline_matrix ->
  exists m, find_model name gen_models = Some m /\ In m gen_models /\
            forall k, In k ks -> supported (m_prog m) k = true.
Proof.
  intros Hin. pose proof matrix_gen as H. unfold matrix_ok in H.
  rewrite forallb_forall in H. specialize (H (name, ks) Hin). cbn [fst snd] in H.
  destruct (find_model name gen_models) as [m|] eqn:Ef; [|discriminate H].
  exists m. split; [reflexivity|]. split; [exact (find_model_some name gen_models m Ef)|].
  rewrite forallb_forall in H. exact H.
Qed.

Theorem model_dims m : In m gen_models ->
  1 <= m_fw m <= 65535 /\ 1 <= m_fh m <= 65535.
Proof.
  intros Hm. pose proof dims_gen as H. unfold model_dims_ok in H.
  rewrite forallb_forall in H. specialize (H m Hm).
  rewrite !andb_true_iff, !Z.leb_le in H. lia.
Qed.

(* ------------------------------------------------------------------ 5. Builder::init *)
Theorem builder_init_supported md m k o rst :
  In m gen_models -> supported (m_prog m) k = true ->
  init_check md (m_fw m) (m_fh m) (o_w o) (o_h o) (o_ox o) (o_oy o) = Ok tt ->
  builder_init md (m_fw m) (m_fh m) rst o (run_init k (m_color m) o (m_prog m)) =
  (reset_events rst ++ fst (run_init k (m_color m) o (m_prog m)), Ok (fresh_state o)).
Proof.
  intros Hm Hs Hc.
  destruct (init_supported_spec m k o rst Hm Hs) as [Hr _].
  unfold builder_init. rewrite Hc.
  destruct (run_init k (m_color m) o (m_prog m)) as [t0 r]. cbn [fst snd] in *.
  rewrite Hr. reflexivity.
Qed.

Theorem builder_init_unsupported md m k o rst :
  In m gen_models -> supported (m_prog m) k = false ->
  init_check md (m_fw m) (m_fh m) (o_w o) (o_h o) (o_ox o) (o_oy o) = Ok tt ->
  builder_init md (m_fw m) (m_fh m) rst o (run_init k (m_color m) o (m_prog m)) =
  (reset_events rst, Err (ECfg UnsupportedInterface)).
Proof.
  intros Hm Hs Hc.
  destruct (init_unsupported_spec m k o Hm Hs) as [Hr _].
  unfold builder_init. rewrite Hc, Hr, app_nil_r. reflexivity.
Qed.

(* ------------------------------------------------------------------ 6. for C13 *)
Theorem init_establishes_slp_inv m k o rst :
  In m gen_models -> supported (m_prog m) k = true ->
  let K := ctl_run (power_on (m_fw m) (m_fh m))
                   (reset_events rst ++ fst (run_init k (m_color m) o (m_prog m))) in
  slp_inv K /\ k_asleep K = false.
Proof.
  intros Hm Hs K.
  destruct (init_supported_spec m k o rst Hm Hs)
    as [_ [A1 [_ [_ [_ [_ [_ [_ [_ [_ [A10 [A11 [[ts [Ets Hts]] _]]]]]]]]]]]]].
  fold K in A1, A10, A11, Ets, Hts.
  split; [|exact A1]. unfold slp_inv. split; [exact A11|]. split; [exact A10|].
  rewrite Ets. exact Hts.
Qed.
