(* ClipP.v — the clipping arithmetic of `fill_contiguous` / `fill_solid` / `clear`
   (src/graphics.rs) against the logical bounding box, as plain interval arithmetic.
   `set_pixels` / `set_address_window` stay opaque: each lemma rewrites the drawing call into a
   single call of them with explicit arguments.  Covers both build profiles (any `c_md c`): no
   checked u32 operation overflows, the `as u16` casts are identities. *)
Require Import Model.Base Model.Orient Model.Dcs Model.Events Model.Builder Model.Rect Model.Batch Model.Display.
Open Scope Z_scope.

(* the visible part of `area` on a logical display of lw x lh, as plain interval arithmetic *)
Definition vx0 (a : rect) := Z.max (rx a) 0.
Definition vx1 (a : rect) (lw : Z) := Z.min (rx a + rw a) lw.        (* exclusive *)
Definition vy0 (a : rect) := Z.max (ry a) 0.
Definition vy1 (a : rect) (lh : Z) := Z.min (ry a + rh a) lh.        (* exclusive *)
Definition visible (a : rect) (lw lh : Z) : bool := (vx0 a <? vx1 a lw) && (vy0 a <? vy1 a lh).
(* colours of the visible points, row by row: row j of the visible part starts at stream index
   ((vy0 - ry) + j) * rw + (vx0 - rx) *)
Definition clip_colors (a : rect) (lw lh : Z) (cs : list Z) : list Z :=
  concat (map (fun j => firstn (Z.to_nat (vx1 a lw - vx0 a))
                               (skipnZ ((vy0 a - ry a + Z.of_nat j) * rw a + (vx0 a - rx a)) cs))
              (seq 0 (Z.to_nat (vy1 a lh - vy0 a)))).

(* the logical bounding box, written out (so that statements mention the record itself) *)
Local Notation bbox lw lh := {| rx := 0; ry := 0; rw := lw; rh := lh |}.

(* case analysis on every Z comparison in the goal *)
Ltac zbool :=
  repeat match goal with
  | |- context [?x <=? ?y] => let H := fresh "Hle" in destruct (Z.leb_spec x y) as [H|H]
  | |- context [?x <? ?y] => let H := fresh "Hlt" in destruct (Z.ltb_spec x y) as [H|H]
  end.

(* ------------------------------------------------------------------------------------------ *)
(* generic list facts                                                                           *)
(* ------------------------------------------------------------------------------------------ *)

Lemma skipn_add {A} (m n : nat) (l : list A) : skipn m (skipn n l) = skipn (n + m) l.
Proof.
  revert l. induction n as [|n IH]; intros l.
  - reflexivity.
  - destruct l as [|x l'].
    + cbn [Nat.add skipn]. apply skipn_nil.
    + cbn [Nat.add skipn]. apply IH.
Qed.

Lemma firstn_add {A} (m n : nat) (l : list A) :
  firstn (m + n) l = firstn m l ++ firstn n (skipn m l).
Proof.
  revert l. induction m as [|m IH]; intros l.
  - reflexivity.
  - destruct l as [|x l'].
    + cbn [Nat.add firstn skipn app]. symmetry. apply firstn_nil.
    + cbn [Nat.add firstn skipn app]. f_equal. apply IH.
Qed.

Lemma concat_map_nil {A B} (g : A -> list B) (l : list A) :
  (forall x, g x = []) -> concat (map g l) = [].
Proof.
  intros Hg. induction l as [|x l IH].
  - reflexivity.
  - cbn [map concat]. rewrite Hg, IH. reflexivity.
Qed.

Lemma concat_map_length {A B} (g : A -> list B) (l : list A) (n : nat) :
  (forall x, (length (g x) <= n)%nat) -> (length (concat (map g l)) <= n * length l)%nat.
Proof.
  intros Hg. induction l as [|x l IH].
  - cbn [map concat length]. lia.
  - cbn [map concat length]. rewrite app_length. specialize (Hg x). lia.
Qed.

(* a window of a list only looks at the prefix that covers it *)
Lemma firstn_skipn_firstn {A} (n k m : nat) (l : list A) :
  (k + n <= m)%nat -> firstn n (skipn k (firstn m l)) = firstn n (skipn k l).
Proof.
  intros Hle. rewrite skipn_firstn_comm, firstn_firstn.
  replace (Nat.min n (m - k)) with n by lia. reflexivity.
Qed.

Lemma skipnZ_skipnZ {A} (p q : Z) (l : list A) :
  0 <= p -> 0 <= q -> skipnZ p (skipnZ q l) = skipnZ (q + p) l.
Proof.
  intros Hp Hq. rewrite !skipnZ_skipn, skipn_add, Z2Nat.inj_add by lia. reflexivity.
Qed.

(* ------------------------------------------------------------------------------------------ *)
(* 2. TakeSkip and the fast path, as rows                                                      *)
(* ------------------------------------------------------------------------------------------ *)

Lemma take_skip_nil (f : nat) (take skip : Z) : take_skip f take skip [] = [].
Proof. destruct f as [|f]; reflexivity. Qed.

(* one period of TakeSkip; valid for the empty stream too *)
Lemma take_skip_unfold (f : nat) (take skip : Z) (l : list Z) :
  take_skip (S f) take skip l = firstnZ take l ++ take_skip f take skip (skipnZ (take + skip) l).
Proof.
  destruct l as [|x l'].
  - rewrite firstnZ_firstn, skipnZ_skipn, firstn_nil, skipn_nil, !take_skip_nil. reflexivity.
  - reflexivity.
Qed.

(* rows of a TakeSkip stream, any sufficient fuel; once a row comes out short every later row is
   empty on both sides *)
Lemma take_skip_rows_gen (take skip : Z) :
  1 <= take -> 0 <= skip ->
  forall (h f : nat) (l : list Z), (length l < f)%nat ->
    firstn (Z.to_nat take * h) (take_skip f take skip l) =
    concat (map (fun j => firstn (Z.to_nat take) (skipn (j * Z.to_nat (take + skip)) l)) (seq 0 h)).
Proof.
  intros Ht Hs. induction h as [|h IH]; intros f l Hf.
  - rewrite Nat.mul_0_r. reflexivity.
  - destruct f as [|f]; [lia|].
    rewrite take_skip_unfold, firstnZ_firstn, skipnZ_skipn.
    cbn [seq map concat]. rewrite Nat.mul_0_l. cbn [skipn].
    rewrite <- seq_shift, map_map.
    assert (HT : (1 <= Z.to_nat take)%nat) by lia.
    assert (HP : (Z.to_nat take <= Z.to_nat (take + skip))%nat) by lia.
    destruct (le_lt_dec (Z.to_nat take) (length l)) as [Hlen|Hlen].
    + (* a full row *)
      replace (Z.to_nat take * S h)%nat
        with (length (firstn (Z.to_nat take) l) + Z.to_nat take * h)%nat
        by (rewrite firstn_length_le by lia; lia).
      rewrite firstn_app_2. f_equal.
      rewrite IH by (rewrite skipn_length; lia).
      f_equal. apply map_ext. intros j. rewrite skipn_add. apply (f_equal (fun n => firstn _ (skipn n _))). lia.
    + (* a short row: the stream is exhausted *)
      rewrite (firstn_all2 (n := Z.to_nat take) l) by lia.
      rewrite (skipn_all2 (n := Z.to_nat (take + skip)) l) by lia.
      rewrite take_skip_nil, app_nil_r.
      rewrite firstn_all2 by nia.
      rewrite concat_map_nil; [rewrite app_nil_r; reflexivity|].
      intros j. rewrite skipn_all2 by nia. apply firstn_nil.
Qed.

(* take_skip does not depend on the fuel once it exceeds the length of the stream *)
Lemma take_skip_fuel (take skip : Z) :
  1 <= take -> 0 <= skip ->
  forall (f g : nat) (l : list Z), (length l < f)%nat -> (length l < g)%nat ->
    take_skip f take skip l = take_skip g take skip l.
Proof.
  intros Ht Hs. induction f as [|f IH]; intros g l Hf Hg.
  - lia.
  - destruct g as [|g]; [lia|].
    rewrite !take_skip_unfold. f_equal.
    destruct l as [|x l'].
    + rewrite skipnZ_skipn, skipn_nil, !take_skip_nil. reflexivity.
    + apply IH; rewrite skipnZ_skipn, skipn_length; cbn [length] in *; lia.
Qed.

Lemma take_skip_rows (take skip : Z) (l : list Z) (h : nat) :
  1 <= take -> 0 <= skip ->
  firstnZ (take * Z.of_nat h) (take_skip (S (length l)) take skip l) =
  concat (map (fun j => firstn (Z.to_nat take) (skipnZ (Z.of_nat j * (take + skip)) l)) (seq 0 h)).
Proof.
  intros Ht Hs. rewrite firstnZ_firstn.
  replace (Z.to_nat (take * Z.of_nat h)) with (Z.to_nat take * h)%nat
    by (rewrite Z2Nat.inj_mul, Nat2Z.id by lia; reflexivity).
  rewrite (take_skip_rows_gen take skip Ht Hs h (S (length l)) l) by lia.
  f_equal. apply map_ext. intros j. rewrite skipnZ_skipn. f_equal. f_equal.
  rewrite Z2Nat.inj_mul, Nat2Z.id by lia. reflexivity.
Qed.

Lemma firstn_rows_gen (w : nat) :
  forall (h : nat) (l : list Z),
    firstn (w * h) l = concat (map (fun j => firstn w (skipn (j * w) l)) (seq 0 h)).
Proof.
  induction h as [|h IH]; intros l.
  - rewrite Nat.mul_0_r. reflexivity.
  - replace (w * S h)%nat with (w + w * h)%nat by lia.
    rewrite firstn_add. cbn [seq map concat]. rewrite Nat.mul_0_l. cbn [skipn]. f_equal.
    rewrite <- seq_shift, map_map, IH.
    f_equal. apply map_ext. intros j. rewrite skipn_add. apply (f_equal (fun n => firstn _ (skipn n _))). lia.
Qed.

Lemma firstn_rows (w : Z) (l : list Z) (h : nat) :
  1 <= w ->
  firstnZ (w * Z.of_nat h) l =
  concat (map (fun j => firstn (Z.to_nat w) (skipnZ (Z.of_nat j * w) l)) (seq 0 h)).
Proof.
  intros Hw. rewrite firstnZ_firstn.
  replace (Z.to_nat (w * Z.of_nat h)) with (Z.to_nat w * h)%nat
    by (rewrite Z2Nat.inj_mul, Nat2Z.id by lia; reflexivity).
  rewrite firstn_rows_gen. f_equal. apply map_ext. intros j. rewrite skipnZ_skipn. f_equal. f_equal.
  rewrite Z2Nat.inj_mul, Nat2Z.id by lia. reflexivity.
Qed.

(* ------------------------------------------------------------------------------------------ *)
(* 5a. the visible window                                                                       *)
(* ------------------------------------------------------------------------------------------ *)

(* always true, visible or not *)
Lemma window_facts (a : rect) (lw lh : Z) :
  0 <= vx0 a /\ rx a <= vx0 a /\ vx1 a lw <= lw /\ vx1 a lw <= rx a + rw a /\
  0 <= vy0 a /\ ry a <= vy0 a /\ vy1 a lh <= lh /\ vy1 a lh <= ry a + rh a.
Proof. unfold vx0, vx1, vy0, vy1. lia. Qed.

Lemma visible_spec (a : rect) (lw lh : Z) :
  visible a lw lh = true <-> vx0 a < vx1 a lw /\ vy0 a < vy1 a lh.
Proof. unfold visible. rewrite andb_true_iff, !Z.ltb_lt. tauto. Qed.

Lemma visible_false_spec (a : rect) (lw lh : Z) :
  visible a lw lh = false <-> vx1 a lw <= vx0 a \/ vy1 a lh <= vy0 a.
Proof. unfold visible. rewrite andb_false_iff, !Z.ltb_ge. tauto. Qed.

Lemma visible_bounds (a : rect) (lw lh : Z) :
  visible a lw lh = true ->
  0 <= vx0 a <= vx1 a lw - 1 /\ vx1 a lw - 1 < lw /\
  0 <= vy0 a <= vy1 a lh - 1 /\ vy1 a lh - 1 < lh.
Proof.
  intros Hvis. apply visible_spec in Hvis. destruct Hvis as [Hx Hy].
  pose proof (window_facts a lw lh) as Hf. lia.
Qed.

(* a visible rectangle is not zero-sized *)
Lemma visible_nonempty (a : rect) (lw lh : Z) :
  visible a lw lh = true -> 1 <= rw a /\ 1 <= rh a.
Proof.
  intros Hvis. apply visible_spec in Hvis. destruct Hvis as [Hx Hy].
  pose proof (window_facts a lw lh) as Hf. lia.
Qed.

Lemma visible_bbox (lw lh : Z) :
  1 <= lw -> 1 <= lh ->
  visible (bbox lw lh) lw lh = true /\
  vx0 (bbox lw lh) = 0 /\ vx1 (bbox lw lh) lw = lw /\ vy0 (bbox lw lh) = 0 /\ vy1 (bbox lw lh) lh = lh.
Proof.
  intros Hlw Hlh. rewrite visible_spec. unfold vx0, vx1, vy0, vy1. cbn [rx ry rw rh]. lia.
Qed.

(* ------------------------------------------------------------------------------------------ *)
(* 1. Rectangle::intersection with the bounding box                                             *)
(* ------------------------------------------------------------------------------------------ *)

Lemma bottom_right_some (r : rect) :
  1 <= rw r -> 1 <= rh r -> bottom_right r = Some (rx r + rw r - 1, ry r + rh r - 1).
Proof. intros Hw Hh. unfold bottom_right. zbool; cbn [andb]; try reflexivity; lia. Qed.

Lemma bottom_right_none (r : rect) : rw r <= 0 \/ rh r <= 0 -> bottom_right r = None.
Proof. intros Hz. unfold bottom_right. zbool; cbn [andb]; try reflexivity; lia. Qed.

(* the three-clause `overlaps` of two non-empty closed ranges is the usual interval test *)
Lemma overlaps_iff (a1 a2 b1 b2 : Z) :
  a1 <= a2 -> b1 <= b2 -> overlaps a1 a2 b1 b2 = (a1 <=? b2) && (b1 <=? a2).
Proof.
  intros Ha Hb. unfold overlaps. rewrite Z.gtb_ltb.
  zbool; cbn [andb orb]; try reflexivity; lia.
Qed.

Lemma intersection_bbox_visible (a : rect) (lw lh : Z) :
  rect_valid a -> 1 <= lw <= 65535 -> 1 <= lh <= 65535 ->
  visible a lw lh = true ->
  intersection a (bbox lw lh) =
    {| rx := vx0 a; ry := vy0 a; rw := vx1 a lw - vx0 a; rh := vy1 a lh - vy0 a |} /\
  bottom_right (intersection a (bbox lw lh)) = Some (vx1 a lw - 1, vy1 a lh - 1).
Proof.
  intros Hv Hlw Hlh Hvis.
  destruct (visible_nonempty a lw lh Hvis) as [Hrw Hrh].
  apply visible_spec in Hvis. destruct Hvis as [Hx Hy].
  unfold vx0, vx1, vy0, vy1 in *.
  assert (Hint : intersection a (bbox lw lh) =
                 {| rx := Z.max (rx a) 0; ry := Z.max (ry a) 0;
                    rw := Z.min (rx a + rw a) lw - Z.max (rx a) 0;
                    rh := Z.min (ry a + rh a) lh - Z.max (ry a) 0 |}).
  { unfold intersection.
    rewrite (bottom_right_some a Hrw Hrh).
    rewrite (bottom_right_some (bbox lw lh)) by (cbn [rw rh]; lia).
    cbn [rx ry rw rh]. rewrite !overlaps_iff by lia.
    match goal with
    | |- (if ?b then _ else _) = _ =>
        replace b with true by (symmetry; zbool; cbn [andb]; try reflexivity; lia)
    end.
    unfold with_corners. cbn [fst snd]. f_equal; lia. }
  split; [exact Hint|].
  rewrite Hint. rewrite bottom_right_some by (cbn [rw rh]; lia).
  cbn [rx ry rw rh]. f_equal. f_equal; lia.
Qed.

Lemma intersection_bbox_hidden (a : rect) (lw lh : Z) :
  rect_valid a -> 1 <= lw <= 65535 -> 1 <= lh <= 65535 ->
  visible a lw lh = false ->
  bottom_right (intersection a (bbox lw lh)) = None.
Proof.
  intros Hv Hlw Hlh Hvis.
  destruct Hv as (Hx & Hy & Hw & Hh & Hxw & Hyh).
  apply visible_false_spec in Hvis. unfold vx0, vx1, vy0, vy1 in Hvis.
  unfold intersection.
  rewrite (bottom_right_some (bbox lw lh)) by (cbn [rw rh]; lia).
  destruct (Z_le_gt_dec (rw a) 0) as [Hw0|Hw0]; [|destruct (Z_le_gt_dec (rh a) 0) as [Hh0|Hh0]].
  - (* zero-sized area: either `area` itself or Rectangle::zero() *)
    rewrite (bottom_right_none a) by lia.
    destruct (contains (bbox lw lh) (rx a, ry a)).
    + apply bottom_right_none. lia.
    + reflexivity.
  - rewrite (bottom_right_none a) by lia.
    destruct (contains (bbox lw lh) (rx a, ry a)).
    + apply bottom_right_none. lia.
    + reflexivity.
  - rewrite (bottom_right_some a) by lia.
    cbn [rx ry rw rh]. rewrite !overlaps_iff by lia.
    match goal with
    | |- bottom_right (if ?b then _ else _) = _ =>
        replace b with false by (symmetry; zbool; cbn [andb]; try reflexivity; lia)
    end.
    reflexivity.
Qed.

Lemma intersection_bbox (a : rect) (lw lh : Z) :
  rect_valid a -> 1 <= lw <= 65535 -> 1 <= lh <= 65535 ->
  (visible a lw lh = true ->
     intersection a (bbox lw lh) =
       {| rx := vx0 a; ry := vy0 a; rw := vx1 a lw - vx0 a; rh := vy1 a lh - vy0 a |} /\
     bottom_right (intersection a (bbox lw lh)) = Some (vx1 a lw - 1, vy1 a lh - 1)) /\
  (visible a lw lh = false -> bottom_right (intersection a (bbox lw lh)) = None).
Proof.
  intros Hv Hlw Hlh. split.
  - apply intersection_bbox_visible; assumption.
  - apply intersection_bbox_hidden; assumption.
Qed.

(* the fast-path test `&intersection == area`, in the visible case: nothing is clipped.
   (For a zero-sized area the test can hold without visibility, but then bottom_right is None
   and the test is never reached.) *)
Lemma intersection_eq_area (a : rect) (lw lh : Z) :
  rect_valid a -> 1 <= lw <= 65535 -> 1 <= lh <= 65535 ->
  visible a lw lh = true ->
  (rect_eqb (intersection a (bbox lw lh)) a = true <->
   0 <= rx a /\ 0 <= ry a /\ rx a + rw a <= lw /\ ry a + rh a <= lh).
Proof.
  intros Hv Hlw Hlh Hvis.
  destruct (intersection_bbox_visible a lw lh Hv Hlw Hlh Hvis) as [Hint _].
  rewrite Hint. unfold rect_eqb. cbn [rx ry rw rh].
  rewrite !andb_true_iff, !Z.eqb_eq.
  apply visible_spec in Hvis. unfold vx0, vx1, vy0, vy1 in *. lia.
Qed.

(* what the fast-path test gives, as equations on the window *)
Lemma intersection_eq_area_window (a : rect) (lw lh : Z) :
  rect_eqb {| rx := vx0 a; ry := vy0 a; rw := vx1 a lw - vx0 a; rh := vy1 a lh - vy0 a |} a = true ->
  vx0 a = rx a /\ vy0 a = ry a /\ vx1 a lw - vx0 a = rw a /\ vy1 a lh - vy0 a = rh a.
Proof.
  unfold rect_eqb. cbn [rx ry rw rh]. rewrite !andb_true_iff, !Z.eqb_eq. tauto.
Qed.

(* ------------------------------------------------------------------------------------------ *)
(* 5b. clip_colors                                                                              *)
(* ------------------------------------------------------------------------------------------ *)

Lemma clip_colors_length_nat (a : rect) (lw lh : Z) (cs : list Z) :
  (length (clip_colors a lw lh cs) <=
   Z.to_nat (vx1 a lw - vx0 a) * Z.to_nat (vy1 a lh - vy0 a))%nat.
Proof.
  unfold clip_colors.
  rewrite <- (seq_length (Z.to_nat (vy1 a lh - vy0 a)) 0) at 2.
  apply concat_map_length. intros j. apply firstn_le_length.
Qed.

Lemma clip_colors_length (a : rect) (lw lh : Z) (cs : list Z) :
  visible a lw lh = true ->
  Z.of_nat (length (clip_colors a lw lh cs)) <= (vx1 a lw - vx0 a) * (vy1 a lh - vy0 a).
Proof.
  intros Hvis. apply visible_spec in Hvis. destruct Hvis as [Hx Hy].
  pose proof (clip_colors_length_nat a lw lh cs) as Hn.
  apply Nat2Z.inj_le in Hn. rewrite Nat2Z.inj_mul, !Z2Nat.id in Hn by lia. exact Hn.
Qed.

(* colours beyond the area are never used *)
Lemma clip_colors_surplus (a : rect) (lw lh : Z) (cs : list Z) :
  rect_valid a ->
  clip_colors a lw lh cs = clip_colors a lw lh (firstnZ (rw a * rh a) cs).
Proof.
  intros Hv. destruct Hv as (Hx & Hy & Hw & Hh & Hxw & Hyh).
  pose proof (window_facts a lw lh) as Hf.
  unfold clip_colors. f_equal. apply map_ext_in. intros j Hj. apply in_seq in Hj.
  destruct (Z_le_gt_dec (vx1 a lw - vx0 a) 0) as [Hw0|Hw0].
  - replace (Z.to_nat (vx1 a lw - vx0 a)) with 0%nat by lia. reflexivity.
  - rewrite firstnZ_firstn, !skipnZ_skipn. symmetry. apply firstn_skipn_firstn.
    assert (Hrow0 : 0 <= (vy0 a - ry a + Z.of_nat j) * rw a)
      by (apply Z.mul_nonneg_nonneg; lia).
    assert (Hrow1 : (vy0 a - ry a + Z.of_nat j + 1) * rw a <= rh a * rw a)
      by (apply Z.mul_le_mono_nonneg_r; lia).
    lia.
Qed.

(* with nothing clipped, the rows are the first rw * rh colours *)
Lemma clip_colors_fast (a : rect) (lw lh : Z) (cs : list Z) :
  vx0 a = rx a -> vy0 a = ry a -> 1 <= vx1 a lw - vx0 a -> 0 <= vy1 a lh - vy0 a ->
  vx1 a lw - vx0 a = rw a ->
  clip_colors a lw lh cs = firstnZ ((vx1 a lw - vx0 a) * (vy1 a lh - vy0 a)) cs.
Proof.
  intros Hx0 Hy0 Hw Hh Hrw. unfold clip_colors.
  rewrite <- (Z2Nat.id (vy1 a lh - vy0 a)) at 2 by exact Hh.
  rewrite firstn_rows by exact Hw.
  f_equal. apply map_ext. intros j. f_equal. f_equal.
  rewrite Hx0, Hy0, <- Hrw, Hx0. ring.
Qed.

(* the TakeSkip path computes the rows *)
Lemma clip_colors_slow (a : rect) (lw lh : Z) (cs : list Z) :
  rect_valid a -> visible a lw lh = true ->
  let cs' := skipnZ ((vy0 a - ry a) * rw a + (vx0 a - rx a)) cs in
  firstnZ ((vx1 a lw - vx0 a) * (vy1 a lh - vy0 a))
    (take_skip (S (length cs')) (vx1 a lw - vx0 a) (rw a - (vx1 a lw - vx0 a)) cs') =
  clip_colors a lw lh cs.
Proof.
  intros Hv Hvis cs'. destruct Hv as (Hx & Hy & Hw & Hh & Hxw & Hyh).
  apply visible_spec in Hvis. destruct Hvis as [Hvx Hvy].
  pose proof (window_facts a lw lh) as Hf.
  unfold clip_colors.
  rewrite <- (Z2Nat.id (vy1 a lh - vy0 a)) at 1 by lia.
  rewrite take_skip_rows by lia.
  f_equal. apply map_ext. intros j. f_equal. unfold cs'.
  assert (Hrow0 : 0 <= (vy0 a - ry a) * rw a) by (apply Z.mul_nonneg_nonneg; lia).
  assert (Hrowj : 0 <= Z.of_nat j * (vx1 a lw - vx0 a + (rw a - (vx1 a lw - vx0 a))))
    by (apply Z.mul_nonneg_nonneg; lia).
  rewrite skipnZ_skipnZ by lia. f_equal. ring.
Qed.

(* ------------------------------------------------------------------------------------------ *)
(* machine arithmetic                                                                           *)
(* ------------------------------------------------------------------------------------------ *)

Lemma chk32 (md : mode) (z : Z) : 0 <= z < 2 ^ 32 -> chk_u md 32 z = Ok z.
Proof. intros Hz. apply chk_u_in, in_u_spec. exact Hz. Qed.

Lemma cast16 (z : Z) : 0 <= z <= 65535 -> cast_u 16 z = z.
Proof. intros Hz. unfold cast_u. apply Z.mod_small. change (2 ^ 16) with 65536. lia. Qed.

Lemma mul16_bound (p q : Z) : 0 <= p <= 65535 -> 0 <= q <= 65535 -> 0 <= p * q < 2 ^ 32.
Proof. intros Hp Hq. change (2 ^ 32) with 4294967296. nia. Qed.

Lemma wbind_wlift_ok {A B} (x : A) (f : A -> W B) : wbind (wlift (Ok x)) f = f x.
Proof. unfold wbind, wlift. destruct (f x) as [t r]. reflexivity. Qed.

Lemma skip_y_eq (md : mode) (y0 y w : Z) :
  y <= y0 -> 0 <= (y0 - y) * w < 2 ^ 32 ->
  (if y0 >? y then mul_u md 32 (Z.abs (y0 - y)) w else Ok 0) = Ok ((y0 - y) * w).
Proof.
  intros Hy Hb. rewrite Z.gtb_ltb. destruct (Z.ltb_spec y y0) as [Hlt|Hge].
  - unfold mul_u. rewrite Z.abs_eq by lia. apply chk32. exact Hb.
  - replace (y0 - y) with 0 by lia. reflexivity.
Qed.

Lemma skip_x_eq (md : mode) (s x0 x : Z) :
  x <= x0 -> 0 <= s + (x0 - x) < 2 ^ 32 ->
  (if x0 >? x then add_u md 32 s (Z.abs (x0 - x)) else Ok s) = Ok (s + (x0 - x)).
Proof.
  intros Hx Hb. rewrite Z.gtb_ltb. destruct (Z.ltb_spec x x0) as [Hlt|Hge].
  - unfold add_u. rewrite Z.abs_eq by lia. apply chk32. exact Hb.
  - replace (x0 - x) with 0 by lia. rewrite Z.add_0_r. reflexivity.
Qed.

Lemma bounding_box_lsize (o : opts) (lw lh : Z) :
  lsize o = (lw, lh) -> bounding_box o = bbox lw lh.
Proof. intros Hls. unfold bounding_box. rewrite Hls. reflexivity. Qed.

(* ------------------------------------------------------------------------------------------ *)
(* 3. fill_contiguous                                                                           *)
(* ------------------------------------------------------------------------------------------ *)

Lemma fill_contiguous_clip (c : ctx) (o : opts) (a : rect) (lw lh : Z) (cs : list Z) :
  rect_valid a -> 1 <= lw <= 65535 -> 1 <= lh <= 65535 ->
  lsize o = (lw, lh) -> rw a * rh a < 2 ^ 32 ->
  fill_contiguous c o a cs =
  (if visible a lw lh
   then set_pixels c o (vx0 a) (vy0 a) (vx1 a lw - 1) (vy1 a lh - 1) (clip_colors a lw lh cs)
   else wret tt).
Proof.
  intros Hv Hlw Hlh Hls Harea.
  unfold fill_contiguous. rewrite (bounding_box_lsize o lw lh Hls).
  destruct (visible a lw lh) eqn:Hvis.
  - destruct (intersection_bbox_visible a lw lh Hv Hlw Hlh Hvis) as [Hint Hbr].
    cbv beta zeta. rewrite Hbr. cbv beta iota. rewrite Hint. cbn [rx ry rw rh].
    pose proof (visible_bounds a lw lh Hvis) as Hb.
    pose proof (window_facts a lw lh) as Hf.
    destruct (visible_nonempty a lw lh Hvis) as [Hrw1 Hrh1].
    destruct Hv as (Hx & Hy & Hw & Hh & Hxw & Hyh).
    rewrite !cast16 by lia.
    unfold mul_u at 1. rewrite chk32 by (apply mul16_bound; lia).
    rewrite wbind_wlift_ok.
    destruct (rect_eqb _ a) eqn:Eeq.
    + (* fast path: the original iterator *)
      apply intersection_eq_area_window in Eeq. destruct Eeq as (Ex0 & Ey0 & Ew & Eh).
      f_equal. symmetry. apply clip_colors_fast; lia.
    + (* TakeSkip path *)
      assert (Hrows : (vy0 a - ry a) * rw a <= (rh a - 1) * rw a)
        by (apply Z.mul_le_mono_nonneg_r; lia).
      assert (Hrow0 : 0 <= (vy0 a - ry a) * rw a) by (apply Z.mul_nonneg_nonneg; lia).
      assert (Hrw_le : rw a <= rw a * rh a) by nia.
      rewrite (skip_y_eq (c_md c)) by lia. rewrite wbind_wlift_ok.
      rewrite (skip_x_eq (c_md c)) by lia. rewrite wbind_wlift_ok.
      unfold sub_u. rewrite chk32 by lia. rewrite wbind_wlift_ok.
      rewrite (proj2 (Z.ltb_lt 0 (vx1 a lw - vx0 a))) by lia.
      f_equal. apply (clip_colors_slow a lw lh cs); [|exact Hvis].
      repeat split; assumption.
  - cbv beta zeta. rewrite (intersection_bbox_hidden a lw lh Hv Hlw Hlh Hvis). reflexivity.
Qed.

(* ------------------------------------------------------------------------------------------ *)
(* 4. fill_solid / clear                                                                        *)
(* ------------------------------------------------------------------------------------------ *)

Lemma fill_solid_clip (c : ctx) (o : opts) (a : rect) (lw lh : Z) (col : Z) :
  rect_valid a -> 1 <= lw <= 65535 -> 1 <= lh <= 65535 ->
  lsize o = (lw, lh) ->
  fill_solid c o a col =
  (if visible a lw lh
   then (wdo _ <- set_address_window c o (vx0 a) (vy0 a) (vx1 a lw - 1) (vy1 a lh - 1);
         wdo _ <- wemit (write_command WriteMemoryStart);
         ([ERepeat (c_enc c col) ((vx1 a lw - vx0 a) * (vy1 a lh - vy0 a))], Ok tt))
   else wret tt).
Proof.
  intros Hv Hlw Hlh Hls.
  unfold fill_solid. rewrite (bounding_box_lsize o lw lh Hls).
  destruct (visible a lw lh) eqn:Hvis.
  - destruct (intersection_bbox_visible a lw lh Hv Hlw Hlh Hvis) as [Hint Hbr].
    cbv beta zeta. rewrite Hbr. cbv beta iota. rewrite Hint. cbn [rx ry rw rh].
    pose proof (visible_bounds a lw lh Hvis) as Hb.
    rewrite !cast16 by lia.
    unfold mul_u. rewrite chk32 by (apply mul16_bound; lia).
    rewrite wbind_wlift_ok. reflexivity.
  - cbv beta zeta. rewrite (intersection_bbox_hidden a lw lh Hv Hlw Hlh Hvis). reflexivity.
Qed.

Lemma rect_valid_bbox (lw lh : Z) :
  1 <= lw <= 65535 -> 1 <= lh <= 65535 -> rect_valid (bbox lw lh).
Proof.
  intros Hlw Hlh. unfold rect_valid. cbn [rx ry rw rh].
  change (2 ^ 31) with 2147483648. lia.
Qed.

Lemma clear_clip (c : ctx) (o : opts) (lw lh : Z) (col : Z) :
  1 <= lw <= 65535 -> 1 <= lh <= 65535 ->
  lsize o = (lw, lh) ->
  clear c o col =
  (wdo _ <- set_address_window c o 0 0 (lw - 1) (lh - 1);
   wdo _ <- wemit (write_command WriteMemoryStart);
   ([ERepeat (c_enc c col) (lw * lh)], Ok tt)).
Proof.
  intros Hlw Hlh Hls. unfold clear.
  rewrite (bounding_box_lsize o lw lh Hls).
  rewrite (fill_solid_clip c o (bbox lw lh) lw lh col (rect_valid_bbox lw lh Hlw Hlh) Hlw Hlh Hls).
  destruct (visible_bbox lw lh) as (Hvis & Hx0 & Hx1 & Hy0 & Hy1); [lia|lia|].
  rewrite Hvis, Hx0, Hx1, Hy0, Hy1, !Z.sub_0_r. reflexivity.
Qed.

Print Assumptions intersection_bbox.
Print Assumptions intersection_eq_area.
Print Assumptions take_skip_rows.
Print Assumptions firstn_rows.
Print Assumptions fill_contiguous_clip.
Print Assumptions fill_solid_clip.
Print Assumptions clear_clip.
Print Assumptions visible_bounds.
Print Assumptions clip_colors_length.
Print Assumptions clip_colors_surplus.
