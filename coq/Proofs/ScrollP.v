(* ScrollP.v — vertical scrolling set-up (C16): all u16 inputs, every framebuffer height, both profiles. *)
Require Import Model.Base Model.Orient Model.Dcs Model.Events Model.Builder Model.Rect Model.Batch Model.Display.
Require Import Proofs.DcsP Proofs.BuilderP Proofs.WindowP.
Open Scope Z_scope.

(* what the property prescribes: the three areas *)
Definition scroll_areas (fh top bottom : Z) : Z * Z * Z :=
  if top + bottom <=? fh then (top, fh - top - bottom, bottom) else (fh, 0, 0).

Lemma scroll_areas_sum fh top bottom :
  0 <= top <= 65535 -> 0 <= bottom <= 65535 -> 1 <= fh <= 65535 ->
  let '(t, s, b) := scroll_areas fh top bottom in
  t + s + b = fh /\ 0 <= t <= 65535 /\ 0 <= s <= 65535 /\ 0 <= b <= 65535 /\
  (top + bottom <= fh -> t = top /\ b = bottom) /\
  (top + bottom > fh -> (t, s, b) = (fh, 0, 0)).
Proof.
  intros Ht Hb Hf. unfold scroll_areas.
  destruct (top + bottom <=? fh) eqn:E; [apply Z.leb_le in E | apply Z.leb_gt in E];
    repeat split; try lia.
Qed.

Lemma scroll_region_spec c top bottom :
  0 <= top <= 65535 -> 0 <= bottom <= 65535 -> 1 <= c_fh c <= 65535 ->
  set_vertical_scroll_region c top bottom =
  (let '(t, s, b) := scroll_areas (c_fh c) top bottom in [ECmd 0x33 (be16 t ++ be16 s ++ be16 b)], Ok tt).
Proof.
  intros Ht Hb Hf. unfold set_vertical_scroll_region, scroll_areas.
  rewrite add32_small by (unfold u16; lia). cbn [wlift wbind].
  rewrite Z.gtb_ltb.
  destruct (c_fh c <? top + bottom) eqn:E.
  - apply Z.ltb_lt in E.
    assert (E2 : (top + bottom <=? c_fh c) = false) by (apply Z.leb_gt; lia). rewrite E2.
    rewrite write_command_spec. reflexivity.
  - apply Z.ltb_ge in E.
    assert (E2 : (top + bottom <=? c_fh c) = true) by (apply Z.leb_le; lia). rewrite E2.
    unfold sub_u. rewrite chk16 by lia. cbn [wlift wbind]. rewrite chk16 by lia. cbn [wbind].
    rewrite write_command_spec. cbn [wemit app instruction params]. reflexivity.
Qed.

(* the same in both build profiles: no panic, no wrapped value *)
Lemma scroll_region_mode_indep fw fh top bottom b e rc bc :
  0 <= top <= 65535 -> 0 <= bottom <= 65535 -> 1 <= fh <= 65535 ->
  set_vertical_scroll_region {| c_md := Debug; c_batch := b; c_fw := fw; c_fh := fh; c_enc := e; c_rowcap := rc; c_blockcap := bc |} top bottom
  = set_vertical_scroll_region {| c_md := Release; c_batch := b; c_fw := fw; c_fh := fh; c_enc := e; c_rowcap := rc; c_blockcap := bc |} top bottom.
Proof. intros Ht Hb Hf. rewrite !scroll_region_spec by (cbn; lia). reflexivity. Qed.

Lemma scroll_offset_spec v :
  set_vertical_scroll_offset v = ([ECmd 0x37 [v / 256; v mod 256]], Ok tt).
Proof. unfold set_vertical_scroll_offset. rewrite write_command_spec. reflexivity. Qed.

(* the step function: exactly one event, state untouched (so the orientation is neither read nor changed) *)
Lemma step_scroll_region c st top bottom :
  0 <= top <= 65535 -> 0 <= bottom <= 65535 -> 1 <= c_fh c <= 65535 ->
  step c st (PScrollRegion top bottom) =
  (let '(t, s, b) := scroll_areas (c_fh c) top bottom in [ECmd 0x33 (be16 t ++ be16 s ++ be16 b)], ROk, st).
Proof.
  intros Ht Hb Hf. unfold step. rewrite scroll_region_spec by assumption.
  destruct (scroll_areas (c_fh c) top bottom) as [[t s] b]. reflexivity.
Qed.
Lemma step_scroll_offset c st v :
  step c st (PScrollOffset v) = ([ECmd 0x37 [v / 256; v mod 256]], ROk, st).
Proof. unfold step. rewrite scroll_offset_spec. reflexivity. Qed.

(* what the reference controller decodes from the two commands *)
Require Import Oracle.Controller Proofs.CtlP.
Lemma ctl_scroll_region k t s b :
  k_page k = false -> 0 <= t <= 65535 -> 0 <= s <= 65535 -> 0 <= b <= 65535 ->
  let k' := ctl_run k [ECmd 0x33 (be16 t ++ be16 s ++ be16 b)] in
  k_vscr k' = Some (t, s, b) /\ k_flags k' = k_flags k /\ k_wrev k' = k_wrev k /\ k_madctl k' = k_madctl k /\
  k_asleep k' = k_asleep k.
Proof.
  intros Hpg Ht Hs Hb. cbn [ctl_run fold_left ctl_step]. unfold be16; cbn [app].
  unfold command. rewrite Hpg. cbn -[Z.div Z.modulo Z.mul Z.add].
  rewrite !be16_de by lia. repeat split.
Qed.
Lemma ctl_scroll_offset k v :
  k_page k = false -> 0 <= v <= 65535 ->
  let k' := ctl_run k [ECmd 0x37 [v / 256; v mod 256]] in
  k_vstart k' = Some v /\ k_flags k' = k_flags k /\ k_wrev k' = k_wrev k.
Proof.
  intros Hpg Hv. cbn [ctl_run fold_left ctl_step].
  unfold command. rewrite Hpg. cbn -[Z.div Z.modulo Z.mul Z.add].
  rewrite !be16_de by lia. repeat split.
Qed.
