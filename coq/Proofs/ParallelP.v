(* ParallelP.v — proofs about Model/Parallel.v: the change-mask cache of the generic output bus is
   sound over every history of calls and pin faults, and the values the panel latches at the rising
   edges of WR are exactly the words sent (C07). *)
Require Import Model.Base Model.Events Model.Parallel.

(* ---------------------------------------------------------------- list helpers *)
Lemma map_repeat_eq {A B} (f : A -> B) (x : A) (n : nat) : map f (repeat x n) = repeat (f x) n.
Proof. induction n as [|n IH]; cbn [repeat map]; [reflexivity | rewrite IH; reflexivity]. Qed.

Lemma concat_repeat_repeat {A} (x : A) (m k : nat) : concat (repeat (repeat x m) k) = repeat x (k * m).
Proof.
  induction k as [|k IH]; cbn [repeat concat Nat.mul]; [reflexivity|].
  rewrite IH, <- repeat_app. reflexivity.
Qed.

Lemma concat_repeat_single {A} (p : A) (k : nat) : concat (repeat [p] k) = repeat p k.
Proof. induction k as [|k IH]; cbn [repeat concat app]; [reflexivity | rewrite IH; reflexivity]. Qed.

Lemma concat_repeat_nil {A} (k : nat) : concat (repeat (@nil A) k) = [].
Proof. induction k as [|k IH]; cbn [repeat concat app]; auto. Qed.

Lemma repeat_cons_pred {A} (x : A) (n : nat) : (0 < n)%nat -> x :: repeat x (n - 1) = repeat x n.
Proof. intros Hn. destruct n as [|n]; [lia|]. cbn [repeat]. replace (S n - 1)%nat with n by lia. reflexivity. Qed.

(* ---------------------------------------------------------------- set_nth *)
Lemma set_nth_length (l : list bool) (i : nat) (b : bool) : length (set_nth l i b) = length l.
Proof.
  revert i; induction l as [|h t IH]; intros [|i]; cbn [set_nth length]; try reflexivity.
  rewrite IH; reflexivity.
Qed.

Lemma nth_set_nth (l : list bool) : forall (i : nat) (b : bool) (j : nat), (j < length l)%nat ->
  nth j (set_nth l i b) false = if (j =? i)%nat then b else nth j l false.
Proof.
  induction l as [|h t IH]; intros i b j Hj; cbn [length] in Hj; [lia|].
  destruct i as [|i], j as [|j]; cbn [set_nth nth Nat.eqb]; try reflexivity.
  apply IH. lia.
Qed.

(* ---------------------------------------------------------------- lines_after / sample_par *)
Lemma lines_after_nil (st : lines) : lines_after st [] = st.
Proof. reflexivity. Qed.

Lemma lines_after_cons (st : lines) (o : l2op) (r : list l2op) :
  lines_after st (o :: r) = lines_after (line_step st o) r.
Proof. reflexivity. Qed.

Lemma lines_after_app (st : lines) (a b : list l2op) :
  lines_after st (a ++ b) = lines_after (lines_after st a) b.
Proof. unfold lines_after. apply fold_left_app. Qed.

Lemma sample_par_app (a : list l2op) : forall (st : lines) (b : list l2op),
  sample_par st (a ++ b) = sample_par st a ++ sample_par (lines_after st a) b.
Proof.
  induction a as [|o a IH]; intros st b; [reflexivity|].
  rewrite lines_after_cons. cbn [app sample_par]. rewrite IH, <- app_assoc. reflexivity.
Qed.

Lemma line_step_length (st : lines) (o : l2op) : length (l_pins (line_step st o)) = length (l_pins st).
Proof. destruct o; cbn [line_step l_pins]; try reflexivity. apply set_nth_length. Qed.

Lemma lines_after_length (ops : list l2op) : forall st : lines,
  length (l_pins (lines_after st ops)) = length (l_pins st).
Proof.
  induction ops as [|o ops IH]; intros st; [reflexivity|].
  rewrite lines_after_cons, IH. apply line_step_length.
Qed.

(* ---------------------------------------------------------------- data_value and bits *)
Lemma data_value_from_shift (pins : list bool) : forall i, 0 <= i ->
  data_value_from i pins = 2 ^ i * data_value_from 0 pins.
Proof.
  induction pins as [|b r IH]; intros i Hi; cbn [data_value_from]; [lia|].
  rewrite (IH (i + 1)) by lia. rewrite (IH (0 + 1)) by lia.
  rewrite Z.pow_add_r by lia.
  change (2 ^ (0 + 1)) with 2. change (2 ^ 0) with 1. change (2 ^ 1) with 2.
  generalize (2 ^ i) as P. generalize (data_value_from 0 r) as D. intros D P.
  destruct b; ring.
Qed.

Lemma data_value_cons (b : bool) (r : list bool) : data_value (b :: r) = Z.b2z b + 2 * data_value r.
Proof.
  unfold data_value; cbn [data_value_from]. rewrite (data_value_from_shift r (0 + 1)) by lia.
  change (2 ^ (0 + 1)) with 2. change (2 ^ 0) with 1. destruct b; reflexivity.
Qed.

Lemma data_value_nil : data_value [] = 0.
Proof. reflexivity. Qed.

Lemma data_value_range (pins : list bool) : 0 <= data_value pins < 2 ^ Z.of_nat (length pins).
Proof.
  induction pins as [|b r IH]; [cbn; lia|].
  rewrite data_value_cons. cbn [length]. rewrite Nat2Z.inj_succ, Z.pow_succ_r by lia.
  destruct b; cbn [Z.b2z]; lia.
Qed.

Lemma testbit_data_value (pins : list bool) : forall j : nat, (j < length pins)%nat ->
  Z.testbit (data_value pins) (Z.of_nat j) = nth j pins false.
Proof.
  induction pins as [|b r IH]; intros j Hj; cbn [length] in Hj; [lia|].
  rewrite data_value_cons. replace (Z.b2z b + 2 * data_value r) with (2 * data_value r + Z.b2z b) by lia.
  destruct j as [|j].
  - change (Z.of_nat 0) with 0. rewrite Z.testbit_0_r. reflexivity.
  - rewrite Nat2Z.inj_succ, Z.testbit_succ_r by lia. cbn [nth]. apply IH. lia.
Qed.

Lemma testbit_high (a n m : Z) : 0 <= n -> 0 <= a < 2 ^ n -> n <= m -> Z.testbit a m = false.
Proof.
  intros Hn Ha Hm. apply Z.testbit_false; [lia|].
  assert (Hp : 2 ^ n <= 2 ^ m) by (apply Z.pow_le_mono_r; lia).
  rewrite Z.div_small by lia. reflexivity.
Qed.

(* the pins show v as soon as they agree bitwise with v *)
Lemma data_value_char (w : nat) (pins : list bool) (v : Z) :
  length pins = w -> 0 <= v < 2 ^ Z.of_nat w ->
  (forall j : nat, (j < w)%nat -> nth j pins false = Z.testbit v (Z.of_nat j)) ->
  data_value pins = v.
Proof.
  intros Hlen Hv Hbits. apply Z.bits_inj'. intros n Hn.
  destruct (Z_lt_le_dec n (Z.of_nat w)) as [Hlt|Hge].
  - replace n with (Z.of_nat (Z.to_nat n)) by lia.
    rewrite testbit_data_value by lia. apply Hbits. lia.
  - pose proof (data_value_range pins) as Hr. rewrite Hlen in Hr.
    rewrite (testbit_high (data_value pins) (Z.of_nat w) n) by lia.
    rewrite (testbit_high v (Z.of_nat w) n) by lia. reflexivity.
Qed.

(* ---------------------------------------------------------------- 1. pin_ops *)
Ltac zbool :=
  repeat match goal with
  | |- context [?a <=? ?b] => destruct (Z.leb_spec a b)
  | |- context [?a <? ?b] => destruct (Z.ltb_spec a b)
  | |- context [(?a =? ?b)%nat] => destruct (Nat.eqb_spec a b)
  end; cbn [andb].

Lemma pin_ops_lines (n : nat) : forall (i v ch : Z) (st : lines), 0 <= i ->
  l_dc (lines_after st (pin_ops n i v ch)) = l_dc st /\
  l_wr (lines_after st (pin_ops n i v ch)) = l_wr st /\
  forall j : nat, (j < length (l_pins st))%nat ->
    nth j (l_pins (lines_after st (pin_ops n i v ch))) false =
    if (i <=? Z.of_nat j) && (Z.of_nat j <? i + Z.of_nat n) && Z.testbit ch (Z.of_nat j)
    then Z.testbit v (Z.of_nat j) else nth j (l_pins st) false.
Proof.
  induction n as [|n IH]; intros i v ch st Hi; cbn [pin_ops].
  - rewrite lines_after_nil. split; [reflexivity|]. split; [reflexivity|].
    intros j Hj. zbool; try reflexivity. lia.
  - rewrite lines_after_app.
    set (hd := if Z.testbit ch i then [OPin i (Z.testbit v i)] else []).
    assert (H1 : l_dc (lines_after st hd) = l_dc st /\ l_wr (lines_after st hd) = l_wr st /\
                 length (l_pins (lines_after st hd)) = length (l_pins st) /\
                 forall j : nat, (j < length (l_pins st))%nat ->
                   nth j (l_pins (lines_after st hd)) false =
                   if (Z.of_nat j =? i) && Z.testbit ch i then Z.testbit v i else nth j (l_pins st) false).
    { subst hd. destruct (Z.testbit ch i) eqn:Ech.
      - cbn [lines_after fold_left line_step l_dc l_wr l_pins].
        split; [reflexivity|]. split; [reflexivity|]. split; [apply set_nth_length|].
        intros j Hj. rewrite nth_set_nth by exact Hj.
        destruct (Nat.eqb_spec j (Z.to_nat i)) as [E|E]; destruct (Z.eqb_spec (Z.of_nat j) i) as [E'|E'];
          cbn [andb]; try reflexivity; lia.
      - rewrite lines_after_nil. split; [reflexivity|]. split; [reflexivity|]. split; [reflexivity|].
        intros j Hj. rewrite andb_false_r. reflexivity. }
    destruct H1 as (Hd1 & Hw1 & Hl1 & Hn1).
    destruct (IH (i + 1) v ch (lines_after st hd)) as (Hd2 & Hw2 & Hn2); [lia|].
    split; [rewrite Hd2; exact Hd1|]. split; [rewrite Hw2; exact Hw1|].
    intros j Hj. rewrite Hn2 by (rewrite Hl1; exact Hj). rewrite Hn1 by exact Hj.
    destruct (Z.eqb_spec (Z.of_nat j) i) as [E|E].
    + rewrite E. destruct (Z.testbit ch i) eqn:Ech; zbool; try reflexivity; lia.
    + cbn [andb]. destruct (Z.testbit ch (Z.of_nat j)) eqn:Ech; zbool; try reflexivity; lia.
Qed.

Lemma pin_ops_quiet (n : nat) : forall (i v ch : Z) (st : lines), sample_par st (pin_ops n i v ch) = [].
Proof.
  induction n as [|n IH]; intros i v ch st; cbn [pin_ops]; [reflexivity|].
  rewrite sample_par_app, IH, app_nil_r.
  destruct (Z.testbit ch i); reflexivity.
Qed.

(* after applying the pin writes of one call: changed bits show the new value, the others and the
   control lines are untouched *)
Theorem pin_ops_effect : forall (w : nat) (v changed : Z) (pins : list bool) (d x : bool),
  length pins = w ->
  let st' := lines_after {| l_pins := pins; l_dc := d; l_wr := x |} (pin_ops w 0 v changed) in
  length (l_pins st') = w /\ l_dc st' = d /\ l_wr st' = x /\
  forall j : nat, (j < w)%nat ->
    nth j (l_pins st') false =
    if Z.testbit changed (Z.of_nat j) then Z.testbit v (Z.of_nat j) else nth j pins false.
Proof.
  intros w v changed pins d x Hlen st'. subst st'.
  destruct (pin_ops_lines w 0 v changed {| l_pins := pins; l_dc := d; l_wr := x |}) as (Hd & Hw & Hn); [lia|].
  cbn [l_pins l_dc l_wr] in *.
  split; [rewrite lines_after_length; exact Hlen|]. split; [exact Hd|]. split; [exact Hw|].
  intros j Hj. rewrite Hn by lia. zbool; try reflexivity; lia.
Qed.

(* any prefix (a fault in the middle), with or without the last write taking effect: every pin is
   either still old or already shows its bit of v *)
Definition writes_bits_of (v : Z) (o : l2op) : Prop := exists i, 0 <= i /\ o = OPin i (Z.testbit v i).

Lemma pin_ops_writes_bits (n : nat) : forall i v ch, 0 <= i -> Forall (writes_bits_of v) (pin_ops n i v ch).
Proof.
  induction n as [|n IH]; intros i v ch Hi; cbn [pin_ops]; [constructor|].
  apply Forall_app. split; [|apply IH; lia].
  destruct (Z.testbit ch i); constructor; [|constructor]. exists i. split; [exact Hi | reflexivity].
Qed.

Lemma writes_bits_effect (v : Z) (ops : list l2op) : Forall (writes_bits_of v) ops ->
  forall (st : lines) (j : nat), (j < length (l_pins st))%nat ->
    nth j (l_pins (lines_after st ops)) false = nth j (l_pins st) false \/
    nth j (l_pins (lines_after st ops)) false = Z.testbit v (Z.of_nat j).
Proof.
  induction 1 as [|o ops Ho Hops IH]; intros st j Hj; [left; reflexivity|].
  rewrite lines_after_cons. destruct Ho as (i & Hi & ->).
  destruct (IH (line_step st (OPin i (Z.testbit v i))) j) as [E|E].
  - rewrite line_step_length. exact Hj.
  - rewrite E. cbn [line_step l_pins]. rewrite nth_set_nth by exact Hj.
    destruct (Nat.eqb_spec j (Z.to_nat i)) as [Ej|Ej]; [right | left; reflexivity].
    subst j. rewrite Z2Nat.id by lia. reflexivity.
  - right. exact E.
Qed.

Lemma Forall_firstn {A} (P : A -> Prop) (l : list A) : forall k, Forall P l -> Forall P (firstn k l).
Proof.
  induction l as [|a l IH]; intros [|k] H; cbn [firstn]; try constructor.
  - inversion H; assumption.
  - apply IH. inversion H; assumption.
Qed.

Lemma Forall_removelast {A} (P : A -> Prop) (l : list A) : Forall P l -> Forall P (removelast l).
Proof.
  induction l as [|a l IH]; intros H; cbn [removelast]; [constructor|].
  destruct l as [|b l]; [constructor|]. inversion H; subst. constructor; [assumption | apply IH; assumption].
Qed.

Theorem pin_ops_prefix_effect : forall (w : nat) (v changed : Z) (k : nat) (drop_last : bool) (st : lines) (j : nat),
  (j < length (l_pins st))%nat ->
  let applied := if drop_last then removelast (firstn k (pin_ops w 0 v changed)) else firstn k (pin_ops w 0 v changed) in
  nth j (l_pins (lines_after st applied)) false = nth j (l_pins st) false \/
  nth j (l_pins (lines_after st applied)) false = Z.testbit v (Z.of_nat j).
Proof.
  intros w v changed k drop_last st j Hj applied. apply writes_bits_effect; [|exact Hj].
  subst applied. pose proof (pin_ops_writes_bits w 0 v changed (Z.le_refl 0)) as H.
  destruct drop_last; [apply Forall_removelast|]; apply Forall_firstn; exact H.
Qed.

(* ---------------------------------------------------------------- 2. set_value, fault-free *)
Lemma bus_set_value_lines (w : nat) (last : option Z) (v : Z) (st : lines) :
  bus_inv w (last, l_pins st) -> 0 <= v < 2 ^ Z.of_nat w ->
  snd (bus_set_value w last v) = Some v /\
  data_value (l_pins (lines_after st (fst (bus_set_value w last v)))) = v /\
  length (l_pins (lines_after st (fst (bus_set_value w last v)))) = w /\
  l_dc (lines_after st (fst (bus_set_value w last v))) = l_dc st /\
  l_wr (lines_after st (fst (bus_set_value w last v))) = l_wr st /\
  sample_par st (fst (bus_set_value w last v)) = [].
Proof.
  intros [Hlen Hc] Hv. cbn [fst snd] in Hlen, Hc. unfold bus_set_value.
  destruct last as [old|].
  - destruct Hc as [Hdv Hold]. destruct (Z.eqb_spec old v) as [E|E].
    + subst v. cbn [fst snd]. rewrite lines_after_nil. repeat split; auto.
    + cbn [fst snd].
      destruct (pin_ops_lines w 0 v (Z.lxor v old) st) as (Hd & Hw & Hn); [lia|].
      split; [reflexivity|]. split; [|split; [|split; [|split]]].
      * apply (data_value_char w); [rewrite lines_after_length; exact Hlen | exact Hv |].
        intros j Hj. rewrite Hn by lia.
        rewrite <- (testbit_data_value (l_pins st) j) by lia. rewrite Hdv, Z.lxor_spec.
        zbool; try lia.
        destruct (Z.testbit v (Z.of_nat j)), (Z.testbit old (Z.of_nat j)); reflexivity.
      * rewrite lines_after_length; exact Hlen.
      * exact Hd.
      * exact Hw.
      * apply pin_ops_quiet.
  - cbn [fst snd].
    destruct (pin_ops_lines w 0 v (all_ones w) st) as (Hd & Hw & Hn); [lia|].
    split; [reflexivity|]. split; [|split; [|split; [|split]]].
    * apply (data_value_char w); [rewrite lines_after_length; exact Hlen | exact Hv |].
      intros j Hj. rewrite Hn by lia.
      unfold all_ones. replace (2 ^ Z.of_nat w - 1) with (Z.ones (Z.of_nat w)) by (rewrite Z.ones_equiv; lia).
      rewrite Z.testbit_ones by lia.
      zbool; try lia. reflexivity.
    * rewrite lines_after_length; exact Hlen.
    * exact Hd.
    * exact Hw.
    * apply pin_ops_quiet.
Qed.

Theorem bus_set_value_ok : forall (w : nat) (last : option Z) (pins : list bool) (d x : bool) (v : Z),
  bus_inv w (last, pins) -> 0 <= v < 2 ^ Z.of_nat w ->
  let '(ops, last') := bus_set_value w last v in
  let st' := lines_after {| l_pins := pins; l_dc := d; l_wr := x |} ops in
  last' = Some v /\ data_value (l_pins st') = v /\ length (l_pins st') = w /\ l_dc st' = d /\ l_wr st' = x.
Proof.
  intros w last pins d x v Hinv Hv.
  pose proof (bus_set_value_lines w last v {| l_pins := pins; l_dc := d; l_wr := x |} Hinv Hv) as H.
  destruct (bus_set_value w last v) as [ops last']. cbn [fst snd l_dc l_wr] in H.
  destruct H as (H1 & H2 & H3 & H4 & H5 & _). cbv zeta. auto.
Qed.

(* ---------------------------------------------------------------- 3. the cache invariant *)
Theorem bus_inv_new : forall (w : nat) (pins : list bool), length pins = w -> bus_inv w (None, pins).
Proof. intros w pins H. split; [exact H | exact I]. Qed.

Theorem bus_call_inv : forall (w : nat) (st : option Z * list bool) (c : bus_call),
  bus_inv w st -> 0 <= bc_value c < 2 ^ Z.of_nat w -> bus_inv w (bus_call_step w st c).
Proof.
  intros w [last pins] [v fail eff] Hinv Hv. cbn [bc_value] in Hv.
  unfold bus_call_step, bus_set_value_f. cbn [bc_value bc_fail bc_eff].
  pose proof (bus_set_value_lines w last v {| l_pins := pins; l_dc := false; l_wr := false |} Hinv Hv) as H.
  destruct (bus_set_value w last v) as [ops last']. cbn [fst snd] in H.
  destruct H as (H1 & H2 & H3 & _).
  assert (Hok : bus_inv w (last', l_pins (lines_after {| l_pins := pins; l_dc := false; l_wr := false |} ops))).
  { subst last'. split; cbn [fst snd]; [exact H3 | split; [exact H2 | exact Hv]]. }
  assert (Hfail : forall applied, bus_inv w (None, l_pins (lines_after {| l_pins := pins; l_dc := false; l_wr := false |} applied))).
  { intros applied. split; cbn [fst snd]; [|exact I]. rewrite lines_after_length. exact (proj1 Hinv). }
  destruct fail as [k|]; [destruct (k <? length ops)%nat|]; cbv beta iota; cbn [orb];
    try exact Hok; apply Hfail.
Qed.

Theorem bus_history_inv : forall (w : nat) (h : list bus_call) (st : option Z * list bool),
  bus_inv w st -> Forall (fun c => 0 <= bc_value c < 2 ^ Z.of_nat w) h -> bus_inv w (bus_history w st h).
Proof.
  intros w h. induction h as [|c h IH]; intros st Hinv Hall; [exact Hinv|].
  inversion Hall as [|c' h' Hc Hh]; subst. unfold bus_history; cbn [fold_left].
  apply IH; [apply bus_call_inv; assumption | assumption].
Qed.

(* a call that did not fail leaves the pins showing its value, whatever happened before *)
Theorem bus_call_success : forall (w : nat) (st : option Z * list bool) (c : bus_call),
  bus_inv w st -> 0 <= bc_value c < 2 ^ Z.of_nat w ->
  (bc_fail c = None \/
   exists k : nat, bc_fail c = Some k /\ (length (fst (bus_set_value w (fst st) (bc_value c))) <= k)%nat) ->
  fst (bus_call_step w st c) = Some (bc_value c) /\
  data_value (snd (bus_call_step w st c)) = bc_value c.
Proof.
  intros w [last pins] [v fail eff] Hinv Hv Hnf. cbn [bc_value bc_fail fst] in Hv, Hnf |- *.
  unfold bus_call_step, bus_set_value_f. cbn [bc_value bc_fail bc_eff].
  pose proof (bus_set_value_lines w last v {| l_pins := pins; l_dc := false; l_wr := false |} Hinv Hv) as H.
  destruct (bus_set_value w last v) as [ops last']. cbn [fst snd] in H, Hnf.
  destruct H as (H1 & H2 & _). subst last'.
  destruct Hnf as [->|(k & -> & Hk)].
  - cbv beta iota. cbn [orb fst snd]. split; [reflexivity | exact H2].
  - destruct (Nat.ltb_spec k (length ops)) as [Hlt|_]; [lia|].
    cbv beta iota. cbn [orb fst snd]. split; [reflexivity | exact H2].
Qed.

(* after a successful call in any history the state is (Some v, pins showing v) *)
Corollary bus_history_last_success : forall (w : nat) (h : list bus_call) (st : option Z * list bool) (c : bus_call),
  bus_inv w st -> Forall (fun c => 0 <= bc_value c < 2 ^ Z.of_nat w) (h ++ [c]) ->
  bc_fail c = None ->
  fst (bus_history w st (h ++ [c])) = Some (bc_value c) /\
  data_value (snd (bus_history w st (h ++ [c]))) = bc_value c.
Proof.
  intros w h st c Hinv Hall Hc. apply Forall_app in Hall. destruct Hall as [Hh Hc'].
  inversion Hc' as [|c0 l0 Hcv _]; subst.
  unfold bus_history. rewrite fold_left_app. cbn [fold_left].
  apply bus_call_success; [apply bus_history_inv; assumption | exact Hcv | left; exact Hc].
Qed.

(* ---------------------------------------------------------------- 4. send_word *)
Lemma par_send_word_lines (w : nat) (last : option Z) (word : Z) (st : lines) (ops : list l2op) (l' : option Z) :
  bus_inv w (last, l_pins st) -> 0 <= word < 2 ^ Z.of_nat w ->
  par_send_word w last word = (ops, l') ->
  sample_par st ops = [(l_dc st, word)] /\
  bus_inv w (l', l_pins (lines_after st ops)) /\
  l_wr (lines_after st ops) = true /\ l_dc (lines_after st ops) = l_dc st.
Proof.
  intros Hinv Hw. unfold par_send_word.
  pose proof (bus_set_value_lines w last word (line_step st (OWr false)) Hinv Hw) as H.
  destruct (bus_set_value w last word) as [bops bl]. cbn [fst snd] in H.
  destruct H as (H1 & H2 & H3 & H4 & H5 & H6).
  change (l_dc (line_step st (OWr false))) with (l_dc st) in H4.
  change (l_wr (line_step st (OWr false))) with false in H5.
  intros E. injection E as <- <-.
  rewrite lines_after_cons, lines_after_app.
  set (st1 := lines_after (line_step st (OWr false)) bops) in *.
  split; [|split; [|split]].
  - change (sample_par st (OWr false :: bops ++ [OWr true]))
      with (sample_par (line_step st (OWr false)) (bops ++ [OWr true])).
    rewrite sample_par_app, H6. fold st1. cbn [sample_par app].
    rewrite H5, H4, H2. reflexivity.
  - cbn [lines_after fold_left line_step l_pins]. subst bl.
    split; cbn [fst snd]; [exact H3 | split; [exact H2 | exact Hw]].
  - reflexivity.
  - cbn [lines_after fold_left line_step l_dc]. exact H4.
Qed.

Theorem par_word_latched : forall (w : nat) (last : option Z) (word : Z) (st : lines),
  bus_inv w (last, l_pins st) -> 0 <= word < 2 ^ Z.of_nat w ->
  let '(ops, l') := par_send_word w last word in
  sample_par st ops = [(l_dc st, word)] /\
  bus_inv w (l', l_pins (lines_after st ops)) /\
  l_wr (lines_after st ops) = true /\ l_dc (lines_after st ops) = l_dc st.
Proof.
  intros w last word st Hinv Hw.
  destruct (par_send_word w last word) as [ops l'] eqn:E.
  exact (par_send_word_lines w last word st ops l' Hinv Hw E).
Qed.

(* ---------------------------------------------------------------- 5. words, command, pixels, repeat *)
Lemma par_send_words_lines (w : nat) (ws : list Z) : forall (last : option Z) (st : lines) (ops : list l2op) (l' : option Z),
  bus_inv w (last, l_pins st) -> Forall (fun x => 0 <= x < 2 ^ Z.of_nat w) ws ->
  par_send_words w last ws = (ops, l') ->
  sample_par st ops = map (pair (l_dc st)) ws /\
  bus_inv w (l', l_pins (lines_after st ops)) /\ l_dc (lines_after st ops) = l_dc st.
Proof.
  induction ws as [|x r IH]; intros last st ops l' Hinv Hall; cbn [par_send_words].
  - intros E. injection E as <- <-. rewrite lines_after_nil. auto.
  - inversion Hall as [|x' r' Hx Hr]; subst.
    destruct (par_send_word w last x) as [o1 l1] eqn:E1.
    destruct (par_send_words w l1 r) as [o2 l2] eqn:E2.
    intros E. injection E as <- <-.
    destruct (par_send_word_lines w last x st o1 l1 Hinv Hx E1) as (S1 & I1 & _ & D1).
    destruct (IH l1 (lines_after st o1) o2 l2 I1 Hr E2) as (S2 & I2 & D2).
    rewrite sample_par_app, lines_after_app, S1, S2, D1. cbn [map app].
    split; [reflexivity|]. split; [exact I2|]. rewrite D2. exact D1.
Qed.

Theorem par_words_latched : forall (w : nat) (last : option Z) (ws : list Z) (st : lines),
  bus_inv w (last, l_pins st) -> Forall (fun x => 0 <= x < 2 ^ Z.of_nat w) ws ->
  let '(ops, l') := par_send_words w last ws in
  sample_par st ops = map (pair (l_dc st)) ws /\
  bus_inv w (l', l_pins (lines_after st ops)) /\ l_dc (lines_after st ops) = l_dc st.
Proof.
  intros w last ws st Hinv Hall.
  destruct (par_send_words w last ws) as [ops l'] eqn:E.
  exact (par_send_words_lines w ws last st ops l' Hinv Hall E).
Qed.

Lemma par_send_command_lines (w : nat) (last : option Z) (cmd : Z) (args : list Z) (st : lines)
      (ops : list l2op) (l' : option Z) (r : outcome unit) :
  bus_inv w (last, l_pins st) -> 0 <= cmd < 2 ^ Z.of_nat w -> Forall (fun x => 0 <= x < 2 ^ Z.of_nat w) args ->
  par_send_command w last cmd args = (ops, l', r) ->
  r = Ok tt /\ sample_par st ops = (false, cmd) :: map (pair true) args /\
  bus_inv w (l', l_pins (lines_after st ops)) /\ l_dc (lines_after st ops) = true.
Proof.
  intros Hinv Hc Hargs. unfold par_send_command.
  destruct (par_send_word w last cmd) as [o1 l1] eqn:E1.
  destruct (par_send_words w l1 args) as [o2 l2] eqn:E2.
  intros E. injection E as <- <- <-.
  set (st0 := line_step st (ODc false)).
  destruct (par_send_word_lines w last cmd st0 o1 l1 Hinv Hc E1) as (S1 & I1 & _ & D1).
  set (st1 := lines_after st0 o1) in *.
  set (st2 := line_step st1 (ODc true)).
  destruct (par_send_words_lines w args l1 st2 o2 l2 I1 Hargs E2) as (S2 & I2 & D2).
  assert (EL : lines_after st (ODc false :: o1 ++ ODc true :: o2) = lines_after st2 o2).
  { rewrite lines_after_cons, lines_after_app, lines_after_cons. reflexivity. }
  split; [reflexivity|]. split; [|split].
  - change (sample_par st (ODc false :: o1 ++ ODc true :: o2)) with (sample_par st0 (o1 ++ ODc true :: o2)).
    rewrite sample_par_app. fold st1.
    change (sample_par st1 (ODc true :: o2)) with (sample_par st2 o2).
    rewrite S1, S2. reflexivity.
  - rewrite EL. exact I2.
  - rewrite EL, D2. reflexivity.
Qed.

Theorem par_command_latched : forall (w : nat) (last : option Z) (cmd : Z) (args : list Z) (st : lines),
  bus_inv w (last, l_pins st) -> 0 <= cmd < 2 ^ Z.of_nat w -> Forall (fun x => 0 <= x < 2 ^ Z.of_nat w) args ->
  let '(ops, l', r) := par_send_command w last cmd args in
  r = Ok tt /\ sample_par st ops = (false, cmd) :: map (pair true) args /\
  bus_inv w (l', l_pins (lines_after st ops)) /\ l_dc (lines_after st ops) = true.
Proof.
  intros w last cmd args st Hinv Hc Hargs.
  destruct (par_send_command w last cmd args) as [[ops l'] r] eqn:E.
  exact (par_send_command_lines w last cmd args st ops l' r Hinv Hc Hargs E).
Qed.

Lemma par_send_pixels_lines (w : nat) (last : option Z) (px : list (list Z)) (st : lines)
      (ops : list l2op) (l' : option Z) (r : outcome unit) :
  bus_inv w (last, l_pins st) -> Forall (Forall (fun x => 0 <= x < 2 ^ Z.of_nat w)) px ->
  par_send_pixels w last px = (ops, l', r) ->
  r = Ok tt /\ sample_par st ops = map (pair (l_dc st)) (concat px) /\
  bus_inv w (l', l_pins (lines_after st ops)) /\ l_dc (lines_after st ops) = l_dc st.
Proof.
  intros Hinv Hpx. unfold par_send_pixels.
  destruct (par_send_words w last (concat px)) as [o l] eqn:E1.
  intros E. injection E as <- <- <-.
  apply Forall_concat in Hpx.
  destruct (par_send_words_lines w (concat px) last st o l Hinv Hpx E1) as (S1 & I1 & D1).
  auto.
Qed.

Theorem par_pixels_latched : forall (w : nat) (last : option Z) (px : list (list Z)) (st : lines),
  bus_inv w (last, l_pins st) -> Forall (Forall (fun x => 0 <= x < 2 ^ Z.of_nat w)) px ->
  let '(ops, l', r) := par_send_pixels w last px in
  r = Ok tt /\ sample_par st ops = map (pair (l_dc st)) (concat px) /\
  bus_inv w (l', l_pins (lines_after st ops)) /\ l_dc (lines_after st ops) = l_dc st.
Proof.
  intros w last px st Hinv Hpx.
  destruct (par_send_pixels w last px) as [[ops l'] r] eqn:E.
  exact (par_send_pixels_lines w last px st ops l' r Hinv Hpx E).
Qed.

(* fn is_same *)
Lemma forallb_eqb_repeat (a : Z) (r : list Z) : forallb (Z.eqb a) r = true -> r = repeat a (length r).
Proof.
  induction r as [|b r IH]; cbn [forallb length repeat]; [reflexivity|].
  intros H. apply andb_true_iff in H. destruct H as [H1 H2]. apply Z.eqb_eq in H1. subst b.
  rewrite <- IH by exact H2. reflexivity.
Qed.

Lemma is_same_some (p : list Z) (x : Z) : is_same p = Some x -> p = repeat x (length p) /\ p <> [].
Proof.
  destruct p as [|a r]; cbn [is_same]; [discriminate|].
  destruct (forallb (Z.eqb a) r) eqn:E; [|discriminate].
  intros H. injection H as <-. split; [|discriminate].
  cbn [length repeat]. rewrite <- forallb_eqb_repeat by exact E. reflexivity.
Qed.

Lemma is_same_none (p : list Z) : is_same p = None -> p = [] \/ exists x y, In x p /\ In y p /\ x <> y.
Proof.
  destruct p as [|a r]; cbn [is_same]; [left; reflexivity|].
  destruct (forallb (Z.eqb a) r) eqn:E; [discriminate|]. intros _. right.
  assert (H : exists y, In y r /\ a <> y).
  { induction r as [|b r IH]; cbn [forallb] in E; [discriminate|].
    destruct (Z.eqb_spec a b) as [Eab|Eab]; cbn [andb] in E.
    - destruct (IH E) as (y & Hy & Hne). exists y. split; [right; exact Hy | exact Hne].
    - exists b. split; [left; reflexivity | exact Eab]. }
  destruct H as (y & Hy & Hne). exists a, y. split; [left; reflexivity|]. split; [right; exact Hy | exact Hne].
Qed.

(* bare strobes: each one latches whatever the pins show — the pins do not move *)
Lemma strobes_nat_lines (k : nat) : forall st : lines,
  sample_par st (concat (repeat [OWr false; OWr true] k)) = repeat (l_dc st, data_value (l_pins st)) k /\
  l_pins (lines_after st (concat (repeat [OWr false; OWr true] k))) = l_pins st /\
  l_dc (lines_after st (concat (repeat [OWr false; OWr true] k))) = l_dc st.
Proof.
  induction k as [|k IH]; intros st; cbn [repeat concat app]; [rewrite lines_after_nil; auto|].
  destruct (IH (line_step (line_step st (OWr false)) (OWr true))) as (S1 & P1 & D1).
  cbn [line_step l_pins l_dc l_wr] in S1, P1, D1.
  rewrite !lines_after_cons. cbn [sample_par line_step l_pins l_dc l_wr app].
  rewrite S1, P1, D1. auto.
Qed.

Lemma strobes_lines (n : Z) (st : lines) :
  sample_par st (strobes n) = repeat (l_dc st, data_value (l_pins st)) (Z.to_nat n) /\
  l_pins (lines_after st (strobes n)) = l_pins st /\ l_dc (lines_after st (strobes n)) = l_dc st.
Proof. unfold strobes. apply strobes_nat_lines. Qed.

Lemma par_send_repeated_lines (w : nat) (md : mode) (last : option Z) (pixel : list Z) (count : Z) (st : lines)
      (ops : list l2op) (l' : option Z) (r : outcome unit) :
  bus_inv w (last, l_pins st) -> Forall (fun x => 0 <= x < 2 ^ Z.of_nat w) pixel -> 0 <= count ->
  par_send_repeated true md w last pixel count = (ops, l', r) ->
  r = Ok tt /\ sample_par st ops = map (pair (l_dc st)) (concat (repeat pixel (Z.to_nat count))) /\
  bus_inv w (l', l_pins (lines_after st ops)) /\ l_dc (lines_after st ops) = l_dc st.
Proof.
  intros Hinv Hpx Hcount. unfold par_send_repeated. cbv zeta.
  destruct ((count =? 0) || (Z.of_nat (length pixel) =? 0)) eqn:E0.
  - intros E. injection E as <- <- <-. rewrite lines_after_nil.
    split; [reflexivity|]. split; [|split; [exact Hinv | reflexivity]].
    apply orb_true_iff in E0. destruct E0 as [E0|E0]; apply Z.eqb_eq in E0.
    + subst count. reflexivity.
    + destruct pixel as [|a p]; [|cbn [length] in E0; lia]. rewrite concat_repeat_nil. reflexivity.
  - apply orb_false_iff in E0. destruct E0 as [Ec En]. apply Z.eqb_neq in Ec, En.
    destruct (is_same pixel) as [word|] eqn:Es.
    + apply is_same_some in Es. destruct Es as [Erep Hne].
      assert (Hword : 0 <= word < 2 ^ Z.of_nat w).
      { destruct pixel as [|a p]; [congruence|]. cbn [length repeat] in Erep.
        injection Erep as Ea _. inversion Hpx; subst; assumption. }
      destruct (par_send_word w last word) as [o1 l1] eqn:E1. cbv beta iota.
      intros E. injection E as <- <- <-.
      destruct (par_send_word_lines w last word st o1 l1 Hinv Hword E1) as (S1 & I1 & _ & D1).
      destruct (strobes_lines (count * Z.of_nat (length pixel) - 1) (lines_after st o1)) as (S2 & P2 & D2).
      rewrite sample_par_app, lines_after_app, S1, S2, P2, D2, D1.
      split; [reflexivity|]. split; [|split; [exact I1 | reflexivity]].
      destruct I1 as [_ I1]. cbn [fst snd] in I1.
      assert (El1 : l1 = Some word).
      { unfold par_send_word in E1.
        pose proof (bus_set_value_lines w last word (line_step st (OWr false)) Hinv Hword) as Hb.
        destruct (bus_set_value w last word) as [bo bl]. cbn [fst snd] in Hb.
        injection E1 as _ <-. exact (proj1 Hb). }
      subst l1. destruct I1 as [Edv _]. rewrite Edv.
      rewrite Erep at 2. rewrite concat_repeat_repeat, map_repeat_eq. cbn [app].
      set (c := Z.to_nat count). set (n := length pixel) in *.
      replace (Z.to_nat (count * Z.of_nat n - 1)) with (c * n - 1)%nat by (subst c; nia).
      apply repeat_cons_pred. subst c; nia.
    + intros E.
      assert (Hall : Forall (Forall (fun x => 0 <= x < 2 ^ Z.of_nat w)) (concat (repeat [pixel] (Z.to_nat count)))).
      { rewrite concat_repeat_single. apply Forall_forall. intros p Hp. apply repeat_spec in Hp. subst p. exact Hpx. }
      destruct (par_send_pixels_lines w last _ st ops l' r Hinv Hall E) as (R & S1 & I1 & D1).
      rewrite concat_repeat_single in S1. auto.
Qed.

Theorem par_repeat_latched : forall (w : nat) (md : mode) (last : option Z) (pixel : list Z) (count : Z) (st : lines),
  bus_inv w (last, l_pins st) -> Forall (fun x => 0 <= x < 2 ^ Z.of_nat w) pixel -> 0 <= count ->
  let '(ops, l', r) := par_send_repeated true md w last pixel count in
  r = Ok tt /\ sample_par st ops = map (pair (l_dc st)) (concat (repeat pixel (Z.to_nat count))) /\
  bus_inv w (l', l_pins (lines_after st ops)) /\ l_dc (lines_after st ops) = l_dc st.
Proof.
  intros w md last pixel count st Hinv Hpx Hc.
  destruct (par_send_repeated true md w last pixel count) as [[ops l'] r] eqn:E.
  exact (par_send_repeated_lines w md last pixel count st ops l' r Hinv Hpx Hc E).
Qed.

(* the fast path really is the strobe-only one: one word, then bare strobes *)
Theorem par_repeat_fast_path_shape : forall (w : nat) (md : mode) (last : option Z) (pixel : list Z) (count word : Z),
  count <> 0 -> is_same pixel = Some word ->
  par_send_repeated true md w last pixel count =
  (fst (par_send_word w last word) ++ strobes (count * Z.of_nat (length pixel) - 1),
   snd (par_send_word w last word), Ok tt).
Proof.
  intros w md last pixel count word Hc Hs. unfold par_send_repeated. cbv zeta.
  destruct (is_same_some pixel word Hs) as [_ Hne].
  destruct (Z.eqb_spec count 0) as [E|_]; [contradiction|].
  destruct (Z.eqb_spec (Z.of_nat (length pixel)) 0) as [E|_].
  { destruct pixel; [congruence | cbn [length] in E; lia]. }
  cbn [orb]. rewrite Hs. destruct (par_send_word w last word) as [o1 l1]. reflexivity.
Qed.

(* ---------------------------------------------------------------- 6. transparency *)
Lemma range_256 (w : nat) (x : Z) : (8 <= w)%nat -> 0 <= x < 256 -> 0 <= x < 2 ^ Z.of_nat w.
Proof.
  intros Hw Hx. assert (H : 2 ^ 8 <= 2 ^ Z.of_nat w) by (apply Z.pow_le_mono_r; lia).
  change (2 ^ 8) with 256 in H. lia.
Qed.

Lemma par_event_lines (w : nat) (md : mode) (last : option Z) (e : event) (st : lines)
      (ops : list l2op) (l' : option Z) (r : outcome unit) :
  (8 <= w)%nat -> words_in_range w e -> bus_inv w (last, l_pins st) ->
  (l_dc st = true \/ exists op args, e = ECmd op args) ->
  par_event true md w last e = (ops, l', r) ->
  r = Ok tt /\ sample_par st ops = latch_of_event e /\
  bus_inv w (l', l_pins (lines_after st ops)) /\ l_dc (lines_after st ops) = true.
Proof.
  intros Hw He Hinv Hdc. destruct e as [op args|px|p c|ns| |]; cbn [par_event latch_of_event words_in_range] in *.
  - destruct He as [Hop Hargs]. intros E.
    apply (par_send_command_lines w last op args st ops l' r Hinv); [apply range_256; assumption | | exact E].
    apply Forall_forall. intros a Ha. apply range_256; [exact Hw|]. rewrite Forall_forall in Hargs. apply Hargs, Ha.
  - destruct Hdc as [Hdc|(op & args & Habs)]; [|discriminate]. intros E.
    destruct (par_send_pixels_lines w last px st ops l' r Hinv He E) as (R & S1 & I1 & D1).
    rewrite Hdc in S1, D1. auto.
  - destruct Hdc as [Hdc|(op & args & Habs)]; [|discriminate]. destruct He as [Hp Hc]. intros E.
    destruct (par_send_repeated_lines w md last p c st ops l' r Hinv Hp (proj1 Hc) E) as (R & S1 & I1 & D1).
    rewrite Hdc in S1, D1. auto.
  - destruct Hdc as [Hdc|(op & args & Habs)]; [|discriminate]. intros E. injection E as <- <- <-. auto.
  - destruct Hdc as [Hdc|(op & args & Habs)]; [|discriminate]. intros E. injection E as <- <- <-. auto.
  - destruct Hdc as [Hdc|(op & args & Habs)]; [|discriminate]. intros E. injection E as <- <- <-. auto.
Qed.

Lemma par_run_lines (w : nat) (md : mode) (t : list event) : forall (last : option Z) (st : lines)
      (ops : list l2op) (l' : option Z) (r : outcome unit),
  (8 <= w)%nat -> Forall (words_in_range w) t -> bus_inv w (last, l_pins st) ->
  (l_dc st = true \/ exists op args t', t = ECmd op args :: t') ->
  par_run true md w last t = (ops, l', r) ->
  r = Ok tt /\ sample_par st ops = latch_of t /\ bus_inv w (l', l_pins (lines_after st ops)).
Proof.
  induction t as [|e t IH]; intros last st ops l' r Hw Hall Hinv Hdc; cbn [par_run].
  - intros E. injection E as <- <- <-. rewrite lines_after_nil. auto.
  - inversion Hall as [|e' t' He Ht]; subst.
    assert (Hdc' : l_dc st = true \/ exists op args, e = ECmd op args).
    { destruct Hdc as [Hdc|(op & args & t' & Habs)]; [left; exact Hdc | right].
      injection Habs as -> _. exists op, args. reflexivity. }
    destruct (par_event true md w last e) as [[o1 l1] r1] eqn:E1.
    destruct (par_event_lines w md last e st o1 l1 r1 Hw He Hinv Hdc' E1) as (R1 & S1 & I1 & D1).
    subst r1.
    destruct (par_run true md w l1 t) as [[o2 l2] r2] eqn:E2.
    destruct (IH l1 (lines_after st o1) o2 l2 r2 Hw Ht I1 (or_introl D1) E2) as (R2 & S2 & I2).
    intros E. injection E as <- <- <-.
    rewrite sample_par_app, lines_after_app, S1, S2.
    split; [exact R2|]. split; [reflexivity | exact I2].
Qed.

(* the statement with `1 <= w` only is false: a command byte does not fit a bus narrower than 8 bits *)
Example par_run_latched_narrow_bus_counterexample :
  let st := {| l_pins := [false]; l_dc := true; l_wr := true |} in
  Forall (words_in_range 1) [ECmd 44 []] /\ bus_inv 1 (None, l_pins st) /\
  sample_par st (fst (fst (par_run true Debug 1 None [ECmd 44 []]))) = [(false, 0)] /\
  latch_of [ECmd 44 []] = [(false, 44)].
Proof.
  split; [constructor; [cbn; split; [lia | constructor] | constructor]|].
  split; [split; [reflexivity | exact I]|]. split; vm_compute; reflexivity.
Qed.

Theorem par_run_latched_partial : forall (w : nat) (md : mode) (t : list event) (last : option Z) (st : lines),
  (8 <= w)%nat -> Forall (words_in_range w) t -> bus_inv w (last, l_pins st) ->
  (l_dc st = true \/ exists op args t', t = ECmd op args :: t') ->
  let '(ops, l', r) := par_run true md w last t in
  r = Ok tt /\ sample_par st ops = latch_of t /\ bus_inv w (l', l_pins (lines_after st ops)).
Proof.
  intros w md t last st Hw Hall Hinv Hdc.
  destruct (par_run true md w last t) as [[ops l'] r] eqn:E.
  exact (par_run_lines w md t last st ops l' r Hw Hall Hinv Hdc E).
Qed.

Corollary par_strobe_count_partial : forall (w : nat) (md : mode) (t : list event) (last : option Z) (st : lines),
  (8 <= w)%nat -> Forall (words_in_range w) t -> bus_inv w (last, l_pins st) ->
  (l_dc st = true \/ exists op args t', t = ECmd op args :: t') ->
  count_wr_rising st (fst (fst (par_run true md w last t))) = Z.of_nat (length (latch_of t)).
Proof.
  intros w md t last st Hw Hall Hinv Hdc.
  destruct (par_run true md w last t) as [[ops l'] r] eqn:E. cbn [fst].
  destruct (par_run_lines w md t last st ops l' r Hw Hall Hinv Hdc E) as (_ & S & _).
  unfold count_wr_rising. rewrite S. reflexivity.
Qed.

(* the two widths the crate instantiates: the statements exactly as wanted *)
Corollary par_run_latched_8 : forall (md : mode) (t : list event) (last : option Z) (st : lines),
  Forall (words_in_range 8) t -> bus_inv 8 (last, l_pins st) ->
  (l_dc st = true \/ exists op args t', t = ECmd op args :: t') ->
  let '(ops, l', r) := par_run true md 8 last t in
  r = Ok tt /\ sample_par st ops = latch_of t /\ bus_inv 8 (l', l_pins (lines_after st ops)).
Proof. intros md t last st. apply par_run_latched_partial. lia. Qed.

Corollary par_run_latched_16 : forall (md : mode) (t : list event) (last : option Z) (st : lines),
  Forall (words_in_range 16) t -> bus_inv 16 (last, l_pins st) ->
  (l_dc st = true \/ exists op args t', t = ECmd op args :: t') ->
  let '(ops, l', r) := par_run true md 16 last t in
  r = Ok tt /\ sample_par st ops = latch_of t /\ bus_inv 16 (l', l_pins (lines_after st ops)).
Proof. intros md t last st. apply par_run_latched_partial. lia. Qed.

(* ---------------------------------------------------------------- 7. F5 on the pinned variant *)
Example f5_debug_panics :
  snd (par_send_repeated false Debug 8 None [5; 5] (2 ^ 31)) = Panic.
Proof. vm_compute. reflexivity. Qed.

Example f5_release_one_strobe :
  snd (par_send_repeated false Release 8 None [5; 5] (2 ^ 31)) = Ok tt /\
  length (filter (l2op_eqb (OWr true)) (fst (fst (par_send_repeated false Release 8 None [5; 5] (2 ^ 31))))) = 1%nat.
Proof. split; vm_compute; reflexivity. Qed.
