(* OverheadP.v — protocol overhead of the drawing calls (C20): with the batch feature, draw_iter
   opens one address window per emitted block; blocks are never more than rows, and the rows are
   the greedy decomposition of the maximal left-to-right runs at the row capacity. Hence the number
   of windows is bounded by sum over runs of ceil(run / MAX_ROW_SIZE), and by the number of
   in-bounds pixels. Sharpening of ProgramP.draw_iter_windows; composition of BatchP / ProgramP /
   SpiP, plus a kernel computation over the generated capacities. *)
Require Import Model.Base Model.Orient Model.Dcs Model.Events Model.Builder Model.Rect Model.Batch Model.Display
               Model.Spi.
Require Import Oracle.Spec Oracle.Controller Oracle.DrawSpec.
Require Import Proofs.DcsP Proofs.WindowP Proofs.CtlP Proofs.DrawP Proofs.ClipP Proofs.BatchP Proofs.OrientStateP
               Proofs.ProgramP Proofs.SpiP.
Require Import Gen.Consts.
Open Scope list_scope.
Open Scope Z_scope.

(* ------------------------------------------------------------------------------------------ *)
(* 1. one window per block                                                                      *)
(* ------------------------------------------------------------------------------------------ *)

(* every set_pixels of a well-formed block inside the display succeeds and issues exactly one
   write_memory_start (ProgramP.decodes_draw_blocks, projected) *)
Lemma draw_blocks_ramwr (c : ctx) (o : opts) (bcap : nat) (bs : list pblock) :
  valid_cfg c o ->
  Forall (block_ok bcap) bs -> Forall (block_inside (fst (lsize o)) (snd (lsize o))) bs ->
  snd (draw_blocks c o bs) = Ok tt /\
  count_ramwr (fst (draw_blocks c o bs)) = Z.of_nat (List.length bs).
Proof.
  intros Hv Hok Hin.
  destruct (decodes_draw_blocks c o bcap Hv bs Hok Hin) as (R & _ & _ & C & _).
  split; [exact R|exact C].
Qed.

(* the filtered pixel stream of draw_iter lies inside the display, hence within u16 - 1 *)
Lemma filtered_inside (o : opts) (ps : list pixel) :
  Forall (pixel_inside (fst (lsize o)) (snd (lsize o))) (filter (in_bbox o) ps).
Proof.
  apply Forall_forall. intros q Hq. apply filter_In in Hq. apply in_bbox_inside. exact (proj2 Hq).
Qed.

Lemma filtered_in_range (c : ctx) (o : opts) (ps : list pixel) :
  valid_cfg c o -> Forall in_range (filter (in_bbox o) ps).
Proof.
  intros Hv. pose proof (filtered_inside o ps) as Hin.
  destruct (lsize o) as [lw lh] eqn:Hls.
  destruct (valid_cfg_lsize c o lw lh Hv Hls) as [Hlw Hlh]. cbn [fst snd] in Hin.
  apply Forall_forall. intros [[x y] col] Hq.
  pose proof (proj1 (Forall_forall _ _) Hin _ Hq) as Hq'. unfold pixel_inside in Hq'.
  unfold in_range. lia.
Qed.

(* batched draw_iter: the number of windows IS the number of blocks the batcher emits *)
Lemma draw_iter_ramwr_blocks (c : ctx) (o : opts) (ps : list pixel) :
  valid_cfg c o -> (1 <= c_rowcap c)%nat -> (c_rowcap c <= c_blockcap c)%nat -> c_batch c = true ->
  count_ramwr (fst (draw_iter c o ps)) =
  Z.of_nat (List.length (fst (blocks_of (c_md c) (c_blockcap c)
                                        (rows_of (c_rowcap c) (filter (in_bbox o) ps))))).
Proof.
  intros Hv Hcap Hcb Eb.
  pose proof (filtered_inside o ps) as Hin.
  pose proof (filtered_in_range c o ps Hv) as Hr.
  set (fs := filter (in_bbox o) ps) in *.
  destruct (batch_flatten (c_md c) (c_rowcap c) (c_blockcap c) fs Hcap Hcb Hr) as (bs & Hbs & _ & Hok).
  destruct (blocks_inside (c_md c) (c_rowcap c) (c_blockcap c) fs (fst (lsize o)) (snd (lsize o))
                          Hcap Hcb Hr Hin) as (bs' & Hbs' & Hbin).
  rewrite Hbs in Hbs'. inversion Hbs'; subst bs'.
  destruct (draw_blocks_ramwr c o (c_blockcap c) bs Hv Hok Hbin) as [R C].
  unfold draw_iter. fold fs. rewrite Eb, Hbs. cbn [fst].
  destruct (draw_blocks c o bs) as [t r]. cbn [fst snd] in R, C. subst r.
  unfold wlift. cbn [wbind fst]. rewrite count_ramwr_app, C. cbn [count_ramwr]. lia.
Qed.

(* ------------------------------------------------------------------------------------------ *)
(* 2. MAIN: windows <= runs split at the row capacity, and <= in-bounds pixels                   *)
(* ------------------------------------------------------------------------------------------ *)

Theorem draw_iter_windows_runs (c : ctx) (st : dstate) (ps : list pixel) :
  valid_cfg c (d_opts st) -> (1 <= c_rowcap c)%nat -> (c_rowcap c <= c_blockcap c)%nat ->
  c_batch c = true ->
  let fs := filter (in_bbox (d_opts st)) ps in
  let t := fst (fst (step c st (PDrawIter ps))) in
  count_ramwr t <= Z.of_nat (list_sum (map (fun l => ceil_div l (c_rowcap c)) (run_lengths fs))) /\
  count_ramwr t <= Z.of_nat (List.length fs).
Proof.
  intros Hv Hcap Hcb Eb. cbv zeta.
  rewrite (step_draw c st (PDrawIter ps) eq_refl). cbn [fst snd op_w].
  rewrite (draw_iter_ramwr_blocks c (d_opts st) ps Hv Hcap Hcb Eb).
  pose proof (filtered_in_range c (d_opts st) ps Hv) as Hr.
  set (fs := filter (in_bbox (d_opts st)) ps) in *.
  pose proof (blocks_count_le (c_md c) (c_blockcap c) (rows_of (c_rowcap c) fs)) as Hb.
  pose proof (rows_count_runs (c_rowcap c) fs Hcap Hr) as Hruns.
  pose proof (rows_count_le (c_rowcap c) fs Hcap Hr) as Hrows.
  split; lia.
Qed.

(* ------------------------------------------------------------------------------------------ *)
(* 3. one long left-to-right run is cut only at the row capacity                                 *)
(* ------------------------------------------------------------------------------------------ *)

(* n horizontally adjacent pixels of row y starting at column x0, colours arbitrary *)
Definition hrun (x0 y : Z) (col : nat -> Z) (n : nat) : list pixel :=
  map (fun i => (x0 + Z.of_nat i, y, col i)) (seq 0 n).

Lemma run_lengths_go_hrun (x0 y : Z) (col : nat -> Z) (n : nat) : forall (s cur : nat),
  run_lengths_go (Some (x0 + Z.of_nat s - 1, y)) cur
                 (map (fun i => (x0 + Z.of_nat i, y, col i)) (seq s n)) = [(cur + n)%nat].
Proof.
  induction n as [|n IH]; intros s cur.
  - cbn [seq map run_lengths_go]. f_equal. lia.
  - cbn [seq map run_lengths_go].
    replace (x0 + Z.of_nat s =? x0 + Z.of_nat s - 1 + 1) with true by (symmetry; apply Z.eqb_eq; lia).
    rewrite Z.eqb_refl. cbn [andb].
    replace (x0 + Z.of_nat s) with (x0 + Z.of_nat (S s) - 1) by lia.
    rewrite (IH (S s) (S cur)). f_equal. lia.
Qed.

Lemma run_lengths_hrun (x0 y : Z) (col : nat -> Z) (n : nat) :
  (1 <= n)%nat -> run_lengths (hrun x0 y col n) = [n].
Proof.
  intros Hn. destruct n as [|n]; [lia|].
  unfold run_lengths, hrun. cbn [seq map run_lengths_go].
  replace (x0 + Z.of_nat 0) with (x0 + Z.of_nat 1 - 1) by lia.
  rewrite (run_lengths_go_hrun x0 y col n 1 1). reflexivity.
Qed.

(* a pixel inside the display passes draw_iter's bounding-box filter *)
Lemma inside_in_bbox (o : opts) (q : pixel) :
  pixel_inside (fst (lsize o)) (snd (lsize o)) q -> in_bbox o q = true.
Proof.
  destruct q as [[x y] col]. unfold in_bbox, contains, bounding_box, bottom_right, pixel_inside.
  cbn [rx ry rw rh]. destruct (lsize o) as [lw lh]. cbn [fst snd]. intros [Hx Hy].
  replace (0 <=? x) with true by (symmetry; apply Z.leb_le; lia).
  replace (0 <=? y) with true by (symmetry; apply Z.leb_le; lia).
  replace (0 <? lw) with true by (symmetry; apply Z.ltb_lt; lia).
  replace (0 <? lh) with true by (symmetry; apply Z.ltb_lt; lia).
  cbn [andb].
  replace (x <=? 0 + lw - 1) with true by (symmetry; apply Z.leb_le; lia).
  replace (y <=? 0 + lh - 1) with true by (symmetry; apply Z.leb_le; lia).
  reflexivity.
Qed.

Lemma filter_all_true {A} (f : A -> bool) (l : list A) :
  Forall (fun x => f x = true) l -> filter f l = l.
Proof.
  induction l as [|x l IH]; intros H; [reflexivity|].
  inversion H as [|x0 l0 Hx Hl]; subst x0 l0. cbn [filter]. rewrite Hx, (IH Hl). reflexivity.
Qed.

Lemma hrun_inside (lw lh x0 y : Z) (col : nat -> Z) (n : nat) :
  0 <= x0 -> x0 + Z.of_nat n <= lw -> 0 <= y < lh -> Forall (pixel_inside lw lh) (hrun x0 y col n).
Proof.
  intros Hx0 Hx1 Hy. apply Forall_forall. intros q Hq. unfold hrun in Hq.
  apply in_map_iff in Hq. destruct Hq as (i & Hi & Hs). subst q. apply in_seq in Hs.
  unfold pixel_inside. lia.
Qed.

Theorem single_run_bursts (c : ctx) (st : dstate) (x0 y : Z) (col : nat -> Z) (n : nat) :
  valid_cfg c (d_opts st) -> (1 <= c_rowcap c)%nat -> (c_rowcap c <= c_blockcap c)%nat ->
  c_batch c = true ->
  (1 <= n)%nat ->
  0 <= x0 -> x0 + Z.of_nat n <= fst (lsize (d_opts st)) -> 0 <= y < snd (lsize (d_opts st)) ->
  let fs := hrun x0 y col n in
  filter (in_bbox (d_opts st)) fs = fs /\
  run_lengths fs = [n] /\
  count_ramwr (fst (fst (step c st (PDrawIter fs)))) <= Z.of_nat (ceil_div n (c_rowcap c)).
Proof.
  intros Hv Hcap Hcb Eb Hn Hx0 Hx1 Hy. cbv zeta.
  assert (Hf : filter (in_bbox (d_opts st)) (hrun x0 y col n) = hrun x0 y col n).
  { apply filter_all_true.
    pose proof (hrun_inside _ _ x0 y col n Hx0 Hx1 Hy) as Hin.
    apply Forall_forall. intros q Hq. apply inside_in_bbox.
    exact (proj1 (Forall_forall _ _) Hin q Hq). }
  pose proof (run_lengths_hrun x0 y col n Hn) as Hrl.
  split; [exact Hf|]. split; [exact Hrl|].
  destruct (draw_iter_windows_runs c st (hrun x0 y col n) Hv Hcap Hcb Eb) as [H _].
  cbv zeta in H. rewrite Hf, Hrl in H. cbn [map list_sum fold_right] in H.
  rewrite Nat.add_0_r in H. exact H.
Qed.

(* ------------------------------------------------------------------------------------------ *)
(* 4. the driver's own capacities (generated from src/batch.rs)                                  *)
(* ------------------------------------------------------------------------------------------ *)

Theorem capacity_at_least_two :
  2 <= gen_MAX_ROW_SIZE /\ gen_MAX_ROW_SIZE <= gen_MAX_BLOCK_SIZE /\
  (2 <= Z.to_nat gen_MAX_ROW_SIZE)%nat /\ (Z.to_nat gen_MAX_ROW_SIZE <= Z.to_nat gen_MAX_BLOCK_SIZE)%nat.
Proof.
  split; [apply Z.leb_le; vm_compute; reflexivity|].
  split; [apply Z.leb_le; vm_compute; reflexivity|].
  split; apply Nat.leb_le; vm_compute; reflexivity.
Qed.

(* the main bound for a driver built with exactly the crate's capacities: the two capacity
   hypotheses are discharged by the generated constants *)
Corollary draw_iter_windows_runs_gen (c : ctx) (st : dstate) (ps : list pixel) :
  valid_cfg c (d_opts st) ->
  c_rowcap c = Z.to_nat gen_MAX_ROW_SIZE -> c_blockcap c = Z.to_nat gen_MAX_BLOCK_SIZE ->
  c_batch c = true ->
  let fs := filter (in_bbox (d_opts st)) ps in
  let t := fst (fst (step c st (PDrawIter ps))) in
  count_ramwr t <= Z.of_nat (list_sum (map (fun l => ceil_div l (Z.to_nat gen_MAX_ROW_SIZE)) (run_lengths fs))) /\
  count_ramwr t <= Z.of_nat (List.length fs).
Proof.
  intros Hv Er Ebk Eb.
  destruct capacity_at_least_two as (_ & _ & H2 & Hle).
  rewrite <- Er.
  apply (draw_iter_windows_runs c st ps Hv); [rewrite Er; lia|rewrite Er, Ebk; exact Hle|exact Eb].
Qed.

(* ------------------------------------------------------------------------------------------ *)
(* 0. fills and clear: one window per call                                                       *)
(* ------------------------------------------------------------------------------------------ *)

(* fill_solid / fill_contiguous: the call succeeds with exactly one write_memory_start when part of
   the rectangle is visible and with none otherwise; clear: exactly one. (`rw r * rh r < 2^32` is
   the crate's own u32 pixel count of the requested area.) Batching plays no role here. *)
Theorem fill_one_window (c : ctx) (st : dstate) :
  valid_cfg c (d_opts st) ->
  let lw := fst (lsize (d_opts st)) in
  let lh := snd (lsize (d_opts st)) in
  (forall (r : rect) (col : Z), rect_valid r ->
     snd (fst (step c st (PFillSolid r col))) = ROk /\
     count_ramwr (fst (fst (step c st (PFillSolid r col)))) = if visible r lw lh then 1 else 0) /\
  (forall (r : rect) (cs : list Z), rect_valid r -> rw r * rh r < 2 ^ 32 ->
     snd (fst (step c st (PFillContig r cs))) = ROk /\
     count_ramwr (fst (fst (step c st (PFillContig r cs)))) = if visible r lw lh then 1 else 0) /\
  (forall col : Z,
     snd (fst (step c st (PClear col))) = ROk /\
     count_ramwr (fst (fst (step c st (PClear col)))) = 1).
Proof.
  intros Hv. cbv zeta. split; [|split].
  - intros r col Hr.
    destruct (decodes_fill_solid c (d_opts st) r col Hv Hr) as (R & _ & _ & C & _).
    rewrite (step_draw c st (PFillSolid r col) eq_refl). cbn [fst snd op_w].
    rewrite R, C. split; reflexivity.
  - intros r cs Hr Ha.
    destruct (decodes_fill_contig c (d_opts st) r cs Hv Hr Ha) as (R & _ & _ & C & _).
    rewrite (step_draw c st (PFillContig r cs) eq_refl). cbn [fst snd op_w].
    rewrite R, C. split; reflexivity.
  - intros col.
    destruct (decodes_clear c (d_opts st) col Hv) as (R & _ & _ & C & _).
    rewrite (step_draw c st (PClear col) eq_refl). cbn [fst snd op_w].
    rewrite R, C. split; reflexivity.
Qed.

(* ------------------------------------------------------------------------------------------ *)
(* 5. SPI transactions per burst                                                                 *)
(* ------------------------------------------------------------------------------------------ *)

(* a burst of b bytes needs at most b / (usable buffer bytes) + 1 SPI transactions, where the usable
   buffer is cap * n bytes (whole pixels only); send_pixels needs exactly pixels / cap + 1 *)
Theorem spi_burst_transactions : forall n buf,
  1 <= n -> n <= Z.of_nat (List.length buf) ->
  let cap := Z.of_nat (List.length buf) / n in
  (forall px, Forall (fun p => Z.of_nat (List.length p) = n) px ->
     let '(ops, _, _) := spi_send_pixels n buf px in
     count_spi ops = Z.of_nat (List.length px) / cap + 1 /\
     count_spi ops <= Z.of_nat (List.length (concat px)) / (cap * n) + 1) /\
  (cap < 2 ^ 32 ->
   forall pixel count, Z.of_nat (List.length pixel) = n -> 0 <= count < 2 ^ 32 ->
     let '(ops, _, _) := spi_send_repeated true n buf pixel count in
     count_spi ops <= (count * n) / (cap * n) + 1).
Proof.
  intros n buf Hn Hlen cap. split.
  - intros px Hwf.
    pose proof (spi_pixels_spec n buf px Hn Hlen Hwf) as Hs. cbv zeta in Hs. fold cap in Hs.
    pose proof (spi_transactions_bound_pixels n buf px Hn Hlen Hwf) as Hb. cbv zeta in Hb. fold cap in Hb.
    destruct (spi_send_pixels n buf px) as [[ops b2] r].
    destruct Hs as (_ & _ & _ & _ & _ & _ & Hcnt). split; [exact Hcnt|exact Hb].
  - intros Hcap32 pixel count Hpix Hcount.
    exact (spi_transactions_bound_repeat n buf pixel count Hn Hlen Hpix Hcount Hcap32).
Qed.

Print Assumptions draw_blocks_ramwr.
Print Assumptions draw_iter_windows_runs.
Print Assumptions single_run_bursts.
Print Assumptions capacity_at_least_two.
Print Assumptions draw_iter_windows_runs_gen.
Print Assumptions fill_one_window.
Print Assumptions spi_burst_transactions.
