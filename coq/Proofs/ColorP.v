(* ColorP.v — proofs for C05: the words placed on the bus for a pixel are the encoding a MIPI-DCS
   controller expects for the announced interface pixel format.
   Quantified proofs over the components r, g, b (sections 1-3), the raw round trips that make them
   cover every raw value (section 4), the announced COLMOD byte against the words per pixel
   (section 5), solid fill = per-pixel stream (section 6), and an additional exhaustive sweep over
   all 65,536 / 262,144 raw values against an independently written bit-level specification
   (section 7). *)
Require Import Model.Base Model.Orient Model.Dcs Model.Events Model.InitLang Model.Color.
Require Import Model.Spi Model.Parallel.
Require Import Oracle.InitSpec.
Require Import Proofs.SpiP.
Open Scope Z_scope.

(* ---------------------------------------------------------------------------------------------- *)
(* 0. component extraction                                                                        *)
(* ---------------------------------------------------------------------------------------------- *)
Lemma raw565_range (r g b : Z) :
  0 <= r < 32 -> 0 <= g < 64 -> 0 <= b < 32 -> 0 <= raw565 r g b < 65536.
Proof. intros Hr Hg Hb. unfold raw565. lia. Qed.

Lemma raw565_r (r g b : Z) :
  0 <= r < 32 -> 0 <= g < 64 -> 0 <= b < 32 -> raw565 r g b / 2048 = r.
Proof. intros Hr Hg Hb. unfold raw565. Z.div_mod_to_equations. lia. Qed.

Lemma raw565_g (r g b : Z) :
  0 <= r < 32 -> 0 <= g < 64 -> 0 <= b < 32 -> (raw565 r g b / 32) mod 64 = g.
Proof. intros Hr Hg Hb. unfold raw565. Z.div_mod_to_equations. lia. Qed.

Lemma raw565_b (r g b : Z) :
  0 <= r < 32 -> 0 <= g < 64 -> 0 <= b < 32 -> raw565 r g b mod 32 = b.
Proof. intros Hr Hg Hb. unfold raw565. Z.div_mod_to_equations. lia. Qed.

Lemma raw666_range (r g b : Z) :
  0 <= r < 64 -> 0 <= g < 64 -> 0 <= b < 64 -> 0 <= raw666 r g b < 262144.
Proof. intros Hr Hg Hb. unfold raw666. lia. Qed.

Lemma raw666_r (r g b : Z) :
  0 <= r < 64 -> 0 <= g < 64 -> 0 <= b < 64 -> raw666 r g b / 4096 = r.
Proof. intros Hr Hg Hb. unfold raw666. Z.div_mod_to_equations. lia. Qed.

Lemma raw666_g (r g b : Z) :
  0 <= r < 64 -> 0 <= g < 64 -> 0 <= b < 64 -> (raw666 r g b / 64) mod 64 = g.
Proof. intros Hr Hg Hb. unfold raw666. Z.div_mod_to_equations. lia. Qed.

Lemma raw666_b (r g b : Z) :
  0 <= r < 64 -> 0 <= g < 64 -> 0 <= b < 64 -> raw666 r g b mod 64 = b.
Proof. intros Hr Hg Hb. unfold raw666. Z.div_mod_to_equations. lia. Qed.

(* big-endian byte pair reassembles to the value *)
Lemma be_pair_value (raw : Z) : raw / 256 * 256 + raw mod 256 = raw.
Proof. Z.div_mod_to_equations. lia. Qed.

(* what the decoders return on what the encoders produce, for ANY raw value *)
Lemma dec565_8_enc (raw : Z) :
  dec565_8 (enc565_8 raw) = Some (raw / 2048, (raw / 32) mod 64, raw mod 32).
Proof.
  unfold enc565_8, dec565_8. cbv zeta. rewrite be_pair_value. reflexivity.
Qed.

Lemma dec565_16_enc (raw : Z) :
  dec565_16 (enc565_16 raw) = Some (raw / 2048, (raw / 32) mod 64, raw mod 32).
Proof. reflexivity. Qed.

Lemma dec666_8_enc (raw : Z) :
  dec666_8 (enc666_8 raw) = Some (raw / 4096, (raw / 64) mod 64, raw mod 64).
Proof.
  unfold enc666_8, dec666_8. rewrite !Z.div_mul by lia. reflexivity.
Qed.

(* ---------------------------------------------------------------------------------------------- *)
(* 1. Rgb565 on an 8-bit path: two bytes, most significant first                                  *)
(* ---------------------------------------------------------------------------------------------- *)
Theorem rgb565_bytes : forall r g b,
  0 <= r < 32 -> 0 <= g < 64 -> 0 <= b < 32 ->
  let raw := raw565 r g b in
  0 <= raw < 65536 /\
  enc565_8 raw = [raw / 256; raw mod 256] /\
  0 <= raw / 256 <= 255 /\ 0 <= raw mod 256 <= 255 /\
  raw = 256 * (raw / 256) + raw mod 256 /\
  raw / 256 = 8 * r + g / 8 /\
  raw mod 256 = 32 * (g mod 8) + b /\
  dec565_8 (enc565_8 raw) = Some (r, g, b).
Proof.
  intros r g b Hr Hg Hb raw.
  pose proof (raw565_range r g b Hr Hg Hb) as Hraw. fold raw in Hraw.
  split; [exact Hraw|].
  split; [reflexivity|].
  split; [Z.div_mod_to_equations; lia|].
  split; [Z.div_mod_to_equations; lia|].
  split; [Z.div_mod_to_equations; lia|].
  split; [unfold raw, raw565; Z.div_mod_to_equations; lia|].
  split; [unfold raw, raw565; Z.div_mod_to_equations; lia|].
  rewrite dec565_8_enc. unfold raw.
  rewrite (raw565_r r g b Hr Hg Hb), (raw565_g r g b Hr Hg Hb), (raw565_b r g b Hr Hg Hb).
  reflexivity.
Qed.

(* ---------------------------------------------------------------------------------------------- *)
(* 2. Rgb565 on a 16-bit bus: one word, the raw value                                             *)
(* ---------------------------------------------------------------------------------------------- *)
Theorem rgb565_word : forall r g b,
  0 <= r < 32 -> 0 <= g < 64 -> 0 <= b < 32 ->
  let raw := raw565 r g b in
  enc565_16 raw = [raw] /\
  0 <= raw <= 65535 /\
  dec565_16 (enc565_16 raw) = Some (r, g, b).
Proof.
  intros r g b Hr Hg Hb raw.
  pose proof (raw565_range r g b Hr Hg Hb) as Hraw. fold raw in Hraw.
  split; [reflexivity|].
  split; [lia|].
  rewrite dec565_16_enc. unfold raw.
  rewrite (raw565_r r g b Hr Hg Hb), (raw565_g r g b Hr Hg Hb), (raw565_b r g b Hr Hg Hb).
  reflexivity.
Qed.

(* the one 16-bit word carries the same 16 bits as the two bytes, most significant byte first *)
Theorem rgb565_word_is_byte_pair : forall raw hi lo,
  enc565_8 raw = [hi; lo] -> enc565_16 raw = [256 * hi + lo].
Proof.
  intros raw hi lo H. unfold enc565_8 in H. injection H as Hhi Hlo. subst hi lo.
  unfold enc565_16. f_equal. Z.div_mod_to_equations. lia.
Qed.

(* ---------------------------------------------------------------------------------------------- *)
(* 3. Rgb666 on an 8-bit path: three bytes R, G, B, six bits left-aligned                         *)
(* ---------------------------------------------------------------------------------------------- *)
Theorem rgb666_bytes : forall r g b,
  0 <= r < 64 -> 0 <= g < 64 -> 0 <= b < 64 ->
  let raw := raw666 r g b in
  0 <= raw < 262144 /\
  enc666_8 raw = [4 * r; 4 * g; 4 * b] /\
  (0 <= 4 * r <= 255 /\ (4 * r) mod 4 = 0) /\
  (0 <= 4 * g <= 255 /\ (4 * g) mod 4 = 0) /\
  (0 <= 4 * b <= 255 /\ (4 * b) mod 4 = 0) /\
  dec666_8 (enc666_8 raw) = Some (r, g, b).
Proof.
  intros r g b Hr Hg Hb raw.
  pose proof (raw666_range r g b Hr Hg Hb) as Hraw. fold raw in Hraw.
  split; [exact Hraw|].
  split.
  { unfold enc666_8, raw.
    rewrite (raw666_r r g b Hr Hg Hb), (raw666_g r g b Hr Hg Hb), (raw666_b r g b Hr Hg Hb).
    rewrite (Z.mul_comm r 4), (Z.mul_comm g 4), (Z.mul_comm b 4). reflexivity. }
  split; [split; [lia | Z.div_mod_to_equations; lia]|].
  split; [split; [lia | Z.div_mod_to_equations; lia]|].
  split; [split; [lia | Z.div_mod_to_equations; lia]|].
  rewrite dec666_8_enc. unfold raw.
  rewrite (raw666_r r g b Hr Hg Hb), (raw666_g r g b Hr Hg Hb), (raw666_b r g b Hr Hg Hb).
  reflexivity.
Qed.

(* ---------------------------------------------------------------------------------------------- *)
(* 4. raw round trips: sections 1-3 cover every raw value                                         *)
(* ---------------------------------------------------------------------------------------------- *)
Theorem raw565_decompose : forall raw, 0 <= raw < 65536 ->
  let r := raw / 2048 in let g := (raw / 32) mod 64 in let b := raw mod 32 in
  0 <= r < 32 /\ 0 <= g < 64 /\ 0 <= b < 32 /\ raw = raw565 r g b.
Proof.
  intros raw Hraw r g b. unfold r, g, b, raw565.
  split; [Z.div_mod_to_equations; lia|].
  split; [Z.div_mod_to_equations; lia|].
  split; [Z.div_mod_to_equations; lia|].
  Z.div_mod_to_equations. lia.
Qed.

Theorem raw666_decompose : forall raw, 0 <= raw < 262144 ->
  let r := raw / 4096 in let g := (raw / 64) mod 64 in let b := raw mod 64 in
  0 <= r < 64 /\ 0 <= g < 64 /\ 0 <= b < 64 /\ raw = raw666 r g b.
Proof.
  intros raw Hraw r g b. unfold r, g, b, raw666.
  split; [Z.div_mod_to_equations; lia|].
  split; [Z.div_mod_to_equations; lia|].
  split; [Z.div_mod_to_equations; lia|].
  Z.div_mod_to_equations. lia.
Qed.

(* the other direction: the components of a composed value are the ones it was composed from *)
Theorem raw565_components : forall r g b,
  0 <= r < 32 -> 0 <= g < 64 -> 0 <= b < 32 ->
  raw565 r g b / 2048 = r /\ (raw565 r g b / 32) mod 64 = g /\ raw565 r g b mod 32 = b.
Proof.
  intros r g b Hr Hg Hb.
  split; [exact (raw565_r r g b Hr Hg Hb)|].
  split; [exact (raw565_g r g b Hr Hg Hb) | exact (raw565_b r g b Hr Hg Hb)].
Qed.

Theorem raw666_components : forall r g b,
  0 <= r < 64 -> 0 <= g < 64 -> 0 <= b < 64 ->
  raw666 r g b / 4096 = r /\ (raw666 r g b / 64) mod 64 = g /\ raw666 r g b mod 64 = b.
Proof.
  intros r g b Hr Hg Hb.
  split; [exact (raw666_r r g b Hr Hg Hb)|].
  split; [exact (raw666_g r g b Hr Hg Hb) | exact (raw666_b r g b Hr Hg Hb)].
Qed.

(* the same facts stated on the raw value, for all 65,536 / 262,144 of them *)
Theorem rgb565_all_raw : forall raw, 0 <= raw < 65536 ->
  let r := raw / 2048 in let g := (raw / 32) mod 64 in let b := raw mod 32 in
  enc565_8 raw = [8 * r + g / 8; 32 * (g mod 8) + b] /\
  0 <= 8 * r + g / 8 <= 255 /\ 0 <= 32 * (g mod 8) + b <= 255 /\
  raw = 256 * (8 * r + g / 8) + (32 * (g mod 8) + b) /\
  dec565_8 (enc565_8 raw) = Some (r, g, b) /\
  enc565_16 raw = [raw] /\
  dec565_16 (enc565_16 raw) = Some (r, g, b).
Proof.
  intros raw Hraw r g b.
  destruct (raw565_decompose raw Hraw) as (Hr & Hg & Hb & Heq).
  fold r in Hr, Heq. fold g in Hg, Heq. fold b in Hb, Heq.
  destruct (rgb565_bytes r g b Hr Hg Hb) as (_ & Henc & Hhi & Hlo & Hval & Hhi' & Hlo' & Hdec).
  destruct (rgb565_word r g b Hr Hg Hb) as (Hw & _ & Hwdec).
  cbv zeta in Henc, Hhi, Hlo, Hval, Hhi', Hlo', Hdec, Hw, Hwdec.
  rewrite <- Heq in Henc, Hhi, Hlo, Hval, Hhi', Hlo', Hdec, Hw, Hwdec.
  rewrite Hhi' in Henc, Hhi, Hval. rewrite Hlo' in Henc, Hlo, Hval.
  split; [exact Henc|]. split; [exact Hhi|]. split; [exact Hlo|]. split; [exact Hval|].
  split; [exact Hdec|]. split; [exact Hw | exact Hwdec].
Qed.

Theorem rgb666_all_raw : forall raw, 0 <= raw < 262144 ->
  let r := raw / 4096 in let g := (raw / 64) mod 64 in let b := raw mod 64 in
  enc666_8 raw = [4 * r; 4 * g; 4 * b] /\
  Forall (fun x => 0 <= x <= 255 /\ x mod 4 = 0) (enc666_8 raw) /\
  dec666_8 (enc666_8 raw) = Some (r, g, b).
Proof.
  intros raw Hraw r g b.
  destruct (raw666_decompose raw Hraw) as (Hr & Hg & Hb & Heq).
  fold r in Hr, Heq. fold g in Hg, Heq. fold b in Hb, Heq.
  destruct (rgb666_bytes r g b Hr Hg Hb) as (_ & Henc & HR & HG & HB & Hdec).
  cbv zeta in Henc, Hdec.
  rewrite <- Heq in Henc, Hdec.
  split; [exact Henc|].
  split; [rewrite Henc; repeat constructor; tauto|].
  exact Hdec.
Qed.

(* ---------------------------------------------------------------------------------------------- *)
(* 5. the announced interface pixel format and the words per pixel agree                          *)
(* ---------------------------------------------------------------------------------------------- *)
Theorem colmod_matches_words :
  bpp_of_bits (color_bits CRgb565) = Ok Sixteen /\
  bpp_of_bits (color_bits CRgb666) = Ok Eighteen /\
  pixel_format_byte Sixteen Sixteen = 0x55 /\ colmod_of CRgb565 = 0x55 /\
  pixel_format_byte Eighteen Eighteen = 0x66 /\ colmod_of CRgb666 = 0x66 /\
  (forall raw, length (enc_of CRgb565 false raw) = 2%nat) /\
  (forall raw, length (enc_of CRgb565 true raw) = 1%nat) /\
  (forall w raw, length (enc_of CRgb666 w raw) = 3%nat).
Proof.
  split; [reflexivity|]. split; [reflexivity|].
  split; [reflexivity|]. split; [reflexivity|].
  split; [reflexivity|]. split; [reflexivity|].
  split; [intros raw; reflexivity|].
  split; [intros raw; reflexivity|].
  intros w raw. destruct w; reflexivity.
Qed.

(* what the init statement `SetPixelFormat::new(PixelFormat::with_all(from_rgb_color::<C>()))`
   puts on the bus: COLMOD (0x3A) with exactly that byte *)
Theorem init_announces_colmod : forall col o,
  stmt_event col o (ICmdPixelFormat PfFromColor) = Ok (Some (ECmd 0x3A [colmod_of col])).
Proof. intros col o. destruct col; reflexivity. Qed.

(* bits per pixel announced = 8 * bytes per pixel (rounded up for 18) = 16 * words on a 16-bit bus *)
Theorem announced_bits_cover_words :
  (forall raw, Z.of_nat (length (enc_of CRgb565 false raw)) * 8 = color_bits CRgb565) /\
  (forall raw, Z.of_nat (length (enc_of CRgb565 true raw)) * 16 = color_bits CRgb565) /\
  (forall w raw, Z.of_nat (length (enc_of CRgb666 w raw)) * 6 = color_bits CRgb666).
Proof.
  split; [intros raw; reflexivity|].
  split; [intros raw; reflexivity|].
  intros w raw. destruct w; reflexivity.
Qed.

(* ---------------------------------------------------------------------------------------------- *)
(* 6. a solid fill encodes a colour identically to a per-pixel stream                             *)
(* ---------------------------------------------------------------------------------------------- *)
Lemma map_repeat_eq {A B} (f : A -> B) (x : A) (m : nat) : map f (repeat x m) = repeat (f x) m.
Proof.
  induction m as [|m IH]; [reflexivity|]. cbn [repeat map]. rewrite IH. reflexivity.
Qed.

Lemma Forall_repeat_intro {A} (P : A -> Prop) (x : A) (m : nat) : P x -> Forall P (repeat x m).
Proof.
  intros Hx. apply Forall_forall. intros y Hy. apply repeat_spec in Hy. subst y. exact Hx.
Qed.

(* L1 -> expected wire / latch sequence *)
Theorem repeat_eq_stream_wire : forall p c,
  wire_of_event (ERepeat p c) = wire_of_event (EPixels (repeat p (Z.to_nat c))).
Proof. intros p c. reflexivity. Qed.

Theorem repeat_eq_stream_latch : forall p c,
  latch_of_event (ERepeat p c) = latch_of_event (EPixels (repeat p (Z.to_nat c))).
Proof. intros p c. reflexivity. Qed.

(* ... with the colour conversion in the picture: send_repeated_pixel(convert(colour), c) against
   send_pixels(repeat(colour, c).map(convert)) *)
Theorem fill_eq_stream_encoded : forall col w raw c,
  wire_of_event (ERepeat (enc_of col w raw) c)
    = wire_of_event (EPixels (map (enc_of col w) (repeat raw (Z.to_nat c)))) /\
  latch_of_event (ERepeat (enc_of col w raw) c)
    = latch_of_event (EPixels (map (enc_of col w) (repeat raw (Z.to_nat c)))).
Proof.
  intros col w raw c. rewrite map_repeat_eq. split; reflexivity.
Qed.

(* SPI pin level: both calls return Ok and the panel sees the same bytes at the same DC level *)
Theorem spi_repeat_eq_stream : forall n buf pixel count,
  1 <= n -> n <= Z.of_nat (length buf) ->
  Z.of_nat (length pixel) = n -> 0 <= count < 2 ^ 32 ->
  Z.of_nat (length buf) / n < 2 ^ 32 ->
  snd (spi_send_repeated true n buf pixel count) = Ok tt /\
  snd (spi_send_pixels n buf (repeat pixel (Z.to_nat count))) = Ok tt /\
  forall dc,
    spi_wire dc (fst (fst (spi_send_repeated true n buf pixel count)))
    = spi_wire dc (fst (fst (spi_send_pixels n buf (repeat pixel (Z.to_nat count))))).
Proof.
  intros n buf pixel count Hn Hlen Hpix Hcount Hcap.
  pose proof (spi_repeat_spec n buf pixel count Hn Hlen Hpix Hcount Hcap) as HR.
  pose proof (spi_pixels_spec n buf (repeat pixel (Z.to_nat count)) Hn Hlen
                (Forall_repeat_intro _ pixel (Z.to_nat count) Hpix)) as HP.
  cbv zeta in HR, HP.
  destruct (spi_send_repeated true n buf pixel count) as [[opsR bufR] rR].
  destruct (spi_send_pixels n buf (repeat pixel (Z.to_nat count))) as [[opsP bufP] rP].
  destruct HR as (HrR & _ & _ & HwR & _).
  destruct HP as (HrP & _ & _ & HwP & _).
  cbn [fst snd].
  split; [exact HrR|]. split; [exact HrP|].
  intros dc. rewrite (HwR dc), (HwP dc). reflexivity.
Qed.

(* ---------------------------------------------------------------------------------------------- *)
(* 7. exhaustive sweep against a bit-level statement of the MIPI-DCS formats                      *)
(* ---------------------------------------------------------------------------------------------- *)
(* s, s+1, ..., s+n-1 without ever converting a nat to Z *)
Fixpoint zrange (n : nat) (s : Z) : list Z :=
  match n with O => [] | S n' => s :: zrange n' (s + 1) end.

Lemma zrange_In (n : nat) : forall s z, s <= z < s + Z.of_nat n -> In z (zrange n s).
Proof.
  induction n as [|n IH]; intros s z Hz.
  - cbn [Z.of_nat] in Hz. lia.
  - cbn [zrange]. destruct (Z.eq_dec s z) as [He|Hne]; [left; exact He|].
    right. apply IH. lia.
Qed.

(* 16 bpp, 8-bit path (MIPI DBI type B/C, 65K colours): byte 1 = R4..R0 G5..G3, byte 2 = G2..G0 B4..B0.
   16-bit path: D15..D11 = R, D10..D5 = G, D4..D0 = B. Written with shifts and masks on the
   components extracted by shifts and masks from the RawU16. *)
Definition chk565 (raw : Z) : bool :=
  let r := Z.land (Z.shiftr raw 11) 31 in
  let g := Z.land (Z.shiftr raw 5) 63 in
  let b := Z.land raw 31 in
  zlist_eqb (enc565_8 raw)
            [Z.lor (Z.shiftl r 3) (Z.shiftr g 3); Z.lor (Z.shiftl (Z.land g 7) 5) b]
  && forallb (fun x => (0 <=? x) && (x <=? 255)) (enc565_8 raw)
  && zlist_eqb (enc565_16 raw) [Z.lor (Z.lor (Z.shiftl r 11) (Z.shiftl g 5)) b]
  && (raw =? raw565 r g b)
  && match dec565_8 (enc565_8 raw), dec565_16 (enc565_16 raw) with
     | Some (r1, g1, b1), Some (r2, g2, b2) =>
         (r1 =? r) && (g1 =? g) && (b1 =? b) && (r2 =? r) && (g2 =? g) && (b2 =? b)
     | _, _ => false
     end.

(* 18 bpp, 8-bit path (262K colours): three bytes, D7..D2 = the component, D1..D0 unused (sent 0) *)
Definition chk666 (raw : Z) : bool :=
  let r := Z.land (Z.shiftr raw 12) 63 in
  let g := Z.land (Z.shiftr raw 6) 63 in
  let b := Z.land raw 63 in
  zlist_eqb (enc666_8 raw) [Z.shiftl r 2; Z.shiftl g 2; Z.shiftl b 2]
  && forallb (fun x => (0 <=? x) && (x <=? 255) && (Z.land x 3 =? 0)) (enc666_8 raw)
  && (raw =? raw666 r g b)
  && match dec666_8 (enc666_8 raw) with
     | Some (r1, g1, b1) =>
         (r1 =? r) && (g1 =? g) && (b1 =? b)
     | None => false
     end.

(* `vm_cast_no_check` only records that the kernel must check the cast with the VM: the whole
   computation runs once, at Qed (about 8 s and 30 s). *)
Lemma sweep565 : forallb chk565 (zrange (Z.to_nat 65536) 0) = true.
Proof. vm_cast_no_check (eq_refl true). Qed.

Lemma sweep666 : forallb chk666 (zrange (Z.to_nat 262144) 0) = true.
Proof. vm_cast_no_check (eq_refl true). Qed.

Theorem rgb565_bitlevel_all : forall raw, 0 <= raw < 65536 -> chk565 raw = true.
Proof.
  intros raw Hraw.
  pose proof sweep565 as Hs. rewrite forallb_forall in Hs.
  apply Hs. apply zrange_In. rewrite Z2Nat.id by lia. lia.
Qed.

Theorem rgb666_bitlevel_all : forall raw, 0 <= raw < 262144 -> chk666 raw = true.
Proof.
  intros raw Hraw.
  pose proof sweep666 as Hs. rewrite forallb_forall in Hs.
  apply Hs. apply zrange_In. rewrite Z2Nat.id by lia. lia.
Qed.
