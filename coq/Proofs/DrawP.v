(* DrawP.v — the bridge between the driver model and Oracle/DrawSpec.v: one in-bounds address window
   followed by one burst, as the reference MIPI-DCS controller decodes it, writes exactly the cells
   the specification lists (rotate clockwise, mirror, shift by the offset), flags no anomaly and
   leaves every other controller register alone. *)
Require Import Model.Base Model.Orient Model.Dcs Model.Events Model.Builder Model.Rect Model.Batch Model.Display.
Require Import Oracle.Spec Oracle.Controller Oracle.DrawSpec.
Require Import Proofs.DcsP Proofs.WindowP Proofs.CtlP.
Open Scope Z_scope.

(* the controller is configured for the driver's current options: same framebuffer, user command page,
   MY/MX/MV = what the stored orientation needs *)
Definition ctl_matches (c : ctx) (o : opts) (k : ctl) : Prop :=
  k_page k = false /\ k_fw k = c_fw c /\ k_fh k = c_fh c /\
  my (k_madctl k) = rev_rows (from_orient (o_orient o)) /\
  mx (k_madctl k) = rev_cols (from_orient (o_orient o)) /\
  mv (k_madctl k) = swap (from_orient (o_orient o)).

(* ---- small facts ---- *)

(* the logical size of the specification is the logical size of the driver *)
Lemma lsize_panel o :
  lw_of (panel_of o) (o_orient o) = fst (lsize o) /\ lh_of (panel_of o) (o_orient o) = snd (lsize o).
Proof.
  unfold lw_of, lh_of, lsize, panel_of. cbn [p_w p_h].
  destruct (rotn (o_orient o)); cbn [is_horizontal fst snd]; split; reflexivity.
Qed.

Lemma ctl_matches_same_regs c o k k' : same_regs k k' -> ctl_matches c o k -> ctl_matches c o k'.
Proof.
  intros (Sfw & Sfh & Smad & _ & _ & _ & _ & _ & _ & _ & _ & Spg & _) (Hpg & Hfw & Hfh & Hmy & Hmx & Hmv).
  unfold ctl_matches. rewrite Spg, Sfw, Sfh, Smad. repeat split; assumption.
Qed.

(* the whole logical screen, shifted by the offset, is addressable under the current MV *)
Lemma extent_ok c o k : valid_cfg c o -> ctl_matches c o k ->
  let '(dx, dy) := win_off c o in
  let '(lw, lh) := lsize o in
  dx + lw <= col_extent k /\ dy + lh <= page_extent k.
Proof.
  intros Hv (Hpg & Hfw & Hfh & Hmy & Hmx & Hmv).
  pose proof (win_off_bounds c o Hv) as Hb.
  unfold col_extent, page_extent. rewrite Hmv, Hfw, Hfh.
  destruct (win_off c o) as [dx dy]. destruct (lsize o) as [lw lh].
  destruct Hb as (_ & _ & Hbx & Hby). split; assumption.
Qed.

(* the counters are 16 bits wide: so are the extents *)
Lemma extent_u16 c o k : valid_cfg c o -> ctl_matches c o k ->
  col_extent k <= 65535 /\ page_extent k <= 65535.
Proof.
  intros (_ & _ & _ & _ & _ & HFW & _ & HFH) (Hpg & Hfw & Hfh & _ & _ & _).
  unfold col_extent, page_extent. rewrite Hfw, Hfh.
  destruct (mv (k_madctl k)); split; assumption.
Qed.

(* ---- pure geometry: the host-side walk over the window is the specification's walk ---- *)

Lemma host_row_spec c o k dx dy :
  ctl_matches c o k -> win_off c o = (dx, dy) ->
  forall (n : nat) (col row : Z) (cs : list Z),
    map (to_wr (k_fw k) (k_fh k) (k_madctl k))
        (fst (host_row (col + dx) (row + dy) n (map (c_enc c) cs)))
      = fst (zip_row (c_enc c) (panel_of o) (o_orient o) col row n cs)
    /\ snd (host_row (col + dx) (row + dy) n (map (c_enc c) cs))
      = map (c_enc c) (snd (zip_row (c_enc c) (panel_of o) (o_orient o) col row n cs)).
Proof.
  intros (Hpg & Hfw & Hfh & Hmy & Hmx & Hmv) Hoff n.
  induction n as [|n IH]; intros col row cs.
  - cbn [host_row zip_row fst snd map]. split; reflexivity.
  - destruct cs as [|cl cs].
    + cbn [map host_row zip_row fst snd]. split; reflexivity.
    + cbn [map host_row zip_row].
      replace (col + dx + 1) with (col + 1 + dx) by lia.
      destruct (IH (col + 1) row cs) as [E1 E2].
      destruct (host_row (col + 1 + dx) (row + dy) n (map (c_enc c) cs)) as [l rest].
      destruct (zip_row (c_enc c) (panel_of o) (o_orient o) (col + 1) row n cs) as [ws rest'].
      cbn [fst snd map] in *. split; [|exact E2].
      f_equal; [|exact E1].
      pose proof (window_cell c o (k_madctl k) col row Hmy Hmx Hmv) as Hc.
      rewrite Hoff in Hc.
      unfold to_wr, px, cell, panel_of. cbn [p_w p_h p_ox p_oy].
      rewrite Hfw, Hfh, Hc. reflexivity.
Qed.

Lemma host_rows_spec c o k : ctl_matches c o k ->
  let '(dx, dy) := win_off c o in
  forall (w rows : nat) (sx sy : Z) (cs : list Z),
    map (to_wr (k_fw k) (k_fh k) (k_madctl k)) (host_rows (sx + dx) (sy + dy) w rows (map (c_enc c) cs))
    = zip_rows (c_enc c) (panel_of o) (o_orient o) sx sy w rows cs.
Proof.
  intros Hm. destruct (win_off c o) as [dx dy] eqn:Hoff.
  intros w rows. induction rows as [|r IH]; intros sx sy cs.
  - reflexivity.
  - destruct cs as [|cl cs]; [reflexivity|].
    cbn [host_rows zip_rows map].
    change (c_enc c cl :: map (c_enc c) cs) with (map (c_enc c) (cl :: cs)).
    destruct (host_row_spec c o k dx dy Hm Hoff w sx sy (cl :: cs)) as [E1 E2].
    destruct (host_row (sx + dx) (sy + dy) w (map (c_enc c) (cl :: cs))) as [l rest].
    destruct (zip_row (c_enc c) (panel_of o) (o_orient o) sx sy w (cl :: cs)) as [ws rest'].
    cbn [fst snd] in E1, E2. subst rest. rewrite map_app, E1.
    replace (sy + dy + 1) with (sy + 1 + dy) by lia. rewrite IH. reflexivity.
Qed.

(* ---- MAIN: one in-bounds window + burst ---- *)

Lemma set_pixels_decode c o k sx sy ex ey cs :
  valid_cfg c o -> ctl_matches c o k ->
  0 <= sx <= ex -> ex < fst (lsize o) -> 0 <= sy <= ey -> ey < snd (lsize o) ->
  (length cs <= Z.to_nat (ex - sx + 1) * Z.to_nat (ey - sy + 1))%nat ->
  let '(dx, dy) := win_off c o in
  let t := [ECmd 0x2A (be16 (sx + dx) ++ be16 (ex + dx)); ECmd 0x2B (be16 (sy + dy) ++ be16 (ey + dy));
            ECmd 0x2C []; EPixels (map (c_enc c) cs)] in
  set_pixels c o sx sy ex ey cs = (t, Ok tt) /\
  let k' := ctl_run k t in
  same_regs k k' /\ ctl_matches c o k' /\
  writes k' = writes k ++ zip_rows (c_enc c) (panel_of o) (o_orient o) sx sy
                                   (Z.to_nat (ex - sx + 1)) (Z.to_nat (ey - sy + 1)) cs /\
  framing_ok t = true.
Proof.
  intros Hv Hm Hx Hex Hy Hey Hlen.
  pose proof (set_address_window_ok c o sx sy ex ey Hv Hx Hex Hy Hey) as Hw.
  pose proof (extent_ok c o k Hv Hm) as Hext.
  pose proof (extent_u16 c o k Hv Hm) as [Hcu Hpu].
  pose proof (win_off_bounds c o Hv) as Hb.
  pose proof (host_rows_spec c o k Hm) as Hrows.
  destruct (win_off c o) as [dx dy]. destruct (lsize o) as [lw lh]. cbn [fst snd] in *.
  destruct Hb as (Hdx & Hdy & _ & _). destruct Hext as [Hce Hpe].
  cbv zeta. split.
  - unfold set_pixels. rewrite Hw. rewrite write_command_spec.
    cbn [wemit wbind app instruction params]. reflexivity.
  - assert (Ew : ex + dx - (sx + dx) + 1 = ex - sx + 1) by lia.
    assert (Eh : ey + dy - (sy + dy) + 1 = ey - sy + 1) by lia.
    pose proof (ctl_window_pixels k (sx + dx) (ex + dx) (sy + dy) (ey + dy) (map (c_enc c) cs)
                                  (proj1 Hm)) as Hc.
    do 8 (specialize (Hc ltac:(lia))).
    rewrite map_length, Ew, Eh in Hc. specialize (Hc Hlen). cbv zeta in Hc.
    rewrite Hrows in Hc. destruct Hc as [Hs Hwr].
    split; [exact Hs|]. split; [exact (ctl_matches_same_regs c o k _ Hs Hm)|].
    split; [exact Hwr|reflexivity].
Qed.

(* ---- the solid-fill analogue: window + the same pixel exactly window-area times ---- *)

Lemma fill_window_decode c o k sx sy ex ey col :
  valid_cfg c o -> ctl_matches c o k ->
  0 <= sx <= ex -> ex < fst (lsize o) -> 0 <= sy <= ey -> ey < snd (lsize o) ->
  let '(dx, dy) := win_off c o in
  let t := [ECmd 0x2A (be16 (sx + dx) ++ be16 (ex + dx)); ECmd 0x2B (be16 (sy + dy) ++ be16 (ey + dy));
            ECmd 0x2C []; ERepeat (c_enc c col) ((ex - sx + 1) * (ey - sy + 1))] in
  (wdo _ <- set_address_window c o sx sy ex ey;
   wdo _ <- wemit (write_command WriteMemoryStart);
   ([ERepeat (c_enc c col) ((ex - sx + 1) * (ey - sy + 1))], Ok tt)) = (t, Ok tt) /\
  let k' := ctl_run k t in
  same_regs k k' /\ ctl_matches c o k' /\
  writes k' = writes k ++ [prect (c_enc c) (panel_of o) (o_orient o) sx sy ex ey col] /\
  framing_ok t = true.
Proof.
  intros Hv Hm Hx Hex Hy Hey.
  pose proof (set_address_window_ok c o sx sy ex ey Hv Hx Hex Hy Hey) as Hw.
  pose proof (extent_ok c o k Hv Hm) as Hext.
  pose proof (extent_u16 c o k Hv Hm) as [Hcu Hpu].
  pose proof (win_off_bounds c o Hv) as Hb.
  destruct Hm as (Hpg & Hfw & Hfh & Hmy & Hmx & Hmv).
  pose proof (window_cell c o (k_madctl k) sx sy Hmy Hmx Hmv) as Hc1.
  pose proof (window_cell c o (k_madctl k) ex ey Hmy Hmx Hmv) as Hc2.
  assert (Hm : ctl_matches c o k) by (unfold ctl_matches; repeat split; assumption).
  destruct (win_off c o) as [dx dy]. destruct (lsize o) as [lw lh]. cbn [fst snd] in *.
  destruct Hb as (Hdx & Hdy & _ & _). destruct Hext as [Hce Hpe].
  cbv zeta. split.
  - rewrite Hw. rewrite write_command_spec.
    cbn [wemit wbind app instruction params]. reflexivity.
  - assert (Ew : ex + dx - (sx + dx) + 1 = ex - sx + 1) by lia.
    assert (Eh : ey + dy - (sy + dy) + 1 = ey - sy + 1) by lia.
    pose proof (ctl_window_repeat k (sx + dx) (ex + dx) (sy + dy) (ey + dy) (c_enc c col) Hpg) as Hc.
    do 8 (specialize (Hc ltac:(lia))).
    rewrite Ew, Eh in Hc. cbv zeta in Hc.
    rewrite Hfw, Hfh, Hc1, Hc2 in Hc. destruct Hc as [Hs Hwr].
    split; [exact Hs|]. split; [exact (ctl_matches_same_regs c o k _ Hs Hm)|].
    split; [|reflexivity].
    unfold prect, cell, panel_of. cbn [p_w p_h p_ox p_oy]. exact Hwr.
Qed.

(* ---- corollaries on `step` ---- *)

Lemma set_pixels_step_decode c st o k sx sy ex ey cs :
  d_opts st = o -> valid_cfg c o -> ctl_matches c o k ->
  0 <= sx <= ex -> ex < fst (lsize o) -> 0 <= sy <= ey -> ey < snd (lsize o) ->
  (length cs <= Z.to_nat (ex - sx + 1) * Z.to_nat (ey - sy + 1))%nat ->
  let '(dx, dy) := win_off c o in
  let t := [ECmd 0x2A (be16 (sx + dx) ++ be16 (ex + dx)); ECmd 0x2B (be16 (sy + dy) ++ be16 (ey + dy));
            ECmd 0x2C []; EPixels (map (c_enc c) cs)] in
  step c st (PSetPixels sx sy ex ey cs) = (t, ROk, st) /\
  let k' := ctl_run k t in
  same_regs k k' /\ ctl_matches c o k' /\
  writes k' = writes k ++ spec_op_writes (c_enc c) (panel_of o) (o_orient o) (PSetPixels sx sy ex ey cs) /\
  framing_ok t = true.
Proof.
  intros Ho Hv Hm Hx Hex Hy Hey Hlen. subst o.
  pose proof (set_pixels_decode c (d_opts st) k sx sy ex ey cs Hv Hm Hx Hex Hy Hey Hlen) as H.
  destruct (win_off c (d_opts st)) as [dx dy]. cbv zeta in *.
  destruct H as [E R]. split; [|exact R].
  unfold step. rewrite E. reflexivity.
Qed.

Lemma zip_rows_one enc p o x y col : zip_rows enc p o x y 1 1 [col] = [px enc p o x y col].
Proof. reflexivity. Qed.

Lemma set_pixel_decode c st o k x y col :
  d_opts st = o -> valid_cfg c o -> ctl_matches c o k ->
  0 <= x < fst (lsize o) -> 0 <= y < snd (lsize o) ->
  let '(dx, dy) := win_off c o in
  let t := [ECmd 0x2A (be16 (x + dx) ++ be16 (x + dx)); ECmd 0x2B (be16 (y + dy) ++ be16 (y + dy));
            ECmd 0x2C []; EPixels [c_enc c col]] in
  step c st (PSetPixel x y col) = (t, ROk, st) /\
  let k' := ctl_run k t in
  same_regs k k' /\ ctl_matches c o k' /\
  writes k' = writes k ++ [px (c_enc c) (panel_of o) (o_orient o) x y col] /\
  framing_ok t = true.
Proof.
  intros Ho Hv Hm Hx Hy. subst o.
  assert (E1x : x - x + 1 = 1) by lia. assert (E1y : y - y + 1 = 1) by lia.
  assert (Hlen : (length [col] <= Z.to_nat (x - x + 1) * Z.to_nat (y - y + 1))%nat)
    by (rewrite E1x, E1y; cbn; lia).
  pose proof (set_pixels_decode c (d_opts st) k x y x y [col] Hv Hm
                                ltac:(lia) ltac:(lia) ltac:(lia) ltac:(lia) Hlen) as H.
  rewrite E1x, E1y in H. change (Z.to_nat 1) with 1%nat in H. rewrite zip_rows_one in H.
  destruct (win_off c (d_opts st)) as [dx dy]. cbv zeta in *. cbn [map] in H.
  destruct H as [E R]. split; [|exact R].
  unfold step. rewrite E. reflexivity.
Qed.

(* ---- confinement and injectivity of the cell map ---- *)

(* an in-bounds logical point lands inside the configured panel window *)
Lemma cell_inside_panel o x y :
  0 <= x < fst (lsize o) -> 0 <= y < snd (lsize o) ->
  let '(cx, cy) := cell (panel_of o) (o_orient o) x y in
  o_ox o <= cx < o_ox o + o_w o /\ o_oy o <= cy < o_oy o + o_h o.
Proof.
  unfold cell, panel_of, spec_cell, rot_cw, lsize. cbn [p_w p_h p_ox p_oy].
  destruct (o_orient o) as [[] []]; cbn; lia.
Qed.

(* distinct logical points land in distinct cells (the map is affine: no bounds are needed) *)
Lemma cell_injective_any p o x1 y1 x2 y2 :
  cell p o x1 y1 = cell p o x2 y2 -> x1 = x2 /\ y1 = y2.
Proof.
  unfold cell, spec_cell, rot_cw.
  destruct o as [[] []]; cbn; intros E; inversion E; lia.
Qed.

Lemma cell_injective o x1 y1 x2 y2 :
  0 <= x1 < fst (lsize o) -> 0 <= y1 < snd (lsize o) ->
  0 <= x2 < fst (lsize o) -> 0 <= y2 < snd (lsize o) ->
  cell (panel_of o) (o_orient o) x1 y1 = cell (panel_of o) (o_orient o) x2 y2 -> x1 = x2 /\ y1 = y2.
Proof. intros _ _ _ _. apply cell_injective_any. Qed.

(* ---- confinement of whole write lists ---- *)

(* a write of the history touches only cells of the configured panel window *)
Definition wr_inside (o : opts) (w : wr) : Prop :=
  match w with
  | WPx cx cy _ => o_ox o <= cx < o_ox o + o_w o /\ o_oy o <= cy < o_oy o + o_h o
  | WRect x0 y0 x1 y1 _ =>
      o_ox o <= x0 /\ x0 <= x1 /\ x1 < o_ox o + o_w o /\ o_oy o <= y0 /\ y0 <= y1 /\ y1 < o_oy o + o_h o
  end.

Lemma px_inside enc o x y col :
  0 <= x < fst (lsize o) -> 0 <= y < snd (lsize o) ->
  wr_inside o (px enc (panel_of o) (o_orient o) x y col).
Proof.
  intros Hx Hy. pose proof (cell_inside_panel o x y Hx Hy) as H. unfold px.
  destruct (cell (panel_of o) (o_orient o) x y) as [cx cy]. exact H.
Qed.

Lemma zip_row_inside enc o y : 0 <= y < snd (lsize o) ->
  forall (n : nat) (x : Z) (cs : list Z), 0 <= x -> x + Z.of_nat n <= fst (lsize o) ->
    Forall (wr_inside o) (fst (zip_row enc (panel_of o) (o_orient o) x y n cs)).
Proof.
  intros Hy n. induction n as [|n IH]; intros x cs Hx Hn.
  - cbn [zip_row fst]. constructor.
  - destruct cs as [|cl cs]; [cbn [zip_row fst]; constructor|].
    cbn [zip_row]. specialize (IH (x + 1) cs ltac:(lia) ltac:(lia)).
    destruct (zip_row enc (panel_of o) (o_orient o) (x + 1) y n cs) as [ws rest]. cbn [fst] in *.
    constructor; [apply px_inside; lia|exact IH].
Qed.

Lemma zip_rows_inside enc o sx (w : nat) :
  0 <= sx -> sx + Z.of_nat w <= fst (lsize o) ->
  forall (rows : nat) (sy : Z) (cs : list Z), 0 <= sy -> sy + Z.of_nat rows <= snd (lsize o) ->
    Forall (wr_inside o) (zip_rows enc (panel_of o) (o_orient o) sx sy w rows cs).
Proof.
  intros Hsx Hw rows. induction rows as [|r IH]; intros sy cs Hsy Hr.
  - cbn [zip_rows]. constructor.
  - destruct cs as [|cl cs]; [cbn [zip_rows]; constructor|].
    cbn [zip_rows].
    pose proof (zip_row_inside enc o sy ltac:(lia) w sx (cl :: cs) Hsx Hw) as Hrow.
    destruct (zip_row enc (panel_of o) (o_orient o) sx sy w (cl :: cs)) as [ws rest]. cbn [fst] in Hrow.
    apply Forall_app. split; [exact Hrow|]. apply IH; lia.
Qed.

Lemma prect_inside enc o sx sy ex ey col :
  0 <= sx <= ex -> ex < fst (lsize o) -> 0 <= sy <= ey -> ey < snd (lsize o) ->
  wr_inside o (prect enc (panel_of o) (o_orient o) sx sy ex ey col).
Proof.
  intros Hx Hex Hy Hey.
  pose proof (cell_inside_panel o sx sy ltac:(lia) ltac:(lia)) as H1.
  pose proof (cell_inside_panel o ex ey ltac:(lia) ltac:(lia)) as H2.
  unfold prect.
  destruct (cell (panel_of o) (o_orient o) sx sy) as [ax ay].
  destruct (cell (panel_of o) (o_orient o) ex ey) as [bx by_].
  cbn [wr_inside]. lia.
Qed.

(* what set_pixels_decode appends to the history stays inside the panel window *)
Lemma set_pixels_writes_inside enc o sx sy ex ey cs :
  0 <= sx <= ex -> ex < fst (lsize o) -> 0 <= sy <= ey -> ey < snd (lsize o) ->
  Forall (wr_inside o)
         (zip_rows enc (panel_of o) (o_orient o) sx sy (Z.to_nat (ex - sx + 1)) (Z.to_nat (ey - sy + 1)) cs).
Proof.
  intros Hx Hex Hy Hey. apply zip_rows_inside; lia.
Qed.
