(* SpiP.v — proofs about Model/Spi.v (the SPI transport): send_command, send_pixels,
   send_repeated_pixel deliver exactly the bytes to send, in order, with the right DC level, in
   bounded-size writes, and terminate; the pinned send_repeated_pixel(_, 0) diverges (F2). *)
Require Import Model.Base Model.Events Model.Spi.

(* ---------------------------------------------------------------------------------------------- *)
(* small predicates used in the statements                                                        *)
(* ---------------------------------------------------------------------------------------------- *)
Definition is_spi_op (o : l2op) : Prop := match o with OSpi _ => True | _ => False end.
Definition all_spi (ops : list l2op) : Prop := Forall is_spi_op ops.

(* ---------------------------------------------------------------------------------------------- *)
(* generic list facts                                                                             *)
(* ---------------------------------------------------------------------------------------------- *)
Lemma Forall_firstn_skipn {A} (P : A -> Prop) (k : nat) (l : list A) :
  Forall P l -> Forall P (firstn k l) /\ Forall P (skipn k l).
Proof.
  intros H. rewrite <- (firstn_skipn k l) in H. apply Forall_app in H. exact H.
Qed.

Lemma concat_wf_length (n : Z) (l : list (list Z)) :
  Forall (fun p => Z.of_nat (length p) = n) l ->
  Z.of_nat (length (concat l)) = Z.of_nat (length l) * n.
Proof.
  intros H. induction H as [|p l Hp Hl IH].
  - cbn [concat length]. lia.
  - cbn [concat length]. rewrite app_length. lia.
Qed.

Lemma concat_repeat_length {A} (p : list A) (m : nat) :
  length (concat (repeat p m)) = (m * length p)%nat.
Proof.
  induction m as [|m IH].
  - reflexivity.
  - cbn [repeat concat]. rewrite app_length, IH. lia.
Qed.

Lemma concat_repeat_add {A} (p : list A) (a b : nat) :
  concat (repeat p a) ++ concat (repeat p b) = concat (repeat p (a + b)).
Proof.
  rewrite repeat_app, concat_app. reflexivity.
Qed.

Lemma concat_repeat_mul {A} (p : list A) (a b : nat) :
  concat (repeat (concat (repeat p a)) b) = concat (repeat p (a * b)).
Proof.
  induction b as [|b IH].
  - rewrite Nat.mul_0_r. reflexivity.
  - cbn [repeat concat]. rewrite IH, concat_repeat_add.
    f_equal. f_equal. lia.
Qed.

Lemma firstn_exact_app {A} (k : nat) (l r : list A) :
  length l = k -> firstn k (l ++ r) = l.
Proof.
  intros H. rewrite firstn_app, H, Nat.sub_diag. cbn [firstn].
  rewrite app_nil_r. subst k. apply firstn_all.
Qed.

Lemma firstn_concat_repeat {A} (p : list A) (a b : nat) (rest : list A) :
  (a <= b)%nat ->
  firstn (a * length p) (concat (repeat p b) ++ rest) = concat (repeat p a).
Proof.
  intros Hab. replace b with (a + (b - a))%nat by lia.
  rewrite <- concat_repeat_add, <- app_assoc.
  apply firstn_exact_app. apply concat_repeat_length.
Qed.

(* ---------------------------------------------------------------------------------------------- *)
(* spi_writes / count_spi / spi_wire / dc_after                                                   *)
(* ---------------------------------------------------------------------------------------------- *)
Lemma spi_writes_cons_spi (w : list Z) (ops : list l2op) :
  spi_writes (OSpi w :: ops) = w :: spi_writes ops.
Proof. reflexivity. Qed.

Lemma spi_writes_app (a b : list l2op) :
  spi_writes (a ++ b) = spi_writes a ++ spi_writes b.
Proof. unfold spi_writes. apply flat_map_app. Qed.

Lemma spi_writes_repeat (w : list Z) (m : nat) :
  spi_writes (repeat (OSpi w) m) = repeat w m.
Proof.
  induction m as [|m IH].
  - reflexivity.
  - cbn [repeat]. rewrite spi_writes_cons_spi, IH. reflexivity.
Qed.

Lemma count_spi_cons_spi (w : list Z) (ops : list l2op) :
  count_spi (OSpi w :: ops) = 1 + count_spi ops.
Proof.
  unfold count_spi. rewrite spi_writes_cons_spi. cbn [length]. lia.
Qed.

Lemma all_spi_repeat (w : list Z) (m : nat) : all_spi (repeat (OSpi w) m).
Proof.
  induction m as [|m IH].
  - constructor.
  - cbn [repeat]. constructor; [exact I | exact IH].
Qed.

Lemma all_spi_wire (dc : bool) (ops : list l2op) :
  all_spi ops -> spi_wire dc ops = map (pair dc) (concat (spi_writes ops)).
Proof.
  intros H. induction H as [|o ops Ho Hops IH].
  - reflexivity.
  - destruct o as [b|bs|i b|b|b|ns]; try contradiction.
    cbn [spi_wire]. rewrite spi_writes_cons_spi. cbn [concat].
    rewrite map_app, IH. reflexivity.
Qed.

Lemma all_spi_dc_after (dc : bool) (ops : list l2op) :
  all_spi ops -> dc_after dc ops = dc.
Proof.
  intros H. induction H as [|o ops Ho Hops IH].
  - reflexivity.
  - destruct o as [b|bs|i b|b|b|ns]; try contradiction.
    cbn [dc_after]. exact IH.
Qed.

Lemma spi_wire_app (dc : bool) (a b : list l2op) :
  spi_wire dc (a ++ b) = spi_wire dc a ++ spi_wire (dc_after dc a) b.
Proof.
  revert dc. induction a as [|o a IH]; intros dc.
  - reflexivity.
  - destruct o as [h|bs|i h|h|h|ns]; cbn [app spi_wire dc_after]; try apply IH.
    rewrite IH, app_assoc. reflexivity.
Qed.

Lemma dc_after_app (dc : bool) (a b : list l2op) :
  dc_after dc (a ++ b) = dc_after (dc_after dc a) b.
Proof.
  revert dc. induction a as [|o a IH]; intros dc.
  - reflexivity.
  - destruct o as [h|bs|i h|h|h|ns]; cbn [app dc_after]; apply IH.
Qed.

(* ---------------------------------------------------------------------------------------------- *)
(* capacity arithmetic                                                                            *)
(* ---------------------------------------------------------------------------------------------- *)
Lemma cap_bounds (n len : Z) :
  1 <= n -> n <= len -> 1 <= len / n /\ len / n * n <= len.
Proof.
  intros Hn Hlen. split.
  - apply Z.div_le_lower_bound; lia.
  - rewrite Z.mul_comm. apply Z.mul_div_le. lia.
Qed.

Lemma div_sub_self (a c : Z) : 1 <= c -> 1 + ((a - c) / c + 1) = a / c + 1.
Proof.
  intros Hc. replace a with ((a - c) + 1 * c) at 2 by lia.
  rewrite Z.div_add by lia. lia.
Qed.

(* ---------------------------------------------------------------------------------------------- *)
(* 1. send_command                                                                                *)
(* ---------------------------------------------------------------------------------------------- *)
Theorem spi_command_spec : forall buf cmd args,
  spi_send_command buf cmd args = ([ODc false; OSpi [cmd]; ODc true; OSpi args], buf, Ok tt) /\
  (forall dc,
     spi_wire dc [ODc false; OSpi [cmd]; ODc true; OSpi args] = (false, cmd) :: map (pair true) args /\
     dc_after dc [ODc false; OSpi [cmd]; ODc true; OSpi args] = true).
Proof.
  intros buf cmd args. split; [reflexivity|].
  intros dc. split.
  - cbn [spi_wire map app]. rewrite app_nil_r. reflexivity.
  - reflexivity.
Qed.

(* ---------------------------------------------------------------------------------------------- *)
(* 2. send_pixels                                                                                 *)
(* ---------------------------------------------------------------------------------------------- *)

(* one round of the `while !done` loop: k pixels staged at the front of the buffer *)
Lemma pixels_round (n k : Z) (buf : list Z) (px : list (list Z)) :
  Forall (fun p => Z.of_nat (length p) = n) px ->
  0 <= n -> 0 <= k <= Z.of_nat (length px) -> k * n <= Z.of_nat (length buf) ->
  let bytes := concat (firstn (Z.to_nat k) px) in
  let buf' := bytes ++ skipn (length bytes) buf in
  Z.of_nat (length bytes) = k * n /\
  length buf' = length buf /\
  firstn (Z.to_nat (k * n)) buf' = bytes.
Proof.
  intros Hwf Hn Hk Hfit bytes buf'.
  assert (Hlen : Z.of_nat (length bytes) = k * n).
  { unfold bytes. rewrite (concat_wf_length n).
    - rewrite firstn_length. rewrite Nat.min_l by lia. rewrite Z2Nat.id by lia. reflexivity.
    - apply (Forall_firstn_skipn _ (Z.to_nat k) px Hwf). }
  split; [exact Hlen|]. split.
  - unfold buf'. rewrite app_length, skipn_length. nia.
  - unfold buf'. apply firstn_exact_app. rewrite <- Hlen. rewrite Nat2Z.id. reflexivity.
Qed.

Lemma spi_pixels_go_spec (n cap : Z) :
  1 <= n -> 1 <= cap ->
  forall (fuel : nat) (buf : list Z) (px : list (list Z)),
  (length px < fuel)%nat ->
  cap * n <= Z.of_nat (length buf) ->
  Forall (fun p => Z.of_nat (length p) = n) px ->
  exists ops buf',
    spi_pixels_go fuel n cap buf px = (ops, buf', Ok tt) /\
    concat (spi_writes ops) = concat px /\
    all_spi ops /\
    length buf' = length buf /\
    Forall (fun w => Z.of_nat (length w) <= cap * n /\ Z.of_nat (length w) mod n = 0)
           (spi_writes ops) /\
    count_spi ops = Z.of_nat (length px) / cap + 1.
Proof.
  intros Hn Hcap fuel.
  induction fuel as [|f IH]; intros buf px Hfuel Hfit Hwf.
  - lia.
  - cbn [spi_pixels_go].
    set (k := Z.min cap (Z.of_nat (length px))).
    set (bytes := concat (firstn (Z.to_nat k) px)).
    set (buf1 := bytes ++ skipn (length bytes) buf).
    assert (Hk : 0 <= k <= Z.of_nat (length px)) by (unfold k; lia).
    assert (Hkcap : k <= cap) by (unfold k; lia).
    assert (Hkfit : k * n <= Z.of_nat (length buf)) by nia.
    destruct (pixels_round n k buf px Hwf ltac:(lia) Hk Hkfit) as (Hblen & Hb1len & Hw).
    fold bytes in Hblen, Hb1len, Hw. fold buf1 in Hb1len, Hw.
    rewrite Hw.
    assert (Hwok : Z.of_nat (length bytes) <= cap * n /\ Z.of_nat (length bytes) mod n = 0).
    { rewrite Hblen. split; [nia | apply Z.mod_mul; lia]. }
    destruct (Z.ltb_spec (Z.of_nat (length px)) cap) as [Hlt|Hge].
    + (* the iterator runs dry inside the chunk loop: last write *)
      assert (Hkeq : k = Z.of_nat (length px)) by (unfold k; lia).
      assert (Hbytes : bytes = concat px).
      { unfold bytes. rewrite Hkeq, Nat2Z.id, firstn_all. reflexivity. }
      exists [OSpi bytes], buf1.
      split; [reflexivity|].
      split; [rewrite spi_writes_cons_spi; cbn [spi_writes flat_map concat];
              rewrite app_nil_r; exact Hbytes|].
      split; [constructor; [exact I | constructor]|].
      split; [exact Hb1len|].
      split; [rewrite spi_writes_cons_spi; constructor; [exact Hwok | constructor]|].
      rewrite count_spi_cons_spi. unfold count_spi. cbn [spi_writes flat_map length].
      rewrite Z.div_small by lia. lia.
    + (* a full buffer: write it and go round again *)
      assert (Hkeq : k = cap) by (unfold k; lia).
      destruct (Forall_firstn_skipn _ (Z.to_nat k) px Hwf) as [_ Hwf'].
      assert (Hlen' : length (skipn (Z.to_nat k) px) = (length px - Z.to_nat k)%nat)
        by apply skipn_length.
      destruct (IH buf1 (skipn (Z.to_nat k) px)) as
        (ops & b2 & Hgo & Hcat & Hall & Hb2 & Hws & Hcnt).
      { rewrite Hlen'. lia. }
      { rewrite Hb1len. exact Hfit. }
      { exact Hwf'. }
      rewrite Hgo.
      exists (OSpi bytes :: ops), b2.
      split; [reflexivity|].
      split.
      { rewrite spi_writes_cons_spi. cbn [concat]. rewrite Hcat. unfold bytes.
        rewrite <- concat_app, firstn_skipn. reflexivity. }
      split; [constructor; [exact I | exact Hall]|].
      split; [rewrite Hb2; exact Hb1len|].
      split; [rewrite spi_writes_cons_spi; constructor; [exact Hwok | exact Hws]|].
      rewrite count_spi_cons_spi, Hcnt, Hlen'.
      replace (Z.of_nat (length px - Z.to_nat k)) with (Z.of_nat (length px) - cap) by lia.
      apply div_sub_self. exact Hcap.
Qed.

Theorem spi_pixels_spec : forall n buf px,
  1 <= n -> n <= Z.of_nat (length buf) ->
  Forall (fun p => Z.of_nat (length p) = n) px ->
  let cap := Z.of_nat (length buf) / n in
  let '(ops, buf', r) := spi_send_pixels n buf px in
  r = Ok tt /\
  concat (spi_writes ops) = concat px /\
  all_spi ops /\
  (forall dc, spi_wire dc ops = map (pair dc) (concat px)) /\
  length buf' = length buf /\
  Forall (fun w => Z.of_nat (length w) <= cap * n /\ Z.of_nat (length w) mod n = 0)
         (spi_writes ops) /\
  count_spi ops = Z.of_nat (length px) / cap + 1.
Proof.
  intros n buf px Hn Hlen Hwf cap.
  destruct (cap_bounds n (Z.of_nat (length buf)) Hn Hlen) as [Hcap Hfit].
  fold cap in Hcap, Hfit.
  unfold spi_send_pixels.
  destruct (Z.ltb_spec (Z.of_nat (length buf)) n) as [Hlt|_]; [lia|].
  fold cap.
  destruct (spi_pixels_go_spec n cap Hn Hcap (S (length px)) buf px ltac:(lia) Hfit Hwf)
    as (ops & b2 & Hgo & Hcat & Hall & Hb2 & Hws & Hcnt).
  rewrite Hgo.
  split; [reflexivity|].
  split; [exact Hcat|].
  split; [exact Hall|].
  split; [intros dc; rewrite (all_spi_wire dc ops Hall), Hcat; reflexivity|].
  split; [exact Hb2|].
  split; [exact Hws | exact Hcnt].
Qed.

(* the `assert!(self.buffer.len() >= N)` *)
Theorem spi_pixels_small_buffer_panics : forall n buf px,
  Z.of_nat (length buf) < n -> spi_send_pixels n buf px = ([], buf, Panic).
Proof.
  intros n buf px Hlt. unfold spi_send_pixels.
  destruct (Z.ltb_spec (Z.of_nat (length buf)) n) as [_|Hge]; [reflexivity | lia].
Qed.

(* ---------------------------------------------------------------------------------------------- *)
(* 3. send_repeated_pixel (fixed tree)                                                            *)
(* ---------------------------------------------------------------------------------------------- *)

(* the first k pixels of a buffer pre-filled with fc >= k copies of the pixel *)
Lemma firstn_fill (pixel : list Z) (n k fc : Z) (rest : list Z) :
  Z.of_nat (length pixel) = n -> 0 <= k <= fc ->
  firstn (Z.to_nat (k * n)) (concat (repeat pixel (Z.to_nat fc)) ++ rest)
  = concat (repeat pixel (Z.to_nat k)).
Proof.
  intros Hpix Hk.
  replace (Z.to_nat (k * n)) with (Z.to_nat k * length pixel)%nat by nia.
  apply firstn_concat_repeat. lia.
Qed.

Lemma ceil_div_exact (fc q : Z) : 1 <= fc -> (fc * q + fc - 1) / fc = q.
Proof.
  intros Hfc. symmetry. apply (Z.div_unique_pos _ _ _ (fc - 1)); lia.
Qed.

Lemma ceil_div_rem (fc q r : Z) : 1 <= r < fc -> (fc * q + r + fc - 1) / fc = q + 1.
Proof.
  intros Hr. symmetry. apply (Z.div_unique_pos _ _ _ (r - 1)); lia.
Qed.

(* the writes of the fixed function: count/fc full buffers, then the remainder *)
Lemma repeat_ops_spec (pixel : list Z) (n cap count fc : Z) :
  Z.of_nat (length pixel) = n -> 1 <= n -> 1 <= fc <= cap -> fc <= count ->
  let crep := fun k => concat (repeat pixel (Z.to_nat k)) in
  let ops := repeat (OSpi (crep fc)) (Z.to_nat (count / fc))
             ++ (if count mod fc =? 0 then [] else [OSpi (crep (count mod fc))]) in
  concat (spi_writes ops) = crep count /\
  all_spi ops /\
  Forall (fun w => Z.of_nat (length w) <= cap * n /\ Z.of_nat (length w) mod n = 0)
         (spi_writes ops) /\
  count_spi ops = (count + fc - 1) / fc.
Proof.
  intros Hpix Hn Hfc Hcount crep ops.
  assert (Hdm : count = fc * (count / fc) + count mod fc) by (apply Z.div_mod; lia).
  assert (Hrem : 0 <= count mod fc < fc) by (apply Z.mod_pos_bound; lia).
  assert (Hfull : 0 <= count / fc) by (apply Z.div_pos; lia).
  set (full := count / fc) in *. set (rem := count mod fc) in *.
  assert (Hcreplen : forall k, 0 <= k -> Z.of_nat (length (crep k)) = k * n).
  { intros k Hk. unfold crep. rewrite concat_repeat_length. nia. }
  assert (Hwok : forall k, 0 <= k <= fc ->
            Z.of_nat (length (crep k)) <= cap * n /\ Z.of_nat (length (crep k)) mod n = 0).
  { intros k Hk. rewrite Hcreplen by lia. split; [nia | apply Z.mod_mul; lia]. }
  assert (Hwr : spi_writes ops =
                repeat (crep fc) (Z.to_nat full) ++ (if rem =? 0 then [] else [crep rem])).
  { unfold ops. rewrite spi_writes_app, spi_writes_repeat.
    destruct (rem =? 0); reflexivity. }
  split.
  { rewrite Hwr, concat_app. unfold crep at 1. rewrite concat_repeat_mul.
    destruct (Z.eqb_spec rem 0) as [Hz|Hnz].
    - cbn [concat]. rewrite app_nil_r. unfold crep. f_equal. f_equal. nia.
    - cbn [concat]. rewrite app_nil_r. unfold crep. rewrite concat_repeat_add.
      f_equal. f_equal. nia. }
  split.
  { unfold ops. apply Forall_app. split; [apply all_spi_repeat|].
    destruct (rem =? 0); [constructor | constructor; [exact I | constructor]]. }
  split.
  { rewrite Hwr. apply Forall_app. split.
    - apply Forall_forall. intros w Hw. apply repeat_spec in Hw. subst w. apply Hwok. lia.
    - destruct (rem =? 0); [constructor | constructor; [apply Hwok; lia | constructor]]. }
  unfold count_spi. rewrite Hwr, app_length, repeat_length.
  destruct (Z.eqb_spec rem 0) as [Hz|Hnz].
  - cbn [length]. rewrite Hdm, Hz, Z.add_0_r, ceil_div_exact by lia. lia.
  - cbn [length]. rewrite Hdm, ceil_div_rem by lia. lia.
Qed.

Theorem spi_repeat_spec : forall n buf pixel count,
  1 <= n -> n <= Z.of_nat (length buf) ->
  Z.of_nat (length pixel) = n -> 0 <= count < 2 ^ 32 ->
  let cap := Z.of_nat (length buf) / n in
  cap < 2 ^ 32 ->
  let fc := Z.min count cap in
  let '(ops, buf', r) := spi_send_repeated true n buf pixel count in
  r = Ok tt /\
  concat (spi_writes ops) = concat (repeat pixel (Z.to_nat count)) /\
  all_spi ops /\
  (forall dc, spi_wire dc ops = map (pair dc) (concat (repeat pixel (Z.to_nat count)))) /\
  length buf' = length buf /\
  Forall (fun w => Z.of_nat (length w) <= cap * n /\ Z.of_nat (length w) mod n = 0)
         (spi_writes ops) /\
  count_spi ops = (if count =? 0 then 0 else (count + fc - 1) / fc).
Proof.
  intros n buf pixel count Hn Hlen Hpix Hcount cap Hcap32 fc.
  destruct (cap_bounds n (Z.of_nat (length buf)) Hn Hlen) as [Hcap Hfit].
  fold cap in Hcap, Hfit.
  unfold spi_send_repeated. cbn [andb].
  destruct (Z.eqb_spec count 0) as [Hz|Hnz].
  - subst count.
    split; [reflexivity|]. split; [reflexivity|]. split; [constructor|].
    split; [intros dc; reflexivity|]. split; [reflexivity|].
    split; [constructor | reflexivity].
  - fold cap.
    assert (Hcast : cast_u 32 cap = cap) by (unfold cast_u; apply Z.mod_small; lia).
    rewrite Hcast. fold fc.
    assert (Hfc : 1 <= fc <= cap) by (unfold fc; lia).
    assert (Hfcc : fc <= count) by (unfold fc; lia).
    destruct (Z.eqb_spec fc 0) as [Hfz|_]; [lia|].
    set (rest := skipn (Z.to_nat (fc * n)) buf).
    rewrite (firstn_fill pixel n fc fc rest Hpix) by lia.
    rewrite (firstn_fill pixel n (count mod fc) fc rest Hpix)
      by (pose proof (Z.mod_pos_bound count fc ltac:(lia)); lia).
    destruct (repeat_ops_spec pixel n cap count fc Hpix Hn Hfc Hfcc)
      as (Hcat & Hall & Hws & Hcnt).
    split; [reflexivity|].
    split; [exact Hcat|].
    split; [exact Hall|].
    split; [intros dc; rewrite (all_spi_wire dc _ Hall), Hcat; reflexivity|].
    split.
    { rewrite app_length, concat_repeat_length. unfold rest. rewrite skipn_length. nia. }
    split; [exact Hws | exact Hcnt].
Qed.

(* ---------------------------------------------------------------------------------------------- *)
(* 4. the pinned tree: send_repeated_pixel(_, 0) never returns (finding F2)                       *)
(* ---------------------------------------------------------------------------------------------- *)
Theorem spi_repeat_pinned_diverges : forall n buf pixel,
  1 <= n -> n <= Z.of_nat (length buf) ->
  snd (spi_send_repeated false n buf pixel 0) = Diverge.
Proof.
  intros n buf pixel Hn Hlen. unfold spi_send_repeated. cbn [andb].
  assert (H0 : 0 <= cast_u 32 (Z.of_nat (length buf) / n))
    by (unfold cast_u; apply Z.mod_pos_bound; lia).
  rewrite (Z.min_l 0 _ H0). reflexivity.
Qed.

Example spi_repeat_pinned_diverges_ex :
  snd (spi_send_repeated false 2 [165;165;165;165;165;165;165] [1;2] 0) = Diverge /\
  spi_send_repeated true 2 [165;165;165;165;165;165;165] [1;2] 0
  = ([], [165;165;165;165;165;165;165], Ok tt).
Proof. vm_compute. auto. Qed.

(* Why `cap < 2^32` is a hypothesis of the repeat statements: `(len / N) as u32` truncates, so a
   staging buffer of exactly 2^32 pixels gives fill_count = 0 and the loop never exits even on the
   fixed tree. (Not reachable on 32-bit targets.) *)
Lemma spi_repeat_huge_buffer_diverges : forall buf x,
  Z.of_nat (length buf) = 2 ^ 32 ->
  snd (spi_send_repeated true 1 buf [x] 1) = Diverge.
Proof.
  intros buf x Hlen. unfold spi_send_repeated. rewrite Hlen. reflexivity.
Qed.

(* ---------------------------------------------------------------------------------------------- *)
(* 5. running an L1 trace: wire transparency and DC discipline                                    *)
(* ---------------------------------------------------------------------------------------------- *)
Lemma spi_event_spec (n : Z) (buf : list Z) (e : event) :
  1 <= n -> n <= Z.of_nat (length buf) -> Z.of_nat (length buf) / n < 2 ^ 32 ->
  event_pixels_wf n e ->
  exists ops buf',
    spi_event true n buf e = (ops, buf', Ok tt) /\
    length buf' = length buf /\
    (forall dc, (dc = true \/ exists op args, e = ECmd op args) ->
       spi_wire dc ops = wire_of_event e /\ dc_after dc ops = true).
Proof.
  intros Hn Hlen Hcap Hwf.
  destruct e as [op args|px|p c|ns| |]; cbn [spi_event wire_of_event].
  - (* ECmd *)
    destruct (spi_command_spec buf op args) as [Hcmd Hw].
    exists [ODc false; OSpi [op]; ODc true; OSpi args], buf.
    split; [exact Hcmd|]. split; [reflexivity|].
    intros dc _. apply Hw.
  - (* EPixels *)
    cbn [event_pixels_wf] in Hwf.
    pose proof (spi_pixels_spec n buf px Hn Hlen Hwf) as H.
    cbv zeta in H.
    destruct (spi_send_pixels n buf px) as [[ops b2] r].
    destruct H as (Hr & Hcat & Hall & Hwire & Hb2 & _).
    exists ops, b2. subst r.
    split; [reflexivity|]. split; [exact Hb2|].
    intros dc [Hdc|(op & args & Habs)]; [|discriminate Habs].
    subst dc. split; [apply Hwire | apply (all_spi_dc_after true ops Hall)].
  - (* ERepeat *)
    cbn [event_pixels_wf] in Hwf. destruct Hwf as [Hpix Hc].
    pose proof (spi_repeat_spec n buf p c Hn Hlen Hpix Hc Hcap) as H.
    cbv zeta in H.
    destruct (spi_send_repeated true n buf p c) as [[ops b2] r].
    destruct H as (Hr & Hcat & Hall & Hwire & Hb2 & _).
    exists ops, b2. subst r.
    split; [reflexivity|]. split; [exact Hb2|].
    intros dc [Hdc|(op & args & Habs)]; [|discriminate Habs].
    subst dc. split; [apply Hwire | apply (all_spi_dc_after true ops Hall)].
  - exists [ODelay ns], buf. split; [reflexivity|]. split; [reflexivity|].
    intros dc [Hdc|(op & args & Habs)]; [|discriminate Habs].
    subst dc. split; reflexivity.
  - exists [ORst false], buf. split; [reflexivity|]. split; [reflexivity|].
    intros dc [Hdc|(op & args & Habs)]; [|discriminate Habs].
    subst dc. split; reflexivity.
  - exists [ORst true], buf. split; [reflexivity|]. split; [reflexivity|].
    intros dc [Hdc|(op & args & Habs)]; [|discriminate Habs].
    subst dc. split; reflexivity.
Qed.

Lemma spi_run_spec (n : Z) :
  1 <= n ->
  forall (t : list event) (buf : list Z) (dc0 : bool),
  n <= Z.of_nat (length buf) -> Z.of_nat (length buf) / n < 2 ^ 32 ->
  Forall (event_pixels_wf n) t ->
  (dc0 = true \/ exists op args t', t = ECmd op args :: t') ->
  exists ops buf',
    spi_run true n buf t = (ops, buf', Ok tt) /\
    spi_wire dc0 ops = wire_of t /\
    length buf' = length buf.
Proof.
  intros Hn t.
  induction t as [|e t IH]; intros buf dc0 Hlen Hcap Hwf Hdc.
  - exists [], buf. split; [reflexivity|]. split; reflexivity.
  - inversion Hwf as [|e' t' He Ht]; subst e' t'.
    destruct (spi_event_spec n buf e Hn Hlen Hcap He) as (ops1 & b1 & Hev & Hb1 & Hw1).
    assert (Hdc1 : dc0 = true \/ exists op args, e = ECmd op args).
    { destruct Hdc as [Hd|(op & args & t' & Heq)]; [left; exact Hd|].
      right. exists op, args. congruence. }
    destruct (Hw1 dc0 Hdc1) as [Hwire1 Hafter1].
    destruct (IH b1 true) as (ops2 & b2 & Hrun & Hwire2 & Hb2).
    { rewrite Hb1. exact Hlen. }
    { rewrite Hb1. exact Hcap. }
    { exact Ht. }
    { left. reflexivity. }
    exists (ops1 ++ ops2), b2.
    split.
    { cbn [spi_run]. rewrite Hev, Hrun. reflexivity. }
    split.
    { rewrite spi_wire_app, Hafter1, Hwire1, Hwire2. reflexivity. }
    rewrite Hb2. exact Hb1.
Qed.

Theorem spi_run_wire : forall n buf t dc0,
  1 <= n -> n <= Z.of_nat (length buf) -> Z.of_nat (length buf) / n < 2 ^ 32 ->
  Forall (event_pixels_wf n) t ->
  (dc0 = true \/ exists op args t', t = ECmd op args :: t') ->
  let '(ops, buf', r) := spi_run true n buf t in
  r = Ok tt /\ spi_wire dc0 ops = wire_of t /\ length buf' = length buf.
Proof.
  intros n buf t dc0 Hn Hlen Hcap Hwf Hdc.
  destruct (spi_run_spec n Hn t buf dc0 Hlen Hcap Hwf Hdc) as (ops & b2 & Hrun & Hwire & Hb2).
  rewrite Hrun. split; [reflexivity|]. split; [exact Hwire | exact Hb2].
Qed.

(* ---------------------------------------------------------------------------------------------- *)
(* 6. number of SPI transactions (used by C20)                                                    *)
(* ---------------------------------------------------------------------------------------------- *)
Theorem spi_transactions_bound_pixels : forall n buf px,
  1 <= n -> n <= Z.of_nat (length buf) ->
  Forall (fun p => Z.of_nat (length p) = n) px ->
  let cap := Z.of_nat (length buf) / n in
  let '(ops, _, _) := spi_send_pixels n buf px in
  count_spi ops <= Z.of_nat (length (concat px)) / (cap * n) + 1.
Proof.
  intros n buf px Hn Hlen Hwf cap.
  pose proof (spi_pixels_spec n buf px Hn Hlen Hwf) as H. cbv zeta in H. fold cap in H.
  destruct (cap_bounds n (Z.of_nat (length buf)) Hn Hlen) as [Hcap _]. fold cap in Hcap.
  destruct (spi_send_pixels n buf px) as [[ops b2] r].
  destruct H as (_ & _ & _ & _ & _ & _ & Hcnt).
  rewrite Hcnt, (concat_wf_length n px Hwf), Z.div_mul_cancel_r by lia. lia.
Qed.

Theorem spi_transactions_bound_repeat : forall n buf pixel count,
  1 <= n -> n <= Z.of_nat (length buf) ->
  Z.of_nat (length pixel) = n -> 0 <= count < 2 ^ 32 ->
  let cap := Z.of_nat (length buf) / n in
  cap < 2 ^ 32 ->
  let '(ops, _, _) := spi_send_repeated true n buf pixel count in
  count_spi ops <= (count * n) / (cap * n) + 1.
Proof.
  intros n buf pixel count Hn Hlen Hpix Hcount cap Hcap32.
  pose proof (spi_repeat_spec n buf pixel count Hn Hlen Hpix Hcount Hcap32) as H.
  cbv zeta in H. fold cap in H.
  destruct (cap_bounds n (Z.of_nat (length buf)) Hn Hlen) as [Hcap _]. fold cap in Hcap.
  destruct (spi_send_repeated true n buf pixel count) as [[ops b2] r].
  destruct H as (_ & _ & _ & _ & _ & _ & Hcnt).
  rewrite Hcnt, Z.div_mul_cancel_r by lia.
  assert (Hq : 0 <= count / cap) by (apply Z.div_pos; lia).
  destruct (Z.eqb_spec count 0) as [Hz|Hnz]; [lia|].
  destruct (Z.min_spec count cap) as [[Hlt Hmin]|[Hle Hmin]]; rewrite Hmin.
  - (* count < cap: a single write *)
    replace (count + count - 1) with (count * 1 + count - 1) by lia.
    rewrite ceil_div_exact by lia. lia.
  - (* cap <= count *)
    replace (count / cap + 1) with ((count + 1 * cap) / cap) by (apply Z.div_add; lia).
    apply Z.div_le_mono; lia.
Qed.

(* both bounds in one statement *)
Theorem spi_transactions_bound : forall n buf,
  1 <= n -> n <= Z.of_nat (length buf) ->
  let cap := Z.of_nat (length buf) / n in
  (forall px, Forall (fun p => Z.of_nat (length p) = n) px ->
     let '(ops, _, _) := spi_send_pixels n buf px in
     count_spi ops <= Z.of_nat (length (concat px)) / (cap * n) + 1) /\
  (cap < 2 ^ 32 ->
   forall pixel count, Z.of_nat (length pixel) = n -> 0 <= count < 2 ^ 32 ->
     let '(ops, _, _) := spi_send_repeated true n buf pixel count in
     count_spi ops <= (count * n) / (cap * n) + 1).
Proof.
  intros n buf Hn Hlen cap. split.
  - intros px Hwf. exact (spi_transactions_bound_pixels n buf px Hn Hlen Hwf).
  - intros Hcap32 pixel count Hpix Hcount.
    exact (spi_transactions_bound_repeat n buf pixel count Hn Hlen Hpix Hcount Hcap32).
Qed.
