(* SleepP.v — sleep / wake bookkeeping (C13): over any history of Display calls the driver's sleeping
   flag equals the sleep state of the reference controller, it is the last of sleep / wake that was
   called, and the two sleep commands are never closer than 120 ms. *)
Require Import Model.Base Model.Orient Model.Dcs Model.Events Model.Builder Model.Rect Model.Batch Model.Display.
Require Import Oracle.Controller Proofs.DcsP Proofs.OrientStateP.
Open Scope Z_scope.

(* an event that cannot change the controller's sleep state / command page / reset it, nor move time backwards *)
Definition quiet_event (e : event) : bool :=
  match e with
  | ECmd op _ => negb ((op =? 0x01) || (op =? 0x10) || (op =? 0x11) || (op =? 0xFE))
  | ERstLow => false
  | EDelay ns => 0 <=? ns
  | _ => true
  end.

Definition sleep_inv (k : ctl) : Prop :=
  k_page k = false /\ ~ In SleepSpacing (k_flags k) /\
  match k_last_slp k with Some ts => SLEEP_NS <= k_clock k - ts | None => True end.

Definition last_sleep_op (ops : list pop) (init : bool) : bool :=
  fold_left (fun s op => match op with PSleep => true | PWake => false | _ => s end) ops init.

Definition quiet (t : list event) : Prop := Forall (fun e => quiet_event e = true) t.

(* ------------------------------------------------------------------------------------------ *)
(* 1. quiet events leave the sleep-relevant part of the controller alone                        *)
(* ------------------------------------------------------------------------------------------ *)

(* k' agrees with k on sleep state, page, last sleep time; time did not go back; no new SleepSpacing *)
Definition slp_same (k k' : ctl) : Prop :=
  k_asleep k' = k_asleep k /\ k_page k' = k_page k /\ k_last_slp k' = k_last_slp k /\
  k_clock k <= k_clock k' /\ (In SleepSpacing (k_flags k') -> In SleepSpacing (k_flags k)).

Lemma slp_refl k : slp_same k k.
Proof. unfold slp_same. repeat split; try reflexivity. intros Hin; exact Hin. Qed.

Lemma slp_trans a b c : slp_same a b -> slp_same b c -> slp_same a c.
Proof.
  intros (Ha1 & Ha2 & Ha3 & Ha4 & Ha5) (Hb1 & Hb2 & Hb3 & Hb4 & Hb5). unfold slp_same.
  repeat split; try congruence; [lia | intros Hin; apply Ha5, Hb5, Hin].
Qed.

Lemma slp_flag k k1 a : a <> SleepSpacing -> slp_same k k1 -> slp_same k (flag k1 a).
Proof.
  intros Hne (H1 & H2 & H3 & H4 & H5). unfold slp_same. cbn [flag k_asleep k_page k_last_slp k_clock k_flags].
  repeat split; try assumption. intros [Heq | Hin]; [congruence | exact (H5 Hin)].
Qed.

Lemma slp_set_core k k1 m cm sl on inv te :
  sl = k_asleep k1 -> slp_same k k1 -> slp_same k (set_core k1 m cm sl on inv te).
Proof.
  intros Hsl (H1 & H2 & H3 & H4 & H5). unfold slp_same.
  cbn [set_core k_asleep k_page k_last_slp k_clock k_flags]. subst sl. repeat split; assumption.
Qed.

Lemma slp_keep_core k k1 : slp_same k k1 -> slp_same k (keep_core k1).
Proof. intros H. unfold keep_core. apply slp_set_core; [reflexivity | exact H]. Qed.

Lemma slp_with_window k k1 a b c d : slp_same k k1 -> slp_same k (with_window k1 a b c d).
Proof. intros H. exact H. Qed.

Lemma slp_with_ptr k k1 p w s : slp_same k k1 -> slp_same k (with_ptr k1 p w s).
Proof. intros H. exact H. Qed.

Lemma slp_with_misc k k1 vscr vstart clk ls pg opq :
  ls = k_last_slp k1 -> pg = k_page k1 -> k_clock k1 <= clk ->
  slp_same k k1 -> slp_same k (with_misc k1 vscr vstart clk ls pg opq).
Proof.
  intros Hls Hpg Hclk (H1 & H2 & H3 & H4 & H5). unfold slp_same.
  cbn [with_misc k_asleep k_page k_last_slp k_clock k_flags]. subst ls pg.
  repeat split; try assumption. lia.
Qed.

Ltac slp_leaf :=
  repeat first
    [ apply slp_refl
    | apply slp_flag; [discriminate |]
    | apply slp_keep_core
    | apply slp_set_core; [reflexivity |]
    | apply slp_with_window
    | apply slp_with_ptr
    | apply slp_with_misc; [reflexivity | reflexivity | apply Z.le_refl |] ].

Ltac slp_split :=
  repeat match goal with
         | |- context [if ?b then _ else _] => destruct b
         end.

Lemma slp_window_cmd k op args : slp_same k (window_cmd k op args).
Proof.
  unfold window_cmd.
  destruct args as [|sh [|sl [|eh [|el [|x args]]]]]; try (slp_leaf; fail).
  cbv zeta. slp_split; slp_leaf.
Qed.

Lemma slp_write_px k ws : slp_same k (write_px k ws).
Proof.
  unfold write_px. destruct (k_ptr k) as [[[c p] w]|]; [| slp_leaf].
  destruct (phys (k_fw k) (k_fh k) (k_madctl k) c p) as [x y].
  destruct (if c <? k_ec k then (c + 1, p, false)
            else if p <? k_ep k then (k_sc k, p + 1, false) else (k_sc k, k_sp k, true)) as [[c' p'] w'].
  destruct w; slp_leaf.
Qed.

Lemma slp_write_pxs px : forall k, slp_same k (fold_left write_px px k).
Proof.
  induction px as [|ws px IH]; intros k; [apply slp_refl |].
  cbn [fold_left]. eapply slp_trans; [apply slp_write_px | apply IH].
Qed.

Lemma slp_write_px_n {A} ws (l : list A) : forall k, slp_same k (fold_left (fun k' _ => write_px k' ws) l k).
Proof.
  induction l as [|x l IH]; intros k; [apply slp_refl |].
  cbn [fold_left]. eapply slp_trans; [apply slp_write_px | apply IH].
Qed.

Lemma slp_write_repeat k ws n : slp_same k (write_repeat k ws n).
Proof.
  unfold write_repeat. destruct (k_ptr k) as [[[c p] w]|].
  - destruct (n =? 0); [apply slp_refl |].
    destruct ((c =? k_sc k) && (p =? k_sp k) && negb w && (n =? window_area k)
              && (k_sc k <=? k_ec k) && (k_sp k <=? k_ep k)).
    + destruct (phys (k_fw k) (k_fh k) (k_madctl k) (k_sc k) (k_sp k)) as [xa ya].
      destruct (phys (k_fw k) (k_fh k) (k_madctl k) (k_ec k) (k_ep k)) as [xb yb]. slp_leaf.
    + destruct (n <=? 4096); [apply slp_write_px_n | slp_leaf].
  - destruct (n =? 0); slp_leaf.
Qed.

Lemma slp_command k op args :
  k_page k = false -> quiet_event (ECmd op args) = true -> slp_same k (command k op args).
Proof.
  intros Hpage Hq. cbn [quiet_event] in Hq. apply negb_true_iff in Hq.
  apply orb_false_iff in Hq. destruct Hq as [Hq HFE].
  apply orb_false_iff in Hq. destruct Hq as [Hq H11].
  apply orb_false_iff in Hq. destruct Hq as [H01 H10].
  unfold command. rewrite HFE. cbn [andb]. rewrite Hpage, H01, H10, H11.
  destruct (op =? 0x28); [slp_leaf |].
  destruct (op =? 0x29); [slp_leaf |].
  destruct (op =? 0x20); [slp_leaf |].
  destruct (op =? 0x21); [slp_leaf |].
  destruct (op =? 0x34); [slp_leaf |].
  destruct (op =? 0x35); [destruct args as [|b [|b' args]]; slp_leaf |].
  destruct (op =? 0x36); [destruct args as [|b [|b' args]]; slp_leaf |].
  destruct (op =? 0x3A); [destruct args as [|b [|b' args]]; slp_leaf |].
  destruct ((op =? 0x2A) || (op =? 0x2B)); [apply slp_window_cmd |].
  destruct (op =? 0x2C); [slp_leaf |].
  destruct (op =? 0x3C); [slp_leaf |].
  destruct (op =? 0x33);
    [destruct args as [|a1 [|a2 [|a3 [|a4 [|a5 [|a6 [|a7 args]]]]]]]; cbv zeta; slp_leaf |].
  destruct (op =? 0x37); [destruct args as [|a1 [|a2 [|a3 args]]]; cbv zeta; slp_leaf |].
  destruct ((op =? 0x12) || (op =? 0x13) || (op =? 0x38) || (op =? 0x39) || (op =? 0x00)); cbv zeta; slp_leaf.
Qed.

Lemma slp_step k e : quiet_event e = true -> k_page k = false -> slp_same k (ctl_step k e).
Proof.
  intros Hq Hpage. destruct e as [op args | px | ws n | ns | |]; cbn [ctl_step].
  - apply slp_command; assumption.
  - apply slp_write_pxs.
  - apply slp_write_repeat.
  - cbn [quiet_event] in Hq. apply Z.leb_le in Hq.
    apply slp_with_misc; [reflexivity | reflexivity | lia | apply slp_refl].
  - discriminate Hq.
  - apply slp_refl.
Qed.

Lemma quiet_step k e : quiet_event e = true -> k_page k = false ->
  let k' := ctl_step k e in
  k_asleep k' = k_asleep k /\ k_page k' = false /\ k_last_slp k' = k_last_slp k /\
  k_clock k <= k_clock k' /\ (In SleepSpacing (k_flags k') -> In SleepSpacing (k_flags k)).
Proof.
  intros Hq Hpage k'. destruct (slp_step k e Hq Hpage) as (H1 & H2 & H3 & H4 & H5). fold k' in H1, H2, H3, H4, H5.
  repeat split; try assumption. congruence.
Qed.

Lemma slp_run t : forall k, quiet t -> k_page k = false -> slp_same k (ctl_run k t).
Proof.
  induction t as [|e t IH]; intros k Hq Hpage; [apply slp_refl |].
  inversion Hq as [|e' t' He Ht]; subst e' t'.
  change (ctl_run k (e :: t)) with (ctl_run (ctl_step k e) t).
  pose proof (slp_step k e He Hpage) as Hs.
  eapply slp_trans; [exact Hs |]. apply IH; [exact Ht |].
  destruct Hs as (_ & Hp & _). congruence.
Qed.

Lemma quiet_run k t : quiet t -> k_page k = false ->
  let k' := ctl_run k t in
  k_asleep k' = k_asleep k /\ k_page k' = false /\ k_last_slp k' = k_last_slp k /\
  k_clock k <= k_clock k' /\ (In SleepSpacing (k_flags k') -> In SleepSpacing (k_flags k)).
Proof.
  intros Hq Hpage k'. destruct (slp_run t k Hq Hpage) as (H1 & H2 & H3 & H4 & H5). fold k' in H1, H2, H3, H4, H5.
  repeat split; try assumption. congruence.
Qed.

Lemma quiet_run_inv k t : quiet t -> sleep_inv k ->
  sleep_inv (ctl_run k t) /\ k_asleep (ctl_run k t) = k_asleep k.
Proof.
  intros Hq (Hpage & Hnf & Hsp).
  destruct (quiet_run k t Hq Hpage) as (H1 & H2 & H3 & H4 & H5).
  split; [| exact H1]. unfold sleep_inv. split; [exact H2 |]. split; [intros Hin; exact (Hnf (H5 Hin)) |].
  rewrite H3. destruct (k_last_slp k) as [ts|]; [lia | exact I].
Qed.

(* ------------------------------------------------------------------------------------------ *)
(* 2. every Display operation other than sleep / wake emits quiet events only                   *)
(* ------------------------------------------------------------------------------------------ *)

Lemma quiet_nil : quiet [].
Proof. constructor. Qed.

Lemma quiet_one e : quiet_event e = true -> quiet [e].
Proof. intros H. constructor; [exact H | constructor]. Qed.

Lemma quiet_wlift {A} (o : outcome A) : quiet (fst (wlift o)).
Proof. apply quiet_nil. Qed.

Lemma quiet_wret {A} (a : A) : quiet (fst (wret a)).
Proof. apply quiet_nil. Qed.

Lemma quiet_wbind {A B} (m : W A) (f : A -> W B) :
  quiet (fst m) -> (forall a, quiet (fst (f a))) -> quiet (fst (wbind m f)).
Proof.
  intros Hm Hf. destruct m as [t [a | e | |]]; cbn [wbind]; try exact Hm.
  specialize (Hf a). destruct (f a) as [t' r]. cbn [fst] in *.
  apply Forall_app. split; assumption.
Qed.

Lemma quiet_wemit cmd :
  quiet_event (ECmd (instruction cmd) (params cmd)) = true -> quiet (fst (wemit (write_command cmd))).
Proof. intros H. rewrite write_command_spec. cbn [wemit fst]. apply quiet_one, H. Qed.

Section Ops.
Variable c : ctx.

Lemma quiet_set_address_window o sx sy ex ey : quiet (fst (set_address_window c o sx sy ex ey)).
Proof.
  unfold set_address_window.
  apply quiet_wbind; [apply quiet_wlift | intros off].
  apply quiet_wbind; [apply quiet_wlift | intros sx'].
  apply quiet_wbind; [apply quiet_wlift | intros sy'].
  apply quiet_wbind; [apply quiet_wlift | intros ex'].
  apply quiet_wbind; [apply quiet_wlift | intros ey'].
  apply quiet_wbind; [apply quiet_wemit; reflexivity | intros _].
  apply quiet_wemit; reflexivity.
Qed.

Lemma quiet_set_pixels o sx sy ex ey cs : quiet (fst (set_pixels c o sx sy ex ey cs)).
Proof.
  unfold set_pixels.
  apply quiet_wbind; [apply quiet_set_address_window | intros _].
  apply quiet_wbind; [apply quiet_wemit; reflexivity | intros _].
  cbn [fst]. apply quiet_one. reflexivity.
Qed.

Lemma quiet_draw_each o ps : quiet (fst (draw_each c o ps)).
Proof.
  induction ps as [|[[x y] col] ps IH]; cbn [draw_each]; [apply quiet_wret |].
  apply quiet_wbind; [apply quiet_set_pixels | intros _; exact IH].
Qed.

Lemma quiet_draw_blocks o bs : quiet (fst (draw_blocks c o bs)).
Proof.
  induction bs as [|b bs IH]; cbn [draw_blocks]; [apply quiet_wret |].
  apply quiet_wbind; [apply quiet_set_pixels | intros _; exact IH].
Qed.

Lemma quiet_draw_iter o ps : quiet (fst (draw_iter c o ps)).
Proof.
  unfold draw_iter. cbv zeta. destruct (c_batch c); [| apply quiet_draw_each].
  destruct (blocks_of (c_md c) (c_blockcap c) (rows_of (c_rowcap c) (filter (in_bbox o) ps))) as [bs r].
  apply quiet_wbind; [apply quiet_draw_blocks | intros _; apply quiet_wlift].
Qed.

Lemma quiet_fill_contiguous o area cs : quiet (fst (fill_contiguous c o area cs)).
Proof.
  unfold fill_contiguous. cbv zeta.
  destruct (bottom_right (intersection area (bounding_box o))) as [[brx bry]|]; [| apply quiet_wret].
  apply quiet_wbind; [apply quiet_wlift | intros count].
  destruct (rect_eqb (intersection area (bounding_box o)) area); [apply quiet_set_pixels |].
  apply quiet_wbind; [apply quiet_wlift | intros skip_y].
  apply quiet_wbind; [apply quiet_wlift | intros skip0].
  apply quiet_wbind; [apply quiet_wlift | intros skipr].
  apply quiet_set_pixels.
Qed.

Lemma quiet_fill_solid o area col : quiet (fst (fill_solid c o area col)).
Proof.
  unfold fill_solid. cbv zeta.
  destruct (bottom_right (intersection area (bounding_box o))) as [[brx bry]|]; [| apply quiet_wret].
  apply quiet_wbind; [apply quiet_wlift | intros count].
  apply quiet_wbind; [apply quiet_set_address_window | intros _].
  apply quiet_wbind; [apply quiet_wemit; reflexivity | intros _].
  cbn [fst]. apply quiet_one. reflexivity.
Qed.

Lemma quiet_clear o col : quiet (fst (clear c o col)).
Proof. unfold clear. apply quiet_fill_solid. Qed.

Lemma quiet_scroll_region top bottom : quiet (fst (set_vertical_scroll_region c top bottom)).
Proof.
  unfold set_vertical_scroll_region. cbv zeta.
  apply quiet_wbind; [apply quiet_wlift | intros s].
  destruct (s >? c_fh c); [apply quiet_wemit; reflexivity |].
  apply quiet_wbind; [apply quiet_wlift | intros a].
  apply quiet_wbind; [apply quiet_wlift | intros v].
  apply quiet_wemit; reflexivity.
Qed.

Lemma quiet_scroll_offset off : quiet (fst (set_vertical_scroll_offset off)).
Proof. unfold set_vertical_scroll_offset. apply quiet_wemit; reflexivity. Qed.

Lemma quiet_tearing t : quiet (fst (set_tearing_effect t)).
Proof. unfold set_tearing_effect. apply quiet_wemit. destruct t; reflexivity. Qed.

(* all arguments arbitrary: in bounds or not, panicking or not *)
Lemma step_quiet st op : op <> PSleep -> op <> PWake -> quiet (fst (fst (step c st op))).
Proof.
  intros Hs Hw. destruct op; unfold step; cbv beta zeta; cbn [fst].
  - apply quiet_set_pixels.
  - apply quiet_set_pixels.
  - apply quiet_draw_iter.
  - apply quiet_fill_contiguous.
  - apply quiet_fill_contiguous.
  - apply quiet_fill_solid.
  - apply quiet_clear.
  - apply quiet_wemit; reflexivity.
  - apply quiet_scroll_region.
  - apply quiet_scroll_offset.
  - apply quiet_tearing.
  - congruence.
  - congruence.
Qed.

Lemma step_keeps_sleeping st op : op <> PSleep -> op <> PWake ->
  d_sleeping (snd (step c st op)) = d_sleeping st.
Proof.
  intros Hs Hw. destruct op; try congruence; try rewrite step_set_orient; reflexivity.
Qed.

(* ------------------------------------------------------------------------------------------ *)
(* 3. sleep and wake themselves                                                                  *)
(* ------------------------------------------------------------------------------------------ *)

Lemma step_sleep st :
  step c st PSleep =
  ([ECmd 0x10 []; EDelay 120000000], ROk,
   {| d_opts := d_opts st; d_madctl := d_madctl st; d_sleeping := true |}).
Proof. unfold step, sleep. rewrite write_command_spec. reflexivity. Qed.

Lemma step_wake st :
  step c st PWake =
  ([ECmd 0x11 []; EDelay 120000000], ROk,
   {| d_opts := d_opts st; d_madctl := d_madctl st; d_sleeping := false |}).
Proof. unfold step, wake. rewrite write_command_spec. reflexivity. Qed.

End Ops.

Lemma command_sleep_in k : k_page k = false -> command k 0x10 [] = sleep_cmd k true.
Proof. intros H. unfold command. rewrite H. reflexivity. Qed.

Lemma command_sleep_out k : k_page k = false -> command k 0x11 [] = sleep_cmd k false.
Proof. intros H. unfold command. rewrite H. reflexivity. Qed.

Lemma sleep_cmd_inv k b : sleep_inv k ->
  let k' := sleep_cmd k b in
  k_asleep k' = b /\ k_page k' = false /\ k_flags k' = k_flags k /\ k_clock k' = k_clock k /\
  k_last_slp k' = Some (k_clock k).
Proof.
  intros (Hpage & Hnf & Hsp) k'. subst k'. unfold sleep_cmd.
  destruct (k_last_slp k) as [ts|].
  - destruct (k_clock k - ts <? SLEEP_NS) eqn:E; [apply Z.ltb_lt in E; lia |].
    repeat split; try reflexivity. exact Hpage.
  - repeat split; try reflexivity. exact Hpage.
Qed.

Lemma ctl_sleep_cmd_delay k op b : sleep_inv k -> command k op [] = sleep_cmd k b ->
  let k' := ctl_run k [ECmd op []; EDelay 120000000] in
  k_asleep k' = b /\ sleep_inv k' /\
  k_last_slp k' = Some (k_clock k) /\ k_clock k' = k_clock k + SLEEP_NS /\ k_flags k' = k_flags k.
Proof.
  intros Hinv Hcmd k'. subst k'. cbn [ctl_run fold_left ctl_step]. rewrite Hcmd.
  destruct (sleep_cmd_inv k b Hinv) as (H1 & H2 & H3 & H4 & H5).
  destruct Hinv as (Hpage & Hnf & Hsp).
  set (k1 := sleep_cmd k b) in *.
  assert (Ha : k_asleep (with_misc k1 (k_vscr k1) (k_vstart k1) (k_clock k1 + 120000000) (k_last_slp k1) (k_page k1) (k_opaque k1)) = b)
    by exact H1.
  assert (Hl : k_last_slp (with_misc k1 (k_vscr k1) (k_vstart k1) (k_clock k1 + 120000000) (k_last_slp k1) (k_page k1) (k_opaque k1)) = Some (k_clock k))
    by exact H5.
  assert (Hc : k_clock (with_misc k1 (k_vscr k1) (k_vstart k1) (k_clock k1 + 120000000) (k_last_slp k1) (k_page k1) (k_opaque k1)) = k_clock k + SLEEP_NS)
    by (cbn [with_misc k_clock]; rewrite H4; reflexivity).
  assert (Hf : k_flags (with_misc k1 (k_vscr k1) (k_vstart k1) (k_clock k1 + 120000000) (k_last_slp k1) (k_page k1) (k_opaque k1)) = k_flags k)
    by exact H3.
  assert (Hp : k_page (with_misc k1 (k_vscr k1) (k_vstart k1) (k_clock k1 + 120000000) (k_last_slp k1) (k_page k1) (k_opaque k1)) = false)
    by exact H2.
  split; [exact Ha |]. split; [| split; [exact Hl | split; [exact Hc | exact Hf]]].
  unfold sleep_inv. split; [exact Hp |]. split; [rewrite Hf; exact Hnf |].
  rewrite Hl, Hc. lia.
Qed.

(* the controller's view of one sleep() call: asleep, invariant re-established *)
Lemma ctl_sleep_call k : sleep_inv k ->
  let k' := ctl_run k [ECmd 0x10 []; EDelay 120000000] in
  k_asleep k' = true /\ sleep_inv k' /\
  k_last_slp k' = Some (k_clock k) /\ k_clock k' = k_clock k + SLEEP_NS /\ k_flags k' = k_flags k.
Proof.
  intros Hinv. apply ctl_sleep_cmd_delay; [exact Hinv |]. apply command_sleep_in. exact (proj1 Hinv).
Qed.

Lemma ctl_wake_call k : sleep_inv k ->
  let k' := ctl_run k [ECmd 0x11 []; EDelay 120000000] in
  k_asleep k' = false /\ sleep_inv k' /\
  k_last_slp k' = Some (k_clock k) /\ k_clock k' = k_clock k + SLEEP_NS /\ k_flags k' = k_flags k.
Proof.
  intros Hinv. apply ctl_sleep_cmd_delay; [exact Hinv |]. apply command_sleep_out. exact (proj1 Hinv).
Qed.

(* ------------------------------------------------------------------------------------------ *)
(* 4. any history                                                                                *)
(* ------------------------------------------------------------------------------------------ *)

Lemma exec_trace_cons c st op ops :
  exec_trace c st (op :: ops) = fst (fst (step c st op)) ++ exec_trace c (snd (step c st op)) ops.
Proof.
  unfold exec_trace. cbn [exec]. destruct (step c st op) as [[t rs] st']. cbn [fst snd].
  destruct (exec c st' ops) as [l stf]. reflexivity.
Qed.

Lemma exec_state_cons c st op ops :
  snd (exec c st (op :: ops)) = snd (exec c (snd (step c st op)) ops).
Proof.
  cbn [exec]. destruct (step c st op) as [[t rs] st']. cbn [fst snd].
  destruct (exec c st' ops) as [l stf]. reflexivity.
Qed.

Lemma last_sleep_op_cons op ops init :
  last_sleep_op (op :: ops) init =
  last_sleep_op ops (match op with PSleep => true | PWake => false | _ => init end).
Proof. reflexivity. Qed.

Lemma pop_sleep_cases op : op = PSleep \/ op = PWake \/ (op <> PSleep /\ op <> PWake).
Proof. destruct op; auto; right; right; split; discriminate. Qed.

Theorem exec_sleep_tracks c : forall ops st k,
  sleep_inv k -> k_asleep k = d_sleeping st ->
  let st' := snd (exec c st ops) in
  let k' := ctl_run k (exec_trace c st ops) in
  d_sleeping st' = k_asleep k' /\ sleep_inv k' /\ d_sleeping st' = last_sleep_op ops (d_sleeping st).
Proof.
  induction ops as [|op ops IH]; intros st k Hinv Heq; cbv zeta.
  - unfold exec_trace. cbn [exec fst snd map concat ctl_run fold_left last_sleep_op].
    split; [symmetry; exact Heq | split; [exact Hinv | reflexivity]].
  - rewrite exec_trace_cons, exec_state_cons, ctl_run_app, last_sleep_op_cons.
    destruct (pop_sleep_cases op) as [Hop | [Hop | [Hns Hnw]]].
    + subst op. rewrite step_sleep. cbn [fst snd].
      destruct (ctl_sleep_call k Hinv) as (Ha & Hi & _).
      specialize (IH {| d_opts := d_opts st; d_madctl := d_madctl st; d_sleeping := true |}
                     (ctl_run k [ECmd 0x10 []; EDelay 120000000]) Hi Ha).
      cbv zeta in IH. exact IH.
    + subst op. rewrite step_wake. cbn [fst snd].
      destruct (ctl_wake_call k Hinv) as (Ha & Hi & _).
      specialize (IH {| d_opts := d_opts st; d_madctl := d_madctl st; d_sleeping := false |}
                     (ctl_run k [ECmd 0x11 []; EDelay 120000000]) Hi Ha).
      cbv zeta in IH. exact IH.
    + pose proof (step_quiet c st op Hns Hnw) as Hq.
      pose proof (step_keeps_sleeping c st op Hns Hnw) as Hk.
      destruct (quiet_run_inv k _ Hq Hinv) as (Hi & Ha).
      assert (Ha' : k_asleep (ctl_run k (fst (fst (step c st op)))) = d_sleeping (snd (step c st op)))
        by congruence.
      specialize (IH (snd (step c st op)) (ctl_run k (fst (fst (step c st op)))) Hi Ha').
      cbv zeta in IH. rewrite Hk in IH.
      assert (Hl : match op with PSleep => true | PWake => false | _ => d_sleeping st end = d_sleeping st)
        by (destruct op; congruence).
      rewrite Hl. exact IH.
Qed.

(* ------------------------------------------------------------------------------------------ *)
(* 5. corollaries                                                                                *)
(* ------------------------------------------------------------------------------------------ *)

Corollary no_sleep_spacing c ops st k :
  sleep_inv k -> k_asleep k = d_sleeping st ->
  ~ In SleepSpacing (k_flags (ctl_run k (exec_trace c st ops))).
Proof.
  intros Hinv Heq. destruct (exec_sleep_tracks c ops st k Hinv Heq) as (_ & (_ & Hnf & _) & _). exact Hnf.
Qed.

Corollary only_sleep_ops_send_sleep_cmds c st op e args :
  op <> PSleep -> op <> PWake -> In e (fst (fst (step c st op))) ->
  e <> ECmd 0x10 args /\ e <> ECmd 0x11 args /\ e <> ECmd 0x01 args /\ e <> ERstLow.
Proof.
  intros Hs Hw Hin.
  pose proof (step_quiet c st op Hs Hw) as Hq. unfold quiet in Hq.
  rewrite Forall_forall in Hq. specialize (Hq e Hin).
  repeat split; intros ->; discriminate Hq.
Qed.
