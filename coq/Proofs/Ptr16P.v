(* Ptr16P.v — the 16-bit-pointer helper variants are interchangeable with the host variants as far as the
   yielded items go (C04: the separate code path that the test host never compiles). *)
Require Import Model.Base Model.Ptr16.
Open Scope Z_scope.

Lemma take16_go_spec md : forall l count max,
  0 <= count -> count + Z.of_nat (length l) < 2 ^ 32 -> count <= max ->
  take16_go md count max l =
  Ok (firstn (Z.to_nat (max - count)) l, skipn (S (Z.to_nat (max - count))) l).
Proof.
  induction l as [|x r IH]; intros count max Hc Hlen Hm.
  - cbn [take16_go]. rewrite firstn_nil. reflexivity.
  - cbn [take16_go length] in *. unfold add_u.
    rewrite chk_u_in by (apply in_u_spec; lia). cbn [bind].
    destruct (count + 1 <=? max) eqn:E.
    + apply Z.leb_le in E. rewrite (IH (count + 1) max) by lia. cbn [bind fst snd].
      replace (Z.to_nat (max - count)) with (S (Z.to_nat (max - (count + 1)))) by lia.
      reflexivity.
    + apply Z.leb_gt in E. replace (max - count) with 0 by lia. reflexivity.
Qed.

(* yields exactly the first `max` items, whatever the build profile, for every stream shorter than 2^32 *)
Lemma take_u32_16_spec md l max :
  0 <= max -> Z.of_nat (length l) < 2 ^ 32 ->
  take_u32_16 md l max = Ok (firstn (Z.to_nat max) l, skipn (S (Z.to_nat max)) l).
Proof.
  intros Hm Hl. unfold take_u32_16. rewrite take16_go_spec by lia. rewrite Z.sub_0_r. reflexivity.
Qed.

Lemma take_u32_16_same_items md l max :
  0 <= max -> Z.of_nat (length l) < 2 ^ 32 ->
  exists left, take_u32_16 md l max = Ok (fst (take_u32_host l max), left).
Proof.
  intros Hm Hl. rewrite take_u32_16_spec by assumption. unfold take_u32_host. cbn [fst].
  rewrite firstnZ_firstn. eexists. reflexivity.
Qed.

Lemma drop16_skipn n : forall l, drop16 n l = skipn n l.
Proof. induction n as [|n IH]; intros [|x r]; cbn; auto. Qed.

(* nth is the same function on both targets, including what it leaves behind *)
Lemma nth_u32_16_spec l n : 0 <= n -> nth_u32_16 l n = nth_u32_host l n.
Proof.
  intros Hn. unfold nth_u32_16, nth_u32_host.
  destruct (Z.of_nat (length l) <=? n) eqn:E.
  - unfold skipnZ. rewrite E. reflexivity.
  - rewrite drop16_skipn, skipnZ_skipn. reflexivity.
Qed.
