(* EndToEndP.v — composition of the piecewise results into end-to-end statements:
   "Builder::init of ANY built-in model on ANY interface kind it supports, with ANY accepted option
   set, with or without a reset pin, from controller power-on — and then ANY program".

     InitP    (C11/C17: what the controller holds after Builder::init, every model x kind x options)
     BuilderP (C09: which sizes / offsets Builder::init accepts)
     ProgramP (C01-C04, C08: any well-formed drawing program, from any state satisfying the drawing
               invariants valid_cfg / madctl_ok / ctl_matches)
     SleepP   (C13: any history of calls, from any state satisfying sleep_inv)
     DecodeP  (C01T: the same picture decoded from the pins of the SPI / parallel transports)

   What is new here is only the glue: (1) the controller's framebuffer size never changes
   (ctl_run_dims), (2) the state after init satisfies the drawing invariants and the sleep invariant,
   (3) the instantiations. Nothing is re-proved. *)
Require Import Model.Base Model.Orient Model.Dcs Model.Events Model.Builder Model.Rect Model.Batch Model.Display
               Model.InitLang Model.Spi Model.Parallel.
Require Import Oracle.Spec Oracle.Controller Oracle.DrawSpec Oracle.InitSpec Oracle.Decode.
Require Import Gen.Consts Gen.Models.
Require Import Proofs.DcsP Proofs.WindowP Proofs.CtlP Proofs.DrawP Proofs.OrientStateP Proofs.BuilderP
               Proofs.InitP Proofs.ProgramP Proofs.SleepP Proofs.OverheadP Proofs.SpiP Proofs.ParallelP
               Proofs.DecodeP.
Open Scope list_scope.   (* Gen.Models / Gen.Consts leave string_scope open *)
Open Scope Z_scope.

(* ------------------------------------------------------------------------------------------ *)
(* 1. the framebuffer size of the reference controller is fixed at power-on                     *)
(* ------------------------------------------------------------------------------------------ *)

Definition dims_same (k k' : ctl) : Prop := k_fw k' = k_fw k /\ k_fh k' = k_fh k.

Lemma dims_refl k : dims_same k k.
Proof. split; reflexivity. Qed.

Lemma dims_trans a b c : dims_same a b -> dims_same b c -> dims_same a c.
Proof. intros [H1 H2] [H3 H4]. split; congruence. Qed.

(* every record rebuild of Oracle/Controller.v copies k_fw / k_fh: split on every case analysis left
   in the goal, then both sides are convertible *)
Ltac dims_cases :=
  repeat match goal with
         | |- context [match ?x with _ => _ end] => destruct x
         end.
Ltac dims_leaf := cbv zeta; dims_cases; split; reflexivity.

Lemma dims_window_cmd k op args : dims_same k (window_cmd k op args).
Proof. unfold window_cmd. dims_leaf. Qed.

Lemma dims_sleep_cmd k b : dims_same k (sleep_cmd k b).
Proof. unfold sleep_cmd. dims_leaf. Qed.

Lemma dims_command k op args : dims_same k (command k op args).
Proof.
  unfold command.
  destruct ((op =? 0xFE) && (match args with [_] => true | _ => false end)); [split; reflexivity|].
  destruct (k_page k); [split; reflexivity|].
  destruct (op =? 0x01); [split; reflexivity|].
  destruct (op =? 0x10); [apply dims_sleep_cmd|].
  destruct (op =? 0x11); [apply dims_sleep_cmd|].
  destruct (op =? 0x28); [split; reflexivity|].
  destruct (op =? 0x29); [split; reflexivity|].
  destruct (op =? 0x20); [split; reflexivity|].
  destruct (op =? 0x21); [split; reflexivity|].
  destruct (op =? 0x34); [split; reflexivity|].
  destruct (op =? 0x35); [destruct args as [|b [|b' args]]; split; reflexivity|].
  destruct (op =? 0x36); [destruct args as [|b [|b' args]]; split; reflexivity|].
  destruct (op =? 0x3A); [destruct args as [|b [|b' args]]; split; reflexivity|].
  destruct ((op =? 0x2A) || (op =? 0x2B)); [apply dims_window_cmd|].
  destruct (op =? 0x2C); [split; reflexivity|].
  destruct (op =? 0x3C); [split; reflexivity|].
  destruct (op =? 0x33);
    [destruct args as [|a1 [|a2 [|a3 [|a4 [|a5 [|a6 [|a7 args]]]]]]]; split; reflexivity|].
  destruct (op =? 0x37); [destruct args as [|a1 [|a2 [|a3 args]]]; split; reflexivity|].
  destruct ((op =? 0x12) || (op =? 0x13) || (op =? 0x38) || (op =? 0x39) || (op =? 0x00)); split; reflexivity.
Qed.

Lemma dims_write_px k ws : dims_same k (write_px k ws).
Proof.
  unfold write_px. destruct (k_ptr k) as [[[c p] w]|]; [|split; reflexivity].
  destruct (phys (k_fw k) (k_fh k) (k_madctl k) c p) as [x y].
  destruct (if c <? k_ec k then (c + 1, p, false)
            else if p <? k_ep k then (k_sc k, p + 1, false) else (k_sc k, k_sp k, true)) as [[c' p'] w'].
  destruct w; split; reflexivity.
Qed.

Lemma dims_write_pxs px : forall k, dims_same k (fold_left write_px px k).
Proof.
  induction px as [|ws px IH]; intros k; [apply dims_refl|].
  cbn [fold_left]. eapply dims_trans; [apply dims_write_px | apply IH].
Qed.

Lemma dims_write_px_n {A} ws (l : list A) : forall k, dims_same k (fold_left (fun k' _ => write_px k' ws) l k).
Proof.
  induction l as [|x l IH]; intros k; [apply dims_refl|].
  cbn [fold_left]. eapply dims_trans; [apply dims_write_px | apply IH].
Qed.

Lemma dims_write_repeat k ws n : dims_same k (write_repeat k ws n).
Proof.
  unfold write_repeat. destruct (k_ptr k) as [[[c p] w]|].
  - destruct (n =? 0); [apply dims_refl|].
    destruct ((c =? k_sc k) && (p =? k_sp k) && negb w && (n =? window_area k)
              && (k_sc k <=? k_ec k) && (k_sp k <=? k_ep k)).
    + destruct (phys (k_fw k) (k_fh k) (k_madctl k) (k_sc k) (k_sp k)) as [xa ya].
      destruct (phys (k_fw k) (k_fh k) (k_madctl k) (k_ec k) (k_ep k)) as [xb yb]. split; reflexivity.
    + destruct (n <=? 4096); [apply dims_write_px_n | split; reflexivity].
  - destruct (n =? 0); split; reflexivity.
Qed.

Lemma dims_step k e : dims_same k (ctl_step k e).
Proof.
  destruct e as [op args | px | ws n | ns | |]; cbn [ctl_step].
  - apply dims_command.
  - apply dims_write_pxs.
  - apply dims_write_repeat.
  - split; reflexivity.
  - split; reflexivity.
  - apply dims_refl.
Qed.

(* ANY event trace, from ANY controller state *)
Theorem ctl_run_dims : forall (t : list event) (k : ctl),
  k_fw (ctl_run k t) = k_fw k /\ k_fh (ctl_run k t) = k_fh k.
Proof.
  induction t as [|e t IH]; intros k; [split; reflexivity|].
  change (ctl_run k (e :: t)) with (ctl_run (ctl_step k e) t).
  exact (dims_trans k (ctl_step k e) _ (dims_step k e) (IH (ctl_step k e))).
Qed.

Corollary ctl_run_power_on_dims fw fh t :
  k_fw (ctl_run (power_on fw fh) t) = fw /\ k_fh (ctl_run (power_on fw fh) t) = fh.
Proof. exact (ctl_run_dims t (power_on fw fh)). Qed.

(* ------------------------------------------------------------------------------------------ *)
(* 2. small bridges                                                                             *)
(* ------------------------------------------------------------------------------------------ *)

(* InitP's invariant (no flag at all) implies SleepP's (no SleepSpacing flag) *)
Lemma slp_inv_sleep_inv k : slp_inv k -> sleep_inv k.
Proof. intros (Hp & Hf & Hs). split; [exact Hp|]. split; [rewrite Hf; intros H; exact H | exact Hs]. Qed.

(* what Builder::init accepts (C09), in the form the drawing theorems want; u16 is what the Rust types
   of display_size / display_offset (u16, u16) guarantee *)
Lemma init_check_valid_cfg md m c o :
  In m gen_models ->
  c_fw c = m_fw m -> c_fh c = m_fh m ->
  u16 (o_w o) -> u16 (o_h o) -> u16 (o_ox o) -> u16 (o_oy o) ->
  init_check md (m_fw m) (m_fh m) (o_w o) (o_h o) (o_ox o) (o_oy o) = Ok tt ->
  valid_cfg c o.
Proof.
  intros Hm Efw Efh Hw Hh Hox Hoy Hc.
  destruct (model_dims m Hm) as [Hfw Hfh].
  assert (UFW : u16 (m_fw m)) by (unfold u16; lia).
  assert (UFH : u16 (m_fh m)) by (unfold u16; lia).
  apply (proj1 (init_check_iff md _ _ _ _ _ _ UFW UFH Hw Hh Hox Hoy)) in Hc.
  unfold fits in Hc. unfold u16 in Hw, Hh, Hox, Hoy. unfold valid_cfg. rewrite Efw, Efh. lia.
Qed.

(* the driver's own capacities satisfy what the batching proofs need *)
Lemma gen_caps c :
  c_rowcap c = Z.to_nat gen_MAX_ROW_SIZE -> c_blockcap c = Z.to_nat gen_MAX_BLOCK_SIZE ->
  (1 <= c_rowcap c)%nat /\ (c_rowcap c <= c_blockcap c)%nat.
Proof.
  intros Er Eb. destruct capacity_at_least_two as (_ & _ & H2 & Hle). rewrite Er, Eb. split; [lia | exact Hle].
Qed.

(* a cell no entry of the write list covers keeps its previous content *)
Lemma last_write_uncovered ws x y before :
  (forall w, In w ws -> covers w x y = false) -> last_write ws x y before = before.
Proof.
  intros H. unfold last_write.
  destruct (find (fun w => covers w x y) (rev ws)) as [w|] eqn:E; [|reflexivity].
  apply find_some in E. destruct E as [Hin Hc]. apply in_rev in Hin.
  rewrite (H w Hin) in Hc. discriminate Hc.
Qed.

Lemma mem_no_writes k x y : writes k = [] -> mem k x y = None.
Proof.
  intros H. unfold writes in H. apply (f_equal (@rev wr)) in H. rewrite rev_involutive in H.
  unfold mem. rewrite H. reflexivity.
Qed.

(* ------------------------------------------------------------------------------------------ *)
(* 3. Builder::init establishes the drawing invariants and the sleep invariant                  *)
(* ------------------------------------------------------------------------------------------ *)

(* the whole Builder::init call of built-in model m on interface kind k: trace and result *)
Definition init_run (md : mode) (m : model_def) (k : kind) (rst : bool) (o : opts) : list event * outcome dstate :=
  builder_init md (m_fw m) (m_fh m) rst o (run_init k (m_color m) o (m_prog m)).
(* the reference controller after it, from power-on *)
Definition ctl_after_init (md : mode) (m : model_def) (k : kind) (rst : bool) (o : opts) : ctl :=
  ctl_run (power_on (m_fw m) (m_fh m)) (fst (init_run md m k rst o)).

Lemma init_run_eq md m k rst o :
  In m gen_models -> supported (m_prog m) k = true ->
  init_check md (m_fw m) (m_fh m) (o_w o) (o_h o) (o_ox o) (o_oy o) = Ok tt ->
  init_run md m k rst o =
  (reset_events rst ++ fst (run_init k (m_color m) o (m_prog m)), Ok (fresh_state o)).
Proof. intros Hm Hs Hc. unfold init_run. exact (builder_init_supported md m k o rst Hm Hs Hc). Qed.

Theorem init_establishes_draw_inv md m k o rst c :
  In m gen_models -> supported (m_prog m) k = true ->
  u16 (o_w o) -> u16 (o_h o) -> u16 (o_ox o) -> u16 (o_oy o) ->
  init_check md (m_fw m) (m_fh m) (o_w o) (o_h o) (o_ox o) (o_oy o) = Ok tt ->
  c_md c = md -> c_fw c = m_fw m -> c_fh c = m_fh m ->
  c_rowcap c = Z.to_nat gen_MAX_ROW_SIZE -> c_blockcap c = Z.to_nat gen_MAX_BLOCK_SIZE ->
  let K0 := ctl_after_init md m k rst o in
  snd (init_run md m k rst o) = Ok (fresh_state o) /\
  valid_cfg c o /\ madctl_ok (fresh_state o) /\ ctl_matches c o K0 /\
  writes K0 = [] /\ k_flags K0 = [] /\
  (1 <= c_rowcap c)%nat /\ (c_rowcap c <= c_blockcap c)%nat /\
  sleep_inv K0 /\ k_asleep K0 = d_sleeping (fresh_state o).
Proof.
  intros Hm Hs Hw Hh Hox Hoy Hc Emd Efw Efh Er Eb K0.
  pose proof (init_run_eq md m k rst o Hm Hs Hc) as Erun.
  assert (EK : K0 = ctl_run (power_on (m_fw m) (m_fh m))
                            (reset_events rst ++ fst (run_init k (m_color m) o (m_prog m))))
    by (unfold K0, ctl_after_init; rewrite Erun; reflexivity).
  destruct (init_supported_spec m k o rst Hm Hs)
    as (_ & Aslp & _ & Amad & _ & _ & _ & Awrev & _ & _ & Aflags & Apage & _ & _).
  destruct (init_establishes_slp_inv m k o rst Hm Hs) as [Hinv Hasleep].
  rewrite <- EK in Amad, Awrev, Aflags, Apage, Hinv, Hasleep.
  destruct (ctl_run_power_on_dims (m_fw m) (m_fh m) (fst (init_run md m k rst o))) as [Dfw Dfh].
  fold (ctl_after_init md m k rst o) in Dfw, Dfh. fold K0 in Dfw, Dfh.
  destruct (madctl_new_bits (o_bgr o) (o_orient o) (o_btt o) (o_rtl o)) as (Bmy & Bmx & Bmv).
  rewrite <- madctl_of_opts_is_new in Bmy, Bmx, Bmv.
  destruct (gen_caps c Er Eb) as [Hcap Hcb].
  split; [rewrite Erun; reflexivity|].
  split; [exact (init_check_valid_cfg md m c o Hm Efw Efh Hw Hh Hox Hoy Hc)|].
  split; [reflexivity|].
  split.
  { unfold ctl_matches. rewrite Amad, Dfw, Dfh, Efw, Efh.
    split; [exact Apage|]. split; [reflexivity|]. split; [reflexivity|].
    split; [exact Bmy|]. split; [exact Bmx | exact Bmv]. }
  split; [unfold writes; rewrite Awrev; reflexivity|].
  split; [exact Aflags|].
  split; [exact Hcap|]. split; [exact Hcb|].
  split; [exact (slp_inv_sleep_inv K0 Hinv) | exact Hasleep].
Qed.

(* ------------------------------------------------------------------------------------------ *)
(* 4. MAIN: Builder::init, then any well-formed drawing program (C01 from power-on)             *)
(* ------------------------------------------------------------------------------------------ *)

Theorem init_then_program md m k o rst c ops :
  In m gen_models -> supported (m_prog m) k = true ->
  u16 (o_w o) -> u16 (o_h o) -> u16 (o_ox o) -> u16 (o_oy o) ->
  init_check md (m_fw m) (m_fh m) (o_w o) (o_h o) (o_ox o) (o_oy o) = Ok tt ->
  c_md c = md -> c_fw c = m_fw m -> c_fh c = m_fh m ->
  c_rowcap c = Z.to_nat gen_MAX_ROW_SIZE -> c_blockcap c = Z.to_nat gen_MAX_BLOCK_SIZE ->
  prog_wf o ops ->
  let K0 := ctl_after_init md m k rst o in
  let st' := snd (exec c (fresh_state o) ops) in
  let K := ctl_run K0 (exec_trace c (fresh_state o) ops) in
  let ws := spec_prog_writes (c_enc c) (panel_of o) (o_orient o) ops in
  snd (init_run md m k rst o) = Ok (fresh_state o) /\
  exec_all_ok c (fresh_state o) ops = true /\
  writes K = ws /\
  k_flags K = [] /\
  (forall x y, mem K x y = last_write ws x y None) /\
  (forall x y, (forall w, In w ws -> covers w x y = false) -> mem K x y = None) /\
  (forall x y, ~ (o_ox o <= x < o_ox o + o_w o /\ o_oy o <= y < o_oy o + o_h o) -> mem K x y = None) /\
  st' = fold_left op_post ops (fresh_state o) /\
  valid_cfg c (d_opts st') /\ madctl_ok st' /\ ctl_matches c (d_opts st') K.
Proof.
  intros Hm Hs Hw Hh Hox Hoy Hc Emd Efw Efh Er Eb Hwf K0 st' K ws.
  destruct (init_establishes_draw_inv md m k o rst c Hm Hs Hw Hh Hox Hoy Hc Emd Efw Efh Er Eb)
    as (Hres & Hv & Hmad & Hmatch & Hwr & Hfl & Hcap & Hcb & _ & _).
  fold K0 in Hmatch, Hwr, Hfl.
  pose proof (exec_draw_program c ops (fresh_state o) K0 Hv Hmad Hmatch Hcap Hcb Hwf) as H.
  cbv zeta in H. cbn [fresh_state d_opts] in H. fold st' K ws in H.
  destruct H as (Hok & HW & HF & Hst & Hm' & Hv' & Hmad' & Hin & _).
  rewrite Hwr in HW. rewrite Hfl in HF. cbn [app] in HW.
  assert (Hmem : forall x y, mem K x y = last_write ws x y None).
  { intros x y.
    assert (HW' : writes K = writes K0 ++ ws) by (rewrite Hwr; exact HW).
    rewrite (mem_after_writes K0 K ws x y HW'), (mem_no_writes K0 x y Hwr). reflexivity. }
  split; [exact Hres|]. split; [exact Hok|]. split; [exact HW|]. split; [exact HF|].
  split; [exact Hmem|].
  split; [intros x y Hun; rewrite Hmem; exact (last_write_uncovered ws x y None Hun)|].
  split; [intros x y Hout; rewrite Hmem; exact (last_write_outside o ws x y None Hin Hout)|].
  split; [exact Hst|]. split; [exact Hv'|]. split; [exact Hmad' | exact Hm'].
Qed.

(* ------------------------------------------------------------------------------------------ *)
(* 5. Builder::init, then ANY history of calls: sleep bookkeeping (C13 from power-on)           *)
(* ------------------------------------------------------------------------------------------ *)

(* no hypothesis on the options beyond "init accepted them", none on the operations or their
   arguments, none on the context *)
Theorem init_then_history_sleep md m k o rst c ops :
  In m gen_models -> supported (m_prog m) k = true ->
  init_check md (m_fw m) (m_fh m) (o_w o) (o_h o) (o_ox o) (o_oy o) = Ok tt ->
  let K0 := ctl_after_init md m k rst o in
  let st' := snd (exec c (fresh_state o) ops) in
  let K := ctl_run K0 (exec_trace c (fresh_state o) ops) in
  snd (init_run md m k rst o) = Ok (fresh_state o) /\
  d_sleeping st' = k_asleep K /\
  d_sleeping st' = last_sleep_op ops false /\
  ~ In SleepSpacing (k_flags K) /\
  sleep_inv K.
Proof.
  intros Hm Hs Hc K0 st' K.
  pose proof (init_run_eq md m k rst o Hm Hs Hc) as Erun.
  assert (EK : K0 = ctl_run (power_on (m_fw m) (m_fh m))
                            (reset_events rst ++ fst (run_init k (m_color m) o (m_prog m))))
    by (unfold K0, ctl_after_init; rewrite Erun; reflexivity).
  destruct (init_establishes_slp_inv m k o rst Hm Hs) as [Hinv Hasleep].
  rewrite <- EK in Hinv, Hasleep.
  pose proof (exec_sleep_tracks c ops (fresh_state o) K0 (slp_inv_sleep_inv K0 Hinv) Hasleep) as H.
  cbv zeta in H. fold st' K in H. destruct H as (H1 & H2 & H3).
  split; [rewrite Erun; reflexivity|]. split; [exact H1|]. split; [exact H3|].
  split; [exact (proj1 (proj2 H2)) | exact H2].
Qed.

(* ------------------------------------------------------------------------------------------ *)
(* 6. Builder::init, then any well-formed drawing program carried over the real transports:     *)
(*    the picture decoded from the pins is the specified picture                                *)
(* ------------------------------------------------------------------------------------------ *)

(* SPI: encoder gives n bytes per pixel; any staging buffer that holds at least one pixel (any stale
   content); any initial level of the DC pin *)
Theorem init_then_program_spi md m k o rst c ops (n : Z) (buf : list Z) (dc0 : bool) :
  In m gen_models -> supported (m_prog m) k = true ->
  u16 (o_w o) -> u16 (o_h o) -> u16 (o_ox o) -> u16 (o_oy o) ->
  init_check md (m_fw m) (m_fh m) (o_w o) (o_h o) (o_ox o) (o_oy o) = Ok tt ->
  c_md c = md -> c_fw c = m_fw m -> c_fh c = m_fh m ->
  c_rowcap c = Z.to_nat gen_MAX_ROW_SIZE -> c_blockcap c = Z.to_nat gen_MAX_BLOCK_SIZE ->
  prog_wf o ops ->
  (forall col, Z.of_nat (List.length (c_enc c col)) = n) ->
  1 <= n -> n <= Z.of_nat (List.length buf) -> Z.of_nat (List.length buf) / n < 2 ^ 32 ->
  let K0 := ctl_after_init md m k rst o in
  let t := exec_trace c (fresh_state o) ops in
  let ws := spec_prog_writes (c_enc c) (panel_of o) (o_orient o) ops in
  let '(l2, _, r) := spi_run true n buf t in
  r = Ok tt /\
  let K := ctl_run K0 (decode_items (Z.to_nat n) None [] (wire_spi dc0 l2)) in
  (forall x y, mem K x y = mem (ctl_run K0 t) x y /\ mem K x y = last_write ws x y None) /\
  k_flags K = [].
Proof.
  intros Hm Hs Hw Hh Hox Hoy Hc Emd Efw Efh Er Eb Hwf Henc Hn Hlen Hcap32 K0 t ws.
  destruct (init_establishes_draw_inv md m k o rst c Hm Hs Hw Hh Hox Hoy Hc Emd Efw Efh Er Eb)
    as (_ & Hv & Hmad & Hmatch & Hwr & Hfl & Hcap & Hcb & _ & _).
  fold K0 in Hmatch, Hwr, Hfl.
  pose proof (pin_level_picture_spi c ops (fresh_state o) K0 n buf dc0 Hv Hmad Hmatch Hcap Hcb Hwf
                                    Henc Hn Hlen Hcap32) as H.
  cbv zeta in H. cbn [fresh_state d_opts] in H. fold t ws in H.
  destruct (spi_run true n buf t) as [[l2 b2] r]. destruct H as (Hr & Hmem & Hflags).
  split; [exact Hr|]. cbv zeta. split.
  - intros x y. destruct (Hmem x y) as [M1 M2]. split; [exact M1|].
    rewrite M2, (mem_no_writes K0 x y Hwr). reflexivity.
  - rewrite Hflags. exact Hfl.
Qed.

(* 8-bit parallel bus: n >= 1 bytes per pixel, each a byte; any cache state consistent with the pins *)
Theorem init_then_program_par_8 md m k o rst c ops (pmd : mode) (n : nat) (last : option Z) (lst : lines) :
  In m gen_models -> supported (m_prog m) k = true ->
  u16 (o_w o) -> u16 (o_h o) -> u16 (o_ox o) -> u16 (o_oy o) ->
  init_check md (m_fw m) (m_fh m) (o_w o) (o_h o) (o_ox o) (o_oy o) = Ok tt ->
  c_md c = md -> c_fw c = m_fw m -> c_fh c = m_fh m ->
  c_rowcap c = Z.to_nat gen_MAX_ROW_SIZE -> c_blockcap c = Z.to_nat gen_MAX_BLOCK_SIZE ->
  prog_wf o ops ->
  (1 <= n)%nat ->
  (forall col, List.length (c_enc c col) = n) ->
  (forall col, Forall (fun x => 0 <= x < 2 ^ Z.of_nat 8) (c_enc c col)) ->
  bus_inv 8 (last, l_pins lst) ->
  let K0 := ctl_after_init md m k rst o in
  let t := exec_trace c (fresh_state o) ops in
  let ws := spec_prog_writes (c_enc c) (panel_of o) (o_orient o) ops in
  let '(l2, _, r) := par_run true pmd 8 last t in
  r = Ok tt /\
  let K := ctl_run K0 (decode_items n None [] (wire_par lst l2)) in
  (forall x y, mem K x y = mem (ctl_run K0 t) x y /\ mem K x y = last_write ws x y None) /\
  k_flags K = [].
Proof.
  intros Hm Hs Hw Hh Hox Hoy Hc Emd Efw Efh Er Eb Hwf Hn Henc Hrange Hbus K0 t ws.
  destruct (init_establishes_draw_inv md m k o rst c Hm Hs Hw Hh Hox Hoy Hc Emd Efw Efh Er Eb)
    as (_ & Hv & Hmad & Hmatch & Hwr & Hfl & Hcap & Hcb & _ & _).
  fold K0 in Hmatch, Hwr, Hfl.
  pose proof (pin_level_picture_par_8 c ops (fresh_state o) K0 pmd n last lst Hv Hmad Hmatch Hcap Hcb Hwf
                                      Hn Henc Hrange Hbus) as H.
  cbv zeta in H. cbn [fresh_state d_opts] in H. fold t ws in H.
  destruct (par_run true pmd 8 last t) as [[l2 b2] r]. destruct H as (Hr & Hmem & Hflags).
  split; [exact Hr|]. cbv zeta. split.
  - intros x y. destruct (Hmem x y) as [M1 M2]. split; [exact M1|].
    rewrite M2, (mem_no_writes K0 x y Hwr). reflexivity.
  - rewrite Hflags. exact Hfl.
Qed.

(* 16-bit parallel bus: one 16-bit bus word per pixel *)
Theorem init_then_program_par_16 md m k o rst c ops (pmd : mode) (last : option Z) (lst : lines) :
  In m gen_models -> supported (m_prog m) k = true ->
  u16 (o_w o) -> u16 (o_h o) -> u16 (o_ox o) -> u16 (o_oy o) ->
  init_check md (m_fw m) (m_fh m) (o_w o) (o_h o) (o_ox o) (o_oy o) = Ok tt ->
  c_md c = md -> c_fw c = m_fw m -> c_fh c = m_fh m ->
  c_rowcap c = Z.to_nat gen_MAX_ROW_SIZE -> c_blockcap c = Z.to_nat gen_MAX_BLOCK_SIZE ->
  prog_wf o ops ->
  (forall col, List.length (c_enc c col) = 1%nat) ->
  (forall col, Forall (fun x => 0 <= x < 2 ^ Z.of_nat 16) (c_enc c col)) ->
  bus_inv 16 (last, l_pins lst) ->
  let K0 := ctl_after_init md m k rst o in
  let t := exec_trace c (fresh_state o) ops in
  let ws := spec_prog_writes (c_enc c) (panel_of o) (o_orient o) ops in
  let '(l2, _, r) := par_run true pmd 16 last t in
  r = Ok tt /\
  let K := ctl_run K0 (decode_items 1 None [] (wire_par lst l2)) in
  (forall x y, mem K x y = mem (ctl_run K0 t) x y /\ mem K x y = last_write ws x y None) /\
  k_flags K = [].
Proof.
  intros Hm Hs Hw Hh Hox Hoy Hc Emd Efw Efh Er Eb Hwf Henc Hrange Hbus K0 t ws.
  destruct (init_establishes_draw_inv md m k o rst c Hm Hs Hw Hh Hox Hoy Hc Emd Efw Efh Er Eb)
    as (_ & Hv & Hmad & Hmatch & Hwr & Hfl & Hcap & Hcb & _ & _).
  fold K0 in Hmatch, Hwr, Hfl.
  pose proof (pin_level_picture_par_16 c ops (fresh_state o) K0 pmd last lst Hv Hmad Hmatch Hcap Hcb Hwf
                                       Henc Hrange Hbus) as H.
  cbv zeta in H. cbn [fresh_state d_opts] in H. fold t ws in H.
  destruct (par_run true pmd 16 last t) as [[l2 b2] r]. destruct H as (Hr & Hmem & Hflags).
  split; [exact Hr|]. cbv zeta. split.
  - intros x y. destruct (Hmem x y) as [M1 M2]. split; [exact M1|].
    rewrite M2, (mem_no_writes K0 x y Hwr). reflexivity.
  - rewrite Hflags. exact Hfl.
Qed.

(* ------------------------------------------------------------------------------------------ *)
(* 7. the WHOLE session — Builder::init's own traffic AND the program — over the transports     *)
(* ------------------------------------------------------------------------------------------ *)

(* The theorems of section 6 feed the controller the init traffic at the `Interface` boundary and
   only the program's traffic at pin level. Here the concatenated trace goes through the transport
   and the decoder, from power-on. The transports' head condition (the DC line is high, or the first
   event is a command) becomes: DC high, or no reset pin (then the first event is SoftReset). *)

Lemma framed_app n a b : framed n a -> framed n b -> framed n (a ++ b).
Proof.
  intros Ha Hb. induction Ha as [|op args t Hop Ht IH|px t Hpx Ht IH|p cnt t Hp Hc Ht IH|ns t Ht IH|bb t Ht IH];
    cbn [app].
  - exact Hb.
  - apply fr_cmd; assumption.
  - apply fr_px; assumption.
  - apply fr_rep; assumption.
  - apply fr_delay; assumption.
  - apply fr_rst; assumption.
Qed.

(* traffic without pixel data (InitSpec.is_pixdata: no RAMWR / RAMWRC, no pixel event) *)
Lemma no_pixdata_framed n : forall t, existsb is_pixdata t = false -> framed n t.
Proof.
  induction t as [|e t IH]; intros H; [apply fr_nil|].
  cbn [existsb] in H. apply orb_false_iff in H. destruct H as [He Ht]. specialize (IH Ht).
  destruct e as [op args | px | ws cnt | ns | |]; cbn [is_pixdata] in He; try discriminate He.
  - apply orb_false_iff in He. destruct He as [H2C _]. apply Z.eqb_neq in H2C.
    apply fr_cmd; [exact H2C | exact IH].
  - apply fr_delay. exact IH.
  - exact (fr_rst n false t IH).
  - exact (fr_rst n true t IH).
Qed.

Lemma no_pixdata_pixels_wf n : forall t, existsb is_pixdata t = false -> Forall (event_pixels_wf n) t.
Proof.
  induction t as [|e t IH]; intros H; [constructor|].
  cbn [existsb] in H. apply orb_false_iff in H. destruct H as [He Ht].
  constructor; [|exact (IH Ht)].
  destruct e as [op args | px | ws cnt | ns | |]; cbn [is_pixdata] in He; try discriminate He; exact I.
Qed.

(* every command Builder::init sends has a one-byte opcode and one-byte parameters: decided on the
   regenerated model programs, every model x kind x flag options (the kernel computes) *)
Definition cmd_bytes_ok (e : event) : bool :=
  match e with
  | ECmd op args => (0 <=? op) && (op <? 256) && forallb (fun a => (0 <=? a) && (a <? 256)) args
  | EPixels _ | ERepeat _ _ => false
  | _ => true
  end.
Definition init_bytes_sweep (ms : list model_def) : bool :=
  forallb (fun m => forallb (fun k => forallb (fun o =>
    forallb cmd_bytes_ok (fst (run_init k (m_color m) o (m_prog m)))) all_flag_opts) all_kinds) ms.

Lemma init_bytes_gen : init_bytes_sweep gen_models = true.
Proof. vm_compute. reflexivity. Qed.

Lemma cmd_bytes_ok_range (w : nat) e : cmd_bytes_ok e = true -> words_in_range w e.
Proof.
  destruct e as [op args | px | ws cnt | ns | |]; cbn [cmd_bytes_ok words_in_range]; intros H;
    try discriminate H; try exact I.
  rewrite !andb_true_iff in H. destruct H as [[H0 H1] Ha].
  apply Z.leb_le in H0. apply Z.ltb_lt in H1. split; [lia|].
  apply Forall_forall. intros a Hin. rewrite forallb_forall in Ha. specialize (Ha a Hin).
  rewrite andb_true_iff in Ha. destruct Ha as [A0 A1]. apply Z.leb_le in A0. apply Z.ltb_lt in A1. lia.
Qed.

Lemma init_trace_in_range (w : nat) m k rst o :
  In m gen_models ->
  Forall (words_in_range w) (reset_events rst ++ fst (run_init k (m_color m) o (m_prog m))).
Proof.
  intros Hm. apply Forall_app. split.
  - destruct rst; cbn [reset_events].
    + repeat constructor.
    + constructor; [|constructor]. cbn [words_in_range]. split; [lia | constructor].
  - rewrite (run_init_norm k (m_color m) o (m_prog m)).
    pose proof init_bytes_gen as H. unfold init_bytes_sweep in H.
    rewrite forallb_forall in H. specialize (H m Hm).
    rewrite forallb_forall in H. specialize (H k (all_kinds_complete k)).
    rewrite forallb_forall in H. specialize (H (norm_opts o) (norm_opts_in o)).
    rewrite forallb_forall in H.
    apply Forall_forall. intros e He. exact (cmd_bytes_ok_range w e (H e He)).
Qed.

(* SPI *)
Theorem init_and_program_spi md m k o rst c ops (n : Z) (buf : list Z) (dc0 : bool) :
  In m gen_models -> supported (m_prog m) k = true ->
  u16 (o_w o) -> u16 (o_h o) -> u16 (o_ox o) -> u16 (o_oy o) ->
  init_check md (m_fw m) (m_fh m) (o_w o) (o_h o) (o_ox o) (o_oy o) = Ok tt ->
  c_md c = md -> c_fw c = m_fw m -> c_fh c = m_fh m ->
  c_rowcap c = Z.to_nat gen_MAX_ROW_SIZE -> c_blockcap c = Z.to_nat gen_MAX_BLOCK_SIZE ->
  prog_wf o ops ->
  (forall col, Z.of_nat (List.length (c_enc c col)) = n) ->
  1 <= n -> n <= Z.of_nat (List.length buf) -> Z.of_nat (List.length buf) / n < 2 ^ 32 ->
  (dc0 = true \/ rst = false) ->
  let t := fst (init_run md m k rst o) ++ exec_trace c (fresh_state o) ops in
  let ws := spec_prog_writes (c_enc c) (panel_of o) (o_orient o) ops in
  let '(l2, _, r) := spi_run true n buf t in
  r = Ok tt /\
  let K := ctl_run (power_on (m_fw m) (m_fh m)) (decode_items (Z.to_nat n) None [] (wire_spi dc0 l2)) in
  (forall x y, mem K x y = last_write ws x y None) /\
  k_flags K = [].
Proof.
  intros Hm Hs Hw Hh Hox Hoy Hc Emd Efw Efh Er Eb Hwf Henc Hn Hlen Hcap32 Hdc t ws.
  destruct (init_establishes_draw_inv md m k o rst c Hm Hs Hw Hh Hox Hoy Hc Emd Efw Efh Er Eb)
    as (_ & Hv & Hmad & _ & _ & _ & Hcap & Hcb & _ & _).
  pose proof (init_then_program md m k o rst c ops Hm Hs Hw Hh Hox Hoy Hc Emd Efw Efh Er Eb Hwf) as HP.
  cbv zeta in HP. fold ws in HP. destruct HP as (_ & _ & _ & HF & HM & _).
  unfold ctl_after_init in HF, HM. rewrite <- ctl_run_app in HF, HM. fold t in HF, HM.
  pose proof (init_run_eq md m k rst o Hm Hs Hc) as Erun.
  destruct (init_supported_spec m k o rst Hm Hs) as (_ & _ & _ & _ & _ & _ & _ & _ & _ & Hnp & _).
  cbv zeta in Hnp.
  pose proof (exec_traffic_wf c ops (fresh_state o) Hv Hmad Hcap Hcb Hwf) as HT. cbv zeta in HT.
  destruct HT as (_ & Tfr & Tpx & _).
  assert (Henc' : forall col, List.length (c_enc c col) = Z.to_nat n)
    by (intros col; rewrite <- (Henc col); lia).
  assert (Hpx : Forall (event_pixels_wf n) t).
  { unfold t. rewrite Erun. cbn [fst]. apply Forall_app. split;
      [exact (no_pixdata_pixels_wf n _ Hnp) | exact (Tpx n Henc)]. }
  assert (Hfr : framed (Z.to_nat n) t).
  { unfold t. rewrite Erun. cbn [fst]. apply framed_app;
      [exact (no_pixdata_framed (Z.to_nat n) _ Hnp) | exact (Tfr (Z.to_nat n) Henc')]. }
  assert (Hhead : dc0 = true \/ exists op args t', t = ECmd op args :: t').
  { destruct Hdc as [Hd|Hr]; [left; exact Hd|]. right. unfold t. rewrite Erun, Hr. cbn [fst reset_events app].
    eexists. eexists. eexists. reflexivity. }
  assert (Hflags : k_flags (ctl_run (power_on (m_fw m) (m_fh m)) t) = k_flags (power_on (m_fw m) (m_fh m)))
    by (rewrite HF; reflexivity).
  pose proof (pin_level_mem_spi t (power_on (m_fw m) (m_fh m)) n buf dc0 Hflags Hn Hlen Hcap32 Hpx Hfr Hhead) as H.
  destruct (spi_run true n buf t) as [[l2 b2] r]. destruct H as (Hr & Hmem & Hfl).
  split; [exact Hr|]. cbv zeta. cbv zeta in Hmem, Hfl. split.
  - intros x y. rewrite Hmem. exact (HM x y).
  - rewrite Hfl. reflexivity.
Qed.

(* parallel bus of any width w >= 8 (8 and 16 in the crate), n >= 1 bus words per pixel *)
Theorem init_and_program_par md m k o rst c ops (w : nat) (pmd : mode) (n : nat) (last : option Z) (lst : lines) :
  In m gen_models -> supported (m_prog m) k = true ->
  u16 (o_w o) -> u16 (o_h o) -> u16 (o_ox o) -> u16 (o_oy o) ->
  init_check md (m_fw m) (m_fh m) (o_w o) (o_h o) (o_ox o) (o_oy o) = Ok tt ->
  c_md c = md -> c_fw c = m_fw m -> c_fh c = m_fh m ->
  c_rowcap c = Z.to_nat gen_MAX_ROW_SIZE -> c_blockcap c = Z.to_nat gen_MAX_BLOCK_SIZE ->
  prog_wf o ops ->
  (8 <= w)%nat -> (1 <= n)%nat ->
  (forall col, List.length (c_enc c col) = n) ->
  (forall col, Forall (fun x => 0 <= x < 2 ^ Z.of_nat w) (c_enc c col)) ->
  bus_inv w (last, l_pins lst) ->
  (l_dc lst = true \/ rst = false) ->
  let t := fst (init_run md m k rst o) ++ exec_trace c (fresh_state o) ops in
  let ws := spec_prog_writes (c_enc c) (panel_of o) (o_orient o) ops in
  let '(l2, _, r) := par_run true pmd w last t in
  r = Ok tt /\
  let K := ctl_run (power_on (m_fw m) (m_fh m)) (decode_items n None [] (wire_par lst l2)) in
  (forall x y, mem K x y = last_write ws x y None) /\
  k_flags K = [].
Proof.
  intros Hm Hs Hw Hh Hox Hoy Hc Emd Efw Efh Er Eb Hwf Hw8 Hn Henc Hrange Hbus Hdc t ws.
  destruct (init_establishes_draw_inv md m k o rst c Hm Hs Hw Hh Hox Hoy Hc Emd Efw Efh Er Eb)
    as (_ & Hv & Hmad & _ & _ & _ & Hcap & Hcb & _ & _).
  pose proof (init_then_program md m k o rst c ops Hm Hs Hw Hh Hox Hoy Hc Emd Efw Efh Er Eb Hwf) as HP.
  cbv zeta in HP. fold ws in HP. destruct HP as (_ & _ & _ & HF & HM & _).
  unfold ctl_after_init in HF, HM. rewrite <- ctl_run_app in HF, HM. fold t in HF, HM.
  pose proof (init_run_eq md m k rst o Hm Hs Hc) as Erun.
  destruct (init_supported_spec m k o rst Hm Hs) as (_ & _ & _ & _ & _ & _ & _ & _ & _ & Hnp & _).
  cbv zeta in Hnp.
  pose proof (exec_traffic_wf c ops (fresh_state o) Hv Hmad Hcap Hcb Hwf) as HT. cbv zeta in HT.
  destruct HT as (_ & Tfr & _ & Trg).
  assert (Hrg : Forall (words_in_range w) t).
  { unfold t. rewrite Erun. cbn [fst]. apply Forall_app. split;
      [exact (init_trace_in_range w m k rst o Hm) | exact (Trg w Hrange)]. }
  assert (Hfr : framed n t).
  { unfold t. rewrite Erun. cbn [fst]. apply framed_app;
      [exact (no_pixdata_framed n _ Hnp) | exact (Tfr n Henc)]. }
  assert (Hhead : l_dc lst = true \/ exists op args t', t = ECmd op args :: t').
  { destruct Hdc as [Hd|Hr]; [left; exact Hd|]. right. unfold t. rewrite Erun, Hr. cbn [fst reset_events app].
    eexists. eexists. eexists. reflexivity. }
  assert (Hflags : k_flags (ctl_run (power_on (m_fw m) (m_fh m)) t) = k_flags (power_on (m_fw m) (m_fh m)))
    by (rewrite HF; reflexivity).
  pose proof (pin_level_mem_par t (power_on (m_fw m) (m_fh m)) w pmd n last lst Hflags Hw8 Hn Hrg Hbus Hhead Hfr) as H.
  destruct (par_run true pmd w last t) as [[l2 b2] r]. destruct H as (Hr & Hmem & Hfl).
  split; [exact Hr|]. cbv zeta. cbv zeta in Hmem, Hfl. split.
  - intros x y. rewrite Hmem. exact (HM x y).
  - rewrite Hfl. reflexivity.
Qed.

Print Assumptions ctl_run_dims.
Print Assumptions init_establishes_draw_inv.
Print Assumptions init_then_program.
Print Assumptions init_then_history_sleep.
Print Assumptions init_then_program_spi.
Print Assumptions init_then_program_par_8.
Print Assumptions init_then_program_par_16.
Print Assumptions init_and_program_spi.
Print Assumptions init_and_program_par.
