(* Finite.v — lifting kernel computation over a finite range to a universally quantified statement *)
Require Import Model.Base.

Definition zrange (n : nat) : list Z := map Z.of_nat (seq 0 n).

Lemma in_zrange n z : 0 <= z < Z.of_nat n -> In z (zrange n).
Proof.
  intros H. unfold zrange. apply in_map_iff. exists (Z.to_nat z). split; [lia|].
  apply in_seq. lia.
Qed.

Lemma forall_zrange (f : Z -> bool) n :
  forallb f (zrange n) = true -> forall z, 0 <= z < Z.of_nat n -> f z = true.
Proof. intros H z Hz. rewrite forallb_forall in H. apply H, in_zrange, Hz. Qed.

Definition bytes := zrange 256.
Lemma forall_bytes (f : Z -> bool) :
  forallb f bytes = true -> forall b, 0 <= b < 256 -> f b = true.
Proof. intros H b Hb. apply (forall_zrange f 256 H). lia. Qed.

Definition bools := [false; true].
Lemma in_bools b : In b bools. Proof. destruct b; cbn; auto. Qed.
