(* SpecFastP.v — the evaluation-friendly oracle variants in Oracle/DrawSpec.v
   (spec_fill_contig_fast, spec_op_writes_fast) are equal to the reference ones.
   Rows whose first stream index lies at or behind the end of the colour stream write nothing, so
   truncating the row walk to len/rw + 2 rows does not change the result. *)
Require Import Model.Base Model.Orient Model.Events Model.Rect Model.Batch Model.Display.
Require Import Oracle.Spec Oracle.Controller Oracle.DrawSpec.
Open Scope Z_scope.

Section WithEnc.
Variable enc : Z -> list Z.
Variable p : panel.

Lemma zip_row_nil (o : orient) (x y : Z) (n : nat) : zip_row enc p o x y n [] = ([], []).
Proof. destruct n as [|n']; reflexivity. Qed.

Lemma skipnZ_beyond {A : Type} (k : Z) (l : list A) :
  Z.of_nat (length l) <= k -> skipnZ k l = [].
Proof.
  intros Hle. unfold skipnZ.
  destruct (Z.of_nat (length l) <=? k) eqn:E; [reflexivity|].
  apply Z.leb_gt in E. lia.
Qed.

(* one row that starts at or behind the end of the stream writes nothing *)
Lemma contig_row_beyond (o : orient) (vx0 y : Z) (w : nat) (k : Z) (cs : list Z) :
  Z.of_nat (length cs) <= k ->
  fst (zip_row enc p o vx0 y w (firstn w (skipnZ k cs))) = [].
Proof.
  intros Hle. rewrite (skipnZ_beyond k cs Hle). rewrite firstn_nil. rewrite zip_row_nil. reflexivity.
Qed.

(* 1. rows at or behind the end of the stream contribute nothing *)
Lemma contig_rows_beyond (o : orient) (r : rect) (vx0 vx1 : Z) (n : nat) :
  forall (y : Z) (cs : list Z),
    0 <= rw r -> rx r <= vx0 ->
    Z.of_nat (length cs) <= (y - ry r) * rw r + (vx0 - rx r) ->
    contig_rows enc p o r vx0 vx1 y n cs = [].
Proof.
  induction n as [|n' IH]; intros y cs Hrw Hvx Hlen.
  - reflexivity.
  - cbn [contig_rows].
    rewrite (contig_row_beyond o vx0 y (Z.to_nat (vx1 - vx0)) _ cs Hlen).
    cbn [app]. apply IH; [exact Hrw | exact Hvx |].
    replace ((y + 1 - ry r) * rw r) with ((y - ry r) * rw r + rw r) by ring. lia.
Qed.

(* 2. splitting the row walk *)
Lemma contig_rows_app (o : orient) (r : rect) (vx0 vx1 : Z) (a b : nat) :
  forall (y : Z) (cs : list Z),
    contig_rows enc p o r vx0 vx1 y (a + b) cs =
    contig_rows enc p o r vx0 vx1 y a cs ++ contig_rows enc p o r vx0 vx1 (y + Z.of_nat a) b cs.
Proof.
  induction a as [|a' IH]; intros y cs.
  - cbn [Nat.add contig_rows app]. replace (y + Z.of_nat 0) with y by lia. reflexivity.
  - cbn [Nat.add contig_rows]. rewrite IH. rewrite <- app_assoc.
    replace (y + 1 + Z.of_nat a') with (y + Z.of_nat (S a')) by lia. reflexivity.
Qed.

(* truncating the walk to any row count whose first dropped row is behind the stream is harmless *)
Lemma contig_rows_truncate (o : orient) (r : rect) (vx0 vx1 y : Z) (m total : nat) (cs : list Z) :
  0 <= rw r -> rx r <= vx0 -> (m <= total)%nat ->
  Z.of_nat (length cs) <= (y + Z.of_nat m - ry r) * rw r + (vx0 - rx r) ->
  contig_rows enc p o r vx0 vx1 y m cs = contig_rows enc p o r vx0 vx1 y total cs.
Proof.
  intros Hrw Hvx Hm Hlen.
  replace total with (m + (total - m))%nat by lia.
  rewrite contig_rows_app.
  rewrite (contig_rows_beyond o r vx0 vx1 (total - m) (y + Z.of_nat m) cs Hrw Hvx Hlen).
  rewrite app_nil_r. reflexivity.
Qed.

(* 3. the fast variant equals the reference (no side condition is needed: in the visible case
   clip_lo (rx r) < clip_hi (rx r) (rw r) _ already forces 1 <= rw r) *)
Lemma spec_fill_contig_fast_eq (o : orient) (r : rect) (cs : list Z) :
  spec_fill_contig_fast enc p o r cs = spec_fill_contig enc p o r cs.
Proof.
  unfold spec_fill_contig_fast, spec_fill_contig.
  destruct ((clip_lo (rx r) <? clip_hi (rx r) (rw r) (lw_of p o)) &&
            (clip_lo (ry r) <? clip_hi (ry r) (rh r) (lh_of p o))) eqn:Evis; [|reflexivity].
  apply andb_true_iff in Evis. destruct Evis as [Ex Ey].
  apply Z.ltb_lt in Ex. apply Z.ltb_lt in Ey.
  unfold clip_lo, clip_hi in Ex, Ey.
  assert (Hrw : 1 <= rw r) by lia.
  assert (Hvx : rx r <= clip_lo (rx r)) by (unfold clip_lo; lia).
  assert (Hvy : ry r <= clip_lo (ry r)) by (unfold clip_lo; lia).
  set (cs' := firstnZ (rw r * rh r) cs).
  set (vx0 := clip_lo (rx r)) in *.
  set (vy0 := clip_lo (ry r)) in *.
  set (vx1 := clip_hi (rx r) (rw r) (lw_of p o)).
  set (vy1 := clip_hi (ry r) (rh r) (lh_of p o)).
  set (len := Z.of_nat (length cs')).
  assert (Hlen0 : 0 <= len) by (unfold len; lia).
  destruct (Z.le_gt_cases (vy1 - vy0) (len / rw r + 2)) as [Hle | Hgt].
  - rewrite Z.min_l by exact Hle. reflexivity.
  - rewrite Z.min_r by lia.
    assert (Hq : 0 <= len / rw r) by (apply Z.div_pos; lia).
    apply contig_rows_truncate; [lia | exact Hvx | lia |].
    rewrite Z2Nat.id by lia. fold len.
    assert (Hdm : len = rw r * (len / rw r) + len mod rw r) by (apply Z.div_mod; lia).
    assert (Hmod : 0 <= len mod rw r < rw r) by (apply Z.mod_pos_bound; lia).
    set (q := len / rw r) in *. set (rem := len mod rw r) in *.
    assert (Hoff : 0 <= (vy0 - ry r) * rw r) by (apply Z.mul_nonneg_nonneg; lia).
    replace ((vy0 + (q + 2) - ry r) * rw r) with ((vy0 - ry r) * rw r + rw r * q + 2 * rw r) by ring.
    lia.
Qed.

(* the statement with the requested side conditions, as a corollary *)
Lemma spec_fill_contig_fast_eq_valid (o : orient) (r : rect) (cs : list Z) :
  0 <= rw r -> 0 <= rh r ->
  spec_fill_contig_fast enc p o r cs = spec_fill_contig enc p o r cs.
Proof. intros _ _. apply spec_fill_contig_fast_eq. Qed.

(* side condition on operations, for callers that carry it; not needed by the equation *)
Definition op_rect_nonneg (op : pop) : Prop :=
  match op with
  | PFillContig r _ => 0 <= rw r /\ 0 <= rh r
  | PFillContigGen r _ => 0 <= rw r /\ 0 <= rh r
  | _ => True
  end.

(* 4. the fast per-operation oracle equals the reference *)
Lemma spec_op_writes_fast_eq (o : orient) (op : pop) :
  spec_op_writes_fast enc p o op = spec_op_writes enc p o op.
Proof.
  destruct op; cbn [spec_op_writes_fast spec_op_writes];
    try reflexivity; apply spec_fill_contig_fast_eq.
Qed.

Lemma spec_op_writes_fast_eq_valid (o : orient) (op : pop) :
  op_rect_nonneg op ->
  spec_op_writes_fast enc p o op = spec_op_writes enc p o op.
Proof. intros _. apply spec_op_writes_fast_eq. Qed.

End WithEnc.

Print Assumptions spec_fill_contig_fast_eq.
Print Assumptions spec_op_writes_fast_eq.
