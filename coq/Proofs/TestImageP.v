(* TestImageP.v — lemmas about the TestImage model (Model/TestImage.v). *)
Require Import Model.Base Model.Rect Model.TestImage.
Require Import Gen.Consts.

(* ================= A. checked arithmetic succeeds in range ================= *)
Lemma chk_i32_ok z : - 2 ^ 31 <= z < 2 ^ 31 -> chk_i32 Debug z = Ok z.
Proof.
  intros Hz. unfold chk_i32, in_i32.
  destruct (Z.leb_spec (- 2 ^ 31) z) as [_|Hc]; [|lia].
  destruct (Z.ltb_spec z (2 ^ 31)) as [_|Hc]; [|lia]. reflexivity.
Qed.
Lemma i32_add_ok a b : - 2 ^ 31 <= a + b < 2 ^ 31 -> i32_add a b = Ok (a + b).
Proof. apply chk_i32_ok. Qed.
Lemma i32_sub_ok a b : - 2 ^ 31 <= a - b < 2 ^ 31 -> i32_sub a b = Ok (a - b).
Proof. apply chk_i32_ok. Qed.
Lemma i32_neg_ok a : - 2 ^ 31 <= - a < 2 ^ 31 -> i32_neg a = Ok (- a).
Proof. apply chk_i32_ok. Qed.
Lemma u32_mul_ok a b : 0 <= a * b < 2 ^ 32 -> u32_mul a b = Ok (a * b).
Proof. intros Hr. apply chk_u_in. apply in_u_spec. exact Hr. Qed.
Lemma size_dim_ok w : w < 2 ^ 31 -> size_dim_as_i32 w = Ok w.
Proof. intros Hw. unfold size_dim_as_i32. destruct (Z.ltb_spec w (2 ^ 31)) as [_|Hc]; [reflexivity|lia]. Qed.

Lemma point_add_size_ok px py sw sh :
  sw < 2 ^ 31 -> sh < 2 ^ 31 ->
  - 2 ^ 31 <= px + sw < 2 ^ 31 -> - 2 ^ 31 <= py + sh < 2 ^ 31 ->
  point_add_size (px, py) (sw, sh) = Ok (px + sw, py + sh).
Proof.
  intros Hw Hh Hx Hy. unfold point_add_size. cbn [fst snd].
  rewrite (size_dim_ok sw Hw), (size_dim_ok sh Hh). cbn [bind].
  rewrite (i32_add_ok px sw Hx), (i32_add_ok py sh Hy). reflexivity.
Qed.
Lemma point_sub_size_ok px py sw sh :
  sw < 2 ^ 31 -> sh < 2 ^ 31 ->
  - 2 ^ 31 <= px - sw < 2 ^ 31 -> - 2 ^ 31 <= py - sh < 2 ^ 31 ->
  point_sub_size (px, py) (sw, sh) = Ok (px - sw, py - sh).
Proof.
  intros Hw Hh Hx Hy. unfold point_sub_size. cbn [fst snd].
  rewrite (size_dim_ok sw Hw), (size_dim_ok sh Hh). cbn [bind].
  rewrite (i32_sub_ok px sw Hx), (i32_sub_ok py sh Hy). reflexivity.
Qed.

(* a rectangle in the non-negative quadrant that fits i32 *)
Definition rect_pos (r : rect) : Prop :=
  0 <= rx r /\ 0 <= ry r /\ 0 <= rw r /\ 0 <= rh r /\ rx r + rw r < 2 ^ 31 /\ ry r + rh r < 2 ^ 31.
Lemma rect_pos_valid r : rect_pos r -> rect_valid r.
Proof. unfold rect_pos, rect_valid. lia. Qed.

Lemma center_eq r :
  center r = (rx r + sat_sub_u32 (rw r) 1 / 2, ry r + sat_sub_u32 (rh r) 1 / 2).
Proof. reflexivity. Qed.
Lemma with_center_eq cx cy w h :
  with_center (cx, cy) w h =
  {| rx := cx - sat_sub_u32 w 1 / 2; ry := cy - sat_sub_u32 h 1 / 2; rw := w; rh := h |}.
Proof. reflexivity. Qed.

Lemma m_center_ok r : rect_valid r -> m_center r = Ok (center r).
Proof.
  intros (Hx & Hy & Hw & Hh & Hxw & Hyh). unfold m_center, center_offset. rewrite center_eq.
  apply point_add_size_ok; unfold sat_sub_u32; Z.div_mod_to_equations; lia.
Qed.

Lemma m_with_center_ok cx cy w h :
  0 <= w < 2 ^ 32 -> 0 <= h < 2 ^ 32 ->
  - 2 ^ 31 <= cx - sat_sub_u32 w 1 / 2 -> cx < 2 ^ 31 ->
  - 2 ^ 31 <= cy - sat_sub_u32 h 1 / 2 -> cy < 2 ^ 31 ->
  m_with_center (cx, cy) w h = Ok (with_center (cx, cy) w h).
Proof.
  intros Hw Hh Hx1 Hx2 Hy1 Hy2. unfold m_with_center, center_offset.
  rewrite point_sub_size_ok.
  - reflexivity.
  - unfold sat_sub_u32. Z.div_mod_to_equations. lia.
  - unfold sat_sub_u32. Z.div_mod_to_equations. lia.
  - unfold sat_sub_u32 in *. Z.div_mod_to_equations. lia.
  - unfold sat_sub_u32 in *. Z.div_mod_to_equations. lia.
Qed.

(* Rectangle::offset(-n) on a valid rectangle: no panic, and it is Rect.offset_neg *)
Lemma m_offset_neg_ok r n :
  rect_valid r -> 0 < n < 2 ^ 30 -> m_offset r (- n) = Ok (offset_neg r n).
Proof.
  intros Hv Hn. pose proof Hv as (Hx & Hy & Hw & Hh & Hxw & Hyh).
  unfold m_offset.
  destruct (Z.leb_spec 0 (- n)) as [Hc|_]; [lia|].
  rewrite i32_neg_ok by lia. cbn [bind].
  replace (- - n) with n by lia.
  unfold cast_u. rewrite Z.mod_small by lia.
  rewrite u32_mul_ok by lia. cbn [bind fst snd].
  rewrite (m_center_ok r Hv). cbn [bind]. rewrite center_eq.
  unfold offset_neg. rewrite center_eq. replace (n * 2) with (2 * n) by lia.
  apply m_with_center_ok; unfold sat_sub_u32; Z.div_mod_to_equations; lia.
Qed.

Lemma sat_as_i32_small w : w < 2 ^ 31 -> sat_as_i32 w = w.
Proof. unfold sat_as_i32. lia. Qed.

Lemma m_resize_pos_left pos cur new :
  0 <= cur < 2 ^ 31 -> 0 <= new < 2 ^ 31 -> - 2 ^ 31 <= pos < 2 ^ 31 ->
  m_resize_pos pos cur new 0 = Ok pos.
Proof.
  intros Hc Hn Hp. unfold m_resize_pos.
  rewrite !sat_as_i32_small by lia. rewrite i32_sub_ok by lia. cbn [bind Z.eqb].
  rewrite i32_add_ok by lia. f_equal. lia.
Qed.
Lemma m_resize_pos_right pos cur new :
  0 <= cur < 2 ^ 31 -> 0 <= new < 2 ^ 31 ->
  - 2 ^ 31 <= pos + (Z.max cur 1 - Z.max new 1) < 2 ^ 31 ->
  m_resize_pos pos cur new 2 = Ok (pos + (Z.max cur 1 - Z.max new 1)).
Proof.
  intros Hc Hn Hp. unfold m_resize_pos.
  rewrite !sat_as_i32_small by lia. rewrite i32_sub_ok by lia. cbn [bind Z.eqb Pos.eqb].
  rewrite i32_add_ok by lia. reflexivity.
Qed.

Lemma m_resized_width_left_ok r w :
  rect_pos r -> 0 <= w < 2 ^ 31 -> m_resized_width r w AxLeft = Ok (resized_width r w AxLeft).
Proof.
  intros (Hx & Hy & Hw & Hh & Hxw & Hyh) Hn. unfold m_resized_width, resized_width. cbn [sel_x].
  rewrite m_resize_pos_left by lia. cbn [bind]. do 2 f_equal. lia.
Qed.
Lemma m_resized_width_right_ok r w :
  rect_pos r -> 0 <= w <= rw r -> m_resized_width r w AxRight = Ok (resized_width r w AxRight).
Proof.
  intros (Hx & Hy & Hw & Hh & Hxw & Hyh) Hn. unfold m_resized_width, resized_width. cbn [sel_x].
  rewrite m_resize_pos_right by lia. cbn [bind]. rewrite !sat_as_i32_small by lia. reflexivity.
Qed.
Lemma m_resized_top_left_ok r w h :
  rect_pos r -> 0 <= w < 2 ^ 31 -> 0 <= h < 2 ^ 31 ->
  m_resized r w h AxLeft AyTop = Ok (resized_top_left r w h).
Proof.
  intros (Hx & Hy & Hw & Hh & Hxw & Hyh) Hn Hm. unfold m_resized, resized_top_left. cbn [sel_x sel_y].
  rewrite !m_resize_pos_left by lia. reflexivity.
Qed.

Lemma m_bottom_right_ok r : rect_pos r -> exists v, m_bottom_right r = Ok v.
Proof.
  intros (Hx & Hy & Hw & Hh & Hxw & Hyh). unfold m_bottom_right.
  destruct ((0 <? rw r) && (0 <? rh r)); [|eexists; reflexivity].
  rewrite point_add_size_ok by lia. cbn [bind fst snd].
  rewrite !i32_sub_ok by lia. cbn [bind]. eexists; reflexivity.
Qed.

(* ================= B. the calls, for every target size ================= *)
(* result of the marker loop: n rows, one pixel shorter and one row lower each time *)
Fixpoint marker_list (n : nat) (r : rect) : list tiop :=
  match n with
  | O => []
  | S n' => TFillSolid r TWhite :: marker_list n' {| rx := rx r; ry := ry r + 1; rw := rw r - 1; rh := rh r |}
  end.

Lemma marker_loop_ok n : forall r,
  - 2 ^ 31 <= ry r -> ry r + Z.of_nat n < 2 ^ 31 -> marker_loop n r = Ok (marker_list n r).
Proof.
  induction n as [|n IH]; intros r Hlo Hhi; [reflexivity|].
  cbn [marker_loop marker_list]. rewrite i32_add_ok by lia. cbn [bind].
  rewrite IH by (cbn [ry]; lia). reflexivity.
Qed.
Lemma marker_list_length n r : length (marker_list n r) = n.
Proof. revert r; induction n as [|n IH]; intros r; cbn [marker_list length]; [reflexivity|]. rewrite IH. reflexivity. Qed.

Definition op_valid (op : tiop) : Prop := rect_valid (op_rect op).

Lemma marker_list_valid n : forall r,
  - 2 ^ 31 <= rx r -> - 2 ^ 31 <= ry r -> rw r = Z.of_nat n -> 0 <= rh r ->
  rx r + rw r < 2 ^ 31 -> ry r + Z.of_nat n + rh r < 2 ^ 31 ->
  Forall op_valid (marker_list n r).
Proof.
  induction n as [|n IH]; intros r Hx Hy Hw Hh Hxw Hyh; cbn [marker_list]; constructor.
  - unfold op_valid, rect_valid. cbn [op_rect]. lia.
  - apply IH; cbn [rx ry rw rh]; lia.
Qed.

(* the rectangles, from the panic-free Rect.v functions *)
Definition g_inner (W H : Z) : rect := offset_neg (ti_bb W H) 1.
Definition g_area (W H : Z) : rect := offset_neg (ti_bb W H) 5.
Definition g_box (r : rect) : rect := with_center (center r) 9 11.
Definition g_red (a : rect) : rect := resized_width a (rw a / 3) AxLeft.
Definition g_blue (a : rect) : rect := resized_width a (rw a / 3) AxRight.
Definition g_bars (a : rect) : list tiop :=
  [TFillSolid a TGreen; TFillContig (g_box a) (glyph_colors gen_GLYPH_G);
   TFillSolid (g_red a) TRed; TFillContig (g_box (g_red a)) (glyph_colors gen_GLYPH_R);
   TFillSolid (g_blue a) TBlue; TFillContig (g_box (g_blue a)) (glyph_colors gen_GLYPH_B)].
Definition g_marker (a : rect) : list tiop := marker_list 20 (resized_top_left a 20 1).
Definition g_ops (W H : Z) : list tiop :=
  [TFillContigF (ti_bb W H) (border_color (g_inner W H))] ++ g_bars (g_area W H) ++ g_marker (g_area W H).

Lemma bb_valid W H : 0 <= W < 2 ^ 31 -> 0 <= H < 2 ^ 31 -> rect_valid (ti_bb W H).
Proof. intros HW HH. unfold rect_valid, ti_bb. cbn [rx ry rw rh]. lia. Qed.

Lemma offset_neg_bb_pos W H n :
  0 <= W < 2 ^ 31 -> 0 <= H < 2 ^ 31 -> 0 < n ->
  let r := offset_neg (ti_bb W H) n in
  rect_pos r /\ rx r + rw r <= Z.max W n /\ ry r + rh r <= Z.max H n.
Proof.
  intros HW HH Hn. unfold offset_neg, ti_bb. rewrite center_eq. cbn [rx ry rw rh].
  rewrite with_center_eq. unfold rect_pos. cbn [rx ry rw rh].
  unfold sat_sub_u32. Z.div_mod_to_equations. lia.
Qed.

(* room for a 9 x 11 glyph box around the centre of r *)
Definition box_room (r : rect) : Prop :=
  rect_pos r /\ rx r + rw r + 5 < 2 ^ 31 /\ ry r + rh r / 2 + 6 < 2 ^ 31.

Lemma g_box_valid r : box_room r -> rect_valid (g_box r).
Proof.
  intros ((Hx & Hy & Hw & Hh & Hxw & Hyh) & Hx5 & Hy6). unfold g_box. rewrite center_eq, with_center_eq.
  unfold rect_valid. cbn [rx ry rw rh]. unfold sat_sub_u32. Z.div_mod_to_equations. lia.
Qed.
Lemma m_draw_char_ok g r : box_room r ->
  (do c <- m_center r; m_draw_char g c) = Ok [TFillContig (g_box r) (glyph_colors g)].
Proof.
  intros (Hp & Hx5 & Hy6). pose proof Hp as (Hx & Hy & Hw & Hh & Hxw & Hyh).
  rewrite (m_center_ok r (rect_pos_valid r Hp)). cbn [bind]. unfold m_draw_char, g_box.
  rewrite center_eq. unfold GLYPH_W, GLYPH_H.
  rewrite m_with_center_ok; [reflexivity| | | | | |]; unfold sat_sub_u32; Z.div_mod_to_equations; lia.
Qed.

Lemma g_red_room a : box_room a -> box_room (g_red a).
Proof.
  intros ((Hx & Hy & Hw & Hh & Hxw & Hyh) & Hx5 & Hy6).
  unfold g_red, resized_width, box_room, rect_pos. cbn [rx ry rw rh].
  Z.div_mod_to_equations. lia.
Qed.
Lemma g_blue_room a : box_room a -> box_room (g_blue a).
Proof.
  intros ((Hx & Hy & Hw & Hh & Hxw & Hyh) & Hx5 & Hy6).
  unfold g_blue, resized_width, box_room, rect_pos. cbn [rx ry rw rh].
  rewrite !sat_as_i32_small by (Z.div_mod_to_equations; lia).
  Z.div_mod_to_equations. lia.
Qed.

Lemma m_draw_color_bars_ok a : box_room a -> m_draw_color_bars a = Ok (g_bars a).
Proof.
  intros Hr. pose proof Hr as (Hp & _). pose proof Hp as (Hx & Hy & Hw & Hh & Hxw & Hyh).
  pose proof (m_draw_char_ok gen_GLYPH_G a Hr) as HG.
  pose proof (m_draw_char_ok gen_GLYPH_R _ (g_red_room a Hr)) as HR.
  pose proof (m_draw_char_ok gen_GLYPH_B _ (g_blue_room a Hr)) as HB.
  unfold m_draw_color_bars.
  destruct (m_center a) as [cg| | |]; cbn [bind] in HG |- *; try discriminate HG.
  rewrite HG. cbn [bind].
  rewrite m_resized_width_left_ok by (try exact Hp; Z.div_mod_to_equations; lia). cbn [bind].
  fold (g_red a).
  destruct (m_center (g_red a)) as [cr| | |]; cbn [bind] in HR |- *; try discriminate HR.
  rewrite HR. cbn [bind].
  rewrite m_resized_width_right_ok by (try exact Hp; Z.div_mod_to_equations; lia). cbn [bind].
  fold (g_blue a).
  destruct (m_center (g_blue a)) as [cb| | |]; cbn [bind] in HB |- *; try discriminate HB.
  rewrite HB. cbn [bind]. reflexivity.
Qed.

Lemma g_bars_valid a : box_room a -> Forall op_valid (g_bars a).
Proof.
  intros Hr. pose proof (g_red_room a Hr) as Hr1. pose proof (g_blue_room a Hr) as Hr2.
  unfold g_bars.
  repeat (apply Forall_cons; [unfold op_valid; cbn [op_rect]|]); [| | | | | |apply Forall_nil].
  - apply rect_pos_valid, Hr.
  - apply g_box_valid, Hr.
  - apply rect_pos_valid, Hr1.
  - apply g_box_valid, Hr1.
  - apply rect_pos_valid, Hr2.
  - apply g_box_valid, Hr2.
Qed.

Lemma m_draw_marker_ok a : rect_pos a -> ry a + 21 < 2 ^ 31 ->
  m_draw_marker a gen_TOP_LEFT_MARKER_SIZE = Ok (g_marker a).
Proof.
  intros Hp Hy. pose proof Hp as (Hx & Hy0 & Hw & Hh & Hxw & Hyh).
  unfold m_draw_marker, gen_TOP_LEFT_MARKER_SIZE.
  rewrite m_resized_top_left_ok by (try exact Hp; lia). cbn [bind].
  unfold resized_top_left at 1. cbn [rw]. change (Z.to_nat 20) with 20%nat.
  unfold g_marker. rewrite marker_loop_ok; [reflexivity| |]; unfold resized_top_left; cbn [ry]; lia.
Qed.
Lemma g_marker_valid a : rect_pos a -> rx a + 21 < 2 ^ 31 -> ry a + 21 < 2 ^ 31 ->
  Forall op_valid (g_marker a).
Proof.
  intros (Hx & Hy0 & Hw & Hh & Hxw & Hyh) Hx1 Hy1. unfold g_marker.
  apply marker_list_valid; unfold resized_top_left; cbn [rx ry rw rh]; lia.
Qed.

Lemma ti_area_eq W H : ti_area W H = m_offset (ti_bb W H) (- 5).
Proof. reflexivity. Qed.
Lemma ti_area_ok W H : 0 <= W < 2 ^ 31 -> 0 <= H < 2 ^ 31 -> ti_area W H = Ok (g_area W H).
Proof. intros HW HH. exact (m_offset_neg_ok (ti_bb W H) 5 (bb_valid W H HW HH) ltac:(lia)). Qed.

Lemma ti_border_ops_ok W H : 0 <= W < 2 ^ 31 -> 0 <= H < 2 ^ 31 ->
  ti_border_ops W H = Ok [TFillContigF (ti_bb W H) (border_color (g_inner W H))].
Proof.
  intros HW HH. unfold ti_border_ops, m_draw_border.
  change (i32_try_from_u32 gen_BORDER_WIDTH) with (@Ok Z 1). cbn [bind].
  change (i32_neg 1) with (@Ok Z (-1)). cbn [bind].
  pose proof (m_offset_neg_ok (ti_bb W H) 1 (bb_valid W H HW HH) ltac:(lia)) as Ho.
  change (m_offset (ti_bb W H) (-1) = Ok (g_inner W H)) in Ho. rewrite Ho. cbn [bind].
  destruct (m_bottom_right_ok (g_inner W H)) as [v Hv].
  - apply (offset_neg_bb_pos W H 1); try assumption; lia.
  - rewrite Hv. reflexivity.
Qed.

Lemma g_area_pos W H : 0 <= W < 2 ^ 31 -> 0 <= H < 2 ^ 31 ->
  box_room (g_area W H) /\ rx (g_area W H) + 21 < 2 ^ 31 /\ ry (g_area W H) + 21 < 2 ^ 31.
Proof.
  intros HW HH. pose proof (offset_neg_bb_pos W H 5 HW HH ltac:(lia)) as (Hp & Hx & Hy).
  fold (g_area W H) in *. unfold box_room. split; [split; [exact Hp|]|];
  clear Hp; unfold g_area, offset_neg, ti_bb in *; rewrite center_eq, with_center_eq in *;
  cbn [rx ry rw rh] in *; unfold sat_sub_u32 in *; Z.div_mod_to_equations; lia.
Qed.

(* no panic, and the exact call sequence, for every size *)
Lemma ti_ops_ok W H : 0 <= W < 2 ^ 31 -> 0 <= H < 2 ^ 31 -> ti_ops W H = Ok (g_ops W H).
Proof.
  intros HW HH. destruct (g_area_pos W H HW HH) as (Hr & Hx & Hy). pose proof Hr as (Hp & _).
  unfold ti_ops. rewrite ti_border_ops_ok, ti_area_ok by assumption. cbn [bind].
  rewrite m_draw_color_bars_ok by exact Hr. cbn [bind].
  rewrite m_draw_marker_ok by assumption. reflexivity.
Qed.
Lemma ti_bar_ops_ok W H : 0 <= W < 2 ^ 31 -> 0 <= H < 2 ^ 31 -> ti_bar_ops W H = Ok (g_bars (g_area W H)).
Proof.
  intros HW HH. destruct (g_area_pos W H HW HH) as (Hr & _). pose proof Hr as (Hp & _).
  unfold ti_bar_ops. rewrite ti_area_ok by assumption. cbn [bind]. apply m_draw_color_bars_ok; exact Hr.
Qed.
Lemma ti_marker_ops_ok W H : 0 <= W < 2 ^ 31 -> 0 <= H < 2 ^ 31 -> ti_marker_ops W H = Ok (g_marker (g_area W H)).
Proof.
  intros HW HH. destruct (g_area_pos W H HW HH) as (Hr & Hx & Hy). pose proof Hr as (Hp & _).
  unfold ti_marker_ops. rewrite ti_area_ok by assumption. cbn [bind]. apply m_draw_marker_ok; assumption.
Qed.

Lemma g_ops_valid W H : 0 <= W < 2 ^ 31 -> 0 <= H < 2 ^ 31 -> Forall op_valid (g_ops W H).
Proof.
  intros HW HH. destruct (g_area_pos W H HW HH) as (Hr & Hx & Hy). pose proof Hr as (Hp & _).
  unfold g_ops. apply Forall_app; split; [|apply Forall_app; split].
  - apply Forall_cons; [|apply Forall_nil]. unfold op_valid. cbn [op_rect]. apply bb_valid; assumption.
  - apply g_bars_valid; exact Hr.
  - apply g_marker_valid; assumption.
Qed.

(* T1 *)
Lemma ti_total W H : 0 <= W < 2 ^ 31 -> 0 <= H < 2 ^ 31 ->
  exists ops mk,
    ti_ops W H = Ok ops /\ Forall (fun op => rect_valid (op_rect op)) ops /\
    ti_marker_ops W H = Ok mk /\ Z.of_nat (length mk) = gen_TOP_LEFT_MARKER_SIZE /\
    exists pre, ops = pre ++ mk.
Proof.
  intros HW HH. exists (g_ops W H), (g_marker (g_area W H)).
  split; [apply ti_ops_ok; assumption|].
  split; [apply g_ops_valid; assumption|].
  split; [apply ti_marker_ops_ok; assumption|].
  split; [unfold g_marker; rewrite marker_list_length; reflexivity|].
  eexists. unfold g_ops. rewrite app_assoc. reflexivity.
Qed.

(* ================= C. the rectangles on targets of at least 32 x 32 ================= *)
Section Big.
Variables W H : Z.
Hypothesis HW : 32 <= W < 2 ^ 31.
Hypothesis HH : 32 <= H < 2 ^ 31.

Lemma g_inner_32 : g_inner W H = ti_inner32 W H.
Proof.
  unfold g_inner, offset_neg, ti_bb, ti_inner32. rewrite center_eq. cbn [rx ry rw rh].
  rewrite with_center_eq. unfold sat_sub_u32. f_equal; Z.div_mod_to_equations; lia.
Qed.
Lemma g_area_32 : g_area W H = ti_area32 W H.
Proof.
  unfold g_area, offset_neg, ti_bb, ti_area32. rewrite center_eq. cbn [rx ry rw rh].
  rewrite with_center_eq. unfold sat_sub_u32. f_equal; Z.div_mod_to_equations; lia.
Qed.
Lemma g_gbox_32 : g_box (ti_area32 W H) = ti_gbox W H.
Proof.
  unfold g_box, ti_area32, ti_gbox, glyph_box, ti_cy. rewrite center_eq. cbn [rx ry rw rh].
  rewrite with_center_eq. unfold sat_sub_u32. f_equal; Z.div_mod_to_equations; lia.
Qed.
Lemma g_red_32 : g_red (ti_area32 W H) = ti_red32 W H.
Proof. unfold g_red, resized_width, ti_area32, ti_red32, ti_w3. cbn [rx ry rw rh]. f_equal; lia. Qed.
Lemma g_blue_32 : g_blue (ti_area32 W H) = ti_blue32 W H.
Proof.
  unfold g_blue, resized_width, ti_area32, ti_blue32, ti_w3. cbn [rx ry rw rh].
  rewrite !sat_as_i32_small by (Z.div_mod_to_equations; lia).
  f_equal. Z.div_mod_to_equations. lia.
Qed.
Lemma g_rbox_32 : g_box (ti_red32 W H) = ti_rbox W H.
Proof.
  unfold g_box, ti_red32, ti_rbox, glyph_box, ti_cy, ti_w3. rewrite center_eq. cbn [rx ry rw rh].
  rewrite with_center_eq. unfold sat_sub_u32. f_equal; Z.div_mod_to_equations; lia.
Qed.
Lemma g_bbox_32 : g_box (ti_blue32 W H) = ti_bbox W H.
Proof.
  unfold g_box, ti_blue32, ti_bbox, glyph_box, ti_cy, ti_w3. rewrite center_eq. cbn [rx ry rw rh].
  rewrite with_center_eq. unfold sat_sub_u32. f_equal; Z.div_mod_to_equations; lia.
Qed.

Definition ti_marker_rect : rect := {| rx := 5; ry := 5; rw := 20; rh := 1 |}.
Definition ti_bars32 : list tiop :=
  [TFillSolid (ti_area32 W H) TGreen; TFillContig (ti_gbox W H) (glyph_colors gen_GLYPH_G);
   TFillSolid (ti_red32 W H) TRed; TFillContig (ti_rbox W H) (glyph_colors gen_GLYPH_R);
   TFillSolid (ti_blue32 W H) TBlue; TFillContig (ti_bbox W H) (glyph_colors gen_GLYPH_B)].
Definition ti_ops32 : list tiop :=
  [TFillContigF (ti_bb W H) (border_color (ti_inner32 W H))] ++ ti_bars32 ++ marker_list 20 ti_marker_rect.

Lemma ti_ops_32 : ti_ops W H = Ok ti_ops32.
Proof.
  rewrite ti_ops_ok by lia. unfold g_ops, g_bars, g_marker.
  rewrite g_inner_32, g_area_32, g_gbox_32, g_red_32, g_blue_32, g_rbox_32, g_bbox_32.
  reflexivity.
Qed.
End Big.

(* ================= D. the picture ================= *)
Lemma in_rect_spec r x y :
  in_rect r x y = true <-> (rx r <= x < rx r + rw r /\ ry r <= y < ry r + rh r).
Proof. unfold in_rect. rewrite !andb_true_iff, !Z.leb_le, !Z.ltb_lt. lia. Qed.
Lemma in_rect_nspec r x y :
  in_rect r x y = false <-> ~ (rx r <= x < rx r + rw r /\ ry r <= y < ry r + rh r).
Proof. rewrite <- in_rect_spec. destruct (in_rect r x y); split; intros Hq; try congruence; tauto. Qed.

Lemma marker_spec x y : ti_in_marker x y = true <-> (5 <= y <= 24 /\ 5 <= x <= 29 - y).
Proof. unfold ti_in_marker. rewrite !andb_true_iff, !Z.leb_le. lia. Qed.
Lemma marker_nspec x y : ti_in_marker x y = false <-> ~ (5 <= y <= 24 /\ 5 <= x <= 29 - y).
Proof. rewrite <- marker_spec. destruct (ti_in_marker x y); split; intros Hq; try congruence; tauto. Qed.

Lemma pixel_of_app a b x y :
  pixel_of (a ++ b) x y = match pixel_of b x y with Some c => Some c | None => pixel_of a x y end.
Proof.
  induction a as [|op a IH]; cbn [app pixel_of].
  - destruct (pixel_of b x y); reflexivity.
  - rewrite IH. destruct (pixel_of b x y); reflexivity.
Qed.

(* the triangle painted by the marker loop started at r (height-1 rows) *)
Definition in_tri (r : rect) (x y : Z) : bool :=
  (ry r <=? y) && (y <? ry r + rw r) && (rx r <=? x) && (x <? rx r + rw r - (y - ry r)).
Lemma in_tri_spec r x y :
  in_tri r x y = true <-> (ry r <= y < ry r + rw r /\ rx r <= x < rx r + rw r - (y - ry r)).
Proof. unfold in_tri. rewrite !andb_true_iff, !Z.leb_le, !Z.ltb_lt. lia. Qed.
Lemma in_tri_nspec r x y :
  in_tri r x y = false <-> ~ (ry r <= y < ry r + rw r /\ rx r <= x < rx r + rw r - (y - ry r)).
Proof. rewrite <- in_tri_spec. destruct (in_tri r x y); split; intros Hq; try congruence; tauto. Qed.

Lemma marker_pixel n x y : forall r, rh r = 1 -> rw r = Z.of_nat n ->
  pixel_of (marker_list n r) x y = if in_tri r x y then Some TWhite else None.
Proof.
  induction n as [|n IH]; intros r Hh Hw.
  - cbn [marker_list pixel_of]. destruct (in_tri r x y) eqn:E; [|reflexivity].
    apply in_tri_spec in E. lia.
  - cbn [marker_list pixel_of op_pixel].
    rewrite IH by (cbn [rw rh]; lia).
    destruct (in_tri {| rx := rx r; ry := ry r + 1; rw := rw r - 1; rh := rh r |} x y) eqn:E1;
      [apply in_tri_spec in E1|apply in_tri_nspec in E1]; cbn [rx ry rw rh] in E1;
    destruct (in_rect r x y) eqn:E2; [apply in_rect_spec in E2|apply in_rect_nspec in E2
                                     |apply in_rect_spec in E2|apply in_rect_nspec in E2];
    (destruct (in_tri r x y) eqn:E3; [apply in_tri_spec in E3|apply in_tri_nspec in E3]);
    try reflexivity; exfalso; lia.
Qed.

Lemma marker_pixel_32 x y :
  pixel_of (marker_list 20 ti_marker_rect) x y = if ti_in_marker x y then Some TWhite else None.
Proof.
  rewrite marker_pixel by reflexivity.
  replace (in_tri ti_marker_rect x y) with (ti_in_marker x y); [reflexivity|].
  apply eq_true_iff_eq. rewrite marker_spec, in_tri_spec. unfold ti_marker_rect. cbn [rx ry rw rh]. lia.
Qed.

(* glyph calls *)
Lemma glyph_colors_length g : length (glyph_colors g) = length g.
Proof. apply map_length. Qed.
Lemma glyph_colors_bw g n c : nth_error (glyph_colors g) n = Some c -> c = TBlack \/ c = TWhite.
Proof.
  unfold glyph_colors. intros Hn. apply nth_error_In in Hn. apply in_map_iff in Hn.
  destruct Hn as (d & Hd & _). destruct (d =? 0); subst c; auto.
Qed.

Lemma op_pixel_glyph g r x y : length g = 99%nat -> rw r = 9 -> rh r = 11 ->
  op_pixel (TFillContig r (glyph_colors g)) x y = if in_rect r x y then glyph_px g r x y else None.
Proof.
  intros Hl Hw Hh. cbn [op_pixel]. destruct (in_rect r x y) eqn:E; [|reflexivity].
  apply in_rect_spec in E. rewrite glyph_colors_length, Hl, Hw. cbn zeta.
  destruct (Z.ltb_spec ((y - ry r) * 9 + (x - rx r)) (Z.of_nat 99)) as [_|Hc]; [reflexivity|lia].
Qed.
Lemma glyph_px_some g r x y : length g = 99%nat -> rw r = 9 -> rh r = 11 -> in_rect r x y = true ->
  exists c, glyph_px g r x y = Some c /\ (c = TBlack \/ c = TWhite).
Proof.
  intros Hl Hw Hh E. apply in_rect_spec in E. unfold glyph_px.
  destruct (nth_error (glyph_colors g) (Z.to_nat ((y - ry r) * 9 + (x - rx r)))) as [c|] eqn:En.
  - exists c. split; [reflexivity|]. eapply glyph_colors_bw; exact En.
  - apply nth_error_None in En. rewrite glyph_colors_length, Hl in En. lia.
Qed.

Lemma glyph_len_R : length gen_GLYPH_R = 99%nat. Proof. reflexivity. Qed.
Lemma glyph_len_G : length gen_GLYPH_G = 99%nat. Proof. reflexivity. Qed.
Lemma glyph_len_B : length gen_GLYPH_B = 99%nat. Proof. reflexivity. Qed.

Lemma contains_in_rect r x y : 0 < rw r -> 0 < rh r -> contains r (x, y) = in_rect r x y.
Proof.
  intros Hw Hh. apply eq_true_iff_eq. rewrite in_rect_spec. unfold contains, bottom_right.
  destruct (Z.ltb_spec 0 (rw r)) as [_|Hc]; [|lia].
  destruct (Z.ltb_spec 0 (rh r)) as [_|Hc]; [|lia]. cbn [andb].
  destruct ((rx r <=? x) && (ry r <=? y)) eqn:E.
  - apply andb_true_iff in E. rewrite !Z.leb_le in E. rewrite andb_true_iff, !Z.leb_le. lia.
  - apply andb_false_iff in E. rewrite !Z.leb_gt in E. split; [discriminate|lia].
Qed.

Section BigPicture.
Variables W H : Z.
Hypothesis HW : 32 <= W < 2 ^ 31.
Hypothesis HH : 32 <= H < 2 ^ 31.

(* the picture in closed form *)
Lemma ti_pixel_spec32 x y : 0 <= x < W -> 0 <= y < H -> ti_pixel W H x y = ti_spec32 W H x y.
Proof.
  intros Hx Hy. unfold ti_pixel.
  assert (Ht : in_target W H x y = true).
  { unfold in_target. rewrite !andb_true_iff, !Z.leb_le, !Z.ltb_lt. lia. }
  rewrite Ht, (ti_ops_32 W H HW HH). unfold ti_ops32, ti_spec32.
  rewrite !pixel_of_app, marker_pixel_32.
  destruct (ti_in_marker x y); [reflexivity|].
  unfold ti_bars32. cbn [pixel_of].
  rewrite (op_pixel_glyph gen_GLYPH_B) by reflexivity.
  rewrite (op_pixel_glyph gen_GLYPH_R) by reflexivity.
  rewrite (op_pixel_glyph gen_GLYPH_G) by reflexivity.
  cbn [op_pixel].
  destruct (in_rect (ti_bbox W H) x y) eqn:EB.
  { destruct (glyph_px_some gen_GLYPH_B (ti_bbox W H) x y glyph_len_B eq_refl eq_refl EB) as (c & Hc & _).
    rewrite Hc. reflexivity. }
  destruct (in_rect (ti_blue32 W H) x y); [reflexivity|].
  destruct (in_rect (ti_rbox W H) x y) eqn:ER.
  { destruct (glyph_px_some gen_GLYPH_R (ti_rbox W H) x y glyph_len_R eq_refl eq_refl ER) as (c & Hc & _).
    rewrite Hc. reflexivity. }
  destruct (in_rect (ti_red32 W H) x y); [reflexivity|].
  destruct (in_rect (ti_gbox W H) x y) eqn:EG.
  { destruct (glyph_px_some gen_GLYPH_G (ti_gbox W H) x y glyph_len_G eq_refl eq_refl EG) as (c & Hc & _).
    rewrite Hc. reflexivity. }
  destruct (in_rect (ti_area32 W H) x y); [reflexivity|].
  assert (Hb : in_rect (ti_bb W H) x y = true).
  { apply in_rect_spec. unfold ti_bb. cbn [rx ry rw rh]. lia. }
  rewrite Hb. unfold border_color.
  rewrite contains_in_rect by (unfold ti_inner32; cbn [rw rh]; lia).
  destruct (in_rect (ti_inner32 W H) x y); reflexivity.
Qed.
End BigPicture.

(* ================= E. properties of the picture (targets of at least 32 x 32) ================= *)
Lemma div_facts W H : 32 <= W -> 32 <= H ->
  3 * ti_w3 W <= W - 10 < 3 * ti_w3 W + 3 /\
  2 * ((ti_w3 W - 1) / 2) <= ti_w3 W - 1 < 2 * ((ti_w3 W - 1) / 2) + 2 /\
  2 * ((W - 11) / 2) <= W - 11 < 2 * ((W - 11) / 2) + 2 /\
  2 * ((H - 11) / 2) <= H - 11 < 2 * ((H - 11) / 2) + 2.
Proof. intros HW HH. unfold ti_w3. Z.div_mod_to_equations. lia. Qed.

(* name the four quotients, keep only their linear characterisation *)
Ltac prep W H :=
  let F := fresh "F" in
  pose proof (div_facts W H ltac:(lia) ltac:(lia)) as F;
  unfold ti_bbox, ti_rbox, ti_gbox, ti_blue32, ti_red32, ti_area32, ti_inner32, glyph_box, ti_cy in *;
  let w3 := fresh "w3" in let hw := fresh "hw" in let gw := fresh "gw" in let hh := fresh "hh" in
  set (w3 := ti_w3 W) in *; set (hw := (w3 - 1) / 2) in *;
  set (gw := (W - 11) / 2) in *; set (hh := (H - 11) / 2) in *;
  clearbody hh gw hw; clearbody w3.

(* walk down the decision list of ti_spec32: settle each membership test by linear arithmetic *)
Ltac decide_marker x y :=
  let E := fresh "E" in
  first
  [ assert (E : ti_in_marker x y = false) by (apply marker_nspec; lia)
  | assert (E : ti_in_marker x y = true) by (apply marker_spec; lia) ];
  rewrite E; clear E.
Ltac decide_rect r x y :=
  let E := fresh "E" in
  first
  [ assert (E : in_rect r x y = false) by (apply in_rect_nspec; cbn [rx ry rw rh]; lia)
  | assert (E : in_rect r x y = true) by (apply in_rect_spec; cbn [rx ry rw rh]; lia) ];
  rewrite E; clear E.
Ltac split_ifs :=
  repeat match goal with
  | |- context [if ti_in_marker ?x ?y then _ else _] => decide_marker x y
  | |- context [if in_rect ?r ?x ?y then _ else _] => decide_rect r x y
  end.

Section Properties.
Variables W H : Z.
Hypothesis HW : 32 <= W < 2 ^ 31.
Hypothesis HH : 32 <= H < 2 ^ 31.

(* T2 *)
Lemma spec32_some x y : exists c, ti_spec32 W H x y = Some c.
Proof.
  unfold ti_spec32.
  destruct (ti_in_marker x y); [eexists; reflexivity|].
  destruct (in_rect (ti_bbox W H) x y) eqn:EB.
  { destruct (glyph_px_some gen_GLYPH_B (ti_bbox W H) x y glyph_len_B eq_refl eq_refl EB) as (c & Hc & _).
    exists c. exact Hc. }
  destruct (in_rect (ti_blue32 W H) x y); [eexists; reflexivity|].
  destruct (in_rect (ti_rbox W H) x y) eqn:ER.
  { destruct (glyph_px_some gen_GLYPH_R (ti_rbox W H) x y glyph_len_R eq_refl eq_refl ER) as (c & Hc & _).
    exists c. exact Hc. }
  destruct (in_rect (ti_red32 W H) x y); [eexists; reflexivity|].
  destruct (in_rect (ti_gbox W H) x y) eqn:EG.
  { destruct (glyph_px_some gen_GLYPH_G (ti_gbox W H) x y glyph_len_G eq_refl eq_refl EG) as (c & Hc & _).
    exists c. exact Hc. }
  destruct (in_rect (ti_area32 W H) x y); [eexists; reflexivity|].
  destruct (in_rect (ti_inner32 W H) x y); eexists; reflexivity.
Qed.

Lemma ti_covered x y : 0 <= x < W -> 0 <= y < H -> ti_pixel W H x y <> None.
Proof.
  intros Hx Hy. rewrite (ti_pixel_spec32 W H HW HH x y Hx Hy).
  destruct (spec32_some x y) as (c & Hc). rewrite Hc. discriminate.
Qed.

(* T3 *)
Lemma ti_frame_white x y : 0 <= x < W -> 0 <= y < H ->
  x = 0 \/ x = W - 1 \/ y = 0 \/ y = H - 1 -> ti_pixel W H x y = Some TWhite.
Proof.
  intros Hx Hy Hedge. rewrite (ti_pixel_spec32 W H HW HH x y Hx Hy). unfold ti_spec32.
  prep W H. destruct Hedge as [He|[He|[He|He]]]; split_ifs; reflexivity.
Qed.
Lemma ti_frame_black x y :
  (1 <= x <= W - 2 /\ (y = 1 \/ y = H - 2)) \/ (1 <= y <= H - 2 /\ (x = 1 \/ x = W - 2)) ->
  ti_pixel W H x y = Some TBlack.
Proof.
  intros Hring. rewrite (ti_pixel_spec32 W H HW HH x y) by lia. unfold ti_spec32.
  prep W H. destruct Hring as [(Hr & [He|He])|(Hr & [He|He])]; split_ifs; reflexivity.
Qed.

(* T4 *)
Lemma ti_bars_bw_only_in_glyphs_or_marker x y c : 5 <= x <= W - 6 -> 5 <= y <= H - 6 ->
  ti_pixel W H x y = Some c -> c = TWhite \/ c = TBlack ->
  ti_in_marker x y = true \/ in_rect (ti_gbox W H) x y = true \/
  in_rect (ti_rbox W H) x y = true \/ in_rect (ti_bbox W H) x y = true.
Proof.
  intros Hx Hy. rewrite (ti_pixel_spec32 W H HW HH x y) by lia. unfold ti_spec32.
  assert (Ea : in_rect (ti_area32 W H) x y = true).
  { apply in_rect_spec. unfold ti_area32. cbn [rx ry rw rh]. lia. }
  rewrite Ea.
  destruct (ti_in_marker x y); [auto|].
  destruct (in_rect (ti_bbox W H) x y); [auto|].
  destruct (in_rect (ti_blue32 W H) x y);
    [intros Hc Hbw; injection Hc as Hc; subst c; destruct Hbw as [Hbw|Hbw]; discriminate Hbw|].
  destruct (in_rect (ti_rbox W H) x y); [auto|].
  destruct (in_rect (ti_red32 W H) x y);
    [intros Hc Hbw; injection Hc as Hc; subst c; destruct Hbw as [Hbw|Hbw]; discriminate Hbw|].
  destruct (in_rect (ti_gbox W H) x y); [auto|].
  intros Hc Hbw; injection Hc as Hc; subst c; destruct Hbw as [Hbw|Hbw]; discriminate Hbw.
Qed.

Section Plain.
Variables x y : Z.
Hypothesis Hx : 5 <= x <= W - 6.
Hypothesis Hy : 5 <= y <= H - 6.
Hypothesis Hm : ti_in_marker x y = false.
Hypothesis Hg : in_rect (ti_gbox W H) x y = false.
Hypothesis Hr : in_rect (ti_rbox W H) x y = false.
Hypothesis Hb : in_rect (ti_bbox W H) x y = false.

Lemma plain_start : ti_pixel W H x y =
  if in_rect (ti_blue32 W H) x y then Some TBlue
  else if in_rect (ti_red32 W H) x y then Some TRed
  else if in_rect (ti_area32 W H) x y then Some TGreen
  else if in_rect (ti_inner32 W H) x y then Some TBlack else Some TWhite.
Proof.
  rewrite (ti_pixel_spec32 W H HW HH x y) by lia. unfold ti_spec32. rewrite Hm, Hg, Hr, Hb. reflexivity.
Qed.
Lemma ti_bars_red : x < 5 + ti_w3 W -> ti_pixel W H x y = Some TRed.
Proof. intros Hc. rewrite plain_start. clear Hm Hg Hr Hb. prep W H. split_ifs. reflexivity. Qed.
Lemma ti_bars_green : 5 + ti_w3 W <= x < W - 5 - ti_w3 W -> ti_pixel W H x y = Some TGreen.
Proof. intros Hc. rewrite plain_start. clear Hm Hg Hr Hb. prep W H. split_ifs. reflexivity. Qed.
Lemma ti_bars_blue : W - 5 - ti_w3 W <= x -> ti_pixel W H x y = Some TBlue.
Proof. intros Hc. rewrite plain_start. clear Hm Hg Hr Hb. prep W H. split_ifs. reflexivity. Qed.
End Plain.

Lemma ti_bars_order : 5 < 5 + ti_w3 W /\ 5 + ti_w3 W < W - 5 - ti_w3 W /\ W - 5 - ti_w3 W <= W - 6.
Proof. pose proof (div_facts W H ltac:(lia) ltac:(lia)) as F. lia. Qed.

(* the bottom row of the bar area is an undisturbed red | green | blue strip *)
Lemma ti_bottom_row x : 5 <= x <= W - 6 ->
  ti_pixel W H x (H - 6) =
  Some (if x <? 5 + ti_w3 W then TRed else if x <? W - 5 - ti_w3 W then TGreen else TBlue).
Proof.
  intros Hx. rewrite (ti_pixel_spec32 W H HW HH x (H - 6)) by lia. unfold ti_spec32.
  destruct (Z.ltb_spec x (5 + ti_w3 W)) as [Hc1|Hc1];
    [|destruct (Z.ltb_spec x (W - 5 - ti_w3 W)) as [Hc2|Hc2]];
    prep W H; split_ifs; reflexivity.
Qed.

(* T5: the four reference cells *)
Lemma ti_cell_marker : ti_pixel W H 5 5 = Some TWhite.
Proof.
  rewrite (ti_pixel_spec32 W H HW HH 5 5) by lia. unfold ti_spec32. prep W H. split_ifs. reflexivity.
Qed.
Lemma ti_cell_top_right : ti_pixel W H (W - 6) 5 = Some TBlue.
Proof.
  rewrite (ti_pixel_spec32 W H HW HH (W - 6) 5) by lia. unfold ti_spec32. prep W H. split_ifs. reflexivity.
Qed.
Lemma ti_cell_bottom_left : ti_pixel W H 5 (H - 6) = Some TRed.
Proof.
  rewrite (ti_pixel_spec32 W H HW HH 5 (H - 6)) by lia. unfold ti_spec32. prep W H. split_ifs. reflexivity.
Qed.
Lemma ti_cell_bottom_right : ti_pixel W H (W - 6) (H - 6) = Some TBlue.
Proof.
  rewrite (ti_pixel_spec32 W H HW HH (W - 6) (H - 6)) by lia. unfold ti_spec32. prep W H. split_ifs. reflexivity.
Qed.
End Properties.

(* ================= F. raster and materialised streams ================= *)
Lemma zseq_nth n z : 0 <= z < n -> nth_error (zseq n) (Z.to_nat z) = Some z.
Proof.
  intros Hz. unfold zseq.
  rewrite (map_nth_error Z.of_nat (Z.to_nat z) (seq 0 (Z.to_nat n)) (d := Z.to_nat z)).
  - f_equal. lia.
  - rewrite (nth_error_nth' _ 0%nat) by (rewrite seq_length; lia).
    rewrite seq_nth by lia. reflexivity.
Qed.
Lemma zseq_in n z : In z (zseq n) -> 0 <= z < n.
Proof.
  unfold zseq. intros Hi. apply in_map_iff in Hi. destruct Hi as (k & Hk & Hin).
  apply in_seq in Hin. lia.
Qed.

Lemma ti_raster_spec W H ops : ti_ops W H = Ok ops ->
  ti_raster W H = map (fun y => map (fun x => ti_pixel W H x y) (zseq W)) (zseq H).
Proof.
  intros Hops. unfold ti_raster. rewrite Hops.
  apply map_ext_in. intros y Hy. apply map_ext_in. intros x Hx.
  apply zseq_in in Hy. apply zseq_in in Hx. unfold ti_pixel. rewrite Hops.
  assert (Ht : in_target W H x y = true).
  { unfold in_target. rewrite !andb_true_iff, !Z.leb_le, !Z.ltb_lt. lia. }
  rewrite Ht. reflexivity.
Qed.
(* cell (x, y) of the raster is ti_pixel *)
Lemma ti_raster_cell W H x y : 0 <= W < 2 ^ 31 -> 0 <= H < 2 ^ 31 -> 0 <= x < W -> 0 <= y < H ->
  exists row, nth_error (ti_raster W H) (Z.to_nat y) = Some row /\
              nth_error row (Z.to_nat x) = Some (ti_pixel W H x y).
Proof.
  intros HW HH Hx Hy. rewrite (ti_raster_spec W H _ (ti_ops_ok W H HW HH)).
  eexists. split.
  - apply map_nth_error. apply zseq_nth. exact Hy.
  - cbv beta. apply (map_nth_error (fun x0 => ti_pixel W H x0 y)). apply zseq_nth. exact Hx.
Qed.

(* rows of constant length laid end to end *)
Lemma nth_flat_rows {A} (g : nat -> list A) (w : nat) : (forall j, length (g j) = w) ->
  forall h s j i, (j < h)%nat -> (i < w)%nat ->
  nth_error (flat_map g (seq s h)) (j * w + i) = nth_error (g (s + j)%nat) i.
Proof.
  intros Hlen. induction h as [|h IH]; intros s j i Hj Hi; [lia|].
  cbn [seq flat_map]. destruct j as [|j].
  - cbn [Nat.mul Nat.add]. rewrite nth_error_app1 by (rewrite Hlen; exact Hi).
    rewrite Nat.add_0_r. reflexivity.
  - rewrite nth_error_app2 by (rewrite Hlen; cbn [Nat.mul]; lia).
    rewrite Hlen. replace (S j * w + i - w)%nat with (j * w + i)%nat by (cbn [Nat.mul]; lia).
    rewrite IH by lia. f_equal. f_equal. lia.
Qed.
Lemma length_flat_rows {A} (g : nat -> list A) (w : nat) : (forall j, length (g j) = w) ->
  forall h s, length (flat_map g (seq s h)) = (h * w)%nat.
Proof.
  intros Hlen. induction h as [|h IH]; intros s; [reflexivity|].
  cbn [seq flat_map]. rewrite app_length, Hlen, IH. cbn [Nat.mul]. reflexivity.
Qed.
Lemma row_points_length x y w : length (row_points x y w) = w.
Proof. unfold row_points. rewrite map_length, seq_length. reflexivity. Qed.
Lemma row_points_nth x y w i : (i < w)%nat -> nth_error (row_points x y w) i = Some (x + Z.of_nat i, y).
Proof.
  intros Hi. unfold row_points.
  rewrite (map_nth_error (fun i0 => (x + Z.of_nat i0, y)) i (seq 0 w) (d := i)); [reflexivity|].
  rewrite (nth_error_nth' _ 0%nat) by (rewrite seq_length; exact Hi).
  rewrite seq_nth by exact Hi. reflexivity.
Qed.

Lemma points_length r : length (points r) = (Z.to_nat (rh r) * Z.to_nat (rw r))%nat.
Proof. unfold points. apply length_flat_rows. intros j. apply row_points_length. Qed.
(* Rectangle::points() is row-major: point number (y - ry) * rw + (x - rx) is (x, y) *)
Lemma points_nth r x y : in_rect r x y = true ->
  nth_error (points r) (Z.to_nat ((y - ry r) * rw r + (x - rx r))) = Some (x, y).
Proof.
  intros E. apply in_rect_spec in E. destruct E as (Hx & Hy).
  replace (Z.to_nat ((y - ry r) * rw r + (x - rx r)))
    with (Z.to_nat (y - ry r) * Z.to_nat (rw r) + Z.to_nat (x - rx r))%nat
    by (rewrite Z2Nat.inj_add, Z2Nat.inj_mul by nia; reflexivity).
  unfold points. rewrite nth_flat_rows by (try (intros j; apply row_points_length); lia).
  rewrite row_points_nth by lia. f_equal. f_equal; lia.
Qed.

(* fill_contiguous(r, r.points().map(f)) writes f p to every point p of r *)
Lemma contigF_concrete r f x y :
  op_pixel (TFillContig r (map f (points r))) x y = op_pixel (TFillContigF r f) x y.
Proof.
  cbn [op_pixel]. destruct (in_rect r x y) eqn:E; [|reflexivity].
  pose proof (points_nth r x y E) as Hn. apply in_rect_spec in E. destruct E as (Hx & Hy).
  rewrite map_length, points_length. cbn zeta.
  destruct (Z.ltb_spec ((y - ry r) * rw r + (x - rx r)) (Z.of_nat (Z.to_nat (rh r) * Z.to_nat (rw r)))) as [_|Hc].
  - apply map_nth_error. exact Hn.
  - exfalso. rewrite Nat2Z.inj_mul, !Z2Nat.id in Hc by lia. nia.
Qed.
Lemma pixel_of_concrete ops x y : pixel_of (map tiop_concrete ops) x y = pixel_of ops x y.
Proof.
  induction ops as [|op ops IH]; [reflexivity|]. cbn [map pixel_of]. rewrite IH.
  destruct (pixel_of ops x y); [reflexivity|].
  destruct op as [r cs|r f|r c]; cbn [tiop_concrete]; [reflexivity|apply contigF_concrete|reflexivity].
Qed.

(* ================= G. assembled statements ================= *)
Section Assembled.
Variables W H : Z.
Hypothesis HW : 32 <= W < 2 ^ 31.
Hypothesis HH : 32 <= H < 2 ^ 31.

Lemma ti_frame :
  (forall x y, 0 <= x < W -> 0 <= y < H -> x = 0 \/ x = W - 1 \/ y = 0 \/ y = H - 1 ->
     ti_pixel W H x y = Some TWhite) /\
  (forall x y, (1 <= x <= W - 2 /\ (y = 1 \/ y = H - 2)) \/ (1 <= y <= H - 2 /\ (x = 1 \/ x = W - 2)) ->
     ti_pixel W H x y = Some TBlack).
Proof. split; [apply (ti_frame_white W H HW HH)|apply (ti_frame_black W H HW HH)]. Qed.

Lemma ti_bars_plain x y : 5 <= x <= W - 6 -> 5 <= y <= H - 6 ->
  ti_in_marker x y = false -> in_rect (ti_gbox W H) x y = false ->
  in_rect (ti_rbox W H) x y = false -> in_rect (ti_bbox W H) x y = false ->
  ti_pixel W H x y =
  Some (if x <? 5 + (W - 10) / 3 then TRed else if x <? W - 5 - (W - 10) / 3 then TGreen else TBlue).
Proof.
  intros Hx Hy Hm Hg Hr Hb. fold (ti_w3 W).
  destruct (Z.ltb_spec x (5 + ti_w3 W)) as [Hc1|Hc1];
    [|destruct (Z.ltb_spec x (W - 5 - ti_w3 W)) as [Hc2|Hc2]].
  - apply (ti_bars_red W H HW HH x y); assumption.
  - apply (ti_bars_green W H HW HH x y); try assumption. lia.
  - apply (ti_bars_blue W H HW HH x y); assumption.
Qed.

Lemma ti_bars :
  let w3 := (W - 10) / 3 in
  (forall x y c, 5 <= x <= W - 6 -> 5 <= y <= H - 6 ->
     ti_pixel W H x y = Some c -> c = TWhite \/ c = TBlack ->
     ti_in_marker x y = true \/ in_rect (ti_gbox W H) x y = true \/
     in_rect (ti_rbox W H) x y = true \/ in_rect (ti_bbox W H) x y = true) /\
  (forall x y, 5 <= x <= W - 6 -> 5 <= y <= H - 6 ->
     ti_in_marker x y = false -> in_rect (ti_gbox W H) x y = false ->
     in_rect (ti_rbox W H) x y = false -> in_rect (ti_bbox W H) x y = false ->
     ti_pixel W H x y = Some (if x <? 5 + w3 then TRed else if x <? W - 5 - w3 then TGreen else TBlue)) /\
  (5 < 5 + w3 /\ 5 + w3 < W - 5 - w3 /\ W - 5 - w3 <= W - 6) /\
  (forall x, 5 <= x <= W - 6 ->
     ti_pixel W H x (H - 6) = Some (if x <? 5 + w3 then TRed else if x <? W - 5 - w3 then TGreen else TBlue)) /\
  ti_pixel W H 5 (H - 6) = Some TRed /\
  ti_pixel W H (5 + w3) (H - 6) = Some TGreen /\
  ti_pixel W H (W - 6) (H - 6) = Some TBlue.
Proof.
  cbv zeta. fold (ti_w3 W). pose proof (ti_bars_order W H HW HH) as Ho.
  split; [intros x y c; apply (ti_bars_bw_only_in_glyphs_or_marker W H HW HH)|].
  split; [apply ti_bars_plain|].
  split; [exact Ho|].
  split; [apply (ti_bottom_row W H HW HH)|].
  split; [apply (ti_cell_bottom_left W H HW HH)|].
  split; [|apply (ti_cell_bottom_right W H HW HH)].
  rewrite (ti_bottom_row W H HW HH) by lia.
  destruct (Z.ltb_spec (5 + ti_w3 W) (5 + ti_w3 W)) as [Hc|_]; [lia|].
  destruct (Z.ltb_spec (5 + ti_w3 W) (W - 5 - ti_w3 W)) as [_|Hc]; [reflexivity|lia].
Qed.

Lemma ti_asymmetric :
  ti_differs_at W H (sym_flip_x W H) (5, 5) /\
  ti_differs_at W H (sym_flip_y W H) (5, 5) /\
  ti_differs_at W H (sym_rot180 W H) (5, 5) /\
  (W = H -> ti_differs_at W H (sym_transpose W H) (5, H - 6)) /\
  (W = H -> ti_differs_at W H (sym_antitranspose W H) (5, 5)) /\
  (W = H -> ti_differs_at W H (sym_rot90 W H) (5, 5)) /\
  (W = H -> ti_differs_at W H (sym_rot270 W H) (5, 5)).
Proof.
  pose proof (ti_cell_marker W H HW HH) as Hm.
  pose proof (ti_cell_top_right W H HW HH) as Htr.
  pose proof (ti_cell_bottom_left W H HW HH) as Hbl.
  pose proof (ti_cell_bottom_right W H HW HH) as Hbr.
  unfold ti_differs_at, sym_flip_x, sym_flip_y, sym_rot180, sym_transpose, sym_antitranspose,
    sym_rot90, sym_rot270. cbn [fst snd].
  replace (W - 1 - 5) with (W - 6) by lia. replace (H - 1 - 5) with (H - 6) by lia.
  rewrite Hm, Htr, Hbl, Hbr.
  split; [repeat split; try lia; discriminate|].
  split; [repeat split; try lia; discriminate|].
  split; [repeat split; try lia; discriminate|].
  split; [intros HWH; split; [lia|split; [lia|split; [lia|split; [lia|]]]]|].
  { intros Hc. replace (H - 6) with (W - 6) in Hc by lia. rewrite Htr in Hc. discriminate Hc. }
  split; [intros HWH; split; [lia|split; [lia|split; [lia|split; [lia|discriminate]]]]|].
  split; intros HWH; (split; [lia|split; [lia|split; [lia|split; [lia|discriminate]]]]).
Qed.

(* every call's area lies inside the target: on these sizes nothing is left to clipping *)
Lemma marker_list_inside n : forall r, rh r = 1 -> rw r = Z.of_nat n ->
  0 <= rx r -> 0 <= ry r -> rx r + rw r <= W -> ry r + Z.of_nat n <= H ->
  Forall (fun op => rect_inside W H (op_rect op)) (marker_list n r).
Proof.
  induction n as [|n IH]; intros r Hh Hw Hx Hy Hxw Hyn; cbn [marker_list]; constructor.
  - unfold rect_inside. cbn [op_rect]. lia.
  - apply IH; cbn [rx ry rw rh]; lia.
Qed.
Lemma ti_inside : exists ops, ti_ops W H = Ok ops /\ Forall (fun op => rect_inside W H (op_rect op)) ops.
Proof.
  exists (ti_ops32 W H). split; [apply (ti_ops_32 W H HW HH)|].
  pose proof (div_facts W H ltac:(lia) ltac:(lia)) as F.
  unfold ti_ops32. apply Forall_app; split; [|apply Forall_app; split].
  - apply Forall_cons; [|apply Forall_nil]. unfold rect_inside, ti_bb. cbn [op_rect rx ry rw rh]. lia.
  - unfold ti_bars32.
    repeat (apply Forall_cons; [unfold rect_inside; cbn [op_rect]|]); [| | | | | |apply Forall_nil];
      prep W H; cbn [rx ry rw rh]; lia.
  - apply marker_list_inside; unfold ti_marker_rect; cbn [rx ry rw rh]; lia.
Qed.
End Assembled.
