(* ProgramP.v — arbitrary programs of drawing calls (C01-C04, C08): what the reference MIPI-DCS
   controller decodes from the driver's bus traffic is, entry by entry, the write list the
   specification (Oracle/DrawSpec.v) prescribes; no call panics or fails in either build profile; the
   controller flags no anomaly; every drawing call emits nothing but (CASET RASET RAMWR PIX)*.
   Composition of WindowP / CtlP / DrawP / ClipP / BatchP / OrientStateP. *)
Require Import Model.Base Model.Orient Model.Dcs Model.Events Model.Builder Model.Rect Model.Batch Model.Display.
Require Import Oracle.Spec Oracle.Controller Oracle.DrawSpec.
Require Import Proofs.DcsP Proofs.WindowP Proofs.CtlP Proofs.DrawP Proofs.ClipP Proofs.BatchP Proofs.OrientStateP.
Open Scope Z_scope.

(* ------------------------------------------------------------------------------------------ *)
(* well-formed programs and their specification                                                 *)
(* ------------------------------------------------------------------------------------------ *)

(* arguments the property texts quantify over: set_pixel(s) in bounds (documented precondition);
   DrawTarget calls (draw_iter, fill_*, clear) with ARBITRARY i32 coordinates / valid rectangles *)
Definition i32 (z : Z) : Prop := - 2 ^ 31 <= z < 2 ^ 31.
Definition op_wf (o : opts) (op : pop) : Prop :=
  let '(lw, lh) := lsize o in
  match op with
  | PSetPixel x y _ => 0 <= x < lw /\ 0 <= y < lh
  | PSetPixels sx sy ex ey cs =>
      0 <= sx <= ex /\ ex < lw /\ 0 <= sy <= ey /\ ey < lh /\
      (length cs <= Z.to_nat (ex - sx + 1) * Z.to_nat (ey - sy + 1))%nat
  | PDrawIter ps => Forall (fun q => let '(x, y, _) := q in i32 x /\ i32 y) ps
  | PFillContig r cs => rect_valid r /\ rw r * rh r < 2 ^ 32
  | PFillContigGen r n => rect_valid r /\ rw r * rh r < 2 ^ 32 /\ 0 <= n
  | PFillSolid r _ => rect_valid r
  | PClear _ => True
  | PSetOrient _ => True
  | _ => False            (* scroll / tearing / sleep / wake are covered by C13 and C16 *)
  end.
Fixpoint prog_wf (o : opts) (ops : list pop) : Prop :=
  match ops with
  | [] => True
  | op :: r => op_wf o op /\ prog_wf (match op with PSetOrient x => set_orient o x | _ => o end) r
  end.
(* what the whole program must leave in the controller's write history *)
Fixpoint spec_prog_writes (enc : Z -> list Z) (p : panel) (x : orient) (ops : list pop) : list wr :=
  match ops with
  | [] => []
  | op :: r => spec_op_writes enc p x op ++ spec_prog_writes enc p (spec_op_orient x op) r
  end.

(* driver state after one well-formed operation *)
Definition op_post (st : dstate) (op : pop) : dstate :=
  match op with
  | PSetOrient x =>
      {| d_opts := set_orient (d_opts st) x; d_madctl := madctl_of_opts (set_orient (d_opts st) x);
         d_sleeping := d_sleeping st |}
  | _ => st
  end.

(* number of write_memory_start commands a call must issue, where the property texts fix it *)
Definition spec_ramwr (o : opts) (op : pop) : option Z :=
  match op with
  | PSetPixel _ _ _ | PSetPixels _ _ _ _ _ | PClear _ => Some 1
  | PFillContig r _ | PFillContigGen r _ | PFillSolid r _ =>
      Some (if visible r (fst (lsize o)) (snd (lsize o)) then 1 else 0)
  | _ => None
  end.

(* one specification entry per pixel *)
Definition pxq (enc : Z -> list Z) (p : panel) (o : orient) (q : pixel) : wr :=
  let '(x, y, col) := q in px enc p o x y col.
(* the in-bounds test of the specification, on a pixel *)
Definition inb (p : panel) (o : orient) (q : pixel) : bool := let '(x, y, _) := q in in_box p o x y.

(* ------------------------------------------------------------------------------------------ *)
(* small facts                                                                                   *)
(* ------------------------------------------------------------------------------------------ *)

Lemma valid_cfg_lsize c o lw lh :
  valid_cfg c o -> lsize o = (lw, lh) -> 1 <= lw <= 65535 /\ 1 <= lh <= 65535.
Proof.
  intros (Hw & Hh & Hox & Hoy & HW & HFW & HH & HFH) Hls. unfold lsize in Hls.
  destruct (is_horizontal (rotn (o_orient o))); inversion Hls; subst lw lh; lia.
Qed.

Lemma valid_cfg_set_orient c o x : valid_cfg c o -> valid_cfg c (set_orient o x).
Proof. intros H. exact H. Qed.

Lemma wr_inside_set_orient o x w : wr_inside (set_orient o x) w <-> wr_inside o w.
Proof. destruct w; reflexivity. Qed.

Lemma same_regs_flags k k' : same_regs k k' -> k_flags k' = k_flags k.
Proof. intros (_ & _ & _ & _ & _ & _ & _ & _ & Hf & _). exact Hf. Qed.

Lemma framing_ok_app (b : list event) : forall (n : nat) (a : list event),
  (length a <= n)%nat -> framing_ok a = true -> framing_ok (a ++ b) = framing_ok b.
Proof.
  induction n as [|n IH]; intros a Hn Ha.
  - destruct a as [|e a]; [reflexivity|cbn [length] in Hn; lia].
  - destruct a as [|e1 a]; [reflexivity|].
    destruct e1 as [o1 a1|px1|px1 n1|ns1| |]; try (cbn in Ha; discriminate Ha).
    destruct a1 as [|z1 [|z2 [|z3 [|z4 [|z5 a1]]]]]; try (cbn in Ha; discriminate Ha).
    destruct a as [|e2 a]; try (cbn in Ha; discriminate Ha).
    destruct e2 as [o2 a2|px2|px2 n2|ns2| |]; try (cbn in Ha; discriminate Ha).
    destruct a2 as [|y1 [|y2 [|y3 [|y4 [|y5 a2]]]]]; try (cbn in Ha; discriminate Ha).
    destruct a as [|e3 a]; try (cbn in Ha; discriminate Ha).
    destruct e3 as [o3 a3|px3|px3 n3|ns3| |]; try (cbn in Ha; discriminate Ha).
    destruct a3 as [|x1 a3]; try (cbn in Ha; discriminate Ha).
    destruct a as [|e4 a]; try (cbn in Ha; discriminate Ha).
    cbn [framing_ok] in Ha. cbn [app framing_ok].
    apply andb_true_iff in Ha. destruct Ha as [Ha Hr]. rewrite Ha. cbn [andb].
    apply IH; [cbn [length] in Hn; lia|exact Hr].
Qed.

(* C08: every burst fits its window — a pixel burst carries at most (and a repeat exactly) as many
   pixels as the window announced by the preceding CASET / RASET holds *)
Definition burst_len_ok (e : event) (area : Z) : bool :=
  match e with
  | EPixels px => Z.of_nat (length px) <=? area
  | ERepeat _ n => n =? area
  | _ => false
  end.
Fixpoint bursts_fit (t : list event) : bool :=
  match t with
  | [] => true
  | ECmd _ [sh; sl; eh; el] :: ECmd _ [ph; pl; qh; ql] :: ECmd _ [] :: e :: rest =>
      burst_len_ok e ((de16 eh el - de16 sh sl + 1) * (de16 qh ql - de16 ph pl + 1)) && bursts_fit rest
  | _ => false
  end.

Lemma bursts_fit_app (b : list event) : forall (n : nat) (a : list event),
  (length a <= n)%nat -> bursts_fit a = true -> bursts_fit (a ++ b) = bursts_fit b.
Proof.
  induction n as [|n IH]; intros a Hn Ha.
  - destruct a as [|e a]; [reflexivity|cbn [length] in Hn; lia].
  - destruct a as [|e1 a]; [reflexivity|].
    destruct e1 as [o1 a1|px1|px1 n1|ns1| |]; try (cbn in Ha; discriminate Ha).
    destruct a1 as [|z1 [|z2 [|z3 [|z4 [|z5 a1]]]]]; try (cbn in Ha; discriminate Ha).
    destruct a as [|e2 a]; try (cbn in Ha; discriminate Ha).
    destruct e2 as [o2 a2|px2|px2 n2|ns2| |]; try (cbn in Ha; discriminate Ha).
    destruct a2 as [|y1 [|y2 [|y3 [|y4 [|y5 a2]]]]]; try (cbn in Ha; discriminate Ha).
    destruct a as [|e3 a]; try (cbn in Ha; discriminate Ha).
    destruct e3 as [o3 a3|px3|px3 n3|ns3| |]; try (cbn in Ha; discriminate Ha).
    destruct a3 as [|x1 a3]; try (cbn in Ha; discriminate Ha).
    destruct a as [|e4 a]; try (cbn in Ha; discriminate Ha).
    cbn [bursts_fit] in Ha. cbn [app bursts_fit].
    apply andb_true_iff in Ha. destruct Ha as [Ha Hr]. rewrite Ha. cbn [andb].
    apply IH; [cbn [length] in Hn; lia|exact Hr].
Qed.

Lemma count_ramwr_app (a b : list event) : count_ramwr (a ++ b) = count_ramwr a + count_ramwr b.
Proof.
  induction a as [|e a IH]; [reflexivity|].
  destruct e as [o1 a1|px1|px1 n1|ns1| |]; cbn [app count_ramwr]; rewrite IH; lia.
Qed.

Lemma count_ramwr_nonneg (a : list event) : 0 <= count_ramwr a.
Proof.
  induction a as [|e a IH]; [cbn [count_ramwr]; lia|].
  destruct e as [o1 a1|px1|px1 n1|ns1| |]; cbn [count_ramwr]; try exact IH.
  destruct (o1 =? 44); lia.
Qed.

Lemma filter_idem {A} (f : A -> bool) (l : list A) : filter f (filter f l) = filter f l.
Proof.
  induction l as [|x l IH]; [reflexivity|].
  cbn [filter]. destruct (f x) eqn:E; [|exact IH]. cbn [filter]. rewrite E, IH. reflexivity.
Qed.

Lemma filter_Forall {A} (f : A -> bool) (l : list A) : Forall (fun x => f x = true) (filter f l).
Proof. apply Forall_forall. intros x Hx. apply filter_In in Hx. exact (proj2 Hx). Qed.

Lemma concat_map_nil_in {A B} (g : A -> list B) (l : list A) :
  (forall x, In x l -> g x = []) -> concat (map g l) = [].
Proof.
  intros Hg. induction l as [|x l IH]; [reflexivity|].
  cbn [map concat]. rewrite (Hg x) by (left; reflexivity). rewrite IH; [reflexivity|].
  intros y Hy. apply Hg. right. exact Hy.
Qed.

(* ------------------------------------------------------------------------------------------ *)
(* a call decodes to a list of specification entries                                            *)
(* ------------------------------------------------------------------------------------------ *)

(* `w` returns Ok, is framed as (CASET RASET RAMWR PIX)*, no burst overruns its window, it contains n
   write_memory_start commands, and
   whatever controller (configured for the driver's options) receives it appends exactly `ws` to its
   write history and changes no register; every entry of `ws` lies inside the panel window *)
Definition decodes (c : ctx) (o : opts) (w : W unit) (ws : list wr) (n : Z) : Prop :=
  snd w = Ok tt /\ framing_ok (fst w) = true /\ bursts_fit (fst w) = true /\ count_ramwr (fst w) = n /\
  Forall (wr_inside o) ws /\
  forall k, ctl_matches c o k ->
    same_regs k (ctl_run k (fst w)) /\ writes (ctl_run k (fst w)) = writes k ++ ws.

Lemma decodes_eq c o w ws ws' n n' : decodes c o w ws n -> ws = ws' -> n = n' -> decodes c o w ws' n'.
Proof. intros H -> ->. exact H. Qed.

Lemma decodes_ret c o : decodes c o (wret tt) [] 0.
Proof.
  unfold decodes, wret. cbn [fst snd].
  split; [reflexivity|]. split; [reflexivity|]. split; [reflexivity|]. split; [reflexivity|].
  split; [constructor|].
  intros k Hm. cbn [ctl_run fold_left]. split; [apply same_regs_refl|].
  rewrite app_nil_r. reflexivity.
Qed.

Lemma decodes_bind c o w1 w2 ws1 ws2 n1 n2 :
  decodes c o w1 ws1 n1 -> decodes c o w2 ws2 n2 ->
  decodes c o (wbind w1 (fun _ => w2)) (ws1 ++ ws2) (n1 + n2).
Proof.
  intros (R1 & F1 & B1 & C1 & I1 & K1) (R2 & F2 & B2 & C2 & I2 & K2).
  destruct w1 as [t1 r1]. destruct w2 as [t2 r2]. cbn [fst snd] in *. subst r1 r2.
  unfold decodes. cbn [wbind fst snd]. split; [reflexivity|].
  split; [rewrite (framing_ok_app t2 (length t1) t1 (le_n _) F1); exact F2|].
  split; [rewrite (bursts_fit_app t2 (length t1) t1 (le_n _) B1); exact B2|].
  split; [rewrite count_ramwr_app, C1, C2; reflexivity|].
  split; [apply Forall_app; split; assumption|].
  intros k Hm. rewrite ctl_run_app.
  destruct (K1 k Hm) as [S1 W1].
  pose proof (ctl_matches_same_regs c o k _ S1 Hm) as Hm1.
  destruct (K2 _ Hm1) as [S2 W2].
  split; [exact (same_regs_trans _ _ _ S1 S2)|].
  rewrite W2, W1, app_assoc. reflexivity.
Qed.

(* the four events of one window + burst *)
Definition burst (c : ctx) (o : opts) (sx sy ex ey : Z) (e : event) : list event :=
  [ECmd 0x2A (be16 (sx + fst (win_off c o)) ++ be16 (ex + fst (win_off c o)));
   ECmd 0x2B (be16 (sy + snd (win_off c o)) ++ be16 (ey + snd (win_off c o)));
   ECmd 0x2C []; e].

Lemma de16_be16 (v : Z) : 256 * (v / 256) + v mod 256 = v.
Proof. symmetry. apply Z.div_mod. lia. Qed.

Lemma bursts_fit_burst c o sx sy ex ey e :
  bursts_fit (burst c o sx sy ex ey e) = burst_len_ok e ((ex - sx + 1) * (ey - sy + 1)).
Proof.
  unfold burst. destruct (win_off c o) as [dx dy]. cbn [fst snd be16 app bursts_fit de16].
  unfold de16. rewrite !de16_be16, andb_true_r.
  replace (ex + dx - (sx + dx) + 1) with (ex - sx + 1) by lia.
  replace (ey + dy - (sy + dy) + 1) with (ey - sy + 1) by lia. reflexivity.
Qed.

Lemma set_pixels_trace c o sx sy ex ey cs :
  valid_cfg c o -> 0 <= sx <= ex -> ex < fst (lsize o) -> 0 <= sy <= ey -> ey < snd (lsize o) ->
  set_pixels c o sx sy ex ey cs = (burst c o sx sy ex ey (EPixels (map (c_enc c) cs)), Ok tt).
Proof.
  intros Hv Hx Hex Hy Hey.
  pose proof (set_address_window_ok c o sx sy ex ey Hv Hx Hex Hy Hey) as Hw.
  unfold burst. destruct (win_off c o) as [dx dy]. cbn [fst snd].
  unfold set_pixels. rewrite Hw, write_command_spec.
  cbn [wemit wbind app instruction params]. reflexivity.
Qed.

Lemma decodes_set_pixels c o sx sy ex ey cs :
  valid_cfg c o -> 0 <= sx <= ex -> ex < fst (lsize o) -> 0 <= sy <= ey -> ey < snd (lsize o) ->
  (length cs <= Z.to_nat (ex - sx + 1) * Z.to_nat (ey - sy + 1))%nat ->
  decodes c o (set_pixels c o sx sy ex ey cs)
          (zip_rows (c_enc c) (panel_of o) (o_orient o) sx sy
                    (Z.to_nat (ex - sx + 1)) (Z.to_nat (ey - sy + 1)) cs) 1.
Proof.
  intros Hv Hx Hex Hy Hey Hlen.
  rewrite (set_pixels_trace c o sx sy ex ey cs Hv Hx Hex Hy Hey).
  unfold decodes. cbn [fst snd]. split; [reflexivity|]. split; [reflexivity|].
  split.
  { rewrite bursts_fit_burst. cbn [burst_len_ok]. rewrite map_length. apply Z.leb_le.
    apply Nat2Z.inj_le in Hlen. rewrite Nat2Z.inj_mul, !Z2Nat.id in Hlen by lia. exact Hlen. }
  split; [reflexivity|].
  split; [apply set_pixels_writes_inside; assumption|].
  intros k Hm.
  pose proof (set_pixels_decode c o k sx sy ex ey cs Hv Hm Hx Hex Hy Hey Hlen) as H.
  unfold burst. destruct (win_off c o) as [dx dy]. cbn [fst snd]. cbv zeta in H.
  destruct H as (_ & Hs & _ & Hwr & _). split; [exact Hs|exact Hwr].
Qed.

Lemma decodes_set_pixel c o x y col :
  valid_cfg c o -> 0 <= x < fst (lsize o) -> 0 <= y < snd (lsize o) ->
  decodes c o (set_pixels c o x y x y [col]) [px (c_enc c) (panel_of o) (o_orient o) x y col] 1.
Proof.
  intros Hv Hx Hy.
  assert (E1x : x - x + 1 = 1) by lia. assert (E1y : y - y + 1 = 1) by lia.
  assert (Hlen : (length [col] <= Z.to_nat (x - x + 1) * Z.to_nat (y - y + 1))%nat)
    by (rewrite E1x, E1y; cbn; lia).
  pose proof (decodes_set_pixels c o x y x y [col] Hv ltac:(lia) ltac:(lia) ltac:(lia) ltac:(lia) Hlen) as H.
  rewrite E1x, E1y in H. change (Z.to_nat 1) with 1%nat in H. rewrite zip_rows_one in H. exact H.
Qed.

Lemma decodes_fill_window c o sx sy ex ey col :
  valid_cfg c o -> 0 <= sx <= ex -> ex < fst (lsize o) -> 0 <= sy <= ey -> ey < snd (lsize o) ->
  decodes c o
    (wdo _ <- set_address_window c o sx sy ex ey;
     wdo _ <- wemit (write_command WriteMemoryStart);
     ([ERepeat (c_enc c col) ((ex - sx + 1) * (ey - sy + 1))], Ok tt))
    [prect (c_enc c) (panel_of o) (o_orient o) sx sy ex ey col] 1.
Proof.
  intros Hv Hx Hex Hy Hey.
  assert (E : (wdo _ <- set_address_window c o sx sy ex ey;
               wdo _ <- wemit (write_command WriteMemoryStart);
               ([ERepeat (c_enc c col) ((ex - sx + 1) * (ey - sy + 1))], Ok tt))
              = (burst c o sx sy ex ey (ERepeat (c_enc c col) ((ex - sx + 1) * (ey - sy + 1))), Ok tt)).
  { pose proof (set_address_window_ok c o sx sy ex ey Hv Hx Hex Hy Hey) as Hw.
    unfold burst. destruct (win_off c o) as [dx dy]. cbn [fst snd].
    rewrite Hw, write_command_spec. cbn [wemit wbind app instruction params]. reflexivity. }
  rewrite E. unfold decodes. cbn [fst snd].
  split; [reflexivity|]. split; [reflexivity|].
  split; [rewrite bursts_fit_burst; cbn [burst_len_ok]; apply Z.eqb_refl|].
  split; [reflexivity|].
  split; [constructor; [apply prect_inside; assumption|constructor]|].
  intros k Hm.
  pose proof (fill_window_decode c o k sx sy ex ey col Hv Hm Hx Hex Hy Hey) as H.
  unfold burst. destruct (win_off c o) as [dx dy]. cbn [fst snd]. cbv zeta in H.
  destruct H as (_ & Hs & _ & Hwr & _). split; [exact Hs|exact Hwr].
Qed.

(* ------------------------------------------------------------------------------------------ *)
(* list lemmas on the specification side                                                        *)
(* ------------------------------------------------------------------------------------------ *)

(* one row of the specification walk: the first n colours on n consecutive points *)
Lemma zip_row_pixels enc p o y : forall (n : nat) (x : Z) (cs : list Z),
  zip_row enc p o x y n cs = (map (pxq enc p o) (row_pixels_from x y (firstn n cs)), skipn n cs).
Proof.
  induction n as [|n IH]; intros x cs.
  - destruct cs; reflexivity.
  - destruct cs as [|col cs]; [reflexivity|].
    cbn [zip_row]. rewrite IH. cbn [firstn skipn row_pixels_from map pxq]. reflexivity.
Qed.

Lemma zip_rows_nil enc p o sx y w rows : zip_rows enc p o sx y w rows [] = [].
Proof. destruct rows; reflexivity. Qed.

Lemma zip_rows_unfold enc p o sx y w rows cs :
  zip_rows enc p o sx y w (S rows) cs =
  map (pxq enc p o) (row_pixels_from sx y (firstn w cs)) ++ zip_rows enc p o sx (y + 1) w rows (skipn w cs).
Proof.
  destruct cs as [|col cs].
  - cbn [zip_rows]. rewrite firstn_nil, skipn_nil, zip_rows_nil. reflexivity.
  - cbn [zip_rows]. rewrite zip_row_pixels. reflexivity.
Qed.

(* zip_rows with any colour list enumerates the rectangle row-major, as the batcher's blocks do *)
Lemma zip_rows_block enc p o sx w : forall (rows : nat) (y : Z) (cs : list Z),
  zip_rows enc p o sx y w rows cs = map (pxq enc p o) (block_pixels_from sx y w rows cs).
Proof.
  induction rows as [|rows IH]; intros y cs; [reflexivity|].
  rewrite zip_rows_unfold, IH. cbn [block_pixels_from]. rewrite map_app. reflexivity.
Qed.

(* C04: the colours `clip_colors` selects, laid row-major over the visible window, are the
   specification's "colour k on point k of the requested rectangle, visible points only" *)
Lemma stream_rows enc p o (r : rect) (x0 x1 A : Z) (cs : list Z) :
  0 <= x0 - rx r -> x1 - x0 <= rw r -> 0 <= A ->
  forall (n s : nat) (y : Z), y - ry r = A + Z.of_nat s ->
    zip_rows enc p o x0 y (Z.to_nat (x1 - x0)) n
      (concat (map (fun j => firstn (Z.to_nat (x1 - x0))
                                    (skipnZ ((A + Z.of_nat j) * rw r + (x0 - rx r)) cs)) (seq s n)))
    = contig_rows enc p o r x0 x1 y n cs.
Proof.
  intros Hdx Hw HA. set (W := Z.to_nat (x1 - x0)).
  set (f := fun j : nat => firstn W (skipnZ ((A + Z.of_nat j) * rw r + (x0 - rx r)) cs)).
  induction n as [|n IH]; intros s y Hy; [reflexivity|].
  cbn [seq map concat]. rewrite zip_rows_unfold. cbn [contig_rows]. rewrite zip_row_pixels. cbn [fst].
  fold W. rewrite firstn_firstn, Nat.min_id.
  replace ((y - ry r) * rw r + (x0 - rx r)) with ((A + Z.of_nat s) * rw r + (x0 - rx r)) by (rewrite Hy; reflexivity).
  fold (f s).
  set (rest := concat (map f (seq (S s) n))).
  assert (Hlen : (length (f s) <= W)%nat) by (unfold f; apply firstn_le_length).
  assert (Hshort : (length (f s) < W)%nat -> rest = []).
  { intros Hlt. unfold rest. apply concat_map_nil_in. intros j Hj. apply in_seq in Hj.
    unfold f in Hlt |- *. rewrite skipnZ_skipn, firstn_length, skipn_length in Hlt.
    assert (HW : (0 < W)%nat) by lia. unfold W in HW.
    assert (Hrw : 1 <= rw r) by lia.
    assert (Hk0 : 0 <= (A + Z.of_nat s) * rw r) by (apply Z.mul_nonneg_nonneg; lia).
    assert (Hmono : (A + Z.of_nat s + 1) * rw r <= (A + Z.of_nat j) * rw r)
      by (apply Z.mul_le_mono_nonneg_r; lia).
    assert (Hend : Z.of_nat (length cs) <= (A + Z.of_nat j) * rw r + (x0 - rx r)) by (unfold W in Hlt; lia).
    unfold skipnZ. rewrite (proj2 (Z.leb_le _ _) Hend). apply firstn_nil. }
  assert (E1 : firstn W (f s ++ rest) = f s).
  { destruct (Nat.eq_dec (length (f s)) W) as [He|Hne].
    - rewrite firstn_app, He, Nat.sub_diag. cbn [firstn]. rewrite app_nil_r.
      rewrite <- He. apply firstn_all.
    - rewrite Hshort by lia. rewrite app_nil_r. apply firstn_all2. exact Hlen. }
  assert (E2 : skipn W (f s ++ rest) = rest).
  { destruct (Nat.eq_dec (length (f s)) W) as [He|Hne].
    - rewrite skipn_app, He, Nat.sub_diag. cbn [skipn]. rewrite <- He, skipn_all. reflexivity.
    - rewrite Hshort by lia. rewrite app_nil_r. apply skipn_all2. exact Hlen. }
  rewrite E1, E2. f_equal. unfold rest. apply IH. lia.
Qed.

Lemma zip_rows_clip_colors enc p o (a : rect) (lw lh : Z) (cs : list Z) :
  rect_valid a ->
  zip_rows enc p o (vx0 a) (vy0 a) (Z.to_nat (vx1 a lw - 1 - vx0 a + 1)) (Z.to_nat (vy1 a lh - 1 - vy0 a + 1))
           (clip_colors a lw lh cs)
  = contig_rows enc p o a (vx0 a) (vx1 a lw) (vy0 a) (Z.to_nat (vy1 a lh - vy0 a)) (firstnZ (rw a * rh a) cs).
Proof.
  intros Hv. rewrite (clip_colors_surplus a lw lh cs Hv). unfold clip_colors.
  pose proof (window_facts a lw lh) as Hf.
  replace (vx1 a lw - 1 - vx0 a + 1) with (vx1 a lw - vx0 a) by lia.
  replace (vy1 a lh - 1 - vy0 a + 1) with (vy1 a lh - vy0 a) by lia.
  apply (stream_rows enc p o a (vx0 a) (vx1 a lw) (vy0 a - ry a)); cbn [Z.of_nat]; lia.
Qed.

(* ---- the specification's clipping is the interval arithmetic of ClipP ---- *)

Lemma spec_fill_solid_visible enc o (r : rect) (lw lh col : Z) :
  lsize o = (lw, lh) ->
  spec_fill_solid enc (panel_of o) (o_orient o) r col =
  if visible r lw lh
  then [prect enc (panel_of o) (o_orient o) (vx0 r) (vy0 r) (vx1 r lw - 1) (vy1 r lh - 1) col] else [].
Proof.
  intros Hls. destruct (lsize_panel o) as [Hlw Hlh]. rewrite Hls in Hlw, Hlh. cbn [fst snd] in Hlw, Hlh.
  unfold spec_fill_solid, visible, vx0, vx1, vy0, vy1, clip_lo, clip_hi. rewrite Hlw, Hlh. reflexivity.
Qed.

Lemma spec_fill_contig_visible enc o (r : rect) (lw lh : Z) (cs : list Z) :
  lsize o = (lw, lh) ->
  spec_fill_contig enc (panel_of o) (o_orient o) r cs =
  if visible r lw lh
  then contig_rows enc (panel_of o) (o_orient o) r (vx0 r) (vx1 r lw) (vy0 r) (Z.to_nat (vy1 r lh - vy0 r))
                   (firstnZ (rw r * rh r) cs)
  else [].
Proof.
  intros Hls. destruct (lsize_panel o) as [Hlw Hlh]. rewrite Hls in Hlw, Hlh. cbn [fst snd] in Hlw, Hlh.
  unfold spec_fill_contig, visible, vx0, vx1, vy0, vy1, clip_lo, clip_hi. rewrite Hlw, Hlh. reflexivity.
Qed.

(* ---- the bounding-box filter of draw_iter is the specification's in-bounds test ---- *)

Lemma in_bbox_inb c o (q : pixel) :
  valid_cfg c o -> in_bbox o q = inb (panel_of o) (o_orient o) q.
Proof.
  intros Hv. destruct q as [[x y] col].
  destruct (lsize_panel o) as [Hlw Hlh].
  destruct (lsize o) as [lw lh] eqn:Hls. destruct (valid_cfg_lsize c o lw lh Hv Hls) as [Hw Hh].
  cbn [fst snd] in Hlw, Hlh.
  unfold in_bbox, inb, in_box, contains, bounding_box, bottom_right. rewrite Hlw, Hlh, Hls.
  cbn [fst snd rx ry rw rh].
  rewrite (proj2 (Z.ltb_lt 0 lw)) by lia. rewrite (proj2 (Z.ltb_lt 0 lh)) by lia. cbn [andb].
  replace (0 + lw - 1) with (lw - 1) by lia. replace (0 + lh - 1) with (lh - 1) by lia.
  zbool; cbn [andb]; try reflexivity; lia.
Qed.

Lemma filter_in_bbox c o (ps : list pixel) :
  valid_cfg c o -> filter (in_bbox o) ps = filter (inb (panel_of o) (o_orient o)) ps.
Proof. intros Hv. apply filter_ext. intros q. apply (in_bbox_inb c o q Hv). Qed.

Lemma in_bbox_inside o (q : pixel) :
  in_bbox o q = true -> pixel_inside (fst (lsize o)) (snd (lsize o)) q.
Proof.
  destruct q as [[x y] col]. unfold in_bbox, contains, bounding_box, bottom_right, pixel_inside.
  cbn [rx ry rw rh]. destruct (lsize o) as [lw lh]. cbn [fst snd].
  destruct ((0 <=? x) && (0 <=? y)) eqn:E0; [|discriminate].
  destruct ((0 <? lw) && (0 <? lh)) eqn:E1; [|discriminate].
  intros E2. apply andb_true_iff in E0, E2. destruct E0 as [Ex Ey]. destruct E2 as [Ex2 Ey2].
  apply Z.leb_le in Ex, Ey, Ex2, Ey2. lia.
Qed.

(* ------------------------------------------------------------------------------------------ *)
(* draw_iter                                                                                    *)
(* ------------------------------------------------------------------------------------------ *)

Lemma decodes_draw_each c o : valid_cfg c o ->
  forall ps : list pixel, Forall (pixel_inside (fst (lsize o)) (snd (lsize o))) ps ->
  decodes c o (draw_each c o ps) (map (pxq (c_enc c) (panel_of o) (o_orient o)) ps) (Z.of_nat (length ps)).
Proof.
  intros Hv. destruct (lsize o) as [lw lh] eqn:Hls.
  destruct (valid_cfg_lsize c o lw lh Hv Hls) as [Hlw Hlh]. cbn [fst snd].
  induction ps as [|[[x y] col] ps IH]; intros Hin.
  - apply decodes_ret.
  - inversion Hin as [|q0 ps0 Hq Hps]; subst q0 ps0. destruct Hq as [Hx Hy].
    cbn [draw_each]. rewrite !cast16 by lia.
    eapply decodes_eq.
    + apply decodes_bind.
      * apply (decodes_set_pixel c o x y col Hv); rewrite Hls; cbn [fst snd]; lia.
      * apply IH. exact Hps.
    + reflexivity.
    + cbn [length]. lia.
Qed.

Lemma block_decodes c o (b : pblock) (bcap : nat) :
  valid_cfg c o -> block_ok bcap b -> block_inside (fst (lsize o)) (snd (lsize o)) b ->
  decodes c o (set_pixels c o (bxl b) (byt b) (bxr b) (byb b) (bcs b))
          (map (pxq (c_enc c) (panel_of o) (o_orient o)) (block_pixels b)) 1.
Proof.
  intros Hv (Bl & Bc & Bx0 & Bx1 & Bx2 & By0 & By1 & By2) (Ix0 & Ix1 & Iy0 & Iy1).
  eapply decodes_eq.
  - apply (decodes_set_pixels c o (bxl b) (byt b) (bxr b) (byb b) (bcs b) Hv); lia.
  - unfold block_pixels. apply zip_rows_block.
  - reflexivity.
Qed.

Lemma decodes_draw_blocks c o (bcap : nat) : valid_cfg c o ->
  forall bs : list pblock,
    Forall (block_ok bcap) bs -> Forall (block_inside (fst (lsize o)) (snd (lsize o))) bs ->
    decodes c o (draw_blocks c o bs)
            (map (pxq (c_enc c) (panel_of o) (o_orient o)) (concat (map block_pixels bs)))
            (Z.of_nat (length bs)).
Proof.
  intros Hv. induction bs as [|b bs IH]; intros Hok Hin.
  - apply decodes_ret.
  - inversion Hok as [|b0 bs0 Hb Hbs]; subst b0 bs0.
    inversion Hin as [|b0 bs0 Ib Ibs]; subst b0 bs0.
    cbn [draw_blocks map concat]. rewrite map_app.
    eapply decodes_eq.
    + apply decodes_bind.
      * exact (block_decodes c o b bcap Hv Hb Ib).
      * exact (IH Hbs Ibs).
    + reflexivity.
    + cbn [length]. lia.
Qed.

(* batched or not, draw_iter decodes to one entry per in-bounds pixel, in input order; batching never
   needs more windows than pixel-by-pixel drawing *)
Lemma decodes_draw_iter c o (ps : list pixel) :
  valid_cfg c o -> (1 <= c_rowcap c)%nat -> (c_rowcap c <= c_blockcap c)%nat ->
  exists n, decodes c o (draw_iter c o ps)
                    (map (pxq (c_enc c) (panel_of o) (o_orient o)) (filter (in_bbox o) ps)) n /\
            0 <= n <= Z.of_nat (length (filter (in_bbox o) ps)) /\
            (c_batch c = false -> n = Z.of_nat (length (filter (in_bbox o) ps))).
Proof.
  intros Hv Hcap Hcb.
  set (fs := filter (in_bbox o) ps).
  assert (Hin : Forall (pixel_inside (fst (lsize o)) (snd (lsize o))) fs).
  { apply Forall_forall. intros q Hq. apply filter_In in Hq. apply in_bbox_inside. exact (proj2 Hq). }
  destruct (lsize o) as [lw lh] eqn:Hls.
  destruct (valid_cfg_lsize c o lw lh Hv Hls) as [Hlw Hlh]. cbn [fst snd] in Hin.
  unfold draw_iter. fold fs. destruct (c_batch c) eqn:Eb.
  - assert (Hr : Forall in_range fs).
    { apply Forall_forall. intros [[x y] col] Hq.
      pose proof (proj1 (Forall_forall _ _) Hin _ Hq) as Hq'. unfold pixel_inside in Hq'.
      unfold in_range. lia. }
    destruct (batch_flatten (c_md c) (c_rowcap c) (c_blockcap c) fs Hcap Hcb Hr) as (bs & Hbs & Hpix & Hok).
    destruct (blocks_inside (c_md c) (c_rowcap c) (c_blockcap c) fs lw lh Hcap Hcb Hr Hin) as (bs' & Hbs' & Hbin).
    rewrite Hbs in Hbs'. inversion Hbs'; subst bs'.
    pose proof (batch_count_le (c_md c) (c_rowcap c) (c_blockcap c) fs Hcap Hr) as Hcnt.
    rewrite Hbs in Hcnt |- *. cbn [fst] in Hcnt.
    exists (Z.of_nat (length bs)). split; [|split; [lia|discriminate]].
    eapply decodes_eq.
    + apply decodes_bind.
      * apply (decodes_draw_blocks c o (c_blockcap c) Hv bs Hok). rewrite Hls. exact Hbin.
      * apply decodes_ret.
    + rewrite app_nil_r, Hpix. reflexivity.
    + lia.
  - exists (Z.of_nat (length fs)). split; [|split; [lia|reflexivity]].
    apply (decodes_draw_each c o Hv). rewrite Hls. exact Hin.
Qed.

(* ------------------------------------------------------------------------------------------ *)
(* fills                                                                                        *)
(* ------------------------------------------------------------------------------------------ *)

Lemma decodes_fill_solid c o (r : rect) (col : Z) :
  valid_cfg c o -> rect_valid r ->
  decodes c o (fill_solid c o r col) (spec_fill_solid (c_enc c) (panel_of o) (o_orient o) r col)
          (if visible r (fst (lsize o)) (snd (lsize o)) then 1 else 0).
Proof.
  intros Hv Hr. destruct (lsize o) as [lw lh] eqn:Hls.
  destruct (valid_cfg_lsize c o lw lh Hv Hls) as [Hlw Hlh]. cbn [fst snd].
  rewrite (fill_solid_clip c o r lw lh col Hr Hlw Hlh Hls).
  rewrite (spec_fill_solid_visible (c_enc c) o r lw lh col Hls).
  destruct (visible r lw lh) eqn:Hvis; [|apply decodes_ret].
  pose proof (visible_bounds r lw lh Hvis) as Hb.
  replace ((vx1 r lw - vx0 r) * (vy1 r lh - vy0 r))
    with ((vx1 r lw - 1 - vx0 r + 1) * (vy1 r lh - 1 - vy0 r + 1)) by ring.
  apply decodes_fill_window; [exact Hv| | | |]; rewrite ?Hls; cbn [fst snd]; lia.
Qed.

Lemma decodes_clear c o (col : Z) :
  valid_cfg c o ->
  decodes c o (clear c o col)
          (spec_fill_solid (c_enc c) (panel_of o) (o_orient o)
             {| rx := 0; ry := 0; rw := lw_of (panel_of o) (o_orient o); rh := lh_of (panel_of o) (o_orient o) |} col) 1.
Proof.
  intros Hv. destruct (lsize_panel o) as [Elw Elh].
  destruct (lsize o) as [lw lh] eqn:Hls. cbn [fst snd] in Elw, Elh. rewrite Elw, Elh.
  destruct (valid_cfg_lsize c o lw lh Hv Hls) as [Hlw Hlh].
  unfold clear. rewrite (bounding_box_lsize o lw lh Hls).
  eapply decodes_eq.
  - apply (decodes_fill_solid c o _ col Hv). apply rect_valid_bbox; assumption.
  - reflexivity.
  - rewrite Hls. cbn [fst snd].
    destruct (visible_bbox lw lh) as (Hvis & _); [lia|lia|]. rewrite Hvis. reflexivity.
Qed.

Lemma decodes_fill_contig c o (r : rect) (cs : list Z) :
  valid_cfg c o -> rect_valid r -> rw r * rh r < 2 ^ 32 ->
  decodes c o (fill_contiguous c o r cs) (spec_fill_contig (c_enc c) (panel_of o) (o_orient o) r cs)
          (if visible r (fst (lsize o)) (snd (lsize o)) then 1 else 0).
Proof.
  intros Hv Hr Harea. destruct (lsize o) as [lw lh] eqn:Hls.
  destruct (valid_cfg_lsize c o lw lh Hv Hls) as [Hlw Hlh]. cbn [fst snd].
  rewrite (fill_contiguous_clip c o r lw lh cs Hr Hlw Hlh Hls Harea).
  rewrite (spec_fill_contig_visible (c_enc c) o r lw lh cs Hls).
  destruct (visible r lw lh) eqn:Hvis; [|apply decodes_ret].
  pose proof (visible_bounds r lw lh Hvis) as Hb.
  rewrite <- (zip_rows_clip_colors (c_enc c) (panel_of o) (o_orient o) r lw lh cs Hr).
  apply decodes_set_pixels; [exact Hv| | | | |]; rewrite ?Hls; cbn [fst snd]; try lia.
  pose proof (clip_colors_length_nat r lw lh cs) as Hn.
  replace (vx1 r lw - 1 - vx0 r + 1) with (vx1 r lw - vx0 r) by lia.
  replace (vy1 r lh - 1 - vy0 r + 1) with (vy1 r lh - vy0 r) by lia. exact Hn.
Qed.

(* ------------------------------------------------------------------------------------------ *)
(* A. one operation                                                                             *)
(* ------------------------------------------------------------------------------------------ *)

(* the W-computation behind a drawing operation *)
Definition op_w (c : ctx) (o : opts) (op : pop) : W unit :=
  match op with
  | PSetPixel x y col => set_pixels c o x y x y [col]
  | PSetPixels sx sy ex ey cs => set_pixels c o sx sy ex ey cs
  | PDrawIter ps => draw_iter c o ps
  | PFillContig r cs => fill_contiguous c o r cs
  | PFillContigGen r n => fill_contiguous c o r (gen_colors n)
  | PFillSolid r col => fill_solid c o r col
  | PClear col => clear c o col
  | _ => wret tt
  end.

Lemma step_draw c st op : is_draw op = true ->
  step c st op = (fst (op_w c (d_opts st) op), res_of (snd (op_w c (d_opts st) op)), st).
Proof. destruct op; intros H; try discriminate H; reflexivity. Qed.

Lemma op_decodes c o op :
  valid_cfg c o -> (1 <= c_rowcap c)%nat -> (c_rowcap c <= c_blockcap c)%nat ->
  op_wf o op -> is_draw op = true ->
  exists n, decodes c o (op_w c o op) (spec_op_writes (c_enc c) (panel_of o) (o_orient o) op) n /\
            (forall m, spec_ramwr o op = Some m -> n = m).
Proof.
  intros Hv Hcap Hcb Hwf Hd. unfold op_wf in Hwf.
  destruct (lsize o) as [lw lh] eqn:Hls.
  destruct op as [x y col|sx sy ex ey cs|ps|r cs|r n|r col|col|x|t b|off|t| |]; try discriminate Hd;
    cbn [op_w spec_op_writes spec_ramwr].
  - exists 1. split; [|intros m E; inversion E; reflexivity].
    apply decodes_set_pixel; [exact Hv| |]; rewrite Hls; cbn [fst snd]; tauto.
  - exists 1. split; [|intros m E; inversion E; reflexivity].
    destruct Hwf as (H1 & H2 & H3 & H4 & H5).
    apply decodes_set_pixels; try assumption; rewrite Hls; cbn [fst snd]; assumption.
  - destruct (decodes_draw_iter c o ps Hv Hcap Hcb) as (n & Hn & _).
    exists n. split; [|intros m E; discriminate E].
    rewrite (filter_in_bbox c o ps Hv) in Hn. exact Hn.
  - destruct Hwf as [Hr Ha]. eexists. split; [apply decodes_fill_contig; assumption|].
    intros m E; inversion E; reflexivity.
  - destruct Hwf as (Hr & Ha & _). eexists. split; [apply decodes_fill_contig; assumption|].
    intros m E; inversion E; reflexivity.
  - eexists. split; [apply decodes_fill_solid; assumption|].
    intros m E; inversion E; reflexivity.
  - exists 1. split; [apply decodes_clear; exact Hv|]. intros m E; inversion E; reflexivity.
Qed.

(* the reference controller on set_address_mode: only the MADCTL register changes *)
Lemma ctl_set_madctl k b : k_page k = false ->
  let k' := ctl_run k [ECmd 0x36 [b]] in
  k_madctl k' = b /\ k_page k' = false /\ k_fw k' = k_fw k /\ k_fh k' = k_fh k /\
  writes k' = writes k /\ k_flags k' = k_flags k.
Proof.
  intros H. cbn [ctl_run fold_left ctl_step]. unfold command. rewrite H. cbn.
  repeat split; try reflexivity. exact H.
Qed.

Lemma ctl_matches_set_orient c o x k :
  ctl_matches c o k ->
  ctl_matches c (set_orient o x) (ctl_run k [ECmd 0x36 [madctl_of_opts (set_orient o x)]]).
Proof.
  intros (Hpg & Hfw & Hfh & _).
  destruct (ctl_set_madctl k (madctl_of_opts (set_orient o x)) Hpg) as (Em & Ep & Efw & Efh & _ & _).
  unfold ctl_matches. rewrite Em, Ep, Efw, Efh.
  rewrite madctl_of_opts_is_new.
  destruct (madctl_new_bits (o_bgr (set_orient o x)) (o_orient (set_orient o x))
                            (o_btt (set_orient o x)) (o_rtl (set_orient o x))) as (Hy & Hx & Hvv).
  repeat split; assumption.
Qed.

Lemma step_draw_decode c st k op :
  valid_cfg c (d_opts st) -> madctl_ok st -> ctl_matches c (d_opts st) k ->
  (1 <= c_rowcap c)%nat -> (c_rowcap c <= c_blockcap c)%nat -> op_wf (d_opts st) op ->
  let o := d_opts st in
  let t := fst (fst (step c st op)) in
  let r := snd (fst (step c st op)) in
  let st' := snd (step c st op) in
  let k' := ctl_run k t in
  let ws := spec_op_writes (c_enc c) (panel_of o) (o_orient o) op in
  r = ROk /\ st' = op_post st op /\
  writes k' = writes k ++ ws /\ k_flags k' = k_flags k /\
  ctl_matches c (d_opts st') k' /\ valid_cfg c (d_opts st') /\ madctl_ok st' /\
  Forall (wr_inside o) ws /\
  (is_draw op = true -> framing_ok t = true /\ bursts_fit t = true) /\
  (forall n, spec_ramwr o op = Some n -> count_ramwr t = n).
Proof.
  intros Hv Hmad Hm Hcap Hcb Hwf. cbv zeta.
  destruct (is_draw op) eqn:Hd.
  - destruct (op_decodes c (d_opts st) op Hv Hcap Hcb Hwf Hd) as (n & (R & F & B & C & I & K) & Hn).
    rewrite (step_draw c st op Hd). cbn [fst snd]. destruct (K k Hm) as [Hs Hw].
    assert (Epost : op_post st op = st) by (destruct op; try discriminate Hd; reflexivity).
    rewrite R, Epost. split; [reflexivity|]. split; [reflexivity|]. split; [exact Hw|].
    split; [exact (same_regs_flags _ _ Hs)|].
    split; [exact (ctl_matches_same_regs c _ k _ Hs Hm)|]. split; [exact Hv|]. split; [exact Hmad|].
    split; [exact I|]. split; [intros _; split; [exact F|exact B]|].
    intros m E. rewrite C. apply Hn. exact E.
  - destruct op as [x y col|sx sy ex ey cs|ps|r cs|r n|r col|col|x|t b|off|t| |]; try discriminate Hd;
      try (unfold op_wf in Hwf; destruct (lsize (d_opts st)); contradiction).
    rewrite (step_set_orient_ok c st x Hmad). cbn [fst snd op_post d_opts spec_op_writes].
    destruct Hm as (Hpg & Hfw & Hfh & Hrest).
    destruct (ctl_set_madctl k (madctl_of_opts (set_orient (d_opts st) x)) Hpg) as (_ & _ & _ & _ & Ew & Ef).
    split; [reflexivity|]. split; [reflexivity|].
    split; [rewrite app_nil_r; exact Ew|]. split; [exact Ef|].
    split; [apply ctl_matches_set_orient; unfold ctl_matches; tauto|].
    split; [exact Hv|]. split; [reflexivity|]. split; [constructor|].
    split; [intros E; discriminate E|]. intros n E. discriminate E.
Qed.

(* ------------------------------------------------------------------------------------------ *)
(* B. programs                                                                                  *)
(* ------------------------------------------------------------------------------------------ *)

Lemma exec_cons c st op r :
  exec c st (op :: r) =
  ((fst (fst (step c st op)), snd (fst (step c st op))) :: fst (exec c (snd (step c st op)) r),
   snd (exec c (snd (step c st op)) r)).
Proof.
  cbn [exec]. destruct (step c st op) as [[t rs] st1]. cbn [fst snd].
  destruct (exec c st1 r) as [l stf]. reflexivity.
Qed.

Lemma exec_trace_cons c st op r :
  exec_trace c st (op :: r) = fst (fst (step c st op)) ++ exec_trace c (snd (step c st op)) r.
Proof. unfold exec_trace. rewrite exec_cons. reflexivity. Qed.

Lemma exec_all_ok_cons c st op r :
  exec_all_ok c st (op :: r) = res_beq (snd (fst (step c st op))) ROk && exec_all_ok c (snd (step c st op)) r.
Proof. unfold exec_all_ok. rewrite exec_cons. reflexivity. Qed.

Lemma op_post_facts st op :
  d_opts (op_post st op) = match op with PSetOrient x => set_orient (d_opts st) x | _ => d_opts st end /\
  panel_of (d_opts (op_post st op)) = panel_of (d_opts st) /\
  o_orient (d_opts (op_post st op)) = spec_op_orient (o_orient (d_opts st)) op /\
  (forall w, wr_inside (d_opts st) w -> wr_inside (d_opts (op_post st op)) w) /\
  (forall w, wr_inside (d_opts (op_post st op)) w -> wr_inside (d_opts st) w).
Proof.
  destruct op; cbn [op_post d_opts spec_op_orient]; repeat split; try (intros w H; exact H);
    intros w H; apply (wr_inside_set_orient (d_opts st) o w); exact H.
Qed.

Theorem exec_draw_program c : forall ops st k,
  valid_cfg c (d_opts st) -> madctl_ok st -> ctl_matches c (d_opts st) k ->
  (1 <= c_rowcap c)%nat -> (c_rowcap c <= c_blockcap c)%nat -> prog_wf (d_opts st) ops ->
  let o := d_opts st in
  let st' := snd (exec c st ops) in
  let k' := ctl_run k (exec_trace c st ops) in
  let ws := spec_prog_writes (c_enc c) (panel_of o) (o_orient o) ops in
  exec_all_ok c st ops = true /\
  writes k' = writes k ++ ws /\ k_flags k' = k_flags k /\
  st' = fold_left op_post ops st /\
  ctl_matches c (d_opts st') k' /\ valid_cfg c (d_opts st') /\ madctl_ok st' /\
  Forall (wr_inside o) ws /\
  Forall2 (fun op tr => is_draw op = true -> framing_ok (fst tr) = true /\ bursts_fit (fst tr) = true)
          ops (fst (exec c st ops)).
Proof.
  induction ops as [|op ops IH]; intros st k Hv Hmad Hm Hcap Hcb Hwf; cbv zeta.
  - unfold exec_trace, exec_all_ok. cbn [exec fst snd map concat forallb ctl_run fold_left spec_prog_writes].
    rewrite app_nil_r.
    split; [reflexivity|]. split; [reflexivity|]. split; [reflexivity|]. split; [reflexivity|].
    split; [exact Hm|]. split; [exact Hv|]. split; [exact Hmad|]. split; constructor.
  - destruct Hwf as [Hop Hrest].
    pose proof (step_draw_decode c st k op Hv Hmad Hm Hcap Hcb Hop) as HA. cbv zeta in HA.
    destruct HA as (Hr & Hst & Hw & Hf & Hm1 & Hv1 & Hmad1 & Hin & Hfr & _).
    destruct (op_post_facts st op) as (Eo & Ep & Eor & Hin1 & Hin2).
    rewrite exec_trace_cons, exec_all_ok_cons, exec_cons, ctl_run_app. cbn [fst snd spec_prog_writes fold_left].
    set (st1 := snd (step c st op)) in *.
    set (k1 := ctl_run k (fst (fst (step c st op)))) in *.
    assert (Hwf1 : prog_wf (d_opts st1) ops) by (rewrite Hst, Eo; exact Hrest).
    specialize (IH st1 k1 Hv1 Hmad1 Hm1 Hcap Hcb Hwf1). cbv zeta in IH.
    destruct IH as (Iok & Iw & If & Ist & Im & Iv & Imad & Iin & Ifr).
    assert (Ep1 : panel_of (d_opts st1) = panel_of (d_opts st)) by (rewrite Hst; exact Ep).
    assert (Eor1 : o_orient (d_opts st1) = spec_op_orient (o_orient (d_opts st)) op) by (rewrite Hst; exact Eor).
    rewrite Ep1, Eor1 in Iw, Iin.
    split; [rewrite Hr, Iok; reflexivity|].
    split; [rewrite Iw, Hw, app_assoc; reflexivity|].
    split; [rewrite If; exact Hf|].
    split; [rewrite Ist, Hst; reflexivity|].
    split; [exact Im|]. split; [exact Iv|]. split; [exact Imad|].
    split.
    + apply Forall_app. split; [exact Hin|].
      apply Forall_forall. intros w Hw'. apply Hin2. rewrite <- Hst.
      exact (proj1 (Forall_forall _ _) Iin w Hw').
    + constructor; [cbn [fst]; exact Hfr|exact Ifr].
Qed.

(* ------------------------------------------------------------------------------------------ *)
(* C. corollaries                                                                               *)
(* ------------------------------------------------------------------------------------------ *)

Definition with_batch (c : ctx) (b : bool) : ctx :=
  {| c_md := c_md c; c_batch := b; c_fw := c_fw c; c_fh := c_fh c; c_enc := c_enc c;
     c_rowcap := c_rowcap c; c_blockcap := c_blockcap c |}.
Definition with_mode (c : ctx) (m : mode) : ctx :=
  {| c_md := m; c_batch := c_batch c; c_fw := c_fw c; c_fh := c_fh c; c_enc := c_enc c;
     c_rowcap := c_rowcap c; c_blockcap := c_blockcap c |}.

Definition set_px_op (q : pixel) : pop := let '(x, y, col) := q in PSetPixel x y col.

Lemma spec_prog_set_pixels enc p o (l : list pixel) :
  spec_prog_writes enc p o (map set_px_op l) = map (pxq enc p o) l.
Proof.
  induction l as [|[[x y] col] l IH]; [reflexivity|].
  cbn [map set_px_op spec_prog_writes spec_op_writes spec_op_orient pxq app]. rewrite IH. reflexivity.
Qed.

Lemma prog_wf_set_pixels o (l : list pixel) :
  Forall (fun q => in_bbox o q = true) l -> prog_wf o (map set_px_op l).
Proof.
  induction l as [|[[x y] col] l IH]; intros H; [exact I|].
  inversion H as [|q0 l0 Hq Hl]; subst q0 l0.
  cbn [map set_px_op prog_wf]. split; [|exact (IH Hl)].
  apply in_bbox_inside in Hq. unfold pixel_inside in Hq. unfold op_wf.
  destruct (lsize o) as [lw lh]. exact Hq.
Qed.

(* (i) C03: the write history after draw_iter is the same with and without the `batch` feature, and
   is that of drawing the in-bounds pixels one by one with set_pixel *)
Theorem draw_iter_batch_equiv c st k (ps : list pixel) :
  valid_cfg c (d_opts st) -> madctl_ok st -> ctl_matches c (d_opts st) k ->
  (1 <= c_rowcap c)%nat -> (c_rowcap c <= c_blockcap c)%nat ->
  Forall (fun q => let '(x, y, _) := q in i32 x /\ i32 y) ps ->
  let cb := with_batch c true in
  let cn := with_batch c false in
  let prog := map set_px_op (filter (in_bbox (d_opts st)) ps) in
  let ws := map (pxq (c_enc c) (panel_of (d_opts st)) (o_orient (d_opts st))) (filter (in_bbox (d_opts st)) ps) in
  writes (ctl_run k (exec_trace cb st [PDrawIter ps])) = writes k ++ ws /\
  writes (ctl_run k (exec_trace cn st [PDrawIter ps])) = writes k ++ ws /\
  writes (ctl_run k (exec_trace c st prog)) = writes k ++ ws /\
  exec_all_ok cb st [PDrawIter ps] = true /\ exec_all_ok cn st [PDrawIter ps] = true /\
  exec_all_ok c st prog = true.
Proof.
  intros Hv Hmad Hm Hcap Hcb Hps. cbv zeta.
  assert (Hwf : prog_wf (d_opts st) [PDrawIter ps]).
  { split; [|exact I]. unfold op_wf. destruct (lsize (d_opts st)). exact Hps. }
  assert (Hspec : forall enc, spec_prog_writes enc (panel_of (d_opts st)) (o_orient (d_opts st)) [PDrawIter ps] =
                  map (pxq enc (panel_of (d_opts st)) (o_orient (d_opts st))) (filter (in_bbox (d_opts st)) ps)).
  { intros enc. cbn [spec_prog_writes spec_op_writes]. rewrite app_nil_r.
    rewrite (filter_in_bbox c (d_opts st) ps Hv). reflexivity. }
  pose proof (exec_draw_program (with_batch c true) [PDrawIter ps] st k Hv Hmad Hm Hcap Hcb Hwf) as H1.
  pose proof (exec_draw_program (with_batch c false) [PDrawIter ps] st k Hv Hmad Hm Hcap Hcb Hwf) as H2.
  pose proof (exec_draw_program c (map set_px_op (filter (in_bbox (d_opts st)) ps)) st k Hv Hmad Hm Hcap Hcb
                                (prog_wf_set_pixels _ _ (filter_Forall _ _))) as H3.
  cbv zeta in H1, H2, H3.
  destruct H1 as (A1 & W1 & _). destruct H2 as (A2 & W2 & _). destruct H3 as (A3 & W3 & _).
  rewrite Hspec in W1, W2. rewrite spec_prog_set_pixels in W3.
  repeat split; assumption.
Qed.

(* (ii) Debug and Release builds: same results, same write history, same flags, same final state *)
Theorem draw_mode_indep c ops st k :
  valid_cfg c (d_opts st) -> madctl_ok st -> ctl_matches c (d_opts st) k ->
  (1 <= c_rowcap c)%nat -> (c_rowcap c <= c_blockcap c)%nat -> prog_wf (d_opts st) ops ->
  let cd := with_mode c Debug in
  let cr := with_mode c Release in
  exec_all_ok cd st ops = true /\ exec_all_ok cr st ops = true /\
  writes (ctl_run k (exec_trace cd st ops)) = writes (ctl_run k (exec_trace cr st ops)) /\
  k_flags (ctl_run k (exec_trace cd st ops)) = k_flags (ctl_run k (exec_trace cr st ops)) /\
  snd (exec cd st ops) = snd (exec cr st ops).
Proof.
  intros Hv Hmad Hm Hcap Hcb Hwf. cbv zeta.
  pose proof (exec_draw_program (with_mode c Debug) ops st k Hv Hmad Hm Hcap Hcb Hwf) as H1.
  pose proof (exec_draw_program (with_mode c Release) ops st k Hv Hmad Hm Hcap Hcb Hwf) as H2.
  cbv zeta in H1, H2.
  destruct H1 as (A1 & W1 & F1 & S1 & _). destruct H2 as (A2 & W2 & F2 & S2 & _).
  split; [exact A1|]. split; [exact A2|].
  split; [rewrite W1, W2; reflexivity|]. split; [rewrite F1, F2; reflexivity|].
  rewrite S1, S2. reflexivity.
Qed.

(* (iii) last write wins *)
Definition covers (w : wr) (x y : Z) : bool :=
  match w with
  | WPx x' y' _ => (x =? x') && (y =? y')
  | WRect x0 y0 x1 y1 _ => (x0 <=? x) && (x <=? x1) && (y0 <=? y) && (y <=? y1)
  end.
Definition wr_words (w : wr) : list Z := match w with WPx _ _ ws => ws | WRect _ _ _ _ ws => ws end.
(* colour words of the LAST entry of `ws` covering (x, y); `before` if no entry covers it *)
Definition last_write (ws : list wr) (x y : Z) (before : option (list Z)) : option (list Z) :=
  match find (fun w => covers w x y) (rev ws) with
  | Some w => Some (wr_words w)
  | None => before
  end.

Lemma mem_rev_app (a b : list wr) (x y : Z) :
  mem_rev (a ++ b) x y =
  match find (fun w => covers w x y) a with Some w => Some (wr_words w) | None => mem_rev b x y end.
Proof.
  induction a as [|w a IH]; [reflexivity|].
  destruct w as [x' y' ws|x0 y0 x1 y1 ws]; cbn [app mem_rev find covers wr_words].
  - destruct ((x =? x') && (y =? y')); [reflexivity|exact IH].
  - destruct ((x0 <=? x) && (x <=? x1) && (y0 <=? y) && (y <=? y1)); [reflexivity|exact IH].
Qed.

Lemma mem_after_writes (k k' : ctl) (ws : list wr) (x y : Z) :
  writes k' = writes k ++ ws -> mem k' x y = last_write ws x y (mem k x y).
Proof.
  intros H. unfold writes in H. apply (f_equal (@rev wr)) in H.
  rewrite rev_involutive, rev_app_distr, rev_involutive in H.
  unfold mem, last_write. rewrite H. apply mem_rev_app.
Qed.

Lemma covers_inside o w x y :
  wr_inside o w -> covers w x y = true ->
  o_ox o <= x < o_ox o + o_w o /\ o_oy o <= y < o_oy o + o_h o.
Proof.
  destruct w as [x' y' ws|x0 y0 x1 y1 ws]; cbn [wr_inside covers]; intros Hin Hc.
  - apply andb_true_iff in Hc. destruct Hc as [Ex Ey]. apply Z.eqb_eq in Ex, Ey. subst x' y'. exact Hin.
  - rewrite !andb_true_iff, !Z.leb_le in Hc. lia.
Qed.

Lemma last_write_outside o ws x y before :
  Forall (wr_inside o) ws ->
  ~ (o_ox o <= x < o_ox o + o_w o /\ o_oy o <= y < o_oy o + o_h o) ->
  last_write ws x y before = before.
Proof.
  intros Hin Hout. unfold last_write.
  destruct (find (fun w => covers w x y) (rev ws)) as [w|] eqn:E; [|reflexivity].
  apply find_some in E. destruct E as [Hw Hc]. apply in_rev in Hw.
  exfalso. apply Hout. exact (covers_inside o w x y (proj1 (Forall_forall _ _) Hin w Hw) Hc).
Qed.

Theorem mem_last_write_wins c ops st k x y :
  valid_cfg c (d_opts st) -> madctl_ok st -> ctl_matches c (d_opts st) k ->
  (1 <= c_rowcap c)%nat -> (c_rowcap c <= c_blockcap c)%nat -> prog_wf (d_opts st) ops ->
  let o := d_opts st in
  let k' := ctl_run k (exec_trace c st ops) in
  mem k' x y = last_write (spec_prog_writes (c_enc c) (panel_of o) (o_orient o) ops) x y (mem k x y) /\
  (~ (o_ox o <= x < o_ox o + o_w o /\ o_oy o <= y < o_oy o + o_h o) -> mem k' x y = mem k x y).
Proof.
  intros Hv Hmad Hm Hcap Hcb Hwf. cbv zeta.
  pose proof (exec_draw_program c ops st k Hv Hmad Hm Hcap Hcb Hwf) as H. cbv zeta in H.
  destruct H as (_ & W & _ & _ & _ & _ & _ & Hin & _).
  pose proof (mem_after_writes k _ _ x y W) as E. split; [exact E|].
  intros Hout. rewrite E. exact (last_write_outside (d_opts st) _ x y _ Hin Hout).
Qed.

(* (iv) C02: out-of-bounds pixels of draw_iter are discarded, in the specification and in the driver *)
Theorem oob_discarded_spec enc p o (ps : list pixel) :
  spec_op_writes enc p o (PDrawIter ps) = spec_op_writes enc p o (PDrawIter (filter (inb p o) ps)).
Proof.
  cbn [spec_op_writes]. f_equal. symmetry. exact (filter_idem (inb p o) ps).
Qed.

Theorem oob_discarded c st (ps : list pixel) :
  step c st (PDrawIter ps) = step c st (PDrawIter (filter (in_bbox (d_opts st)) ps)).
Proof. unfold step, draw_iter. rewrite filter_idem. reflexivity. Qed.

(* a draw_iter whose pixels are all out of bounds is silent *)
Theorem oob_silent c st (ps : list pixel) :
  filter (in_bbox (d_opts st)) ps = [] -> step c st (PDrawIter ps) = ([], ROk, st).
Proof. intros H. unfold step, draw_iter. rewrite H. destruct (c_batch c); reflexivity. Qed.

(* the two filters are the same test *)
Theorem oob_filter_spec c st (ps : list pixel) :
  valid_cfg c (d_opts st) ->
  filter (in_bbox (d_opts st)) ps = filter (inb (panel_of (d_opts st)) (o_orient (d_opts st))) ps.
Proof. intros Hv. exact (filter_in_bbox c (d_opts st) ps Hv). Qed.

(* ------------------------------------------------------------------------------------------ *)
(* (ii'), stronger: the whole L1 trace, every result and the final state are the same in Debug  *)
(* and Release builds                                                                           *)
(* ------------------------------------------------------------------------------------------ *)

Lemma set_pixels_mode c m o sx sy ex ey cs :
  valid_cfg c o -> 0 <= sx <= ex -> ex < fst (lsize o) -> 0 <= sy <= ey -> ey < snd (lsize o) ->
  set_pixels (with_mode c m) o sx sy ex ey cs = set_pixels c o sx sy ex ey cs.
Proof.
  intros Hv Hx Hex Hy Hey.
  rewrite (set_pixels_trace (with_mode c m) o sx sy ex ey cs Hv Hx Hex Hy Hey).
  rewrite (set_pixels_trace c o sx sy ex ey cs Hv Hx Hex Hy Hey). reflexivity.
Qed.

Lemma fill_window_mode c m o sx sy ex ey col n :
  valid_cfg c o -> 0 <= sx <= ex -> ex < fst (lsize o) -> 0 <= sy <= ey -> ey < snd (lsize o) ->
  (wdo _ <- set_address_window (with_mode c m) o sx sy ex ey;
   wdo _ <- wemit (write_command WriteMemoryStart);
   ([ERepeat (c_enc (with_mode c m) col) n], Ok tt)) =
  (wdo _ <- set_address_window c o sx sy ex ey;
   wdo _ <- wemit (write_command WriteMemoryStart);
   ([ERepeat (c_enc c col) n], Ok tt)).
Proof.
  intros Hv Hx Hex Hy Hey.
  pose proof (set_address_window_ok (with_mode c m) o sx sy ex ey Hv Hx Hex Hy Hey) as H1.
  pose proof (set_address_window_ok c o sx sy ex ey Hv Hx Hex Hy Hey) as H2.
  change (win_off (with_mode c m) o) with (win_off c o) in H1.
  destruct (win_off c o) as [dx dy]. rewrite H1, H2. reflexivity.
Qed.

Lemma draw_each_mode c m o : valid_cfg c o ->
  forall ps : list pixel, Forall (pixel_inside (fst (lsize o)) (snd (lsize o))) ps ->
  draw_each (with_mode c m) o ps = draw_each c o ps.
Proof.
  intros Hv. destruct (lsize o) as [lw lh] eqn:Hls.
  destruct (valid_cfg_lsize c o lw lh Hv Hls) as [Hlw Hlh]. cbn [fst snd].
  induction ps as [|[[x y] col] ps IH]; intros Hin; [reflexivity|].
  inversion Hin as [|q0 ps0 Hq Hps]; subst q0 ps0. destruct Hq as [Hx Hy].
  cbn [draw_each]. rewrite !cast16 by lia. rewrite (IH Hps).
  rewrite (set_pixels_mode c m o x y x y [col] Hv); rewrite ?Hls; cbn [fst snd]; try lia. reflexivity.
Qed.

Lemma draw_blocks_mode c m o (bcap : nat) : valid_cfg c o ->
  forall bs : list pblock,
    Forall (block_ok bcap) bs -> Forall (block_inside (fst (lsize o)) (snd (lsize o))) bs ->
    draw_blocks (with_mode c m) o bs = draw_blocks c o bs.
Proof.
  intros Hv. induction bs as [|b bs IH]; intros Hok Hin; [reflexivity|].
  inversion Hok as [|b0 bs0 Hb Hbs]; subst b0 bs0.
  inversion Hin as [|b0 bs0 Ib Ibs]; subst b0 bs0.
  destruct Hb as (Bl & Bc & Bx0 & Bx1 & Bx2 & By0 & By1 & By2). destruct Ib as (Ix0 & Ix1 & Iy0 & Iy1).
  cbn [draw_blocks]. rewrite (IH Hbs Ibs).
  rewrite (set_pixels_mode c m o (bxl b) (byt b) (bxr b) (byb b) (bcs b) Hv) by lia. reflexivity.
Qed.

Lemma draw_iter_mode c m o (ps : list pixel) :
  valid_cfg c o -> (1 <= c_rowcap c)%nat -> (c_rowcap c <= c_blockcap c)%nat ->
  draw_iter (with_mode c m) o ps = draw_iter (with_mode c Debug) o ps.
Proof.
  intros Hv Hcap Hcb.
  set (fs := filter (in_bbox o) ps).
  assert (Hin : Forall (pixel_inside (fst (lsize o)) (snd (lsize o))) fs).
  { apply Forall_forall. intros q Hq. apply filter_In in Hq. apply in_bbox_inside. exact (proj2 Hq). }
  unfold draw_iter. fold fs. cbn [c_batch c_md c_rowcap c_blockcap with_mode].
  destruct (c_batch c) eqn:Eb.
  - destruct (lsize o) as [lw lh] eqn:Hls.
    destruct (valid_cfg_lsize c o lw lh Hv Hls) as [Hlw Hlh]. cbn [fst snd] in Hin.
    assert (Hr : Forall in_range fs).
    { apply Forall_forall. intros [[x y] col] Hq.
      pose proof (proj1 (Forall_forall _ _) Hin _ Hq) as Hq'. unfold pixel_inside in Hq'.
      unfold in_range. lia. }
    assert (Eblocks : blocks_of m (c_blockcap c) (rows_of (c_rowcap c) fs) =
                      blocks_of Debug (c_blockcap c) (rows_of (c_rowcap c) fs)).
    { destruct m; [reflexivity|]. symmetry. exact (batch_mode_indep _ _ fs Hcap Hcb Hr). }
    rewrite Eblocks.
    destruct (batch_flatten Debug (c_rowcap c) (c_blockcap c) fs Hcap Hcb Hr) as (bs & Hbs & Hpix & Hok).
    destruct (blocks_inside Debug (c_rowcap c) (c_blockcap c) fs lw lh Hcap Hcb Hr Hin) as (bs' & Hbs' & Hbin).
    rewrite Hbs in Hbs'. inversion Hbs'; subst bs'. rewrite Hbs.
    assert (Hbin' : Forall (block_inside (fst (lsize o)) (snd (lsize o))) bs) by (rewrite Hls; exact Hbin).
    rewrite (draw_blocks_mode c m o (c_blockcap c) Hv bs Hok Hbin').
    rewrite (draw_blocks_mode c Debug o (c_blockcap c) Hv bs Hok Hbin'). reflexivity.
  - rewrite (draw_each_mode c m o Hv fs Hin), (draw_each_mode c Debug o Hv fs Hin). reflexivity.
Qed.

Lemma fill_solid_mode c m o (r : rect) (col : Z) :
  valid_cfg c o -> rect_valid r -> fill_solid (with_mode c m) o r col = fill_solid c o r col.
Proof.
  intros Hv Hr. destruct (lsize o) as [lw lh] eqn:Hls.
  destruct (valid_cfg_lsize c o lw lh Hv Hls) as [Hlw Hlh].
  rewrite (fill_solid_clip (with_mode c m) o r lw lh col Hr Hlw Hlh Hls).
  rewrite (fill_solid_clip c o r lw lh col Hr Hlw Hlh Hls).
  destruct (visible r lw lh) eqn:Hvis; [|reflexivity].
  pose proof (visible_bounds r lw lh Hvis) as Hb.
  apply fill_window_mode; [exact Hv| | | |]; rewrite ?Hls; cbn [fst snd]; lia.
Qed.

Lemma fill_contiguous_mode c m o (r : rect) (cs : list Z) :
  valid_cfg c o -> rect_valid r -> rw r * rh r < 2 ^ 32 ->
  fill_contiguous (with_mode c m) o r cs = fill_contiguous c o r cs.
Proof.
  intros Hv Hr Ha. destruct (lsize o) as [lw lh] eqn:Hls.
  destruct (valid_cfg_lsize c o lw lh Hv Hls) as [Hlw Hlh].
  rewrite (fill_contiguous_clip (with_mode c m) o r lw lh cs Hr Hlw Hlh Hls Ha).
  rewrite (fill_contiguous_clip c o r lw lh cs Hr Hlw Hlh Hls Ha).
  destruct (visible r lw lh) eqn:Hvis; [|reflexivity].
  pose proof (visible_bounds r lw lh Hvis) as Hb.
  apply set_pixels_mode; [exact Hv| | | |]; rewrite ?Hls; cbn [fst snd]; lia.
Qed.

Lemma step_mode c m st op :
  valid_cfg c (d_opts st) -> (1 <= c_rowcap c)%nat -> (c_rowcap c <= c_blockcap c)%nat ->
  op_wf (d_opts st) op ->
  step (with_mode c m) st op = step (with_mode c Debug) st op.
Proof.
  intros Hv Hcap Hcb Hwf. unfold op_wf in Hwf.
  destruct (lsize (d_opts st)) as [lw lh] eqn:Hls.
  destruct (valid_cfg_lsize c _ lw lh Hv Hls) as [Hlw Hlh].
  destruct op as [x y col|sx sy ex ey cs|ps|r cs|r n|r col|col|x|t b|off|t| |]; try contradiction;
    unfold step.
  - rewrite (set_pixels_mode c m), (set_pixels_mode c Debug); try exact Hv; rewrite ?Hls; cbn [fst snd]; try lia.
    reflexivity.
  - destruct Hwf as (H1 & H2 & H3 & H4 & H5).
    rewrite (set_pixels_mode c m), (set_pixels_mode c Debug); try exact Hv; rewrite ?Hls; cbn [fst snd]; try lia.
    reflexivity.
  - rewrite (draw_iter_mode c m _ ps Hv Hcap Hcb). reflexivity.
  - destruct Hwf as [Hr Ha].
    rewrite (fill_contiguous_mode c m), (fill_contiguous_mode c Debug); try assumption. reflexivity.
  - destruct Hwf as (Hr & Ha & _).
    rewrite (fill_contiguous_mode c m), (fill_contiguous_mode c Debug); try assumption. reflexivity.
  - rewrite (fill_solid_mode c m), (fill_solid_mode c Debug); try assumption. reflexivity.
  - unfold clear. rewrite (bounding_box_lsize _ lw lh Hls).
    rewrite (fill_solid_mode c m), (fill_solid_mode c Debug); try assumption;
      try (apply rect_valid_bbox; assumption). reflexivity.
  - reflexivity.
Qed.

Theorem exec_mode_indep c m : forall ops st,
  valid_cfg c (d_opts st) -> madctl_ok st ->
  (1 <= c_rowcap c)%nat -> (c_rowcap c <= c_blockcap c)%nat -> prog_wf (d_opts st) ops ->
  exec (with_mode c m) st ops = exec (with_mode c Debug) st ops.
Proof.
  induction ops as [|op ops IH]; intros st Hv Hmad Hcap Hcb Hwf; [reflexivity|].
  destruct Hwf as [Hop Hrest].
  rewrite !exec_cons. rewrite (step_mode c m st op Hv Hcap Hcb Hop).
  (* any controller configured for the driver will do to invoke the per-operation lemma *)
  set (k0 := set_core (power_on (c_fw c) (c_fh c)) (madctl_of_opts (d_opts st)) None true false false None).
  assert (Hm : ctl_matches (with_mode c Debug) (d_opts st) k0).
  { unfold ctl_matches, k0. cbn [k_page k_fw k_fh k_madctl set_core power_on c_fw c_fh with_mode].
    rewrite madctl_of_opts_is_new.
    destruct (madctl_new_bits (o_bgr (d_opts st)) (o_orient (d_opts st)) (o_btt (d_opts st)) (o_rtl (d_opts st)))
      as (Hy & Hx & Hvv).
    repeat split; assumption. }
  pose proof (step_draw_decode (with_mode c Debug) st k0 op Hv Hmad Hm Hcap Hcb Hop) as HA. cbv zeta in HA.
  destruct HA as (_ & Hst & _ & _ & _ & Hv1 & Hmad1 & _).
  destruct (op_post_facts st op) as (Eo & _).
  assert (Hwf1 : prog_wf (d_opts (snd (step (with_mode c Debug) st op))) ops) by (rewrite Hst, Eo; exact Hrest).
  rewrite (IH _ Hv1 Hmad1 Hcap Hcb Hwf1). reflexivity.
Qed.

(* ------------------------------------------------------------------------------------------ *)
(* packaged corollaries for the property files                                                  *)
(* ------------------------------------------------------------------------------------------ *)

(* a controller configured for the driver's options always exists: the per-call facts that do not
   mention a controller follow from the ones that do *)
Definition ctl_for (c : ctx) (o : opts) : ctl :=
  set_core (power_on (c_fw c) (c_fh c)) (madctl_of_opts o) None true false false None.

Lemma ctl_for_matches c o : ctl_matches c o (ctl_for c o).
Proof.
  unfold ctl_matches, ctl_for. cbn [k_page k_fw k_fh k_madctl set_core power_on].
  rewrite madctl_of_opts_is_new.
  destruct (madctl_new_bits (o_bgr o) (o_orient o) (o_btt o) (o_rtl o)) as (Hy & Hx & Hvv).
  repeat split; assumption.
Qed.

(* C02: no call of a well-formed program panics or returns an error, in either build profile *)
Theorem exec_no_panic c ops st :
  valid_cfg c (d_opts st) -> madctl_ok st ->
  (1 <= c_rowcap c)%nat -> (c_rowcap c <= c_blockcap c)%nat -> prog_wf (d_opts st) ops ->
  exec_all_ok (with_mode c Debug) st ops = true /\ exec_all_ok (with_mode c Release) st ops = true /\
  exec_all_ok c st ops = true.
Proof.
  intros Hv Hmad Hcap Hcb Hwf.
  pose proof (exec_draw_program (with_mode c Debug) ops st _ Hv Hmad (ctl_for_matches _ _) Hcap Hcb Hwf) as H1.
  pose proof (exec_draw_program (with_mode c Release) ops st _ Hv Hmad (ctl_for_matches _ _) Hcap Hcb Hwf) as H2.
  pose proof (exec_draw_program c ops st _ Hv Hmad (ctl_for_matches _ _) Hcap Hcb Hwf) as H3.
  cbv zeta in H1, H2, H3.
  split; [exact (proj1 H1)|]. split; [exact (proj1 H2)|exact (proj1 H3)].
Qed.

(* C02: everything a well-formed program writes lies inside the configured panel window; the
   controller flags no anomaly; framebuffer cells outside the window keep their content *)
Theorem exec_confined c ops st k :
  valid_cfg c (d_opts st) -> madctl_ok st -> ctl_matches c (d_opts st) k ->
  (1 <= c_rowcap c)%nat -> (c_rowcap c <= c_blockcap c)%nat -> prog_wf (d_opts st) ops ->
  let o := d_opts st in
  let k' := ctl_run k (exec_trace c st ops) in
  let ws := spec_prog_writes (c_enc c) (panel_of o) (o_orient o) ops in
  writes k' = writes k ++ ws /\ Forall (wr_inside o) ws /\ k_flags k' = k_flags k /\
  forall x y, ~ (o_ox o <= x < o_ox o + o_w o /\ o_oy o <= y < o_oy o + o_h o) -> mem k' x y = mem k x y.
Proof.
  intros Hv Hmad Hm Hcap Hcb Hwf. cbv zeta.
  pose proof (exec_draw_program c ops st k Hv Hmad Hm Hcap Hcb Hwf) as H. cbv zeta in H.
  destruct H as (_ & W & F & _ & _ & _ & _ & Hin & _).
  split; [exact W|]. split; [exact Hin|]. split; [exact F|].
  intros x y Hout.
  exact (proj2 (mem_last_write_wins c ops st k x y Hv Hmad Hm Hcap Hcb Hwf) Hout).
Qed.

(* C02: a rectangle with no visible part emits nothing at all *)
Theorem fill_invisible_silent c st (r : rect) :
  valid_cfg c (d_opts st) -> rect_valid r ->
  visible r (fst (lsize (d_opts st))) (snd (lsize (d_opts st))) = false ->
  (forall col, step c st (PFillSolid r col) = ([], ROk, st)) /\
  (rw r * rh r < 2 ^ 32 -> forall cs, step c st (PFillContig r cs) = ([], ROk, st)).
Proof.
  intros Hv Hr Hvis. destruct (lsize (d_opts st)) as [lw lh] eqn:Hls.
  destruct (valid_cfg_lsize c _ lw lh Hv Hls) as [Hlw Hlh]. cbn [fst snd] in Hvis. split.
  - intros col. unfold step. rewrite (fill_solid_clip c _ r lw lh col Hr Hlw Hlh Hls), Hvis. reflexivity.
  - intros Ha cs. unfold step. rewrite (fill_contiguous_clip c _ r lw lh cs Hr Hlw Hlh Hls Ha), Hvis. reflexivity.
Qed.

(* C08: number of write_memory_start commands per call *)
Theorem step_ramwr_count c st (op : pop) :
  valid_cfg c (d_opts st) -> (1 <= c_rowcap c)%nat -> (c_rowcap c <= c_blockcap c)%nat ->
  op_wf (d_opts st) op ->
  let t := fst (fst (step c st op)) in
  let lw := fst (lsize (d_opts st)) in
  let lh := snd (lsize (d_opts st)) in
  match op with
  | PSetPixel _ _ _ | PSetPixels _ _ _ _ _ | PClear _ => count_ramwr t = 1
  | PFillContig r _ | PFillContigGen r _ | PFillSolid r _ => count_ramwr t = if visible r lw lh then 1 else 0
  | PDrawIter ps =>
      0 <= count_ramwr t <= Z.of_nat (length (filter (in_bbox (d_opts st)) ps)) /\
      (c_batch c = false -> count_ramwr t = Z.of_nat (length (filter (in_bbox (d_opts st)) ps)))
  | _ => True
  end.
Proof.
  intros Hv Hcap Hcb Hwf. cbv zeta.
  destruct (is_draw op) eqn:Hd; [|destruct op; try discriminate Hd; exact I].
  rewrite (step_draw c st op Hd). cbn [fst snd].
  destruct op as [x y col|sx sy ex ey cs|ps|r cs|r n|r col|col|x|t b|off|t| |]; try discriminate Hd.
  3: { cbn [op_w].
       destruct (decodes_draw_iter c (d_opts st) ps Hv Hcap Hcb) as (nn & (_ & _ & _ & C & _) & Hn & He).
       rewrite C. split; [exact Hn|exact He]. }
  all: destruct (op_decodes c (d_opts st) _ Hv Hcap Hcb Hwf Hd) as (nn & (_ & _ & _ & C & _) & Hn);
    rewrite C; apply Hn; reflexivity.
Qed.

(* C03: batching never needs more address windows than pixel-by-pixel drawing *)
Theorem draw_iter_windows c st (ps : list pixel) :
  valid_cfg c (d_opts st) -> (1 <= c_rowcap c)%nat -> (c_rowcap c <= c_blockcap c)%nat ->
  let t := fst (fst (step c st (PDrawIter ps))) in
  0 <= count_ramwr t <= Z.of_nat (length (filter (in_bbox (d_opts st)) ps)) /\
  (c_batch c = false -> count_ramwr t = Z.of_nat (length (filter (in_bbox (d_opts st)) ps))).
Proof.
  intros Hv Hcap Hcb. cbv zeta.
  rewrite (step_draw c st (PDrawIter ps) eq_refl). cbn [fst snd op_w].
  destruct (decodes_draw_iter c (d_opts st) ps Hv Hcap Hcb) as (nn & (_ & _ & _ & C & _) & Hn & He).
  rewrite C. split; [exact Hn|exact He].
Qed.

(* C08: every drawing call is framed and no burst overruns its window — no controller needed *)
Theorem step_framing c st (op : pop) :
  valid_cfg c (d_opts st) -> (1 <= c_rowcap c)%nat -> (c_rowcap c <= c_blockcap c)%nat ->
  op_wf (d_opts st) op -> is_draw op = true ->
  framing_ok (fst (fst (step c st op))) = true /\ bursts_fit (fst (fst (step c st op))) = true.
Proof.
  intros Hv Hcap Hcb Hwf Hd.
  destruct (op_decodes c (d_opts st) op Hv Hcap Hcb Hwf Hd) as (n & (_ & F & B & _) & _).
  rewrite (step_draw c st op Hd). cbn [fst snd]. split; [exact F|exact B].
Qed.

Theorem exec_framing c ops st k :
  valid_cfg c (d_opts st) -> madctl_ok st -> ctl_matches c (d_opts st) k ->
  (1 <= c_rowcap c)%nat -> (c_rowcap c <= c_blockcap c)%nat -> prog_wf (d_opts st) ops ->
  Forall2 (fun op tr => is_draw op = true -> framing_ok (fst tr) = true /\ bursts_fit (fst tr) = true)
          ops (fst (exec c st ops)) /\
  k_flags (ctl_run k (exec_trace c st ops)) = k_flags k.
Proof.
  intros Hv Hmad Hm Hcap Hcb Hwf.
  pose proof (exec_draw_program c ops st k Hv Hmad Hm Hcap Hcb Hwf) as H. cbv zeta in H.
  destruct H as (_ & _ & F & _ & _ & _ & _ & _ & Hfr). split; [exact Hfr|exact F].
Qed.

(* C04: fill_contiguous places colour k on point k of the requested rectangle *)
Theorem fill_contig_placement c st k (r : rect) (cs : list Z) :
  valid_cfg c (d_opts st) -> madctl_ok st -> ctl_matches c (d_opts st) k ->
  rect_valid r -> rw r * rh r < 2 ^ 32 ->
  let o := d_opts st in
  let t := fst (fst (step c st (PFillContig r cs))) in
  snd (fst (step c st (PFillContig r cs))) = ROk /\
  writes (ctl_run k t) = writes k ++ spec_fill_contig (c_enc c) (panel_of o) (o_orient o) r cs /\
  k_flags (ctl_run k t) = k_flags k /\
  count_ramwr t = (if visible r (fst (lsize o)) (snd (lsize o)) then 1 else 0).
Proof.
  intros Hv Hmad Hm Hr Ha. cbv zeta.
  pose proof (decodes_fill_contig c (d_opts st) r cs Hv Hr Ha) as (R & _ & _ & C & _ & K).
  destruct (K k Hm) as [Hs Hw].
  rewrite (step_draw c st (PFillContig r cs) eq_refl). cbn [fst snd op_w]. rewrite R.
  split; [reflexivity|]. split; [exact Hw|]. split; [exact (same_regs_flags _ _ Hs)|exact C].
Qed.

Print Assumptions step_draw_decode.
Print Assumptions exec_draw_program.
Print Assumptions draw_iter_batch_equiv.
Print Assumptions draw_mode_indep.
Print Assumptions exec_mode_indep.
Print Assumptions mem_last_write_wins.
Print Assumptions oob_discarded.
Print Assumptions zip_rows_clip_colors.
Print Assumptions exec_no_panic.
Print Assumptions exec_confined.
Print Assumptions fill_invisible_silent.
Print Assumptions step_ramwr_count.
Print Assumptions step_framing.
Print Assumptions exec_framing.
Print Assumptions fill_contig_placement.
Print Assumptions draw_iter_windows.
