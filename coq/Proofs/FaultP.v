(* FaultP.v — proofs about the fault model (C12): Model/Display.v `step_faulty` (L1: the k-th Interface
   call fails) and Model/Fault.v `cut_fault` over `trans_events` (L2: the k-th pin / bus operation
   fails).
     1. `step_faulty` logs a prefix ending with the failing call, returns the interface error, never
        panics and leaves the driver state alone;
     2. `cut_fault` logs a prefix of the fault-free pin-level log ending with the failing operation;
        `tag_of` names the source of the failing operation;
     3. the cache annotations of Fault.v carry exactly the operations of the PROVED transport model
        (Model/Parallel.v) and are sound: after every operation the annotated cache satisfies the bus
        invariant with the physical pins;
     4. whichever operation of a call fails, and whether or not the failed write reached the pin, the
        bus invariant holds afterwards, hence every later command-led trace is latched correctly;
     5. a fault-free `clear` afterwards paints the whole configured panel window;
     6. every built-in init program propagates every interface error. *)
Require Import Model.Base Model.Orient Model.Dcs Model.Events Model.Builder Model.Rect Model.Batch
               Model.Display Model.InitLang Model.Spi Model.Parallel Model.Fault.
Require Import Oracle.Spec Oracle.Controller Oracle.DrawSpec Gen.Models.
Require Import Proofs.ParallelP Proofs.SpiP Proofs.WindowP Proofs.DrawP Proofs.ClipP Proofs.OrientStateP
               Proofs.ProgramP Proofs.InitP.
Open Scope list_scope.
Open Scope Z_scope.

(* ============================================================================================== *)
(* 1. L1: cut_at / step_faulty                                                                    *)
(* ============================================================================================== *)

Lemma cut_at_some : forall (t : list event) (k : nat) (t' : list event),
  cut_at k t = Some t' ->
  (exists rest, t = t' ++ rest) /\
  (exists pre e, t' = pre ++ [e] /\ fallible e = true) /\
  List.length (filter fallible t') = S k.
Proof.
  induction t as [|e t IH]; intros k t' H; cbn [cut_at] in H; [discriminate H|].
  destruct (fallible e) eqn:Ef.
  - destruct k as [|k'].
    + injection H as <-. split; [exists t; reflexivity|].
      split; [exists [], e; split; [reflexivity | exact Ef]|].
      cbn [filter]. rewrite Ef. reflexivity.
    + destruct (cut_at k' t) as [u|] eqn:Eu; [|discriminate H]. cbn [option_map] in H. injection H as <-.
      destruct (IH k' u Eu) as ((rest & Hr) & (pre & x & Hp & Hx) & Hc).
      split; [exists rest; rewrite Hr; reflexivity|].
      split; [exists (e :: pre), x; split; [rewrite Hp; reflexivity | exact Hx]|].
      cbn [filter]. rewrite Ef. cbn [List.length]. rewrite Hc. reflexivity.
  - destruct (cut_at k t) as [u|] eqn:Eu; [|discriminate H]. cbn [option_map] in H. injection H as <-.
    destruct (IH k u Eu) as ((rest & Hr) & (pre & x & Hp & Hx) & Hc).
    split; [exists rest; rewrite Hr; reflexivity|].
    split; [exists (e :: pre), x; split; [rewrite Hp; reflexivity | exact Hx]|].
    cbn [filter]. rewrite Ef. exact Hc.
Qed.

Lemma cut_at_none_iff : forall (t : list event) (k : nat),
  cut_at k t = None <-> (List.length (filter fallible t) <= k)%nat.
Proof.
  induction t as [|e t IH]; intros k; cbn [cut_at filter].
  - cbn [List.length]. split; [intros _; lia | reflexivity].
  - destruct (fallible e) eqn:Ef.
    + destruct k as [|k']; cbn [List.length].
      * split; [intros H; discriminate H | intros H; lia].
      * specialize (IH k'). destruct (cut_at k' t) as [u|]; cbn [option_map].
        -- split; [intros H; discriminate H|]. intros H.
           assert (Hle : (List.length (filter fallible t) <= k')%nat) by lia.
           apply IH in Hle. discriminate Hle.
        -- split; [|reflexivity]. intros _. pose proof (proj1 IH eq_refl) as Hle. lia.
    + specialize (IH k). destruct (cut_at k t) as [u|]; cbn [option_map].
      * split; [intros H; discriminate H|]. intros H. apply IH in H. discriminate H.
      * split; [|reflexivity]. intros _. exact (proj1 IH eq_refl).
Qed.

(* the contract of a faulted call at L1 *)
Theorem step_faulty_spec : forall (c : ctx) (st : dstate) (op : pop) (k : nat)
                                  (t : list event) (r : res) (st' : dstate),
  step c st op = (t, r, st') ->
  (cut_at k t = None ->
     step_faulty c k st op = (t, r, st') /\ (List.length (filter fallible t) <= k)%nat) /\
  (cut_at k t <> None ->
     exists t', cut_at k t = Some t' /\
       step_faulty c k st op = (t', RErr (EIf IfRec), st) /\
       (exists rest, t = t' ++ rest) /\
       (exists pre e, t' = pre ++ [e] /\ fallible e = true) /\
       List.length (filter fallible t') = S k /\
       snd (fst (step_faulty c k st op)) <> RPanic /\
       snd (step_faulty c k st op) = st).
Proof.
  intros c st op k t r st' Hstep. unfold step_faulty. rewrite Hstep. split.
  - intros Hn. rewrite Hn. split; [reflexivity | apply cut_at_none_iff; exact Hn].
  - intros Hs. destruct (cut_at k t) as [t'|] eqn:Ec; [|contradiction].
    destruct (cut_at_some t k t' Ec) as (Hpre & Hlast & Hcount).
    exists t'. split; [reflexivity|]. split; [reflexivity|]. split; [exact Hpre|].
    split; [exact Hlast|]. split; [exact Hcount|]. cbn [fst snd]. split; [discriminate | reflexivity].
Qed.

(* a faulted call exists exactly when the call has more than k fallible Interface calls *)
Corollary step_faulty_fires : forall (c : ctx) (st : dstate) (op : pop) (k : nat),
  (k < List.length (filter fallible (fst (fst (step c st op)))))%nat <->
  cut_at k (fst (fst (step c st op))) <> None.
Proof.
  intros c st op k. rewrite cut_at_none_iff. lia.
Qed.

(* ============================================================================================== *)
(* 2. L2: nth_fallible / cut_fault / tag_of                                                       *)
(* ============================================================================================== *)

Lemma nth_fallible_shift : forall (l : list (l2op * tstate)) (k i : nat),
  nth_fallible k (S i) l = option_map S (nth_fallible k i l).
Proof.
  induction l as [|[o s] l IH]; intros k i; cbn [nth_fallible]; [reflexivity|].
  destruct (fallible2 o); [destruct k as [|k']; [reflexivity | apply IH] | apply IH].
Qed.

Lemma nth_fallible_cons (o : l2op) (s : tstate) (l : list (l2op * tstate)) (k : nat) :
  nth_fallible k 0 ((o, s) :: l) =
  if fallible2 o then match k with O => Some O | S k' => option_map S (nth_fallible k' 0 l) end
  else option_map S (nth_fallible k 0 l).
Proof.
  cbn [nth_fallible]. destruct (fallible2 o); [destruct k as [|k']|]; rewrite ?nth_fallible_shift; reflexivity.
Qed.

Lemma nth_fallible_some : forall (l : list (l2op * tstate)) (k i : nat) (d : l2op * tstate),
  nth_fallible k 0 l = Some i ->
  (i < List.length l)%nat /\ fallible2 (fst (nth i l d)) = true /\
  List.length (filter fallible2 (map fst (firstn (S i) l))) = S k.
Proof.
  induction l as [|[o s] l IH]; intros k i d H; [discriminate H|].
  rewrite nth_fallible_cons in H. destruct (fallible2 o) eqn:Ef.
  - destruct k as [|k'].
    + injection H as <-. cbn [List.length nth fst firstn map filter]. rewrite Ef.
      split; [lia|]. split; reflexivity.
    + destruct (nth_fallible k' 0 l) as [j|] eqn:Ej; [|discriminate H]. cbn [option_map] in H. injection H as <-.
      destruct (IH k' j d Ej) as (Hlt & Hf & Hc).
      cbn [List.length nth]. split; [lia|]. split; [exact Hf|].
      change (firstn (S (S j)) ((o, s) :: l)) with ((o, s) :: firstn (S j) l).
      cbn [map fst filter]. rewrite Ef. cbn [List.length]. rewrite Hc. reflexivity.
  - destruct (nth_fallible k 0 l) as [j|] eqn:Ej; [|discriminate H]. cbn [option_map] in H. injection H as <-.
    destruct (IH k j d Ej) as (Hlt & Hf & Hc).
    cbn [List.length nth]. split; [lia|]. split; [exact Hf|].
    change (firstn (S (S j)) ((o, s) :: l)) with ((o, s) :: firstn (S j) l).
    cbn [map fst filter]. rewrite Ef. exact Hc.
Qed.

Lemma nth_fallible_none : forall (l : list (l2op * tstate)) (k : nat),
  nth_fallible k 0 l = None -> (List.length (filter fallible2 (map fst l)) <= k)%nat.
Proof.
  induction l as [|[o s] l IH]; intros k H; [cbn; lia|].
  rewrite nth_fallible_cons in H. cbn [map fst filter]. destruct (fallible2 o) eqn:Ef.
  - destruct k as [|k']; [discriminate H|].
    destruct (nth_fallible k' 0 l) as [j|] eqn:Ej; [discriminate H|].
    pose proof (IH k' Ej) as Hle. cbn [List.length]. lia.
  - destruct (nth_fallible k 0 l) as [j|] eqn:Ej; [discriminate H|]. exact (IH k Ej).
Qed.

Lemma last_map_firstn {A B} (f : A -> B) : forall (l : list A) (i : nat) (d : A) (d' : B),
  (i < List.length l)%nat -> last (map f (firstn (S i) l)) d' = f (nth i l d).
Proof.
  induction l as [|a l IH]; intros i d d' Hi; cbn [List.length] in Hi; [lia|].
  destruct i as [|i].
  - destruct l; reflexivity.
  - destruct l as [|b l]; [cbn [List.length] in Hi; lia|].
    change (firstn (S (S i)) (a :: b :: l)) with (a :: firstn (S i) (b :: l)).
    change (nth (S i) (a :: b :: l) d) with (nth i (b :: l) d).
    rewrite <- (IH i d d') by (cbn [List.length] in *; lia).
    reflexivity.
Qed.

Lemma removelast_map_firstn {A B} (f : A -> B) : forall (l : list A) (i : nat),
  (i < List.length l)%nat -> removelast (map f (firstn (S i) l)) = map f (firstn i l).
Proof.
  induction l as [|a l IH]; intros i Hi; cbn [List.length] in Hi; [lia|].
  destruct i as [|i].
  - destruct l; reflexivity.
  - destruct l as [|b l]; [cbn [List.length] in Hi; lia|].
    change (firstn (S (S i)) (a :: b :: l)) with (a :: firstn (S i) (b :: l)).
    change (firstn (S i) (a :: b :: l)) with (a :: firstn i (b :: l)).
    cbn [map]. rewrite <- (IH i) by (cbn [List.length] in *; lia).
    change (firstn (S i) (b :: l)) with (b :: firstn i l). reflexivity.
Qed.

(* the contract of a faulted call at L2 *)
Theorem cut_fault_spec : forall (k : Z) (ts0 : tstate) (an : list (l2op * tstate)),
  (forall l failing tsf, cut_fault k ts0 an = Some (l, failing, tsf) ->
     0 <= k /\
     (exists rest, map fst an = l ++ rest) /\
     last l (OWr true) = failing /\
     fallible2 failing = true /\
     List.length (filter fallible2 l) = S (Z.to_nat k)) /\
  (cut_fault k ts0 an = None -> 0 <= k ->
     (List.length (filter fallible2 (map fst an)) <= Z.to_nat k)%nat).
Proof.
  intros k ts0 an. unfold cut_fault. destruct (Z.ltb_spec k 0) as [Hneg|Hpos].
  - split; [intros l failing tsf H; discriminate H | intros _ H; lia].
  - destruct (nth_fallible (Z.to_nat k) 0 an) as [i|] eqn:Ei.
    + split; [|intros H; discriminate H].
      intros l failing tsf H. injection H as <- <- _.
      destruct (nth_fallible_some an (Z.to_nat k) i (OWr true, ts0) Ei) as (Hlt & Hf & Hc).
      split; [exact Hpos|].
      split; [exists (map fst (skipn (S i) an)); rewrite <- map_app; apply (f_equal (map fst)); symmetry; exact (firstn_skipn (S i) an)|].
      split; [apply last_map_firstn; exact Hlt|]. split; [exact Hf | exact Hc].
    + split; [intros l failing tsf H; discriminate H|]. intros _ _. apply nth_fallible_none. exact Ei.
Qed.

(* the error variant names the source of the failing operation *)
Lemma tag_of_names_source :
  (forall n buf b, tag_of (ODc b) (TSpi n buf) = SpiDc) /\
  (forall n buf o, (forall b, o <> ODc b) -> tag_of o (TSpi n buf) = SpiSpi) /\
  (forall w last i b, tag_of (OPin i b) (TPar w last) = ParBus) /\
  (forall w last b, tag_of (ODc b) (TPar w last) = ParDc) /\
  (forall w last b, tag_of (OWr b) (TPar w last) = ParWr).
Proof.
  split; [reflexivity|]. split; [|split; [reflexivity|split; reflexivity]].
  intros n buf o Ho. destruct o as [b| | | | |]; try reflexivity. exfalso. exact (Ho b eq_refl).
Qed.

(* ============================================================================================== *)
(* 3. the annotations carry the operations of the proved transport model                          *)
(* ============================================================================================== *)

Lemma map_fst_combine {A B} : forall (a : list A) (b : list B),
  (List.length a <= List.length b)%nat -> map fst (combine a b) = a.
Proof.
  induction a as [|x a IH]; intros b H; [reflexivity|].
  destruct b as [|y b]; cbn [List.length] in H; [lia|].
  cbn [combine map fst]. rewrite IH by lia. reflexivity.
Qed.

Lemma annot_word_ops (w : nat) (last : option Z) (x : Z) :
  map fst (fst (annot_word w last x)) = fst (par_send_word w last x) /\
  snd (annot_word w last x) = snd (par_send_word w last x).
Proof.
  unfold annot_word, par_send_word. destruct (bus_set_value w last x) as [pins l1]. cbn [fst snd map].
  split; [|reflexivity]. rewrite map_app, map_fst_combine; [reflexivity|].
  rewrite app_length, repeat_length. cbn [List.length]. lia.
Qed.

Lemma annot_words_ops (w : nat) : forall (ws : list Z) (last : option Z),
  map fst (fst (annot_words w last ws)) = fst (par_send_words w last ws) /\
  snd (annot_words w last ws) = snd (par_send_words w last ws).
Proof.
  induction ws as [|x r IH]; intros last; cbn [annot_words par_send_words]; [split; reflexivity|].
  destruct (annot_word_ops w last x) as [H1 H2].
  destruct (annot_word w last x) as [a1 l1]. destruct (par_send_word w last x) as [o1 l1'].
  cbn [fst snd] in H1, H2. subst l1'.
  destruct (IH l1) as [I1 I2].
  destruct (annot_words w l1 r) as [a2 l2]. destruct (par_send_words w l1 r) as [o2 l2'].
  cbn [fst snd] in I1, I2 |- *. subst l2'. rewrite map_app, H1, I1. split; reflexivity.
Qed.

(* on the fixed tree every Interface call of the parallel transport completes (pins are infallible in
   the fault-free model), and its operations / final cache are those of the annotation *)
Theorem annot_event_ops : forall (md : mode) (w : nat) (last : option Z) (e : event),
  par_event true md w last e =
  (map fst (fst (annot_event w last e)), snd (annot_event w last e), Ok tt).
Proof.
  intros md w last e. destruct e as [op args|px|p c|ns| |]; cbn [par_event annot_event]; try reflexivity.
  - unfold par_send_command.
    destruct (annot_word_ops w last op) as [H1 H2].
    destruct (annot_word w last op) as [a1 l1]. destruct (par_send_word w last op) as [o1 l1'].
    cbn [fst snd] in H1, H2. subst l1'.
    destruct (annot_words_ops w args l1) as [I1 I2].
    destruct (annot_words w l1 args) as [a2 l2]. destruct (par_send_words w l1 args) as [o2 l2'].
    cbn [fst snd] in I1, I2 |- *. subst l2'.
    cbn [map fst]. rewrite map_app. cbn [map fst]. rewrite H1, I1. reflexivity.
  - unfold par_send_pixels.
    destruct (annot_words_ops w (concat px) last) as [I1 I2].
    destruct (annot_words w last (concat px)) as [a2 l2]. destruct (par_send_words w last (concat px)) as [o2 l2'].
    cbn [fst snd] in I1, I2 |- *. subst l2'. rewrite I1. reflexivity.
  - unfold par_send_repeated. cbv zeta.
    destruct ((c =? 0) || (Z.of_nat (List.length p) =? 0)); [reflexivity|].
    destruct (is_same p) as [x|].
    + destruct (annot_word_ops w last x) as [H1 H2].
      destruct (annot_word w last x) as [a1 l1]. destruct (par_send_word w last x) as [o1 l1'].
      cbn [fst snd] in H1, H2 |- *. subst l1'.
      rewrite map_app, map_map, H1. cbn [fst]. rewrite map_id. reflexivity.
    + unfold par_send_pixels. rewrite concat_repeat_single.
      destruct (annot_words_ops w (concat (repeat p (Z.to_nat c))) last) as [I1 I2].
      destruct (annot_words w last (concat (repeat p (Z.to_nat c)))) as [a2 l2].
      destruct (par_send_words w last (concat (repeat p (Z.to_nat c)))) as [o2 l2'].
      cbn [fst snd] in I1, I2 |- *. subst l2'. rewrite I1. reflexivity.
Qed.

(* the form asked for: whenever the proved model completes the call *)
Corollary annot_event_ops_ok : forall (md : mode) (w : nat) (last : option Z) (e : event)
                                      (ops : list l2op) (l' : option Z),
  par_event true md w last e = (ops, l', Ok tt) ->
  map fst (fst (annot_event w last e)) = ops /\ snd (annot_event w last e) = l'.
Proof.
  intros md w last e ops l' H. rewrite annot_event_ops in H. injection H as <- <-. split; reflexivity.
Qed.

Lemma l2op_eqb_refl (o : l2op) : l2op_eqb o o = true.
Proof.
  destruct o as [b|bs|i b|b|b|n]; cbn [l2op_eqb]; rewrite ?eqb_reflx, ?Z.eqb_refl; try reflexivity.
  apply zlist_eqb_eq. reflexivity.
Qed.

Lemma l2ops_eqb_refl (l : list l2op) : l2ops_eqb l l = true.
Proof.
  unfold l2ops_eqb. induction l as [|o l IH]; cbn [list_eqb]; [reflexivity|].
  rewrite l2op_eqb_refl, IH. reflexivity.
Qed.

(* annotation of a whole call *)
Fixpoint annot_events (w : nat) (last : option Z) (t : list event) : list (l2op * option Z) * option Z :=
  match t with
  | [] => ([], last)
  | e :: r => let '(a1, l1) := annot_event w last e in
              let '(a2, l2) := annot_events w l1 r in (a1 ++ a2, l2)
  end.

Definition lift (w : nat) (x : l2op * option Z) : l2op * tstate := (fst x, TPar w (snd x)).

Lemma map_fst_lift (w : nat) (an : list (l2op * option Z)) : map fst (map (lift w) an) = map fst an.
Proof. rewrite map_map. reflexivity. Qed.

(* the `sane` flag of trans_event is always true on the parallel transport ... *)
Theorem trans_event_par : forall (md : mode) (w : nat) (last : option Z) (e : event),
  trans_event md (TPar w last) e =
  (map (lift w) (fst (annot_event w last e)), TPar w (snd (annot_event w last e)), Ok tt, true).
Proof.
  intros md w last e. unfold trans_event. rewrite annot_event_ops.
  destruct (annot_event w last e) as [an l2]. cbn [fst snd]. rewrite l2ops_eqb_refl. reflexivity.
Qed.

(* ... and over whole calls *)
Theorem trans_events_par : forall (md : mode) (w : nat) (t : list event) (last : option Z),
  trans_events md (TPar w last) t =
  (map (lift w) (fst (annot_events w last t)), TPar w (snd (annot_events w last t)), Ok tt, true).
Proof.
  intros md w t. induction t as [|e r IH]; intros last; cbn [trans_events annot_events]; [reflexivity|].
  rewrite trans_event_par. destruct (annot_event w last e) as [a1 l1]. cbn [fst snd].
  rewrite IH. destruct (annot_events w l1 r) as [a2 l2]. cbn [fst snd].
  rewrite map_app. reflexivity.
Qed.

Lemma annot_events_ops : forall (md : mode) (w : nat) (t : list event) (last : option Z),
  par_run true md w last t =
  (map fst (fst (annot_events w last t)), snd (annot_events w last t), Ok tt).
Proof.
  intros md w t. induction t as [|e r IH]; intros last; cbn [par_run annot_events]; [reflexivity|].
  rewrite annot_event_ops. destruct (annot_event w last e) as [a1 l1]. cbn [fst snd].
  rewrite IH. destruct (annot_events w l1 r) as [a2 l2]. cbn [fst snd]. rewrite map_app. reflexivity.
Qed.

(* the annotations are syntactically what the comment of Fault.v says: the cache on entry, None (inside
   set_value), or Some x for a word x of this very call *)
Definition event_words (e : event) : list Z :=
  match e with ECmd op args => op :: args | EPixels px => concat px | ERepeat p _ => p | _ => [] end.

Definition cache_val (last : option Z) (ws : list Z) (c : option Z) : Prop :=
  c = last \/ c = None \/ exists x, In x ws /\ c = Some x.

Lemma cache_val_mono (last : option Z) (ws ws' : list Z) (c : option Z) :
  (forall x, In x ws -> In x ws') -> cache_val last ws c -> cache_val last ws' c.
Proof.
  intros Hsub [H|[H|(x & Hx & H)]]; [left; exact H | right; left; exact H|].
  right; right. exists x. split; [apply Hsub; exact Hx | exact H].
Qed.

Lemma cache_val_trans (last l1 : option Z) (ws : list Z) (c : option Z) :
  cache_val last ws l1 -> cache_val l1 ws c -> cache_val last ws c.
Proof.
  intros H1 [H|[H|H]]; [subst c; exact H1 | right; left; exact H | right; right; exact H].
Qed.

Lemma annot_word_values (w : nat) (last : option Z) (x : Z) :
  Forall (fun oc => cache_val last [x] (snd oc)) (fst (annot_word w last x)) /\
  cache_val last [x] (snd (annot_word w last x)).
Proof.
  unfold annot_word.
  assert (Hl1 : cache_val last [x] (snd (bus_set_value w last x))).
  { unfold bus_set_value. destruct last as [old|]; [destruct (old =? x)|]; cbn [snd];
      try (left; reflexivity); right; right; exists x; split; [left; reflexivity | reflexivity | left; reflexivity | reflexivity]. }
  destruct (bus_set_value w last x) as [pins l1]. cbn [fst snd] in Hl1 |- *.
  split; [|exact Hl1].
  constructor; [left; reflexivity|]. apply Forall_app. split; [|constructor; [exact Hl1 | constructor]].
  apply Forall_forall. intros [o c] Hin. apply in_combine_r in Hin. cbn [snd].
  apply in_app_or in Hin. destruct Hin as [Hin|[<-|[]]]; [|exact Hl1].
  apply repeat_spec in Hin. right; left. exact Hin.
Qed.

Lemma annot_words_values (w : nat) : forall (ws : list Z) (last : option Z),
  Forall (fun oc => cache_val last ws (snd oc)) (fst (annot_words w last ws)) /\
  cache_val last ws (snd (annot_words w last ws)).
Proof.
  induction ws as [|x r IH]; intros last; cbn [annot_words].
  - cbn [fst snd]. split; [constructor | left; reflexivity].
  - destruct (annot_word_values w last x) as [A1 B1].
    destruct (annot_word w last x) as [a1 l1]. cbn [fst snd] in A1, B1.
    destruct (IH l1) as [A2 B2].
    destruct (annot_words w l1 r) as [a2 l2]. cbn [fst snd] in A2, B2 |- *.
    assert (B1' : cache_val last (x :: r) l1).
    { apply (cache_val_mono last [x]); [|exact B1]. intros y [<-|[]]. left. reflexivity. }
    assert (Hlift : forall c, cache_val l1 r c -> cache_val last (x :: r) c).
    { intros c Hc. apply (cache_val_trans last l1); [exact B1'|].
      apply (cache_val_mono l1 r); [|exact Hc]. intros y Hy. right. exact Hy. }
    split; [|apply Hlift; exact B2].
    apply Forall_app. split.
    + apply Forall_forall. intros oc Hoc. rewrite Forall_forall in A1.
      apply (cache_val_mono last [x]); [|exact (A1 oc Hoc)]. intros y [<-|[]]. left. reflexivity.
    + apply Forall_forall. intros oc Hoc. rewrite Forall_forall in A2. apply Hlift. exact (A2 oc Hoc).
Qed.

Lemma is_same_in (p : list Z) (x : Z) : is_same p = Some x -> In x p.
Proof.
  destruct p as [|a r]; cbn [is_same]; [discriminate|].
  destruct (forallb (Z.eqb a) r); [|discriminate]. intros H. injection H as <-. left. reflexivity.
Qed.

Theorem annot_cache_values : forall (w : nat) (last : option Z) (e : event),
  Forall (fun oc => cache_val last (event_words e) (snd oc)) (fst (annot_event w last e)) /\
  cache_val last (event_words e) (snd (annot_event w last e)).
Proof.
  intros w last e. destruct e as [op args|px|p c|ns| |]; cbn [annot_event event_words].
  - destruct (annot_word_values w last op) as [A1 B1].
    destruct (annot_word w last op) as [a1 l1]. cbn [fst snd] in A1, B1.
    destruct (annot_words_values w args l1) as [A2 B2].
    destruct (annot_words w l1 args) as [a2 l2]. cbn [fst snd] in A2, B2 |- *.
    assert (B1' : cache_val last (op :: args) l1).
    { apply (cache_val_mono last [op]); [|exact B1]. intros y [<-|[]]. left. reflexivity. }
    assert (Hlift : forall c, cache_val l1 args c -> cache_val last (op :: args) c).
    { intros c Hc. apply (cache_val_trans last l1); [exact B1'|].
      apply (cache_val_mono l1 args); [|exact Hc]. intros y Hy. right. exact Hy. }
    split; [|apply Hlift; exact B2].
    constructor; [left; reflexivity|]. apply Forall_app. split.
    + apply Forall_forall. intros oc Hoc. rewrite Forall_forall in A1.
      apply (cache_val_mono last [op]); [|exact (A1 oc Hoc)]. intros y [<-|[]]. left. reflexivity.
    + constructor; [exact B1'|].
      apply Forall_forall. intros oc Hoc. rewrite Forall_forall in A2. apply Hlift. exact (A2 oc Hoc).
  - apply annot_words_values.
  - destruct ((c =? 0) || (Z.of_nat (List.length p) =? 0)).
    { cbn [fst snd]. split; [constructor | left; reflexivity]. }
    destruct (is_same p) as [x|] eqn:Es.
    + destruct (annot_word_values w last x) as [A1 B1].
      destruct (annot_word w last x) as [a1 l1]. cbn [fst snd] in A1, B1 |- *.
      assert (Hsub : forall y, In y [x] -> In y p).
      { intros y [<-|[]]. apply is_same_in. exact Es. }
      split; [|exact (cache_val_mono last [x] p l1 Hsub B1)].
      apply Forall_app. split.
      * apply Forall_forall. intros oc Hoc. rewrite Forall_forall in A1.
        exact (cache_val_mono last [x] p _ Hsub (A1 oc Hoc)).
      * apply Forall_forall. intros oc Hoc. apply in_map_iff in Hoc. destruct Hoc as (o & <- & _).
        cbn [snd]. exact (cache_val_mono last [x] p l1 Hsub B1).
    + assert (Hsub : forall y, In y (concat (repeat p (Z.to_nat c))) -> In y p).
      { intros y Hy. apply in_concat in Hy. destruct Hy as (q & Hq & Hy).
        apply repeat_spec in Hq. subst q. exact Hy. }
      destruct (annot_words_values w (concat (repeat p (Z.to_nat c))) last) as [A B].
      split; [|exact (cache_val_mono last _ p _ Hsub B)].
      apply Forall_forall. intros oc Hoc. rewrite Forall_forall in A.
      exact (cache_val_mono last _ p _ Hsub (A oc Hoc)).
  - cbn [fst snd]. split; [constructor; [left; reflexivity | constructor] | left; reflexivity].
  - cbn [fst snd]. split; [constructor; [left; reflexivity | constructor] | left; reflexivity].
  - cbn [fst snd]. split; [constructor; [left; reflexivity | constructor] | left; reflexivity].
Qed.

(* ============================================================================================== *)
(* 4. soundness of the cache annotations; the bus invariant survives every fault                  *)
(* ============================================================================================== *)

(* after every operation of the list, the annotated cache and the physical pins satisfy the bus
   invariant: the annotation is either None or Some x where the pins show x — x is the word of the
   last COMPLETED set_value, and no pin has moved since *)
Fixpoint ann_inv (w : nat) (st : lines) (an : list (l2op * option Z)) : Prop :=
  match an with
  | [] => True
  | (o, c) :: r => bus_inv w (c, l_pins (line_step st o)) /\ ann_inv w (line_step st o) r
  end.

Definition nonpin (o : l2op) : bool := match o with OPin _ _ => false | _ => true end.

Lemma line_step_nonpin (st : lines) (o : l2op) : nonpin o = true -> l_pins (line_step st o) = l_pins st.
Proof. destruct o; intros H; try discriminate H; reflexivity. Qed.

Lemma bus_inv_none (w : nat) (pins : list bool) : List.length pins = w -> bus_inv w (None, pins).
Proof. intros H. split; [exact H | exact I]. Qed.

Lemma bus_inv_length (w : nat) (c : option Z) (pins : list bool) : bus_inv w (c, pins) -> List.length pins = w.
Proof. intros [H _]. exact H. Qed.

Lemma ann_inv_app (w : nat) : forall (a b : list (l2op * option Z)) (st : lines),
  ann_inv w st (a ++ b) <-> ann_inv w st a /\ ann_inv w (lines_after st (map fst a)) b.
Proof.
  induction a as [|[o c] a IH]; intros b st; cbn [app ann_inv map fst].
  - rewrite lines_after_nil. tauto.
  - rewrite lines_after_cons, IH. tauto.
Qed.

(* operations that touch no data pin keep the invariant *)
Lemma ann_inv_const (w : nat) (c : option Z) : forall (ops : list l2op) (st : lines),
  forallb nonpin ops = true -> bus_inv w (c, l_pins st) ->
  ann_inv w st (map (fun o => (o, c)) ops) /\ l_pins (lines_after st ops) = l_pins st.
Proof.
  induction ops as [|o ops IH]; intros st Hall Hinv; cbn [map ann_inv].
  - rewrite lines_after_nil. split; [exact I | reflexivity].
  - cbn [forallb] in Hall. apply andb_true_iff in Hall. destruct Hall as [Ho Hall].
    pose proof (line_step_nonpin st o Ho) as Ep.
    assert (Hinv' : bus_inv w (c, l_pins (line_step st o))) by (rewrite Ep; exact Hinv).
    destruct (IH (line_step st o) Hall Hinv') as [I1 I2].
    rewrite lines_after_cons. split; [split; [exact Hinv' | exact I1]|]. rewrite I2. exact Ep.
Qed.

Lemma strobes_nonpin (n : Z) : forallb nonpin (strobes n) = true.
Proof.
  unfold strobes. induction (Z.to_nat n) as [|k IH]; cbn [repeat concat app forallb nonpin andb]; [reflexivity | exact IH].
Qed.

(* inside set_value: None while pins are being written, the new cache with the last pin *)
Lemma ann_inv_pins (w : nat) (c : option Z) : forall (pins : list l2op) (st : lines),
  List.length (l_pins st) = w ->
  (pins <> [] -> bus_inv w (c, l_pins (lines_after st pins))) ->
  ann_inv w st (combine pins (repeat None (List.length pins - 1) ++ [c])).
Proof.
  induction pins as [|p r IH]; intros st Hlen Hfin; [exact I|].
  destruct r as [|q r'].
  - cbn [List.length Nat.sub repeat app combine ann_inv]. split; [|exact I].
    apply Hfin. discriminate.
  - replace (List.length (p :: q :: r') - 1)%nat with (S (List.length (q :: r') - 1)) by (cbn [List.length]; lia).
    cbn [repeat app combine ann_inv]. split.
    + apply bus_inv_none. rewrite line_step_length. exact Hlen.
    + apply IH; [rewrite line_step_length; exact Hlen|]. intros _. apply Hfin. discriminate.
Qed.

(* one word *)
Lemma annot_word_inv (w : nat) (last : option Z) (x : Z) (st : lines) :
  bus_inv w (last, l_pins st) -> 0 <= x < 2 ^ Z.of_nat w ->
  ann_inv w st (fst (annot_word w last x)) /\
  bus_inv w (snd (annot_word w last x), l_pins (lines_after st (map fst (fst (annot_word w last x))))).
Proof.
  intros Hinv Hx.
  assert (Hpost : bus_inv w (snd (annot_word w last x), l_pins (lines_after st (map fst (fst (annot_word w last x)))))).
  { destruct (annot_word_ops w last x) as [E1 E2]. rewrite E1, E2.
    destruct (par_send_word w last x) as [ops l'] eqn:E.
    destruct (par_send_word_lines w last x st ops l' Hinv Hx E) as (_ & I1 & _). exact I1. }
  split; [|exact Hpost].
  unfold annot_word in *.
  pose proof (bus_set_value_lines w last x (line_step st (OWr false)) Hinv Hx) as Hb.
  destruct (bus_set_value w last x) as [pins l1]. cbn [fst snd] in Hb |- *.
  destruct Hb as (El1 & Hdv & Hlen & _). subst l1.
  set (st0 := line_step st (OWr false)) in *.
  assert (Hfin : bus_inv w (Some x, l_pins (lines_after st0 pins))).
  { split; cbn [fst snd]; [exact Hlen | split; [exact Hdv | exact Hx]]. }
  cbn [ann_inv]. fold st0. split; [exact Hinv|].
  apply ann_inv_app. split.
  - destruct pins as [|p r].
    + exact I.
    + apply ann_inv_pins; [exact (bus_inv_length w last _ Hinv) | intros _; exact Hfin].
  - rewrite map_fst_combine by (rewrite app_length, repeat_length; cbn [List.length]; lia).
    cbn [ann_inv]. split; [exact Hfin | exact I].
Qed.

Lemma annot_words_inv (w : nat) : forall (ws : list Z) (last : option Z) (st : lines),
  bus_inv w (last, l_pins st) -> Forall (fun x => 0 <= x < 2 ^ Z.of_nat w) ws ->
  ann_inv w st (fst (annot_words w last ws)) /\
  bus_inv w (snd (annot_words w last ws), l_pins (lines_after st (map fst (fst (annot_words w last ws))))).
Proof.
  induction ws as [|x r IH]; intros last st Hinv Hall; cbn [annot_words].
  - cbn [fst snd map ann_inv]. rewrite lines_after_nil. split; [exact I | exact Hinv].
  - inversion Hall as [|x' r' Hx Hr]; subst.
    destruct (annot_word_inv w last x st Hinv Hx) as [A1 B1].
    destruct (annot_word w last x) as [a1 l1]. cbn [fst snd] in A1, B1.
    destruct (IH l1 (lines_after st (map fst a1)) B1 Hr) as [A2 B2].
    destruct (annot_words w l1 r) as [a2 l2]. cbn [fst snd] in A2, B2 |- *.
    split; [apply ann_inv_app; split; assumption|].
    rewrite map_app, lines_after_app. exact B2.
Qed.

Lemma Forall_range_256 (w : nat) (args : list Z) :
  (8 <= w)%nat -> Forall (fun a => 0 <= a < 256) args -> Forall (fun x => 0 <= x < 2 ^ Z.of_nat w) args.
Proof.
  intros Hw H. apply Forall_forall. intros a Ha. apply range_256; [exact Hw|].
  rewrite Forall_forall in H. apply H, Ha.
Qed.

Lemma Forall_concat_repeat {A} (P : A -> Prop) (p : list A) (n : nat) :
  Forall P p -> Forall P (concat (repeat p n)).
Proof.
  intros H. induction n as [|n IH]; cbn [repeat concat]; [constructor|].
  apply Forall_app. split; assumption.
Qed.

(* annotation soundness for one Interface call (any event, pixel words arbitrary but in range) *)
Theorem annot_cache_sound : forall (w : nat) (last : option Z) (e : event) (st : lines),
  (8 <= w)%nat -> words_in_range w e -> bus_inv w (last, l_pins st) ->
  ann_inv w st (fst (annot_event w last e)) /\
  bus_inv w (snd (annot_event w last e), l_pins (lines_after st (map fst (fst (annot_event w last e))))).
Proof.
  intros w last e st Hw He Hinv.
  destruct e as [op args|px|p c|ns| |]; cbn [annot_event words_in_range] in *.
  - destruct He as [Hop Hargs].
    pose proof (range_256 w op Hw Hop) as Hop'. pose proof (Forall_range_256 w args Hw Hargs) as Hargs'.
    set (st0 := line_step st (ODc false)).
    assert (Hinv0 : bus_inv w (last, l_pins st0)) by exact Hinv.
    destruct (annot_word_inv w last op st0 Hinv0 Hop') as [A1 B1].
    destruct (annot_word w last op) as [a1 l1]. cbn [fst snd] in A1, B1.
    set (st1 := lines_after st0 (map fst a1)) in *.
    set (st2 := line_step st1 (ODc true)).
    assert (Hinv2 : bus_inv w (l1, l_pins st2)) by exact B1.
    destruct (annot_words_inv w args l1 st2 Hinv2 Hargs') as [A2 B2].
    destruct (annot_words w l1 args) as [a2 l2]. cbn [fst snd] in A2, B2 |- *.
    split.
    + cbn [ann_inv]. fold st0. split; [exact Hinv0|].
      apply ann_inv_app. split; [exact A1|]. fold st1. cbn [ann_inv]. fold st2. split; [exact Hinv2 | exact A2].
    + cbn [map fst]. rewrite lines_after_cons. fold st0. rewrite map_app, lines_after_app. fold st1.
      cbn [map fst]. rewrite lines_after_cons. fold st2. exact B2.
  - apply annot_words_inv; [exact Hinv | apply Forall_concat; exact He].
  - destruct He as [Hp Hc].
    destruct ((c =? 0) || (Z.of_nat (List.length p) =? 0)).
    { cbn [fst snd map ann_inv]. rewrite lines_after_nil. split; [exact I | exact Hinv]. }
    destruct (is_same p) as [x|] eqn:Es.
    + assert (Hx : 0 <= x < 2 ^ Z.of_nat w).
      { rewrite Forall_forall in Hp. apply Hp. apply is_same_in. exact Es. }
      destruct (annot_word_inv w last x st Hinv Hx) as [A1 B1].
      destruct (annot_word w last x) as [a1 l1]. cbn [fst snd] in A1, B1 |- *.
      destruct (ann_inv_const w l1 (strobes (c * Z.of_nat (List.length p) - 1)) (lines_after st (map fst a1))
                  (strobes_nonpin _) B1) as [A2 B2].
      split; [apply ann_inv_app; split; assumption|].
      rewrite map_app, lines_after_app, map_map. cbn [fst]. rewrite map_id, B2. exact B1.
    + apply annot_words_inv; [exact Hinv | apply Forall_concat_repeat; exact Hp].
  - cbn [fst snd map ann_inv]. split; [split; [exact Hinv | exact I] | exact Hinv].
  - cbn [fst snd map ann_inv]. split; [split; [exact Hinv | exact I] | exact Hinv].
  - cbn [fst snd map ann_inv]. split; [split; [exact Hinv | exact I] | exact Hinv].
Qed.

(* ... and for all the Interface calls of one driver call *)
Theorem annot_events_sound : forall (w : nat) (t : list event) (last : option Z) (st : lines),
  (8 <= w)%nat -> Forall (words_in_range w) t -> bus_inv w (last, l_pins st) ->
  ann_inv w st (fst (annot_events w last t)) /\
  bus_inv w (snd (annot_events w last t), l_pins (lines_after st (map fst (fst (annot_events w last t))))).
Proof.
  intros w t. induction t as [|e r IH]; intros last st Hw Hall Hinv; cbn [annot_events].
  - cbn [fst snd map ann_inv]. rewrite lines_after_nil. split; [exact I | exact Hinv].
  - inversion Hall as [|e' r' He Hr]; subst.
    destruct (annot_cache_sound w last e st Hw He Hinv) as [A1 B1].
    destruct (annot_event w last e) as [a1 l1]. cbn [fst snd] in A1, B1.
    destruct (IH l1 (lines_after st (map fst a1)) Hw Hr B1) as [A2 B2].
    destruct (annot_events w l1 r) as [a2 l2]. cbn [fst snd] in A2, B2 |- *.
    split; [apply ann_inv_app; split; assumption|].
    rewrite map_app, lines_after_app. exact B2.
Qed.

(* the core: cut a sound annotated list at any fallible operation. The cache left behind is None if a
   data pin failed (set_value had already taken it), otherwise the annotation of the operation before —
   and a failing WR / DC / reset write touches no data pin whether or not it took effect *)
Lemma cut_sound (w : nat) : forall (an : list (l2op * option Z)) (k i : nat) (st : lines) (last : option Z)
                                   (d : l2op * option Z),
  ann_inv w st an -> bus_inv w (last, l_pins st) ->
  nth_fallible k 0 (map (lift w) an) = Some i ->
  let failing := fst (nth i an d) in
  let before := match i with O => last | S j => snd (nth j an d) end in
  let lastf := match failing with OPin _ _ => None | _ => before end in
  bus_inv w (lastf, l_pins (lines_after st (map fst (firstn (S i) an)))) /\
  bus_inv w (lastf, l_pins (lines_after st (map fst (firstn i an)))).
Proof.
  induction an as [|[o c] an IH]; intros k i st last d Hann Hinv Hn; [discriminate Hn|].
  cbn [map] in Hn. unfold lift at 1 in Hn. cbn [fst snd] in Hn. rewrite nth_fallible_cons in Hn.
  cbn [ann_inv] in Hann. destruct Hann as [Hc Hann].
  assert (Hzero : forall st0 : lines, st0 = st ->
            let lastf := match o with OPin _ _ => None | _ => last end in
            bus_inv w (lastf, l_pins (lines_after st0 (map fst (firstn 1 ((o, c) :: an))))) /\
            bus_inv w (lastf, l_pins (lines_after st0 (map fst (firstn 0 ((o, c) :: an)))))).
  { intros st0 ->. cbn [firstn map fst]. rewrite lines_after_cons, !lines_after_nil.
    destruct (nonpin o) eqn:Enp.
    - rewrite (line_step_nonpin st o Enp).
      destruct o; try discriminate Enp; cbv zeta; split; exact Hinv.
    - destruct o; try discriminate Enp. cbv zeta.
      split; apply bus_inv_none; [rewrite line_step_length|]; exact (bus_inv_length w last _ Hinv). }
  assert (Hsucc : forall k' j, nth_fallible k' 0 (map (lift w) an) = Some j ->
            let failing := fst (nth (S j) ((o, c) :: an) d) in
            let before := snd (nth j ((o, c) :: an) d) in
            let lastf := match failing with OPin _ _ => None | _ => before end in
            bus_inv w (lastf, l_pins (lines_after st (map fst (firstn (S (S j)) ((o, c) :: an))))) /\
            bus_inv w (lastf, l_pins (lines_after st (map fst (firstn (S j) ((o, c) :: an)))))).
  { intros k' j Hj. pose proof (IH k' j (line_step st o) c d Hann Hc Hj) as H. cbv zeta in H |- *.
    change (firstn (S (S j)) ((o, c) :: an)) with ((o, c) :: firstn (S j) an).
    change (firstn (S j) ((o, c) :: an)) with ((o, c) :: firstn j an).
    cbn [map fst]. rewrite !lines_after_cons.
    change (nth (S j) ((o, c) :: an) d) with (nth j an d).
    destruct j as [|j']; exact H. }
  destruct (fallible2 o) eqn:Ef.
  - destruct k as [|k'].
    + injection Hn as <-. cbv zeta. cbn [nth fst]. exact (Hzero st eq_refl).
    + destruct (nth_fallible k' 0 (map (lift w) an)) as [j|] eqn:Ej; [|discriminate Hn].
      cbn [option_map] in Hn. injection Hn as <-. exact (Hsucc k' j Ej).
  - destruct (nth_fallible k 0 (map (lift w) an)) as [j|] eqn:Ej; [|discriminate Hn].
    cbn [option_map] in Hn. injection Hn as <-. exact (Hsucc k j Ej).
Qed.

(* cut_fault on a lifted annotation list, in terms of the annotation list *)
Lemma cut_fault_lift (w : nat) (k : Z) (last : option Z) (an : list (l2op * option Z))
      (l : list l2op) (failing : l2op) (tsf : tstate) :
  cut_fault k (TPar w last) (map (lift w) an) = Some (l, failing, tsf) ->
  exists i : nat,
    nth_fallible (Z.to_nat k) 0 (map (lift w) an) = Some i /\ (i < List.length an)%nat /\
    l = map fst (firstn (S i) an) /\ removelast l = map fst (firstn i an) /\
    failing = fst (nth i an (OWr true, last)) /\
    tsf = TPar w (match failing with
                  | OPin _ _ => None
                  | _ => match i with O => last | S j => snd (nth j an (OWr true, last)) end
                  end).
Proof.
  unfold cut_fault. destruct (k <? 0); [discriminate|].
  destruct (nth_fallible (Z.to_nat k) 0 (map (lift w) an)) as [i|] eqn:Ei; [|discriminate].
  intros H. exists i.
  assert (E1 : l = map fst (firstn (S i) (map (lift w) an))) by congruence.
  assert (E2 : failing = fst (nth i (map (lift w) an) (OWr true, TPar w last))) by congruence.
  assert (E3 : tsf = match fst (nth i (map (lift w) an) (OWr true, TPar w last)) with
                     | OPin _ _ => clear_cache match i with
                                               | O => TPar w last
                                               | S j => snd (nth j (map (lift w) an) (OWr true, TPar w last))
                                               end
                     | _ => match i with
                            | O => TPar w last
                            | S j => snd (nth j (map (lift w) an) (OWr true, TPar w last))
                            end
                     end) by congruence.
  clear H.
  destruct (nth_fallible_some _ _ i (OWr true, TPar w last) Ei) as (Hlt & _ & _).
  rewrite map_length in Hlt.
  assert (Enth : forall j, nth j (map (lift w) an) (OWr true, TPar w last) = lift w (nth j an (OWr true, last))).
  { intros j. exact (map_nth (lift w) an (OWr true, last) j). }
  split; [reflexivity|]. split; [exact Hlt|].
  assert (El : l = map fst (firstn (S i) an)).
  { rewrite E1, firstn_map, map_fst_lift. reflexivity. }
  split; [exact El|]. split; [rewrite El; apply removelast_map_firstn; exact Hlt|].
  rewrite Enth in E2, E3. cbn [lift fst] in E2, E3. split; [exact E2|].
  rewrite E3, E2.
  destruct (fst (nth i an (OWr true, last))); destruct i as [|j]; try rewrite Enth; reflexivity.
Qed.

(* 4a. one Interface call *)
Theorem fault_keeps_bus_inv : forall (md : mode) (w : nat) (last : option Z) (st : lines) (e : event) (k : Z)
                                     (l : list l2op) (failing : l2op) (lastf : option Z),
  (8 <= w)%nat -> words_in_range w e -> bus_inv w (last, l_pins st) ->
  cut_fault k (TPar w last) (fst (fst (fst (trans_event md (TPar w last) e)))) = Some (l, failing, TPar w lastf) ->
  bus_inv w (lastf, l_pins (lines_after st l)) /\
  bus_inv w (lastf, l_pins (lines_after st (removelast l))).
Proof.
  intros md w last st e k l failing lastf Hw He Hinv Hcut.
  rewrite trans_event_par in Hcut. cbn [fst] in Hcut.
  destruct (annot_cache_sound w last e st Hw He Hinv) as [Hann _].
  destruct (cut_fault_lift w k last _ l failing _ Hcut) as (i & Hn & _ & El & Er & Ef & Et).
  injection Et as Et. rewrite Er, El, Et, Ef.
  exact (cut_sound w _ (Z.to_nat k) i st last (OWr true, last) Hann Hinv Hn).
Qed.

(* 4b. a whole driver call (all its Interface calls), as Corr/L2.v `run_ops2` cuts it *)
Theorem fault_keeps_bus_inv_call : forall (md : mode) (w : nat) (last : option Z) (st : lines) (t : list event) (k : Z)
                                          (l : list l2op) (failing : l2op) (lastf : option Z),
  (8 <= w)%nat -> Forall (words_in_range w) t -> bus_inv w (last, l_pins st) ->
  cut_fault k (TPar w last) (fst (fst (fst (trans_events md (TPar w last) t)))) = Some (l, failing, TPar w lastf) ->
  bus_inv w (lastf, l_pins (lines_after st l)) /\
  bus_inv w (lastf, l_pins (lines_after st (removelast l))).
Proof.
  intros md w last st t k l failing lastf Hw Ht Hinv Hcut.
  rewrite trans_events_par in Hcut. cbn [fst] in Hcut.
  destruct (annot_events_sound w t last st Hw Ht Hinv) as [Hann _].
  destruct (cut_fault_lift w k last _ l failing _ Hcut) as (i & Hn & _ & El & Er & Ef & Et).
  injection Et as Et. rewrite Er, El, Et, Ef.
  exact (cut_sound w _ (Z.to_nat k) i st last (OWr true, last) Hann Hinv Hn).
Qed.

(* the transport state after a faulted call on the parallel transport is again a parallel state of
   the same width (so the hypothesis shape `TPar w lastf` above loses nothing) *)
Lemma cut_fault_par_shape (md : mode) (w : nat) (last : option Z) (t : list event) (k : Z)
      (l : list l2op) (failing : l2op) (tsf : tstate) :
  cut_fault k (TPar w last) (fst (fst (fst (trans_events md (TPar w last) t)))) = Some (l, failing, tsf) ->
  exists lastf, tsf = TPar w lastf.
Proof.
  intros Hcut. rewrite trans_events_par in Hcut. cbn [fst] in Hcut.
  destruct (cut_fault_lift w k last _ l failing _ Hcut) as (i & _ & _ & _ & _ & _ & Et).
  eexists. exact Et.
Qed.

(* a fault-free call also keeps the invariant (for chaining calls) *)
Lemma nofault_keeps_bus_inv (md : mode) (w : nat) (last : option Z) (st : lines) (t : list event) :
  (8 <= w)%nat -> Forall (words_in_range w) t -> bus_inv w (last, l_pins st) ->
  let '(an, ts', o, sane) := trans_events md (TPar w last) t in
  exists l', ts' = TPar w l' /\ o = Ok tt /\ sane = true /\
             bus_inv w (l', l_pins (lines_after st (map fst an))).
Proof.
  intros Hw Ht Hinv. rewrite trans_events_par.
  destruct (annot_events_sound w t last st Hw Ht Hinv) as [_ Hpost].
  eexists. split; [reflexivity|]. split; [reflexivity|]. split; [reflexivity|].
  rewrite map_fst_lift. exact Hpost.
Qed.

(* consequently: whatever failed, and whether or not the failed write reached its pin, every later
   fault-free trace that starts with a command is latched word for word *)
Corollary after_fault_still_latches : forall (md : mode) (w : nat) (last : option Z) (st : lines) (t : list event) (k : Z)
                                             (l : list l2op) (failing : l2op) (lastf : option Z)
                                             (eff : bool) (t2 : list event),
  (8 <= w)%nat -> Forall (words_in_range w) t -> bus_inv w (last, l_pins st) ->
  cut_fault k (TPar w last) (fst (fst (fst (trans_events md (TPar w last) t)))) = Some (l, failing, TPar w lastf) ->
  Forall (words_in_range w) t2 -> (exists op args t', t2 = ECmd op args :: t') ->
  let st' := lines_after st (if eff then l else removelast l) in
  let '(ops', l', r) := par_run true md w lastf t2 in
  r = Ok tt /\ sample_par st' ops' = latch_of t2 /\ bus_inv w (l', l_pins (lines_after st' ops')).
Proof.
  intros md w last st t k l failing lastf eff t2 Hw Ht Hinv Hcut Ht2 Hcmd. cbv zeta.
  destruct (fault_keeps_bus_inv_call md w last st t k l failing lastf Hw Ht Hinv Hcut) as [H1 H2].
  apply par_run_latched_partial; [exact Hw | exact Ht2 | destruct eff; assumption | right; exact Hcmd].
Qed.

Corollary after_fault_still_latches_8 : forall (md : mode) (last : option Z) (st : lines) (t : list event) (k : Z)
    (l : list l2op) (failing : l2op) (lastf : option Z) (eff : bool) (t2 : list event),
  Forall (words_in_range 8) t -> bus_inv 8 (last, l_pins st) ->
  cut_fault k (TPar 8 last) (fst (fst (fst (trans_events md (TPar 8 last) t)))) = Some (l, failing, TPar 8 lastf) ->
  Forall (words_in_range 8) t2 -> (exists op args t', t2 = ECmd op args :: t') ->
  let st' := lines_after st (if eff then l else removelast l) in
  let '(ops', l', r) := par_run true md 8 lastf t2 in
  r = Ok tt /\ sample_par st' ops' = latch_of t2 /\ bus_inv 8 (l', l_pins (lines_after st' ops')).
Proof.
  intros md last st t k l failing lastf eff t2 Ht Hinv Hcut Ht2 Hcmd. cbv zeta.
  destruct (fault_keeps_bus_inv_call md 8 last st t k l failing lastf ltac:(lia) Ht Hinv Hcut) as [H1 H2].
  apply par_run_latched_8; [exact Ht2 | destruct eff; assumption | right; exact Hcmd].
Qed.

Corollary after_fault_still_latches_16 : forall (md : mode) (last : option Z) (st : lines) (t : list event) (k : Z)
    (l : list l2op) (failing : l2op) (lastf : option Z) (eff : bool) (t2 : list event),
  Forall (words_in_range 16) t -> bus_inv 16 (last, l_pins st) ->
  cut_fault k (TPar 16 last) (fst (fst (fst (trans_events md (TPar 16 last) t)))) = Some (l, failing, TPar 16 lastf) ->
  Forall (words_in_range 16) t2 -> (exists op args t', t2 = ECmd op args :: t') ->
  let st' := lines_after st (if eff then l else removelast l) in
  let '(ops', l', r) := par_run true md 16 lastf t2 in
  r = Ok tt /\ sample_par st' ops' = latch_of t2 /\ bus_inv 16 (l', l_pins (lines_after st' ops')).
Proof.
  intros md last st t k l failing lastf eff t2 Ht Hinv Hcut Ht2 Hcmd. cbv zeta.
  destruct (fault_keeps_bus_inv_call md 16 last st t k l failing lastf ltac:(lia) Ht Hinv Hcut) as [H1 H2].
  apply par_run_latched_16; [exact Ht2 | destruct eff; assumption | right; exact Hcmd].
Qed.

(* ---- SPI: the only transport state is the staging buffer, whose content never matters ---- *)

(* `spi_run_wire` holds for EVERY buffer content of the right length: whatever a faulted call left in
   the staging buffer, the next command-led trace reaches the wire byte for byte *)
Theorem spi_after_fault : forall (n : Z) (buf buf' : list Z) (t : list event) (dc0 : bool),
  List.length buf' = List.length buf ->
  1 <= n -> n <= Z.of_nat (List.length buf) -> Z.of_nat (List.length buf) / n < 2 ^ 32 ->
  Forall (event_pixels_wf n) t ->
  (exists op args t', t = ECmd op args :: t') ->
  let '(ops, b2, r) := spi_run true n buf' t in
  r = Ok tt /\ spi_wire dc0 ops = wire_of t /\ List.length b2 = List.length buf.
Proof.
  intros n buf buf' t dc0 Hlen Hn Hfit Hcap Hwf Hcmd.
  pose proof (spi_run_wire n buf' t dc0) as H. rewrite Hlen in H.
  apply H; [exact Hn | exact Hfit | exact Hcap | exact Hwf | right; exact Hcmd].
Qed.

Definition spi_state_ok (n : Z) (len : nat) (ts : tstate) : Prop :=
  exists b, ts = TSpi n b /\ List.length b = len.

Lemma trans_events_spi_states (md : mode) (n : Z) : forall (t : list event) (buf : list Z),
  1 <= n -> n <= Z.of_nat (List.length buf) -> Z.of_nat (List.length buf) / n < 2 ^ 32 ->
  Forall (event_pixels_wf n) t ->
  Forall (fun x => spi_state_ok n (List.length buf) (snd x)) (fst (fst (fst (trans_events md (TSpi n buf) t)))).
Proof.
  induction t as [|e r IH]; intros buf Hn Hfit Hcap Hwf; cbn [trans_events]; [constructor|].
  inversion Hwf as [|e' r' He Hr]; subst.
  unfold trans_event.
  destruct (spi_event_spec n buf e Hn Hfit Hcap He) as (ops & b1 & Hev & Hb1 & _).
  rewrite Hev.
  assert (H1 : Forall (fun x : l2op * tstate => spi_state_ok n (List.length buf) (snd x))
                 (map (fun x : l2op => (x, TSpi n buf)) ops)).
  { apply Forall_forall. intros x Hx. apply in_map_iff in Hx. destruct Hx as (o & <- & _).
    exists buf. split; reflexivity. }
  pose proof (IH b1 Hn) as H2. rewrite Hb1 in H2. specialize (H2 Hfit Hcap Hr).
  destruct (trans_events md (TSpi n b1) r) as [[[a2 ts2] o2] s2]. cbn [fst] in H2 |- *.
  apply Forall_app. split; assumption.
Qed.

(* the transport state left behind by a faulted call on SPI is an SPI state with a buffer of the same
   length, and the next command-led trace is carried faithfully *)
Theorem spi_fault_recovers : forall (md : mode) (n : Z) (buf : list Z) (t : list event) (k : Z)
                                    (l : list l2op) (failing : l2op) (tsf : tstate)
                                    (t2 : list event) (dc0 : bool),
  1 <= n -> n <= Z.of_nat (List.length buf) -> Z.of_nat (List.length buf) / n < 2 ^ 32 ->
  Forall (event_pixels_wf n) t ->
  cut_fault k (TSpi n buf) (fst (fst (fst (trans_events md (TSpi n buf) t)))) = Some (l, failing, tsf) ->
  Forall (event_pixels_wf n) t2 -> (exists op args t', t2 = ECmd op args :: t') ->
  exists b, tsf = TSpi n b /\ List.length b = List.length buf /\
    let '(ops, b2, r) := spi_run true n b t2 in
    r = Ok tt /\ spi_wire dc0 ops = wire_of t2 /\ List.length b2 = List.length buf.
Proof.
  intros md n buf t k l failing tsf t2 dc0 Hn Hfit Hcap Hwf Hcut Hwf2 Hcmd.
  pose proof (trans_events_spi_states md n t buf Hn Hfit Hcap Hwf) as Hall.
  set (an := fst (fst (fst (trans_events md (TSpi n buf) t)))) in *.
  assert (Hst : spi_state_ok n (List.length buf) tsf).
  { unfold cut_fault in Hcut. destruct (k <? 0); [discriminate Hcut|].
    destruct (nth_fallible (Z.to_nat k) 0 an) as [i|] eqn:Ei; [|discriminate Hcut].
    destruct (nth_fallible_some an (Z.to_nat k) i (OWr true, TSpi n buf) Ei) as (Hlt & _ & _).
    assert (Hbefore : spi_state_ok n (List.length buf)
                        match i with O => TSpi n buf | S j => snd (nth j an (OWr true, TSpi n buf)) end).
    { destruct i as [|j]; [exists buf; split; reflexivity|].
      rewrite Forall_forall in Hall. apply Hall. apply nth_In. lia. }
    assert (E3 : tsf = match fst (nth i an (OWr true, TSpi n buf)) with
                       | OPin _ _ => clear_cache match i with O => TSpi n buf | S j => snd (nth j an (OWr true, TSpi n buf)) end
                       | _ => match i with O => TSpi n buf | S j => snd (nth j an (OWr true, TSpi n buf)) end
                       end) by congruence.
    destruct Hbefore as (b & Eb & Hb). rewrite Eb in E3.
    exists b. split; [|exact Hb]. rewrite E3. destruct (fst (nth i an (OWr true, TSpi n buf))); reflexivity. }
  destruct Hst as (b & -> & Hb). exists b. split; [reflexivity|]. split; [exact Hb|].
  exact (spi_after_fault n buf b t2 dc0 Hb Hn Hfit Hcap Hwf2 Hcmd).
Qed.

(* ============================================================================================== *)
(* 5. the picture: a fault-free clear after any number of faulted calls paints the whole window   *)
(* ============================================================================================== *)

(* the physical rectangle of the whole logical display is the configured panel window, in all eight
   orientations *)
Lemma prect_full_covers (enc : Z -> list Z) (o : opts) (col x y : Z) :
  1 <= o_w o -> 1 <= o_h o ->
  o_ox o <= x < o_ox o + o_w o -> o_oy o <= y < o_oy o + o_h o ->
  let p := panel_of o in
  covers (prect enc p (o_orient o) 0 0 (lw_of p (o_orient o) - 1) (lh_of p (o_orient o) - 1) col) x y = true /\
  wr_words (prect enc p (o_orient o) 0 0 (lw_of p (o_orient o) - 1) (lh_of p (o_orient o) - 1) col) = enc col.
Proof.
  intros Hw Hh Hx Hy. cbv zeta.
  unfold prect, cell, spec_cell, rot_cw, lw_of, lh_of, panel_of. cbn [p_w p_h p_ox p_oy].
  destruct (o_orient o) as [[] []]; cbn [rotn mir covers wr_words]; (split; [|reflexivity]);
    rewrite !andb_true_iff, !Z.leb_le; lia.
Qed.

Theorem clear_after_fault : forall (c : ctx) (st : dstate) (k : ctl) (col : Z),
  valid_cfg c (d_opts st) -> madctl_ok st -> ctl_matches c (d_opts st) k ->
  (1 <= c_rowcap c)%nat -> (c_rowcap c <= c_blockcap c)%nat ->
  let o := d_opts st in
  let k' := ctl_run k (fst (fst (step c st (PClear col)))) in
  snd (fst (step c st (PClear col))) = ROk /\
  snd (step c st (PClear col)) = st /\
  (forall x y, o_ox o <= x < o_ox o + o_w o -> o_oy o <= y < o_oy o + o_h o ->
     mem k' x y = Some (c_enc c col)) /\
  (forall x y, ~ (o_ox o <= x < o_ox o + o_w o /\ o_oy o <= y < o_oy o + o_h o) ->
     mem k' x y = mem k x y) /\
  k_flags k' = k_flags k.
Proof.
  intros c st k col Hv Hmad Hm Hcap Hcb. cbv zeta.
  assert (Hwf : op_wf (d_opts st) (PClear col)).
  { unfold op_wf. destruct (lsize (d_opts st)). exact I. }
  pose proof (step_draw_decode c st k (PClear col) Hv Hmad Hm Hcap Hcb Hwf) as H. cbv zeta in H.
  destruct H as (Hr & Hst & Hwr & Hfl & _ & _ & _ & Hin & _).
  split; [exact Hr|]. split; [exact Hst|].
  destruct Hv as (Hw1 & Hh1 & _).
  set (o := d_opts st) in *. set (p := panel_of o) in *.
  assert (Hlw : 1 <= lw_of p (o_orient o) /\ 1 <= lh_of p (o_orient o)).
  { unfold lw_of, lh_of, p, panel_of. cbn [p_w p_h]. destruct (rotn (o_orient o)); lia. }
  assert (Ews : spec_op_writes (c_enc c) p (o_orient o) (PClear col) =
                [prect (c_enc c) p (o_orient o) 0 0 (lw_of p (o_orient o) - 1) (lh_of p (o_orient o) - 1) col]).
  { cbn [spec_op_writes]. unfold spec_fill_solid, clip_lo, clip_hi. cbn [rx ry rw rh].
    change (Z.max 0 0) with 0.
    replace (Z.min (0 + lw_of p (o_orient o)) (lw_of p (o_orient o))) with (lw_of p (o_orient o)) by lia.
    replace (Z.min (0 + lh_of p (o_orient o)) (lh_of p (o_orient o))) with (lh_of p (o_orient o)) by lia.
    destruct (Z.ltb_spec 0 (lw_of p (o_orient o))) as [_|Hbad]; [|lia].
    destruct (Z.ltb_spec 0 (lh_of p (o_orient o))) as [_|Hbad]; [|lia]. reflexivity. }
  split; [|split; [|exact Hfl]].
  - intros x y Hx Hy. rewrite (mem_after_writes k _ _ x y Hwr), Ews.
    destruct (prect_full_covers (c_enc c) o col x y Hw1 Hh1 Hx Hy) as [Hc Hwd]. fold p in Hc, Hwd.
    unfold last_write. cbn [rev app find]. rewrite Hc, Hwd. reflexivity.
  - intros x y Hout. rewrite (mem_after_writes k _ _ x y Hwr).
    exact (last_write_outside o _ x y _ Hin Hout).
Qed.

(* together with item 1: a faulted call changes neither the driver state nor — if the hypotheses
   held before — their validity, so `clear_after_fault` applies after any number of faulted calls *)
Corollary faulted_call_keeps_hyps : forall (c : ctx) (st : dstate) (op : pop) (k : nat) (t' : list event),
  cut_at k (fst (fst (step c st op))) = Some t' ->
  snd (step_faulty c k st op) = st /\ snd (fst (step_faulty c k st op)) = RErr (EIf IfRec) /\
  fst (fst (step_faulty c k st op)) = t'.
Proof.
  intros c st op k t' Hc. unfold step_faulty.
  destruct (step c st op) as [[t r] st'] eqn:Es. cbn [fst] in Hc. rewrite Hc. cbn [fst snd]. auto.
Qed.

(* ============================================================================================== *)
(* 6. init programs                                                                               *)
(* ============================================================================================== *)
Theorem init_programs_propagate : forall m : model_def, In m gen_models -> propagates (m_prog m) = true.
Proof. exact init_propagates. Qed.
