Require Import Model.Base Model.Orient Model.Dcs Model.Events Model.Builder.

Definition u16 (z : Z) := 0 <= z <= 65535.

Definition fits (FW FH w h ox oy : Z) : Prop :=
  w <> 0 /\ h <> 0 /\ w <= FW /\ h <= FH /\ ox + w <= FW /\ oy + h <= FH.

Lemma add32_small md a b : u16 a -> u16 b -> add_u md 32 a b = Ok (a + b).
Proof.
  intros Ha Hb. unfold add_u. apply chk_u_in. apply in_u_spec. unfold u16 in *.
  change (2 ^ 32) with 4294967296. lia.
Qed.

Lemma init_check_iff md FW FH w h ox oy :
  u16 FW -> u16 FH -> u16 w -> u16 h -> u16 ox -> u16 oy ->
  (init_check md FW FH w h ox oy = Ok tt <-> fits FW FH w h ox oy).
Proof.
  intros HFW HFH Hw Hh Hox Hoy. unfold init_check, fits.
  rewrite !add32_small by assumption. cbn [bind].
  destruct (w =? 0) eqn:E1; [apply Z.eqb_eq in E1; cbn; split; [discriminate | lia]|].
  destruct (h =? 0) eqn:E2; [apply Z.eqb_eq in E2; cbn; split; [discriminate | lia]|].
  destruct (w >? FW) eqn:E3; [apply Z.gtb_lt in E3; cbn; split; [discriminate | lia]|].
  destruct (h >? FH) eqn:E4; [apply Z.gtb_lt in E4; cbn; split; [discriminate | lia]|].
  cbn [orb].
  apply Z.eqb_neq in E1, E2. rewrite Z.gtb_ltb in E3, E4. apply Z.ltb_ge in E3, E4.
  destruct (w + ox >? FW) eqn:E5; [apply Z.gtb_lt in E5; split; [discriminate | lia]|].
  destruct (h + oy >? FH) eqn:E6; [apply Z.gtb_lt in E6; split; [discriminate | lia]|].
  rewrite Z.gtb_ltb in E5, E6. apply Z.ltb_ge in E5, E6.
  split; [intros _; lia | reflexivity].
Qed.

Definition size_bad (FW FH w h : Z) : Prop := w = 0 \/ h = 0 \/ w > FW \/ h > FH.

Lemma init_check_taxonomy md FW FH w h ox oy :
  u16 FW -> u16 FH -> u16 w -> u16 h -> u16 ox -> u16 oy ->
  ~ fits FW FH w h ox oy ->
  (size_bad FW FH w h -> init_check md FW FH w h ox oy = Err (ECfg InvalidDisplaySize)) /\
  (~ size_bad FW FH w h -> init_check md FW FH w h ox oy = Err (ECfg InvalidDisplayOffset)).
Proof.
  intros HFW HFH Hw Hh Hox Hoy Hnf. unfold init_check, fits, size_bad in *.
  rewrite !add32_small by assumption. cbn [bind].
  destruct (w =? 0) eqn:E1; [apply Z.eqb_eq in E1; cbn; split; [reflexivity | lia]|].
  destruct (h =? 0) eqn:E2; [apply Z.eqb_eq in E2; cbn; split; [reflexivity | lia]|].
  destruct (w >? FW) eqn:E3; [apply Z.gtb_lt in E3; cbn; split; [reflexivity | lia]|].
  destruct (h >? FH) eqn:E4; [apply Z.gtb_lt in E4; cbn; split; [reflexivity | lia]|].
  cbn [orb].
  apply Z.eqb_neq in E1, E2. rewrite Z.gtb_ltb in E3, E4. apply Z.ltb_ge in E3, E4.
  destruct (w + ox >? FW) eqn:E5; [split; [lia | reflexivity]|].
  destruct (h + oy >? FH) eqn:E6; [split; [lia | reflexivity]|].
  rewrite Z.gtb_ltb in E5, E6. apply Z.ltb_ge in E5, E6. lia.
Qed.

(* never a panic and never a different result between the two build profiles *)
Lemma init_check_mode_indep FW FH w h ox oy :
  u16 FW -> u16 FH -> u16 w -> u16 h -> u16 ox -> u16 oy ->
  init_check Debug FW FH w h ox oy = init_check Release FW FH w h ox oy /\
  init_check Debug FW FH w h ox oy <> Panic.
Proof.
  intros. unfold init_check. rewrite !add32_small by assumption. split; [reflexivity|].
  cbn [bind].
  destruct (_ || _); [discriminate|]. destruct (_ >? _); [discriminate|]. destruct (_ >? _); discriminate.
Qed.

Lemma builder_init_rejects_silently md FW FH rst o minit :
  init_check md FW FH (o_w o) (o_h o) (o_ox o) (o_oy o) <> Ok tt ->
  fst (builder_init md FW FH rst o minit) = [] /\
  is_ok (snd (builder_init md FW FH rst o minit)) = false.
Proof.
  unfold builder_init. destruct (init_check _ _ _ _ _ _ _) as [[]| | |]; cbn; intuition congruence.
Qed.
