(* C13 — sleep / wake bookkeeping. Over any sequence of Display calls (sleep, wake, drawing, orientation,
   scrolling, tearing, ... in any order, with any arguments, repeated sleep or wake included):
     - is_sleeping() (d_sleeping) is true exactly when the last of sleep / wake that was called is sleep
       (the flag a display starts with when neither was called: false after init);
     - it equals the sleep state of the reference MIPI-DCS controller as determined by the sleep-in (0x10)
       and sleep-out (0x11) commands actually sent;
     - every sleep-in / sleep-out command is followed, inside the same call, by a 120 ms delay, so the two
       commands are never issued less than 120 ms apart (the controller never flags SleepSpacing).
   Statements only; proofs in Proofs/SleepP.v. The model is the fault-free `step` / `exec` of Model/Display.v;
   `sleep_inv k` is the controller-side precondition: user command page selected, no spacing anomaly so
   far, and the previous sleep command (if any) at least 120 ms old — true after Builder::init (see the
   example at the end), and re-established by every call. *)
Require Import Model.Base Model.Orient Model.Dcs Model.Events Model.Builder Model.Rect Model.Batch Model.Display.
Require Import Oracle.Controller Proofs.OrientStateP Proofs.SleepP.
Open Scope Z_scope.

(* sleep(): exactly the sleep-in command followed by 120 ms of delay, Ok, flag set; every context, state *)
Theorem C13_sleep_call : forall c st,
  step c st PSleep =
  ([ECmd 0x10 []; EDelay 120000000], ROk,
   {| d_opts := d_opts st; d_madctl := d_madctl st; d_sleeping := true |}).
Proof. exact step_sleep. Qed.

(* wake(): exactly the sleep-out command followed by 120 ms of delay, Ok, flag cleared *)
Theorem C13_wake_call : forall c st,
  step c st PWake =
  ([ECmd 0x11 []; EDelay 120000000], ROk,
   {| d_opts := d_opts st; d_madctl := d_madctl st; d_sleeping := false |}).
Proof. exact step_wake. Qed.

(* what the controller makes of one sleep() call: asleep; no new anomaly; the command is stamped with the
   time before the call and the call returns 120 ms later; the invariant holds again *)
Theorem C13_controller_sleep : forall k, sleep_inv k ->
  let k' := ctl_run k [ECmd 0x10 []; EDelay 120000000] in
  k_asleep k' = true /\ sleep_inv k' /\
  k_last_slp k' = Some (k_clock k) /\ k_clock k' = k_clock k + SLEEP_NS /\ k_flags k' = k_flags k.
Proof. exact ctl_sleep_call. Qed.

Theorem C13_controller_wake : forall k, sleep_inv k ->
  let k' := ctl_run k [ECmd 0x11 []; EDelay 120000000] in
  k_asleep k' = false /\ sleep_inv k' /\
  k_last_slp k' = Some (k_clock k) /\ k_clock k' = k_clock k + SLEEP_NS /\ k_flags k' = k_flags k.
Proof. exact ctl_wake_call. Qed.

(* every other operation, with arbitrary arguments (in bounds or not, panicking or not), emits only
   events that cannot change the controller's sleep state, reset it, switch the command page, or move
   time backwards *)
Theorem C13_other_ops_quiet : forall c st op,
  op <> PSleep -> op <> PWake ->
  Forall (fun e => quiet_event e = true) (fst (fst (step c st op))).
Proof. exact step_quiet. Qed.

(* ... and a quiet trace leaves sleep state, page, sleep time stamp alone, and flags no SleepSpacing *)
Theorem C13_quiet_run : forall k t,
  Forall (fun e => quiet_event e = true) t -> k_page k = false ->
  let k' := ctl_run k t in
  k_asleep k' = k_asleep k /\ k_page k' = false /\ k_last_slp k' = k_last_slp k /\
  k_clock k <= k_clock k' /\ (In SleepSpacing (k_flags k') -> In SleepSpacing (k_flags k)).
Proof. exact quiet_run. Qed.

(* ... in particular no sleep-in, sleep-out, soft reset, or hardware reset *)
Theorem C13_only_sleep_ops_send_sleep_cmds : forall c st op e args,
  op <> PSleep -> op <> PWake -> In e (fst (fst (step c st op))) ->
  e <> ECmd 0x10 args /\ e <> ECmd 0x11 args /\ e <> ECmd 0x01 args /\ e <> ERstLow.
Proof. exact only_sleep_ops_send_sleep_cmds. Qed.

(* ... and does not touch the driver's flag *)
Theorem C13_other_ops_keep_flag : forall c st op,
  op <> PSleep -> op <> PWake -> d_sleeping (snd (step c st op)) = d_sleeping st.
Proof. exact step_keeps_sleeping. Qed.

(* MAIN: any finite history of operations, from any driver state and any controller state that agree on
   the sleep state. Afterwards (hence, the history being arbitrary, after every call of it): the flag
   equals the controller's sleep state, the invariant holds, and the flag is the last of sleep / wake *)
Theorem C13_sleep_tracks : forall c ops st k,
  sleep_inv k -> k_asleep k = d_sleeping st ->
  let st' := snd (exec c st ops) in
  let k' := ctl_run k (exec_trace c st ops) in
  d_sleeping st' = k_asleep k' /\ sleep_inv k' /\ d_sleeping st' = last_sleep_op ops (d_sleeping st).
Proof. exact exec_sleep_tracks. Qed.

(* the controller never sees two sleep-in / sleep-out commands less than 120 ms apart *)
Theorem C13_no_sleep_spacing : forall c ops st k,
  sleep_inv k -> k_asleep k = d_sleeping st ->
  ~ In SleepSpacing (k_flags (ctl_run k (exec_trace c st ops))).
Proof. exact no_sleep_spacing. Qed.

(* ---- non-vacuity ---- *)
(* controller after power-on, software reset, sleep-out and the 120 ms wait of Builder::init *)
Definition ex_k0 : ctl := ctl_run (power_on 240 320) [ECmd 0x01 []; ECmd 0x11 []; EDelay 120000000].
Definition ex_ctx : ctx :=
  {| c_md := Debug; c_batch := true; c_fw := 240; c_fh := 320; c_enc := fun v => [v]; c_rowcap := 50; c_blockcap := 100 |}.
Definition ex_st0 : dstate :=
  fresh_state {| o_bgr := false; o_orient := {| rotn := D0; mir := false |}; o_inv := false; o_btt := false;
                 o_rtl := false; o_w := 6; o_h := 4; o_ox := 0; o_oy := 0 |}.
Definition ex_ops : list pop :=
  [PSleep; PSleep; PClear 0; PWake; PSetOrient {| rotn := D90; mir := true |}; PScrollOffset 3; PSleep].

(* the hypotheses of the main theorem hold for the freshly initialised pair *)
Example C13_ex_init : sleep_inv ex_k0 /\ k_asleep ex_k0 = d_sleeping ex_st0.
Proof.
  split; [| vm_compute; reflexivity]. unfold sleep_inv. split; [vm_compute; reflexivity |].
  split; [vm_compute; intros H; exact H |]. vm_compute. intros H; discriminate H.
Qed.

(* a concrete history with repeated sleep: flag true, controller asleep, no anomaly at all, four sleep
   commands 120 ms apart *)
Example C13_ex_history :
  let st' := snd (exec ex_ctx ex_st0 ex_ops) in
  let k' := ctl_run ex_k0 (exec_trace ex_ctx ex_st0 ex_ops) in
  d_sleeping st' = true /\ k_asleep k' = true /\ k_flags k' = [] /\
  last_sleep_op ex_ops false = true /\ exec_all_ok ex_ctx ex_st0 ex_ops = true /\
  k_clock k' = 5 * SLEEP_NS /\ k_last_slp k' = Some (4 * SLEEP_NS).
Proof. vm_compute. repeat split. Qed.

(* the flag follows the calls: after each prefix *)
Example C13_ex_prefixes :
  map (fun n => d_sleeping (snd (exec ex_ctx ex_st0 (firstn n ex_ops)))) [0; 1; 2; 3; 4; 5; 6; 7]%nat
  = [false; true; true; true; false; false; false; true].
Proof. vm_compute. reflexivity. Qed.

(* the anomaly is not vacuous: without the delay the reference controller does flag the second command *)
Example C13_ex_spacing_detected :
  k_flags (ctl_run ex_k0 [ECmd 0x10 []; ECmd 0x11 []]) = [SleepSpacing] /\
  k_flags (ctl_run ex_k0 [ECmd 0x10 []; EDelay 119999999; ECmd 0x11 []]) = [SleepSpacing] /\
  k_flags (ctl_run ex_k0 [ECmd 0x10 []; EDelay 120000000; ECmd 0x11 []]) = [].
Proof. vm_compute. repeat split. Qed.
