(* C03 — the `batch` feature changes how pixels travel, not what is drawn. Statements only; proofs in
   Proofs/BatchP.v (the batcher) and Proofs/ProgramP.v (what the controller decodes). *)
Require Import Model.Base Model.Orient Model.Dcs Model.Events Model.Builder Model.Rect Model.Batch Model.Display.
Require Import Oracle.Spec Oracle.Controller Oracle.DrawSpec.
Require Import Proofs.DcsP Proofs.WindowP Proofs.CtlP Proofs.DrawP Proofs.ClipP Proofs.BatchP Proofs.OrientStateP
               Proofs.ProgramP.
Open Scope Z_scope.

(* RowIterator + BlockIterator, any capacities 1 <= MAX_ROW_SIZE <= MAX_BLOCK_SIZE, any pixel list with
   coordinates in [0, 65534], either build profile: the iterators finish without panicking
   (`expect("never")`, `y_bottom + 1`), and the emitted blocks, read row-major, are EXACTLY the input
   list — same pixels, same colours, same order; every block is a full rectangle within capacity *)
Theorem C03_rows_blocks_flatten : forall md cap bcap (ps : list pixel),
  (1 <= cap)%nat -> (cap <= bcap)%nat -> Forall in_range ps ->
  exists bs, blocks_of md bcap (rows_of cap ps) = (bs, Ok tt) /\
    concat (map block_pixels bs) = ps /\ Forall (block_ok bcap) bs.
Proof. exact batch_flatten. Qed.

(* a window of w x rows pixels with any colour list is decoded row-major: the specification's walk
   over the window is the batcher's reading of a block *)
Theorem C03_block_row_major : forall enc p o sx w (rows : nat) (y : Z) (cs : list Z),
  zip_rows enc p o sx y w rows cs = map (pxq enc p o) (block_pixels_from sx y w rows cs).
Proof. exact zip_rows_block. Qed.

(* draw_iter with ARBITRARY i32 points: with the feature and without it the controller's write
   history grows by the same list — one entry per in-bounds pixel, in input order, at the oriented
   cell — which is also what drawing those pixels one by one with set_pixel leaves; every call is Ok *)
Theorem C03_batch_equiv : forall c st k (ps : list pixel),
  valid_cfg c (d_opts st) -> madctl_ok st -> ctl_matches c (d_opts st) k ->
  (1 <= c_rowcap c)%nat -> (c_rowcap c <= c_blockcap c)%nat ->
  Forall (fun q => let '(x, y, _) := q in i32 x /\ i32 y) ps ->
  let cb := with_batch c true in
  let cn := with_batch c false in
  let prog := map set_px_op (filter (in_bbox (d_opts st)) ps) in
  let ws := map (pxq (c_enc c) (panel_of (d_opts st)) (o_orient (d_opts st))) (filter (in_bbox (d_opts st)) ps) in
  writes (ctl_run k (exec_trace cb st [PDrawIter ps])) = writes k ++ ws /\
  writes (ctl_run k (exec_trace cn st [PDrawIter ps])) = writes k ++ ws /\
  writes (ctl_run k (exec_trace c st prog)) = writes k ++ ws /\
  exec_all_ok cb st [PDrawIter ps] = true /\ exec_all_ok cn st [PDrawIter ps] = true /\
  exec_all_ok c st prog = true.
Proof. exact draw_iter_batch_equiv. Qed.

(* batching never needs more address windows than pixel-by-pixel drawing, which needs one per
   in-bounds pixel *)
Theorem C03_windows : forall c st (ps : list pixel),
  valid_cfg c (d_opts st) -> (1 <= c_rowcap c)%nat -> (c_rowcap c <= c_blockcap c)%nat ->
  let t := fst (fst (step c st (PDrawIter ps))) in
  0 <= count_ramwr t <= Z.of_nat (length (filter (in_bbox (d_opts st)) ps)) /\
  (c_batch c = false -> count_ramwr t = Z.of_nat (length (filter (in_bbox (d_opts st)) ps))).
Proof. exact draw_iter_windows. Qed.

(* Debug and Release builds of any well-formed program: identical L1 trace, identical results,
   identical final driver state (so also identical controller history and flags) *)
Theorem C03_mode_indep : forall c m ops st,
  valid_cfg c (d_opts st) -> madctl_ok st ->
  (1 <= c_rowcap c)%nat -> (c_rowcap c <= c_blockcap c)%nat -> prog_wf (d_opts st) ops ->
  exec (with_mode c m) st ops = exec (with_mode c Debug) st ops.
Proof. exact exec_mode_indep. Qed.

Theorem C03_mode_indep_decoded : forall c ops st k,
  valid_cfg c (d_opts st) -> madctl_ok st -> ctl_matches c (d_opts st) k ->
  (1 <= c_rowcap c)%nat -> (c_rowcap c <= c_blockcap c)%nat -> prog_wf (d_opts st) ops ->
  let cd := with_mode c Debug in
  let cr := with_mode c Release in
  exec_all_ok cd st ops = true /\ exec_all_ok cr st ops = true /\
  writes (ctl_run k (exec_trace cd st ops)) = writes (ctl_run k (exec_trace cr st ops)) /\
  k_flags (ctl_run k (exec_trace cd st ops)) = k_flags (ctl_run k (exec_trace cr st ops)) /\
  snd (exec cd st ops) = snd (exec cr st ops).
Proof. exact draw_mode_indep. Qed.

(* the batcher itself does not depend on the profile *)
Theorem C03_batcher_mode_indep : forall cap bcap (ps : list pixel),
  (1 <= cap)%nat -> (cap <= bcap)%nat -> Forall in_range ps ->
  blocks_of Debug bcap (rows_of cap ps) = blocks_of Release bcap (rows_of cap ps).
Proof. exact batch_mode_indep. Qed.

(* ---- non-vacuity: the same scattered / contiguous / off-screen pixel list, with and without the
   feature, on a rotated mirrored display: one history, fewer windows with batching ---- *)
Definition ex_c b := {| c_md := Debug; c_batch := b; c_fw := 240; c_fh := 320; c_enc := fun v => [v; v + 1];
                        c_rowcap := 3; c_blockcap := 6 |}.
Definition ex_o := {| o_bgr := false; o_orient := {| rotn := D90; mir := true |}; o_inv := false;
                      o_btt := false; o_rtl := false; o_w := 100; o_h := 50; o_ox := 3; o_oy := 7 |}.
Definition ex_st := fresh_state ex_o.
Definition ex_k := ctl_run (power_on 240 320) [ECmd 0x36 [madctl_of_opts ex_o]].
(* a 4 x 2 block (rows cut at capacity 3), a pixel drawn twice, off-screen pixels in between *)
Definition ex_ps : list pixel :=
  [ (10, 20, 1); (11, 20, 2); (12, 20, 3); (13, 20, 4); (-5, 20, 99);
    (10, 21, 5); (11, 21, 6); (12, 21, 7); (13, 21, 8); (50, 0, 98); (0, 100, 97);
    (49, 99, 9); (49, 99, 10); (0, 0, 11) ].

Example C03_ex_hyps : forall b,
  valid_cfg (ex_c b) (d_opts ex_st) /\ madctl_ok ex_st /\ ctl_matches (ex_c b) (d_opts ex_st) ex_k /\
  (1 <= c_rowcap (ex_c b))%nat /\ (c_rowcap (ex_c b) <= c_blockcap (ex_c b))%nat /\
  Forall (fun q : pixel => let '(x, y, _) := q in i32 x /\ i32 y) ex_ps /\ Forall in_range (filter (in_bbox ex_o) ex_ps).
Proof.
  intros b.
  split; [unfold valid_cfg; cbn; lia|]. split; [reflexivity|].
  split; [unfold ctl_matches; vm_compute; repeat split|].
  split; [cbn; lia|]. split; [cbn; lia|].
  split; [unfold ex_ps, i32; change (2 ^ 31) with 2147483648; repeat constructor; lia|].
  assert (E : filter (in_bbox ex_o) ex_ps =
              [ (10, 20, 1); (11, 20, 2); (12, 20, 3); (13, 20, 4); (10, 21, 5); (11, 21, 6); (12, 21, 7);
                (13, 21, 8); (49, 99, 9); (49, 99, 10); (0, 0, 11) ]) by (vm_compute; reflexivity).
  rewrite E. unfold in_range. repeat constructor; lia.
Qed.

Example C03_ex_run :
  writes (ctl_run ex_k (exec_trace (ex_c true) ex_st [PDrawIter ex_ps])) =
  writes (ctl_run ex_k (exec_trace (ex_c false) ex_st [PDrawIter ex_ps])) /\
  length (writes (ctl_run ex_k (exec_trace (ex_c true) ex_st [PDrawIter ex_ps]))) = 11%nat /\
  count_ramwr (exec_trace (ex_c true) ex_st [PDrawIter ex_ps]) = 7 /\
  count_ramwr (exec_trace (ex_c false) ex_st [PDrawIter ex_ps]) = 11 /\
  exec_trace (ex_c true) ex_st [PDrawIter ex_ps] <> exec_trace (ex_c false) ex_st [PDrawIter ex_ps].
Proof. vm_compute. repeat split. discriminate. Qed.
