(* C01T — property C01 for "all transports": the picture decoded from the pin-level log (SPI bytes
   with the DC level, or the parallel bus sampled at the rising edges of WR, with delays and reset
   edges) is, cell by cell, the picture decoded from the traffic at the `Interface` boundary, which
   by C01 (Proofs/ProgramP.v: exec_draw_program) is the specified picture. Statements only.

   Specification side: Oracle/Decode.v (wire_spi / wire_par: what the panel sees at its pins;
   decode_items: items -> L1 events; items_of: the items an L1 trace must produce; framed: the shape
   of the driver's traffic; normalise: repeats seen as pixel streams) and Oracle/Controller.v.
   Throughout: n = bus words per pixel (bytes per pixel over SPI and the 8-bit bus, 1 on the 16-bit
   bus); buf = the SPI staging buffer with arbitrary stale content. *)
Require Import Model.Base Model.Orient Model.Dcs Model.Events Model.Builder Model.Rect Model.Batch Model.Display
               Model.Spi Model.Parallel.
Require Import Oracle.Spec Oracle.Controller Oracle.DrawSpec Oracle.Decode.
Require Import Proofs.DcsP Proofs.WindowP Proofs.CtlP Proofs.DrawP Proofs.OrientStateP Proofs.ProgramP
               Proofs.SpiP Proofs.ParallelP Proofs.DecodeP.
Open Scope list_scope.
Open Scope Z_scope.

(* ---------------------------------------------------------------- 1. the decoder *)

(* pixels of n >= 1 words each, concatenated on the wire, are cut back into the same pixels *)
Theorem C01T_chunks_concat : forall (n : nat) (px : list (list Z)),
  (1 <= n)%nat -> Forall (fun p => length p = n) px ->
  chunks n (S (length (concat px))) (concat px) = px.
Proof. exact chunks_concat. Qed.

(* on framed traffic the decoder inverts `items_of`, up to seeing repeats as streams *)
Theorem C01T_decode_items_of : forall (n : nat) (t : list event),
  (1 <= n)%nat -> framed n t -> decode_items n None [] (items_of t) = normalise t.
Proof. exact decode_items_of. Qed.

(* ---------------------------------------------------------------- 2. the transports put items_of t on the pins *)

(* SPI, under the hypotheses of C06_spi_run_wire; delays and reset edges included *)
Theorem C01T_wire_spi_run : forall n buf t dc0,
  1 <= n -> n <= Z.of_nat (length buf) -> Z.of_nat (length buf) / n < 2 ^ 32 ->
  Forall (event_pixels_wf n) t ->
  (dc0 = true \/ exists op args t', t = ECmd op args :: t') ->
  let '(ops, _, r) := spi_run true n buf t in
  r = Ok tt /\ wire_spi dc0 ops = items_of t.
Proof. exact wire_spi_run. Qed.

(* parallel bus, under the hypotheses of C07_par_run_latched (any width >= 8; 8 and 16 below) *)
Theorem C01T_wire_par_run : forall (w : nat) (md : mode) (t : list event) (last : option Z) (st : lines),
  (8 <= w)%nat -> Forall (words_in_range w) t -> bus_inv w (last, l_pins st) ->
  (l_dc st = true \/ exists op args t', t = ECmd op args :: t') ->
  let '(ops, l', r) := par_run true md w last t in
  r = Ok tt /\ wire_par st ops = items_of t /\ bus_inv w (l', l_pins (lines_after st ops)).
Proof. exact wire_par_run. Qed.

Theorem C01T_wire_par_run_8 : forall (md : mode) (t : list event) (last : option Z) (st : lines),
  Forall (words_in_range 8) t -> bus_inv 8 (last, l_pins st) ->
  (l_dc st = true \/ exists op args t', t = ECmd op args :: t') ->
  let '(ops, l', r) := par_run true md 8 last t in
  r = Ok tt /\ wire_par st ops = items_of t /\ bus_inv 8 (l', l_pins (lines_after st ops)).
Proof. exact wire_par_run_8. Qed.

Theorem C01T_wire_par_run_16 : forall (md : mode) (t : list event) (last : option Z) (st : lines),
  Forall (words_in_range 16) t -> bus_inv 16 (last, l_pins st) ->
  (l_dc st = true \/ exists op args t', t = ECmd op args :: t') ->
  let '(ops, l', r) := par_run true md 16 last t in
  r = Ok tt /\ wire_par st ops = items_of t /\ bus_inv 16 (l', l_pins (lines_after st ops)).
Proof. exact wire_par_run_16. Qed.

(* ---------------------------------------------------------------- 3. decoder after transport = normalise *)

Theorem C01T_decode_spi_transparent : forall n buf t dc0,
  1 <= n -> n <= Z.of_nat (length buf) -> Z.of_nat (length buf) / n < 2 ^ 32 ->
  Forall (event_pixels_wf n) t ->
  (dc0 = true \/ exists op args t', t = ECmd op args :: t') ->
  framed (Z.to_nat n) t ->
  let '(ops, _, r) := spi_run true n buf t in
  r = Ok tt /\ decode_items (Z.to_nat n) None [] (wire_spi dc0 ops) = normalise t.
Proof. exact decode_spi_transparent. Qed.

Theorem C01T_decode_par_transparent_8 : forall (md : mode) (n : nat) (t : list event) (last : option Z) (st : lines),
  (1 <= n)%nat -> Forall (words_in_range 8) t -> bus_inv 8 (last, l_pins st) ->
  (l_dc st = true \/ exists op args t', t = ECmd op args :: t') ->
  framed n t ->
  let '(ops, _, r) := par_run true md 8 last t in
  r = Ok tt /\ decode_items n None [] (wire_par st ops) = normalise t.
Proof. exact decode_par_transparent_8. Qed.

Theorem C01T_decode_par_transparent_16 : forall (md : mode) (t : list event) (last : option Z) (st : lines),
  Forall (words_in_range 16) t -> bus_inv 16 (last, l_pins st) ->
  (l_dc st = true \/ exists op args t', t = ECmd op args :: t') ->
  framed 1 t ->
  let '(ops, _, r) := par_run true md 16 last t in
  r = Ok tt /\ decode_items 1 None [] (wire_par st ops) = normalise t.
Proof. exact decode_par_transparent_16. Qed.

(* ---------------------------------------------------------------- 4. the picture does not change under normalise *)

(* one window and one whole-window repeat (hypotheses of ctl_window_repeat / ctl_window_pixels in
   Proofs/CtlP.v): seen as one rectangle or as a stream of equal pixels, every cell of the frame
   memory reads the same, and neither raises an anomaly *)
Theorem C01T_repeat_as_stream_mem : forall (k : ctl) (sx ex sy ey : Z) (ws : list Z),
  k_page k = false ->
  0 <= sx -> sx <= ex -> ex <= 65535 -> ex < col_extent k ->
  0 <= sy -> sy <= ey -> ey <= 65535 -> ey < page_extent k ->
  let k3 := ctl_run k [ECmd 0x2A (be16 sx ++ be16 ex); ECmd 0x2B (be16 sy ++ be16 ey); ECmd 0x2C []] in
  let c := (ex - sx + 1) * (ey - sy + 1) in
  (forall x y, mem (ctl_run k3 [ERepeat ws c]) x y = mem (ctl_run k3 [EPixels (repeat ws (Z.to_nat c))]) x y) /\
  k_flags (ctl_run k3 [ERepeat ws c]) = k_flags k /\
  k_flags (ctl_run k3 [EPixels (repeat ws (Z.to_nat c))]) = k_flags k.
Proof. exact repeat_as_stream_mem. Qed.

(* the general form, for ANY trace and ANY controller state: if the reference controller raises no
   anomaly on t, it shows the same picture, and raises no anomaly, on normalise t *)
Theorem C01T_normalise_unflagged_mem : forall (t : list event) (k : ctl),
  k_flags (ctl_run k t) = k_flags k ->
  (forall x y, mem (ctl_run k (normalise t)) x y = mem (ctl_run k t) x y) /\
  k_flags (ctl_run k (normalise t)) = k_flags k.
Proof. exact normalise_unflagged_mem. Qed.

(* well-formed drawing programs (hypotheses of exec_draw_program), all operations, fills included *)
Theorem C01T_normalise_same_picture : forall (c : ctx) (ops : list pop) (st : dstate) (k : ctl),
  valid_cfg c (d_opts st) -> madctl_ok st -> ctl_matches c (d_opts st) k ->
  (1 <= c_rowcap c)%nat -> (c_rowcap c <= c_blockcap c)%nat -> prog_wf (d_opts st) ops ->
  let t := exec_trace c st ops in
  (forall x y, mem (ctl_run k (normalise t)) x y = mem (ctl_run k t) x y) /\
  k_flags (ctl_run k (normalise t)) = k_flags k.
Proof. exact normalise_same_picture. Qed.

(* ---------------------------------------------------------------- 5. the driver's traffic meets the transports' hypotheses *)

(* the traffic of a well-formed drawing program is empty or starts with a command, is framed, its
   pixels have the encoder's word count, its repeat counts fit u32, its words fit the bus *)
Theorem C01T_exec_traffic_wf : forall (c : ctx) (ops : list pop) (st : dstate),
  valid_cfg c (d_opts st) -> madctl_ok st ->
  (1 <= c_rowcap c)%nat -> (c_rowcap c <= c_blockcap c)%nat -> prog_wf (d_opts st) ops ->
  let t := exec_trace c st ops in
  (t = [] \/ exists op args t', t = ECmd op args :: t') /\
  (forall n : nat, (forall col, length (c_enc c col) = n) -> framed n t) /\
  (forall n : Z, (forall col, Z.of_nat (length (c_enc c col)) = n) -> Forall (event_pixels_wf n) t) /\
  (forall w : nat, (forall col, Forall (fun x => 0 <= x < 2 ^ Z.of_nat w) (c_enc c col)) ->
                   Forall (words_in_range w) t).
Proof. exact exec_traffic_wf. Qed.

(* ---------------------------------------------------------------- 6. C01 at pin level *)

(* any L1 trace on which the controller raises no anomaly, carried over SPI *)
Theorem C01T_pin_level_mem_spi : forall (t : list event) (k : ctl) (n : Z) (buf : list Z) (dc0 : bool),
  k_flags (ctl_run k t) = k_flags k ->
  1 <= n -> n <= Z.of_nat (length buf) -> Z.of_nat (length buf) / n < 2 ^ 32 ->
  Forall (event_pixels_wf n) t -> framed (Z.to_nat n) t ->
  (dc0 = true \/ exists op args t', t = ECmd op args :: t') ->
  let '(l2, _, r) := spi_run true n buf t in
  r = Ok tt /\
  let k' := ctl_run k (decode_items (Z.to_nat n) None [] (wire_spi dc0 l2)) in
  (forall x y, mem k' x y = mem (ctl_run k t) x y) /\ k_flags k' = k_flags k.
Proof. exact pin_level_mem_spi. Qed.

(* ... and over a parallel bus *)
Theorem C01T_pin_level_mem_par : forall (t : list event) (k : ctl) (w : nat) (md : mode) (n : nat)
                                        (last : option Z) (st : lines),
  k_flags (ctl_run k t) = k_flags k ->
  (8 <= w)%nat -> (1 <= n)%nat -> Forall (words_in_range w) t -> bus_inv w (last, l_pins st) ->
  (l_dc st = true \/ exists op args t', t = ECmd op args :: t') ->
  framed n t ->
  let '(l2, _, r) := par_run true md w last t in
  r = Ok tt /\
  let k' := ctl_run k (decode_items n None [] (wire_par st l2)) in
  (forall x y, mem k' x y = mem (ctl_run k t) x y) /\ k_flags k' = k_flags k.
Proof. exact pin_level_mem_par. Qed.

(* THE property: a well-formed drawing program (hypotheses of exec_draw_program), an encoder giving n
   bytes per pixel, run over SPI with any staging buffer that holds at least one pixel (any stale
   content) and any initial DC level: the transport returns Ok; feeding the reference controller the
   events decoded from the pin-level log gives, for every cell of the frame memory, the content it has
   after the L1 trace, which is the last specified write to that cell; no anomaly is raised *)
Theorem C01T_pin_level_picture : forall (c : ctx) (ops : list pop) (st : dstate) (k : ctl)
                                        (n : Z) (buf : list Z) (dc0 : bool),
  valid_cfg c (d_opts st) -> madctl_ok st -> ctl_matches c (d_opts st) k ->
  (1 <= c_rowcap c)%nat -> (c_rowcap c <= c_blockcap c)%nat -> prog_wf (d_opts st) ops ->
  (forall col, Z.of_nat (length (c_enc c col)) = n) ->
  1 <= n -> n <= Z.of_nat (length buf) -> Z.of_nat (length buf) / n < 2 ^ 32 ->
  let o := d_opts st in
  let t := exec_trace c st ops in
  let '(l2, _, r) := spi_run true n buf t in
  r = Ok tt /\
  let k' := ctl_run k (decode_items (Z.to_nat n) None [] (wire_spi dc0 l2)) in
  (forall x y,
     mem k' x y = mem (ctl_run k t) x y /\
     mem k' x y = last_write (spec_prog_writes (c_enc c) (panel_of o) (o_orient o) ops) x y (mem k x y)) /\
  k_flags k' = k_flags k.
Proof. exact pin_level_picture_spi. Qed.

(* the same over the 8-bit parallel bus (n bytes per pixel), in either build profile, from any cache
   state consistent with the pins, any DC / WR level *)
Theorem C01T_pin_level_picture_par_8 : forall (c : ctx) (ops : list pop) (st : dstate) (k : ctl)
                                              (md : mode) (n : nat) (last : option Z) (lst : lines),
  valid_cfg c (d_opts st) -> madctl_ok st -> ctl_matches c (d_opts st) k ->
  (1 <= c_rowcap c)%nat -> (c_rowcap c <= c_blockcap c)%nat -> prog_wf (d_opts st) ops ->
  (1 <= n)%nat ->
  (forall col, length (c_enc c col) = n) ->
  (forall col, Forall (fun x => 0 <= x < 2 ^ Z.of_nat 8) (c_enc c col)) ->
  bus_inv 8 (last, l_pins lst) ->
  let o := d_opts st in
  let t := exec_trace c st ops in
  let '(l2, _, r) := par_run true md 8 last t in
  r = Ok tt /\
  let k' := ctl_run k (decode_items n None [] (wire_par lst l2)) in
  (forall x y,
     mem k' x y = mem (ctl_run k t) x y /\
     mem k' x y = last_write (spec_prog_writes (c_enc c) (panel_of o) (o_orient o) ops) x y (mem k x y)) /\
  k_flags k' = k_flags k.
Proof. exact pin_level_picture_par_8. Qed.

(* ... and over the 16-bit parallel bus (one bus word per pixel) *)
Theorem C01T_pin_level_picture_par_16 : forall (c : ctx) (ops : list pop) (st : dstate) (k : ctl)
                                               (md : mode) (last : option Z) (lst : lines),
  valid_cfg c (d_opts st) -> madctl_ok st -> ctl_matches c (d_opts st) k ->
  (1 <= c_rowcap c)%nat -> (c_rowcap c <= c_blockcap c)%nat -> prog_wf (d_opts st) ops ->
  (forall col, length (c_enc c col) = 1%nat) ->
  (forall col, Forall (fun x => 0 <= x < 2 ^ Z.of_nat 16) (c_enc c col)) ->
  bus_inv 16 (last, l_pins lst) ->
  let o := d_opts st in
  let t := exec_trace c st ops in
  let '(l2, _, r) := par_run true md 16 last t in
  r = Ok tt /\
  let k' := ctl_run k (decode_items 1 None [] (wire_par lst l2)) in
  (forall x y,
     mem k' x y = mem (ctl_run k t) x y /\
     mem k' x y = last_write (spec_prog_writes (c_enc c) (panel_of o) (o_orient o) ops) x y (mem k x y)) /\
  k_flags k' = k_flags k.
Proof. exact pin_level_picture_par_16. Qed.

(* any bus width >= 8 *)
Theorem C01T_pin_level_picture_par : forall (c : ctx) (ops : list pop) (st : dstate) (k : ctl)
                                            (w : nat) (md : mode) (n : nat) (last : option Z) (lst : lines),
  valid_cfg c (d_opts st) -> madctl_ok st -> ctl_matches c (d_opts st) k ->
  (1 <= c_rowcap c)%nat -> (c_rowcap c <= c_blockcap c)%nat -> prog_wf (d_opts st) ops ->
  (8 <= w)%nat -> (1 <= n)%nat ->
  (forall col, length (c_enc c col) = n) ->
  (forall col, Forall (fun x => 0 <= x < 2 ^ Z.of_nat w) (c_enc c col)) ->
  bus_inv w (last, l_pins lst) ->
  let o := d_opts st in
  let t := exec_trace c st ops in
  let '(l2, _, r) := par_run true md w last t in
  r = Ok tt /\
  let k' := ctl_run k (decode_items n None [] (wire_par lst l2)) in
  (forall x y,
     mem k' x y = mem (ctl_run k t) x y /\
     mem k' x y = last_write (spec_prog_writes (c_enc c) (panel_of o) (o_orient o) ops) x y (mem k x y)) /\
  k_flags k' = k_flags k.
Proof. exact pin_level_picture_par. Qed.

(* ---------------------------------------------------------------- non-vacuity *)
Definition c01t_trace : list event :=
  [ECmd 0x2A [0; 1; 0; 2]; ECmd 0x2B [0; 0; 0; 0]; ECmd 0x2C []; ERepeat [1; 2] 2].
Definition c01t_lines8 : lines := {| l_pins := repeat false 8; l_dc := true; l_wr := true |}.

(* the hypotheses on the traffic hold for it *)
Example C01T_ex_hyps :
  framed 2 c01t_trace /\ Forall (event_pixels_wf 2) c01t_trace /\ Forall (words_in_range 8) c01t_trace /\
  bus_inv 8 (None, l_pins c01t_lines8).
Proof.
  split; [|split; [|split]].
  - unfold c01t_trace. apply fr_cmd; [discriminate|]. apply fr_cmd; [discriminate|].
    apply fr_rep; [reflexivity | lia | constructor].
  - unfold c01t_trace. constructor; [exact I|]. constructor; [exact I|]. constructor; [exact I|].
    constructor; [|constructor]. cbn [event_pixels_wf]. split; [reflexivity | lia].
  - unfold c01t_trace. repeat (constructor; [cbn [words_in_range]; split; [lia | repeat (constructor; [lia|]); constructor]|]).
    constructor; [|constructor]. cbn [words_in_range]. split; [repeat (constructor; [lia|]); constructor | lia].
  - split; [reflexivity | exact I].
Qed.

(* through the SPI transport (5-byte staging buffer of stale 0xA5, so the 2-pixel repeat goes out in
   one 4-byte write), DC starting low: the pin-level items, and the decoded events *)
Example C01T_ex_spi :
  let '(ops, _, r) := spi_run true 2 (repeat 165 5) c01t_trace in
  r = Ok tt /\
  wire_spi false ops =
    [WByte false 42; WByte true 0; WByte true 1; WByte true 0; WByte true 2;
     WByte false 43; WByte true 0; WByte true 0; WByte true 0; WByte true 0;
     WByte false 44; WByte true 1; WByte true 2; WByte true 1; WByte true 2] /\
  decode_items 2 None [] (wire_spi false ops) =
    [ECmd 0x2A [0; 1; 0; 2]; ECmd 0x2B [0; 0; 0; 0]; ECmd 0x2C []; EPixels [[1; 2]; [1; 2]]] /\
  decode_items 2 None [] (wire_spi false ops) = normalise c01t_trace.
Proof. vm_compute. repeat split; reflexivity. Qed.

(* through the 8-bit parallel bus (the strobe-only fast path is not taken: 1 <> 2) *)
Example C01T_ex_par :
  let '(ops, _, r) := par_run true Debug 8 None c01t_trace in
  r = Ok tt /\
  decode_items 2 None [] (wire_par c01t_lines8 ops) =
    [ECmd 0x2A [0; 1; 0; 2]; ECmd 0x2B [0; 0; 0; 0]; ECmd 0x2C []; EPixels [[1; 2]; [1; 2]]] /\
  decode_items 2 None [] (wire_par c01t_lines8 ops) = normalise c01t_trace.
Proof. vm_compute. repeat split; reflexivity. Qed.

(* ... and a repeat of equal words, which IS sent as one word and bare strobes *)
Example C01T_ex_par_fast_path :
  let t := [ECmd 0x2C []; ERepeat [7; 7] 3; EDelay 5; ERstLow; ERstHigh] in
  let '(ops, _, r) := par_run true Debug 8 None t in
  r = Ok tt /\
  decode_items 2 None [] (wire_par c01t_lines8 ops) =
    [ECmd 0x2C []; EPixels [[7; 7]; [7; 7]; [7; 7]]; EDelay 5; ERstLow; ERstHigh] /\
  decode_items 2 None [] (wire_par c01t_lines8 ops) = normalise t.
Proof. vm_compute. repeat split; reflexivity. Qed.

(* the picture: a 4 x 4 controller; cells (1,0) and (2,0) read [1;2] whether the controller is fed the
   L1 trace (one rectangle) or the events decoded from the SPI pins (two pixels); cell (3,0) is untouched *)
Example C01T_ex_picture :
  let k := power_on 4 4 in
  let '(ops, _, _) := spi_run true 2 (repeat 165 5) c01t_trace in
  let k1 := ctl_run k c01t_trace in
  let k2 := ctl_run k (decode_items 2 None [] (wire_spi false ops)) in
  writes k1 = [WRect 1 0 2 0 [1; 2]] /\ writes k2 = [WPx 1 0 [1; 2]; WPx 2 0 [1; 2]] /\
  mem k1 1 0 = Some [1; 2] /\ mem k2 1 0 = Some [1; 2] /\
  mem k1 2 0 = Some [1; 2] /\ mem k2 2 0 = Some [1; 2] /\
  mem k1 3 0 = None /\ mem k2 3 0 = None /\
  k_flags k1 = [] /\ k_flags k2 = [].
Proof. vm_compute. repeat split; reflexivity. Qed.

(* why `framed` asks that RAMWR be followed by ONE pixel event: two bursts behind one RAMWR look like
   one on the wire (the decoder merges them; the picture is still the same) *)
Example C01T_ex_two_bursts_merge :
  let t := [ECmd 0x2C []; EPixels [[1; 2]]; EPixels [[3; 4]]] in
  decode_items 2 None [] (items_of t) = [ECmd 0x2C []; EPixels [[1; 2]; [3; 4]]] /\
  normalise t = t.
Proof. vm_compute. split; reflexivity. Qed.

Print Assumptions C01T_chunks_concat.
Print Assumptions C01T_decode_items_of.
Print Assumptions C01T_wire_spi_run.
Print Assumptions C01T_wire_par_run.
Print Assumptions C01T_wire_par_run_8.
Print Assumptions C01T_wire_par_run_16.
Print Assumptions C01T_decode_spi_transparent.
Print Assumptions C01T_decode_par_transparent_8.
Print Assumptions C01T_decode_par_transparent_16.
Print Assumptions C01T_repeat_as_stream_mem.
Print Assumptions C01T_normalise_unflagged_mem.
Print Assumptions C01T_normalise_same_picture.
Print Assumptions C01T_exec_traffic_wf.
Print Assumptions C01T_pin_level_mem_spi.
Print Assumptions C01T_pin_level_mem_par.
Print Assumptions C01T_pin_level_picture.
Print Assumptions C01T_pin_level_picture_par_8.
Print Assumptions C01T_pin_level_picture_par_16.
Print Assumptions C01T_pin_level_picture_par.
