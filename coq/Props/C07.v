(* C07 — parallel transport: values latched at each write strobe are the words sent. Statements only. *)
Require Import Model.Base Model.Events Model.Parallel Proofs.ParallelP.

(* ---- the change-mask cache of Generic8BitBus / Generic16BitBus ---- *)

(* `new` establishes the invariant: cache empty, pins in any state *)
Theorem C07_bus_inv_new : forall (w : nat) (pins : list bool), length pins = w -> bus_inv w (None, pins).
Proof. exact bus_inv_new. Qed.

(* one set_value call keeps "cache = Some v -> the pins show v", whichever pin write fails (if any)
   and whether or not the failed write moved the pin *)
Theorem C07_bus_call_inv : forall (w : nat) (st : option Z * list bool) (c : bus_call),
  bus_inv w st -> 0 <= bc_value c < 2 ^ Z.of_nat w -> bus_inv w (bus_call_step w st c).
Proof. exact bus_call_inv. Qed.

(* ... hence over every history of calls and every fault pattern *)
Theorem C07_bus_history_inv : forall (w : nat) (h : list bus_call) (st : option Z * list bool),
  bus_inv w st -> Forall (fun c => 0 <= bc_value c < 2 ^ Z.of_nat w) h -> bus_inv w (bus_history w st h).
Proof. exact bus_history_inv. Qed.

(* after every successful set_value v the pins show v, even after earlier failures *)
Theorem C07_bus_call_success : forall (w : nat) (st : option Z * list bool) (c : bus_call),
  bus_inv w st -> 0 <= bc_value c < 2 ^ Z.of_nat w ->
  (bc_fail c = None \/
   exists k : nat, bc_fail c = Some k /\ (length (fst (bus_set_value w (fst st) (bc_value c))) <= k)%nat) ->
  fst (bus_call_step w st c) = Some (bc_value c) /\
  data_value (snd (bus_call_step w st c)) = bc_value c.
Proof. exact bus_call_success. Qed.

Theorem C07_bus_history_last_success : forall (w : nat) (h : list bus_call) (st : option Z * list bool) (c : bus_call),
  bus_inv w st -> Forall (fun c => 0 <= bc_value c < 2 ^ Z.of_nat w) (h ++ [c]) ->
  bc_fail c = None ->
  fst (bus_history w st (h ++ [c])) = Some (bc_value c) /\
  data_value (snd (bus_history w st (h ++ [c]))) = bc_value c.
Proof. exact bus_history_last_success. Qed.

(* ---- ParallelInterface ---- *)

(* send_word: exactly one rising edge of WR, at which the data pins show the word — for any initial
   WR level, and also on a cache hit where no pin is touched *)
Theorem C07_par_word_latched : forall (w : nat) (last : option Z) (word : Z) (st : lines),
  bus_inv w (last, l_pins st) -> 0 <= word < 2 ^ Z.of_nat w ->
  let '(ops, l') := par_send_word w last word in
  sample_par st ops = [(l_dc st, word)] /\
  bus_inv w (l', l_pins (lines_after st ops)) /\
  l_wr (lines_after st ops) = true /\ l_dc (lines_after st ops) = l_dc st.
Proof. exact par_word_latched. Qed.

(* send_repeated_pixel (fixed tree), both paths, both build profiles: `count` copies of the pixel
   are latched; on the strobe-only path the pins do not move, so every bare strobe latches the same
   word *)
Theorem C07_par_repeat_latched : forall (w : nat) (md : mode) (last : option Z) (pixel : list Z) (count : Z) (st : lines),
  bus_inv w (last, l_pins st) -> Forall (fun x => 0 <= x < 2 ^ Z.of_nat w) pixel -> 0 <= count ->
  let '(ops, l', r) := par_send_repeated true md w last pixel count in
  r = Ok tt /\ sample_par st ops = map (pair (l_dc st)) (concat (repeat pixel (Z.to_nat count))) /\
  bus_inv w (l', l_pins (lines_after st ops)) /\ l_dc (lines_after st ops) = l_dc st.
Proof. exact par_repeat_latched. Qed.

Theorem C07_par_repeat_fast_path_shape : forall (w : nat) (md : mode) (last : option Z) (pixel : list Z) (count word : Z),
  count <> 0 -> is_same pixel = Some word ->
  par_send_repeated true md w last pixel count =
  (fst (par_send_word w last word) ++ strobes (count * Z.of_nat (length pixel) - 1),
   snd (par_send_word w last word), Ok tt).
Proof. exact par_repeat_fast_path_shape. Qed.

(* transparency: for every L1 trace the panel latches exactly latch_of t. The bus must be at least
   8 bits wide: command and argument bytes (< 256) do not fit a narrower bus (see the counterexample
   below); the crate instantiates 8 and 16. *)
Theorem C07_par_run_latched : forall (w : nat) (md : mode) (t : list event) (last : option Z) (st : lines),
  (8 <= w)%nat -> Forall (words_in_range w) t -> bus_inv w (last, l_pins st) ->
  (l_dc st = true \/ exists op args t', t = ECmd op args :: t') ->
  let '(ops, l', r) := par_run true md w last t in
  r = Ok tt /\ sample_par st ops = latch_of t /\ bus_inv w (l', l_pins (lines_after st ops)).
Proof. exact par_run_latched_partial. Qed.

Theorem C07_par_run_latched_8 : forall (md : mode) (t : list event) (last : option Z) (st : lines),
  Forall (words_in_range 8) t -> bus_inv 8 (last, l_pins st) ->
  (l_dc st = true \/ exists op args t', t = ECmd op args :: t') ->
  let '(ops, l', r) := par_run true md 8 last t in
  r = Ok tt /\ sample_par st ops = latch_of t /\ bus_inv 8 (l', l_pins (lines_after st ops)).
Proof. exact par_run_latched_8. Qed.

Theorem C07_par_run_latched_16 : forall (md : mode) (t : list event) (last : option Z) (st : lines),
  Forall (words_in_range 16) t -> bus_inv 16 (last, l_pins st) ->
  (l_dc st = true \/ exists op args t', t = ECmd op args :: t') ->
  let '(ops, l', r) := par_run true md 16 last t in
  r = Ok tt /\ sample_par st ops = latch_of t /\ bus_inv 16 (l', l_pins (lines_after st ops)).
Proof. exact par_run_latched_16. Qed.

(* no extra and no missing strobe *)
Theorem C07_par_strobe_count : forall (w : nat) (md : mode) (t : list event) (last : option Z) (st : lines),
  (8 <= w)%nat -> Forall (words_in_range w) t -> bus_inv w (last, l_pins st) ->
  (l_dc st = true \/ exists op args t', t = ECmd op args :: t') ->
  count_wr_rising st (fst (fst (par_run true md w last t))) = Z.of_nat (length (latch_of t)).
Proof. exact par_strobe_count_partial. Qed.

(* why `8 <= w`: on a 1-bit bus the command 44 satisfies words_in_range but the panel latches 0 *)
Example C07_narrow_bus_counterexample :
  let st := {| l_pins := [false]; l_dc := true; l_wr := true |} in
  Forall (words_in_range 1) [ECmd 44 []] /\ bus_inv 1 (None, l_pins st) /\
  sample_par st (fst (fst (par_run true Debug 1 None [ECmd 44 []]))) = [(false, 0)] /\
  latch_of [ECmd 44 []] = [(false, 44)].
Proof. exact par_run_latched_narrow_bus_counterexample. Qed.

(* ---- finding F5 on the pinned tree (`fixed = false`): count * N formed in u32 ---- *)
Example C07_f5_debug_panics :
  snd (par_send_repeated false Debug 8 None [5; 5] (2 ^ 31)) = Panic.
Proof. vm_compute. reflexivity. Qed.

(* release: Ok, but ONE strobe instead of 2^32 *)
Example C07_f5_release_one_strobe :
  snd (par_send_repeated false Release 8 None [5; 5] (2 ^ 31)) = Ok tt /\
  length (filter (l2op_eqb (OWr true)) (fst (fst (par_send_repeated false Release 8 None [5; 5] (2 ^ 31))))) = 1%nat.
Proof. split; vm_compute; reflexivity. Qed.

(* ---- non-vacuity ---- *)
Definition c07_st0 : lines := {| l_pins := repeat true 8; l_dc := true; l_wr := true |}.
Definition c07_trace : list event := [ECmd 44 []; EPixels [[1; 2]; [2; 2]]; ERepeat [7; 7] 3].

Example C07_run_example :
  sample_par c07_st0 (fst (fst (par_run true Debug 8 None c07_trace))) =
  [(false, 44); (true, 1); (true, 2); (true, 2); (true, 2);
   (true, 7); (true, 7); (true, 7); (true, 7); (true, 7); (true, 7)] /\
  snd (par_run true Debug 8 None c07_trace) = Ok tt /\
  latch_of c07_trace = sample_par c07_st0 (fst (fst (par_run true Debug 8 None c07_trace))).
Proof. repeat split; vm_compute; reflexivity. Qed.

(* the hypotheses of C07_par_run_latched hold for it *)
Example C07_run_example_hyps :
  Forall (words_in_range 8) c07_trace /\ bus_inv 8 (None, l_pins c07_st0).
Proof.
  split; [|split; [reflexivity | exact I]].
  repeat constructor; cbn; lia.
Qed.

(* the strobe-only path is exercised: [7;7] x 3 is one send_word and five bare strobes, and the data
   pins are written only for the first word *)
Example C07_fast_path_example :
  fst (fst (par_send_repeated true Debug 8 (Some 7) [7; 7] 3)) =
  [OWr false; OWr true; OWr false; OWr true; OWr false; OWr true;
   OWr false; OWr true; OWr false; OWr true; OWr false; OWr true].
Proof. vm_compute. reflexivity. Qed.

(* a pin fault in the middle of set_value: 0xF0 -> 0x0F, the third pin write fails (it did / did not
   move the pin); the cache is empty afterwards and the next successful call rewrites every pin *)
Definition c07_pins_f0 : list bool := [false; false; false; false; true; true; true; true].

Example C07_history_fault_example :
  bus_inv 8 (Some 0xF0, c07_pins_f0) /\
  bus_history 8 (Some 0xF0, c07_pins_f0) [{| bc_value := 0x0F; bc_fail := Some 2%nat; bc_eff := true |}] =
    (None, [true; true; true; false; true; true; true; true]) /\
  bus_history 8 (Some 0xF0, c07_pins_f0) [{| bc_value := 0x0F; bc_fail := Some 2%nat; bc_eff := false |}] =
    (None, [true; true; false; false; true; true; true; true]) /\
  (forall eff : bool,
     let st := bus_history 8 (Some 0xF0, c07_pins_f0)
                 [{| bc_value := 0x0F; bc_fail := Some 2%nat; bc_eff := eff |};
                  {| bc_value := 0xA5; bc_fail := None; bc_eff := false |}] in
     fst st = Some 0xA5 /\ data_value (snd st) = 0xA5 /\
     snd st = [true; false; true; false; false; true; false; true]).
Proof.
  split; [split; [reflexivity | cbn [fst snd]; split; [vm_compute; reflexivity | lia]]|].
  split; [vm_compute; reflexivity|]. split; [vm_compute; reflexivity|].
  intros [|]; vm_compute; repeat split; reflexivity.
Qed.

(* a cache hit touches no pin and still latches the word *)
Example C07_cache_hit_example :
  par_send_word 8 (Some 0xF0) 0xF0 = ([OWr false; OWr true], Some 0xF0) /\
  sample_par {| l_pins := c07_pins_f0; l_dc := true; l_wr := true |} [OWr false; OWr true] = [(true, 0xF0)].
Proof. split; vm_compute; reflexivity. Qed.
